import FinamModel.Props.C05Run
open Finam Finam.Props.C05Run
#eval (runLoopOrd [0, 1, 2] 100 exState 4 []).1
#eval (runLoopOrd [2, 1, 0] 100 exState 4 []).1
#eval (runLoop 100 exState 4 []).1
set_option maxRecDepth 8000 in
example : (runLoopOrd [0, 1, 2] 9 exState 4 []).2.1 = .done ∧ (runLoopOrd [2, 1, 0] 9 exState 4 []).2.1 = .done
   ∧ (runLoop 9 exState 4 []).2.1 = .done
   ∧ (runLoopOrd [0, 1, 2] 9 exState 4 []).1 ≠ (runLoopOrd [2, 1, 0] 9 exState 4 []).1
   ∧ (runLoopOrd [0, 1, 2] 9 exState 4 []).2.2.comps.map getNow = (runLoopOrd [2, 1, 0] 9 exState 4 []).2.2.comps.map getNow := by
  simp [runLoop, select, selectAux, runLoopOrd, selectOrd, updateRec, depsLoop, findDeps, exState, State.comp, State.out, walk, depsInsert, Comp.isTime,
    applyUpdate, pullAll, pullChain, anyRunning, Ad.withDelay, getNow]
