import FinamModel.DriverTr
open Finam.Driver.TrV

/-- evaluates the translated definitions on request lines (translation validation) -/
partial def loopTr (hin : IO.FS.Stream) (hout : IO.FS.Stream) : IO Unit := do
  let line ← hin.getLine
  if line.isEmpty then return ()
  hout.putStrLn (step line)
  hout.flush
  loopTr hin hout

def main : IO Unit := do
  loopTr (← IO.getStdin) (← IO.getStdout)
