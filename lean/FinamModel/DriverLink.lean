import FinamModel.DriverUtil
import FinamModel.Link
/-! Driver handler for the link model (C08). -/
namespace Finam.Driver.C08
open Lean Finam.Link Finam.Driver

def parseUnit (j : Json) : LUnit :=
  ⟨(getArr j "dim").map asInt, asRat (getObj j "factor"), asRat (getObj j "offset")⟩

def parseOptUnit (j : Json) (k : String) : Option LUnit :=
  if hasKey j k then some (parseUnit (getObj j k)) else none

def parseGrid (j : Json) : GridKind :=
  if getStr j "kind" == "nogrid" then .noGrid (getNat j "dim")
  else .grid ((getArr j "shape").map asNat) (getBool j "orderF")

def jArr (a : Arr) : Json :=
  Json.mkObj [("shape", jList jNat a.shape), ("data", jList jRat a.data)]

/-- C08: a sequence of pushes and pulls over one link -/
def handle (j : Json) : Json :=
  let g := parseGrid (getObj j "grid")
  let ou := parseUnit (getObj j "out_units")
  let iu := parseUnit (getObj j "in_units")
  let evs := getArr j "events"
  let rec go (o : LinkOut) (evs : List Json) (acc : List Json) : List Json :=
    match evs with
    | [] => acc.reverse
    | e :: rest =>
      if getStr e "op" == "push" then
        let a : Arr := ⟨(getArr e "shape").map asNat, (getArr e "data").map asRat⟩
        match push g ou o (getInt e "t") (parseOptUnit e "units") (getNat e "buf") a with
        | .ok o' => go o' rest (Json.mkObj [("ok", Json.null)] :: acc)
        | .error er => go o rest (jErr er :: acc)
      else
        go o rest (jRes jArr (pull g ou iu o (getInt e "t")) :: acc)
  Json.mkObj [("results", Json.arr (go ⟨[], none⟩ evs []).toArray)]

end Finam.Driver.C08
