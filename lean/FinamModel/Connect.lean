import FinamModel.Output
/-!
  Model of the iterative connect phase:
  `finam/tools/connect_helper.py` (`ConnectHelper.connect`, `_apply_in_info_rules`,
  `_apply_out_info_rules`, `_exchange_in_infos`, `_push`, `_push_data`),
  `finam/sdk/component.py` (`Component.connect`: first call = ping only; `try_connect`),
  `finam/schedule.py` (`Composition._connect_components`).

  Layer A (exchange level).  What a component has to exchange is a set of *items*
  (`inInfo`, `outInfoPushed`, `outInfoRead`, `dataPushed`, `inData`).  One `connect` call attempts a
  fixed sequence of items (`callItems`); an attempt succeeds when the item's *delivery* condition
  (`deliver`: state of the *other* side, evaluated at the moment of the attempt —
  `FinamNoDataError` otherwise, i.e. retry) holds.  What the component itself has to provide
  (`prov`: infos/data passed to `try_connect` once some of its own items are done, infos composed by
  transfer rules `FromInput` / `FromOutput` / `FromValue`) is evaluated on the state at the
  *beginning* of the call and goes through the helper's caches.

  Layer B (time level).  What happens on one link (adapter chain) during the initial push(es) and
  the initial pull: `linkInit`, `linkPull`.
-/
namespace Finam.Connect
open Finam

/-! ## Layer A: items, specification of a composition -/

/-- the five kinds of exchanges; `c` = component index, `i`/`o` = input/output index -/
inductive Item where
  /-- `connector.in_infos[i]` exchanged (`Input.exchange_info` went through to the source output) -/
  | inInfo (c i : Nat)
  /-- `connector.infos_pushed[o]` (`Output.push_info` done; `True` from the start for declared infos) -/
  | outInfoPushed (c o : Nat)
  /-- `connector.out_infos[o]` read back (`Output.info` succeeded) -/
  | outInfoRead (c o : Nat)
  /-- `connector.data_pushed[o]` -/
  | dataPushed (c o : Nat)
  /-- `connector.in_data[i]` pulled (only for inputs listed in `pull_data`) -/
  | inData (c i : Nat)
deriving DecidableEq, Repr

def Item.comp : Item → Nat
  | .inInfo c _ | .outInfoPushed c _ | .outInfoRead c _ | .dataPushed c _ | .inData c _ => c

/-- reference to an own item of a component: `FromInput(i)` / `connector.in_infos[i] is not None`,
    `FromOutput(o)` / `connector.out_infos[o] is not None`, `connector.in_data[i] is not None` -/
inductive LRef where
  | inInfo (i : Nat)
  | outInfo (o : Nat)
  | inData (i : Nat)
deriving DecidableEq, Repr

def LRef.item (c : Nat) : LRef → Item
  | .inInfo i => .inInfo c i
  | .outInfo o => .outInfoRead c o
  | .inData i => .inData c i

/-- where the `Info` of a slot comes from -/
inductive InfoSrc where
  /-- given when the slot is created in `_initialize` -/
  | declared
  /-- `in_info_rules` / `out_info_rules` entry; the list holds the `FromInput`/`FromOutput`
      references (`FromValue` needs nothing) -/
  | rule (refs : List LRef)
  /-- passed by the component's `_connect` (`exchange_infos=` / `push_infos=`) in every call in which
      all the listed own items are done -/
  | provided (when : List LRef)
deriving DecidableEq, Repr

/-- adapters on a link, as far as the connect phase is concerned -/
inductive Ad where
  /-- pass-through adapter (`Scale`, …): forwards request time and end point -/
  | pass
  /-- push-based caching adapter (`TimeCachingAdapter`: `NextTime`, `PreviousTime`, `LinearTime`, `StepTime`) -/
  | cache
  | dfix (d : Int)
  | dpull (steps : Nat) (add : Int)
  | dpush
deriving DecidableEq, Repr

structure InSpec where
  /-- (component, output index) of the source output -/
  src : Nat × Nat
  info : InfoSrc
  /-- listed in `pull_data` -/
  pull : Bool
  /-- adapters between the source output and this input, listed from the input side
      (the order of the `inp.source` walk) -/
  chain : List Ad
deriving DecidableEq, Repr

structure OutSpec where
  info : InfoSrc
  /-- the component passes `push_data={o: …}` in every call in which these own items are done -/
  dataWhen : List LRef
  /-- the initial value it publishes -/
  val : Int
deriving DecidableEq, Repr

structure CompSpec where
  ins : List InSpec
  outs : List OutSpec
  /-- `create_connector(cache=…)` -/
  cache : Bool
  /-- the component's own start time = `time` of the infos of its outputs -/
  start : Int
deriving DecidableEq, Repr

structure Spec where
  comps : List CompSpec
  /-- start time of the composition (`Composition.connect(start_time)`) -/
  start : Int
deriving DecidableEq, Repr

def Spec.inp? (S : Spec) (c i : Nat) : Option InSpec :=
  match S.comps[c]? with
  | some cs => cs.ins[i]?
  | none => none

def Spec.out? (S : Spec) (c o : Nat) : Option OutSpec :=
  match S.comps[c]? with
  | some cs => cs.outs[o]?
  | none => none

def InfoSrc.refs : InfoSrc → List LRef
  | .declared => []
  | .rule r => r
  | .provided w => w

/-- what the component itself must have completed before it can *provide* the item
    (evaluated at the beginning of a call) -/
def prov (S : Spec) : Item → List Item
  | .inInfo c i => match S.inp? c i with
    | some x => x.info.refs.map (LRef.item c)
    | none => []
  | .outInfoPushed c o => match S.out? c o with
    | some x => x.info.refs.map (LRef.item c)
    | none => []
  | .dataPushed c o => match S.out? c o with
    | some x => x.dataWhen.map (LRef.item c)
    | none => []
  | .outInfoRead _ _ => []
  | .inData _ _ => []

/-- inputs `(c', i)` whose source is output `(c, o)`, in component / input order -/
def insFrom (c o c' : Nat) (cs : CompSpec) : List (Nat × Nat) :=
  ((List.range cs.ins.length).filter fun i =>
      match cs.ins[i]? with
      | some x => x.src == (c, o)
      | none => false).map fun i => (c', i)

def targets (S : Spec) (c o : Nat) : List (Nat × Nat) :=
  (List.range S.comps.length).flatMap fun c' =>
    match S.comps[c']? with
    | some cs => insFrom c o c' cs
    | none => []

/-- what must hold on the other side at the moment of the attempt (otherwise `FinamNoDataError`):
    * `Input.exchange_info` → `Output.get_info`: the source output has an info;
    * `Output.info`: has an info and every registered end point has exchanged;
    * `ConnectHelper._push`: info pushed and out-info read back;
    * `Input.pull_data` → `Output.get_data`: own in-info exchanged, data published at the source
      (a push-based adapter on the link was filled by the same publication). -/
def deliver (S : Spec) : Item → List Item
  | .inInfo c i => match S.inp? c i with
    | some x => [.outInfoPushed x.src.1 x.src.2]
    | none => []
  | .outInfoPushed _ _ => []
  | .outInfoRead c o => .outInfoPushed c o :: (targets S c o).map fun t => .inInfo t.1 t.2
  | .dataPushed c o => [.outInfoPushed c o, .outInfoRead c o]
  | .inData c i => match S.inp? c i with
    | some x => [.inInfo c i, .dataPushed x.src.1 x.src.2]
    | none => [.inInfo c i]

/-- all preconditions of an item: the dependency rule system of the connect phase -/
def pre (S : Spec) (x : Item) : List Item := prov S x ++ deliver S x

/-- the items of one component = the five completeness tests at the end of `ConnectHelper.connect` -/
def itemsOf (c : Nat) (cs : CompSpec) : List Item :=
  (List.range cs.ins.length).map (Item.inInfo c)
  ++ (List.range cs.outs.length).map (Item.outInfoRead c)
  ++ ((List.range cs.ins.length).filter fun i =>
        match cs.ins[i]? with
        | some x => x.pull
        | none => false).map (Item.inData c)
  ++ (List.range cs.outs.length).map (Item.outInfoPushed c)
  ++ (List.range cs.outs.length).map (Item.dataPushed c)

def items (S : Spec) (c : Nat) : List Item :=
  match S.comps[c]? with
  | some cs => itemsOf c cs
  | none => []

def allItems (S : Spec) : List Item := (List.range S.comps.length).flatMap (items S)

/-- least fixed point of the rule system, restricted to the declared items -/
inductive Derivable (S : Spec) : Item → Prop where
  | mk (x : Item) : x ∈ allItems S → (∀ p ∈ pre S x, Derivable S p) → Derivable S x

/-! ### one attempt -/

def holds (d : List Item) (l : List Item) : Bool := l.all fun p => d.contains p

/-- one attempt at item `x` on the exchanged set `d` -/
def fire (S : Spec) (d : List Item) (x : Item) : List Item :=
  if !d.contains x && holds d (deliver S x) then x :: d else d

/-! ### one `ConnectHelper.connect` call -/

/-- does the call put item `x` of component `c` into the caches?  `d`, `cache` = state at the beginning
    of the call.  Mirrors the argument filters at the top of `connect`
    (`in_infos[k] is None` / `out_infos[k] is None` / `not data_pushed[k]`) and
    `_apply_in_info_rules` / `_apply_out_info_rules`
    (`in_infos[name] is None and (not self._cache or name not in _in_info_cache)`,
     `not infos_pushed[name] and (not self._cache or name not in _out_info_cache)`, all referenced
     infos present).  `con` = `self._cache`. -/
def wants (S : Spec) (c : Nat) (con : Bool) (d cache : List Item) : Item → Bool
  | .inInfo c' i => c' == c && match S.inp? c i with
    | some x => match x.info with
      | .declared => false
      | .rule _ => !d.contains (.inInfo c i) && (!con || !cache.contains (.inInfo c i)) && holds d (prov S (.inInfo c i))
      | .provided _ => !d.contains (.inInfo c i) && holds d (prov S (.inInfo c i))
    | none => false
  | .outInfoPushed c' o => c' == c && match S.out? c o with
    | some x => match x.info with
      | .declared => false
      | .rule _ => !d.contains (.outInfoPushed c o) && (!con || !cache.contains (.outInfoPushed c o))
                    && holds d (prov S (.outInfoPushed c o))
      | .provided _ => !d.contains (.outInfoRead c o) && holds d (prov S (.outInfoPushed c o))
    | none => false
  | .dataPushed c' o => c' == c && match S.out? c o with
    | some _ => !d.contains (.dataPushed c o) && holds d (prov S (.dataPushed c o))
    | none => false
  | .outInfoRead _ _ => false
  | .inData _ _ => false

/-- the items a component can provide -/
def candidates (c : Nat) (cs : CompSpec) : List Item :=
  (List.range cs.ins.length).map (Item.inInfo c)
  ++ (List.range cs.outs.length).map (Item.outInfoPushed c)
  ++ (List.range cs.outs.length).map (Item.dataPushed c)

def newProv (S : Spec) (c : Nat) (cs : CompSpec) (d cache : List Item) : List Item :=
  (candidates c cs).filter (wants S c cs.cache d cache)

/-- caches after the merge: `cache=True` → `update`, `cache=False` → replaced by this call's items -/
def callCache (S : Spec) (c : Nat) (cs : CompSpec) (d cache : List Item) : List Item :=
  if cs.cache then cache ++ newProv S c cs d cache
  else cache.filter (fun x => x.comp != c) ++ newProv S c cs d cache

def isDeclared : InfoSrc → Bool
  | .declared => true
  | _ => false

def isInInfoOf (c : Nat) : Item → Bool
  | .inInfo c' _ => c' == c
  | _ => false
def isOutInfoPushedOf (c : Nat) : Item → Bool
  | .outInfoPushed c' _ => c' == c
  | _ => false
def isDataPushedOf (c : Nat) : Item → Bool
  | .dataPushed c' _ => c' == c
  | _ => false

/-- the attempts of one call, in the order of `ConnectHelper.connect`:
    `_exchange_in_infos` (inputs with an own info, then the cached ones), out-info read-back,
    `_push` (cached out-infos, cached data), pulls. -/
def callItems (c : Nat) (cs : CompSpec) (cache' : List Item) : List Item :=
  ((List.range cs.ins.length).filter fun i =>
      match cs.ins[i]? with
      | some x => isDeclared x.info
      | none => false).map (Item.inInfo c)
  ++ cache'.filter (isInInfoOf c)
  ++ (List.range cs.outs.length).map (Item.outInfoRead c)
  ++ cache'.filter (isOutInfoPushedOf c)
  ++ cache'.filter (isDataPushedOf c)
  ++ ((List.range cs.ins.length).filter fun i =>
        match cs.ins[i]? with
        | some x => x.pull
        | none => false).map (Item.inData c)

inductive Status where
  | initialized | connecting | idle | connected
deriving DecidableEq, Repr

def callDone (S : Spec) (c : Nat) (cs : CompSpec) (d cache : List Item) : List Item :=
  (callItems c cs (callCache S c cs d cache)).foldl (fire S) d

/-- status returned by the call: CONNECTED iff the five maps are complete, else CONNECTING iff
    `any_done`, else CONNECTING_IDLE -/
def callStatus (c : Nat) (cs : CompSpec) (d d' : List Item) : Status :=
  if holds d' (itemsOf c cs) then .connected
  else if d.length < d'.length then .connecting
  else .idle

/-- one `ConnectHelper.connect` call of component `c` on the exchanged set `d` and the caches:
    new exchanged set, new caches, returned status -/
def connectCall (S : Spec) (c : Nat) (cs : CompSpec) (d cache : List Item) : List Item × List Item × Status :=
  (callDone S c cs d cache, callCache S c cs d cache, callStatus c cs d (callDone S c cs d cache))

/-! ### `Composition._connect_components` -/

structure LogEntry where
  comp : Nat
  status : Status
  /-- items exchanged by this call, in the order they were exchanged -/
  fired : List Item
deriving DecidableEq, Repr

structure LState where
  done : List Item
  cache : List Item
  /-- `comp.status` by component index -/
  status : List Status
  /-- one entry per `comp.connect` call -/
  log : List LogEntry
deriving DecidableEq, Repr

structure Flags where
  unconnected : Bool
  progress : Bool
deriving DecidableEq, Repr

/-- infos given at creation are pushed from the start (`_pushed_infos = {name: out.has_info()}`) -/
def initDone (S : Spec) : List Item :=
  (List.range S.comps.length).flatMap fun c =>
    match S.comps[c]? with
    | some cs => ((List.range cs.outs.length).filter fun o =>
        match cs.outs[o]? with
        | some x => isDeclared x.info
        | none => false).map (Item.outInfoPushed c)
    | none => []

def initState (S : Spec) : LState :=
  ⟨initDone S, [], List.replicate S.comps.length .initialized, []⟩

def newItems (d d' : List Item) : List Item := (d'.take (d'.length - d.length)).reverse

/-- body of the `for comp in self._components` loop -/
def stepComp (S : Spec) (sf : LState × Flags) (c : Nat) : LState × Flags :=
  match sf.1.status[c]?, S.comps[c]? with
  | some .connected, _ => sf
  | some .initialized, _ =>
    -- `Component.connect`: ping phase, status CONNECTING
    ({ sf.1 with status := sf.1.status.set c .connecting,
                 log := sf.1.log ++ [⟨c, .connecting, []⟩] }, ⟨true, true⟩)
  | some _, some cs =>
    ({ done := callDone S c cs sf.1.done sf.1.cache,
       cache := callCache S c cs sf.1.done sf.1.cache,
       status := sf.1.status.set c (callStatus c cs sf.1.done (callDone S c cs sf.1.done sf.1.cache)),
       log := sf.1.log ++ [⟨c, callStatus c cs sf.1.done (callDone S c cs sf.1.done sf.1.cache),
                            newItems sf.1.done (callDone S c cs sf.1.done sf.1.cache)⟩] },
     ⟨sf.2.unconnected || callStatus c cs sf.1.done (callDone S c cs sf.1.done sf.1.cache) != .connected,
      sf.2.progress || callStatus c cs sf.1.done (callDone S c cs sf.1.done sf.1.cache) != .idle⟩)
  | _, _ => sf

def iter (S : Spec) (order : List Nat) (st : LState) : LState × Flags :=
  order.foldl (stepComp S) (st, ⟨false, false⟩)

inductive Outcome where
  | ok (st : LState)
  /-- `FinamCircularCouplingError`, with the listed unconnected components -/
  | circular (st : LState) (names : List Nat)
  | outOfFuel (st : LState)
deriving DecidableEq, Repr

def unconnectedOf (order : List Nat) (st : LState) : List Nat :=
  order.filter fun c => st.status[c]? != some .connected

/-- the `while True` loop -/
def connectLoop (S : Spec) (order : List Nat) : Nat → LState → Outcome
  | 0, st => .outOfFuel st
  | fuel + 1, st =>
    if (iter S order st).2.unconnected = false then .ok (iter S order st).1
    else if (iter S order st).2.progress = false then
      .circular (iter S order st).1 (unconnectedOf order (iter S order st).1)
    else connectLoop S order fuel (iter S order st).1

/-- an explicit iteration bound: every iteration that goes on pings a component, exchanges an item or
    connects a component -/
def bound (S : Spec) : Nat := (allItems S).length + 2 * S.comps.length + 1

def connect (S : Spec) (order : List Nat) : Outcome := connectLoop S order (bound S) (initState S)

/-! ## Layer B: one link during the connect phase -/

structure AdSt where
  kind : Ad
  /-- `TimeCachingAdapter.data` -/
  buf : List (Entry Int)
  /-- `DelayToPush.push_time` -/
  pushTime : Option Int
  /-- `DelayToPull._pulls` -/
  pulls : List Int
deriving DecidableEq, Repr

def AdSt.init (k : Ad) : AdSt := ⟨k, [], none, []⟩

/-- `DelayFixed.with_delay`; `p` = `initial_time` = `time` of the exchanged info -/
def dfixDelay (p d t : Int) : Int := if t - d < p then min t p else t - d

/-- `DelayToPull.with_delay` on the list of recorded pulls (after `_pulls.append(initial_time)` if empty) -/
def dpullDelay (p add : Int) (pulls : List Int) (t : Int) : Int :=
  min t (if pulls.headD p - add < p then p else pulls.headD p - add)

/-- `DelayToPull._pulled`: append, keep the last `steps` -/
def dpullRecord (steps : Nat) (pulls : List Int) (t : Int) : List Int :=
  (pulls ++ [t]).drop ((pulls ++ [t]).length - steps)

/-- `DelayToPush.with_delay` -/
def dpushDelay (p : Int) (pt : Option Int) (t : Int) : Int :=
  match pt with
  | none => p
  | some q => if t > q then q else t

/-- value served by a caching adapter: the interpolation adapters all return a combination of the
    bracketing entries; during connect every entry carries the same payload, the model takes the first
    entry not older than the request -/
def bufValue : List (Entry Int) → Int → Int
  | [], _ => 0
  | [e], _ => e.v
  | e :: es, t => if t ≤ e.t then e.v else bufValue es t

/-- `TimeCachingAdapter._get_data`: empty → `FinamNoDataError`, `check_time` on the buffered range -/
def cacheGet (buf : List (Entry Int)) (t : Int) : Except Err Int :=
  match buf with
  | [] => .error .noData
  | e0 :: es => if t < e0.t ∨ t > lastT e0 es then .error .timeErr else .ok (bufValue (e0 :: es) t)

/-- `Input.pull_data` through the adapters (listed from the consumer side) down to `Output.get_data`;
    `p` = info time of the source output, `out` = what the output holds.  Returns the value and the new
    adapter states (`_pulled`). -/
def pullChain (p : Int) (out : List (Entry Int)) : List AdSt → Int → Except Err (Int × List AdSt)
  | [], t => (lookup out t).map fun v => (v, [])
  | a :: rest, t =>
    match a.kind with
    | .pass => (pullChain p out rest t).map fun r => (r.1, a :: r.2)
    | .cache => (cacheGet a.buf t).map fun v => (v, a :: rest)
    | .dfix d => (pullChain p out rest (dfixDelay p d t)).map fun r => (r.1, a :: r.2)
    | .dpull steps add =>
      (pullChain p out rest (dpullDelay p add a.pulls t)).map fun r =>
        (r.1, { a with pulls := dpullRecord steps (if a.pulls = [] then [p] else a.pulls) t } :: r.2)
    | .dpush => (pullChain p out rest (dpushDelay p a.pushTime t)).map fun r => (r.1, a :: r.2)

/-- notification of a publication at time `T` travelling from the output to the consumer:
    `Adapter.source_updated` = `_source_updated` (caching adapter: pull at `T` with itself as end
    point and buffer; `DelayToPush`: remember `T`), then `notify_targets`. -/
def notifyChain (p : Int) (out : List (Entry Int)) (T : Int) : List AdSt → Except Err (List AdSt)
  | [] => .ok []
  | a :: rest =>
    match notifyChain p out T rest with
    | .error e => .error e
    | .ok rest' =>
      match a.kind with
      | .cache =>
        match pullChain p out rest' T with
        | .error e => .error e
        | .ok r => .ok ({ a with buf := a.buf ++ [⟨T, r.1⟩] } :: r.2)
      | .dpush => .ok ({ a with pushTime := some T } :: rest')
      | _ => .ok (a :: rest')

/-- `ConnectHelper._push_data`: publication times of the initial push; `s` = composition start,
    `p` = info time of the output -/
def pushTimes (s p : Int) : List Int := if p ≠ s then [s, p] else [p]

/-- what the output holds after the initial push -/
def pushEntries (s p v : Int) : List (Entry Int) := (pushTimes s p).map fun t => ⟨t, v⟩

/-- the initial push(es) seen from one link -/
def linkInit (chain : List Ad) (s p v : Int) : Except Err (List AdSt) :=
  if p ≠ s then
    match notifyChain p [⟨s, v⟩] s (chain.map AdSt.init) with
    | .error e => .error e
    | .ok ch => notifyChain p [⟨s, v⟩, ⟨p, v⟩] p ch
  else notifyChain p [⟨p, v⟩] p (chain.map AdSt.init)

/-- the initial pull `inputs[name].pull_data(start_time)` -/
def linkPull (chain : List Ad) (s p v : Int) : Except Err Int :=
  match linkInit chain s p v with
  | .error e => .error e
  | .ok ch => (pullChain p (pushEntries s p v) ch s).map (·.1)

/-- error other than the retry signal raised while exchanging item `x` (`none` = no error) -/
def foreign (S : Spec) : Item → Option Err
  | .dataPushed c o =>
    match S.comps[c]?, S.out? c o with
    | some cs, some y =>
      (targets S c o).findSome? fun t =>
        match S.inp? t.1 t.2 with
        | some x => match linkInit x.chain S.start cs.start y.val with
          | .error e => some e
          | .ok _ => none
        | none => none
    | _, _ => none
  | .inData c i =>
    match S.inp? c i with
    | some x =>
      match S.comps[x.src.1]?, S.out? x.src.1 x.src.2 with
      | some cs, some y => match linkPull x.chain S.start cs.start y.val with
        | .error e => some e
        | .ok _ => none
      | _, _ => none
    | none => none
  | _ => none

/-- value delivered by the initial pull of input `(c, i)` -/
def pulledValue (S : Spec) (c i : Nat) : Option Int :=
  match S.inp? c i with
  | some x =>
    match S.comps[x.src.1]?, S.out? x.src.1 x.src.2 with
    | some cs, some y => match linkPull x.chain S.start cs.start y.val with
      | .ok v => some v
      | .error _ => none
    | _, _ => none
  | none => none

/-- publication times requested from output `(c, o)` by the connect phase -/
def published (S : Spec) (d : List Item) (c o : Nat) : List Int :=
  match S.comps[c]? with
  | some cs => if d.contains (.dataPushed c o) then pushTimes S.start cs.start else []
  | none => []

inductive OutcomeE where
  | ok (st : LState)
  | circular (st : LState) (names : List Nat)
  | outOfFuel (st : LState)
  /-- `connect()` raised something else; the log holds the calls completed before -/
  | error (e : Err) (log : List LogEntry)
deriving DecidableEq, Repr

def Outcome.state : Outcome → LState
  | .ok st | .circular st _ | .outOfFuel st => st

/-- calls before the first one that exchanged an item raising a foreign error, and that error -/
def firstForeign (S : Spec) : List LogEntry → List LogEntry → Option (Err × List LogEntry)
  | _, [] => none
  | acc, e :: es =>
    match e.fired.findSome? (foreign S) with
    | some err => some (err, acc)
    | none => firstForeign S (acc ++ [e]) es

/-- the connect phase with errors: the first exchanged item that raises aborts `connect()` -/
def connectE (S : Spec) (order : List Nat) : OutcomeE :=
  match firstForeign S [] (connect S order).state.log with
  | some (e, log) => .error e log
  | none =>
    match connect S order with
    | .ok st => .ok st
    | .circular st n => .circular st n
    | .outOfFuel st => .outOfFuel st

end Finam.Connect
