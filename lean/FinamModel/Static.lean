import FinamModel.Basic
/-
  Static slots (`Output(static=True)`, `Input(static=True)`), callback outputs
  (`CallbackOutput.get_data`) and the weighted-sum merger (`components/mergers.py`).
-/
namespace Finam

/-- a static output: `data` holds at most one entry -/
structure SOut (α : Type) where
  data : Option α
deriving Repr, DecidableEq

/-- `Output.push_data` of a static output (targets present, infos exchanged):
    `if len(self.data) > 0: raise FinamStaticDataError`; the time is dropped -/
def SOut.push {α} (o : SOut α) (v : α) : Except Err (SOut α) :=
  match o.data with
  | some _ => .error .staticErr
  | none => .ok ⟨some v⟩

/-- `Output.get_data` of a static output: `self._unpack(self.data[0][1])` whatever `time` is -/
def SOut.get {α} (o : SOut α) (_t : Option Int) : Except Err α :=
  match o.data with
  | none => .error .noData
  | some v => .ok v

/-- a static input caches the first successful pull -/
structure SIn (α : Type) where
  cached : Option α
deriving Repr, DecidableEq

/-- `Input.pull_data` with `is_static` -/
def SIn.pull {α} (i : SIn α) (src : SOut α) (t : Option Int) : Except Err (α × SIn α) :=
  match i.cached with
  | some v => .ok (v, i)
  | none => match src.get t with
    | .ok v => .ok (v, ⟨some v⟩)
    | .error e => .error e

inductive SOp (α : Type) where
  | push (v : α)
  | pull (t : Option Int)      -- through the static input
  | get (t : Option Int)       -- through a second, non-static input (no caching)

/-- a static output with one static input attached, driven by pushes and pulls -/
def sRun {α} : SOut α → SIn α → List (SOp α) → List (Except Err (Option α))
  | _, _, [] => []
  | o, i, .push v :: r =>
    match o.push v with
    | .ok o' => .ok none :: sRun o' i r
    | .error e => .error e :: sRun o i r
  | o, i, .pull t :: r =>
    match i.pull o t with
    | .ok (v, i') => .ok (some v) :: sRun o i' r
    | .error e => .error e :: sRun o i r
  | o, i, .get t :: r => (o.get t).map some :: sRun o i r

/-! ### weighted sum -/

/-- `WeightedSum._get_data` for one request: Σ valueᵢ · weightᵢ, values already expressed in the
    units of the first input (pint converts on `+=`) -/
def weightedSum : List (Rat × Rat) → Rat
  | [] => 0
  | (v, w) :: r => v * w + weightedSum r

/-- memo of the merger: time of the last computation and the identity of the result buffer -/
structure WS where
  last : Option Int
  buf : Nat                     -- identity of `_out_data`
  lastDelivered : Option Nat    -- `CallbackOutput.last_data` buffer identity
  fresh : Nat                   -- next unused buffer identity
deriving Repr, DecidableEq

/-- one request through `CallbackOutput.get_data` → `WeightedSum._get_data`.
    A new time computes a new result buffer; the same time answers from the memo with a *copy*;
    the callback output refuses a result that shares memory with the previous one. -/
def WS.request (s : WS) (t : Int) (pairs : List (Rat × Rat)) : Except Err (Rat × WS) :=
  let (b, s1) :=
    if s.last = some t then (s.fresh, { s with fresh := s.fresh + 1 })          -- `_out_data.copy()`
    else (s.fresh, { s with last := some t, buf := s.fresh, fresh := s.fresh + 1 })
  if s1.lastDelivered = some b then .error .dataErr
  else .ok (weightedSum pairs, { s1 with lastDelivered := some b })

end Finam
