import FinamModel.Integration
import FinamModel.TimeAdaptersLemmas
/-! Helper lemmas for the time-integration adapter model (C12). -/
namespace Finam.TI
open Finam Finam.TA

/-! ### Rational arithmetic helpers -/

theorem div_le_iff' {a b c : Rat} (hc : 0 < c) : a / c ≤ b ↔ a ≤ b * c := by
  rw [← Rat.not_lt, ← Rat.not_lt, Rat.lt_div_iff hc]

theorem le_div_iff' {a b c : Rat} (hc : 0 < c) : a ≤ b / c ↔ a * c ≤ b := by
  rw [← Rat.not_lt, ← Rat.not_lt, Rat.div_lt_iff hc]

/-- `dt1 = max((prev - t_old) / range, 0.0)` is the relative position of the clamped lower bound -/
theorem dt1_eq (A B P : Rat) (hAB : A < B) (hPB : P < B) :
    max ((P - A) / (B - A)) 0 = (clampR A B P - A) / (B - A) := by
  have hr : 0 < B - A := by grind
  have h1 := div_le_iff' (a := P - A) (b := 0) hr
  simp only [clampR]
  by_cases h : P ≤ A
  · have : (P - A) / (B - A) ≤ 0 := h1.2 (by grind)
    grind
  · have : ¬ (P - A) / (B - A) ≤ 0 := fun hh => h (by have := h1.1 hh; grind)
    grind

/-- `dt2 = min((time - t_old) / range, 1.0)` is the relative position of the clamped upper bound -/
theorem dt2_eq (A B Q : Rat) (hAB : A < B) (hQA : A < Q) :
    min ((Q - A) / (B - A)) 1 = (clampR A B Q - A) / (B - A) := by
  have hr : 0 < B - A := by grind
  have h1 := div_le_iff' (a := Q - A) (b := 1) hr
  simp only [clampR]
  by_cases h : Q ≤ B
  · have : (Q - A) / (B - A) ≤ 1 := h1.2 (by grind)
    grind
  · have : ¬ (Q - A) / (B - A) ≤ 1 := fun hh => h (by have := h1.1 hh; grind)
    grind

theorem min_s_div (A r s X : Rat) (hr : 0 < r) :
    min s ((X - A) / r) = (min X (A + s * r) - A) / r := by
  have h1 := le_div_iff' (a := s) (b := X - A) hr
  by_cases h : s ≤ (X - A) / r
  · have := h1.1 h
    have e1 : min s ((X - A) / r) = s := by grind
    have e2 : min X (A + s * r) = A + s * r := by grind
    rw [e1, e2]; grind
  · have : ¬ s * r ≤ X - A := fun hh => h (h1.2 hh)
    have e1 : min s ((X - A) / r) = (X - A) / r := by grind
    have e2 : min X (A + s * r) = X := by grind
    rw [e1, e2]

theorem max_s_div (A r s X : Rat) (hr : 0 < r) :
    max s ((X - A) / r) = (max X (A + s * r) - A) / r := by
  have h1 := le_div_iff' (a := s) (b := X - A) hr
  by_cases h : s ≤ (X - A) / r
  · have := h1.1 h
    have e1 : max s ((X - A) / r) = (X - A) / r := by grind
    have e2 : max X (A + s * r) = X := by grind
    rw [e1, e2]
  · have : ¬ s * r ≤ X - A := fun hh => h (h1.2 hh)
    have e1 : max s ((X - A) / r) = s := by grind
    have e2 : max X (A + s * r) = A + s * r := by grind
    rw [e1, e2]; grind

/-- the code's trapezoid expression is the difference of the antiderivative -/
theorem lin_alg (A B va vb P Q : Rat) (hAB : A < B) :
    ((Q - A) / (B - A) - (P - A) / (B - A)) * (1/2) *
      ((va + (P - A) / (B - A) * (vb - va)) + (va + (Q - A) / (B - A) * (vb - va))) =
    ((va * (Q - A) + (vb - va) / (B - A) * ((Q - A) * (Q - A) / 2)) -
     (va * (P - A) + (vb - va) / (B - A) * ((P - A) * (P - A) / 2))) * (1 / (B - A)) := by
  have : B - A ≠ 0 := by grind
  grind

/-- the code's two-piece step expression is the difference of the antiderivative -/
theorem step_alg (A B s va vb P Q : Rat) (hAB : A < B) :
    (min s ((Q - A) / (B - A)) - min ((P - A) / (B - A)) s) * va +
      (max s ((Q - A) / (B - A)) - max s ((P - A) / (B - A))) * vb =
    ((va * (min Q (A + s * (B - A)) - A) + vb * (max Q (A + s * (B - A)) - (A + s * (B - A)))) -
     (va * (min P (A + s * (B - A)) - A) + vb * (max P (A + s * (B - A)) - (A + s * (B - A))))) *
      (1 / (B - A)) := by
  have hr : 0 < B - A := by grind
  have hne : B - A ≠ 0 := by grind
  have e : min ((P - A) / (B - A)) s = min s ((P - A) / (B - A)) := by grind
  rw [e, min_s_div A (B - A) s Q hr, min_s_div A (B - A) s P hr, max_s_div A (B - A) s Q hr,
    max_s_div A (B - A) s P hr]
  generalize min Q (A + s * (B - A)) = mq
  generalize min P (A + s * (B - A)) = mp
  generalize max Q (A + s * (B - A)) = xq
  generalize max P (A + s * (B - A)) = xp
  grind

/-! ### One source interval: the loop body is the integral over the overlap -/

theorem piece_eq (step : Option Rat) (scaled : Bool) (old new : Entry Rat) (prev t : Int)
    (h1 : old.t < new.t) (h2 : prev < new.t) (h3 : old.t < t) :
    piece step scaled old new prev t = pairIntegral step scaled old new prev t := by
  have hAB : (old.t : Rat) < (new.t : Rat) := Rat.intCast_lt_intCast.2 h1
  have hPB : (prev : Rat) < (new.t : Rat) := Rat.intCast_lt_intCast.2 h2
  have hQA : (old.t : Rat) < (t : Rat) := Rat.intCast_lt_intCast.2 h3
  have hne : (new.t : Rat) - (old.t : Rat) ≠ 0 := by grind
  simp only [piece, pairIntegral, frac, secs, weight, lerp]
  push_cast
  rw [dt1_eq _ _ _ hAB hPB, dt2_eq _ _ _ hAB hQA]
  generalize clampR (old.t : Rat) (new.t : Rat) (prev : Rat) = P
  generalize clampR (old.t : Rat) (new.t : Rat) (t : Rat) = Q
  cases step with
  | none =>
    simp only [prim, primLin]
    rw [lin_alg _ _ _ _ _ _ hAB]
    cases scaled
    · simp
    · simp only [if_true]; grind
  | some s =>
    simp only [prim, primStep]
    have e : min ((P - (old.t : Rat)) / ((new.t : Rat) - (old.t : Rat))) s =
        min ((P - (old.t : Rat)) / ((new.t : Rat) - (old.t : Rat))) s := rfl
    rw [step_alg _ _ _ _ _ _ _ hAB]
    cases scaled
    · simp
    · simp only [if_true]; grind

/-! ### Pairs that do not overlap the request interval contribute nothing -/

theorem clampR_left (a b x : Rat) (hab : a ≤ b) (hx : x ≤ a) : clampR a b x = a := by
  simp only [clampR]; grind

theorem clampR_right (a b x : Rat) (hab : a ≤ b) (hx : b ≤ x) : clampR a b x = b := by
  simp only [clampR]; grind

theorem pair_zero_right (step : Option Rat) (scaled : Bool) (a b : Entry Rat) (p0 p1 : Int)
    (hab : a.t ≤ b.t) (h0 : b.t ≤ p0) (h1 : b.t ≤ p1) : pairIntegral step scaled a b p0 p1 = 0 := by
  have hab' : (a.t : Rat) ≤ (b.t : Rat) := Rat.intCast_le_intCast.2 hab
  have e0 := clampR_right (a.t : Rat) (b.t : Rat) (p0 : Rat) hab' (Rat.intCast_le_intCast.2 h0)
  have e1 := clampR_right (a.t : Rat) (b.t : Rat) (p1 : Rat) hab' (Rat.intCast_le_intCast.2 h1)
  simp only [pairIntegral, e0, e1]; grind

theorem pair_zero_left (step : Option Rat) (scaled : Bool) (a b : Entry Rat) (p0 p1 : Int)
    (hab : a.t ≤ b.t) (h0 : p0 ≤ a.t) (h1 : p1 ≤ a.t) : pairIntegral step scaled a b p0 p1 = 0 := by
  have hab' : (a.t : Rat) ≤ (b.t : Rat) := Rat.intCast_le_intCast.2 hab
  have e0 := clampR_left (a.t : Rat) (b.t : Rat) (p0 : Rat) hab' (Rat.intCast_le_intCast.2 h0)
  have e1 := clampR_left (a.t : Rat) (b.t : Rat) (p1 : Rat) hab' (Rat.intCast_le_intCast.2 h1)
  simp only [pairIntegral, e0, e1]; grind

/-- nothing is integrated over publications that all lie at or behind the upper bound -/
theorem spec_zero_of_le (step : Option Rat) (scaled : Bool) : ∀ (l : List (Entry Rat)) (a : Entry Rat)
    (p0 p1 : Int), Sorted (a :: l) → p0 ≤ a.t → p1 ≤ a.t → specIntegral step scaled (a :: l) p0 p1 = 0 := by
  intro l
  induction l with
  | nil => intro a p0 p1 _ _ _; rfl
  | cons b l ih =>
    intro a p0 p1 hs h0 h1
    have := hs.1
    simp only [specIntegral]
    rw [pair_zero_left step scaled a b p0 p1 (by omega) h0 h1, ih b p0 p1 hs.2 (by omega) (by omega)]
    grind

/-- dropping the head pair when the second entry is not behind the lower bound -/
theorem spec_drop_head (step : Option Rat) (scaled : Bool) (e0 e1 : Entry Rat) (es : List (Entry Rat))
    (p0 p1 : Int) (hs : Sorted (e0 :: e1 :: es)) (h0 : e1.t ≤ p0) (h1 : e1.t ≤ p1) :
    specIntegral step scaled (e0 :: e1 :: es) p0 p1 = specIntegral step scaled (e1 :: es) p0 p1 := by
  have := hs.1
  simp only [specIntegral]
  rw [pair_zero_right step scaled e0 e1 p0 p1 (by omega) h0 h1]
  grind

theorem spec_drop_prefix (step : Option Rat) (scaled : Bool) : ∀ (p : List (Entry Rat)) (e : Entry Rat)
    (r : List (Entry Rat)) (p0 p1 : Int), Sorted (p ++ e :: r) → e.t ≤ p0 → e.t ≤ p1 →
    specIntegral step scaled (p ++ e :: r) p0 p1 = specIntegral step scaled (e :: r) p0 p1 := by
  intro p
  induction p with
  | nil => intro e r p0 p1 _ _ _; rfl
  | cons a p ih =>
    intro e r p0 p1 hs h0 h1
    have hs' : Sorted (p ++ e :: r) := sorted_tail hs
    cases p with
    | nil => exact spec_drop_head step scaled a e r p0 p1 hs h0 h1
    | cons b p' =>
      have hb := sorted_mid_lt p' b e r hs'
      have h := spec_drop_head step scaled a b (p' ++ e :: r) p0 p1 hs (by omega) (by omega)
      simp only [List.cons_append] at *
      rw [h]
      exact ih e r p0 p1 hs' h0 h1

/-! ### The loop -/

/-- value accumulated by the loop = what was accumulated before + the integral over the remaining
    pairs, whatever the `continue` / `break` tests skip -/
theorem loop_getD (step : Option Rat) (scaled : Bool) (prev t : Int) (hpt : prev ≤ t) :
    ∀ (l : List (Entry Rat)) (old : Entry Rat) (acc : Option Rat), Sorted (old :: l) →
    (loop step scaled prev t old l acc).getD 0 = acc.getD 0 + specIntegral step scaled (old :: l) prev t := by
  intro l
  induction l with
  | nil => intro old acc _; simp only [loop, specIntegral]; grind
  | cons new rest ih =>
    intro old acc hs
    have hlt := hs.1
    simp only [loop, specIntegral]
    by_cases h1 : prev ≥ new.t
    · simp only [h1, if_true]
      rw [ih new acc hs.2, pair_zero_right step scaled old new prev t (by omega) (by omega) (by omega)]
      grind
    · simp only [h1, if_false]
      by_cases h2 : t ≤ old.t
      · simp only [h2, if_true]
        rw [pair_zero_left step scaled old new prev t (by omega) (by omega) h2,
          spec_zero_of_le step scaled rest new prev t hs.2 (by omega) (by omega)]
        grind
      · simp only [h2, if_false]
        rw [ih new _ hs.2, piece_eq step scaled old new prev t hlt (by omega) (by omega)]
        simp only [Option.getD_some]
        grind

/-- the loop does produce a number when the request interval has positive length and lies in the
    buffered range -/
theorem loop_isSome (step : Option Rat) (scaled : Bool) (prev t : Int) (hpt : prev < t) :
    ∀ (l : List (Entry Rat)) (old : Entry Rat) (acc : Option Rat), Sorted (old :: l) →
    (acc.isSome = true ∨ (old.t ≤ prev ∧ t ≤ (lastE old l).t)) →
    (loop step scaled prev t old l acc).isSome = true := by
  intro l
  induction l with
  | nil =>
    intro old acc _ h
    rcases h with h | ⟨h1, h2⟩
    · simpa [loop] using h
    · simp only [lastE] at h2; omega
  | cons new rest ih =>
    intro old acc hs h
    simp only [loop]
    by_cases h1 : prev ≥ new.t
    · simp only [h1, if_true]
      apply ih new acc hs.2
      rcases h with h | ⟨_, h3⟩
      · exact Or.inl h
      · exact Or.inr ⟨by omega, by simpa [lastE] using h3⟩
    · simp only [h1, if_false]
      by_cases h2 : t ≤ old.t
      · simp only [h2, if_true]
        rcases h with h | ⟨h3, _⟩
        · exact h
        · omega
      · simp only [h2, if_false]
        exact ih new _ hs.2 (Or.inl rfl)

/-! ### Invariant of reachable states -/

structure Inv (s : IState) : Prop where
  sorted : Sorted s.hist
  suffix : ∃ p, s.hist = p ++ s.buf
  empty  : s.buf = [] → s.hist = [] ∧ s.prev = none
  prevOk : ∀ e r, s.buf = e :: r → ∃ p, s.prev = some p ∧ e.t ≤ p

def Pre (s : IState) : Ev → Prop
  | .push t _ => ∀ e ∈ s.hist, e.t < t
  | .pull t => ∀ a, s.prev = some a → a ≤ t

theorem pre_of_preB (s : IState) (ev : Ev) (h : preB s ev = true) : Pre s ev := by
  cases ev with
  | push t v =>
    simp only [preB, List.all_eq_true, decide_eq_true_eq] at h
    exact h
  | pull t =>
    intro a ha
    simp only [preB, ha, decide_eq_true_eq] at h
    exact h

theorem init_inv : Inv init where
  sorted := trivial
  suffix := ⟨[], rfl⟩
  empty := fun _ => ⟨rfl, rfl⟩
  prevOk := by intro e r h; cases h

theorem getData_ok_ne_nil (c : Cfg) (d : List (Entry Rat)) (p t : Int) (v : Rat)
    (h : getData c d p t = .ok v) : d ≠ [] := by
  intro hd; subst hd; simp [getData, checkRange] at h

theorem inv_step (c : Cfg) (s : IState) (hi : Inv s) (ev : Ev) (hp : Pre s ev) :
    Inv (stepImpl c s ev).1 := by
  cases ev with
  | push t v =>
    simp only [stepImpl]
    obtain ⟨p, hp1⟩ := hi.suffix
    refine ⟨TA.sorted_snoc _ _ hi.sorted hp, ⟨p, by simp [hp1]⟩, ?_, ?_⟩
    · intro h; simp at h
    · intro e r hb
      cases hbuf : s.buf with
      | nil =>
        obtain ⟨_, hprev⟩ := hi.empty hbuf
        rw [hbuf] at hb
        simp only [List.nil_append, List.cons.injEq] at hb
        refine ⟨t, by simp [hprev], ?_⟩
        rw [← hb.1]; exact Int.le_refl _
      | cons e' r' =>
        obtain ⟨q, hq, hle⟩ := hi.prevOk e' r' hbuf
        rw [hbuf] at hb
        simp only [List.cons_append, List.cons.injEq] at hb
        refine ⟨q, by simp [hq], ?_⟩
        rw [← hb.1]; exact hle
  | pull t =>
    simp only [stepImpl]
    cases hbuf : s.buf with
    | nil => simpa using hi
    | cons e r =>
      obtain ⟨q, hq, hle⟩ := hi.prevOk e r hbuf
      simp only [hq]
      cases hg : getData c (e :: r) q t with
      | error err => exact hi
      | ok v =>
        simp only
        obtain ⟨p, hp1⟩ := hi.suffix
        obtain ⟨k, hk⟩ := clear_suffix (e :: r) q
        have hne : e :: r ≠ [] := by simp
        have hqt : q ≤ t := hp q hq
        refine ⟨hi.sorted, ⟨p ++ k, by rw [List.append_assoc, ← hk, hp1, hbuf]⟩, ?_, ?_⟩
        · intro h; exact absurd h (clear_ne_nil _ _ hne)
        · intro e' r' hb
          refine ⟨t, rfl, ?_⟩
          have := clear_head_le (e :: r) q hle
          simp only at hb
          rw [hb] at this
          simp only [TA.headLe] at this
          omega

theorem lastE_append_cons {α} : ∀ (p : List (Entry α)) (x e : Entry α) (r : List (Entry α)),
    lastE x (p ++ e :: r) = lastE e r := by
  intro p
  induction p with
  | nil => intro x e r; rfl
  | cons a p ih => intro x e r; simp only [List.cons_append, lastE]; exact ih a e r

/-- a request over a positive-length interval inside the published range is answered with the exact
    integral of the interpolant of the *full* history -/
theorem pull_eq_integral (c : Cfg) (s : IState) (hi : Inv s) (p t : Int)
    (hprev : s.prev = some p) (hpt : p < t) (hr : inRange s.hist t = true) :
    (stepImpl c s (.pull t)).2 = some (.ok (specValue c s.hist p t)) := by
  obtain ⟨pre, hpre⟩ := hi.suffix
  have hsb : Sorted s.buf := sorted_append_right' pre s.buf (hpre ▸ hi.sorted)
  cases hbuf : s.buf with
  | nil =>
    obtain ⟨hh, _⟩ := hi.empty hbuf
    rw [hh] at hr; simp [inRange] at hr
  | cons e0 es =>
    obtain ⟨q, hq, hle⟩ := hi.prevOk e0 es hbuf
    rw [hprev] at hq; cases hq
    -- the newest buffered entry is the newest publication
    have hlast : t ≤ (lastE e0 es).t := by
      cases hh : s.hist with
      | nil => rw [hh] at hr; simp [inRange] at hr
      | cons h0 hs' =>
        rw [hh] at hr
        simp only [inRange, Bool.and_eq_true, decide_eq_true_eq] at hr
        rw [hbuf, hh] at hpre
        cases pre with
        | nil => simp only [List.nil_append] at hpre; cases hpre; exact hr.2
        | cons a pre' =>
          simp only [List.cons_append] at hpre
          cases hpre
          rw [lastE_append_cons] at hr; exact hr.2
    rw [hbuf] at hsb
    have hspec : ∀ scaled, specIntegral c.step scaled s.hist p t = specIntegral c.step scaled (e0 :: es) p t := by
      intro scaled
      rw [hpre, hbuf]
      exact spec_drop_prefix c.step scaled pre e0 es p t (by rw [← hbuf, ← hpre]; exact hi.sorted) hle (by omega)
    cases es with
    | nil => simp only [lastE] at hlast; omega
    | cons e1 es' =>
      have hchk : checkRange (e0 :: e1 :: es') t = .ok () := by
        simp only [checkRange]
        have h1 : ¬ t > (lastE e0 (e1 :: es')).t := by omega
        have h2 : ¬ t < e0.t := by omega
        simp [h1, h2]
      have hnle : ¬ t ≤ e0.t := by omega
      have hsome : ∀ scaled, ∃ v, loop c.step scaled p t e0 (e1 :: es') none = some v ∧
          v = specIntegral c.step scaled (e0 :: e1 :: es') p t := by
        intro scaled
        have h1 := loop_isSome c.step scaled p t hpt (e1 :: es') e0 none hsb (Or.inr ⟨hle, hlast⟩)
        have h2 := loop_getD c.step scaled p t (by omega) (e1 :: es') e0 none hsb
        cases hl : loop c.step scaled p t e0 (e1 :: es') none with
        | none => rw [hl] at h1; cases h1
        | some v =>
          rw [hl] at h2
          simp only [Option.getD_some, Option.getD_none] at h2
          exact ⟨v, rfl, by rw [h2]; grind⟩
      simp only [stepImpl, hbuf, hprev, getData, hchk, interp, specValue]
      cases hm : c.mode with
      | avg =>
        obtain ⟨v, hv, hv2⟩ := hsome true
        have hpos : t - p > 0 := by omega
        simp only [avgInterp, hnle, if_false, hpos, if_true, hv, hspec, hv2]
      | sum perTime initUs =>
        obtain ⟨v, hv, hv2⟩ := hsome perTime
        simp only [sumInterp, hnle, if_false, hv, hspec, hv2]

/-! ### Bounds: an average lies within the range of the contributing values -/

theorem nonneg_of_mul_nonneg (c x : Rat) (hc : 0 < c) (h : 0 ≤ c * x) : 0 ≤ x := by
  have : c * 0 ≤ c * x := by simpa using h
  exact Rat.le_of_mul_le_mul_left this hc

theorem lin_pair_lower (A B va vb lo hi m : Rat) (hAB : A < B) (h1 : A ≤ lo) (h2 : lo ≤ hi) (h3 : hi ≤ B)
    (ha : m ≤ va) (hb : m ≤ vb) :
    m * (hi - lo) ≤ (va * (hi - A) + (vb - va) / (B - A) * ((hi - A) * (hi - A) / 2)) -
                    (va * (lo - A) + (vb - va) / (B - A) * ((lo - A) * (lo - A) / 2)) := by
  have hr : 0 < B - A := by grind
  have hne : B - A ≠ 0 := by grind
  have key : (2 * (B - A)) * (((va * (hi - A) + (vb - va) / (B - A) * ((hi - A) * (hi - A) / 2)) -
                    (va * (lo - A) + (vb - va) / (B - A) * ((lo - A) * (lo - A) / 2))) - m * (hi - lo)) =
      (hi - lo) * ((B - lo) * (va - m) + (lo - A) * (vb - m) + ((B - hi) * (va - m) + (hi - A) * (vb - m))) := by
    grind
  have hnn : 0 ≤ (hi - lo) * ((B - lo) * (va - m) + (lo - A) * (vb - m) + ((B - hi) * (va - m) + (hi - A) * (vb - m))) := by
    apply Rat.mul_nonneg (by grind)
    apply Rat.add_nonneg
    · apply Rat.add_nonneg <;> apply Rat.mul_nonneg <;> grind
    · apply Rat.add_nonneg <;> apply Rat.mul_nonneg <;> grind
  have := nonneg_of_mul_nonneg (2 * (B - A)) _ (by grind) (key ▸ hnn)
  grind

theorem lin_pair_upper (A B va vb lo hi M : Rat) (hAB : A < B) (h1 : A ≤ lo) (h2 : lo ≤ hi) (h3 : hi ≤ B)
    (ha : va ≤ M) (hb : vb ≤ M) :
    (va * (hi - A) + (vb - va) / (B - A) * ((hi - A) * (hi - A) / 2)) -
      (va * (lo - A) + (vb - va) / (B - A) * ((lo - A) * (lo - A) / 2)) ≤ M * (hi - lo) := by
  have hne : B - A ≠ 0 := by grind
  have := lin_pair_lower A B (-va) (-vb) lo hi (-M) hAB h1 h2 h3 (by grind) (by grind)
  have e : (-vb - -va) / (B - A) = -((vb - va) / (B - A)) := by grind
  rw [e] at this
  grind

theorem scale_le (m v l : Rat) (hl : 0 ≤ l) (h : 0 < l → m ≤ v) : m * l ≤ v * l := by
  by_cases h0 : 0 < l
  · exact Rat.mul_le_mul_of_nonneg_right (h h0) hl
  · have : l = 0 := by grind
    subst this; simp

theorem step_pair_lower (va vb la lb m : Rat) (hla : 0 ≤ la) (hlb : 0 ≤ lb)
    (ha : 0 < la → m ≤ va) (hb : 0 < lb → m ≤ vb) : m * (la + lb) ≤ va * la + vb * lb := by
  have h1 := scale_le m va la hla ha
  have h2 := scale_le m vb lb hlb hb
  grind

theorem step_pair_upper (va vb la lb M : Rat) (hla : 0 ≤ la) (hlb : 0 ≤ lb)
    (ha : 0 < la → va ≤ M) (hb : 0 < lb → vb ≤ M) : va * la + vb * lb ≤ M * (la + lb) := by
  have h1 := scale_le va M la hla ha
  have h2 := scale_le vb M lb hlb hb
  grind

/-- one pair: the area (value·µs) over the overlap lies between `m · length` and `M · length` -/
theorem pair_bounds (step : Option Rat) (a b : Entry Rat) (p0 p1 : Int) (m M : Rat)
    (hab : a.t < b.t) (hp : p0 ≤ p1)
    (hc : ∀ v ∈ pairContrib step a b p0 p1, m ≤ v ∧ v ≤ M) :
    m * (clampR a.t b.t p1 - clampR a.t b.t p0) ≤
      prim step a b (clampR a.t b.t p1) - prim step a b (clampR a.t b.t p0) ∧
    prim step a b (clampR a.t b.t p1) - prim step a b (clampR a.t b.t p0) ≤
      M * (clampR a.t b.t p1 - clampR a.t b.t p0) := by
  have hAB : (a.t : Rat) < (b.t : Rat) := Rat.intCast_lt_intCast.2 hab
  have hP : (p0 : Rat) ≤ (p1 : Rat) := Rat.intCast_le_intCast.2 hp
  have h1 : (a.t : Rat) ≤ clampR a.t b.t p0 := by simp only [clampR]; grind
  have h2 : clampR a.t b.t p0 ≤ clampR a.t b.t p1 := by simp only [clampR]; grind
  have h3 : clampR a.t b.t p1 ≤ (b.t : Rat) := by simp only [clampR]; grind
  cases step with
  | none =>
    simp only [prim, primLin]
    simp only [pairContrib] at hc
    revert hc
    generalize clampR (a.t : Rat) (b.t : Rat) (p0 : Rat) = lo at *
    generalize clampR (a.t : Rat) (b.t : Rat) (p1 : Rat) = hi at *
    intro hc
    by_cases hlt : lo < hi
    · simp only [hlt, if_true] at hc
      have ha := hc a.v (by simp)
      have hb := hc b.v (by simp)
      exact ⟨lin_pair_lower _ _ _ _ _ _ _ hAB h1 h2 h3 ha.1 hb.1,
             lin_pair_upper _ _ _ _ _ _ _ hAB h1 h2 h3 ha.2 hb.2⟩
    · have : hi = lo := by grind
      subst this
      constructor <;> grind
  | some s =>
    simp only [prim, primStep]
    simp only [pairContrib] at hc
    revert hc
    generalize clampR (a.t : Rat) (b.t : Rat) (p0 : Rat) = lo at *
    generalize clampR (a.t : Rat) (b.t : Rat) (p1 : Rat) = hi at *
    generalize (a.t : Rat) + s * ((b.t : Rat) - a.t) = σ at *
    intro hc
    have hla : 0 ≤ min hi σ - min lo σ := by grind
    have hlb : 0 ≤ max hi σ - max lo σ := by grind
    have hsum : (min hi σ - min lo σ) + (max hi σ - max lo σ) = hi - lo := by grind
    have ha : 0 < min hi σ - min lo σ → m ≤ a.v ∧ a.v ≤ M := by
      intro h
      have hlt : min lo σ < min hi σ := by grind
      exact hc a.v (by simp [hlt])
    have hb : 0 < max hi σ - max lo σ → m ≤ b.v ∧ b.v ≤ M := by
      intro h
      have hlt : max lo σ < max hi σ := by grind
      exact hc b.v (by simp [hlt])
    have l := step_pair_lower a.v b.v _ _ m hla hlb (fun h => (ha h).1) (fun h => (hb h).1)
    have u := step_pair_upper a.v b.v _ _ M hla hlb (fun h => (ha h).2) (fun h => (hb h).2)
    rw [hsum] at l u
    constructor <;> grind

/-- total length of the overlaps of `[p0, p1]` with the source intervals -/
def lenSum : List (Entry Rat) → Int → Int → Rat
  | a :: b :: rest, p0, p1 => (clampR a.t b.t p1 - clampR a.t b.t p0) + lenSum (b :: rest) p0 p1
  | _, _, _ => 0

/-- the overlaps tile `[p0, p1]` clamped to the published range -/
theorem lenSum_eq : ∀ (es : List (Entry Rat)) (e0 : Entry Rat) (p0 p1 : Int), Sorted (e0 :: es) →
    lenSum (e0 :: es) p0 p1 = clampR e0.t (lastE e0 es).t p1 - clampR e0.t (lastE e0 es).t p0 := by
  intro es
  induction es with
  | nil => intro e0 p0 p1 _; simp only [lenSum, lastE, clampR]; grind
  | cons e1 es ih =>
    intro e0 p0 p1 hs
    have h01 : (e0.t : Rat) < (e1.t : Rat) := Rat.intCast_lt_intCast.2 hs.1
    have hl : (e1.t : Rat) ≤ ((lastE e1 es).t : Rat) := Rat.intCast_le_intCast.2 (lastE_ge e1 es hs.2)
    simp only [lenSum, lastE]
    rw [ih e1 p0 p1 hs.2]
    simp only [clampR]
    grind

/-- the integral (value·seconds) lies between `m` and `M` times the covered length -/
theorem spec_bounds (step : Option Rat) (m M : Rat) : ∀ (es : List (Entry Rat)) (e0 : Entry Rat) (p0 p1 : Int),
    Sorted (e0 :: es) → p0 ≤ p1 → (∀ v ∈ contrib step (e0 :: es) p0 p1, m ≤ v ∧ v ≤ M) →
    m * lenSum (e0 :: es) p0 p1 ≤ 1000000 * specIntegral step true (e0 :: es) p0 p1 ∧
    1000000 * specIntegral step true (e0 :: es) p0 p1 ≤ M * lenSum (e0 :: es) p0 p1 := by
  intro es
  induction es with
  | nil => intro e0 p0 p1 _ _ _; simp only [lenSum, specIntegral]; constructor <;> grind
  | cons e1 es ih =>
    intro e0 p0 p1 hs hp hc
    have hpair := pair_bounds step e0 e1 p0 p1 m M hs.1 hp
      (fun v hv => hc v (by simp only [contrib]; exact List.mem_append_left _ hv))
    have hrest := ih e1 p0 p1 hs.2 hp
      (fun v hv => hc v (by simp only [contrib]; exact List.mem_append_right _ hv))
    simp only [lenSum, specIntegral, pairIntegral, weight, if_true]
    constructor <;> grind

end Finam.TI
