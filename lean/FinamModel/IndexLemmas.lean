import FinamModel.Index
/-! Lemmas about the n-dimensional index maps of `Index.lean` (all ranks, both orders). -/
namespace Finam

theorem prod_append (a b : List Nat) : prod (a ++ b) = prod a * prod b := by
  induction a with
  | nil => simp [prod]
  | cons n ns ih => simp [prod, ih, Nat.mul_assoc]

theorem prod_reverse (a : List Nat) : prod a.reverse = prod a := by
  induction a with
  | nil => rfl
  | cons n ns ih => simp [prod_append, prod, ih, Nat.mul_comm]

theorem inB_iff (sh ix : List Nat) : inB sh ix = true ↔ InB sh ix := by
  induction sh generalizing ix with
  | nil => cases ix <;> simp [inB, InB]
  | cons n ns ih => cases ix with
    | nil => simp [inB, InB]
    | cons i is => simp [inB, InB, ih]

instance (sh ix : List Nat) : Decidable (InB sh ix) := decidable_of_iff _ (inB_iff sh ix)

theorem InB.length_eq {sh ix : List Nat} (h : InB sh ix) : ix.length = sh.length := by
  induction sh generalizing ix with
  | nil => cases ix <;> simp [InB] at *
  | cons n ns ih => cases ix with
    | nil => simp [InB] at h
    | cons i is => simp [InB] at h; simp [ih h.2]

theorem InB_append {s1 s2 i1 i2 : List Nat} (h1 : InB s1 i1) (h2 : InB s2 i2) :
    InB (s1 ++ s2) (i1 ++ i2) := by
  induction s1 generalizing i1 with
  | nil => cases i1 <;> simp [InB] at *; exact h2
  | cons n ns ih => cases i1 with
    | nil => simp [InB] at h1
    | cons i is => simp [InB] at *; exact ⟨h1.1, ih h1.2⟩

theorem InB_append_iff {s1 s2 i1 i2 : List Nat} (hl : i1.length = s1.length) :
    InB (s1 ++ s2) (i1 ++ i2) ↔ InB s1 i1 ∧ InB s2 i2 := by
  induction s1 generalizing i1 with
  | nil => cases i1 <;> simp [InB] at *
  | cons n ns ih => cases i1 with
    | nil => simp at hl
    | cons i is =>
      simp only [List.length_cons, Nat.add_right_cancel_iff] at hl
      simp [InB, ih hl, and_assoc]

theorem InB_reverse {sh ix : List Nat} (h : InB sh ix) : InB sh.reverse ix.reverse := by
  induction sh generalizing ix with
  | nil => cases ix <;> simp [InB] at *
  | cons n ns ih => cases ix with
    | nil => simp [InB] at h
    | cons i is =>
      simp only [InB] at h
      simp only [List.reverse_cons]
      exact InB_append (ih h.2) (by simp [InB, h.1])

theorem InB_reverse_iff {sh ix : List Nat} : InB sh.reverse ix.reverse ↔ InB sh ix :=
  ⟨fun h => by simpa using InB_reverse h, InB_reverse⟩

theorem InB.prod_pos {sh ix : List Nat} (h : InB sh ix) : 0 < prod sh := by
  induction sh generalizing ix with
  | nil => simp [prod]
  | cons n ns ih => cases ix with
    | nil => simp [InB] at h
    | cons i is =>
      simp only [InB] at h
      simp only [prod]
      exact Nat.mul_pos (by omega) (ih h.2)

theorem ravelC_lt : ∀ (sh ix : List Nat), InB sh ix → ravelC sh ix < prod sh := by
  intro sh
  induction sh with
  | nil => intro ix h; cases ix <;> simp [InB, ravelC, prod] at *
  | cons n ns ih =>
    intro ix h
    cases ix with
    | nil => simp [InB] at h
    | cons i is =>
      obtain ⟨hi, hr⟩ := h
      have := ih is hr
      simp only [ravelC, prod]
      calc i * prod ns + ravelC ns is < i * prod ns + prod ns := by omega
        _ = (i + 1) * prod ns := by rw [Nat.add_mul, Nat.one_mul]
        _ ≤ n * prod ns := Nat.mul_le_mul_right _ (by omega)

theorem unravel_ravelC : ∀ (sh ix : List Nat), InB sh ix → unravelC sh (ravelC sh ix) = ix := by
  intro sh
  induction sh with
  | nil => intro ix h; cases ix <;> simp [InB, unravelC] at *
  | cons n ns ih =>
    intro ix h
    cases ix with
    | nil => simp [InB] at h
    | cons i is =>
      obtain ⟨hi, hr⟩ := h
      have hlt := ravelC_lt ns is hr
      have hpos : 0 < prod ns := by omega
      simp only [ravelC, unravelC]
      have h1 : (i * prod ns + ravelC ns is) / prod ns = i := by
        rw [Nat.mul_comm, Nat.mul_add_div hpos, Nat.div_eq_of_lt hlt]; omega
      have h2 : (i * prod ns + ravelC ns is) % prod ns = ravelC ns is := by
        rw [Nat.mul_comm, Nat.mul_add_mod, Nat.mod_eq_of_lt hlt]
      rw [h1, h2, ih is hr]

theorem unravelC_length (sh : List Nat) (k : Nat) : (unravelC sh k).length = sh.length := by
  induction sh generalizing k with
  | nil => rfl
  | cons n ns ih => simp [unravelC, ih]

theorem unravelC_inB : ∀ (sh : List Nat) (k : Nat), k < prod sh → InB sh (unravelC sh k) := by
  intro sh
  induction sh with
  | nil => intro k _; simp [unravelC, InB]
  | cons n ns ih =>
    intro k hk
    simp only [prod] at hk
    have hpos : 0 < prod ns := by
      rcases Nat.eq_zero_or_pos (prod ns) with h | h
      · rw [h] at hk; simp at hk
      · exact h
    simp only [unravelC, InB]
    refine ⟨?_, ih _ (Nat.mod_lt _ hpos)⟩
    exact (Nat.div_lt_iff_lt_mul hpos).mpr hk

theorem ravelC_unravelC : ∀ (sh : List Nat) (k : Nat), k < prod sh → ravelC sh (unravelC sh k) = k := by
  intro sh
  induction sh with
  | nil => intro k hk; simp [prod] at hk; simp [ravelC, hk]
  | cons n ns ih =>
    intro k hk
    simp only [prod] at hk
    have hpos : 0 < prod ns := by
      rcases Nat.eq_zero_or_pos (prod ns) with h | h
      · rw [h] at hk; simp at hk
      · exact h
    simp only [unravelC, ravelC]
    rw [ih _ (Nat.mod_lt _ hpos)]
    rw [Nat.mul_comm]
    exact Nat.div_add_mod k (prod ns)

/-! ### both orders -/

theorem ravel_lt (o : Order) (sh ix : List Nat) (h : InB sh ix) : ravel o sh ix < prod sh := by
  cases o with
  | C => exact ravelC_lt sh ix h
  | F =>
    have := ravelC_lt _ _ (InB_reverse h)
    rwa [prod_reverse] at this

theorem unravel_ravel (o : Order) (sh ix : List Nat) (h : InB sh ix) :
    unravel o sh (ravel o sh ix) = ix := by
  cases o with
  | C => exact unravel_ravelC sh ix h
  | F => simp [unravel, ravel, unravel_ravelC _ _ (InB_reverse h)]

theorem unravel_inB (o : Order) (sh : List Nat) (k : Nat) (hk : k < prod sh) :
    InB sh (unravel o sh k) := by
  cases o with
  | C => exact unravelC_inB sh k hk
  | F =>
    have := unravelC_inB sh.reverse k (by rwa [prod_reverse])
    have h2 := InB_reverse this
    simpa [unravel] using h2

theorem ravel_unravel (o : Order) (sh : List Nat) (k : Nat) (hk : k < prod sh) :
    ravel o sh (unravel o sh k) = k := by
  cases o with
  | C => exact ravelC_unravelC sh k hk
  | F => simp [unravel, ravel, ravelC_unravelC sh.reverse k (by rwa [prod_reverse])]

theorem unravel_length (o : Order) (sh : List Nat) (k : Nat) : (unravel o sh k).length = sh.length := by
  cases o <;> simp [unravel, unravelC_length]

/-- the two flattenings of the same array are related by reversing shape and index:
    "C-ravel of the reversed index in the reversed shape = F-ravel of the index" -/
theorem ravel_reverse (o : Order) (sh ix : List Nat) :
    ravel o sh.reverse ix.reverse = ravel (match o with | .C => .F | .F => .C) sh ix := by
  cases o <;> simp [ravel]

/-- a ravel is injective on in-bounds indices -/
theorem ravel_inj (o : Order) (sh i j : List Nat) (hi : InB sh i) (hj : InB sh j)
    (h : ravel o sh i = ravel o sh j) : i = j := by
  rw [← unravel_ravel o sh i hi, ← unravel_ravel o sh j hj, h]

/-! ### padding with length-1 axes (gen_points pads every grid to three axes) -/

theorem ravelC_pad_one (sh ix : List Nat) (h : ix.length = sh.length) :
    ravelC (sh ++ [1]) (ix ++ [0]) = ravelC sh ix := by
  induction sh generalizing ix with
  | nil => cases ix <;> simp [ravelC] at *
  | cons n ns ih => cases ix with
    | nil => simp at h
    | cons i is =>
      simp only [List.length_cons, Nat.add_right_cancel_iff] at h
      simp [ravelC, ih is h, prod_append, prod]

theorem ravel_pad_one (o : Order) (sh ix : List Nat) (h : ix.length = sh.length) :
    ravel o (sh ++ [1]) (ix ++ [0]) = ravel o sh ix := by
  cases o with
  | C => exact ravelC_pad_one sh ix h
  | F => simp [ravel, ravelC]

/-! ### lists: flat / ofFlat -/

theorem Arr.flat_length {α} (o : Order) (a : Arr α) : (a.flat o).length = prod a.shape := by
  simp [Arr.flat]

theorem Arr.flat_getD {α} (o : Order) (a : Arr α) (k : Nat) (hk : k < prod a.shape) (d : α) :
    (a.flat o).getD k d = a.get (unravel o a.shape k) := by
  simp [Arr.flat, List.getD, hk]

theorem Arr.flat_getElem? {α} (o : Order) (a : Arr α) (k : Nat) (hk : k < prod a.shape) :
    (a.flat o)[k]? = some (a.get (unravel o a.shape k)) := by
  simp [Arr.flat, hk]

/-- reshaping the flattening back gives the array (same order both ways) -/
theorem Arr.ofFlat_flat {α} (o : Order) (a : Arr α) (d : α) :
    (Arr.ofFlat o a.shape (a.flat o) d).Eqv a := by
  refine ⟨rfl, fun i hi => ?_⟩
  have hi' : InB a.shape i := hi
  simp only [Arr.ofFlat]
  rw [Arr.flat_getD o a _ (ravel_lt o _ _ hi'), unravel_ravel o _ _ hi']

/-! ### compress / scatter -/

theorem compressNot_length {α} (m : List Bool) (xs : List α) (h : xs.length = m.length) :
    (compressNot m xs).length = countNot m := by
  induction m generalizing xs with
  | nil => cases xs <;> simp [compressNot, countNot]
  | cons b ms ih => cases xs with
    | nil => simp at h
    | cons x xs =>
      simp only [List.length_cons, Nat.add_right_cancel_iff] at h
      cases b <;> simp [compressNot, countNot, ih xs h] <;> omega

theorem scatterNot_length {α} (m : List Bool) (vs : List α) : (scatterNot m vs).length = m.length := by
  induction m generalizing vs with
  | nil => simp [scatterNot]
  | cons b ms ih =>
    cases b with
    | true => simp [scatterNot, ih]
    | false => cases vs <;> simp [scatterNot, ih]

/-- **the flat heart of C18**: scattering the compressed values back under the same mask restores
    every unmasked entry at its position and leaves exactly the masked positions undefined -/
theorem scatter_compress {α} (m : List Bool) (xs : List α) (h : xs.length = m.length) (k : Nat)
    (hk : k < m.length) :
    (scatterNot m (compressNot m xs))[k]? =
      some (if m.getD k true then none else xs[k]?) := by
  induction m generalizing xs k with
  | nil => simp at hk
  | cons b ms ih => cases xs with
    | nil => simp at h
    | cons x xs =>
      simp only [List.length_cons, Nat.add_right_cancel_iff] at h
      cases b with
      | true =>
        cases k with
        | zero => simp [compressNot, scatterNot]
        | succ k =>
          simp only [List.length_cons] at hk
          simp [compressNot, scatterNot, ih xs h k (by omega)]
      | false =>
        cases k with
        | zero => simp [compressNot, scatterNot]
        | succ k =>
          simp only [List.length_cons] at hk
          simp [compressNot, scatterNot, ih xs h k (by omega)]

end Finam
