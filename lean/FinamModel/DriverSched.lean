import FinamModel.DriverUtil
import FinamModel.Sched
import FinamModel.Output
import FinamModel.Net
import FinamModel.NetC
/-! Driver handlers for the scheduler model (C01–C05, C13, C20). -/
namespace Finam.Driver.Sched
open Lean Finam Finam.Driver

def parseAd (j : Json) : Ad :=
  match arr j with
  | k :: rest =>
    match asStr k, rest with
    | "pass", _ => .pass
    | "cache", _ => .cache
    | "nodep", _ => .nodep
    | "dpush", _ => .dpush
    | "dfix", [d, i] => .dfix (asInt d) (asInt i)
    | "dpull", [id, n, a, i] => .dpull (asNat id) (asNat n) (asInt a) (asInt i)
    | _, _ => .pass
  | [] => .pass

def parseLink (j : Json) : Link :=
  ⟨(getArr j "ads").map parseAd, getNat j "src", getBool j "static"⟩

def parseComp (j : Json) : Comp :=
  let inputs := (getArr j "inputs").map parseLink
  if getStr j "kind" == "pull" then ⟨.pull, inputs, [], 0⟩
  else
    let steps := (getArr j "steps").map asInt
    let start := getInt j "start"
    let nxt := if hasKey j "next" then getInt j "next" else start + steps.headD 1
    ⟨.time start nxt (getBool j "finished"), inputs, steps, getNat j "k"⟩

def parseState (j : Json) : State :=
  { comps := (getArr j "comps").map parseComp,
    outs := (getArr j "outs").map fun o => ⟨getNat o "owner", getInt o "time"⟩,
    dp := if hasKey j "dp" then (getArr j "dp").map (fun l => (arr l).map asInt)
          else List.replicate (getNat j "ndp") [] }

def jSErr : SErr → Json
  | .circular => Json.str "FinamCircularCouplingError"
  | .finished => Json.str "FinamTimeError"
  | .fuel => Json.str "fuel"

def handleRun (j : Json) : Json :=
  let s := parseState j
  let (ups, e, s') := runLoop (getNat j "fuel") s (getInt j "end") []
  Json.mkObj [
    ("updates", jList (fun p => Json.arr #[jNat p.1, jInt p.2]) ups),
    ("end", match e with | .done => Json.str "done" | .err x => jSErr x | .outOfFuel => Json.str "outOfFuel"),
    ("final", jList (fun c => jInt (getNow c)) s'.comps),
    ("dp", jList (jList jInt) s'.dp)]

/-- the same composition under an explicit listing (component indices stay as given) -/
def handleRunOrd (j : Json) : Json :=
  let s := parseState j
  let order := (getArr j "listing").map asNat
  let (ups, e, s') := runLoopOrd order (getNat j "fuel") s (getInt j "end") []
  Json.mkObj [
    ("updates", jList (fun p => Json.arr #[jNat p.1, jInt p.2]) ups),
    ("end", match e with | .done => Json.str "done" | .err x => jSErr x | .outOfFuel => Json.str "outOfFuel"),
    ("final", jList (fun c => jInt (getNow c)) s'.comps),
    ("dp", jList (jList jInt) s'.dp)]

/-- the run loop on the network model (scheduler + bounded output histories): per update the retained length of
    every output and whether all pulls were answered -/
def handleNetRun (j : Json) : Json :=
  let s := parseState j
  let hist := (getArr j "hist").map fun l => (arr l).map fun t => (⟨asInt t, ()⟩ : Entry Unit)
  let neps := (getArr j "neps").map asNat
  let epTab := (getArr j "ep").map fun e => match arr e with | [c, i, k] => (asNat c, asNat i, asNat k) | _ => (0, 0, 0)
  let n : Net := { sch := s,
                   os := fun o => ⟨hist.getD o [], hist.getD o [], List.replicate (neps.getD o 0) none⟩,
                   ep := fun c i => match epTab.find? (fun e => e.1 == c && e.2.1 == i) with | some e => e.2.2 | none => 0 }
  let (ups, e, n') := netRunLoop (getNat j "fuel") n (getInt j "end") []
  Json.mkObj [
    ("updates", jList (fun p => Json.arr #[jNat p.1, jList jNat p.2.1, Json.bool p.2.2]) ups),
    ("end", match e with | .done => Json.str "done" | .err x => jSErr x | .outOfFuel => Json.str "outOfFuel"),
    ("final", jList (fun c => jInt (getNow c)) n'.sch.comps)]

def jOptToInt (x : Json) : Option Int := match x with | .null => none | v => some (asInt v)

/-- the run loop on the network with push-based adapters as relay nodes -/
def handleNetCRun (j : Json) : Json :=
  let s := parseState j
  let hist := (getArr j "hist").map fun l => (arr l).map fun t => (⟨asInt t, ()⟩ : Entry Unit)
  let neps := (getArr j "neps").map asNat
  let tab := (getArr j "links").map fun e => match arr e with
    | [c, i, node, k] => (asNat c, asNat i, asNat node, asNat k) | _ => (0, 0, 0, 0)
  let relays := (getArr j "relays").map fun e => match arr e with | [r, o, k] => (asNat r, asNat o, asNat k) | _ => (0, 0, 0)
  let find := fun (c i : Nat) => tab.find? (fun e => e.1 == c && e.2.1 == i)
  let n : NetC := { sch := s,
                    os := fun o =>
                      let l0 := if hasKey j "last" then ((getArr j "last").getD o Json.null |> arr).map jOptToInt
                                else List.replicate (neps.getD o 0) none
                      let r0 := if hasKey j "ret" then ((getArr j "ret").getD o Json.null |> arr).map fun t => (⟨asInt t, ()⟩ : Entry Unit)
                                else hist.getD o []
                      ⟨hist.getD o [], r0, l0⟩,
                    ep := fun c i => match find c i with | some e => e.2.2.2 | none => 0,
                    node := fun c i => match find c i with | some e => e.2.2.1 | none => 0,
                    relays := relays }
  let (ups, e, n') := netRunLoopC (List.range hist.length) (getNat j "fuel") n (getInt j "end") []
  Json.mkObj [
    ("updates", jList (fun p => Json.arr #[jNat p.1, jList jNat p.2.1, Json.bool p.2.2]) ups),
    ("end", match e with | .done => Json.str "done" | .err x => jSErr x | .outOfFuel => Json.str "outOfFuel"),
    ("final", jList (fun c => jInt (getNow c)) n'.sch.comps)]

def handleNeed (j : Json) : Json :=
  let dp := (getArr j "dp").map (fun l => (arr l).map asInt)
  let ads := (getArr j "ads").map parseAd
  let t := getInt j "t"
  Json.mkObj [("need", jOptInt (need dp ads t)), ("walk", jOptInt (walk dp ads t false))]

def handleDeps (j : Json) : Json :=
  let s := parseState j
  let c := getNat j "comp"
  let tgt := getInt j "target"
  Json.mkObj [("deps", jList (fun p => Json.arr #[jNat p.1, jInt p.2]) (findDeps s c tgt)),
    ("select", match select s with | some i => jNat i | none => Json.null),
    ("rec", match updateRec s (s.comps.length + 1) c [] none with
            | .ok (some u) => jNat u | .ok none => Json.null | .error e => jSErr e)]


/-- C13: pushes and pulls over one link `Output >> adapters >> Input` (adapters consumer side first);
    answers for a pull: the time that reaches the source output and the index of the publication served -/
def handleC13 (j : Json) : Json :=
  let ads := (getArr j "ads").map parseAd
  let init := getInt j "init"
  let ndp := getNat j "ndp"
  let rec go (hist : List (Entry Int)) (newest : Int) (dp : DP) (idx : Int) (evs : List Json) (acc : List Json) : List Json :=
    match evs with
    | [] => acc.reverse
    | e :: rest =>
      match arr e with
      | [k, t] =>
        let t := asInt t
        if asStr k == "push" then go (hist ++ [⟨t, idx⟩]) t dp (idx + 1) rest (Json.null :: acc)
        else
          let s : State := { comps := [], outs := [⟨0, newest⟩], dp := dp }
          let (dp', r) := pullChain s dp ads 0 t
          let ans := match r with
            | none => Json.mkObj [("reach", Json.null)]
            | some t' => Json.mkObj [("reach", jInt t'), ("value", jRes jInt (lookup hist t'))]
          -- `_pulled` runs only after the source answered: a refused request leaves the tables unchanged
          let ok := match r with | some t' => (match lookup hist t' with | .ok _ => true | .error _ => false) | none => true
          go hist newest (if ok then dp' else dp) idx rest (ans :: acc)
      | _ => go hist newest dp idx rest (Json.null :: acc)
  Json.mkObj [("results", Json.arr (go [] init (List.replicate ndp []) 0 (getArr j "events") []).toArray),
              ("need0", jOptInt (need (List.replicate ndp []) ads (getInt j "probe")))]

def handlers : List (String × (Json → Json)) :=
  [("sched_run", handleRun), ("sched_run_ord", handleRunOrd), ("net_run", handleNetRun), ("netc_run", handleNetCRun), ("sched_need", handleNeed), ("sched_deps", handleDeps), ("c13", handleC13)]

end Finam.Driver.Sched
