import FinamModel.DriverUtil
import FinamModel.Static
/-! Driver handlers for static slots and the weighted-sum merger (C20). -/
namespace Finam.Driver.C20
open Lean Finam Finam.Driver

def parseOp (j : Json) : Option (SOp Int) :=
  match arr j with
  | [k, v] =>
    if asStr k == "push" then some (.push (asInt v))
    else if asStr k == "pull" then some (.pull (asOptInt v))
    else if asStr k == "get" then some (.get (asOptInt v))
    else none
  | _ => none

def handleStatic (j : Json) : Json :=
  let ops := (getArr j "ops").filterMap parseOp
  let rs := sRun (⟨none⟩ : SOut Int) ⟨none⟩ ops
  Json.mkObj [("results", jList (fun r => match r with
    | .ok none => Json.mkObj [("ok", Json.null)]
    | .ok (some v) => Json.mkObj [("ok", jInt v)]
    | .error e => jErr e) rs)]

/-- requests: [{"t": int, "pairs": [[v, w], ...]}] -/
def handleWS (j : Json) : Json :=
  let reqs := getArr j "requests"
  let rec go (s : WS) (rs : List Json) (acc : List Json) : List Json :=
    match rs with
    | [] => acc.reverse
    | r :: rest =>
      let pairs := (getArr r "pairs").map fun p => match arr p with | [v, w] => (asRat v, asRat w) | _ => (0, 0)
      match s.request (getInt r "t") pairs with
      | .ok (v, s') => go s' rest (Json.mkObj [("ok", jRat v)] :: acc)
      | .error e => go s rest (jErr e :: acc)
  Json.mkObj [("results", Json.arr (go ⟨none, 0, none, 1⟩ reqs []).toArray)]

def handlers : List (String × (Json → Json)) := [("c20_static", handleStatic), ("c20_ws", handleWS)]

end Finam.Driver.C20
