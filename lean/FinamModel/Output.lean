import FinamModel.Basic
/-
  Model of `finam/sdk/output.py`: the retained history of an `Output`, the nearest-step
  lookup of `Output._interpolate`, the eviction loop of `Output._clear_data`, and the
  per-end-point bookkeeping (`_connected_inputs`).
-/
namespace Finam

/-- loop body of `Output._interpolate` from index ≥ 1; `prev` = `data[i-1]`.
    Mirrors: `if time > t: continue; if time == t: return data;`
    `if time - t_prev < t - time: return data_prev; return data`. -/
def lookupAux {α} (prev : Entry α) : List (Entry α) → Int → Except Err α
  | [], _ => .error .timeErr
  | e :: es, t =>
    if t > e.t then lookupAux e es t
    else if t = e.t then .ok e.v
    else if t - prev.t < e.t - t then .ok prev.v else .ok e.v

def lastT {α} (e0 : Entry α) : List (Entry α) → Int
  | [] => e0.t
  | e :: es => lastT e es

/-- `Output._interpolate` preceded by the `len(self.data) == 0` test of `get_data`. -/
def lookup {α} : List (Entry α) → Int → Except Err α
  | [], _ => .error .noData
  | e0 :: es, t =>
    if t < e0.t ∨ t > lastT e0 es then .error .timeErr
    else if t = e0.t then .ok e0.v
    else lookupAux e0 es t

/-- the `while len(data) > 1 and data[1][0] <= t_min: data.pop(0)` loop of `_clear_data` -/
def evict {α} : List (Entry α) → Int → List (Entry α)
  | e0 :: e1 :: es, tmin => if e1.t ≤ tmin then evict (e1 :: es) tmin else e0 :: e1 :: es
  | d, _ => d

/-- minimum of the recorded last requests; `none` while some end point has not pulled yet
    (`any(t is None ...)`) or when there is no end point. -/
def minLast : List (Option Int) → Option Int
  | [] => none
  | [x] => x
  | x :: xs => match x, minLast xs with
    | some a, some b => some (if a ≤ b then a else b)
    | _, _ => none

def allSome (l : List (Option Int)) : Bool := l.all Option.isSome

/-- State of one output with `hist` = everything ever published (specification / ghost state),
    `ret` = what the implementation retains, `last` = `_connected_inputs` values. -/
structure OState (α : Type) where
  hist : List (Entry α)
  ret  : List (Entry α)
  last : List (Option Int)

inductive Ev (α : Type) where
  | push (t : Int) (v : α)
  | pull (k : Nat) (t : Int)

/-- implementation step; returns the answer of a pull -/
def stepImpl {α} (s : OState α) : Ev α → OState α × Option (Except Err α)
  | .push t v => ({ s with hist := s.hist ++ [⟨t, v⟩], ret := s.ret ++ [⟨t, v⟩] }, none)
  | .pull k t =>
    match lookup s.ret t with
    | .ok v =>
      let last' := s.last.set k (some t)
      let ret' := match minLast last' with
        | some m => if allSome last' then evict s.ret m else s.ret
        | none => s.ret
      ({ s with last := last', ret := ret' }, some (.ok v))
    | r => (s, some r)

/-- specification: unlimited history -/
def answerSpec {α} (s : OState α) : Ev α → Option (Except Err α)
  | .push _ _ => none
  | .pull _ t => some (lookup s.hist t)

def initState (α : Type) (n : Nat) : OState α := ⟨[], [], List.replicate n none⟩

/-- run a whole history, collecting the implementation's and the specification's answers,
    and the retained length after each event -/
def runBoth {α} : OState α → List (Ev α) → List (Option (Except Err α) × Option (Except Err α))
  | _, [] => []
  | s, ev :: evs => ((stepImpl s ev).2, answerSpec s ev) :: runBoth (stepImpl s ev).1 evs

def runStates {α} : OState α → List (Ev α) → List (OState α)
  | _, [] => []
  | s, ev :: evs => (stepImpl s ev).1 :: runStates (stepImpl s ev).1 evs

def runFinal {α} : OState α → List (Ev α) → OState α
  | s, [] => s
  | s, ev :: evs => runFinal (stepImpl s ev).1 evs

/-- precondition of one event (Bool-valued so concrete histories can be checked by `decide`):
    publications are newer than everything so far, pulls are monotone per end point -/
def preB {α} (s : OState α) : Ev α → Bool
  | .push t _ => s.hist.all fun e => decide (e.t < t)
  | .pull k t => decide (k < s.last.length) &&
      (match s.last[k]? with | some (some a) => decide (a ≤ t) | _ => true)

def preAllB {α} : OState α → List (Ev α) → Bool
  | _, [] => true
  | s, ev :: evs => preB s ev && preAllB (stepImpl s ev).1 evs

end Finam
