import FinamModel.Basic
/-!
  Metadata exchange over a link (`finam/data/tools/info.py`: `Info.accepts`, `Info.copy_with`;
  `finam/data/tools/mask.py`: `masks_compatible`; `finam/sdk/output.py`: `Output.get_info`;
  `finam/sdk/input.py`: `Input.exchange_info`; `finam/sdk/adapter.py`: `Adapter.get_info`,
  `exchange_info`; the `_get_info` rewrites of `adapters/base.py` (`GridToValue`),
  `adapters/regrid.py` (`ARegridding`), `adapters/time_integration.py` (`SumOverTime`)).

  Grids, units, explicit masks and meta values are identifiers; which grids are compatible /
  equal, which units are convertible, which explicit masks are equal (given the grids they live
  on) are abstract decidable relations (`Rel`): their laws are the business of C15, C17, C18.
-/
namespace Finam.Info

/-- `own if own is not None else other` -/
def pick {α} (own other : Option α) : Option α :=
  match own with
  | some x => some x
  | none => other

/-- `Mask.FLEX`, `Mask.NONE`, an explicit boolean mask -/
inductive MaskSpec where
  | flex | none | explicit (m : Nat)
deriving Repr, DecidableEq

structure Info where
  time : Option Int
  grid : Option Nat
  units : Option Nat                       -- `meta["units"]`
  mask : Option MaskSpec                   -- `None` only inside requests of regridding adapters
  extra : List (String × Option Nat)        -- the other entries of `meta`, in dict order
deriving Repr, DecidableEq

structure Rel where
  gridCompat : Nat → Nat → Bool            -- `a.compatible_with(b)`
  gridEq : Nat → Nat → Bool                -- `a == b`
  transformOk : Nat → Nat → Bool           -- `a.get_transform_to(b)` does not raise
  unitsCompat : Nat → Nat → Bool           -- `compatible_units(a, b)`
  maskEq : Nat → Nat → Option Nat → Option Nat → Bool   -- `masks_equal(a, b, grid_a, grid_b)`
  maskFits : Nat → Nat → Bool              -- the array's shape is the grid's `data_shape` (`Info.mask` setter)
  noGrid : Nat                             -- `NoGrid()`
  timesSecond : Nat → Nat                  -- `(units * s)` reduced

/-- `mask_specified(m)`: not one of the `Mask` enum members (`None` counts as specified) -/
def maskSpecified : Option MaskSpec → Bool
  | some .flex => false
  | some .none => false
  | _ => true

/-- `masks_equal(this, other, this_grid, other_grid)` -/
def masksEqual (R : Rel) (this other : Option MaskSpec) (thisGrid otherGrid : Option Nat) : Bool :=
  match this, other with
  | none, none => true
  | some (.explicit a), some (.explicit b) => R.maskEq a b thisGrid otherGrid
  | some .flex, some .flex => true
  | some .none, some .none => true
  | _, _ => false      -- enum vs enum: `this == other`; enum / None vs array: not a valid mask

/-- `masks_compatible(this, incoming, incoming_donwstream, this_grid, incoming_grid)` -/
def masksCompatible (R : Rel) (this incoming : Option MaskSpec) (downstream : Bool)
    (thisGrid incomingGrid : Option Nat) : Bool :=
  let up := if downstream then this else incoming
  let down := if downstream then incoming else this
  let upG := if downstream then thisGrid else incomingGrid
  let downG := if downstream then incomingGrid else thisGrid
  if up.isNone then false
  else if !maskSpecified down then
    if !maskSpecified up then (down == some .flex || up == some .none) else down == some .flex
  else if !maskSpecified up then false
  else masksEqual R down up downG upG

/-- `Info.accepts(self, incoming, fail_info, incoming_donwstream)` -/
def accepts (R : Rel) (self incoming : Info) (downstream : Bool) : Bool :=
  let gridOk := match self.grid with
    | none => true
    | some g =>
      (match incoming.grid with | none => false | some h => R.gridCompat g h) ||
      (downstream && incoming.grid.isNone)
  let maskOk := match self.mask with
    | none => true
    | some m =>
      masksCompatible R (some m) incoming.mask downstream self.grid incoming.grid ||
      (downstream && incoming.mask.isNone)
  let unitsOk := match self.units with
    | none => true
    | some u1 =>
      match incoming.units with
      | none => downstream
      | some u2 => R.unitsCompat u1 u2
  gridOk && maskOk && unitsOk

/-- the shape test of the `Info.mask` setter: an explicit mask must have the grid's data shape -/
def maskFitsGrid (R : Rel) (m : Option MaskSpec) (g : Option Nat) : Bool :=
  match m, g with
  | some (.explicit k), some gg => R.maskFits k gg
  | _, _ => true

/-- `Info(time=…, grid=…, meta=…, mask=…)` as called at the start of every `copy_with`:
    "Mask in Info not compatible with given grid." -/
def mkInfo (R : Rel) (i : Info) : Except Err Info :=
  if maskFitsGrid R i.mask i.grid then .ok i else .error .metaErr

/-! ### `Output.get_info` -/

structure OutState where
  info : Option Info
  exchanged : Nat          -- `_out_infos_exchanged`
  static : Bool
deriving Repr, DecidableEq

/-- the loop `for k, v in self._output_info.extra.items(): if v is None: …` -/
def fillMeta (req : List (String × Option Nat)) : List (String × Option Nat) → Except Err (List (String × Option Nat))
  | [] => .ok []
  | (k, some v) :: rest =>
    match fillMeta req rest with
    | .ok r => .ok ((k, some v) :: r)
    | .error e => .error e
  | (k, none) :: rest =>
    match req.lookup k with
    | some (some x) =>
      match fillMeta req rest with
      | .ok r => .ok ((k, some x) :: r)
      | .error e => .error e
    | _ => .error .metaErr

/-- `Output.get_info(info)`: test the request, fill unset grid / time / meta from it, count -/
def outputGetInfo (R : Rel) (o : OutState) (req : Info) : Except Err (Info × OutState) :=
  match o.info with
  | none => .error .noData
  | some oi =>
    if !accepts R oi req true then .error .metaErr
    else
      match pick oi.grid req.grid with
      | none => .error .metaErr                               -- "Can't set property `grid`"
      | some g =>
        if oi.time.isNone && !o.static && req.time.isNone then .error .metaErr   -- "Can't set property `time`"
        else
          match pick oi.units req.units with
          | none => .error .metaErr                           -- "Can't set property `meta.units`"
          | some u =>
            match fillMeta req.extra oi.extra with
            | .error e => .error e
            | .ok m =>
              let filled : Info := ⟨pick oi.time req.time, some g, some u, oi.mask, m⟩
              .ok (filled, ⟨some filled, o.exchanged + 1, o.static⟩)

/-! ### adapters -/

inductive AKind where
  | identity       -- `Adapter._get_info` not overridden (Scale, time adapters, …)
  | gridToValue
  | sumOverTime    -- `per_time=True`
  | regrid         -- `ARegridding` constructed without arguments
deriving Repr, DecidableEq

structure AState where
  kind : AKind
  inInfo : Option Info := none
  outInfo : Option Info := none
  inputGrid : Option Nat := none
  outputGrid : Option Nat := none
  inputMask : Option MaskSpec := none
  outputMask : Option MaskSpec := none
  downstreamMask : Option MaskSpec := none
  initialized : Bool := false
  maskChecked : Bool := false
deriving Repr, DecidableEq

/-- `ARegridding._check_and_set_out_mask` -/
def checkAndSetOutMask (R : Rel) (a : AState) : Except Err AState :=
  if a.maskChecked then .ok a
  else if a.outputMask.isSome && a.downstreamMask.isSome &&
      !masksCompatible R a.outputMask a.downstreamMask true none none then .error .metaErr
  else
    let om := pick a.outputMask a.downstreamMask
    .ok { a with outputMask := om, maskChecked := om.isSome }

/-- both grids are known and `a != b` -/
def gridsDiffer (R : Rel) (a b : Option Nat) : Bool :=
  match a, b with
  | some og, some g => !R.gridEq og g
  | _, _ => false

def isExplicit : Option MaskSpec → Bool
  | some (.explicit _) => true
  | _ => false

/-- `a.get_transform_to(b)` raises -/
def transformFails (R : Rel) (a b : Option Nat) : Bool :=
  match a, b with
  | some x, some y => !R.transformOk x y
  | _, _ => false

/-- `ARegridding._get_info`, the part after the upstream exchange -/
def regridAfter (R : Rel) (a : AState) (req inInfo : Info) : Except Err (Info × AState) :=
  if a.outputGrid.isNone && req.grid.isNone then .error .metaErr
  else if a.inputGrid.isNone && inInfo.grid.isNone then .error .metaErr
  else if a.outputMask.isNone && req.mask.isNone then .error .metaErr
  else if a.inputMask.isNone && inInfo.mask.isNone then .error .metaErr
  else if gridsDiffer R a.outputGrid req.grid then .error .metaErr
  else
    -- `self.input_grid = in_info.grid or self.input_grid` (the delivered grid's layout is the layout of the data);
    -- `if self.input_mask is None: self.input_mask = in_info.mask`
    let a1 : AState := { a with
      inputGrid := pick inInfo.grid a.inputGrid,
      inputMask := pick a.inputMask inInfo.mask,
      outputGrid := pick a.outputGrid req.grid }
    -- in_info.copy_with(grid=self.output_grid, mask=self.output_mask): fresh Info, grid set, then the mask setter
    let fin (a2 : AState) : Except Err (Info × AState) :=
      match mkInfo R inInfo with
      | .error e => .error e
      | .ok i =>
        if maskFitsGrid R a2.outputMask a2.outputGrid then .ok ({ i with grid := a2.outputGrid, mask := a2.outputMask }, a2)
        else .error .metaErr
    -- `self.input_grid.crs` / `self.output_grid.crs`: a `NoGrid` has no `crs` (AttributeError)
    if a1.inputGrid == some R.noGrid || a1.outputGrid == some R.noGrid then .error .other
    else if !a1.initialized then
      -- downstream_mask = info.mask; _update_grid_specs() (RegridNearest: _check_and_set_out_mask());
      -- _check_and_set_out_mask(); _is_initialized = True
      match checkAndSetOutMask R { a1 with downstreamMask := req.mask } with
      | .error e => .error e
      | .ok a2 =>
        match checkAndSetOutMask R a2 with
        | .error e => .error e
        | .ok a3 => fin { a3 with initialized := true }
    else fin a1

/-- `Adapter.get_info` along a chain of adapters (head = the adapter next to the consumer) down to
    the output: every adapter rewrites the request on the way up and the answer on the way down,
    and stores the answer as its `in_info` / `info` -/
def chainGetInfo (R : Rel) : List AState → OutState → Info → Except Err (Info × List AState × OutState)
  | [], o, req =>
    match outputGetInfo R o req with
    | .error e => .error e
    | .ok (r, o') => .ok (r, [], o')
  | a :: rest, o, req =>
    -- the request travelling up: `info.copy_with(…)` (a fresh `Info`, so the mask/grid shape test runs)
    let up : Except Err Info := match a.kind with
      | .identity => .ok req
      | .gridToValue => (mkInfo R req).map fun i => { i with grid := none }                 -- copy_with(grid=None)
      | .sumOverTime => (mkInfo R req).map fun i => { i with units := none }                -- copy_with(units=None)
      | .regrid => (mkInfo R req).map fun i => { i with grid := a.inputGrid, mask := none } -- copy_with(grid=self.input_grid, mask=None)
    match up with
    | .error e => .error e
    | .ok upReq =>
    match chainGetInfo R rest o upReq with
    | .error e => .error e
    | .ok (inInfo, rest', o') =>
      match a.kind with
      | .identity => .ok (inInfo, { a with inInfo := some inInfo, outInfo := some inInfo } :: rest', o')
      | .gridToValue =>
        match mkInfo R inInfo with                                       -- in_info.copy_with(grid=NoGrid())
        | .error e => .error e
        | .ok i =>
          let out : Info := { i with grid := some R.noGrid }
          .ok (out, { a with inInfo := some inInfo, outInfo := some out } :: rest', o')
      | .sumOverTime =>
        match inInfo.units with
        | none => .error .other                                         -- `None * Unit`
        | some u =>
          match mkInfo R inInfo with                                     -- in_info.copy_with(units=…)
          | .error e => .error e
          | .ok i =>
            let out : Info := { i with units := some (R.timesSecond u) }
            .ok (out, { a with inInfo := some inInfo, outInfo := some out } :: rest', o')
      | .regrid =>
        match regridAfter R a req inInfo with
        | .error e => .error e
        | .ok (out, a') => .ok (out, { a' with inInfo := some inInfo, outInfo := some out } :: rest', o')

/-! ### `Input.exchange_info` -/

structure InState where
  info : Info
  exchanged : Bool := false
  delivered : Option Info := none     -- what the source answered (`src_info`)
deriving Repr, DecidableEq

/-- `other.extra[k] = v` for every non-`None` entry of the consumer -/
def overrideMeta (base : List (String × Option Nat)) : List (String × Option Nat) → List (String × Option Nat)
  | [] => base
  | (_, none) :: rest => overrideMeta base rest
  | (k, some v) :: rest =>
    overrideMeta (if (base.lookup k).isSome then base.map (fun e => if e.1 = k then (k, some v) else e)
                  else base ++ [(k, some v)]) rest

/-- `src_info.copy_with(use_none=False, time=info.time, grid=info.grid, **info.extra)` -/
def mergeInfo (src own : Info) : Info :=
  { time := pick own.time src.time,
    grid := pick own.grid src.grid,
    units := pick own.units src.units,
    mask := src.mask,
    extra := overrideMeta src.extra own.extra }

/-- `Input.exchange_info()` through an adapter chain -/
def exchange (R : Rel) (chain : List AState) (o : OutState) (inp : InState) :
    Except Err (InState × List AState × OutState) :=
  if inp.exchanged then .error .metaErr
  else
    match chainGetInfo R chain o inp.info with
    | .error e => .error e
    | .ok (src, chain', o') =>
      if !accepts R inp.info src false then .error .metaErr
      else if !maskFitsGrid R src.mask src.grid then .error .metaErr     -- `copy_with` builds a fresh `Info` of `src_info`
      else
        let fin := mergeInfo src inp.info
        -- self._transform = src_info.grid.get_transform_to(self._input_info.grid)
        if transformFails R src.grid fin.grid then .error .other
        else .ok (⟨fin, true, some src⟩, chain', o')

/-- a branch below the output: one adapter chain (shared state) feeding one or more consumers -/
structure Branch where
  chain : List AState
  inputs : List InState
deriving Repr, DecidableEq

/-- several consumers of one output exchanging in the given order; `order` holds
    (branch index, input index) pairs -/
def exchangeAll (R : Rel) : List (Nat × Nat) → List Branch → OutState → Except Err (List Branch × OutState)
  | [], bs, o => .ok (bs, o)
  | (b, j) :: ks, bs, o =>
    match bs[b]? with
    | none => .error .other
    | some br =>
      match br.inputs[j]? with
      | none => .error .other
      | some inp =>
        match exchange R br.chain o inp with
        | .error e => .error e
        | .ok (inp', chain', o') => exchangeAll R ks (bs.set b ⟨chain', br.inputs.set j inp'⟩) o'

/-- no field is left unset -/
def Complete (i : Info) : Prop :=
  i.time.isSome ∧ i.grid.isSome ∧ i.units.isSome ∧ i.mask.isSome ∧ ∀ e ∈ i.extra, e.2.isSome

end Finam.Info
