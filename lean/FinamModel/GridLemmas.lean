import FinamModel.IndexLemmas
import FinamModel.Grid
/-! Lemmas about the structured-grid model of `Grid.lean`. -/
namespace Finam

/-! ### padding a shape with length-1 axes -/

theorem prod_replicate_one (n : Nat) : prod (List.replicate n 1) = 1 := by
  induction n with
  | zero => rfl
  | succ n ih => simp [List.replicate_succ, prod, ih]

theorem prod_pad (sh : List Nat) (n : Nat) : prod (sh ++ List.replicate n 1) = prod sh := by
  simp [prod_append, prod_replicate_one]

theorem InB_replicate (n : Nat) : InB (List.replicate n 1) (List.replicate n 0) := by
  induction n with
  | zero => simp [InB]
  | succ n ih => simp [List.replicate_succ, InB, ih]

theorem InB_pad {sh ix : List Nat} (h : InB sh ix) (n : Nat) :
    InB (sh ++ List.replicate n 1) (ix ++ List.replicate n 0) :=
  InB_append h (InB_replicate n)

theorem ravel_pad (o : Order) (sh ix : List Nat) (h : ix.length = sh.length) (n : Nat) :
    ravel o (sh ++ List.replicate n 1) (ix ++ List.replicate n 0) = ravel o sh ix := by
  induction n with
  | zero => simp
  | succ n ih =>
    rw [List.replicate_succ', List.replicate_succ', ← List.append_assoc, ← List.append_assoc]
    rw [ravel_pad_one o _ _ (by simp [h]), ih]

/-! ### axes, directions, coordinates -/

namespace SGrid

theorem dirAxes_length (axes : List (List Rat)) (inc : List Bool) :
    (dirAxes axes inc).length = axes.length := by
  induction axes generalizing inc with
  | nil => cases inc <;> simp [dirAxes]
  | cons a as ih => cases inc with
    | nil => simp [dirAxes]
    | cons b bs => simp [dirAxes, ih]

theorem dirAxes_map_length (axes : List (List Rat)) (inc : List Bool) :
    (dirAxes axes inc).map List.length = axes.map List.length := by
  induction axes generalizing inc with
  | nil => cases inc <;> simp [dirAxes]
  | cons a as ih => cases inc with
    | nil => simp [dirAxes]
    | cons b bs => cases b <;> simp [dirAxes, ih]

theorem pick_length (axes : List (List Rat)) (ix : List Nat) (h : ix.length = axes.length) :
    (pick axes ix).length = axes.length := by
  simp [pick, h]

theorem pick_append_take (axes p : List (List Rat)) (ix q : List Nat) (h : ix.length = axes.length) :
    (pick (axes ++ p) (ix ++ q)).take axes.length = pick axes ix := by
  induction axes generalizing ix with
  | nil => cases ix <;> simp [pick] at *
  | cons a as ih => cases ix with
    | nil => simp at h
    | cons i is =>
      simp only [List.length_cons, Nat.add_right_cancel_iff] at h
      have := ih is h
      simp only [pick] at this
      simp only [pick, List.cons_append, List.zipWith_cons_cons, List.length_cons, List.take_succ_cons]
      rw [this]

theorem pick_reverse (axes : List (List Rat)) (ix : List Nat) (h : ix.length = axes.length) :
    (pick axes.reverse ix).reverse = pick axes ix.reverse := by
  simp only [pick]
  rw [List.reverse_zipWith (by simp [h])]
  simp

theorem cellAxis_length (ax : List Rat) (h : ax ≠ []) : (cellAxis ax).length = max (ax.length - 1) 1 := by
  unfold cellAxis
  have hpos : 0 < ax.length := List.length_pos_iff.mpr h
  split
  · rename_i hl
    simp only [List.length_zipWith, List.length_tail]
    omega
  · omega

theorem cellAxes_map_length (g : SGrid) (h : ∀ ax ∈ g.axes, ax ≠ []) :
    g.cellAxes.map List.length = g.dims.map fun n => max (n - 1) 1 := by
  simp only [cellAxes, dims, List.map_map]
  apply List.map_congr_left
  intro ax hax
  simp [cellAxis_length ax (h ax hax)]

/-! ### gen_points -/

theorem genPoints_length (axes : List (List Rat)) (o : Order) (inc : List Bool) :
    (genPoints axes o inc).length = prod (axes.map List.length) := by
  simp only [genPoints, List.length_map, List.length_range, List.map_append, List.map_replicate,
    List.length_cons, List.length_nil, Nat.zero_add]
  rw [prod_pad, dirAxes_map_length]

/-- the point stored at the flat position of multi-index `i` (xyz order, flattened in `o`) has the
    coordinates picked from the direction-adjusted axes at `i` -/
theorem genPoints_at (axes : List (List Rat)) (o : Order) (inc : List Bool) (i : List Nat)
    (hi : InB (axes.map List.length) i) :
    (genPoints axes o inc)[ravel o (axes.map List.length) i]? = some (pick (dirAxes axes inc) i) := by
  have hlen : i.length = (dirAxes axes inc).length := by
    rw [hi.length_eq, dirAxes_length]; simp
  have hi' : InB ((dirAxes axes inc).map List.length) i := by rw [dirAxes_map_length]; exact hi
  simp only [genPoints, List.map_append, List.map_replicate, List.length_cons, List.length_nil, Nat.zero_add]
  generalize hn : 3 - (dirAxes axes inc).length = n
  have hk : ravel o (axes.map List.length) i <
      prod ((dirAxes axes inc).map List.length ++ List.replicate n 1) := by
    rw [prod_pad, dirAxes_map_length]; exact ravel_lt o _ _ hi
  rw [List.getElem?_map, List.getElem?_range hk]
  simp only [Option.map_some]
  congr 1
  have hr : ravel o (axes.map List.length) i =
      ravel o ((dirAxes axes inc).map List.length ++ List.replicate n 1) (i ++ List.replicate n 0) := by
    rw [ravel_pad o _ _ (by simp [hlen]), dirAxes_map_length]
  rw [hr, unravel_ravel o _ _ (InB_pad hi' n)]
  exact pick_append_take _ _ _ _ hlen

/-- the increasing axes the data live on: cell-centre axes or point axes -/
def locAxes (g : SGrid) : List (List Rat) := if g.loc = .cells then g.cellAxes else g.axes

theorem dataPoints_eq (g : SGrid) :
    g.dataPoints = genPoints (g.locAxes) (pointOrder g.order g.rev) g.inc := by
  unfold dataPoints locAxes points cellCenters
  cases g.loc <;> simp

theorem dataAxes_eq (g : SGrid) :
    g.dataAxes = if g.rev then (dirAxes (g.locAxes) g.inc).reverse else dirAxes (g.locAxes) g.inc := rfl

theorem locAxes_lengths (g : SGrid) (hne : ∀ ax ∈ g.axes, ax ≠ []) :
    (g.locAxes).map List.length = if g.loc = .cells then g.dims.map (fun n => max (n - 1) 1) else g.dims := by
  unfold locAxes
  split
  · exact cellAxes_map_length g hne
  · rfl

theorem dataShape_eq (g : SGrid) (hne : ∀ ax ∈ g.axes, ax ≠ []) :
    g.dataShape = if g.rev then ((g.locAxes).map List.length).reverse else (g.locAxes).map List.length := by
  rw [locAxes_lengths g hne]
  unfold dataShape shapeFor
  cases g.rev <;> cases g.loc <;> simp


end SGrid
end Finam
