import FinamModel.IndexLemmas
import FinamModel.Grid
/-! Lemmas about the structured-grid model of `Grid.lean`. -/
namespace Finam

end Finam
