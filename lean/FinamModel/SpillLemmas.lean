import FinamModel.Spill
/-! Helper lemmas for the spill model (C10). -/
namespace Finam.SP
open Finam Finam.TA

/-- the buffer as the all-in-RAM reference sees it -/
def mapE (e : Entry Stored) : Entry Rat := ⟨e.t, val e.v⟩

/-- every buffered entry can be unpacked and yields the magnitude it stands for -/
def HAll (u : Stored → Except Err Rat) (d : List (Entry Stored)) : Prop :=
  ∀ e ∈ d, u e.v = .ok (val e.v)

theorem HAll.tail {u e d} (h : HAll u (e :: d)) : HAll u d := fun x hx => h x (List.mem_cons_of_mem _ hx)
theorem HAll.head {u e d} (h : HAll u (e :: d)) : u e.v = .ok (val e.v) := h e (by simp)

/-! ### Range checks and selections commute with resolving the entries -/

theorem lastT_map (e0 : Entry Stored) (es : List (Entry Stored)) :
    lastT (mapE e0) (es.map mapE) = lastT e0 es := by
  induction es generalizing e0 with
  | nil => rfl
  | cons e es ih => simp only [List.map, lastT]; exact ih e

theorem lastE_map (e0 : Entry Stored) (es : List (Entry Stored)) :
    lastE (mapE e0) (es.map mapE) = mapE (lastE e0 es) := by
  induction es generalizing e0 with
  | nil => rfl
  | cons e es ih => simp only [List.map, lastE]; exact ih e

theorem lastE_mem {α} (e0 : Entry α) (es : List (Entry α)) : lastE e0 es ∈ e0 :: es := by
  induction es generalizing e0 with
  | nil => simp [lastE]
  | cons e es ih => simp only [lastE]; exact List.mem_cons_of_mem _ (ih e)

theorem checkRange_map (d : List (Entry Stored)) (t : Int) : checkRange (d.map mapE) t = checkRange d t := by
  cases d with
  | nil => rfl
  | cons e0 es =>
    simp only [List.map, checkRange, lastE_map]
    rfl

theorem lookupAux_S (u) (p : Entry Stored) (l : List (Entry Stored)) (t : Int)
    (hp : u p.v = .ok (val p.v)) (h : HAll u l) :
    thenUnpack u (lookupAux p l t) = single (lookupAux (mapE p) (l.map mapE) t) := by
  induction l generalizing p with
  | nil => rfl
  | cons e es ih =>
    simp only [List.map, lookupAux]
    have he := h.head
    by_cases h1 : t > e.t
    · have : t > (mapE e).t := h1
      simp only [h1, this, if_true]; exact ih e he h.tail
    · have h1' : ¬ t > (mapE e).t := h1
      simp only [h1, h1', if_false]
      by_cases h2 : t = e.t
      · have : t = (mapE e).t := h2
        simp only [h2, if_true]
        simp [thenUnpack, single, he, mapE]
      · have h2' : ¬ t = (mapE e).t := h2
        simp only [h2, h2', if_false]
        have e1 : (mapE p).t = p.t := rfl
        have e2 : (mapE e).t = e.t := rfl
        rw [e1, e2]
        split <;> simp [thenUnpack, single, he, hp, mapE]

theorem lookup_S (u) (d : List (Entry Stored)) (t : Int) (h : HAll u d) :
    thenUnpack u (lookup d t) = single (lookup (d.map mapE) t) := by
  cases d with
  | nil => rfl
  | cons e0 es =>
    simp only [List.map, lookup, lastT_map]
    have e1 : (mapE e0).t = e0.t := rfl
    rw [e1]
    by_cases h1 : t < e0.t ∨ t > lastT e0 es
    · simp [h1, thenUnpack, single]
    · simp only [h1, if_false]
      by_cases h2 : t = e0.t
      · simp [h2, thenUnpack, single, h.head, mapE]
      · simp only [h2, if_false]
        exact lookupAux_S u e0 es t h.head h.tail

theorem nextLoop_S (u) (l : List (Entry Stored)) (t : Int) (h : HAll u l) :
    thenUnpack u (nextLoop l t) = single (nextLoop (l.map mapE) t) := by
  induction l with
  | nil => rfl
  | cons e es ih =>
    simp only [List.map, nextLoop]
    have e2 : (mapE e).t = e.t := rfl
    rw [e2]
    by_cases h1 : t > e.t
    · simp only [h1, if_true]; exact ih h.tail
    · simp [h1, thenUnpack, single, h.head, mapE]

theorem nextInterp_S (u) (d : List (Entry Stored)) (t : Int) (h : HAll u d) :
    thenUnpack u (nextInterp d t) = single (nextInterp (d.map mapE) t) := by
  cases d with
  | nil => rfl
  | cons e0 es =>
    cases es with
    | nil => simp [nextInterp, thenUnpack, single, h.head, mapE]
    | cons e1 es' =>
      have := nextLoop_S u (e0 :: e1 :: es') t h
      simpa [nextInterp] using this

theorem prevLoop_S (u) (p : Entry Stored) (l : List (Entry Stored)) (t : Int)
    (hp : u p.v = .ok (val p.v)) (h : HAll u l) :
    thenUnpack u (prevLoop p l t) = single (prevLoop (mapE p) (l.map mapE) t) := by
  induction l generalizing p with
  | nil => rfl
  | cons e es ih =>
    simp only [List.map, prevLoop]
    have e2 : (mapE e).t = e.t := rfl
    rw [e2]
    by_cases h1 : t > e.t
    · simp only [h1, if_true]; exact ih e h.head h.tail
    · simp only [h1, if_false]
      by_cases h2 : t = e.t
      · simp [h2, thenUnpack, single, h.head, mapE]
      · simp [h2, thenUnpack, single, hp, mapE]

theorem prevInterp_S (u) (d : List (Entry Stored)) (t : Int) (h : HAll u d) :
    thenUnpack u (prevInterp d t) = single (prevInterp (d.map mapE) t) := by
  cases d with
  | nil => rfl
  | cons e0 es =>
    cases es with
    | nil => simp [prevInterp, thenUnpack, single, h.head, mapE]
    | cons e1 es' =>
      have hl : u (lastE e0 (e1 :: es')).v = .ok (val (lastE e0 (e1 :: es')).v) := h _ (lastE_mem e0 (e1 :: es'))
      have := prevLoop_S u (lastE e0 (e1 :: es')) (e0 :: e1 :: es') t hl h
      simp only [prevInterp, List.map]
      rw [this]
      have := lastE_map e0 (e1 :: es')
      simp only [List.map] at this
      rw [this]
      rfl

theorem stepLoop_S (u) (pos : Rat) (p : Entry Stored) (l : List (Entry Stored)) (t : Int)
    (hp : u p.v = .ok (val p.v)) (h : HAll u l) :
    thenUnpack u (stepLoop pos p l t) = single (stepLoop pos (mapE p) (l.map mapE) t) := by
  induction l generalizing p with
  | nil => rfl
  | cons e es ih =>
    simp only [List.map, stepLoop]
    have e1 : (mapE p).t = p.t := rfl
    have e2 : (mapE e).t = e.t := rfl
    rw [e1, e2]
    by_cases h1 : t > e.t
    · simp only [h1, if_true]; exact ih e h.head h.tail
    · simp only [h1, if_false]
      by_cases h2 : t = e.t
      · simp [h2, thenUnpack, single, h.head, mapE]
      · simp only [h2, if_false, stepSel]
        split <;> simp [thenUnpack, single, hp, h.head, mapE]

theorem stepInterp_S (u) (pos : Rat) (d : List (Entry Stored)) (t : Int) (h : HAll u d) :
    thenUnpack u (stepInterp pos d t) = single (stepInterp pos (d.map mapE) t) := by
  cases d with
  | nil => rfl
  | cons e0 es =>
    cases es with
    | nil => simp [stepInterp, thenUnpack, single, h.head, mapE]
    | cons e1 es' =>
      have hl : u (lastE e0 (e1 :: es')).v = .ok (val (lastE e0 (e1 :: es')).v) := h _ (lastE_mem e0 (e1 :: es'))
      have := stepLoop_S u pos (lastE e0 (e1 :: es')) (e0 :: e1 :: es') t hl h
      simp only [stepInterp, List.map]
      rw [this]
      have := lastE_map e0 (e1 :: es')
      simp only [List.map] at this
      rw [this]
      rfl

theorem linLoop_S (u) (p : Entry Stored) (l : List (Entry Stored)) (t : Int)
    (hp : u p.v = .ok (val p.v)) (h : HAll u l) :
    linLoopS u p l t = linLoop (mapE p) (l.map mapE) t := by
  induction l generalizing p with
  | nil => rfl
  | cons e es ih =>
    simp only [List.map, linLoopS, linLoop]
    have e1 : (mapE p).t = p.t := rfl
    have e2 : (mapE e).t = e.t := rfl
    rw [e1, e2]
    by_cases h1 : t > e.t
    · simp only [h1, if_true]; exact ih e h.head h.tail
    · simp only [h1, if_false]
      by_cases h2 : t = e.t
      · simp [h2, h.head, mapE]
      · simp [h2, hp, h.head, mapE]

theorem linInterp_S (u) (d : List (Entry Stored)) (t : Int) (h : HAll u d) :
    linInterpS u d t = linInterp (d.map mapE) t := by
  cases d with
  | nil => rfl
  | cons e0 es =>
    cases es with
    | nil => simp [linInterpS, linInterp, h.head, mapE]
    | cons e1 es' =>
      have hl : u (lastE e0 (e1 :: es')).v = .ok (val (lastE e0 (e1 :: es')).v) := h _ (lastE_mem e0 (e1 :: es'))
      have := linLoop_S u (lastE e0 (e1 :: es')) (e0 :: e1 :: es') t hl h
      simp only [linInterpS, linInterp, List.map]
      rw [this]
      have := lastE_map e0 (e1 :: es')
      simp only [List.map] at this
      rw [this]
      rfl

theorem stack_S (u) (d : List (Entry Stored)) (t : Int) (h : HAll u d) :
    unpackAll u (stackInterp d t) = .ok ((stackInterp (d.map mapE) t).map (·.v)) := by
  induction d with
  | nil => rfl
  | cons e es ih =>
    simp only [List.map, stackInterp]
    have e2 : (mapE e).t = e.t := rfl
    rw [e2]
    by_cases h1 : t > e.t
    · simp only [h1, if_true, unpackAll, h.head, ih h.tail, List.map]
      rfl
    · simp only [h1, if_false, unpackAll, h.head, List.map]
      rfl

theorem loop_S (u) (step : Option Rat) (scaled : Bool) (prev t : Int) (old : Entry Rat)
    (l : List (Entry Stored)) (acc : Option Rat) (h : HAll u l) :
    loopS u step scaled prev t old l acc = .ok (TI.loop step scaled prev t old (l.map mapE) acc) := by
  induction l generalizing old acc with
  | nil => rfl
  | cons e es ih =>
    simp only [List.map, loopS, TI.loop, h.head]
    have e2 : (mapE e).t = e.t := rfl
    have e3 : (⟨e.t, val e.v⟩ : Entry Rat) = mapE e := rfl
    rw [e2, e3]
    by_cases h1 : prev ≥ e.t
    · simp only [h1, if_true]; exact ih (mapE e) acc h.tail
    · simp only [h1, if_false]
      by_cases h2 : t ≤ old.t
      · simp [h2]
      · simp only [h2, if_false]; exact ih (mapE e) _ h.tail

theorem avgInterp_S (u) (step : Option Rat) (d : List (Entry Stored)) (p t : Int) (h : HAll u d) :
    avgInterpS u step d p t = TI.avgInterp step (d.map mapE) p t := by
  cases d with
  | nil => rfl
  | cons e0 es =>
    cases es with
    | nil => simp [avgInterpS, TI.avgInterp, h.head, mapE]
    | cons e1 es' =>
      have e1' : (mapE e0).t = e0.t := rfl
      have e3 : (⟨e0.t, val e0.v⟩ : Entry Rat) = mapE e0 := rfl
      simp only [avgInterpS, TI.avgInterp, List.map, e1', h.head, e3]
      by_cases h1 : t ≤ e0.t
      · simp [h1, mapE]
      · simp only [h1, if_false]
        have := loop_S u step true p t (mapE e0) (e1 :: es') none h.tail
        simp only [List.map] at this
        rw [this]
        by_cases h2 : t - p > 0
        · simp only [h2, if_true]; rfl
        · simp only [h2, if_false]

theorem sumInterp_S (u) (step : Option Rat) (perTime : Bool) (initUs : Int) (d : List (Entry Stored))
    (p t : Int) (h : HAll u d) :
    sumInterpS u step perTime initUs d p t = TI.sumInterp step perTime initUs (d.map mapE) p t := by
  cases d with
  | nil => rfl
  | cons e0 es =>
    cases es with
    | nil => simp [sumInterpS, TI.sumInterp, h.head, mapE]
    | cons e1 es' =>
      have e1' : (mapE e0).t = e0.t := rfl
      have e3 : (⟨e0.t, val e0.v⟩ : Entry Rat) = mapE e0 := rfl
      simp only [sumInterpS, TI.sumInterp, List.map, e1', h.head, e3]
      by_cases h1 : t ≤ e0.t
      · simp [h1]
      · simp only [h1, if_false]
        have := loop_S u step perTime p t (mapE e0) (e1 :: es') none h.tail
        simp only [List.map] at this
        rw [this]
        cases TI.loop step perTime p t (mapE e0) (mapE e1 :: es'.map mapE) none <;> rfl

/-- **the read path of every slot kind sees through the spill** -/
theorem read_transparent (k : SlotKind) (u) (d : List (Entry Stored)) (prev : Option Int) (t : Int)
    (h : HAll u d) : readS k u d prev t = readR k (d.map mapE) prev t := by
  cases k with
  | output => exact lookup_S u d t h
  | next =>
    simp only [readS, readR, TA.getData, checkRange_map, TA.interp]
    cases checkRange d t with
    | error x => rfl
    | ok _ => exact nextInterp_S u d t h
  | prev =>
    simp only [readS, readR, TA.getData, checkRange_map, TA.interp]
    cases checkRange d t with
    | error x => rfl
    | ok _ => exact prevInterp_S u d t h
  | step pos =>
    simp only [readS, readR, TA.getData, checkRange_map, TA.interp]
    cases checkRange d t with
    | error x => rfl
    | ok _ => exact stepInterp_S u pos d t h
  | linear =>
    simp only [readS, readR, TA.getData, checkRange_map, TA.interp]
    cases checkRange d t with
    | error x => rfl
    | ok _ => simp only [linInterp_S u d t h]
  | stack =>
    simp only [readS, readR, checkRange_map]
    cases checkRange d t with
    | error x => rfl
    | ok _ => exact stack_S u d t h
  | avg step =>
    simp only [readS, readR, checkRange_map]
    cases checkRange d t with
    | error x => rfl
    | ok _ =>
      cases prev with
      | none => rfl
      | some p => simp only [avgInterp_S u step d p t h]
  | sum step perTime initUs =>
    simp only [readS, readR, checkRange_map]
    cases checkRange d t with
    | error x => rfl
    | ok _ =>
      cases prev with
      | none => rfl
      | some p => simp only [sumInterp_S u step perTime initUs d p t h]

/-! ### The file system -/

theorem lookupF_append_of_some (l l' : List (File × Rat)) (k : File) (g : Rat)
    (h : lookupF l k = some g) : lookupF (l ++ l') k = some g := by
  induction l with
  | nil => simp [lookupF] at h
  | cons a l ih =>
    obtain ⟨a1, a2⟩ := a
    simp only [List.cons_append, lookupF] at *
    by_cases hk : a1 = k
    · simp only [hk, if_true] at *; exact h
    · simp only [hk, if_false] at *; exact ih h

theorem lookupF_append_fresh (l : List (File × Rat)) (k : File) (v : Rat)
    (h : ∀ p ∈ l, p.1 ≠ k) : lookupF (l ++ [(k, v)]) k = some v := by
  induction l with
  | nil => simp [lookupF]
  | cons a l ih =>
    obtain ⟨a1, a2⟩ := a
    have hne : ¬ a1 = k := h (a1, a2) (by simp)
    simp only [List.cons_append, lookupF, hne, if_false]
    exact ih (fun p hp => h p (List.mem_cons_of_mem _ hp))

theorem lookupF_remove_ne (l : List (File × Rat)) (k f : File) (h : k ≠ f) :
    lookupF (removeF l f) k = lookupF l k := by
  induction l with
  | nil => rfl
  | cons a l ih =>
    obtain ⟨a1, a2⟩ := a
    simp only [removeF]
    by_cases ha : a1 = f
    · subst ha
      have hne : ¬ a1 = k := fun hh => h hh.symm
      simp only [if_true, lookupF, hne, if_false]
      exact ih
    · simp only [ha, if_false, lookupF]
      by_cases hk : a1 = k
      · simp [hk]
      · simp only [hk, if_false]; exact ih

theorem keys_remove (l : List (File × Rat)) (f : File) :
    (removeF l f).map (·.1) = (l.map (·.1)).filter (fun k => decide (k ≠ f)) := by
  induction l with
  | nil => rfl
  | cons a l ih =>
    obtain ⟨a1, a2⟩ := a
    simp only [removeF, List.map]
    by_cases ha : a1 = f
    · simp [ha, List.filter_cons, ih]
    · simp [ha, List.filter_cons, ih]

theorem diskFiles_append (d : List (Entry Stored)) (e : Entry Stored) :
    diskFiles (d ++ [e]) = diskFiles d ++ (match e.v with | .inRam _ _ => [] | .onDisk f _ => [f]) := by
  induction d with
  | nil => simp only [List.nil_append, diskFiles]; cases e.v <;> rfl
  | cons a d ih =>
    simp only [List.cons_append, diskFiles]
    cases a.v <;> simp [ih]

theorem mem_diskFiles (d : List (Entry Stored)) (e : Entry Stored) (f : File) (g : Rat)
    (he : e ∈ d) (hv : e.v = .onDisk f g) : f ∈ diskFiles d := by
  induction d with
  | nil => cases he
  | cons a d ih =>
    simp only [diskFiles]
    cases he with
    | head => simp [hv]
    | tail _ h => cases a.v <;> simp [ih h]

theorem ramBytes_append (d : List (Entry Stored)) (e : Entry Stored) :
    ramBytes (d ++ [e]) = ramBytes d + ramBytes [e] := by
  induction d with
  | nil => simp [ramBytes]
  | cons a d ih => simp only [List.cons_append, ramBytes, ih]; omega

/-- consistency of a buffer with the disk -/
structure FInv (c : Cfg) (d : List (Entry Stored)) (fs : List (File × Rat)) (counter : Nat) : Prop where
  content : ∀ e ∈ d, ∀ f g, e.v = .onDisk f g → lookupF fs f = some g
  keys : fs.map (·.1) = diskFiles d
  nodup : (diskFiles d).Nodup
  fresh : ∀ f ∈ diskFiles d, f.n < counter ∧ f.slot = c.slotId ∧ f.dir = c.loc.getD ""

theorem hall_of_finv (c : Cfg) (hu : c.unpackUnits = c.inUnits) {d fs n} (h : FInv c d fs n) :
    HAll (unpack c fs) d := by
  intro e he
  cases hv : e.v with
  | inRam v size => rfl
  | onDisk f g =>
    have := h.content e he f g hv
    simp [unpack, this, hu, val]

theorem finv_nil (c : Cfg) (n : Nat) : FInv c [] [] n where
  content := by intro e he; cases he
  keys := rfl
  nodup := List.nodup_nil
  fresh := by intro f hf; cases hf

theorem finv_push (c : Cfg) (s : SState) (t : Int) (v : Rat) (size : Nat)
    (h : FInv c s.data s.fs s.counter) :
    FInv c (s.data ++ [⟨t, (pack c s v size).2⟩]) (pack c s v size).1.fs (pack c s v size).1.counter := by
  simp only [pack]
  by_cases hsp : spills c s.total size = true
  · simp only [hsp, if_true]
    have hfresh : ∀ p ∈ s.fs, p.1 ≠ ⟨c.loc.getD "", c.slotId, s.counter⟩ := by
      intro p hp hpe
      have hm : p.1 ∈ s.fs.map (·.1) := List.mem_map_of_mem hp
      rw [h.keys] at hm
      have := (h.fresh _ hm).1
      rw [hpe] at this
      simp at this
    refine ⟨?_, ?_, ?_, ?_⟩
    · intro e he f g hv
      rcases List.mem_append.mp he with h1 | h1
      · exact lookupF_append_of_some _ _ _ _ (h.content e h1 f g hv)
      · simp only [List.mem_singleton] at h1
        subst h1
        simp only [Stored.onDisk.injEq] at hv
        obtain ⟨hf, hg⟩ := hv
        subst hf; subst hg
        exact lookupF_append_fresh _ _ _ hfresh
    · simp [diskFiles_append, h.keys]
    · rw [diskFiles_append]
      simp only []
      rw [List.nodup_append]
      refine ⟨h.nodup, by simp, ?_⟩
      intro a ha b hb
      simp only [List.mem_singleton] at hb
      subst hb
      intro hab
      have := (h.fresh a ha).1
      rw [hab] at this
      simp at this
    · intro f hf
      rw [diskFiles_append] at hf
      rcases List.mem_append.mp hf with h1 | h1
      · obtain ⟨a, b, c'⟩ := h.fresh f h1
        exact ⟨by omega, b, c'⟩
      · simp only [List.mem_singleton] at h1
        subst h1
        exact ⟨by simp, rfl, rfl⟩
  · have hsp' : spills c s.total size = false := by simpa using hsp
    simp only [hsp', Bool.false_eq_true, if_false]
    refine ⟨?_, ?_, ?_, ?_⟩
    · intro e he f g hv
      rcases List.mem_append.mp he with h1 | h1
      · exact h.content e h1 f g hv
      · simp only [List.mem_singleton] at h1
        subst h1
        cases hv
    · simp [diskFiles_append, h.keys]
    · simp [diskFiles_append, h.nodup]
    · intro f hf
      simp only [diskFiles_append, List.append_nil] at hf
      exact h.fresh f hf

theorem finv_tail (c : Cfg) (e0 : Entry Stored) (d : List (Entry Stored)) (total : Int)
    (fs : List (File × Rat)) (n : Nat) (h : FInv c (e0 :: d) fs n) :
    ∃ total' fs', dropEntry total fs e0.v = .ok (total', fs') ∧ FInv c d fs' n ∧
      total' - ramBytes d = total - ramBytes (e0 :: d) := by
  cases hv : e0.v with
  | inRam v size =>
    refine ⟨total - size, fs, rfl, ⟨?_, ?_, ?_, ?_⟩, ?_⟩
    · intro e he f g hve; exact h.content e (List.mem_cons_of_mem _ he) f g hve
    · have := h.keys; simpa [diskFiles, hv] using this
    · have := h.nodup; simpa [diskFiles, hv] using this
    · intro f hf; exact h.fresh f (by simpa [diskFiles, hv] using hf)
    · simp only [ramBytes, hv]; omega
  | onDisk f g =>
    have hl := h.content e0 (by simp) f g hv
    have hkeys : fs.map (·.1) = f :: diskFiles d := by have := h.keys; simpa [diskFiles, hv] using this
    have hnd : (f :: diskFiles d).Nodup := by have := h.nodup; simpa [diskFiles, hv] using this
    have hnotin : f ∉ diskFiles d := (List.nodup_cons.mp hnd).1
    refine ⟨total, removeF fs f, by simp [dropEntry, hl], ⟨?_, ?_, ?_, ?_⟩, ?_⟩
    · intro e he f' g' hve
      have hm := mem_diskFiles d e f' g' he hve
      have hne : f' ≠ f := fun hh => hnotin (hh ▸ hm)
      rw [lookupF_remove_ne _ _ _ hne]
      exact h.content e (List.mem_cons_of_mem _ he) f' g' hve
    · rw [keys_remove, hkeys]
      simp only [List.filter_cons, ne_eq, not_true_eq_false, decide_false]
      apply List.filter_eq_self.mpr
      intro a ha
      have : a ≠ f := fun hh => hnotin (hh ▸ ha)
      simpa using this
    · exact (List.nodup_cons.mp hnd).2
    · intro f' hf'; exact h.fresh f' (by simp [diskFiles, hv, hf'])
    · simp only [ramBytes, hv]; omega

/-- the eviction loop never fails, removes exactly the files of the discarded entries, keeps the
    accounting, and discards what the plain `clear` discards -/
theorem evictS_spec (c : Cfg) (n : Nat) : ∀ (d : List (Entry Stored)) (total : Int) (fs : List (File × Rat)) (m : Int),
    FInv c d fs n →
    ∃ total' fs', evictS d total fs m = .ok (clear d m, total', fs') ∧ FInv c (clear d m) fs' n ∧
      total' - ramBytes (clear d m) = total - ramBytes d := by
  intro d
  induction d with
  | nil => intro total fs m h; exact ⟨total, fs, rfl, h, rfl⟩
  | cons e0 d ih =>
    intro total fs m h
    cases d with
    | nil => exact ⟨total, fs, rfl, h, rfl⟩
    | cons e1 es =>
      simp only [evictS, clear]
      by_cases hle : e1.t ≤ m
      · simp only [hle, if_true]
        obtain ⟨total1, fs1, hd, hinv1, hacc1⟩ := finv_tail c e0 (e1 :: es) total fs n h
        obtain ⟨total2, fs2, he, hinv2, hacc2⟩ := ih total1 fs1 m hinv1
        refine ⟨total2, fs2, ?_, hinv2, by omega⟩
        rw [hd]; exact he
      · simp only [hle, if_false]
        exact ⟨total, fs, rfl, h, rfl⟩

theorem clear_map (d : List (Entry Stored)) (m : Int) : (clear d m).map mapE = clear (d.map mapE) m := by
  induction d with
  | nil => rfl
  | cons e0 d ih =>
    cases d with
    | nil => rfl
    | cons e1 es =>
      simp only [List.map, clear]
      have : (mapE e1).t = e1.t := rfl
      rw [this]
      by_cases hle : e1.t ≤ m
      · simp only [hle, if_true]; exact ih
      · simp only [hle, if_false, List.map]

/-- finalisation never fails and removes every remaining file -/
theorem finalizeFs_spec (c : Cfg) (n : Nat) : ∀ (d : List (Entry Stored)) (fs : List (File × Rat)),
    FInv c d fs n → finalizeFs d fs = .ok [] := by
  intro d
  induction d with
  | nil =>
    intro fs h
    have := h.keys
    simp only [diskFiles, List.map_eq_nil_iff] at this
    simp [finalizeFs, this]
  | cons e0 d ih =>
    intro fs h
    obtain ⟨total', fs', hd, hinv, _⟩ := finv_tail c e0 d 0 fs n h
    simp only [finalizeFs]
    cases hv : e0.v with
    | inRam v size =>
      simp only [hv, dropEntry, Except.ok.injEq, Prod.mk.injEq] at hd
      simp only
      rw [hd.2]; exact ih fs' hinv
    | onDisk f g =>
      simp only [hv, dropEntry] at hd
      have hl := h.content e0 (by simp) f g hv
      simp only [hl, Option.isSome_some, if_true, Except.ok.injEq, Prod.mk.injEq] at hd
      simp only [hl, Option.isSome_some, if_true]
      rw [hd.2]; exact ih fs' hinv

/-! ### Simulation: the spilling slot against the all-in-RAM slot -/

structure Sim (c : Cfg) (s : SState) (r : RState) : Prop where
  data : r.data = s.data.map mapE
  prev : r.prev = s.prev
  last : r.last = s.last
  finv : FInv c s.data s.fs s.counter

theorem sim_init (c : Cfg) (n : Nat) : Sim c (initS n) (initR n) :=
  ⟨rfl, rfl, rfl, finv_nil c 0⟩

theorem sim_step (c : Cfg) (hu : c.unpackUnits = c.inUnits) (s : SState) (r : RState) (h : Sim c s r)
    (ev : Ev) : (stepS c s ev).2 = (stepR c.kind r ev).2 ∧ Sim c (stepS c s ev).1 (stepR c.kind r ev).1 := by
  cases ev with
  | push t v size =>
    refine ⟨rfl, ?_⟩
    have hp := finv_push c s t v size h.finv
    simp only [stepS, stepR]
    refine ⟨?_, ?_, ?_, ?_⟩
    · simp only [pack]
      split <;> simp [h.data, mapE, val]
    · simp only [h.prev]
    · simp only [pack]; split <;> exact h.last
    · have hd : (pack c s v size).1.data = s.data := by simp only [pack]; split <;> rfl
      simp only [hd]; exact hp
  | pull k t =>
    have hall := hall_of_finv c hu h.finv
    have hread := read_transparent c.kind (unpack c s.fs) s.data s.prev t hall
    simp only [stepS, stepR]
    rw [hread, h.data, h.prev, h.last]
    cases hr : readR c.kind (s.data.map mapE) s.prev t with
    | error x => exact ⟨rfl, ⟨h.data, h.prev, h.last, h.finv⟩⟩
    | ok vs =>
      simp only
      cases hm : evictTime c.kind s.prev (if c.kind = SlotKind.output then s.last.set k (some t) else s.last) t with
      | none => exact ⟨rfl, ⟨rfl, rfl, rfl, h.finv⟩⟩
      | some m =>
        simp only []
        obtain ⟨total', fs', he, hinv, _⟩ := evictS_spec c s.counter s.data s.total s.fs m h.finv
        rw [he]
        exact ⟨rfl, ⟨by simp only [clear_map], rfl, rfl, hinv⟩⟩
  | finalize =>
    simp only [stepS, stepR]
    rw [finalizeFs_spec c s.counter s.data s.fs h.finv]
    exact ⟨rfl, ⟨rfl, h.prev, h.last, finv_nil c s.counter⟩⟩

end Finam.SP
