import FinamModel.Spill
/-! Helper lemmas for the spill model (C10). -/
namespace Finam.SP
open Finam Finam.TA

theorem val_inRam (v : Rat) (n : Nat) : val (.inRam v n) = v := rfl

end Finam.SP
