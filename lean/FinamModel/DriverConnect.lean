import FinamModel.DriverUtil
import FinamModel.Connect
/-! Line-protocol handler for the connect model (C06, reused by C05). -/
namespace Finam.Driver.C06
open Lean Finam.Connect Finam.Driver

def parseLRef (j : Json) : Option LRef :=
  match arr j with
  | [k, n] =>
    match asStr k with
    | "in" => some (.inInfo (asNat n))
    | "out" => some (.outInfo (asNat n))
    | "data" => some (.inData (asNat n))
    | _ => none
  | _ => none

def parseInfoSrc (j : Json) : InfoSrc :=
  match getStr j "k" with
  | "rule" => .rule ((getArr j "refs").filterMap parseLRef)
  | "provided" => .provided ((getArr j "when").filterMap parseLRef)
  | _ => .declared

def parseAd (j : Json) : Option Ad :=
  match arr j with
  | k :: args =>
    match asStr k, args with
    | "pass", _ => some .pass
    | "cache", _ => some .cache
    | "dfix", [d] => some (.dfix (asInt d))
    | "dpull", [s, a] => some (.dpull (asNat s) (asInt a))
    | "dpush", _ => some .dpush
    | _, _ => none
  | _ => none

def parseIn (j : Json) : InSpec :=
  let s := getArr j "src"
  { src := (match s with | [a, b] => (asNat a, asNat b) | _ => (0, 0)),
    info := parseInfoSrc (getObj j "info"),
    pull := getBool j "pull",
    chain := (getArr j "chain").filterMap parseAd }

def parseOut (j : Json) : OutSpec :=
  { info := parseInfoSrc (getObj j "info"),
    dataWhen := (getArr j "dataWhen").filterMap parseLRef,
    val := getInt j "val" }

def parseComp (j : Json) : CompSpec :=
  { ins := (getArr j "ins").map parseIn,
    outs := (getArr j "outs").map parseOut,
    cache := getBool j "cache",
    start := getInt j "start" }

def parseSpec (j : Json) : Spec :=
  { comps := (getArr j "comps").map parseComp, start := getInt j "start" }

def jStatus : Status → Json
  | .initialized => Json.str "INITIALIZED"
  | .connecting => Json.str "CONNECTING"
  | .idle => Json.str "CONNECTING_IDLE"
  | .connected => Json.str "CONNECTED"

def jLog (l : List LogEntry) : Json :=
  jList (fun e => Json.arr #[jNat e.comp, jStatus e.status, jNat e.fired.length]) l

/-- per component: the None-patterns of `in_infos`, `out_infos`, `in_data` (pull inputs only),
    `infos_pushed`, `data_pushed`; publication times per output; initial pull values -/
def jComp (S : Spec) (d : List Item) (c : Nat) (cs : CompSpec) : Json :=
  Json.mkObj [
    ("in_infos", jList (fun i => Json.bool (d.contains (.inInfo c i))) (List.range cs.ins.length)),
    ("out_infos", jList (fun o => Json.bool (d.contains (.outInfoRead c o))) (List.range cs.outs.length)),
    ("in_data", jList (fun i =>
        match cs.ins[i]? with
        | some x => if x.pull then Json.bool (d.contains (.inData c i)) else Json.null
        | none => Json.null) (List.range cs.ins.length)),
    ("infos_pushed", jList (fun o => Json.bool (d.contains (.outInfoPushed c o))) (List.range cs.outs.length)),
    ("data_pushed", jList (fun o => Json.bool (d.contains (.dataPushed c o))) (List.range cs.outs.length)),
    ("published", jList (fun o => jList jInt (published S d c o)) (List.range cs.outs.length)),
    ("values", jList (fun i =>
        if d.contains (.inData c i) then (match pulledValue S c i with | some v => jInt v | none => Json.null)
        else Json.null) (List.range cs.ins.length))]

def jState (S : Spec) (st : LState) : List (String × Json) := [
  ("log", jLog st.log),
  ("status", jList jStatus st.status),
  ("comps", Json.arr ((List.range S.comps.length).filterMap fun c =>
      (S.comps[c]?).map (jComp S st.done c)).toArray)]

/-- C06/C05: run the connect loop of the model on a composition spec under a component order -/
def handle (j : Json) : Json :=
  let S := parseSpec j
  let order := (getArr j "order").map asNat
  match connectE S order with
  | .ok st => Json.mkObj ([("outcome", Json.str "ok")] ++ jState S st)
  | .circular st names =>
    Json.mkObj ([("outcome", Json.str "circular"), ("names", jList jNat names)] ++ jState S st)
  | .outOfFuel st => Json.mkObj ([("outcome", Json.str "outOfFuel")] ++ jState S st)
  | .error e log => Json.mkObj [("outcome", Json.str "error"), ("err", Json.str e.toString), ("log", jLog log)]

end Finam.Driver.C06
