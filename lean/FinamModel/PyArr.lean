import FinamModel.PyPrelude
import FinamModel.Index
/-
  numpy calls on arrays as the translator reads them (`harness/trspecs.py`, group Canonical): arrays are `Arr α`
  (`FinamModel/Index.lean`: a shape and an element function).
-/
namespace Finam.Py

/-- `np.shape(a)` -/
def shapeI {α} (a : Arr α) : List Int := a.shape.map Int.ofNat

/-- `np.ndim(a)` -/
def ndimI {α} (a : Arr α) : Int := a.shape.length

/-- `x[::s]` for `s = 1` / `s = -1` (the only steps the translated code uses: `rev = -1 if … else 1`) -/
def stepSlice {β} (l : List β) (s : Int) : List β := if s < 0 then l.reverse else l

/-- `x[:n]` -/
def takeI {β} (l : List β) (n : Int) : List β := l.take n.toNat

end Finam.Py
