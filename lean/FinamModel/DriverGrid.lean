import FinamModel.DriverUtil
import FinamModel.Mask
/-! Line-protocol handlers for the grid / canonical / mask models (C14, C15, C18). -/
namespace Finam.Driver
open Lean

def parseOrder (s : String) : Order := if s == "C" then .C else .F
def parseLoc (s : String) : Loc := if s == "points" then .points else .cells
def jLoc : Loc → Json | .cells => Json.str "cells" | .points => Json.str "points"

def parseGrid (j : Json) : SGrid :=
  { axes := (getArr j "axes").map fun ax => (arr ax).map asRat,
    inc := (getArr j "inc").map asBool,
    rev := getBool j "rev",
    order := parseOrder (getStr j "order"),
    loc := parseLoc (getStr j "loc"),
    crs := (getOptInt j "crs").map Int.toNat }

def jPts (ps : List (List Rat)) : Json := jList (jList jRat) ps
def jNats (l : List Nat) : Json := jList jNat l

/-- C14: everything the model says about one grid configuration -/
def handleC14 (j : Json) : Json :=
  let g := parseGrid (getObj j "grid")
  let u := g.toUnstructured
  let idx := allIdx g.dataShape
  Json.mkObj [
    ("dims", jNats g.dims),
    ("points", jPts g.points),
    ("cells", jList jNats g.cells),
    ("centers", jPts g.cellCenters),
    ("data_axes", jPts g.dataAxes),
    ("data_shape", jNats g.dataShape),
    ("data_size", jNat g.dataSize),
    ("data_points", jPts g.dataPoints),
    ("point_count", jNat g.pointCount),
    ("cell_count", jNat g.cellCount),
    ("mesh_dim", jNat g.meshDim),
    ("coords", jPts (idx.map g.coordAt)),
    ("ravel", jNats (idx.map (ravel g.order g.dataShape))),
    ("u_points", jPts u.points),
    ("u_centers", jPts u.cellCenters),
    ("u_data_points", jPts u.dataPoints),
    ("u_data_shape", jNats u.dataShape),
    ("u_data_size", jNat u.dataSize)]

def parseGOp (j : Json) : Option GOp :=
  match arr j with
  | [k, a] =>
    match asStr k with
    | "shape" => some (.readShape (asNat a))
    | "size" => some (.readSize (asNat a))
    | "points" => some (.readPoints (asNat a))
    | "copy" => some (.copy (asNat a))
    | "cast" => some (.cast (asNat a))
    | _ => none
  | [k, a, l] => if asStr k == "set" then some (.setLoc (asNat a) (parseLoc (asStr l))) else none
  | _ => none

def jGObs : GObs → Json
  | .shape s => Json.mkObj [("shape", jNats s)]
  | .size n => Json.mkObj [("size", jNat n)]
  | .npoints n => Json.mkObj [("npoints", jNat n)]
  | .done => Json.str "done"
  | .rejected => Json.str "rejected"
  | .bad => Json.str "bad"

/-- C14: the memo state machine on an op sequence -/
def handleC14Memo (j : Json) : Json :=
  let g := parseGrid (getObj j "grid")
  let valid := (getArr j "valid").map fun v => parseLoc (asStr v)
  let ops := (getArr j "ops").filterMap parseGOp
  Json.mkObj [("obs", jList jGObs (grun g valid [GObj.fresh g.loc] ops))]

/-- index maps on their own (numpy is trusted; this checks it) -/
def handleIndex (j : Json) : Json :=
  let sh := (getArr j "shape").map asNat
  let idx := allIdx sh
  Json.mkObj [
    ("idx", jList jNats idx),
    ("ravelC", jNats (idx.map (ravel .C sh))),
    ("ravelF", jNats (idx.map (ravel .F sh))),
    ("unravelF", jList jNats ((List.range (prod sh)).map (unravel .F sh)))]

def parseIntArr (shape : List Nat) (flat : List Json) : Arr Int :=
  Arr.ofFlat .C shape (flat.map asInt) 0

def jArr (a : Arr Int) : Json :=
  Json.mkObj [("shape", jNats a.shape), ("data", jList jInt a.toList)]

def jArrRes : Except Err (Arr Int) → Json := jRes jArr

/-- C15: canonical form, compatibility and the transform on one array -/
def handleC15 (j : Json) : Json :=
  let g := parseGrid (getObj j "src")
  let h := parseGrid (getObj j "dst")
  let shape := (getArr j "shape").map asNat
  let a := parseIntArr shape (getArr j "data")
  let tr : Json := match g.getTransformTo h with
    | .error e => jErr e
    | .ok .passThrough => Json.str "pass"
    | .ok .convert => Json.str "convert"
  let canon := g.toCanonical a
  let back : Except Err (Arr Int) := match canon with | .ok c => g.fromCanonical c | .error e => .error e
  Json.mkObj [
    ("compatible", Json.bool (g.compatibleWith h)),
    ("eq", Json.bool (g.eqGrid h)),
    ("transform", tr),
    ("canon", jArrRes canon),
    ("back", jArrRes back),
    ("trans", jArrRes (SGrid.trans g h a)),
    ("deliver", jArrRes (SGrid.deliver g h a))]

def parseBoolArr (j : Json) : Arr Bool :=
  let shape := (getArr j "shape").map asNat
  Arr.ofFlat .C shape ((getArr j "flat").map asBool) false

def parseMask (j : Json) : MaskSpec :=
  match j.getStr? with
  | .ok "flex" => .flex
  | .ok "NONE" => .none_
  | .ok "nomask" => .nomask
  | .ok _ => .pyNone
  | .error _ => if j.isNull then .pyNone else .arr (parseBoolArr j)

def parseDMask (j : Json) : Option (Option (Arr Bool)) :=
  match j.getStr? with
  | .ok "nomask" => some none
  | .ok _ => none
  | .error _ => if j.isNull then none else some (some (parseBoolArr j))

def parsePayload (j : Json) : Payload :=
  { data := parseIntArr ((getArr j "shape").map asNat) (getArr j "data"),
    dmask := parseDMask (getObj j "dmask"),
    quantified := getBool j "quantified" }

def jBoolArr (a : Arr Bool) : Json :=
  Json.mkObj [("shape", jNats a.shape), ("flat", jList Json.bool a.toList)]

def jDMask : Option (Option (Arr Bool)) → Json
  | none => Json.null
  | some none => Json.str "nomask"
  | some (some m) => jBoolArr m

def jOptIntArr (a : Arr (Option Int)) : Json :=
  Json.mkObj [("shape", jNats a.shape), ("data", jList jOptInt a.toList)]

/-- C18: compress, then expand with the same mask and order -/
def handleC18Rt (j : Json) : Json :=
  let x := parsePayload (getObj j "payload")
  let o := parseOrder (getStr j "order")
  let mask := parseMask (getObj j "mask")
  let emask := parseMask (getObj j "emask")
  let shape := (getArr j "eshape").map asNat
  let c := toCompressed x o mask
  let e : Except Err Expanded := match c with
    | .error e => .error e
    | .ok vals => fromCompressed vals shape o emask (getBool j "kwargs")
  Json.mkObj [
    ("compressed", jRes (jList jInt) c),
    ("expanded", jRes (fun r => Json.mkObj [("arr", jOptIntArr r.data), ("dmask", jDMask r.dmask)]) e)]

def parseGridRef (j : Json) : Option GridRef :=
  match j.getStr? with
  | .ok "plain" => some .plain
  | .ok _ => none
  | .error _ => if j.isNull then none else some (.structured (parseGrid j))

/-- C18: the mask acceptance rules -/
def handleC18Accept (j : Json) : Json :=
  let self := parseMask (getObj j "self")
  let inc := parseMask (getObj j "incoming")
  let down := getBool j "down"
  let sg := parseGridRef (getObj j "sgrid")
  let ig := parseGridRef (getObj j "igrid")
  Json.mkObj [
    ("equal", jRes Json.bool (masksEqual self inc sg ig)),
    ("compatible", jRes Json.bool (masksCompatible self inc down sg ig)),
    ("accepts", jRes Json.bool (acceptsMask self inc down sg ig))]

/-- C18: `prepare` under an info with a mask -/
def handleC18Prep (j : Json) : Json :=
  let gshape := (getArr j "gshape").map asNat
  let o := parseOrder (getStr j "order")
  let mask := parseMask (getObj j "mask")
  let x := parsePayload (getObj j "payload")
  Json.mkObj [
    ("out", jRes (fun (r : Payload) => Json.mkObj [("arr", jArr r.data), ("dmask", jDMask r.dmask)])
      (prepare gshape o mask x))]

def gridHandlers : List (String × (Json → Json)) := [
  ("c14", handleC14), ("c14memo", handleC14Memo), ("index", handleIndex),
  ("c15", handleC15),
  ("c18rt", handleC18Rt), ("c18accept", handleC18Accept), ("c18prep", handleC18Prep)]

end Finam.Driver
