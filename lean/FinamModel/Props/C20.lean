import FinamModel.Static
import FinamModel.SchedLemmas
/-!
  C20 — static slots are time independent; pull-based components are served on demand.
-/
namespace Finam.Props.C20
open Finam

/-- **Static output, one publication.** After a successful publication every further one is
    refused with a static-data error and the stored value is served for every request time,
    including none. -/
theorem static_out_once {α} (o o' : SOut α) (v : α) (h : o.push v = .ok o') :
    (∀ w, o'.push w = .error .staticErr) ∧ (∀ t, o'.get t = .ok v) := by
  simp only [SOut.push] at h
  cases hd : o.data with
  | some x => simp [hd] at h
  | none =>
    simp [hd] at h
    subst h
    exact ⟨fun w => rfl, fun t => rfl⟩

/-- nothing is served before the publication -/
theorem static_out_empty {α} (t : Option Int) : (⟨none⟩ : SOut α).get t = .error .noData := rfl

/-- **Static input.** After the first successful pull the input serves the cached value for every
    later request — whatever the request time and whatever the source holds by then. -/
theorem static_in_cached {α} (i i' : SIn α) (src : SOut α) (t : Option Int) (v : α)
    (h : i.pull src t = .ok (v, i')) :
    ∀ (src' : SOut α) (t' : Option Int), i'.pull src' t' = .ok (v, i') := by
  intro src' t'
  simp only [SIn.pull] at h
  cases hc : i.cached with
  | some x =>
    simp [hc] at h
    obtain ⟨h1, h2⟩ := h
    subst h1; subst h2
    simp [SIn.pull, hc]
  | none =>
    simp only [hc] at h
    cases hg : src.get t with
    | error e => simp [hg] at h
    | ok x =>
      simp [hg] at h
      obtain ⟨h1, h2⟩ := h
      subst h1; subst h2
      simp [SIn.pull]

/-- whole histories: in any sequence of pushes and pulls on a static output with a static input,
    every served value is the first published one -/
theorem static_history {α} : ∀ (ops : List (SOp α)) (o : SOut α) (i : SIn α) (v : α),
    o.data = some v → (i.cached = none ∨ i.cached = some v) →
    ∀ r ∈ sRun o i ops, r = .ok (some v) ∨ r = .error .staticErr := by
  intro ops
  induction ops with
  | nil => intro o i v _ _ r hr; cases hr
  | cons op ops ih =>
    intro o i v ho hi r hr
    cases op with
    | push w =>
      simp only [sRun, SOut.push, ho] at hr
      cases hr with
      | head => exact Or.inr rfl
      | tail _ h => exact ih o i v ho hi r h
    | pull t =>
      simp only [sRun] at hr
      have hp : ∃ i', i.pull o t = .ok (v, i') ∧ (i'.cached = some v) := by
        rcases hi with h | h
        · exact ⟨⟨some v⟩, by simp [SIn.pull, h, SOut.get, ho], rfl⟩
        · exact ⟨i, by simp [SIn.pull, h], h⟩
      obtain ⟨i', hpull, hc⟩ := hp
      simp only [hpull] at hr
      cases hr with
      | head => exact Or.inl rfl
      | tail _ h => exact ih o i' v ho (Or.inr hc) r h
    | get t =>
      simp only [sRun, SOut.get, ho] at hr
      cases hr with
      | head => exact Or.inl rfl
      | tail _ h => exact ih o i v ho hi r h

example : sRun (⟨none⟩ : SOut Nat) ⟨none⟩ [.pull none, .push 5, .pull (some 3), .push 6, .get (some 9), .pull none] =
    [.error .noData, .ok none, .ok (some 5), .error .staticErr, .ok (some 5), .ok (some 5)] := by decide

/-! ### pull-based components -/

/-- **The scheduling guarantee extends through pull-based components.** When the driver selects `u`
    for update, every link of `u` whose source belongs to a pull-based component `P` finds all of
    `P`'s own non-static inputs servable for the time that reaches `P` — recursively through
    further pull-based components. -/
theorem ready_through_pull (s : State) (fuel c0 : Nat) (chain : List Nat) (tgt : Option Int) (u : Nat)
    (h : updateRec s fuel c0 chain tgt = .ok (some u))
    (l : Link) (hl : l ∈ (s.comp u).inputs) (hst : l.static = false)
    (hP : (s.comp (s.out l.src).owner).isTime = false)
    (lt : Int) (hn : need s.dp l.ads (getNext (s.comp u)) = some lt) :
    Ready s (s.out l.src).owner lt := by
  obtain ⟨nw, nx, hk, hr⟩ := (Finam.updateRec_sound s fuel).1 c0 chain tgt (some u) h
  have hnx : getNext (s.comp u) = nx := by simp [getNext, hk]
  rw [hnx] at hn
  have := hr l hl hst lt hn
  cases this with
  | time _ _ hT _ => simp [hP] at hT
  | pull _ _ _ hall => exact hall

/-- the provider of a pull-based output forwards the request time unchanged to its own inputs:
    the time that reaches the component is the time its inputs are pulled for (`pullAll`) -/
theorem provider_pulls_same_time (s : State) (fuel : Nat) (dp : DP) (c : Nat) (t : Int) (l : Link) (t' : Int)
    (dp' : DP) (hin : (s.comp c).inputs = [l]) (hst : l.static = false)
    (hreach : pullChain s dp l.ads l.src t = (dp', some t'))
    (hP : (s.comp (s.out l.src).owner).isTime = false) :
    pullAll s (fuel + 1) dp c t = pullAll s fuel dp' (s.out l.src).owner t' := by
  simp [pullAll, hin, hst, hreach, hP]

/-! ### weighted sum -/

/-- **Weighted sum.** The merger returns Σ valueᵢ·weightᵢ for the requested time. -/
theorem weighted_sum_value (s s' : WS) (t : Int) (pairs : List (Rat × Rat)) (r : Rat)
    (h : s.request t pairs = .ok (r, s')) : r = weightedSum pairs := by
  simp only [WS.request] at h
  split at h <;> (split at h <;> first | (cases h; done) | (cases h; rfl) | (simp at h; exact h.1.symm))

/-- the memo never blocks a request: consumers asking for the same time one after the other (or the
    same consumer asking again) both receive the value — buffer identities handed to the callback
    output are always fresh -/
theorem weighted_sum_repeated_request (s : WS) (t1 : Int) (pairs : List (Rat × Rat))
    (hfresh : ∀ b, s.lastDelivered = some b → b < s.fresh) :
    ∃ s1, s.request t1 pairs = .ok (weightedSum pairs, s1) ∧
      (∀ b, s1.lastDelivered = some b → b < s1.fresh) := by
  simp only [WS.request]
  by_cases hm : s.last = some t1
  · simp only [hm, if_true]
    have : s.lastDelivered ≠ some s.fresh := by
      intro hc; have := hfresh _ hc; omega
    simp only [this, if_false]
    exact ⟨_, rfl, by intro b hb; simp only [Option.some.injEq] at hb; subst hb; simp⟩
  · simp only [hm, if_false]
    have : s.lastDelivered ≠ some s.fresh := by
      intro hc; have := hfresh _ hc; omega
    simp only [this, if_false]
    exact ⟨_, rfl, by intro b hb; simp only [Option.some.injEq] at hb; subst hb; simp⟩

example : weightedSum [(2, 1/2), (4, 1/4)] = 2 := by decide +kernel

end Finam.Props.C20
