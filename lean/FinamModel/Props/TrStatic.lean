import FinamModel.Static
import FinamModel.Translated.Input_pull_data
/-
  `Input.pull_data` (translated from `finam/sdk/input.py` on every run): a static input asks its source once and
  serves the cached value from then on; a non-static input asks every time and caches nothing — `SIn.pull` (C20).
-/
namespace Finam.Props.C20
open Finam Finam.Py

/-- static input: the first pull stores what the source delivered, every later pull serves the stored value — whatever
    the source would deliver then and whatever the request time is -/
theorem tr_Input_pull_data_static {α} (cached : Option α) (t : Int) (v : α) :
    Tr.Input_pull_data true cached t v = .ok (cached.getD v, some (cached.getD v)) ∧
    SIn.pull ⟨cached⟩ ⟨some v⟩ (some t) = .ok (cached.getD v, ⟨some (cached.getD v)⟩) := by
  cases cached with
  | none => simp [Tr.Input_pull_data, Tr.Input_pull_data.join1, Tr.Input_pull_data.join2, Py.unwrap, SIn.pull, SOut.get]
  | some c => simp [Tr.Input_pull_data, Tr.Input_pull_data.join1, Tr.Input_pull_data.join2, Py.unwrap, SIn.pull]

/-- non-static input: the source's answer is passed on, nothing is cached -/
theorem tr_Input_pull_data (cached : Option Rat) (t : Int) (v : Rat) :
    Tr.Input_pull_data false cached t v = .ok (v, cached) := by
  simp [Tr.Input_pull_data, Tr.Input_pull_data.join1]

end Finam.Props.C20
