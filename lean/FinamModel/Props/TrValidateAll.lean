import FinamModel.PyPrelude
import FinamModel.Translated.validate_composition
/-!
  C19 — `Composition._validate_composition` (`schedule.py`, regenerated on every run): the order in which the four
  checks run, on the translated checks themselves (`Props/TrValidate.lean`, `Props/TrMissing.lean` say what each
  answers).  The `with ErrorLogger(...)` blocks only log.
-/
namespace Finam.Props.C19V
open Finam Finam.Py

/-- everything `_validate_composition` asks about one input -/
def inputOk (h : Heap) (i : Nat) : Prop := Tr.check_input_connected h i = .ok () ∧ Tr.check_dead_links h i = .ok ()

theorem loop2_ok (h : Heap) (c : Nat) : ∀ is : List Nat,
    Tr.validate_composition.loop2 h c is = .ok () ↔ ∀ i ∈ is, inputOk h i := by
  intro is
  induction is with
  | nil => unfold Tr.validate_composition.loop2; simp [pure, Except.pure]
  | cons i is ih =>
    unfold Tr.validate_composition.loop2
    simp only [List.mem_cons, forall_eq_or_imp, inputOk, bind, Except.bind]
    cases h1 : Tr.check_input_connected h i with
    | error e => simp
    | ok u =>
      cases h2 : Tr.check_dead_links h i with
      | error e => simp
      | ok u2 => simpa [inputOk] using ih

theorem loop3_ok (h : Heap) (c : Nat) : ∀ os : List Nat,
    Tr.validate_composition.loop3 h c os = .ok () ↔ ∀ o ∈ os, Tr.check_branching h o = .ok () := by
  intro os
  induction os with
  | nil => unfold Tr.validate_composition.loop3; simp [pure, Except.pure]
  | cons o os ih =>
    unfold Tr.validate_composition.loop3
    simp only [List.mem_cons, forall_eq_or_imp, bind, Except.bind]
    cases h1 : Tr.check_branching h o with
    | error e => simp
    | ok u => simpa using ih

def compOk (h : Heap) (c : Nat) : Prop :=
  (∀ i ∈ h.inputs c, inputOk h i) ∧ ∀ o ∈ h.outputs c, Tr.check_branching h o = .ok ()

theorem loop1_ok (h : Heap) (all : List Nat) : ∀ cs : List Nat,
    Tr.validate_composition.loop1 h all cs = .ok () ↔ ∀ c ∈ cs, compOk h c := by
  intro cs
  induction cs with
  | nil => unfold Tr.validate_composition.loop1; simp [pure, Except.pure]
  | cons c cs ih =>
    unfold Tr.validate_composition.loop1
    simp only [List.mem_cons, forall_eq_or_imp, compOk, bind, Except.bind]
    cases h1 : Tr.validate_composition.loop2 h c (h.inputs c) with
    | error e =>
      have : ¬ ∀ i ∈ h.inputs c, inputOk h i := fun hh => by rw [(loop2_ok h c _).mpr hh] at h1; cases h1
      simp [this]
    | ok u =>
      have hi := (loop2_ok h c _).mp h1
      cases h2 : Tr.validate_composition.loop3 h c (h.outputs c) with
      | error e =>
        have : ¬ ∀ o ∈ h.outputs c, Tr.check_branching h o = .ok () := fun hh => by
          rw [(loop3_ok h c _).mpr hh] at h2; cases h2
        simp [this]
      | ok u2 =>
        have ho := (loop3_ok h c _).mp h2
        rw [ih]
        constructor
        · intro hh; exact ⟨⟨hi, ho⟩, fun a ha => hh a ha⟩
        · intro hh; exact hh.2

/-- **`_validate_composition` accepts exactly when every single check accepts**: every input of every listed
    component is connected and on no dead link, no output of a listed component branches below a no-branch adapter,
    and no linked component is missing -/
theorem code_validate_accepts_iff (h : Heap) (comps : List Nat) :
    Tr.validate_composition h comps = .ok () ↔
      (∀ c ∈ comps, compOk h c) ∧ Tr.check_missing_components h comps = .ok () := by
  unfold Tr.validate_composition
  simp only [bind, Except.bind]
  cases h1 : Tr.validate_composition.loop1 h comps comps with
  | error e =>
    have : ¬ ∀ c ∈ comps, compOk h c := fun hh => by rw [(loop1_ok h comps comps).mpr hh] at h1; cases h1
    simp [this]
  | ok u =>
    have hc := (loop1_ok h comps comps).mp h1
    cases h2 : Tr.check_missing_components h comps with
    | error e => simp
    | ok u2 => simpa [pure, Except.pure] using hc

/-- the missing-components check runs last: as long as one per-component check fails, its answer is the answer -/
theorem code_validate_first_error (h : Heap) (comps : List Nat) (e : Err)
    (h1 : Tr.validate_composition.loop1 h comps comps = .error e) : Tr.validate_composition h comps = .error e := by
  unfold Tr.validate_composition
  simp [h1, bind, Except.bind]

end Finam.Props.C19V
