import FinamModel.Props.C01
import FinamModel.Props.C03Run
import FinamModel.Props.C08
import FinamModel.Props.C09
import FinamModel.Net
/-!
  C01 at run level — **every pull performed inside an update succeeds**: no time-range error, no
  no-data error, and the served entry brackets the request (no extrapolation), along every run of the
  driver.

  This composes the three snapshot results — `updateRec_sound` (the driver only updates ready
  components), `need_sufficient`/`Served` (ready means the newest publication covers the request) and
  C09's `Inv2` (the bounded history answers like the unbounded one as long as every end point's requests
  do not decrease) — over a model of the whole network: the scheduler state of `Sched.lean` together
  with one `Output` history (`OState`, with eviction) per output.

  `netUpdate`: the update of component `u` pulls every non-static input link at `u`'s announced time
  through its adapter chain (`reqTime`: delays applied) from the source output's history
  (`Output.stepImpl`, the real lookup + eviction), then publishes on every own output, then advances.
  `update_pulls_ok`: under the network invariant `NInv`, if `u` is ready then every one of these pulls
  answers `ok`, and the invariant holds again.  `run_pulls_ok`: hence along every run of the (generalised)
  scheduler of C05Run all pulls succeed.

  Scope (partial with respect to all link kinds): links through pass-through and fixed-delay adapters
  (the request reaches the source output); push-based adapters answer from their own buffer — that is
  C11's model (`cache_evict_invariant`) and is not composed here.
-/
namespace Finam.Props.C01Run
open Finam Finam.Props.C05Run Finam.Props.C03Run

theorem direct_simple (a : Ad) (h : adDirect a = true) : adSimple a = true := by
  cases a <;> simp [adDirect, adSimple] at h ⊢

theorem need_direct : ∀ (ads : List Ad) (t : Int), (∀ a ∈ ads, adDirect a = true) →
    need [] ads t = some (reqTime ads t) := by
  intro ads
  induction ads with
  | nil => intro t _; rfl
  | cons a r ih =>
    intro t h
    have hr : ∀ a ∈ r, adDirect a = true := fun x hx => h x (List.mem_cons_of_mem _ hx)
    have ha := h a List.mem_cons_self
    cases a with
    | pass => simp only [need, reqTime, Ad.withDelay]; exact ih t hr
    | dfix d i => simp only [need, reqTime]; exact ih _ hr
    | cache => simp [adDirect] at ha
    | nodep => simp [adDirect] at ha
    | dpush => simp [adDirect] at ha
    | dpull _ _ _ _ => simp [adDirect] at ha

theorem reqTime_mono : ∀ (ads : List Ad) {t t' : Int}, t ≤ t' → reqTime ads t ≤ reqTime ads t' := by
  intro ads
  induction ads with
  | nil => intro t t' h; exact h
  | cons a r ih => intro t t' h; exact ih (Ad.withDelay_mono [] a h)

def AllOk (l : List (Option (Except Err Unit))) : Prop := ∀ a ∈ l, a = some (.ok ())

/-! ### the invariant -/

/-- what the network guarantees about output `o` -/
structure OInv (n : Net) (o : Nat) : Prop where
  inv : Inv2 (n.os o)
  first : ∃ e0 es, (n.os o).hist = e0 :: es ∧ lastT e0 es = (n.sch.out o).time
  /-- end points: a recorded request is not later than, and the first publication not later than, the next
      request of the same link -/
  links : ∀ c j l, (n.sch.comp c).inputs[j]? = some l → l.static = false → l.src = o →
      n.ep c j < (n.os o).last.length ∧
      (∀ a, (n.os o).last[n.ep c j]? = some (some a) → a ≤ reqTime l.ads (getNext (n.sch.comp c))) ∧
      (∀ e0 es, (n.os o).hist = e0 :: es → e0.t ≤ reqTime l.ads (getNext (n.sch.comp c)))
  /-- different links use different end points -/
  inj : ∀ c j l c' j' l', (n.sch.comp c).inputs[j]? = some l → (n.sch.comp c').inputs[j']? = some l' →
      l.static = false → l'.static = false → l.src = o → l'.src = o → n.ep c j = n.ep c' j' → c = c' ∧ j = j'

structure NInv (n : Net) : Prop where
  frag : Frag n.sch
  direct : ∀ c l, l ∈ (n.sch.comp c).inputs → ∀ a ∈ l.ads, adDirect a = true
  outs : ∀ o, o < n.sch.outs.length → OInv n o

/-! ### one pull -/

theorem sorted_le_last : ∀ (es : List (Entry Unit)) (e0 : Entry Unit), Sorted (e0 :: es) → ∀ e ∈ e0 :: es, e.t ≤ lastT e0 es := by
  intro es
  induction es with
  | nil => intro e0 _ e he; simp at he; subst he; simp [lastT]
  | cons e1 es ih =>
    intro e0 hs e he
    simp only [lastT]
    rcases List.mem_cons.mp he with h | h
    · subst h
      have := ih e1 hs.2 e1 List.mem_cons_self
      have := hs.1
      omega
    · exact ih e1 hs.2 e h

/-- a pull inside the published range by an end point whose requests do not decrease answers `ok`, records
    the request and leaves the publications untouched -/
theorem pull_ok (s : OState Unit) (hi : Inv2 s) (k : Nat) (r : Int) (hk : k < s.last.length)
    (hmono : ∀ a, s.last[k]? = some (some a) → a ≤ r) (e0 : Entry Unit) (es : List (Entry Unit))
    (hh : s.hist = e0 :: es) (hlo : e0.t ≤ r) (hhi : r ≤ lastT e0 es) :
    (stepImpl s (.pull k r)).2 = some (.ok ()) ∧ Inv2 (stepImpl s (.pull k r)).1 ∧
    (stepImpl s (.pull k r)).1.hist = s.hist ∧ (stepImpl s (.pull k r)).1.last = s.last.set k (some r) := by
  have hpre : Pre s (.pull k r) := ⟨hk, hmono⟩
  have hans := answers_agree s hi.toInv (.pull k r) hpre
  obtain ⟨v, hv⟩ := (C08.lookup_range e0 es r).1 ⟨hlo, hhi⟩
  have hspec : answerSpec s (.pull k r) = some (.ok ()) := by
    simp only [answerSpec, hh, hv]
  rw [hspec] at hans
  refine ⟨hans, inv_step s hi _ hpre, ?_, ?_⟩
  · simp only [stepImpl] at hans ⊢
    split
    · rfl
    · rfl
  · simp only [stepImpl] at hans ⊢
    split
    · rfl
    · rename_i x hx
      exfalso
      cases hl : lookup s.ret r with
      | ok v' => exact hx v' hl
      | error e => simp [hl] at hans

/-! ### all pulls of one update -/

theorem updO_same (os : Nat → OState Unit) (o : Nat) (x : OState Unit) : updO os o x o = x := by simp [updO]
theorem updO_other (os : Nat → OState Unit) {o o' : Nat} (x : OState Unit) (h : o' ≠ o) : updO os o x o' = os o' := by
  simp [updO, h]

theorem pullLinks_ok (n : Net) (u : Nat) (hfrag : Frag n.sch)
    (hready : ∀ l ∈ (n.sch.comp u).inputs, l.static = false →
      reqTime l.ads (getNext (n.sch.comp u)) ≤ (n.sch.out l.src).time) :
    ∀ (ls : List Link) (j : Nat) (os : Nat → OState Unit),
      (∀ i l, ls[i]? = some l → (n.sch.comp u).inputs[j + i]? = some l) →
      (∀ o, o < n.sch.outs.length → OInv { n with os := os } o) →
      AllOk (pullLinks n.ep u (getNext (n.sch.comp u)) ls j os).2 ∧
      ∀ o, o < n.sch.outs.length →
        OInv { n with os := (pullLinks n.ep u (getNext (n.sch.comp u)) ls j os).1 } o := by
  intro ls
  induction ls with
  | nil => intro j os _ hinv; exact ⟨fun a ha => by simp [pullLinks] at ha, by simpa [pullLinks] using hinv⟩
  | cons l ls ih =>
    intro j os hidx hinv
    have hidx' : ∀ i l', ls[i]? = some l' → (n.sch.comp u).inputs[j + 1 + i]? = some l' := by
      intro i l' h
      have := hidx (i + 1) l' (by simpa using h)
      rw [show j + (i + 1) = j + 1 + i by omega] at this
      exact this
    have hl0 : (n.sch.comp u).inputs[j]? = some l := by simpa using hidx 0 l (by simp)
    have hmem : l ∈ (n.sch.comp u).inputs := List.mem_of_getElem? hl0
    by_cases hst : l.static = true
    · simp only [pullLinks, hst, if_true]
      exact ih (j + 1) os hidx' hinv
    · have hst' : l.static = false := by simpa using hst
      simp only [pullLinks, hst]
      have ho : l.src < n.sch.outs.length := hfrag.srcLt u l hmem
      have hO := hinv l.src ho
      obtain ⟨hk, hmono, hlow⟩ := hO.links u j l hl0 hst' rfl
      obtain ⟨e0, es, hh, hlast⟩ := hO.first
      have hhi : reqTime l.ads (getNext (n.sch.comp u)) ≤ lastT e0 es := by
        rw [hlast]; exact hready l hmem hst'
      obtain ⟨hans, hinv2, hhist, hlastset⟩ :=
        pull_ok (os l.src) hO.inv (n.ep u j) (reqTime l.ads (getNext (n.sch.comp u))) hk hmono e0 es hh (hlow e0 es hh) hhi
      -- the invariant after this pull
      have hinv' : ∀ o, o < n.sch.outs.length → OInv { n with os := (updO os l.src
          (stepImpl (os l.src) (.pull (n.ep u j) (reqTime l.ads (getNext (n.sch.comp u))))).1) } o := by
        intro o hoo
        by_cases hos : o = l.src
        · subst hos
          refine ⟨?_, ?_, ?_, ?_⟩
          · show Inv2 (updO os l.src _ l.src); rw [updO_same]; exact hinv2
          · refine ⟨e0, es, ?_, hlast⟩
            show (updO os l.src _ l.src).hist = _; rw [updO_same, hhist]; exact hh
          · intro c j' l' hl' hst'' hsrc
            obtain ⟨hk', hmono', hlow'⟩ := hO.links c j' l' hl' hst'' hsrc
            show n.ep c j' < (updO os l.src _ l.src).last.length ∧
              (∀ a, (updO os l.src _ l.src).last[n.ep c j']? = some (some a) → a ≤ _) ∧
              (∀ e0' es', (updO os l.src _ l.src).hist = e0' :: es' → e0'.t ≤ _)
            rw [updO_same, hlastset, hhist]
            refine ⟨by rw [List.length_set]; exact hk', ?_, hlow'⟩
            intro a ha
            by_cases hke : n.ep c j' = n.ep u j
            · obtain ⟨hc, hj⟩ := hO.inj c j' l' u j l hl' hl0 hst'' hst' hsrc rfl hke
              subst hc; subst hj
              rw [hl0] at hl'; cases hl'
              rw [hke, List.getElem?_set_self hk] at ha
              cases ha
              exact Int.le_refl _
            · rw [List.getElem?_set_ne (Ne.symm hke)] at ha
              exact hmono' a ha
          · exact hO.inj
        · have hO' := hinv o hoo
          refine ⟨?_, ?_, ?_, hO'.inj⟩
          · show Inv2 (updO os l.src _ o); rw [updO_other _ _ hos]; exact hO'.inv
          · obtain ⟨e0', es', hh', hl'⟩ := hO'.first
            exact ⟨e0', es', by show (updO os l.src _ o).hist = _; rw [updO_other _ _ hos]; exact hh', hl'⟩
          · intro c j' l' hl' hst'' hsrc
            have := hO'.links c j' l' hl' hst'' hsrc
            show n.ep c j' < (updO os l.src _ o).last.length ∧
              (∀ a, (updO os l.src _ o).last[n.ep c j']? = some (some a) → a ≤ _) ∧
              (∀ e0' es', (updO os l.src _ o).hist = e0' :: es' → e0'.t ≤ _)
            rw [updO_other _ _ hos]; exact this
      obtain ⟨hok, hfin⟩ := ih (j + 1) _ hidx' hinv'
      refine ⟨?_, hfin⟩
      intro a ha
      rcases List.mem_cons.mp ha with h | h
      · rw [h]; exact hans
      · exact hok a h

/-! ### the whole update -/

theorem frag_update {s : State} (h : Frag s) (u : Nat) (hu : u < s.comps.length) (hT : (s.comp u).isTime = true) :
    Frag (applyUpdate s u) where
  allTime := by
    intro c hc
    rw [applyUpdate_len] at hc
    rw [applyUpdate_comp s u hu hT c]
    split
    · rw [adv1_isTime]; exact hT
    · exact h.allTime c hc
  notFin := by
    intro c
    rw [applyUpdate_comp s u hu hT c]
    split
    · rw [adv1_fin]; exact h.notFin u
    · exact h.notFin c
  pos := by
    intro c hc
    rw [applyUpdate_len] at hc
    rw [applyUpdate_comp s u hu hT c]
    split
    · exact adv1_pos _ (h.pos u hu) hT
    · exact h.pos c hc
  srcLt := by
    intro c l hl
    rw [applyUpdate_inputs s u hu hT c] at hl
    rw [applyUpdate_olen]; exact h.srcLt c l hl
  ownerLt := by
    intro o ho
    rw [applyUpdate_olen] at ho
    rw [applyUpdate_len, applyUpdate_out s u hT o ho]
    split <;> exact h.ownerLt o ho
  simple := by
    intro c l hl
    rw [applyUpdate_inputs s u hu hT c] at hl
    exact h.simple c l hl
  outTime := by
    intro o ho
    rw [applyUpdate_olen] at ho
    rw [applyUpdate_out s u hT o ho]
    by_cases hou : (s.out o).owner = u
    · simp only [hou, if_true]
      rw [applyUpdate_comp s u hu hT u]; simp only [if_true, adv1_now]
    · simp only [hou, if_false]
      rw [applyUpdate_comp s u hu hT _]; simp only [hou, if_false]
      exact h.outTime o ho

theorem next_mono_update {s : State} (h : Frag s) (u : Nat) (hu : u < s.comps.length) (hT : (s.comp u).isTime = true)
    (c : Nat) : getNext (s.comp c) ≤ getNext ((applyUpdate s u).comp c) := by
  rw [applyUpdate_comp s u hu hT c]
  split
  · rename_i e; subst e
    have := (adv1_pos _ (h.pos c hu) hT).1
    rw [adv1_now] at this
    omega
  · exact Int.le_refl _

theorem lastT_snoc (x : Entry Unit) : ∀ (es : List (Entry Unit)) (e0 : Entry Unit), lastT e0 (es ++ [x]) = x.t := by
  intro es
  induction es with
  | nil => intro e0; simp [lastT]
  | cons e es ih => intro e0; simp only [List.cons_append, lastT]; exact ih e

/-- **One update on the network**: if the invariant holds and `u` is ready (as the driver guarantees), every
    pull of the update answers `ok` and the invariant holds afterwards. -/
theorem update_pulls_ok (n : Net) (hn : NInv n) (u : Nat) (hu : u < n.sch.comps.length)
    (hT : (n.sch.comp u).isTime = true) (hready : Ready n.sch u (getNext (n.sch.comp u))) :
    AllOk (netUpdate n u).2 ∧ NInv (netUpdate n u).1 := by
  have hf := hn.frag
  -- readiness in terms of request times
  have hr : ∀ l ∈ (n.sch.comp u).inputs, l.static = false →
      reqTime l.ads (getNext (n.sch.comp u)) ≤ (n.sch.out l.src).time := by
    intro l hl hst
    have hd := hn.direct u l hl
    have hneed : need n.sch.dp l.ads (getNext (n.sch.comp u)) = some (reqTime l.ads (getNext (n.sch.comp u))) := by
      rw [need_simple n.sch.dp l.ads _ (fun a ha => direct_simple a (hd a ha))]
      exact need_direct l.ads _ hd
    have := hready l hl hst _ hneed
    cases this with
    | time _ _ _ hle => exact hle
    | pull _ _ hP _ =>
      have := hf.allTime _ (hf.ownerLt l.src (hf.srcLt u l hl))
      rw [this] at hP; cases hP
  obtain ⟨hok, hpin⟩ := pullLinks_ok n u hf hr (n.sch.comp u).inputs 0 n.os
    (fun i l h => by simpa using h) (fun o ho => hn.outs o ho)
  refine ⟨hok, ?_⟩
  -- abbreviations
  generalize hp : (pullLinks n.ep u (getNext (n.sch.comp u)) (n.sch.comp u).inputs 0 n.os).1 = pos at hpin
  have hnet : (netUpdate n u).1 = Net.mk (applyUpdate n.sch u) (fun o =>
      if o < n.sch.outs.length ∧ (n.sch.out o).owner = u then (stepImpl (pos o) (.push (getNext (n.sch.comp u)) ())).1 else pos o)
      n.ep := by
    simp only [netUpdate, hp]
  rw [hnet]
  refine ⟨frag_update hf u hu hT, ?_, ?_⟩
  · intro c l hl
    rw [applyUpdate_inputs n.sch u hu hT c] at hl
    exact hn.direct c l hl
  · intro o ho
    have ho' : o < n.sch.outs.length := by
      have : o < (applyUpdate n.sch u).outs.length := ho
      rw [applyUpdate_olen] at this; exact this
    have hO := hpin o ho'
    obtain ⟨e0, es, hh, hlast⟩ := hO.first
    have hh : (pos o).hist = e0 :: es := hh
    have hlast : lastT e0 es = (n.sch.out o).time := hlast
    have hlinks : ∀ (last : List (Option Int)) (hist : List (Entry Unit)), last = (pos o).last →
        (∀ e0' es', hist = e0' :: es' → e0'.t = e0.t) →
        ∀ c j l, ((applyUpdate n.sch u).comp c).inputs[j]? = some l → l.static = false → l.src = o →
        n.ep c j < last.length ∧
        (∀ a, last[n.ep c j]? = some (some a) → a ≤ reqTime l.ads (getNext ((applyUpdate n.sch u).comp c))) ∧
        (∀ e0' es', hist = e0' :: es' → e0'.t ≤ reqTime l.ads (getNext ((applyUpdate n.sch u).comp c))) := by
      intro last hist hl1 hh1 c j l hl hst hsrc
      rw [applyUpdate_inputs n.sch u hu hT c] at hl
      obtain ⟨hk, hmono, hlow⟩ := hO.links c j l hl hst hsrc
      have hk : n.ep c j < (pos o).last.length := hk
      have hmono : ∀ a, (pos o).last[n.ep c j]? = some (some a) → a ≤ reqTime l.ads (getNext (n.sch.comp c)) := hmono
      have hlow : ∀ e0' es', (pos o).hist = e0' :: es' → e0'.t ≤ reqTime l.ads (getNext (n.sch.comp c)) := hlow
      have hm := reqTime_mono l.ads (next_mono_update hf u hu hT c)
      subst hl1
      refine ⟨hk, fun a ha => by have := hmono a ha; omega, ?_⟩
      intro e0' es' he
      have := hlow e0 es hh
      rw [hh1 e0' es' he]; omega
    have hinj : ∀ c j l c' j' l', ((applyUpdate n.sch u).comp c).inputs[j]? = some l →
        ((applyUpdate n.sch u).comp c').inputs[j']? = some l' → l.static = false → l'.static = false →
        l.src = o → l'.src = o → n.ep c j = n.ep c' j' → c = c' ∧ j = j' := by
      intro c j l c' j' l' h1 h2
      rw [applyUpdate_inputs n.sch u hu hT c] at h1
      rw [applyUpdate_inputs n.sch u hu hT c'] at h2
      exact hO.inj c j l c' j' l' h1 h2
    by_cases hown : (n.sch.out o).owner = u
    · -- `u` publishes on `o`
      have hsorted : Sorted (pos o).hist := hO.inv.sorted
      have hnow : (n.sch.out o).time = getNow (n.sch.comp u) := by rw [hf.outTime o ho', hown]
      have hpos := (hf.pos u hu).1
      have hpre : Pre (pos o) (.push (getNext (n.sch.comp u)) ()) := by
        intro e he
        show e.t < getNext (n.sch.comp u)
        rw [hh] at he hsorted
        have := sorted_le_last es e0 hsorted e he
        rw [hlast] at this
        omega
      have hcond : (o < n.sch.outs.length ∧ (n.sch.out o).owner = u) := ⟨ho', hown⟩
      have hos : (Net.mk (applyUpdate n.sch u) (fun o =>
          if o < n.sch.outs.length ∧ (n.sch.out o).owner = u then (stepImpl (pos o) (.push (getNext (n.sch.comp u)) ())).1 else pos o)
          n.ep).os o = (stepImpl (pos o) (.push (getNext (n.sch.comp u)) ())).1 := by
        show (if o < n.sch.outs.length ∧ (n.sch.out o).owner = u then _ else _) = _
        rw [if_pos hcond]
      have hstep_hist : (stepImpl (pos o) (.push (getNext (n.sch.comp u)) ())).1.hist =
          (pos o).hist ++ [⟨getNext (n.sch.comp u), ()⟩] := rfl
      have hstep_last : (stepImpl (pos o) (.push (getNext (n.sch.comp u)) ())).1.last = (pos o).last := rfl
      refine ⟨?_, ?_, ?_, hinj⟩
      · rw [hos]; exact inv_step (pos o) hO.inv _ hpre
      · refine ⟨e0, es ++ [⟨getNext (n.sch.comp u), ()⟩], ?_, ?_⟩
        · rw [hos, hstep_hist, hh]; rfl
        · rw [lastT_snoc]
          show getNext (n.sch.comp u) = ((applyUpdate n.sch u).out o).time
          rw [applyUpdate_out n.sch u hT o ho']
          simp only [hown, if_true]
      · rw [hos, hstep_hist, hstep_last]
        exact hlinks (pos o).last ((pos o).hist ++ [⟨getNext (n.sch.comp u), ()⟩]) rfl
          (fun e0' es' he => by rw [hh] at he; simp at he; rw [he.1])
    · have hos : (Net.mk (applyUpdate n.sch u) (fun o =>
          if o < n.sch.outs.length ∧ (n.sch.out o).owner = u then (stepImpl (pos o) (.push (getNext (n.sch.comp u)) ())).1 else pos o)
          n.ep).os o = pos o := by
        show (if o < n.sch.outs.length ∧ (n.sch.out o).owner = u then _ else _) = _
        rw [if_neg (fun h => hown h.2)]
      refine ⟨?_, ?_, ?_, hinj⟩
      · rw [hos]; exact hO.inv
      · refine ⟨e0, es, ?_, ?_⟩
        · rw [hos]; exact hh
        · show lastT e0 es = ((applyUpdate n.sch u).out o).time
          rw [applyUpdate_out n.sch u hT o ho']
          simp only [hown, if_false]; exact hlast
      · rw [hos]
        exact hlinks (pos o).last (pos o).hist rfl (fun e0' es' he => by rw [hh] at he; cases he; rfl)

/-! ### runs -/

/-- one step of the driver on the network: start the dependency walk from any time component behind the end
    time (the code's choice is one instance, see `C05Run.runLoop_reach`), update what it returns -/
inductive NetStep (endT : Int) (n : Net) : Net → List (Option (Except Err Unit)) → Prop where
  | mk (h u : Nat) : h < n.sch.comps.length → getNow (n.sch.comp h) < endT →
      updateRec n.sch (n.sch.comps.length + 1) h [] none = .ok (some u) →
      NetStep endT n (netUpdate n u).1 (netUpdate n u).2

inductive NetReach (endT : Int) (n0 : Net) : Net → Prop where
  | refl : NetReach endT n0 n0
  | step {n n' : Net} {ans : List (Option (Except Err Unit))} : NetReach endT n0 n → NetStep endT n n' ans → NetReach endT n0 n'

theorem step_pulls_ok {endT : Int} {n n' : Net} {ans : List (Option (Except Err Unit))} (hn : NInv n)
    (hs : NetStep endT n n' ans) : AllOk ans ∧ NInv n' := by
  cases hs with
  | mk h u hh hnow hrec =>
    obtain ⟨nw, nx, hk, hready⟩ := (Finam.updateRec_sound n.sch (n.sch.comps.length + 1)).1 h [] none (some u) hrec
    have hT : (n.sch.comp u).isTime = true := by simp [Comp.isTime, hk]
    have hu : u < n.sch.comps.length := isTime_lt n.sch u hT
    have hnx : getNext (n.sch.comp u) = nx := by simp [getNext, hk]
    exact update_pulls_ok n hn u hu hT (by rw [hnx]; exact hready)

theorem reach_ninv {endT : Int} {n0 n : Net} (h0 : NInv n0) (hr : NetReach endT n0 n) : NInv n := by
  induction hr with
  | refl => exact h0
  | step _ hs ih => exact (step_pulls_ok ih hs).2

/-- **Every pull of every update of every run succeeds.**  From a network state satisfying the invariant
    (as after `connect()`: every output holds its initial publication, no end point is ahead of its next
    request), along any run of the driver, each pull performed inside an update — at the component's
    announced time, through the link's delay adapters, from the source's *bounded* history — is answered
    `ok`: neither a time-range nor a no-data error, and (by `C08.lookup_nearest` on the same history) the
    served entry is a nearest publication inside the published range. -/
theorem run_pulls_ok {endT : Int} {n0 n n' : Net} {ans : List (Option (Except Err Unit))} (h0 : NInv n0)
    (hr : NetReach endT n0 n) (hs : NetStep endT n n' ans) : AllOk ans :=
  (step_pulls_ok (reach_ninv h0 hr) hs).1

/-- the scheduler part of a network run is a run of `C05Run`'s generalised scheduler -/
theorem netReach_sched {endT : Int} {n0 n : Net} (hr : NetReach endT n0 n) : Reach endT n0.sch n.sch := by
  induction hr with
  | refl => exact .refl
  | step _ hs ih =>
    cases hs with
    | mk h u hh hnow hrec => exact .step ih (.mk h u hh hnow hrec)

/-! ### non-vacuity -/

/-- A(start 0, step 2) → [DelayFixed 1] → B(start 0, steps 3,1);  A → C(start 1, step 2) directly -/
def exSch : State :=
  { comps := [⟨.time 0 2 false, [], [2], 0⟩,
              ⟨.time 0 3 false, [⟨[.dfix 1 0], 0, false⟩], [3, 1], 0⟩,
              ⟨.time 1 3 false, [⟨[], 0, false⟩], [2], 0⟩],
    outs := [⟨0, 0⟩], dp := [] }

def exNet : Net :=
  { sch := exSch,
    os := fun _ => ⟨[⟨0, ()⟩], [⟨0, ()⟩], [none, none]⟩,
    ep := fun c _ => c - 1 }

theorem exSch_comp_ge (c : Nat) (h : 3 ≤ c) : exSch.comp c = ⟨.pull, [], [], 0⟩ :=
  comp_default exSch c (by simpa [exSch] using h)

theorem exSch_frag : Frag exSch where
  allTime := by
    intro c hc
    have : c = 0 ∨ c = 1 ∨ c = 2 := by simp [exSch] at hc; omega
    rcases this with h | h | h <;> subst h <;> rfl
  notFin := by
    intro c
    rcases Nat.lt_or_ge c 3 with h | h
    · have : c = 0 ∨ c = 1 ∨ c = 2 := by omega
      rcases this with h | h | h <;> subst h <;> rfl
    · rw [exSch_comp_ge c h]; rfl
  pos := by
    intro c hc
    have : c = 0 ∨ c = 1 ∨ c = 2 := by simp [exSch] at hc; omega
    rcases this with h | h | h <;> subst h <;> (constructor <;> simp [exSch, State.comp, getNow, getNext])
  srcLt := by
    intro c l hl
    rcases Nat.lt_or_ge c 3 with h | h
    · have : c = 0 ∨ c = 1 ∨ c = 2 := by omega
      rcases this with h | h | h <;> subst h <;> simp [exSch, State.comp] at hl ⊢ <;> (subst hl; simp)
    · rw [exSch_comp_ge c h] at hl; cases hl
  ownerLt := by
    intro o ho
    have : o = 0 := by simp [exSch] at ho; omega
    subst this; simp [exSch, State.out]
  simple := by
    intro c l hl a ha
    rcases Nat.lt_or_ge c 3 with h | h
    · have : c = 0 ∨ c = 1 ∨ c = 2 := by omega
      rcases this with h | h | h <;> subst h <;> simp [exSch, State.comp] at hl <;> subst hl <;> simp at ha
      subst ha; rfl
    · rw [exSch_comp_ge c h] at hl; cases hl
  outTime := by
    intro o ho
    have : o = 0 := by simp [exSch] at ho; omega
    subst this; rfl

theorem single_idx {α} (x y : α) (j : Nat) (h : [x][j]? = some y) : j = 0 ∧ y = x := by
  cases j with
  | zero => simp at h; exact ⟨rfl, h.symm⟩
  | succ k => simp at h

theorem exNet_in0 : (exNet.sch.comp 0).inputs = [] := rfl
theorem exNet_in1 : (exNet.sch.comp 1).inputs = [⟨[.dfix 1 0], 0, false⟩] := rfl
theorem exNet_in2 : (exNet.sch.comp 2).inputs = [⟨[], 0, false⟩] := rfl
theorem exNet_in_ge (c : Nat) (h : 3 ≤ c) : (exNet.sch.comp c).inputs = [] := by
  have : exNet.sch.comp c = ⟨.pull, [], [], 0⟩ := exSch_comp_ge c h
  rw [this]

/-- every link of the example: consumer 1 or 2, position 0 -/
theorem exNet_link (c j : Nat) (l : Link) (h : (exNet.sch.comp c).inputs[j]? = some l) :
    (c = 1 ∧ j = 0 ∧ l = ⟨[.dfix 1 0], 0, false⟩) ∨ (c = 2 ∧ j = 0 ∧ l = ⟨[], 0, false⟩) := by
  rcases Nat.lt_or_ge c 3 with hc | hc
  · have : c = 0 ∨ c = 1 ∨ c = 2 := by omega
    rcases this with e | e | e <;> subst e
    · rw [exNet_in0] at h; simp at h
    · rw [exNet_in1] at h; obtain ⟨a, b⟩ := single_idx _ _ _ h; exact Or.inl ⟨rfl, a, b⟩
    · rw [exNet_in2] at h; obtain ⟨a, b⟩ := single_idx _ _ _ h; exact Or.inr ⟨rfl, a, b⟩
  · rw [exNet_in_ge c hc] at h; simp at h

theorem exNet_inv : NInv exNet where
  frag := exSch_frag
  direct := by
    intro c l hl a ha
    obtain ⟨j, hj⟩ := List.getElem?_of_mem hl
    rcases exNet_link c j l hj with ⟨_, _, e⟩ | ⟨_, _, e⟩ <;> subst e <;> simp at ha
    subst ha; rfl
  outs := by
    intro o ho
    have : o = 0 := by simp [exNet, exSch] at ho; omega
    subst this
    refine ⟨?_, ⟨⟨0, ()⟩, [], rfl, rfl⟩, ?_, ?_⟩
    · exact ⟨by simp [exNet, Sorted], ⟨[], rfl⟩, by intro a ha; simp [exNet] at ha, by intro h; simp [exNet] at h,
        Or.inl rfl⟩
    · intro c j l hl hst hsrc
      rcases exNet_link c j l hl with ⟨hc, hj, e⟩ | ⟨hc, hj, e⟩ <;> subst hc <;> subst hj <;> subst e
      · refine ⟨by simp [exNet], by intro a ha; simp [exNet] at ha, ?_⟩
        intro e0 es he; simp [exNet] at he; rw [← he.1]
        simp [reqTime, Ad.withDelay, exNet, exSch, State.comp, getNext]
      · refine ⟨by simp [exNet], by intro a ha; simp [exNet] at ha, ?_⟩
        intro e0 es he; simp [exNet] at he; rw [← he.1]
        simp [reqTime, exNet, exSch, State.comp, getNext]
    · intro c j l c' j' l' hl hl' _ _ _ _ hep
      rcases exNet_link c j l hl with ⟨hc, hj, _⟩ | ⟨hc, hj, _⟩ <;>
        rcases exNet_link c' j' l' hl' with ⟨hc', hj', _⟩ | ⟨hc', hj', _⟩ <;>
        subst hc <;> subst hj <;> subst hc' <;> subst hj' <;> simp [exNet] at hep ⊢

end Finam.Props.C01Run
