import FinamModel.Props.C15
import FinamModel.Translated.StructuredGrid_compatible_with
import FinamModel.Translated.StructuredGrid___eq__
import FinamModel.Translated.StructuredGrid_get_transform_to
/-!
  C15, "two grids are reported compatible exactly when they describe the same set of data locations" — on the
  *translated* `StructuredGrid.compatible_with` and `StructuredGrid.__eq__` (`data/grid_base.py`, regenerated on every
  run).  The other grid is read as its attributes; `np.allclose` on two axes is a relation parameter, instantiated
  with the model's exact comparison `axisClose` (the tolerance of `allclose` is part of the correspondence check).
-/
namespace Finam.Props.C15T
open Finam Finam.Py Finam.SGrid

def locCode : Loc → Nat
  | .cells => 0
  | .points => 1

theorem locCode_inj (a b : Loc) : locCode a = locCode b ↔ a = b := by
  cases a <;> cases b <;> simp [locCode]

def ishape (l : List Nat) : List Int := l.map Int.ofNat

theorem ishape_inj (a b : List Nat) : ishape a = ishape b ↔ a = b := by
  unfold ishape
  exact List.map_inj_right (fun x y hxy => Int.ofNat.inj hxy)

theorem ishape_reverse (a : List Nat) : (ishape a).reverse = ishape a.reverse := by simp [ishape]

/-- the translated method on the attributes of two model grids -/
def codeCompat (g h : SGrid) (checkLoc : Bool) : Except Err Bool :=
  Tr.StructuredGrid_compatible_with g.dim g.crs (locCode g.loc) (ishape g.dataShape) g.rev g.axes checkLoc
    true true h.dim h.crs (locCode h.loc) (ishape h.dataShape) h.rev h.axes axisClose

theorem shape_cond (g h : SGrid) :
    (ishape g.dataShape ≠ (if g.rev ≠ h.rev then (ishape h.dataShape).reverse else ishape h.dataShape)) ↔
      ¬ (g.dataShape = (if g.rev != h.rev then h.dataShape.reverse else h.dataShape)) := by
  by_cases hr : g.rev = h.rev
  · simp [hr, ishape_inj]
  · have : (g.rev != h.rev) = true := by simpa using hr
    simp [hr, this, ishape_reverse, ishape_inj]

/-- **`StructuredGrid.compatible_with`** (location checked) = the model's `compatibleWith` -/
theorem tr_StructuredGrid_compatible_with (g h : SGrid) : codeCompat g h true = .ok (g.compatibleWith h) := by
  unfold codeCompat Tr.StructuredGrid_compatible_with compatibleWith
  have e1 : ((g.dim : Int) = (h.dim : Int)) ↔ g.dim = h.dim := by omega
  simp only [pure, Except.pure, e1, locCode_inj, shape_cond]
  by_cases hd : g.dim = h.dim
  · by_cases hc : g.crs = h.crs
    · by_cases hl : g.loc = h.loc
      · by_cases hr : g.rev = h.rev
        · by_cases hs : g.dataShape = h.dataShape
          · simp [hd, hc, hl, hr, hs]
          · simp [hd, hc, hl, hr, hs]
        · by_cases hs : g.dataShape = h.dataShape.reverse
          · simp [hd, hc, hl, hr, hs]
          · simp [hd, hc, hl, hr, hs]
      · simp [hd, hc, hl]
    · simp [hd, hc]
  · simp [hd]

/-- **C15 on the code — compatible exactly when the same locations.**  The translated `compatible_with` answers
    `True` iff the two grids have the same number of axes, the same reference system, the same location kind and the
    same coordinates on every axis — whatever their memory order, axes order and axis directions. -/
theorem code_compatible_iff_same_locations (g h : SGrid) :
    codeCompat g h true = .ok true ↔ g.dim = h.dim ∧ g.crs = h.crs ∧ g.loc = h.loc ∧ g.axes = h.axes := by
  rw [tr_StructuredGrid_compatible_with, ← Props.C15.compatible_iff_same_locations]
  constructor
  · intro h1; injection h1
  · intro h1; rw [h1]

/-- the translated method never raises on two structured grids -/
theorem code_compatible_total (g h : SGrid) (cl : Bool) : ∃ b, codeCompat g h cl = .ok b := by
  unfold codeCompat Tr.StructuredGrid_compatible_with
  simp only [pure, Except.pure]
  repeat' split
  all_goals first | exact ⟨_, rfl⟩ | skip

/-- something that is no structured grid is never compatible -/
theorem code_compatible_other_kind (g : SGrid) (cl isG : Bool) (d : Int) (c : Option Nat) (l : Nat) (s : List Int) (r : Bool)
    (ax : List (List Rat)) (close : List Rat → List Rat → Bool) :
    Tr.StructuredGrid_compatible_with g.dim g.crs (locCode g.loc) (ishape g.dataShape) g.rev g.axes cl
      isG false d c l s r ax close = .ok false := by
  unfold Tr.StructuredGrid_compatible_with
  cases isG <;> simp [pure, Except.pure]

def codeEq (g h : SGrid) : Except Err Bool :=
  Tr.StructuredGrid___eq__ g.dim g.crs (locCode g.loc) (ishape g.dataShape) g.rev g.axes g.inc
    true true h.dim h.crs (locCode h.loc) (ishape h.dataShape) h.rev h.axes axisClose h.inc

/-- **`StructuredGrid.__eq__`** = the model's `eqGrid`: compatible, same axis directions, same axes order -/
theorem tr_StructuredGrid___eq__ (g h : SGrid) : codeEq g h = .ok (g.eqGrid h) := by
  unfold codeEq Tr.StructuredGrid___eq__
  have hc := tr_StructuredGrid_compatible_with g h
  unfold codeCompat at hc
  rw [hc]
  unfold eqGrid
  have hall : ∀ l : List (Bool × Bool), (List.all l (fun (a, b) => decide (a = b))) = List.all l (fun p => p.1 == p.2) := by
    intro l; congr 1
  cases hcw : g.compatibleWith h with
  | false => simp [bind, Except.bind, pure, Except.pure]
  | true =>
    simp only [bind, Except.bind, pure, Except.pure, hall]
    cases (List.all (g.inc.zip h.inc) fun p => p.1 == p.2) <;> by_cases hr : g.rev = h.rev <;> simp [hr]

/-- equal grids are compatible (so `get_transform_to` hands out the pass-through only between compatible grids) -/
theorem code_eq_implies_compatible (g h : SGrid) (he : codeEq g h = .ok true) : codeCompat g h true = .ok true := by
  rw [tr_StructuredGrid___eq__] at he
  rw [tr_StructuredGrid_compatible_with]
  have : g.eqGrid h = true := by injection he
  unfold eqGrid at this
  cases hcw : g.compatibleWith h with
  | false => simp [hcw] at this
  | true => rfl

/-- `get_transform_to` of the code: the translated decision on what the translated `compatible_with` and `==` answer -/
def codeTransform (g h : SGrid) : Except Err (Option Int) :=
  match codeCompat g h true with
  | .error e => .error e
  | .ok c => match codeEq g h with
    | .error e => .error e
    | .ok e => Tr.StructuredGrid_get_transform_to c e

/-- **`get_transform_to`** = the model's `getTransformTo`: incompatible grids raise, equal layouts get the pass-through
    (`None`), compatible but different layouts the conversion -/
theorem tr_StructuredGrid_get_transform_to (g h : SGrid) :
    codeTransform g h = (match g.getTransformTo h with
      | .error e => .error e
      | .ok .passThrough => .ok none
      | .ok .convert => .ok (some 1)) := by
  unfold codeTransform getTransformTo Tr.StructuredGrid_get_transform_to
  rw [tr_StructuredGrid_compatible_with, tr_StructuredGrid___eq__]
  cases hc : g.compatibleWith h <;> cases he : g.eqGrid h <;>
    simp [pure, Except.pure, throw, throwThe, MonadExceptOf.throw]

/-- **C15 on the code — equal layouts are passed through unchanged**: the input gets no transform exactly when the two
    grids are equal (compatible, same axis directions, same axes order); it gets the conversion exactly when they are
    compatible and differ in layout; otherwise `get_transform_to` raises -/
theorem code_transform_decision (g h : SGrid) :
    (codeTransform g h = .ok none ↔ g.eqGrid h = true) ∧
    (codeTransform g h = .ok (some 1) ↔ g.compatibleWith h = true ∧ g.eqGrid h = false) ∧
    (codeTransform g h = .error .other ↔ g.compatibleWith h = false) := by
  rw [tr_StructuredGrid_get_transform_to]
  unfold getTransformTo
  have hec : g.eqGrid h = true → g.compatibleWith h = true := by
    intro he; unfold eqGrid at he
    cases hcw : g.compatibleWith h with
    | false => simp [hcw] at he
    | true => rfl
  cases hc : g.compatibleWith h <;> cases he : g.eqGrid h <;> simp
  exact absurd (hec he) (by simp [hc])

/-! ### non-vacuity: the same 2×3 point grid with the axes order reversed and one axis decreasing -/

def exG : SGrid := { axes := [[0, 1], [0, 1, 2]], inc := [true, true], rev := false, order := .C, loc := .points }
def exH : SGrid := { axes := [[0, 1], [0, 1, 2]], inc := [true, false], rev := true, order := .F, loc := .points }

example : codeCompat exG exH true = .ok true := by
  rw [code_compatible_iff_same_locations]; simp [exG, exH, SGrid.dim]
example : codeEq exG exH = .ok false := by
  rw [tr_StructuredGrid___eq__]; simp [eqGrid, exG, exH]

end Finam.Props.C15T
