import FinamModel.Info
import FinamModel.Props.TrInfo
import FinamModel.Translated.ARegridding__check_and_set_out_mask
import FinamModel.Translated.ARegridding__get_info
/-!
  C07 / C16 — the metadata side of the regridding adapters on the *translated* `ARegridding._check_and_set_out_mask`
  and `ARegridding._get_info` (`adapters/regrid.py`, regenerated from the source on every run) against the hand-written
  `Finam.Info.checkAndSetOutMask` / `Finam.Info.regridAfter` the C07 theorems are about.

  This is the function in which two genuine defects were found (F24: the layout of an explicitly given input grid; F25:
  `self.input_mask or in_info.mask` on an array).  After the repair of F25 the hand model was out of date until the
  correspondence run reported it; with this file a change to the function changes the regenerated definition and breaks
  `tr_ARegridding__get_info` in the build.  (The translator refuses `a or b` on anything but optional objects, so the F25
  line itself could not have been translated.)
-/
namespace Finam.Props.C07
open Finam Finam.Info

/-- `ARegridding._get_info` without the final `in_info.copy_with(grid=self.output_grid, mask=self.output_mask)`:
    the state the adapter is left in -/
def regridCore (R : Rel) (a : AState) (req inInfo : Info) : Except Err AState :=
  if a.outputGrid.isNone && req.grid.isNone then .error .metaErr
  else if a.inputGrid.isNone && inInfo.grid.isNone then .error .metaErr
  else if a.outputMask.isNone && req.mask.isNone then .error .metaErr
  else if a.inputMask.isNone && inInfo.mask.isNone then .error .metaErr
  else if gridsDiffer R a.outputGrid req.grid then .error .metaErr
  else
    let a1 : AState := { a with
      inputGrid := pick inInfo.grid a.inputGrid,
      inputMask := pick a.inputMask inInfo.mask,
      outputGrid := pick a.outputGrid req.grid }
    if a1.inputGrid == some R.noGrid || a1.outputGrid == some R.noGrid then .error .other
    else if !a1.initialized then
      match checkAndSetOutMask R { a1 with downstreamMask := req.mask } with
      | .error e => .error e
      | .ok a2 =>
        match checkAndSetOutMask R a2 with
        | .error e => .error e
        | .ok a3 => .ok { a3 with initialized := true }
    else .ok a1

/-- the answer built from the state: `in_info.copy_with(grid=self.output_grid, mask=self.output_mask)` -/
def regridAnswer (R : Rel) (inInfo : Info) (a2 : AState) : Except Err (Info × AState) :=
  match mkInfo R inInfo with
  | .error e => .error e
  | .ok i =>
    if maskFitsGrid R a2.outputMask a2.outputGrid then .ok ({ i with grid := a2.outputGrid, mask := a2.outputMask }, a2)
    else .error .metaErr

/-- the model function of the C07 theorems is the state transition followed by the answer -/
theorem regridAfter_eq (R : Rel) (a : AState) (req inInfo : Info) :
    regridAfter R a req inInfo =
      (match regridCore R a req inInfo with
       | .error e => .error e
       | .ok a2 => regridAnswer R inInfo a2) := by
  unfold regridAfter regridCore regridAnswer
  split; · rfl
  split; · rfl
  split; · rfl
  split; · rfl
  split; · rfl
  simp only []
  split; · rfl
  split
  · split
    · simp_all
    · split <;> simp_all <;> rfl
  · rfl

/-- `x.crs` over the catalogue of the model: no grid of the catalogue carries a CRS, `NoGrid` has no such attribute -/
def crsOfR (R : Rel) : Option Nat → Except Err (Option Nat) :=
  fun g => if g = some R.noGrid then .error .other else .ok none

theorem orObj_pick (a b : Option Nat) : Py.orObj a b = pick a b := by
  cases a <;> rfl

/-- **`ARegridding._check_and_set_out_mask`** = the model's `checkAndSetOutMask`: same error, same two fields -/
theorem tr_ARegridding__check_and_set_out_mask (R : Rel) (a : AState) :
    Tr.ARegridding__check_and_set_out_mask (mcode a.outputMask) (mcode a.downstreamMask) a.maskChecked (meq R) =
      (match checkAndSetOutMask R a with
       | .error e => .error e
       | .ok a' => .ok (a'.maskChecked, mcode a'.outputMask)) := by
  unfold Tr.ARegridding__check_and_set_out_mask Tr.ARegridding__check_and_set_out_mask.join1
    Tr.ARegridding__check_and_set_out_mask.join2 Tr.ARegridding__check_and_set_out_mask.join3 checkAndSetOutMask
  simp only [mcode_isNone, tr_masks_compatible]
  obtain ⟨k, ii, oi, ig, og, im, om, dm, ini, mc⟩ := a
  cases mc <;> cases om <;> cases dm <;>
    simp [pick, bind, Except.bind, pure, Except.pure, throw, throwThe, MonadExceptOf.throw, mcode_isNone] <;>
    (try (split <;> simp_all [mcode_isNone]))

/-- `checkAndSetOutMask` touches the output mask and the "checked" flag only -/
theorem checkAndSetOutMask_frame (R : Rel) (a a' : AState) (h : checkAndSetOutMask R a = .ok a') :
    a' = { a with outputMask := a'.outputMask, maskChecked := a'.maskChecked } := by
  unfold checkAndSetOutMask at h
  split at h
  · cases h; rfl
  · split at h
    · cases h
    · cases h; rfl

/-- what the translated function returns, read off a model state -/
def stateCode (a : AState) : Bool × Bool × Option Int × Option Nat × Option Int × Option Nat × Option Int :=
  (a.initialized, a.maskChecked, mcode a.downstreamMask, a.inputGrid, mcode a.inputMask, a.outputGrid, mcode a.outputMask)

/-- the two calls of `_check_and_set_out_mask` at the first exchange (`_update_grid_specs` of `RegridNearest`, then
    `_get_info` itself), on the translated procedure -/
theorem tr_two_checks (R : Rel) (a : AState) :
    (do
      let (c1, m1) ← Tr.ARegridding__check_and_set_out_mask (mcode a.outputMask) (mcode a.downstreamMask) a.maskChecked (meq R)
      let (c2, m2) ← Tr.ARegridding__check_and_set_out_mask m1 (mcode a.downstreamMask) c1 (meq R)
      pure (c2, m2) : Except Err (Bool × Option Int)) =
      (match checkAndSetOutMask R a with
       | .error e => .error e
       | .ok a2 =>
         match checkAndSetOutMask R a2 with
         | .error e => .error e
         | .ok a3 => .ok (a3.maskChecked, mcode a3.outputMask)) := by
  rw [tr_ARegridding__check_and_set_out_mask]
  cases h1 : checkAndSetOutMask R a with
  | error e => simp [bind, Except.bind]
  | ok a2 =>
    have hf := checkAndSetOutMask_frame R a a2 h1
    have hd : a2.downstreamMask = a.downstreamMask := by rw [hf]
    simp only [bind, Except.bind]
    rw [← hd, tr_ARegridding__check_and_set_out_mask]
    cases checkAndSetOutMask R a2 <;> simp [pure, Except.pure]

/-- the part of the model behind the adoption of grids and source mask -/
def regridTail (R : Rel) (a1 : AState) (req : Info) : Except Err AState :=
  if a1.inputGrid == some R.noGrid || a1.outputGrid == some R.noGrid then .error .other
  else if !a1.initialized then
    match checkAndSetOutMask R { a1 with downstreamMask := req.mask } with
    | .error e => .error e
    | .ok a2 =>
      match checkAndSetOutMask R a2 with
      | .error e => .error e
      | .ok a3 => .ok { a3 with initialized := true }
  else .ok a1

/-- the translated tail (`self.output_grid = self.output_grid or info.grid`, the CRS tests, the first-call block) -/
theorem tr_get_info_tail (R : Rel) (a1 : AState) (req : Info) (ig : Option Nat) (im : Option Int) :
    Tr.ARegridding__get_info.join1 a1.inputGrid a1.outputGrid (mcode a1.outputMask) (mcode a1.downstreamMask)
        (mcode a1.inputMask) a1.initialized a1.maskChecked req.grid (mcode req.mask) ig im
        (meq R) (gridsDiffer R) (crsOfR R) =
      (match regridTail R { a1 with outputGrid := pick a1.outputGrid req.grid } req with
       | .error e => .error e
       | .ok a' => .ok (stateCode a')) := by
  unfold Tr.ARegridding__get_info.join1 Tr.ARegridding__get_info.join2 Tr.ARegridding__get_info.join3
    Tr.ARegridding__get_info.join4 Tr.ARegridding__get_info.join5 regridTail crsOfR
  simp only [orObj_pick]
  obtain ⟨k, ii, oi, igr, ogr, imk, omk, dmk, ini, mc⟩ := a1
  simp only []
  by_cases hi : igr = some R.noGrid
  · simp [hi, bind, Except.bind]
  by_cases ho : pick ogr req.grid = some R.noGrid
  · simp [hi, ho, bind, Except.bind]
  simp [hi, ho, bind, Except.bind, pure, Except.pure]
  cases ini with
  | true => simp [stateCode]
  | false =>
    simp only [eq_self, if_true]
    have h1 := tr_ARegridding__check_and_set_out_mask R ⟨k, ii, oi, igr, pick ogr req.grid, imk, omk, req.mask, false, mc⟩
    simp only [] at h1
    rw [h1]
    cases hc1 : checkAndSetOutMask R ⟨k, ii, oi, igr, pick ogr req.grid, imk, omk, req.mask, false, mc⟩ with
    | error e => simp
    | ok a2 =>
      have hf := checkAndSetOutMask_frame R _ a2 hc1
      have hd : a2.downstreamMask = req.mask := by rw [hf]
      have h2 := tr_ARegridding__check_and_set_out_mask R a2
      rw [hd] at h2
      simp only []
      rw [h2]
      cases hc2 : checkAndSetOutMask R a2 with
      | error e => simp
      | ok a3 =>
        have hf2 := checkAndSetOutMask_frame R a2 a3 hc2
        have e1 : a3.downstreamMask = req.mask := by rw [hf2]; exact hd
        have e2 : a3.inputGrid = igr := by rw [hf2, hf]
        have e3 : a3.inputMask = imk := by rw [hf2, hf]
        have e4 : a3.outputGrid = pick ogr req.grid := by rw [hf2, hf]
        simp [stateCode, e1, e2, e3, e4]

/-- **`ARegridding._get_info`** (with `RegridNearest`'s `_update_grid_specs`, as far as the metadata go) = the model's
    state transition, for every adapter state, request and upstream answer -/
theorem tr_ARegridding__get_info (R : Rel) (a : AState) (req inInfo : Info) :
    Tr.ARegridding__get_info a.inputGrid a.outputGrid (mcode a.outputMask) (mcode a.downstreamMask) (mcode a.inputMask)
        a.initialized a.maskChecked req.grid (mcode req.mask) inInfo.grid (mcode inInfo.mask)
        (gridsDiffer R) (crsOfR R) (meq R) =
      (match regridCore R a req inInfo with
       | .error e => .error e
       | .ok a' => .ok (stateCode a')) := by
  obtain ⟨k, ii, oi, igr, ogr, imk, omk, dmk, ini, mc⟩ := a
  unfold Tr.ARegridding__get_info regridCore
  simp only [mcode_isNone, orObj_pick, Bool.and_eq_true]
  by_cases g1 : ogr.isNone = true ∧ req.grid.isNone = true
  · simp only [g1, and_self, if_true]; rfl
  by_cases g2 : igr.isNone = true ∧ inInfo.grid.isNone = true
  · simp only [g1, g2, and_self, if_true, if_false]; rfl
  by_cases g3 : omk.isNone = true ∧ req.mask.isNone = true
  · simp only [g1, g2, g3, and_self, if_true, if_false]; rfl
  by_cases g4 : imk.isNone = true ∧ inInfo.mask.isNone = true
  · simp only [g1, g2, g3, g4, and_self, if_true, if_false]; rfl
  simp only [g1, g2, g3, g4, if_false]
  by_cases g5 : gridsDiffer R ogr req.grid = true
  · have : ogr.isNone = false ∧ req.grid.isNone = false := by
      cases ogr <;> cases hr : req.grid <;> simp_all [gridsDiffer]
    simp only [g5, this, and_self, if_true]; rfl
  simp only [g5, Bool.false_eq_true, and_false, if_false]
  have key : ∀ m : Option MaskSpec, _ := fun m =>
    tr_get_info_tail R ⟨k, ii, oi, pick inInfo.grid igr, ogr, m, omk, dmk, ini, mc⟩ req inInfo.grid (mcode inInfo.mask)
  simp only [regridTail] at key
  cases imk with
  | none => simpa [pick] using key inInfo.mask
  | some m => simpa [pick] using key (some m)

/-! ### statements on the regenerated code

`tr_ARegridding__get_info` says "translated code = model"; composed with facts about the model these are statements
about the definitions produced from `/repo/src/finam/adapters/regrid.py` in this run. -/

theorem regridCore_fields (R : Rel) (a a' : AState) (req inInfo : Info) (h : regridCore R a req inInfo = .ok a') :
    a'.inputGrid = pick inInfo.grid a.inputGrid ∧ a'.inputMask = pick a.inputMask inInfo.mask ∧
      a'.outputGrid = pick a.outputGrid req.grid := by
  unfold regridCore at h
  split at h; · cases h
  split at h; · cases h
  split at h; · cases h
  split at h; · cases h
  split at h; · cases h
  simp only [] at h
  split at h; · cases h
  split at h
  · split at h
    · cases h
    · rename_i a2 h1
      split at h
      · cases h
      · rename_i a3 h2
        cases h
        have f1 := checkAndSetOutMask_frame R _ a2 h1
        have f2 := checkAndSetOutMask_frame R a2 a3 h2
        refine ⟨?_, ?_, ?_⟩ <;> simp only [] <;> rw [f2, f1]
  · cases h; exact ⟨rfl, rfl, rfl⟩

/-- **F24 as a theorem on the code**: whenever the source delivers a grid, the regridding adapter works on *that* grid
    afterwards (the data arrive in its layout), whatever input grid it was constructed with -/
theorem code_regrid_adopts_delivered_grid (R : Rel) (a : AState) (req inInfo : Info) (g : Nat) (hg : inInfo.grid = some g)
    (r : Bool × Bool × Option Int × Option Nat × Option Int × Option Nat × Option Int)
    (h : Tr.ARegridding__get_info a.inputGrid a.outputGrid (mcode a.outputMask) (mcode a.downstreamMask) (mcode a.inputMask)
        a.initialized a.maskChecked req.grid (mcode req.mask) inInfo.grid (mcode inInfo.mask)
        (gridsDiffer R) (crsOfR R) (meq R) = .ok r) :
    r.2.2.2.1 = some g := by
  rw [tr_ARegridding__get_info] at h
  cases hc : regridCore R a req inInfo with
  | error e => rw [hc] at h; cases h
  | ok a' =>
    rw [hc] at h
    cases h
    have := (regridCore_fields R a a' req inInfo hc).1
    simp [stateCode, this, hg, pick]

/-- **F25 as a theorem on the code**: an adapter that has served its first target answers every further target that
    asks for the same grid (or none) — whatever masks the source and the new target state — and its state changes in
    the adopted input grid only -/
theorem code_regrid_further_target (R : Rel) (a : AState) (req inInfo : Info) (og : Nat)
    (hinit : a.initialized = true) (hog : a.outputGrid = some og)
    (hom : a.outputMask.isSome = true) (him : a.inputMask.isSome = true)
    (hig : (pick inInfo.grid a.inputGrid).isSome = true)
    (hsame : gridsDiffer R (some og) req.grid = false)
    (hn1 : pick inInfo.grid a.inputGrid ≠ some R.noGrid) (hn2 : og ≠ R.noGrid) :
    Tr.ARegridding__get_info a.inputGrid a.outputGrid (mcode a.outputMask) (mcode a.downstreamMask) (mcode a.inputMask)
        a.initialized a.maskChecked req.grid (mcode req.mask) inInfo.grid (mcode inInfo.mask)
        (gridsDiffer R) (crsOfR R) (meq R) =
      .ok (stateCode { a with inputGrid := pick inInfo.grid a.inputGrid }) := by
  rw [tr_ARegridding__get_info]
  obtain ⟨k, ii, oi, igr, ogr, imk, omk, dmk, ini, mc⟩ := a
  simp only [] at hinit hog hom him hig hn1
  subst hinit hog
  cases omk with
  | none => simp at hom
  | some om =>
    cases imk with
    | none => simp at him
    | some im =>
      have hig' : ¬ (igr.isNone = true ∧ inInfo.grid.isNone = true) := by
        intro ⟨h1, h2⟩
        cases igr <;> cases hh : inInfo.grid <;> simp_all [pick]
      have e : (igr.isNone && inInfo.grid.isNone) = false := by
        cases igr <;> cases hh : inInfo.grid <;> simp_all [pick]
      have p1 : ∀ y : Option Nat, pick (some og) y = some og := fun _ => rfl
      have p2 : ∀ y : Option MaskSpec, pick (some im) y = some im := fun _ => rfl
      unfold regridCore
      simp [p1, p2, hsame, e, hn1, hn2]

def exRegridR : Rel :=
  { gridCompat := fun a b => a == b, gridEq := fun a b => a == b, transformOk := fun _ _ => true,
    unitsCompat := fun a b => a == b, maskEq := fun a b _ _ => a == b, maskFits := fun _ _ => true, noGrid := 0,
    timesSecond := id }

def exRegridA : AState :=
  { kind := .regrid, inputGrid := some 1, outputGrid := some 2, inputMask := some (.explicit 1), outputMask := some .flex,
    downstreamMask := some .flex, initialized := true, maskChecked := true }

/-- the hypotheses of `code_regrid_further_target` are met by an adapter after its first exchange with an explicit
    source mask — the situation in which the unrepaired `self.input_mask or in_info.mask` raised -/
example : exRegridA.initialized = true ∧ exRegridA.outputGrid = some 2 ∧ exRegridA.outputMask.isSome = true ∧ exRegridA.inputMask.isSome = true ∧
    (pick (some 1) exRegridA.inputGrid).isSome = true ∧ gridsDiffer exRegridR (some 2) (some 2) = false ∧
    pick (some 1) exRegridA.inputGrid ≠ some exRegridR.noGrid ∧ (2 : Nat) ≠ exRegridR.noGrid := by
  simp [exRegridA, exRegridR, pick, gridsDiffer]

end Finam.Props.C07
