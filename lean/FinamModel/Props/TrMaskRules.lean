import FinamModel.PyPrelude
import FinamModel.Translated.masks_compatible_rules
/-!
  C18, third sentence — "during connect a flexible consumer accepts any producer, an unmasked consumer only unmasked
  producers, and a fixed-mask consumer only producers whose mask is equal after accounting for grid layout" — stated
  directly on the *translated* `masks_compatible` (`data/tools/mask.py`, regenerated on every run).

  Masks: `none` = no mask set, `some (-1)` = `Mask.FLEX`, `some (-2)` = `Mask.NONE`, `some k` (`k ≥ 0`) = the explicit
  mask `k`; `masks_equal` (numpy: shapes, layout conversion, element comparison) is the relation parameter `me`.
  The consumer is `this` when the incoming metadata comes from upstream (`incoming_donwstream = False`).
-/
namespace Finam.Props.C18T
open Finam Finam.Py

abbrev MaskEq := Option Int → Option Int → Option Nat → Option Nat → Except Err Bool

/-- the check a consumer with mask `cons` (grid `cg`) makes on a producer with mask `prod` (grid `pg`) -/
def consumerAccepts (cons prod : Option Int) (cg pg : Option Nat) (me : MaskEq) : Except Err Bool :=
  Tr.masks_compatible_rules cons prod false cg pg me

/-- **a flexible consumer accepts any producer** (one that has a mask entry at all: `None` — metadata not yet
    exchanged — is never compatible) -/
theorem code_flexible_consumer (prod : Option Int) (cg pg : Option Nat) (me : MaskEq) :
    consumerAccepts (some (-1)) prod cg pg me = .ok prod.isSome := by
  unfold consumerAccepts Tr.masks_compatible_rules Tr.masks_compatible_rules.join1
  cases prod with
  | none => simp [pure, Except.pure]
  | some p => by_cases hp : 0 ≤ p <;> simp [maskSpecified, hp, pure, Except.pure]

/-- **an unmasked consumer accepts only unmasked producers** -/
theorem code_unmasked_consumer (prod : Option Int) (cg pg : Option Nat) (me : MaskEq) :
    consumerAccepts (some (-2)) prod cg pg me = .ok (prod == some (-2)) := by
  unfold consumerAccepts Tr.masks_compatible_rules Tr.masks_compatible_rules.join1
  cases prod with
  | none => simp [pure, Except.pure]
  | some p =>
    by_cases hp : 0 ≤ p
    · have : p ≠ -2 := by omega
      simp [maskSpecified, hp, this, pure, Except.pure]
    · simp [maskSpecified, hp, pure, Except.pure]
      by_cases h2 : p = -2 <;> simp [h2]

/-- **a fixed-mask consumer accepts only producers with an explicit mask, and exactly those `masks_equal` accepts**
    (consumer's mask and grid first: the comparison accounts for the two grid layouts) -/
theorem code_fixed_mask_consumer (k : Int) (hk : 0 ≤ k) (prod : Option Int) (cg pg : Option Nat) (me : MaskEq) :
    consumerAccepts (some k) prod cg pg me =
      match prod with
      | some p => if 0 ≤ p then me (some k) (some p) cg pg else .ok false
      | none => .ok false := by
  unfold consumerAccepts Tr.masks_compatible_rules Tr.masks_compatible_rules.join1
  cases prod with
  | none => simp [pure, Except.pure]
  | some p =>
    by_cases hp : 0 ≤ p
    · simp only [maskSpecified, hk, hp, decide_true, pure, Except.pure, bind, Except.bind]
      cases me (some k) (some p) cg pg <;> simp
    · simp [maskSpecified, hk, hp, pure, Except.pure]

/-- the same check asked from the producer's side (`incoming_donwstream = True`) is the same check -/
theorem code_direction (a b : Option Int) (ga gb : Option Nat) (me : MaskEq) :
    Tr.masks_compatible_rules a b true ga gb me = Tr.masks_compatible_rules b a false gb ga me := by
  unfold Tr.masks_compatible_rules
  simp only [if_true, Bool.false_eq_true, if_false]
  unfold Tr.masks_compatible_rules.join1
  rfl

/-! ### non-vacuity -/
example : consumerAccepts (some (-1)) (some 3) none none (fun _ _ _ _ => .ok false) = .ok true := by
  rw [code_flexible_consumer]; rfl
example : consumerAccepts (some (-2)) (some 3) none none (fun _ _ _ _ => .ok true) = .ok false := by
  rw [code_unmasked_consumer]; rfl
example : consumerAccepts (some 2) (some 3) (some 0) (some 1) (fun a b _ _ => .ok (a == some 2 && b == some 3)) = .ok true := by
  rw [code_fixed_mask_consumer 2 (by omega)]; rfl

end Finam.Props.C18T
