import FinamModel.Units
import FinamModel.Translated.cache_units
import FinamModel.Translated.compatible_units
import FinamModel.Translated.equivalent_units
/-
  The unit-pair memo of `finam/data/tools/units.py` (`_cache_units`, `compatible_units`, `equivalent_units`),
  translated on every run, against the hand-written `Units.cached` of the C17 theorems.  Units are opaque keys; what
  pint answers for `np.isclose((1.0 * unit1).to(unit2).magnitude, 1.0)` is a parameter (`none` = DimensionalityError).
-/
namespace Finam.Props.C17
open Finam Finam.Py Finam.Units

/-- the Python dict (insertion order) and the model's association list (newest first) answer every key alike -/
def CacheRel (d : List ((Nat × Nat) × (Bool × Bool))) (c : Cache Nat) : Prop := ∀ k, dictGet? d k = c.lookup k

theorem get_set {κ ν} [DecidableEq κ] (d : List (κ × ν)) (k k' : κ) (v : ν) :
    dictGet? (dictSet d k v) k' = if k = k' then some v else dictGet? d k' := by
  induction d with
  | nil => simp [dictSet, dictGet?]
  | cons p ps ih =>
    obtain ⟨a, b⟩ := p
    by_cases h : a = k
    · subst h; by_cases h2 : a = k' <;> simp [dictSet, dictGet?, h2]
    · by_cases h2 : a = k'
      · have : ¬ k = k' := fun e => h (by rw [e, h2])
        subst h2
        have h' : ¬ a = k := h
        simp [dictSet, dictGet?, h', this]
      · simp [dictSet, dictGet?, h, h2, ih]

/-- what pint answers for the pair, as the translated functions receive it -/
def convOf (unitOf : Nat → U) (close : Rat → Bool) (a b : Nat) : Option Bool := (pintTo (unitOf a) (unitOf b) 1).map close

theorem tr_cache_units (unitOf : Nat → U) (close : Rat → Bool) (a b : Nat) (d : List ((Nat × Nat) × (Bool × Bool))) :
    Tr.cache_units a b d (convOf unitOf close a b) =
      .ok (cacheUnits close (unitOf a) (unitOf b), dictSet d (a, b) (cacheUnits close (unitOf a) (unitOf b))) := by
  unfold Tr.cache_units convOf cacheUnits
  cases pintTo (unitOf a) (unitOf b) 1 <;> simp

theorem cached_step (unitOf : Nat → U) (close : Rat → Bool) (a b : Nat) (d : List ((Nat × Nat) × (Bool × Bool)))
    (c : Cache Nat) (hr : CacheRel d c) :
    ∃ d', (match dictGet? d (a, b) with
            | some r => (r, d)
            | none => (cacheUnits close (unitOf a) (unitOf b), dictSet d (a, b) (cacheUnits close (unitOf a) (unitOf b))))
          = ((cached unitOf close c a b).1, d') ∧ CacheRel d' (cached unitOf close c a b).2 := by
  unfold cached
  rw [← hr (a, b)]
  cases hg : dictGet? d (a, b) with
  | some r => exact ⟨d, rfl, hr⟩
  | none =>
    refine ⟨_, rfl, ?_⟩
    intro k
    rw [get_set]
    by_cases hk : (a, b) = k
    · subst hk; simp [List.lookup]
    · have : ¬ (k == (a, b)) = true := by simpa using fun e => hk e.symm
      simp [hk, List.lookup, this, hr k]

/-- **`compatible_units` goes through the memo like `Units.cached`** -/
theorem tr_compatible_units (unitOf : Nat → U) (close : Rat → Bool) (a b : Nat) (d : List ((Nat × Nat) × (Bool × Bool)))
    (c : Cache Nat) (hr : CacheRel d c) :
    ∃ d', Tr.compatible_units a b d (convOf unitOf close a b) = .ok ((cached unitOf close c a b).1.1, d') ∧
      CacheRel d' (cached unitOf close c a b).2 := by
  obtain ⟨d', h1, h2⟩ := cached_step unitOf close a b d c hr
  refine ⟨d', ?_, h2⟩
  unfold Tr.compatible_units
  cases hg : dictGet? d (a, b) with
  | some r =>
    rw [hg] at h1
    simp only [Prod.mk.injEq] at h1
    simp [hg, Tr.compatible_units.join1, Py.unwrap, ← h1.1, ← h1.2]
  | none =>
    rw [hg] at h1
    simp only [Prod.mk.injEq] at h1
    simp [hg, tr_cache_units, Tr.compatible_units.join1, Py.unwrap, ← h1.1, ← h1.2]

/-- **`equivalent_units` goes through the memo like `Units.cached`** -/
theorem tr_equivalent_units (unitOf : Nat → U) (close : Rat → Bool) (a b : Nat) (d : List ((Nat × Nat) × (Bool × Bool)))
    (c : Cache Nat) (hr : CacheRel d c) :
    ∃ d', Tr.equivalent_units a b d (convOf unitOf close a b) = .ok ((cached unitOf close c a b).1.2, d') ∧
      CacheRel d' (cached unitOf close c a b).2 := by
  obtain ⟨d', h1, h2⟩ := cached_step unitOf close a b d c hr
  refine ⟨d', ?_, h2⟩
  unfold Tr.equivalent_units
  cases hg : dictGet? d (a, b) with
  | some r =>
    rw [hg] at h1
    simp only [Prod.mk.injEq] at h1
    simp [hg, Tr.equivalent_units.join1, Py.unwrap, ← h1.1, ← h1.2]
  | none =>
    rw [hg] at h1
    simp only [Prod.mk.injEq] at h1
    simp [hg, tr_cache_units, Tr.equivalent_units.join1, Py.unwrap, ← h1.1, ← h1.2]

end Finam.Props.C17
