import FinamModel.TimeAdaptersLemmas
/-!
  C11 — the time interpolation adapters equal their mathematical definition.

  Model: `FinamModel/TimeAdapters.lean` (`stepImpl` mirrors `TimeCachingAdapter._source_updated` /
  `_get_data` / `_clear_cached_data` and the `_interpolate` bodies of `NextTime`, `PreviousTime`,
  `LinearTime`, `StepTime`).  Specification: `specAnswer`, written independently of the loops on the
  *full* publication history: `lastAtOrBefore` / `firstAtOrAfter` (a `filter`/`find?`) pick the
  bracketing publications, `specOf` is the closed formula of the interpolant.
-/
namespace Finam.Props.C11
open Finam Finam.TA

/-! ### What the specification says (so that the reading of `specAnswer` is itself checked) -/

theorem mem_le_lastE {α} : ∀ (es : List (Entry α)) (e0 : Entry α), Sorted (e0 :: es) →
    ∀ x ∈ e0 :: es, x.t ≤ (lastE e0 es).t := by
  intro es
  induction es with
  | nil => intro e0 _ x hx; simp at hx; subst hx; simp [lastE]
  | cons e1 es ih =>
    intro e0 hs x hx
    simp only [lastE]
    cases hx with
    | head => have := ih e1 hs.2 e1 (by simp); have := hs.1; omega
    | tail _ hx' => exact ih e1 hs.2 x hx'

/-- `lastAtOrBefore` really is the latest publication not after `t`, `firstAtOrAfter` the earliest
    not before `t` (on strictly increasing histories). -/
theorem spec_brackets (h : List (Entry Rat)) (t : Int) (hs : Sorted h) :
    (∀ lo, lastAtOrBefore h t = some lo → lo ∈ h ∧ lo.t ≤ t ∧ ∀ e ∈ h, e.t ≤ t → e.t ≤ lo.t) ∧
    (∀ hi, firstAtOrAfter h t = some hi → hi ∈ h ∧ t ≤ hi.t ∧ ∀ e ∈ h, t ≤ e.t → hi.t ≤ e.t) := by
  induction h with
  | nil => simp [lastAtOrBefore, firstAtOrAfter]
  | cons a l ih =>
    have ih' := ih (sorted_tail hs)
    constructor
    · intro lo hlo
      rw [lastAtOrBefore_cons] at hlo
      by_cases hat : a.t ≤ t
      · simp only [hat, if_true, Option.some.injEq] at hlo
        cases hl : lastAtOrBefore l t with
        | none =>
          rw [hl] at hlo; simp at hlo; subst hlo
          refine ⟨by simp, hat, ?_⟩
          intro e he het
          cases he with
          | head => omega
          | tail _ he' =>
            -- e ∈ l with e.t ≤ t would be found by the filter
            have : (l.filter (fun e => decide (e.t ≤ t))) = [] := by
              simpa [lastAtOrBefore, List.getLast?_eq_none_iff] using hl
            have hm : e ∈ l.filter (fun e => decide (e.t ≤ t)) :=
              List.mem_filter.mpr ⟨he', by simpa using het⟩
            rw [this] at hm; cases hm
        | some x =>
          rw [hl] at hlo; simp at hlo; subst hlo
          obtain ⟨hm, hle, hmax⟩ := ih'.1 x hl
          refine ⟨List.mem_cons_of_mem _ hm, hle, ?_⟩
          intro e he het
          cases he with
          | head => have := sorted_head_lt l a hs x hm; omega
          | tail _ he' => exact hmax e he' het
      · simp only [hat, if_false] at hlo
        obtain ⟨hm, hle, hmax⟩ := ih'.1 lo hlo
        refine ⟨List.mem_cons_of_mem _ hm, hle, ?_⟩
        intro e he het
        cases he with
        | head => omega
        | tail _ he' => exact hmax e he' het
    · intro hi hhi
      rw [firstAtOrAfter_cons] at hhi
      by_cases hat : t ≤ a.t
      · simp only [hat, if_true, Option.some.injEq] at hhi
        subst hhi
        refine ⟨by simp, hat, ?_⟩
        intro e he _
        cases he with
        | head => omega
        | tail _ he' => have := sorted_head_lt l a hs e he'; omega
      · simp only [hat, if_false] at hhi
        obtain ⟨hm, hle, hmin⟩ := ih'.2 hi hhi
        refine ⟨List.mem_cons_of_mem _ hm, hle, ?_⟩
        intro e he het
        cases he with
        | head => omega
        | tail _ he' => exact hmin e he' het

/-! ### Reachable states satisfy the invariant -/

theorem init_inv : Inv TA.init where
  sorted := trivial
  suffix := ⟨[], rfl⟩
  lastOk := by intro a ha; cases ha
  lastNone := fun _ => rfl
  guard := Or.inl rfl

theorem inv_run (k : Kind) : ∀ (evs : List Ev) (s : AState), Inv s → preAllB k s evs = true →
    Inv (runFinal k s evs) := by
  intro evs
  induction evs with
  | nil => intro s hi _; exact hi
  | cons ev evs ih =>
    intro s hi hpre
    simp only [preAllB, Bool.and_eq_true] at hpre
    exact ih _ (inv_step k s hi ev (pre_of_preB s ev hpre.1)) hpre.2

/-- Refinement from any state satisfying the invariant. -/
theorem adapter_refines_spec_inv (k : Kind) : ∀ (evs : List Ev) (s : AState), Inv s →
    preAllB k s evs = true → ∀ p ∈ runBoth k s evs, p.1 = p.2 := by
  intro evs
  induction evs with
  | nil => intro s _ _ p hp; cases hp
  | cons ev evs ih =>
    intro s hi hpre p hp
    simp only [preAllB, Bool.and_eq_true] at hpre
    simp only [runBoth] at hp
    cases hp with
    | head => exact answers_agree k s hi ev (pre_of_preB s ev hpre.1)
    | tail _ h => exact ih _ (inv_step k s hi ev (pre_of_preB s ev hpre.1)) hpre.2 p h

/-- **C11, all four adapters at once.** For every interleaving of publications (strictly increasing
    times, arbitrary values) and requests (non-decreasing), every answer of the adapter — value or
    error class — is the answer of the mathematical definition evaluated on the *full* publication
    history, although the adapter discards buffer entries on every served request. -/
theorem adapter_refines_spec (k : Kind) (evs : List Ev) (h : preAllB k TA.init evs = true) :
    ∀ p ∈ runBoth k TA.init evs, p.1 = p.2 :=
  adapter_refines_spec_inv k evs _ init_inv h

/-- **NextTime** returns the first publication at or after `t`. -/
theorem next_spec (evs : List Ev) (h : preAllB .next TA.init evs = true) :
    ∀ p ∈ runBoth .next TA.init evs, p.1 = p.2 := adapter_refines_spec .next evs h

/-- **PreviousTime** returns the last publication at or before `t`. -/
theorem prev_spec (evs : List Ev) (h : preAllB .prev TA.init evs = true) :
    ∀ p ∈ runBoth .prev TA.init evs, p.1 = p.2 := adapter_refines_spec .prev evs h

/-- **LinearTime** returns the linear interpolant of the bracketing publications. -/
theorem linear_spec (evs : List Ev) (h : preAllB .linear TA.init evs = true) :
    ∀ p ∈ runBoth .linear TA.init evs, p.1 = p.2 := adapter_refines_spec .linear evs h

/-- **StepTime** returns the step interpolant with relative step position `pos` (any rational, in
    particular every position in `[0, 1]`). -/
theorem step_spec (pos : Rat) (evs : List Ev) (h : preAllB (.step pos) TA.init evs = true) :
    ∀ p ∈ runBoth (.step pos) TA.init evs, p.1 = p.2 := adapter_refines_spec (.step pos) evs h

/-- what the four specifications are, spelled out: inside the published range the answer is the
    closed formula on the bracketing publications -/
theorem spec_formula (k : Kind) (h : List (Entry Rat)) (t : Int) (lo hi : Entry Rat)
    (hlo : lastAtOrBefore h t = some lo) (hhi : firstAtOrAfter h t = some hi) :
    specAnswer k h t = .ok (match k with
      | .next => hi.v
      | .prev => lo.v
      | .linear => if lo.t = hi.t then lo.v
                   else lo.v + ((t - lo.t : Int) : Rat) / ((hi.t - lo.t : Int) : Rat) * (hi.v - lo.v)
      | .step pos => if lo.t = hi.t then lo.v
                     else if ((t - lo.t : Int) : Rat) / ((hi.t - lo.t : Int) : Rat) > pos then hi.v else lo.v) := by
  simp only [specAnswer, specVal, hlo, hhi]
  cases k <;> rfl

/-- non-vacuity: an irregular history with requests on, between and across several publications,
    with evictions; the precondition holds and the answers are real values / the error -/
def exEvs : List Ev := [.push 0 1, .pull 0, .push 4 3, .push 6 11, .pull 1, .pull 5, .push 16 (-9),
                        .pull 6, .pull 11, .pull 17, .pull 16]
example :
    preAllB .linear TA.init exEvs = true ∧
    (runFinal .linear TA.init exEvs).buf.length = 1 ∧
    (runBoth .linear TA.init exEvs).filterMap (·.1) =
      [.ok 1, .ok (3/2), .ok 7, .ok 11, .ok 1, .error .timeErr, .ok (-9)] := by decide +kernel
example :
    preAllB (.step (1/4)) TA.init exEvs = true ∧
    (runBoth (.step (1/4)) TA.init exEvs).filterMap (·.1) =
      [.ok 1, .ok 1, .ok 11, .ok 11, .ok (-9), .error .timeErr, .ok (-9)] ∧
    (runBoth .next TA.init exEvs).filterMap (·.1) =
      [.ok 1, .ok 3, .ok 11, .ok 11, .ok (-9), .error .timeErr, .ok (-9)] ∧
    (runBoth .prev TA.init exEvs).filterMap (·.1) =
      [.ok 1, .ok 1, .ok 3, .ok 11, .ok 11, .error .timeErr, .ok (-9)] := by decide +kernel

/-! ### Exactness at publication times -/

theorem brackets_at_publication {α} : ∀ (h : List (Entry α)) (e : Entry α), Sorted h → e ∈ h →
    lastAtOrBefore h e.t = some e ∧ firstAtOrAfter h e.t = some e := by
  intro h
  induction h with
  | nil => intro e _ he; cases he
  | cons a l ih =>
    intro e hs he
    rw [lastAtOrBefore_cons, firstAtOrAfter_cons]
    cases he with
    | head =>
      have := lastAtOrBefore_none a l a.t hs (by omega)
      simp [this]
    | tail _ he' =>
      have hlt := sorted_head_lt l a hs e he'
      obtain ⟨h1, h2⟩ := ih e (sorted_tail hs) he'
      have hn : ¬ e.t ≤ a.t := by omega
      have hy : a.t ≤ e.t := by omega
      simp [hn, hy, h1, h2]

/-- the definition returns the published value exactly at publication times, for every kind -/
theorem spec_exact_at_publication (k : Kind) (h : List (Entry Rat)) (e : Entry Rat)
    (hs : Sorted h) (he : e ∈ h) : specAnswer k h e.t = .ok e.v := by
  obtain ⟨h1, h2⟩ := brackets_at_publication h e hs he
  simp only [specAnswer, specVal, h1, h2, specOf_same]

/-- **C11, exactness.** In every reachable state (any admissible history `evs`), a request exactly at
    the time of a publication `e` of the full history — not yet overtaken by an earlier request —
    is answered with the published value, by all four adapters. -/
theorem exact_at_publication (k : Kind) (evs : List Ev) (h : preAllB k TA.init evs = true)
    (e : Entry Rat) :
    let s := runFinal k TA.init evs
    e ∈ s.hist → preB s (.pull e.t) = true → (stepImpl k s (.pull e.t)).2 = some (.ok e.v) := by
  intro s he hp
  have hi : Inv s := inv_run k evs _ init_inv h
  rw [answers_agree k s hi _ (pre_of_preB s _ hp)]
  simp only [answerSpec]
  rw [spec_exact_at_publication k s.hist e hi.sorted he]

example : (stepImpl .linear (runFinal .linear TA.init (exEvs.take 6)) (.pull 6)).2 = some (.ok 11) := by decide +kernel

/-! ### No extrapolation -/

theorem lastE_append {α} : ∀ (p : List (Entry α)) (x e : Entry α) (r : List (Entry α)),
    lastE x (p ++ e :: r) = lastE e r := by
  intro p
  induction p with
  | nil => intro x e r; rfl
  | cons a p ih => intro x e r; simp only [List.cons_append, lastE]; exact ih a e r

/-- **C11, no extrapolation.** In every reachable state with at least one publication, a request
    later than the newest publication or earlier than the oldest one raises a time error, for all
    four adapters (whatever has been requested before). -/
theorem out_of_range_timeErr (k : Kind) (evs : List Ev) (h : preAllB k TA.init evs = true) (t : Int) :
    let s := runFinal k TA.init evs
    (∃ e0 es, s.hist = e0 :: es ∧ (t < e0.t ∨ (lastE e0 es).t < t)) →
    (stepImpl k s (.pull t)).2 = some (.error .timeErr) := by
  intro s ⟨e0, es, hh, hout⟩
  have hi : Inv s := inv_run k evs _ init_inv h
  obtain ⟨p, hp1⟩ := hi.suffix
  have hne : s.buf ≠ [] := by
    rcases hi.guard with hg | ⟨hne, _⟩
    · rw [← hg, hh]; simp
    · exact hne
  obtain ⟨b, r, hr⟩ : ∃ b r, s.buf = b :: r := by
    cases hb : s.buf with
    | nil => exact absurd hb hne
    | cons b r => exact ⟨b, r, rfl⟩
  -- the buffer's newest entry is the history's newest entry, its oldest is not older than the history's
  have hlast : (lastE b r).t = (lastE e0 es).t := by
    rw [hr] at hp1
    cases p with
    | nil => simp only [List.nil_append] at hp1; rw [hh] at hp1; cases hp1; rfl
    | cons a p' =>
      rw [hh] at hp1; simp only [List.cons_append] at hp1
      cases hp1
      rw [lastE_append]
  have hfirst : e0.t ≤ b.t := by
    rw [hr, hh] at hp1
    cases p with
    | nil => simp only [List.nil_append] at hp1; cases hp1; omega
    | cons a p' =>
      simp only [List.cons_append] at hp1
      cases hp1
      have hsrt := hi.sorted
      rw [hh] at hsrt
      have := sorted_mid_lt p' e0 b r hsrt
      omega
  have : getData k s.buf t = .error .timeErr := by
    rw [hr]
    simp only [getData, checkRange]
    by_cases h1 : t > (lastE b r).t
    · simp [h1]
    · have : t < b.t := by omega
      simp [h1, this]
  simp only [stepImpl, this]

example : (stepImpl .prev (runFinal .prev TA.init exEvs) (.pull 17)).2 = some (.error .timeErr) ∧
    (stepImpl .prev (runFinal .prev TA.init exEvs) (.pull (-1))).2 = some (.error .timeErr) := by decide +kernel

/-! ### Discarding buffer entries never changes a later result -/

/-- **C11, eviction (one step).** On any strictly increasing buffer, running `_clear_cached_data` for a
    request at `m` leaves the answer — value or error — to every request at or after `m` unchanged. -/
theorem cache_evict_invariant (k : Kind) (d : List (Entry Rat)) (m t : Int) (hs : Sorted d) (ht : m ≤ t) :
    getData k (clear d m) t = getData k d t := clear_getData k d m t hs ht

/-- after a served request at `m` only the bracketing entry is kept in front: everything behind the
    head of the buffer is newer than `m` (the buffer does not grow with the number of requests) -/
theorem clear_tail_gt {α} (d : List (Entry α)) (m : Int) (hs : Sorted d) :
    ∀ e ∈ (clear d m).tail, m < e.t := by
  fun_induction clear d m with
  | case1 e0 e1 es m h ih => exact ih hs.2
  | case2 e0 e1 es m h =>
    intro e he
    simp only [List.tail_cons] at he
    cases he with
    | head => omega
    | tail _ he' => have := sorted_head_lt es e1 hs.2 e he'; omega
  | case3 d m hd =>
    intro e he
    cases d with
    | nil => simp at he
    | cons a d' =>
      cases d' with
      | nil => simp at he
      | cons b d'' => exact absurd rfl (hd a b d'')

example : clear ([⟨0, 1⟩, ⟨4, 3⟩, ⟨6, 11⟩, ⟨16, 2⟩] : List (Entry Rat)) 6 = [⟨6, 11⟩, ⟨16, 2⟩] ∧
    getData .linear (clear ([⟨0, 1⟩, ⟨4, 3⟩, ⟨6, 11⟩, ⟨16, 2⟩] : List (Entry Rat)) 6) 11 = .ok (13/2) := by decide +kernel

end Finam.Props.C11
