import FinamModel.Props.TrInfo
import FinamModel.Translated.Output_get_info
import FinamModel.Translated.Input_exchange_info
/-!
  C07 — the producer's side of the metadata exchange, on the *translated* `Output.get_info` (`sdk/output.py`,
  regenerated on every run; it calls the translated `Info.accepts`).

  The output's `Info` is read as flat fields: grid, time, mask, units and the metadata dict (keys as identifiers, in
  dict order).  Statements here are made directly about the regenerated definition: what a successful exchange leaves
  behind (no unset field, open fields filled from the request and only from the request, set fields untouched, one
  exchange counted), and when it is refused with a metadata error.
-/
namespace Finam.Props.C07
open Finam Finam.Py

/-- the loop `for k, v in self._output_info.meta.items(): if v is None: …` as a function of the request's metadata:
    set entries stay, open entries take the request's value, an open entry the request cannot fill is an error -/
def fillSpec (req : List (Nat × Option Nat)) : List (Nat × Option Nat) → Except Err (List (Nat × Option Nat))
  | [] => .ok []
  | (k, some v) :: rest => (fillSpec req rest).map ((k, some v) :: ·)
  | (k, none) :: rest =>
    match dictGet? req k with
    | some (some x) => (fillSpec req rest).map ((k, some x) :: ·)
    | _ => .error .metaErr

theorem dictSet_append {ν} (done rest : List (Nat × ν)) (k : Nat) (v v' : ν) (hk : ∀ p ∈ done, p.1 ≠ k) :
    dictSet (done ++ (k, v) :: rest) k v' = done ++ (k, v') :: rest := by
  induction done with
  | nil => simp [dictSet]
  | cons p done ih =>
    obtain ⟨k', w⟩ := p
    have hne : k' ≠ k := hk (k', w) List.mem_cons_self
    simp only [List.cons_append, dictSet, hne, if_false]
    rw [ih (fun q hq => hk q (List.mem_cons_of_mem _ hq))]

theorem dictHas_get? {ν} (d : List (Nat × ν)) (k : Nat) : dictHas d k = (dictGet? d k).isSome := by
  induction d with
  | nil => rfl
  | cons p d ih =>
    obtain ⟨k', w⟩ := p
    by_cases h : k' = k <;> simp [dictHas, dictGet?, h] at ih ⊢
    exact ih

theorem dictGet_get? {ν} (d : List (Nat × ν)) (k : Nat) :
    dictGet d k = match dictGet? d k with | some v => .ok v | none => .error .other := by
  induction d with
  | nil => rfl
  | cons p d ih =>
    obtain ⟨k', w⟩ := p
    by_cases h : k' = k <;> simp [dictGet, dictGet?, h, ih]

/-- the translated loop is `fillSpec`, for a metadata dict without repeated keys -/
theorem get_info_loop (g : Option Nat) (t : Option Int) (m : Option Int) (u : Option Nat) (ex : Int) (ig : Option Nat)
    (im : Option Int) (iu : Option Nat) (req : List (Nat × Option Nat)) (gc : Nat → Option Nat → Bool) (uc : Nat → Nat → Bool)
    (me : Option Int → Option Int → Option Nat → Option Nat → Except Err Bool) :
    ∀ (its done : List (Nat × Option Nat)), ((done ++ its).map Prod.fst).Nodup →
      Tr.Output_get_info.loop3 g t m u (done ++ its) ex ig im iu req gc uc me its = (fillSpec req its).map (done ++ ·) := by
  intro its
  induction its with
  | nil => intro done _; unfold Tr.Output_get_info.loop3; simp [fillSpec, Except.map, pure, Except.pure]
  | cons p its ih =>
    intro done hnd
    obtain ⟨k, v⟩ := p
    have hnd' : ((done ++ [(k, v)] ++ its).map Prod.fst).Nodup := by simpa using hnd
    have hk : ∀ q ∈ done, q.1 ≠ k := by
      intro q hq hqk
      have : (done.map Prod.fst ++ k :: its.map Prod.fst).Nodup := by simpa using hnd
      have h2 := (List.nodup_append.mp this).2.2 q.1 (List.mem_map_of_mem hq) k List.mem_cons_self
      exact h2 hqk
    unfold Tr.Output_get_info.loop3
    cases v with
    | some x =>
      have := ih (done ++ [(k, some x)]) hnd'
      simp only [List.append_assoc, List.singleton_append] at this
      simp only [Option.isNone_some, Bool.false_eq_true, if_false, this, fillSpec]
      cases fillSpec req its <;> simp [Except.map]
    | none =>
      simp only [Option.isNone_none, if_true, dictHas_get?, dictGet_get?, fillSpec]
      cases hq : dictGet? req k with
      | none => simp [Except.map]
      | some y =>
        cases y with
        | none => simp [bind, Except.bind, Except.map]
        | some z =>
          have hset := dictSet_append done its k (none : Option Nat) (some z) hk
          have := ih (done ++ [(k, some z)]) (by simpa using hnd)
          simp only [List.append_assoc, List.singleton_append] at this
          simp [bind, Except.bind, hset, this]
          cases fillSpec req its <;> simp [Except.map]

/-- the outcome of `Output.get_info` on the flat fields -/
structure GetInfoOut where
  exchanged : Int
  grid : Option Nat
  md : List (Nat × Option Nat)
  time : Option Int

/-- **`Output.get_info` on the code**: for an output that holds an info whose metadata dict has no repeated keys,
    the regenerated function
    * refuses a request its info does not accept (`Info.accepts`, the translated one, with `incoming_donwstream=True`)
      with a metadata error, leaving nothing changed;
    * otherwise fills an open grid / time / metadata entry from the request — a metadata error when the request leaves
      it open too (the time of a static output may stay open) —, leaves set fields as they are, and counts one exchange. -/
theorem code_get_info (g : Option Nat) (t : Option Int) (m : Option Int) (u : Option Nat) (md : List (Nat × Option Nat))
    (static : Bool) (ex : Int) (ig : Option Nat) (it : Option Int) (im : Option Int) (iu : Option Nat)
    (req : List (Nat × Option Nat)) (gc : Nat → Option Nat → Bool) (uc : Nat → Nat → Bool)
    (me : Option Int → Option Int → Option Nat → Option Nat → Except Err Bool) (acc : Bool)
    (hacc : Tr.Info_accepts g m u true ig im iu gc uc me = .ok acc) (hnd : (md.map Prod.fst).Nodup) :
    Tr.Output_get_info true g t m u md static ex ig it im iu req gc uc me =
      if acc = false then .error .metaErr
      else if g.isNone ∧ ig.isNone then .error .metaErr
      else if t.isNone ∧ static = false ∧ it.isNone then .error .metaErr
      else (fillSpec req md).map fun md' =>
        (ex + 1, (if g.isNone then ig else g), md', (if t.isNone then it else t)) := by
  have hloop := fun t' g' => get_info_loop g' t' m u ex ig im iu req gc uc me md [] (by simpa using hnd)
  simp only [List.nil_append] at hloop
  unfold Tr.Output_get_info Tr.Output_get_info.join1 Tr.Output_get_info.join2
  simp only [hacc, bind, Except.bind]
  cases acc <;> cases g <;> cases ig <;> cases t <;> cases it <;> cases static <;>
    simp [hloop, bind, Except.bind, pure, Except.pure, Except.map] <;>
    (cases fillSpec req md <;> simp)

/-- what `fillSpec` leaves: no open entry, the same keys in the same order, set entries unchanged -/
theorem fillSpec_complete (req : List (Nat × Option Nat)) : ∀ (md r : List (Nat × Option Nat)),
    fillSpec req md = .ok r →
    r.map Prod.fst = md.map Prod.fst ∧ (∀ p ∈ r, p.2.isSome) ∧
    (∀ k v, (k, some v) ∈ md → (k, some v) ∈ r) := by
  intro md
  induction md with
  | nil => intro r h; simp [fillSpec] at h; subst h; simp
  | cons p md ih =>
    intro r h
    obtain ⟨k, v⟩ := p
    cases v with
    | some x =>
      simp only [fillSpec] at h
      cases hr : fillSpec req md with
      | error e => simp [hr, Except.map] at h
      | ok r' =>
        simp [hr, Except.map] at h
        subst h
        obtain ⟨h1, h2, h3⟩ := ih r' hr
        refine ⟨by simp [h1], ?_, ?_⟩
        · intro q hq; rcases List.mem_cons.mp hq with hq | hq
          · subst hq; rfl
          · exact h2 q hq
        · intro k' v' hm; rcases List.mem_cons.mp hm with hm | hm
          · cases hm; exact List.mem_cons_self
          · exact List.mem_cons_of_mem _ (h3 k' v' hm)
    | none =>
      simp only [fillSpec] at h
      cases hq : dictGet? req k with
      | none => simp [hq] at h
      | some y =>
        cases y with
        | none => simp [hq] at h
        | some z =>
          simp only [hq] at h
          cases hr : fillSpec req md with
          | error e => simp [hr, Except.map] at h
          | ok r' =>
            simp [hr, Except.map] at h
            subst h
            obtain ⟨h1, h2, h3⟩ := ih r' hr
            refine ⟨by simp [h1], ?_, ?_⟩
            · intro q hq; rcases List.mem_cons.mp hq with hq | hq
              · subst hq; rfl
              · exact h2 q hq
            · intro k' v' hm; rcases List.mem_cons.mp hm with hm | hm
              · cases hm
              · exact List.mem_cons_of_mem _ (h3 k' v' hm)

/-- **C07 on the code, producer side — no unset field after a successful exchange** (the time of a static output
    excepted), set fields untouched, exactly one exchange counted -/
theorem code_get_info_complete (g : Option Nat) (t : Option Int) (m : Option Int) (u : Option Nat)
    (md : List (Nat × Option Nat)) (static : Bool) (ex : Int) (ig : Option Nat) (it : Option Int) (im : Option Int)
    (iu : Option Nat) (req : List (Nat × Option Nat)) (gc : Nat → Option Nat → Bool) (uc : Nat → Nat → Bool)
    (me : Option Int → Option Int → Option Nat → Option Nat → Except Err Bool) (acc : Bool)
    (hacc : Tr.Info_accepts g m u true ig im iu gc uc me = .ok acc) (hnd : (md.map Prod.fst).Nodup)
    (ex' : Int) (g' : Option Nat) (md' : List (Nat × Option Nat)) (t' : Option Int)
    (h : Tr.Output_get_info true g t m u md static ex ig it im iu req gc uc me = .ok (ex', g', md', t')) :
    acc = true ∧ ex' = ex + 1 ∧ g'.isSome ∧ (static = false → t'.isSome) ∧ (∀ p ∈ md', p.2.isSome) ∧
    (g.isSome → g' = g) ∧ (t.isSome → t' = t) ∧ (∀ k v, (k, some v) ∈ md → (k, some v) ∈ md') := by
  rw [code_get_info g t m u md static ex ig it im iu req gc uc me acc hacc hnd] at h
  cases acc with
  | false => simp at h
  | true =>
    simp only [Bool.true_eq_false, if_false] at h
    by_cases h1 : g.isNone ∧ ig.isNone
    · simp [h1] at h
    · simp only [h1, if_false] at h
      by_cases h2 : t.isNone ∧ static = false ∧ it.isNone
      · simp [h2] at h
      · simp only [h2, if_false] at h
        cases hf : fillSpec req md with
        | error e => simp [hf, Except.map] at h
        | ok r =>
          simp only [hf, Except.map, Except.ok.injEq, Prod.mk.injEq] at h
          obtain ⟨he, hg, hm, ht⟩ := h
          obtain ⟨_, hall, hkeep⟩ := fillSpec_complete req md r hf
          subst hm
          refine ⟨rfl, he.symm, ?_, ?_, hall, ?_, ?_, hkeep⟩
          · subst hg; cases g <;> cases ig <;> simp at h1 ⊢
          · intro hs; subst ht; cases t <;> cases it <;> simp [hs] at h2 ⊢
          · intro hs; subst hg; cases g <;> simp at hs ⊢
          · intro hs; subst ht; cases t <;> simp at hs ⊢

/-- non-vacuity: an output with open grid and one open metadata entry, a request that provides both -/
example : Tr.Output_get_info true none (some 0) (some (-1)) (some 7) [(0, some 7), (1, none)] false 0
    (some 3) (some 5) (some (-1)) (some 7) [(0, some 7), (1, some 9)] (fun _ _ => true) (fun _ _ => true) (meq ⟨fun _ _ => true, fun _ _ => true, fun _ _ => true, fun _ _ => true, fun _ _ _ _ => true, fun _ _ => true, 0, id⟩)
    = .ok (1, some 3, [(0, some 7), (1, some 9)], some 0) := by decide

/-! ### the consumer's side: `Input.exchange_info` -/

open Finam.Info in
/-- **`Input.exchange_info`** (the gate of it; building the merged info is `mergeInfo` of the hand model): an input
    exchanges at most once; its metadata come either from the constructor or with the call, never from both and never
    from neither; the source's answer is tested with `accepts` in the *upstream* direction; only then is the input
    marked as exchanged.  `own` = the metadata in effect, `src` = what the source answered. -/
theorem tr_Input_exchange_info (R : Rel) (exchanged hasInfo given : Bool) (own src : Info) :
    Tr.Input_exchange_info exchanged hasInfo given own.grid (mcode own.mask) own.units src.grid (mcode src.mask) src.units
        (gcompat R) R.unitsCompat (meq R) =
      if exchanged then .error .metaErr
      else if hasInfo && given then .error .metaErr
      else if !hasInfo && !given then .error .metaErr
      else if !accepts R own src false then .error .metaErr
      else .ok true := by
  unfold Tr.Input_exchange_info Tr.Input_exchange_info.join1
  rw [tr_Info_accepts]
  cases exchanged <;> cases hasInfo <;> cases given <;> cases accepts R own src false <;>
    simp [bind, Except.bind, pure, Except.pure, throw, throwThe, MonadExceptOf.throw]

open Finam.Info in
/-- the first part of the model's `exchange` is this gate (an `InState` always carries its own metadata, nothing is
    passed with the call) -/
theorem code_input_exchange_gate (R : Rel) (inp : InState) (src : Info) :
    Tr.Input_exchange_info inp.exchanged true false inp.info.grid (mcode inp.info.mask) inp.info.units
        src.grid (mcode src.mask) src.units (gcompat R) R.unitsCompat (meq R) =
      if inp.exchanged then .error .metaErr
      else if !accepts R inp.info src false then .error .metaErr
      else .ok true := by
  rw [tr_Input_exchange_info]
  cases inp.exchanged <;> simp

open Finam.Info in
/-- **an input exchanges at most once, on the code**: whatever the source answers, a second `exchange_info` is refused -/
theorem code_input_exchanges_once (R : Rel) (hasInfo given : Bool) (own src : Info) :
    Tr.Input_exchange_info true hasInfo given own.grid (mcode own.mask) own.units src.grid (mcode src.mask) src.units
        (gcompat R) R.unitsCompat (meq R) = .error .metaErr := by
  rw [tr_Input_exchange_info]; rfl

end Finam.Props.C07
