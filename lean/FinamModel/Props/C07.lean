import FinamModel.InfoLemmas
/-!
  C07 — after connect both ends of every link agree on metadata; conflicts are rejected.

  Model: `FinamModel/Info.lean` (`accepts` = `Info.accepts`, `outputGetInfo` = `Output.get_info`,
  `chainGetInfo` = `Adapter.get_info` along a chain incl. the `_get_info` rewrites of `GridToValue`,
  `SumOverTime`, `ARegridding`, `exchange` = `Input.exchange_info`, `exchangeAll` = the exchanges of
  all consumers of one output in connect order).  Grid / units / mask relations are parameters.
-/
namespace Finam.Props.C07
open Finam Finam.Info

/-! ### completeness -/

/-- **After a successful exchange the input's metadata has no unset field** — for every adapter
    chain (identity, `GridToValue`, `SumOverTime`, regridding adapters in any order and state
    satisfying the adapter invariant, in particular freshly constructed ones), every producer
    and consumer info.  (`static = false`: a static output legitimately has no time;
    the producer's `mask` is one of FLEX / NONE / array, never `None`.) -/
theorem exchange_complete (R : Rel) (chain : List AState) (o : OutState) (inp inp' : InState)
    (chain' : List AState) (o' : OutState)
    (h : exchange R chain o inp = .ok (inp', chain', o'))
    (hs : o.static = false) (hm : ∀ oi, o.info = some oi → oi.mask.isSome) (hc : ChainInv chain) :
    Complete inp'.info ∧ inp'.exchanged = true ∧ ChainInv chain' := by
  obtain ⟨src, hsrc, _, rfl, _⟩ := exchange_ok R chain o inp inp' chain' o' h
  obtain ⟨c1, c2⟩ := chain_complete R chain o inp.info src chain' o' hsrc hs hm hc
  exact ⟨mergeInfo_complete src inp.info c1, rfl, c2⟩

/-! ### compatibility -/

/-- the consumer's mask requirement, read off `masks_compatible`: a flexible consumer takes
    anything, an unmasked one only unmasked data, a fixed mask only an equal mask -/
theorem mask_requirement_table (R : Rel) (cm : MaskSpec) (up : Option MaskSpec) (cg ug : Option Nat) :
    masksCompatible R (some cm) up false cg ug = true ↔
      match cm with
      | .flex => up.isSome = true
      | .none => up = some .none
      | .explicit k => ∃ j, up = some (.explicit j) ∧ R.maskEq k j cg ug = true := by
  cases cm <;> cases up with
  | none => simp [masksCompatible]
  | some u => cases u <;> simp [masksCompatible, maskSpecified, masksEqual]

/-- **After a successful exchange** the delivered info (`src`, what the source or the last adapter
    answered) is accepted by the consumer's declared info: the declared grid is compatible with
    the delivered grid, declared units are convertible from the delivered ones, the declared mask
    requirement is met; the final input info is the delivered info overridden by the consumer's
    set fields, so its grid is the declared (compatible) one or the delivered one itself. -/
theorem exchange_compatible (R : Rel) (chain : List AState) (o : OutState) (inp inp' : InState)
    (chain' : List AState) (o' : OutState)
    (h : exchange R chain o inp = .ok (inp', chain', o')) :
    ∃ src, inp'.delivered = some src ∧ inp'.info = mergeInfo src inp.info ∧
      (∀ g, inp.info.grid = some g → ∃ d, src.grid = some d ∧ R.gridCompat g d = true) ∧
      (∀ u, inp.info.units = some u → ∃ d, src.units = some d ∧ R.unitsCompat u d = true) ∧
      (∀ m, inp.info.mask = some m → masksCompatible R (some m) src.mask false inp.info.grid src.grid = true) ∧
      (∀ g, inp'.info.grid = some g → ∃ d, src.grid = some d ∧ (g = d ∨ R.gridCompat g d = true)) := by
  obtain ⟨src, _, hacc, rfl, _⟩ := exchange_ok R chain o inp inp' chain' o' h
  simp only [accepts, Bool.and_eq_true] at hacc
  obtain ⟨⟨hg, hmk⟩, hu⟩ := hacc
  have hgrid : ∀ g, inp.info.grid = some g → ∃ d, src.grid = some d ∧ R.gridCompat g d = true := by
    intro g hgg
    simp only [hgg, Bool.false_and, Bool.or_false] at hg
    cases hd : src.grid with
    | none => simp [hd] at hg
    | some d => exact ⟨d, rfl, by simpa [hd] using hg⟩
  refine ⟨src, rfl, rfl, hgrid, ?_, ?_, ?_⟩
  · intro u huu
    simp only [huu] at hu
    cases hd : src.units with
    | none => simp [hd] at hu
    | some d => exact ⟨d, rfl, by simpa [hd] using hu⟩
  · intro m hmm
    simpa [hmm] using hmk
  · intro g hgg
    simp only [mergeInfo] at hgg
    cases hown : inp.info.grid with
    | some g0 =>
      rw [hown, pick_some] at hgg
      cases hgg
      obtain ⟨d, hd, hc⟩ := hgrid g hown
      exact ⟨d, hd, Or.inr hc⟩
    | none =>
      rw [hown, pick_none] at hgg
      exact ⟨g, hgg, Or.inl rfl⟩

/-! ### filling in both directions -/

/-- **Fields left unset on one side carry the other side's values.**  Consumer side (any chain):
    unset time / grid / units are the delivered ones, set fields are kept, the mask is the delivered
    one.  Producer side (chains that do not rewrite metadata, any length): unset time / grid / units /
    extra entries are those of the requesting consumer, set fields are kept, and the exchange is counted. -/
theorem exchange_fills_both_ways (R : Rel) (chain : List AState) (o : OutState) (inp inp' : InState)
    (chain' : List AState) (o' : OutState)
    (h : exchange R chain o inp = .ok (inp', chain', o')) :
    (∃ src, inp'.delivered = some src ∧
      inp'.info.time = pick inp.info.time src.time ∧ inp'.info.grid = pick inp.info.grid src.grid ∧
      inp'.info.units = pick inp.info.units src.units ∧ inp'.info.mask = src.mask) ∧
    (allIdentity chain → ∃ oi r, o.info = some oi ∧ o'.info = some r ∧ o'.exchanged = o.exchanged + 1 ∧
      r.time = pick oi.time inp.info.time ∧ r.grid = pick oi.grid inp.info.grid ∧
      r.units = pick oi.units inp.info.units ∧ r.mask = oi.mask ∧
      (∀ k v, (k, some v) ∈ oi.extra → (k, some v) ∈ r.extra) ∧
      (∀ k, (k, none) ∈ oi.extra → ∃ x, inp.info.extra.lookup k = some (some x) ∧ (k, some x) ∈ r.extra)) := by
  obtain ⟨src, hsrc, _, rfl, _⟩ := exchange_ok R chain o inp inp' chain' o' h
  refine ⟨⟨src, rfl, rfl, rfl, rfl, rfl⟩, ?_⟩
  intro hid
  have ho := chain_identity_ok R chain o inp.info src chain' o' hid hsrc
  obtain ⟨oi, hoi, _, ht, _, hg, _, hu, _, hmask, hex, rfl⟩ := outputGetInfo_ok R o inp.info src o' ho
  obtain ⟨_, _, f3, f4⟩ := fillMeta_ok _ _ _ hex
  exact ⟨oi, src, hoi, rfl, rfl, ht, hg, hu, hmask, f3, f4⟩

example : pick (none : Option Nat) (some 3) = some 3 ∧ pick (some 1) (some 3) = some 1 := ⟨rfl, rfl⟩

/-! ### conflicts -/

/-- on a link that does not rewrite metadata the consumer's request reaches the output unchanged
    and the answer the consumer tests is the output's filled info -/
theorem identity_exchange_error (R : Rel) (chain : List AState) (o : OutState) (inp : InState) (oi : Info)
    (hid : allIdentity chain) (hoi : o.info = some oi) (hx : inp.exchanged = false)
    (hbad : accepts R oi inp.info true = false ∨
      ∀ r o', outputGetInfo R o inp.info = .ok (r, o') → accepts R inp.info r false = false) :
    exchange R chain o inp = .error .metaErr := by
  simp only [exchange, hx, Bool.false_eq_true, if_false]
  cases ho : outputGetInfo R o inp.info with
  | error e =>
    have := outputGetInfo_error R o inp.info oi e hoi ho; subst this
    rw [chain_identity_of_error R chain o inp.info _ hid ho]
  | ok p =>
    obtain ⟨r, o2⟩ := p
    obtain ⟨c', hc⟩ := chain_identity_of_ok R chain o inp.info r o2 hid ho
    rw [hc]
    rcases hbad with hb | hb
    · rw [outputGetInfo_reject R o inp.info oi hoi hb] at ho; cases ho
    · simp [hb r o2 ho]

/-- **Incompatible ends are rejected with a metadata error** (links of any length that do not rewrite
    metadata): both ends name a grid and one of the two compatibility tests fails, or both name
    units that are not convertible, or the consumer's mask requirement is not met by the producer's
    mask.  Nothing is stored on the input: its `exchanged` flag stays unset, so no data can be pulled. -/
theorem conflict_rejected (R : Rel) (chain : List AState) (o : OutState) (inp : InState) (oi : Info)
    (hid : allIdentity chain) (hoi : o.info = some oi) (hx : inp.exchanged = false) :
    (∀ g h, inp.info.grid = some g → oi.grid = some h →
      (R.gridCompat h g = false ∨ R.gridCompat g h = false) → exchange R chain o inp = .error .metaErr) ∧
    (∀ u v, inp.info.units = some u → oi.units = some v →
      (R.unitsCompat v u = false ∨ R.unitsCompat u v = false) → exchange R chain o inp = .error .metaErr) ∧
    (∀ cm pm, inp.info.mask = some cm → oi.mask = some pm →
      masksCompatible R (some cm) (some pm) false inp.info.grid (pick oi.grid inp.info.grid) = false →
      exchange R chain o inp = .error .metaErr) := by
  refine ⟨?_, ?_, ?_⟩
  · intro g h hg hh hbad
    apply identity_exchange_error R chain o inp oi hid hoi hx
    rcases hbad with hb | hb
    · left; simp [accepts, hh, hg, hb]
    · right
      intro r o' hr
      obtain ⟨oi', hoi', _, _, _, hgr, _⟩ := outputGetInfo_ok R o inp.info r o' hr
      rw [hoi] at hoi'; cases hoi'
      simp [accepts, hg, hgr, hh, pick, hb]
  · intro u v hu hv hbad
    apply identity_exchange_error R chain o inp oi hid hoi hx
    rcases hbad with hb | hb
    · left; simp [accepts, hv, hu, hb]
    · right
      intro r o' hr
      obtain ⟨oi', hoi', _, _, _, _, _, hur, _⟩ := outputGetInfo_ok R o inp.info r o' hr
      rw [hoi] at hoi'; cases hoi'
      simp [accepts, hu, hur, hv, pick, hb]
  · intro cm pm hcm hpm hbad
    apply identity_exchange_error R chain o inp oi hid hoi hx
    right
    intro r o' hr
    obtain ⟨oi', hoi', _, _, _, hgr, _, _, _, hmr, _⟩ := outputGetInfo_ok R o inp.info r o' hr
    rw [hoi] at hoi'; cases hoi'
    simp [accepts, hcm, hmr, hpm, hgr, hbad]

/-- **The second target is checked against what the first one fixed.**  An output without grid takes
    the grid of the first requesting consumer; a later consumer whose grid is not compatible with it
    is rejected (both links of any length, not rewriting metadata). -/
theorem second_target_checked (R : Rel) (c1 c2 : List AState) (o o1 : OutState) (i1 i1' i2 : InState)
    (c1' : List AState) (oi : Info) (g1 g2 : Nat)
    (hid1 : allIdentity c1) (hid2 : allIdentity c2)
    (hoi : o.info = some oi) (hnone : oi.grid = none)
    (h1 : exchange R c1 o i1 = .ok (i1', c1', o1))
    (hg1 : i1.info.grid = some g1) (hg2 : i2.info.grid = some g2) (hx : i2.exchanged = false)
    (hbad : R.gridCompat g1 g2 = false ∨ R.gridCompat g2 g1 = false) :
    (∃ r, o1.info = some r ∧ r.grid = some g1) ∧ exchange R c2 o1 i2 = .error .metaErr := by
  obtain ⟨_, hprod⟩ := exchange_fills_both_ways R c1 o i1 i1' c1' o1 h1
  obtain ⟨oi', r, hoi', hr, _, _, hgr, _⟩ := hprod hid1
  rw [hoi] at hoi'; cases hoi'
  rw [hnone, pick_none, hg1] at hgr
  exact ⟨⟨r, hr, hgr⟩, (conflict_rejected R c2 o1 i2 r hid2 hr hx).1 g2 g1 hg2 hgr hbad⟩

/-- the same for units -/
theorem second_target_units_checked (R : Rel) (c1 c2 : List AState) (o o1 : OutState) (i1 i1' i2 : InState)
    (c1' : List AState) (oi : Info) (u1 u2 : Nat)
    (hid1 : allIdentity c1) (hid2 : allIdentity c2)
    (hoi : o.info = some oi) (hnone : oi.units = none)
    (h1 : exchange R c1 o i1 = .ok (i1', c1', o1))
    (hu1 : i1.info.units = some u1) (hu2 : i2.info.units = some u2) (hx : i2.exchanged = false)
    (hbad : R.unitsCompat u1 u2 = false ∨ R.unitsCompat u2 u1 = false) :
    exchange R c2 o1 i2 = .error .metaErr := by
  obtain ⟨_, hprod⟩ := exchange_fills_both_ways R c1 o i1 i1' c1' o1 h1
  obtain ⟨oi', r, hoi', hr, _, _, _, hur, _⟩ := hprod hid1
  rw [hoi] at hoi'; cases hoi'
  rw [hnone, pick_none, hu1] at hur
  exact (conflict_rejected R c2 o1 i2 r hid2 hr hx).2.1 u2 u1 hu2 hur hbad

/-! ### rewriting adapters, one at a time (fresh state) -/

/-- `GridToValue` delivers the source's info on a `NoGrid` -/
theorem grid_to_value_delivers (R : Rel) (o o' : OutState) (req r : Info) (c' : List AState)
    (h : chainGetInfo R [{ kind := .gridToValue }] o req = .ok (r, c', o')) :
    r.grid = some R.noGrid ∧ ∃ s, outputGetInfo R o { req with grid := none } = .ok (s, o') ∧
      r.time = s.time ∧ r.units = s.units ∧ r.mask = s.mask ∧ r.extra = s.extra := by
  simp only [chainGetInfo] at h
  cases hmk : mkInfo R req with
  | error e => simp [hmk, Except.map] at h
  | ok i =>
    have := mkInfo_ok R _ _ hmk; subst this
    simp only [hmk, Except.map] at h
    cases ho : outputGetInfo R o { i with grid := none } with
    | error e => simp [ho] at h
    | ok p =>
      obtain ⟨s, o2⟩ := p
      simp only [ho] at h
      cases hm2 : mkInfo R s with
      | error e => simp [hm2] at h
      | ok j =>
        have := mkInfo_ok R _ _ hm2; subst this
        simp only [hm2, Except.ok.injEq, Prod.mk.injEq] at h
        obtain ⟨rfl, _, rfl⟩ := h
        exact ⟨rfl, j, rfl, rfl, rfl, rfl, rfl⟩

/-- `SumOverTime` asks the source without units and delivers the source's units times seconds -/
theorem sum_over_time_delivers (R : Rel) (o o' : OutState) (req r : Info) (c' : List AState)
    (h : chainGetInfo R [{ kind := .sumOverTime }] o req = .ok (r, c', o')) :
    ∃ s u, outputGetInfo R o { req with units := none } = .ok (s, o') ∧ s.units = some u ∧
      r.units = some (R.timesSecond u) ∧ r.grid = s.grid ∧ r.time = s.time ∧ r.mask = s.mask := by
  simp only [chainGetInfo] at h
  cases hmk : mkInfo R req with
  | error e => simp [hmk, Except.map] at h
  | ok i =>
    have := mkInfo_ok R _ _ hmk; subst this
    simp only [hmk, Except.map] at h
    cases ho : outputGetInfo R o { i with units := none } with
    | error e => simp [ho] at h
    | ok p =>
      obtain ⟨s, o2⟩ := p
      simp only [ho] at h
      cases hu : s.units with
      | none => simp [hu] at h
      | some u =>
        simp only [hu] at h
        cases hm2 : mkInfo R s with
        | error e => simp [hm2] at h
        | ok j =>
          have := mkInfo_ok R _ _ hm2; subst this
          simp only [hm2, Except.ok.injEq, Prod.mk.injEq] at h
          obtain ⟨rfl, _, rfl⟩ := h
          exact ⟨j, u, rfl, hu, rfl, rfl, rfl, rfl⟩

/-- a freshly constructed regridding adapter delivers the consumer's grid and mask and the source's
    time, units and extra entries; the source is asked without grid and mask -/
theorem regrid_delivers (R : Rel) (o o' : OutState) (req r : Info) (c' : List AState)
    (h : chainGetInfo R [{ kind := .regrid }] o req = .ok (r, c', o')) :
    r.grid = req.grid ∧ r.mask = req.mask ∧ r.grid.isSome ∧ r.mask.isSome ∧
    ∃ s, outputGetInfo R o { req with grid := none, mask := none } = .ok (s, o') ∧
      r.time = s.time ∧ r.units = s.units ∧ r.extra = s.extra := by
  simp only [chainGetInfo] at h
  cases hmk : mkInfo R req with
  | error e => simp [hmk, Except.map] at h
  | ok i =>
    have := mkInfo_ok R _ _ hmk; subst this
    simp only [hmk, Except.map] at h
    cases ho : outputGetInfo R o { i with grid := none, mask := none } with
    | error e => simp [ho] at h
    | ok p =>
      obtain ⟨s, o2⟩ := p
      simp only [ho] at h
      cases hr : regridAfter R { kind := .regrid } i s with
      | error e => simp [hr] at h
      | ok q =>
        obtain ⟨out, a2⟩ := q
        simp only [hr, Except.ok.injEq, Prod.mk.injEq] at h
        obtain ⟨rfl, _, rfl⟩ := h
        obtain ⟨g1, g2, g3, g4, g5, _, _, g8, g9⟩ := regridAfter_ok R _ a2 i s out hr (ainv_fresh .regrid)
        exact ⟨g8, g9 rfl rfl, g1, g2, s, rfl, g3, g4, g5⟩

/-! ### non-vacuity: a concrete relation and concrete exchanges -/

/-- grids 1 and 2 are two layouts of one grid, 3 another grid, 0 `NoGrid`; units 0 / 1 convertible, 2 not;
    explicit masks equal iff same id -/
def exR : Rel where
  gridCompat a b := a == b || (a == 1 && b == 2) || (a == 2 && b == 1)
  gridEq a b := a == b
  transformOk a b := a == b || (a == 1 && b == 2) || (a == 2 && b == 1)
  unitsCompat a b := (a == 2) == (b == 2)
  maskEq a b _ _ := a == b
  maskFits _ g := g != 0
  noGrid := 0
  timesSecond u := u + 100

def exOut : OutState := ⟨some ⟨none, none, some 0, some (.explicit 7), [("foo", none)]⟩, 0, false⟩
def exIn1 : InState := { info := ⟨some 5, some 1, some 1, some .flex, [("foo", some 9)]⟩ }
def exIn2 : InState := { info := ⟨none, some 2, none, some (.explicit 7), []⟩ }
def exIn3 : InState := { info := ⟨none, some 3, none, some .flex, []⟩ }

/-- two consumers, the first behind a `Scale`: everything unset on the producer comes from the first
    consumer, everything unset on a consumer from the producer; a third consumer on another grid is rejected -/
example :
    exchangeAll exR [(0, 0), (1, 0)] [⟨[{ kind := .identity }], [exIn1]⟩, ⟨[], [exIn2]⟩] exOut =
      .ok ([⟨[{ kind := .identity, inInfo := some ⟨some 5, some 1, some 0, some (.explicit 7), [("foo", some 9)]⟩,
                outInfo := some ⟨some 5, some 1, some 0, some (.explicit 7), [("foo", some 9)]⟩ }],
              [⟨⟨some 5, some 1, some 1, some (.explicit 7), [("foo", some 9)]⟩, true,
                some ⟨some 5, some 1, some 0, some (.explicit 7), [("foo", some 9)]⟩⟩]⟩,
            ⟨[], [⟨⟨some 5, some 2, some 0, some (.explicit 7), [("foo", some 9)]⟩, true,
                some ⟨some 5, some 1, some 0, some (.explicit 7), [("foo", some 9)]⟩⟩]⟩],
           ⟨some ⟨some 5, some 1, some 0, some (.explicit 7), [("foo", some 9)]⟩, 2, false⟩) ∧
    exchangeAll exR [(0, 0), (1, 0)] [⟨[], [exIn1]⟩, ⟨[], [exIn3]⟩] exOut = .error .metaErr ∧
    exchange exR [{ kind := .gridToValue }] ⟨some ⟨some 0, some 1, some 0, some .flex, []⟩, 0, false⟩
        { info := ⟨none, none, none, some .flex, []⟩ } =
      .ok (⟨⟨some 0, some 0, some 0, some .flex, []⟩, true, some ⟨some 0, some 0, some 0, some .flex, []⟩⟩,
           [{ kind := .gridToValue, inInfo := some ⟨some 0, some 1, some 0, some .flex, []⟩,
              outInfo := some ⟨some 0, some 0, some 0, some .flex, []⟩ }],
           ⟨some ⟨some 0, some 1, some 0, some .flex, []⟩, 1, false⟩) := by
  decide

end Finam.Props.C07
