import FinamModel.TimeAdapters
import FinamModel.PyPrelude
/-
  Lemmas shared by the equivalence proofs of the translated functions (`Props/Tr*.lean`): suffixes of an enumerated
  buffer, the last element, entries back and forth.  Nothing here depends on a generated file.
-/
namespace Finam.Props.C11
open Finam Finam.Py

/-- a suffix of the buffer, enumerated from `k`: its `j`-th element is `full[k + j]` -/
def SufAt {α} (full suf : List (Int × α)) (k : Int) : Prop :=
  ∀ (j : Nat) (x : Int × α), suf[j]? = some x → idx full (k + j) = .ok x

theorem sufAt_self {α} (d : List (Int × α)) : SufAt d d 0 := by
  intro j x h; simpa using idx_nat d j x h

theorem sufAt_tail {α} {full : List (Int × α)} {e suf k} (h : SufAt full (e :: suf) k) :
    SufAt full suf (k + 1) ∧ idx full (k + 1 - 1) = .ok e := by
  constructor
  · intro j x hj
    have := h (j + 1) x (by simpa using hj)
    have e1 : k + ((j + 1 : Nat) : Int) = k + 1 + (j : Int) := by omega
    rw [e1] at this; exact this
  · have := h 0 e (by simp)
    have e1 : k + 1 - 1 = k + ((0 : Nat) : Int) := by omega
    rw [e1]; exact this

/-- `data[-1]` of a non-empty list is `lastE` -/
theorem idx_last {α} (e0 : Int × α) (es : List (Int × α)) :
    idx (e0 :: es) (-1) = .ok ((TA.lastE ⟨e0.1, e0.2⟩ (toE es)).t, (TA.lastE ⟨e0.1, e0.2⟩ (toE es)).v) := by
  apply idx_neg_one
  induction es generalizing e0 with
  | nil => simp [TA.lastE]
  | cons e es ih =>
    have := ih e
    simp [TA.lastE, List.getLast?_cons_cons] at this ⊢
    exact this

theorem ofE_toE {α} (r : List (Int × α)) : List.map (fun e => (e.t, e.v)) (toE r) = r := by
  induction r with
  | nil => rfl
  | cons x r ih => simp [ih]

theorem sorted_suffix' {α} : ∀ (p r : List (Entry α)), Sorted (p ++ r) → Sorted r := by
  intro p
  induction p with
  | nil => intro r h; exact h
  | cons a p ih => intro r h; exact ih r (sorted_tail h)

end Finam.Props.C11
