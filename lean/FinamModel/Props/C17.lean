import FinamModel.UnitsLemmas
/-!
  C17 — units: compatibility is dimensional equality, conversion is physically exact, the memo
  does not make answers depend on the query history.

  Model: `FinamModel/Units.lean` (`cacheUnits` mirrors `_cache_units`, `cached` the dictionary
  `_UNIT_PAIRS_CACHE`, `toUnitsM` / `prepareM` / `linkM` the branches of `to_units`,
  `core.prepare`, and of a link `Output >> Input`; the `…Pure` functions are the same without memo).
  pint is a parameter: a unit is (dimension vector, factor, offset) and the catalogue is written
  independently of it; the correspondence run validates pint against the catalogue.
-/
namespace Finam.Props.C17
open Finam Finam.Units

/-! ### compatibility and equivalence -/

/-- **compatible ⇔ same physical dimension** (for every tolerance rule, every pair of units) -/
theorem compat_iff_same_dimension (close : Rat → Bool) (a b : U) :
    (cacheUnits close a b).1 = true ↔ a.dim = b.dim := by
  simp only [cacheUnits, pintTo]
  split <;> rename_i h <;> split at h <;> simp_all

theorem compatible_iff (a b : U) : compatible a b = true ↔ a.dim = b.dim :=
  compat_iff_same_dimension closeTol a b

/-- **equivalent ⇔ convertible and 1 maps to 1**, for a tolerance rule that is exact on the value
    at hand (`numpy.isclose` is exact on the catalogue: `catalogue_tolerance_exact`) -/
theorem equiv_iff_one_maps_to_one (close : Rat → Bool) (a b : U)
    (hclose : close (convert a b 1) = true ↔ convert a b 1 = 1) :
    equivalent close a b = true ↔ (a.dim = b.dim ∧ convert a b 1 = 1) := by
  simp only [equivalent, cacheUnits, pintTo]
  by_cases h : a.dim = b.dim
  · simp [h, hclose]
  · simp [h]

/-- the code's rule `numpy.isclose(x, 1.0)` decides `x = 1` for every ordered pair of the catalogue:
    no pair converts 1 into the tolerance band without hitting 1 -/
theorem catalogue_tolerance_exact :
    (catalogue.all fun p => catalogue.all fun q =>
      closeTol (convert p.2 q.2 1) == decide (convert p.2 q.2 1 = 1)) = true := by
  decide +kernel

/-- all factors of the catalogue are positive (conversions never divide by zero) -/
theorem catalogue_factors_pos : (catalogue.all fun p => decide (0 < p.2.factor)) = true := by
  decide +kernel

/-- equivalent catalogue units have the same factor and offset, i.e. relabelling is the conversion -/
theorem catalogue_equiv_same_scale :
    (catalogue.all fun p => catalogue.all fun q =>
      !(equivalent closeTol p.2 q.2) || (p.2.factor == q.2.factor && p.2.offset == q.2.offset)) = true := by
  decide +kernel

/-- the catalogue is large enough and its names are distinct -/
theorem catalogue_size : catalogue.length = 69 ∧ (catalogue.map (·.1)).Nodup := by
  decide +kernel

theorem equiv_catalogue (p q : String × U) (hp : p ∈ catalogue) (hq : q ∈ catalogue) :
    equivalent closeTol p.2 q.2 = true ↔ (p.2.dim = q.2.dim ∧ convert p.2 q.2 1 = 1) := by
  apply equiv_iff_one_maps_to_one
  have h := catalogue_tolerance_exact
  rw [List.all_eq_true] at h
  have h2 := h p hp
  rw [List.all_eq_true] at h2
  have h3 := h2 q hq
  simp only [beq_iff_eq] at h3
  rw [h3]; simp

example : compatible (kilo metre |>.div hour) (metre.div second) = true ∧
    compatible metre second = false ∧
    equivalent closeTol (litre.div metre.sq) (milli metre) = true ∧
    equivalent closeTol degC kelvin = false ∧ compatible degC degF = true ∧
    equivalent closeTol (one.scale (1 / 100)) one = false := by decide +kernel

/-! ### conversion -/

theorem convert_self (a : U) (v : Rat) (h : a.factor ≠ 0) : convert a a v = v := by
  simp only [convert]
  have : v * a.factor + a.offset - a.offset = v * a.factor := by grind
  rw [this]
  exact Rat.mul_div_cancel h

/-- **conversion composes**: going through an intermediate unit is the direct conversion -/
theorem convert_compose (a b c : U) (v : Rat) (hb : b.factor ≠ 0) :
    convert b c (convert a b v) = convert a c v := by
  simp only [convert]
  have : (v * a.factor + a.offset - b.offset) / b.factor * b.factor = v * a.factor + a.offset - b.offset :=
    Rat.div_mul_cancel hb
  rw [this]
  congr 1
  grind

/-- **round trip** -/
theorem convert_roundtrip (a b : U) (v : Rat) (ha : a.factor ≠ 0) (hb : b.factor ≠ 0) :
    convert b a (convert a b v) = v := by
  rw [convert_compose a b a v hb, convert_self a v ha]

/-- conversion is the affine map of dimensional analysis -/
theorem convert_affine (a b : U) (v : Rat) :
    convert a b v = v * (a.factor / b.factor) + (a.offset - b.offset) / b.factor := by
  simp only [convert]
  grind

/-- between units of the same scale (equal factor and offset) conversion changes nothing: relabelling
    equivalent catalogue units (`catalogue_equiv_same_scale`) is exact -/
theorem convert_same_scale (a b : U) (v : Rat) (hf : a.factor = b.factor) (ho : a.offset = b.offset)
    (hb : b.factor ≠ 0) : convert a b v = v := by
  simp only [convert, hf, ho]
  have : v * b.factor + b.offset - b.offset = v * b.factor := by grind
  rw [this]
  exact Rat.mul_div_cancel hb

example : convert degC degF (-40) = -40 ∧ convert degC kelvin 0 = 27315 / 100 ∧
    convert (kilo metre |>.div hour) (metre.div second) 36 = 10 ∧
    convert (milli metre |>.div day) (metre.div second) 86400000 = 1 ∧
    convert degF degC (convert degC degF 37) = 37 := by decide +kernel

/-! ### the memo -/

/-- **history independence.** For every query history (any mix of `compatible_units`,
    `equivalent_units`, `to_units`, `prepare`, links, `clear_units_cache`) started from a memo
    that satisfies the invariant, every answer is the answer of the unmemoised function, and the
    invariant is kept. -/
theorem memo_history_independent_inv {κ} [DecidableEq κ] (unitOf : κ → U) (close : Rat → Bool) :
    ∀ (ops : List (Op κ)) (c : Cache κ), Inv unitOf close c →
      (runMemo unitOf close c ops).1 = ops.map (stepPure unitOf close) ∧
      Inv unitOf close (runMemo unitOf close c ops).2 := by
  intro ops
  induction ops with
  | nil => intro c h; exact ⟨rfl, h⟩
  | cons op ops ih =>
    intro c h
    obtain ⟨e, h'⟩ := stepMemo_spec unitOf close h op
    obtain ⟨e2, h2⟩ := ih _ h'
    refine ⟨?_, ?_⟩
    · simp only [runMemo, List.map_cons, e, e2]
    · simpa only [runMemo] using h2

/-- **C17, last sentence**: from the empty memo (import time, or after `clear_units_cache`) the
    memoised answers of every history equal the unmemoised function. -/
theorem memo_history_independent {κ} [DecidableEq κ] (unitOf : κ → U) (close : Rat → Bool)
    (ops : List (Op κ)) :
    (runMemo unitOf close [] ops).1 = ops.map (stepPure unitOf close) :=
  (memo_history_independent_inv unitOf close ops [] (inv_nil unitOf close)).1

/-- two histories that end with the same call give the same answer to it -/
theorem same_call_same_answer {κ} [DecidableEq κ] (unitOf : κ → U) (close : Rat → Bool)
    (h1 h2 : List (Op κ)) (op : Op κ) :
    (runMemo unitOf close [] (h1 ++ [op])).1.getLast? = (runMemo unitOf close [] (h2 ++ [op])).1.getLast? := by
  rw [memo_history_independent, memo_history_independent]
  simp

def exUnit : Nat → U
  | 0 => metre | 1 => kilo metre | 2 => milli metre | 3 => litre.div metre.sq | 4 => second | _ => degC

example : (runMemo exUnit closeTol [] [.compat 0 1, .equiv 0 1, .equiv 0 0, .equiv 3 2, .toUnits 5 1 0 true,
      .toUnits 5 3 2 true, .prepare 7 (some 4) 0, .link 2 1 2 none, .clear, .equiv 0 1]) =
    ([.bool true, .bool false, .bool true, .bool true, .value 5000 0 (some (1, 0)), .value 5 2 none,
      .err .dataErr, .value 2000000 2 (some (1, 2)), .unit, .bool false],
     [((0, 1), (true, false))]) := by decide +kernel

/-! ### the branches of `to_units`, `prepare` and of a link -/

/-- **`prepare`: convert / keep / refuse.**  Plain data gets the info's units; quantified data
    with another dimension is refused with a data error; with the same dimension it is converted by
    factor and offset unless the units are equivalent, in which case the numbers are untouched. -/
theorem prepare_branches {κ} (unitOf : κ → U) (close : Rat → Bool) (v : Rat) (dst : κ) :
    preparePure unitOf close v none dst = .value v dst none ∧
    (∀ s, (unitOf s).dim ≠ (unitOf dst).dim → preparePure unitOf close v (some s) dst = .err .dataErr) ∧
    (∀ s, (unitOf s).dim = (unitOf dst).dim → equivalent close (unitOf s) (unitOf dst) = false →
      preparePure unitOf close v (some s) dst =
        .value (convert (unitOf s) (unitOf dst) v) dst (some (s, dst))) ∧
    (∀ s, (unitOf s).dim = (unitOf dst).dim → equivalent close (unitOf s) (unitOf dst) = true →
      preparePure unitOf close v (some s) dst = .value v s none) := by
  refine ⟨rfl, ?_, ?_, ?_⟩
  · intro s h
    have : (cacheUnits close (unitOf s) (unitOf dst)).1 = false := by
      cases hc : (cacheUnits close (unitOf s) (unitOf dst)).1 with
      | false => rfl
      | true => exact absurd ((compat_iff_same_dimension close _ _).mp hc) h
    simp [preparePure, this]
  · intro s h he
    have hc := (compat_iff_same_dimension close (unitOf s) (unitOf dst)).mpr h
    simp only [equivalent] at he
    simp [preparePure, hc, he]
  · intro s h he
    have hc := (compat_iff_same_dimension close (unitOf s) (unitOf dst)).mpr h
    simp only [equivalent] at he
    simp [preparePure, hc, he]

/-- **`to_units`: untouched / relabel / convert / refuse.** -/
theorem to_units_branches {κ} [DecidableEq κ] (unitOf : κ → U) (close : Rat → Bool) (v : Rat) (s d : κ) (chk : Bool) :
    (d = s → toUnitsPure unitOf close v s d chk = .value v s none) ∧
    (d ≠ s → chk = true → equivalent close (unitOf d) (unitOf s) = true →
      toUnitsPure unitOf close v s d chk = .value v d none) ∧
    (d ≠ s → (chk = false ∨ equivalent close (unitOf d) (unitOf s) = false) → (unitOf s).dim = (unitOf d).dim →
      toUnitsPure unitOf close v s d chk = .value (convert (unitOf s) (unitOf d) v) d (some (s, d))) ∧
    (d ≠ s → (chk = false ∨ equivalent close (unitOf d) (unitOf s) = false) → (unitOf s).dim ≠ (unitOf d).dim →
      toUnitsPure unitOf close v s d chk = .err .other) := by
  refine ⟨?_, ?_, ?_, ?_⟩
  · intro h; simp [toUnitsPure, h]
  · intro h hc he; simp [toUnitsPure, h, hc, he]
  · intro h hc hd
    have : (chk && equivalent close (unitOf d) (unitOf s)) = false := by
      rcases hc with hc | hc <;> simp [hc]
    simp [toUnitsPure, h, this, pintTo, hd]
  · intro h hc hd
    have : (chk && equivalent close (unitOf d) (unitOf s)) = false := by
      rcases hc with hc | hc <;> simp [hc]
    simp [toUnitsPure, h, this, pintTo, hd]

/-- a link between units of different dimension is refused with a metadata error, whatever is published -/
theorem link_refuses_incompatible {κ} [DecidableEq κ] (unitOf : κ → U) (close : Rat → Bool) (v : Rat) (a b : κ)
    (pub : Option κ) (h : (unitOf a).dim ≠ (unitOf b).dim) :
    linkPure unitOf close v a b pub = .err .metaErr := by
  have : (cacheUnits close (unitOf a) (unitOf b)).1 = false := by
    cases hc : (cacheUnits close (unitOf a) (unitOf b)).1 with
    | false => rfl
    | true => exact absurd ((compat_iff_same_dimension close _ _).mp hc) h
  simp [linkPure, this]

/-- publishing data of another dimension on a link is refused with a data error -/
theorem link_refuses_foreign_publication {κ} [DecidableEq κ] (unitOf : κ → U) (close : Rat → Bool) (v : Rat)
    (a b p : κ) (hab : (unitOf a).dim = (unitOf b).dim) (hp : (unitOf p).dim ≠ (unitOf a).dim) :
    linkPure unitOf close v a b (some p) = .err .dataErr := by
  have h1 := (compat_iff_same_dimension close (unitOf a) (unitOf b)).mpr hab
  have h2 := (compat_iff_same_dimension close (unitOf b) (unitOf a)).mpr hab.symm
  have h3 := (prepare_branches unitOf close v a).2.1 p hp
  simp [linkPure, h1, h2, h3]

/-- **value over a link.** Between compatible, non-equivalent units `a ≠ b` the consumer receives the
    published number converted by factor and offset, labelled with its own units. -/
theorem link_converts {κ} [DecidableEq κ] (unitOf : κ → U) (close : Rat → Bool) (v : Rat) (a b : κ)
    (hne : b ≠ a) (hab : (unitOf a).dim = (unitOf b).dim)
    (hq : equivalent close (unitOf b) (unitOf a) = false) :
    linkPure unitOf close v a b none = .value (convert (unitOf a) (unitOf b) v) b (some (a, b)) := by
  have h1 := (compat_iff_same_dimension close (unitOf a) (unitOf b)).mpr hab
  have h2 := (compat_iff_same_dimension close (unitOf b) (unitOf a)).mpr hab.symm
  have h3 := (compat_iff_same_dimension close (unitOf b) (unitOf b)).mpr rfl
  have h4 := (to_units_branches unitOf close v a b true).2.2.1 hne (Or.inr hq) hab
  simp [linkPure, h1, h2, preparePure, h4, h3]

/-- … and between equivalent units the number is handed over unchanged, relabelled. -/
theorem link_relabels {κ} [DecidableEq κ] (unitOf : κ → U) (close : Rat → Bool) (v : Rat) (a b : κ)
    (hne : b ≠ a) (hab : (unitOf a).dim = (unitOf b).dim)
    (hq : equivalent close (unitOf b) (unitOf a) = true) :
    linkPure unitOf close v a b none = .value v b none := by
  have h1 := (compat_iff_same_dimension close (unitOf a) (unitOf b)).mpr hab
  have h2 := (compat_iff_same_dimension close (unitOf b) (unitOf a)).mpr hab.symm
  have h3 := (compat_iff_same_dimension close (unitOf b) (unitOf b)).mpr rfl
  have h4 := (to_units_branches unitOf close v a b true).2.1 hne rfl hq
  simp [linkPure, h1, h2, preparePure, h4, h3]

example : preparePure exUnit closeTol 5 (some 1) 0 = .value 5000 0 (some (1, 0)) ∧
    preparePure exUnit closeTol 5 (some 3) 2 = .value 5 3 none ∧
    preparePure exUnit closeTol 5 (some 4) 0 = .err .dataErr ∧
    toUnitsPure exUnit closeTol 5 3 2 true = .value 5 2 none ∧
    toUnitsPure exUnit closeTol 5 3 2 false = .value 5 2 (some (3, 2)) ∧
    toUnitsPure exUnit closeTol 5 4 0 true = .err .other ∧
    linkPure exUnit closeTol 2 1 2 none = .value 2000000 2 (some (1, 2)) ∧
    linkPure exUnit closeTol 2 3 2 none = .value 2 2 none ∧
    linkPure exUnit closeTol 2 0 4 none = .err .metaErr ∧
    linkPure exUnit closeTol 2 0 1 (some 4) = .err .dataErr := by decide +kernel

end Finam.Props.C17
