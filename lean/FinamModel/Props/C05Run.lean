import FinamModel.Props.C02
import FinamModel.Props.C03
/-!
  C05, run phase — the final state of a run does not depend on which component the driver starts
  from, hence neither on the listing order nor on the tie-breaking among equally advanced components.

  Setting (`Frag`): compositions of time-stepped components (no pull-based component in this file),
  links through any chains of pass-through, push-based (caching), no-dependency and fixed-delay
  adapters, positive steps, acyclic dependencies (`rank`).  The scheduler is taken in a *more general*
  form than the code's: one step (`Sched1`) starts `_update_recursive` from **any** time component that
  has not reached the end time yet — the code's choice (least advanced, first in the listing) is one
  instance, every other listing order is another.

  Main results
  * `inv_step`/`reach_inv`: along any such run every component's current time is *served* (its last
    pull was covered by its sources) and *justified* (its last update was needed: it was behind the end
    time, or a dependant's pull — performed or still pending on a chain from a component behind the
    end time — needed it);
  * `final_unique`: two final states (nothing left behind the end time) with these invariants have
    the same update counts;
  * `run_confluent`: any two complete runs from the same state end with the same components and
    output times;
  * `runLoop_order_independent_partial`: hence `runLoopOrd`, the run loop of `Composition.run` with
    an explicit listing order, ends in the same state for any two listings.
  Partial: pull-based components, `DelayToPull` and cyclic graphs resolved by delays are not covered
  by the uniqueness argument (the invariants are); for them the clause is carried by the
  metamorphic oracle of the C05 check (a test).
-/
namespace Finam.Props.C05Run
open Finam

/-! ### a component's own time line -/

/-- what `applyUpdate` does to the record of the updated component -/
def adv1 (c : Comp) : Comp :=
  match c.kind with
  | .pull => c
  | .time _ nx fin =>
    { c with kind := .time nx (nx + (if c.steps.isEmpty then 1 else c.steps.getD ((c.k + 1) % c.steps.length) 1)) fin,
             k := c.k + 1 }

def adv (c : Comp) : Nat → Comp
  | 0 => c
  | n+1 => adv1 (adv c n)

theorem adv1_inputs (c : Comp) : (adv1 c).inputs = c.inputs := by
  unfold adv1; split <;> rfl

theorem adv1_steps (c : Comp) : (adv1 c).steps = c.steps := by
  unfold adv1; split <;> rfl

theorem adv1_isTime (c : Comp) : (adv1 c).isTime = c.isTime := by
  unfold adv1; split
  · rfl
  · rename_i h; simp [Comp.isTime, h]

theorem adv1_fin (c : Comp) : isFinished (adv1 c) = isFinished c := by
  unfold adv1; split
  · rfl
  · rename_i h; simp [isFinished, h]

theorem adv1_now (c : Comp) : getNow (adv1 c) = getNext c := by
  unfold adv1; split
  · rename_i h; simp [getNow, getNext, h]
  · rename_i h; simp [getNow, getNext, h]

theorem adv_inputs (c : Comp) (n : Nat) : (adv c n).inputs = c.inputs := by
  induction n with
  | zero => rfl
  | succ n ih => simp only [adv, adv1_inputs, ih]

theorem adv_steps (c : Comp) (n : Nat) : (adv c n).steps = c.steps := by
  induction n with
  | zero => rfl
  | succ n ih => simp only [adv, adv1_steps, ih]

theorem adv_isTime (c : Comp) (n : Nat) : (adv c n).isTime = c.isTime := by
  induction n with
  | zero => rfl
  | succ n ih => simp only [adv, adv1_isTime, ih]

theorem adv_fin (c : Comp) (n : Nat) : isFinished (adv c n) = isFinished c := by
  induction n with
  | zero => rfl
  | succ n ih => simp only [adv, adv1_fin, ih]

theorem adv_now_succ (c : Comp) (n : Nat) : getNow (adv c (n+1)) = getNext (adv c n) := by
  simp only [adv, adv1_now]

/-- announced steps are positive: the current announcement and every scripted step -/
def PosSteps (c : Comp) : Prop := getNow c < getNext c ∧ ∀ x ∈ c.steps, 0 < x

theorem adv1_pos (c : Comp) (h : PosSteps c) (hT : c.isTime = true) : PosSteps (adv1 c) := by
  refine ⟨?_, by rw [adv1_steps]; exact h.2⟩
  unfold adv1
  cases hk : c.kind with
  | pull => simp [Comp.isTime, hk] at hT
  | time nw nx fin =>
    simp only [getNow, getNext]
    by_cases he : c.steps.isEmpty = true
    · simp only [he, if_true]; omega
    · simp only [he]
      have hlen : 0 < c.steps.length := by
        cases hs : c.steps with
        | nil => simp [hs] at he
        | cons a l => simp
      have hlt : (c.k + 1) % c.steps.length < c.steps.length := Nat.mod_lt _ hlen
      have : c.steps.getD ((c.k + 1) % c.steps.length) 1 = c.steps[(c.k + 1) % c.steps.length] := by
        simp [List.getD_eq_getElem?_getD, List.getElem?_eq_getElem hlt]
      have hpos := h.2 _ (List.getElem_mem hlt)
      simp only [Bool.false_eq_true, if_false]
      omega

theorem adv_pos (c : Comp) (h : PosSteps c) (hT : c.isTime = true) (n : Nat) : PosSteps (adv c n) := by
  induction n with
  | zero => exact h
  | succ n ih => exact adv1_pos _ ih (by rw [adv_isTime]; exact hT)

theorem adv_now_strict (c : Comp) (h : PosSteps c) (hT : c.isTime = true) (n : Nat) :
    getNow (adv c n) < getNow (adv c (n+1)) := by
  rw [adv_now_succ]; exact (adv_pos c h hT n).1

theorem adv_now_mono (c : Comp) (h : PosSteps c) (hT : c.isTime = true) {n m : Nat} (hnm : n ≤ m) :
    getNow (adv c n) ≤ getNow (adv c m) := by
  induction hnm with
  | refl => exact Int.le_refl _
  | @step m _ ih => have := adv_now_strict c h hT m; show _ ≤ getNow (adv c (m+1)); omega

/-! ### the fragment and the shape of reachable states -/

def adSimple : Ad → Bool
  | .pass => true
  | .cache => true
  | .nodep => true
  | .dfix _ _ => true
  | _ => false

theorem need_simple (dp : DP) : ∀ (ads : List Ad) (t : Int), (∀ a ∈ ads, adSimple a = true) →
    need dp ads t = need [] ads t := by
  intro ads
  induction ads with
  | nil => intro t _; rfl
  | cons a r ih =>
    intro t h
    have hr : ∀ a ∈ r, adSimple a = true := fun a ha => h a (List.mem_cons_of_mem _ ha)
    have ha := h a List.mem_cons_self
    cases a with
    | pass => simp only [need]; exact ih t hr
    | cache => simp only [need]
    | nodep => simp only [need]
    | dpush => simp [adSimple] at ha
    | dfix d i => simp only [need, Ad.withDelay]; exact ih _ hr
    | dpull id n a i => simp [adSimple] at ha

/-- the compositions covered by this file -/
structure Frag (s : State) : Prop where
  allTime : ∀ c, c < s.comps.length → (s.comp c).isTime = true
  notFin : ∀ c, isFinished (s.comp c) = false
  pos : ∀ c, c < s.comps.length → PosSteps (s.comp c)
  srcLt : ∀ c l, l ∈ (s.comp c).inputs → l.src < s.outs.length
  ownerLt : ∀ o, o < s.outs.length → (s.out o).owner < s.comps.length
  simple : ∀ c l, l ∈ (s.comp c).inputs → ∀ a ∈ l.ads, adSimple a = true
  outTime : ∀ o, o < s.outs.length → (s.out o).time = getNow (s.comp (s.out o).owner)

theorem comp_default (s : State) (c : Nat) (h : s.comps.length ≤ c) : s.comp c = ⟨.pull, [], [], 0⟩ := by
  simp only [State.comp, List.getD_eq_getElem?_getD, List.getElem?_eq_none h, Option.getD_none]

theorem adv_default (n : Nat) : adv ⟨.pull, [], [], 0⟩ n = ⟨.pull, [], [], 0⟩ := by
  induction n with
  | zero => rfl
  | succ n ih => simp only [adv, ih]; rfl

theorem isTime_lt (s : State) (c : Nat) (h : (s.comp c).isTime = true) : c < s.comps.length := by
  rcases Nat.lt_or_ge c s.comps.length with h' | h'
  · exact h'
  · rw [comp_default s c h'] at h; simp [Comp.isTime] at h

/-- `applyUpdate` in terms of `adv1` -/
theorem applyUpdate_eq (s : State) (u : Nat) (nw nx : Int) (fin : Bool) (hk : (s.comp u).kind = .time nw nx fin) :
    applyUpdate s u =
      { comps := s.comps.set u (adv1 (s.comp u)),
        outs := s.outs.map (fun o => if o.owner = u then { o with time := nx } else o),
        dp := pullAll s (s.comps.length + 1) s.dp u nx } := by
  unfold applyUpdate adv1
  simp only [hk]

/-- effect of one update on the component table -/
theorem applyUpdate_comp (s : State) (u : Nat) (hu : u < s.comps.length) (hT : (s.comp u).isTime = true) (c : Nat) :
    (applyUpdate s u).comp c = if c = u then adv1 (s.comp u) else s.comp c := by
  cases hk : (s.comp u).kind with
  | pull => simp [Comp.isTime, hk] at hT
  | time nw nx fin =>
    rw [applyUpdate_eq s u nw nx fin hk]
    by_cases hc : c = u
    · subst hc
      simp only [if_true, State.comp, List.getD_eq_getElem?_getD, List.getElem?_set_self hu, Option.getD_some]
    · simp only [hc, if_false, State.comp, List.getD_eq_getElem?_getD, List.getElem?_set_ne (Ne.symm hc)]

theorem applyUpdate_len (s : State) (u : Nat) : (applyUpdate s u).comps.length = s.comps.length := by
  cases hk : (s.comp u).kind with
  | pull => unfold applyUpdate; simp only [hk]
  | time nw nx fin => rw [applyUpdate_eq s u nw nx fin hk]; simp

theorem applyUpdate_olen (s : State) (u : Nat) : (applyUpdate s u).outs.length = s.outs.length := by
  cases hk : (s.comp u).kind with
  | pull => unfold applyUpdate; simp only [hk]
  | time nw nx fin => rw [applyUpdate_eq s u nw nx fin hk]; simp

theorem applyUpdate_out (s : State) (u : Nat) (hT : (s.comp u).isTime = true) (o : Nat) (ho : o < s.outs.length) :
    (applyUpdate s u).out o =
      if (s.out o).owner = u then { s.out o with time := getNext (s.comp u) } else s.out o := by
  cases hk : (s.comp u).kind with
  | pull => simp [Comp.isTime, hk] at hT
  | time nw nx fin =>
    rw [applyUpdate_eq s u nw nx fin hk]
    simp only [State.out, List.getD_eq_getElem?_getD, List.getElem?_map, List.getElem?_eq_getElem ho,
      Option.map_some, Option.getD_some, getNext, hk]

theorem out_default (s : State) (o : Nat) (h : s.outs.length ≤ o) : s.out o = ⟨0, 0⟩ := by
  simp only [State.out, List.getD_eq_getElem?_getD, List.getElem?_eq_none h, Option.getD_none]

/-- state `s` is the start state `s0` with component `c` advanced `n c` times -/
structure Rel (s0 : State) (n : Nat → Nat) (s : State) : Prop where
  len : s.comps.length = s0.comps.length
  comp : ∀ c, s.comp c = adv (s0.comp c) (n c)
  olen : s.outs.length = s0.outs.length
  owner : ∀ o, (s.out o).owner = (s0.out o).owner
  otime : ∀ o, o < s.outs.length → (s.out o).time = getNow (s.comp (s.out o).owner)

def bump (n : Nat → Nat) (u : Nat) : Nat → Nat := fun c => if c = u then n c + 1 else n c

theorem rel_init (s0 : State) (hf : Frag s0) : Rel s0 (fun _ => 0) s0 :=
  ⟨rfl, fun _ => rfl, rfl, fun _ => rfl, hf.outTime⟩

theorem rel_step {s0 s : State} {n : Nat → Nat} (hr : Rel s0 n s) (u : Nat) (hu : u < s.comps.length)
    (hT : (s.comp u).isTime = true) : Rel s0 (bump n u) (applyUpdate s u) where
  len := by rw [applyUpdate_len, hr.len]
  comp := by
    intro c
    rw [applyUpdate_comp s u hu hT c]
    by_cases hc : c = u
    · subst hc; simp only [if_true, bump, hr.comp c, adv]
    · simp only [hc, if_false, bump, hr.comp c]
  olen := by rw [applyUpdate_olen, hr.olen]
  owner := by
    intro o
    rcases Nat.lt_or_ge o s.outs.length with ho | ho
    · rw [applyUpdate_out s u hT o ho, ← hr.owner o]
      split <;> rfl
    · rw [out_default _ o (by rw [applyUpdate_olen]; exact ho), ← hr.owner o, out_default s o ho]
  otime := by
    intro o ho
    rw [applyUpdate_olen] at ho
    rw [applyUpdate_out s u hT o ho]
    by_cases h : (s.out o).owner = u
    · simp only [h, if_true]
      rw [applyUpdate_comp s u hu hT u]
      simp only [if_true, adv1_now]
    · simp only [h, if_false]
      rw [applyUpdate_comp s u hu hT _]
      simp only [h, if_false]
      exact hr.otime o ho

/-! ### the invariants, on update counts -/

/-- time of component `c` after `k` updates -/
def T (s0 : State) (c k : Nat) : Int := getNow (adv (s0.comp c) k)

/-- owner of the source output of a link -/
def own (s0 : State) (l : Link) : Nat := (s0.out l.src).owner

/-- `l` is a non-static input link of component `e` -/
def IsDep (s0 : State) (e : Nat) (l : Link) : Prop := l ∈ (s0.comp e).inputs ∧ l.static = false

/-- every pull performed so far was covered: the source had published at or beyond the requirement -/
def Served (s0 : State) (n : Nat → Nat) : Prop :=
  ∀ e l, 0 < n e → IsDep s0 e l → ∀ lt, need [] l.ads (T s0 e (n e)) = some lt → lt ≤ T s0 (own s0 l) (n (own s0 l))

/-- component `u` can perform its next pulls -/
def ReadyN (s0 : State) (n : Nat → Nat) (u : Nat) : Prop :=
  ∀ l, IsDep s0 u l → ∀ lt, need [] l.ads (T s0 u (n u + 1)) = some lt → lt ≤ T s0 (own s0 l) (n (own s0 l))

/-- `d` still has to be updated: it is behind the end time, or a dependant that still has to be updated
    needs more from `d` for its announced pull than `d` has published -/
inductive Must (s0 : State) (n : Nat → Nat) (endT : Int) : Nat → Prop where
  | base (d : Nat) : d < s0.comps.length → T s0 d (n d) < endT → Must s0 n endT d
  | step (d e : Nat) (l : Link) (lt : Int) : IsDep s0 e l → own s0 l = d →
      need [] l.ads (T s0 e (n e + 1)) = some lt → T s0 d (n d) < lt → Must s0 n endT e → Must s0 n endT d

/-- the last update of `c` was needed: `c` was behind the end time, or a pull of a dependant — already
    performed, or announced by a dependant that still has to be updated — needed more than `c` had -/
def Just (s0 : State) (n : Nat → Nat) (endT : Int) (c : Nat) : Prop :=
  n c = 0 ∨ T s0 c (n c - 1) < endT ∨
  ∃ e l lt, IsDep s0 e l ∧ own s0 l = c ∧ T s0 c (n c - 1) < lt ∧
    ((0 < n e ∧ need [] l.ads (T s0 e (n e)) = some lt) ∨
     (need [] l.ads (T s0 e (n e + 1)) = some lt ∧ Must s0 n endT e))

theorem T_succ (s0 : State) (c k : Nat) : T s0 c (k+1) = getNext (adv (s0.comp c) k) := adv_now_succ _ _

theorem T_mono {s0 : State} (hf : Frag s0) (c : Nat) {k m : Nat} (h : k ≤ m) : T s0 c k ≤ T s0 c m := by
  rcases Nat.lt_or_ge c s0.comps.length with hc | hc
  · exact adv_now_mono _ (hf.pos c hc) (hf.allTime c hc) h
  · simp only [T, comp_default s0 c hc, adv_default]; exact Int.le_refl _

theorem T_strict {s0 : State} (hf : Frag s0) (c : Nat) (hc : c < s0.comps.length) (k : Nat) : T s0 c k < T s0 c (k+1) :=
  adv_now_strict _ (hf.pos c hc) (hf.allTime c hc) k

theorem T_bump_self (s0 : State) (n : Nat → Nat) (u : Nat) : T s0 u (bump n u u) = T s0 u (n u + 1) := by
  simp [bump]

theorem bump_other (n : Nat → Nat) {u c : Nat} (h : c ≠ u) : bump n u c = n c := by simp [bump, h]

theorem bump_self (n : Nat → Nat) (u : Nat) : bump n u u = n u + 1 := by simp [bump]

theorem bump_ge (n : Nat → Nat) (u c : Nat) : n c ≤ bump n u c := by
  simp only [bump]; split <;> omega

/-! ### from the scheduler's state to the counts -/

theorem rel_isTime {s0 s : State} {n : Nat → Nat} (hf : Frag s0) (hr : Rel s0 n s) (c : Nat) (hc : c < s0.comps.length) :
    (s.comp c).isTime = true := by
  rw [hr.comp c, adv_isTime]; exact hf.allTime c hc

theorem rel_next {s0 s : State} {n : Nat → Nat} (hr : Rel s0 n s) (c : Nat) : getNext (s.comp c) = T s0 c (n c + 1) := by
  rw [T_succ, hr.comp c]

theorem rel_now {s0 s : State} {n : Nat → Nat} (hr : Rel s0 n s) (c : Nat) : getNow (s.comp c) = T s0 c (n c) := by
  rw [hr.comp c]; rfl

theorem rel_out_time {s0 s : State} {n : Nat → Nat} (hr : Rel s0 n s) (o : Nat) (ho : o < s0.outs.length) :
    (s.out o).time = T s0 (s0.out o).owner (n (s0.out o).owner) := by
  rw [hr.otime o (by rw [hr.olen]; exact ho), hr.owner o, rel_now hr]

theorem rel_need {s0 : State} (dp : DP) (hf : Frag s0) (c : Nat) (l : Link) (hl : l ∈ (s0.comp c).inputs) (t : Int) :
    need dp l.ads t = need [] l.ads t :=
  need_simple dp l.ads t (hf.simple c l hl)

theorem rel_inputs {s0 s : State} {n : Nat → Nat} (hr : Rel s0 n s) (c : Nat) : (s.comp c).inputs = (s0.comp c).inputs := by
  rw [hr.comp c, adv_inputs]

/-- a component the scheduler finds ready is ready in terms of counts -/
theorem ready_counts {s0 s : State} {n : Nat → Nat} (hf : Frag s0) (hr : Rel s0 n s) (u : Nat)
    (h : Ready s u (getNext (s.comp u))) : ReadyN s0 n u := by
  intro l hl lt hn
  have hl' : l ∈ (s.comp u).inputs := by rw [rel_inputs hr]; exact hl.1
  have hn' : need s.dp l.ads (getNext (s.comp u)) = some lt := by
    rw [rel_need s.dp hf u l hl.1, rel_next hr]; exact hn
  have hsrc := hf.srcLt u l hl.1
  have := h l hl' hl.2 lt hn'
  cases this with
  | time _ _ _ hle => rw [rel_out_time hr l.src hsrc] at hle; exact hle
  | pull _ _ hP _ =>
    rw [hr.owner] at hP
    rw [rel_isTime hf hr _ (hf.ownerLt l.src hsrc)] at hP
    cases hP

/-- an edge of the dependency walk, in terms of counts: a link of `c` whose source owner lags -/
theorem edge_counts {s0 s : State} {n : Nat → Nat} (hf : Frag s0) (hr : Rel s0 n s)
    {c c' : Nat} {tgt tgt' : Option Int} (h : C04.Edge s (c, tgt) (c', tgt')) :
    ∃ l lt, IsDep s0 c l ∧ own s0 l = c' ∧ need [] l.ads (T s0 c (n c + 1)) = some lt ∧ T s0 c' (n c') < lt := by
  have key : ∀ o lt, (o, lt) ∈ findDeps s c (C04.targetOf s c tgt) →
      ∃ l, IsDep s0 c l ∧ l.src = o ∧ o < s0.outs.length ∧ need [] l.ads (T s0 c (n c + 1)) = some lt := by
    intro o lt hm
    obtain ⟨l, hl, hst, hsrc, hn, _⟩ := C02.findDeps_mem_link s c _ o lt hm
    rw [rel_inputs hr] at hl
    have hc : c < s0.comps.length := by
      rcases Nat.lt_or_ge c s0.comps.length with h' | h'
      · exact h'
      · rw [comp_default s0 c h'] at hl; cases hl
    have htgt : C04.targetOf s c tgt = T s0 c (n c + 1) := by
      rw [← rel_next hr]
      have hT := rel_isTime hf hr c hc
      unfold C04.targetOf getNext
      cases hk : (s.comp c).kind with
      | pull => simp [Comp.isTime, hk] at hT
      | time a b d => rfl
    rw [rel_need s.dp hf c l hl, htgt] at hn
    exact ⟨l, ⟨hl, hst⟩, hsrc, by rw [← hsrc]; exact hf.srcLt c l hl, hn⟩
  generalize ha : (c, tgt) = a at h
  generalize hb : (c', tgt') = b at h
  cases h with
  | time c1 tgt1 o lt hm hT hlag =>
    cases ha; cases hb
    obtain ⟨l, hdep, hsrc, ho, hn⟩ := key o lt hm
    refine ⟨l, lt, hdep, ?_, hn, ?_⟩
    · simp only [own, hsrc, hr.owner]
    · rw [rel_out_time hr o ho, ← hr.owner] at hlag; exact hlag
  | pull c1 tgt1 o lt hm hP =>
    cases ha; cases hb
    obtain ⟨l, hdep, hsrc, ho, hn⟩ := key o lt hm
    rw [hr.owner, rel_isTime hf hr _ (hf.ownerLt o ho)] at hP
    cases hP

/-! ### one scheduler step preserves the invariants -/

theorem star_last {s : State} {a b : Nat × Option Int} (h : C04.Star s a b) :
    a = b ∨ ∃ p, C04.Star s a p ∧ C04.Edge s p b := by
  induction h with
  | refl => exact Or.inl rfl
  | step e _ ih =>
    rcases ih with h' | ⟨p, hp, he⟩
    · subst h'; exact Or.inr ⟨_, .refl _, e⟩
    · exact Or.inr ⟨p, .step e hp, he⟩

theorem must_of_star {s0 s : State} {n : Nat → Nat} (hf : Frag s0) (hr : Rel s0 n s) (endT : Int)
    {a b : Nat × Option Int} (h : C04.Star s a b) : Must s0 n endT a.1 → Must s0 n endT b.1 := by
  induction h with
  | refl => exact id
  | @step a b c e _ ih =>
    intro hm
    obtain ⟨ac, at'⟩ := a
    obtain ⟨bc, bt⟩ := b
    obtain ⟨l, lt, hdep, hown, hn, hlag⟩ := edge_counts hf hr e
    exact ih (.step bc ac l lt hdep hown hn hlag hm)

theorem must_bump {s0 : State} {n : Nat → Nat} {endT : Int} {u : Nat} (hrn : ReadyN s0 n u) {e : Nat}
    (h : Must s0 n endT e) : e ≠ u → Must s0 (bump n u) endT e := by
  induction h with
  | base d hd ht => intro hne; exact .base d hd (by rw [bump_other n hne]; exact ht)
  | step d e l lt hdep hown hn hlag _ ih =>
    intro hne
    by_cases he : e = u
    · subst he
      have := hrn l hdep lt hn
      rw [show own s0 l = d from hown] at this
      omega
    · exact .step d e l lt hdep hown (by rw [bump_other n he]; exact hn) (by rw [bump_other n hne]; exact hlag) (ih he)

/-- **One step of the (generalised) scheduler preserves the invariants.**  `h` is any component that has
    not reached the end time; `u` is what `_update_recursive` started from `h` decides to update. -/
theorem inv_step {s0 s : State} {n : Nat → Nat} (hf : Frag s0) (hr : Rel s0 n s) (endT : Int)
    (hS : Served s0 n) (hJ : ∀ c, Just s0 n endT c)
    (h u : Nat) (hh : h < s.comps.length) (hnow : getNow (s.comp h) < endT)
    (hrec : updateRec s (s.comps.length + 1) h [] none = .ok (some u)) :
    u < s.comps.length ∧ (s.comp u).isTime = true ∧ Served s0 (bump n u) ∧ ∀ c, Just s0 (bump n u) endT c := by
  obtain ⟨nw, nx, hk, hready⟩ := (Finam.updateRec_sound s (s.comps.length + 1)).1 h [] none (some u) hrec
  have hT : (s.comp u).isTime = true := by simp [Comp.isTime, hk]
  have hu : u < s.comps.length := isTime_lt s u hT
  have hnx : getNext (s.comp u) = nx := by simp [getNext, hk]
  have hrn : ReadyN s0 n u := ready_counts hf hr u (by rw [hnx]; exact hready)
  obtain ⟨t', hstar⟩ := C02.updateRec_chain s _ h [] none u hrec
  have hmh : Must s0 n endT h := .base h (by rw [← hr.len]; exact hh) (by rw [← rel_now hr]; exact hnow)
  refine ⟨hu, hT, ?_, ?_⟩
  · -- Served
    intro e l hpos hdep lt hn
    have hmono : T s0 (own s0 l) (n (own s0 l)) ≤ T s0 (own s0 l) (bump n u (own s0 l)) := T_mono hf _ (bump_ge n u _)
    by_cases he : e = u
    · subst he
      rw [bump_self] at hn
      have := hrn l hdep lt hn
      omega
    · rw [bump_other n he] at hn hpos
      have := hS e l hpos hdep lt hn
      omega
  · -- Just
    intro c
    by_cases hc : c = u
    · subst hc
      right
      rw [bump_self, Nat.add_sub_cancel]
      rcases star_last hstar with heq | ⟨p, hp, hedge⟩
      · cases heq
        left; rw [← rel_now hr]; exact hnow
      · right
        obtain ⟨pc, pt⟩ := p
        obtain ⟨l, lt, hdep, hown, hn, hlag⟩ := edge_counts hf hr hedge
        have hmp : Must s0 n endT pc := must_of_star hf hr endT hp hmh
        have hne : pc ≠ c := by
          intro e; subst e
          have := hrn l hdep lt hn
          rw [hown] at this; omega
        exact ⟨pc, l, lt, hdep, hown, hlag, Or.inr ⟨by rw [bump_other n hne]; exact hn, must_bump hrn hmp hne⟩⟩
    · rw [Just, bump_other n hc]
      rcases hJ c with h0 | h1 | ⟨e, l, lt, hdep, hown, hlt, hcase⟩
      · exact Or.inl h0
      · exact Or.inr (Or.inl h1)
      · right; right
        by_cases he : e = u
        · subst he
          rcases hcase with ⟨_, hn⟩ | ⟨hn, _⟩
          · obtain ⟨lt', hn', hle⟩ := need_mono [] l.ads (T_mono hf e (Nat.le_succ (n e))) lt hn
            exact ⟨e, l, lt', hdep, hown, by omega, Or.inl ⟨by rw [bump_self]; omega, by rw [bump_self]; exact hn'⟩⟩
          · exact ⟨e, l, lt, hdep, hown, hlt, Or.inl ⟨by rw [bump_self]; omega, by rw [bump_self]; exact hn⟩⟩
        · rcases hcase with ⟨hpos, hn⟩ | ⟨hn, hm⟩
          · exact ⟨e, l, lt, hdep, hown, hlt, Or.inl ⟨by rw [bump_other n he]; exact hpos, by rw [bump_other n he]; exact hn⟩⟩
          · exact ⟨e, l, lt, hdep, hown, hlt, Or.inr ⟨by rw [bump_other n he]; exact hn, must_bump hrn hm he⟩⟩

/-! ### uniqueness of the final counts -/

theorem must_false {s0 : State} {n : Nat → Nat} {endT : Int}
    (hall : ∀ c, c < s0.comps.length → endT ≤ T s0 c (n c)) : ∀ d, ¬ Must s0 n endT d := by
  intro d h
  induction h with
  | base d hd ht => have := hall d hd; omega
  | step _ _ _ _ _ _ _ _ _ ih => exact ih

/-- a state in which nothing is left to do -/
structure Final (s0 : State) (endT : Int) (n : Nat → Nat) : Prop where
  reached : ∀ c, c < s0.comps.length → endT ≤ T s0 c (n c)
  served : Served s0 n
  just : ∀ c, Just s0 n endT c
  outside : ∀ c, s0.comps.length ≤ c → n c = 0

theorem final_lt_absurd {s0 : State} (hf : Frag s0) {endT : Int} {n m : Nat → Nat}
    (hn : Final s0 endT n) (hm : Final s0 endT m) (c : Nat)
    (hdeps : ∀ e l, IsDep s0 e l → own s0 l = c → n e = m e) (hlt : n c < m c) : False := by
  have hc : c < s0.comps.length := by
    rcases Nat.lt_or_ge c s0.comps.length with h | h
    · exact h
    · have := hn.outside c h; have := hm.outside c h; omega
  have hprev : endT ≤ T s0 c (m c - 1) := by
    have h1 := hn.reached c hc
    have h2 : T s0 c (n c) ≤ T s0 c (m c - 1) := T_mono hf c (by omega)
    omega
  rcases hm.just c with h0 | h1 | ⟨e, l, lt, hdep, hown, hlt', hcase⟩
  · omega
  · omega
  · rcases hcase with ⟨hpos, hneed⟩ | ⟨_, hmust⟩
    · have he := hdeps e l hdep hown
      rw [← he] at hpos hneed
      have := hn.served e l hpos hdep lt hneed
      rw [hown] at this
      have h2 : T s0 c (n c) ≤ T s0 c (m c - 1) := T_mono hf c (by omega)
      omega
    · exact must_false hm.reached e hmust

/-- **The final update counts are unique** on acyclic compositions: two count vectors that both leave
    nothing behind the end time and are both served and justified coincide. -/
theorem final_unique {s0 : State} (hf : Frag s0) {endT : Int} (rank : Nat → Nat)
    (hrank : ∀ e l, IsDep s0 e l → rank e < rank (own s0 l))
    {n m : Nat → Nat} (hn : Final s0 endT n) (hm : Final s0 endT m) : ∀ c, n c = m c := by
  have key : ∀ r c, rank c < r → n c = m c := by
    intro r
    induction r with
    | zero => intro c h; omega
    | succ r ih =>
      intro c hc
      have hdeps : ∀ e l, IsDep s0 e l → own s0 l = c → n e = m e := by
        intro e l hdep hown
        have := hrank e l hdep
        rw [hown] at this
        exact ih e (by omega)
      rcases Nat.lt_trichotomy (n c) (m c) with h | h | h
      · exact absurd h (fun h => final_lt_absurd hf hn hm c hdeps h)
      · exact h
      · exact absurd h (fun h => final_lt_absurd hf hm hn c (fun e l hd ho => (hdeps e l hd ho).symm) h)
  intro c
  exact key (rank c + 1) c (by omega)

/-! ### runs -/

/-- one step of the generalised scheduler: start the dependency walk from *any* time component that
    has not reached the end time yet, update what it returns -/
inductive Sched1 (endT : Int) (s : State) : State → Prop where
  | mk (h u : Nat) : h < s.comps.length → getNow (s.comp h) < endT →
      updateRec s (s.comps.length + 1) h [] none = .ok (some u) → Sched1 endT s (applyUpdate s u)

inductive Reach (endT : Int) (s0 : State) : State → Prop where
  | refl : Reach endT s0 s0
  | step {s s' : State} : Reach endT s0 s → Sched1 endT s s' → Reach endT s0 s'

theorem Reach.trans {endT : Int} {a b c : State} (h1 : Reach endT a b) (h2 : Reach endT b c) : Reach endT a c := by
  induction h2 with
  | refl => exact h1
  | step _ st ih => exact .step ih st

structure Inv (s0 : State) (endT : Int) (s : State) (n : Nat → Nat) : Prop where
  rel : Rel s0 n s
  served : Served s0 n
  just : ∀ c, Just s0 n endT c
  outside : ∀ c, s0.comps.length ≤ c → n c = 0

/-- **Every reachable state is served and justified.** -/
theorem reach_inv {s0 : State} (hf : Frag s0) {endT : Int} {s : State} (h : Reach endT s0 s) :
    ∃ n, Inv s0 endT s n := by
  induction h with
  | refl =>
    exact ⟨fun _ => 0, rel_init s0 hf, fun e l hpos => by omega, fun c => Or.inl rfl, fun _ _ => rfl⟩
  | @step s s' _ st ih =>
    obtain ⟨n, hinv⟩ := ih
    cases st with
    | mk h u hh hnow hrec =>
      obtain ⟨hu, hT, hS, hJ⟩ := inv_step hf hinv.rel endT hinv.served hinv.just h u hh hnow hrec
      refine ⟨bump n u, rel_step hinv.rel u hu hT, hS, hJ, ?_⟩
      intro c hc
      have : c ≠ u := by rw [hinv.rel.len] at hu; omega
      rw [bump_other n this]; exact hinv.outside c hc

theorem done_reached {s0 s : State} {n : Nat → Nat} (hf : Frag s0) (hr : Rel s0 n s) {endT : Int}
    (hd : anyRunning s endT = false) : ∀ c, c < s0.comps.length → endT ≤ T s0 c (n c) := by
  intro c hc
  have hcs : c < s.comps.length := by rw [hr.len]; exact hc
  have hmem : s.comp c ∈ s.comps := by
    simp only [State.comp, List.getD_eq_getElem?_getD, List.getElem?_eq_getElem hcs, Option.getD_some]
    exact List.getElem_mem hcs
  have hfin : isFinished (s.comp c) = false := by rw [hr.comp c, adv_fin]; exact hf.notFin c
  have hT := rel_isTime hf hr c hc
  simp only [anyRunning, List.any_eq_false] at hd
  have := hd _ hmem
  rw [← rel_now hr]
  cases hk : (s.comp c).kind with
  | pull => simp [Comp.isTime, hk] at hT
  | time nw nx fin =>
    simp only [hk] at this
    simp only [isFinished, hk] at hfin
    subst hfin
    simp only [getNow, hk]
    simpa using this

/-- **Confluence of the run phase.**  On an acyclic composition of time-stepped components, any two
    complete runs of the generalised scheduler — whatever component each step starts from, hence
    whatever the listing order and the tie-breaking — end with the same components (times, announced
    next times, update counts) and the same output times. -/
theorem run_confluent {s0 : State} (hf : Frag s0) {endT : Int} (rank : Nat → Nat)
    (hrank : ∀ e l, IsDep s0 e l → rank e < rank (own s0 l))
    {s1 s2 : State} (h1 : Reach endT s0 s1) (h2 : Reach endT s0 s2)
    (d1 : anyRunning s1 endT = false) (d2 : anyRunning s2 endT = false) :
    s1.comps = s2.comps ∧ s1.outs = s2.outs := by
  obtain ⟨n, i1⟩ := reach_inv hf h1
  obtain ⟨m, i2⟩ := reach_inv hf h2
  have f1 : Final s0 endT n := ⟨done_reached hf i1.rel d1, i1.served, i1.just, i1.outside⟩
  have f2 : Final s0 endT m := ⟨done_reached hf i2.rel d2, i2.served, i2.just, i2.outside⟩
  have heq := final_unique hf rank hrank f1 f2
  constructor
  · apply List.ext_getElem?
    intro c
    rcases Nat.lt_or_ge c s1.comps.length with hc | hc
    · have hc2 : c < s2.comps.length := by rw [i2.rel.len, ← i1.rel.len]; exact hc
      have e1 : s1.comps[c]? = some (s1.comp c) := by
        simp only [State.comp, List.getD_eq_getElem?_getD, List.getElem?_eq_getElem hc, Option.getD_some]
      have e2 : s2.comps[c]? = some (s2.comp c) := by
        simp only [State.comp, List.getD_eq_getElem?_getD, List.getElem?_eq_getElem hc2, Option.getD_some]
      rw [e1, e2, i1.rel.comp c, i2.rel.comp c, heq c]
    · have hc2 : s2.comps.length ≤ c := by rw [i2.rel.len, ← i1.rel.len]; exact hc
      rw [List.getElem?_eq_none hc, List.getElem?_eq_none hc2]
  · apply List.ext_getElem?
    intro o
    rcases Nat.lt_or_ge o s1.outs.length with ho | ho
    · have ho2 : o < s2.outs.length := by rw [i2.rel.olen, ← i1.rel.olen]; exact ho
      have ho0 : o < s0.outs.length := by rw [← i1.rel.olen]; exact ho
      have e1 : s1.outs[o]? = some (s1.out o) := by
        simp only [State.out, List.getD_eq_getElem?_getD, List.getElem?_eq_getElem ho, Option.getD_some]
      have e2 : s2.outs[o]? = some (s2.out o) := by
        simp only [State.out, List.getD_eq_getElem?_getD, List.getElem?_eq_getElem ho2, Option.getD_some]
      rw [e1, e2]
      have t1 := rel_out_time i1.rel o ho0
      have t2 := rel_out_time i2.rel o ho0
      have o1 := i1.rel.owner o
      have o2 := i2.rel.owner o
      rw [heq] at t1
      cases hs1 : s1.out o with
      | mk ow1 tm1 =>
        cases hs2 : s2.out o with
        | mk ow2 tm2 =>
          rw [hs1] at t1 o1; rw [hs2] at t2 o2
          simp only at t1 t2 o1 o2
          rw [t1, t2, o1, o2]
    · have ho2 : s2.outs.length ≤ o := by rw [i2.rel.olen, ← i1.rel.olen]; exact ho
      rw [List.getElem?_eq_none ho, List.getElem?_eq_none ho2]

/-! ### the code's run loop, under any listing, is an instance -/

theorem selectOrd_spec (s : State) : ∀ (order : List Nat) (best : Option (Nat × Int)) (x : Nat × Int),
    selectOrd s order best = some x →
    (best = some x ∨ (x.1 ∈ order ∧ ∃ nx f, (s.comp x.1).kind = .time x.2 nx f)) ∧
    (∀ b, best = some b → x.2 ≤ b.2) ∧
    (∀ i ∈ order, ∀ (nw nx : Int) (f : Bool), (s.comp i).kind = .time nw nx f → x.2 ≤ nw) := by
  intro order
  induction order with
  | nil =>
    intro best x h
    simp only [selectOrd] at h
    refine ⟨Or.inl h, fun b hb => ?_, fun i hi => by cases hi⟩
    rw [hb] at h; cases h; exact Int.le_refl _
  | cons i r ih =>
    intro best x h
    have tailmem : ∀ {P : Prop}, (x.1 ∈ r ∧ P) → (x.1 ∈ i :: r ∧ P) := fun ⟨a, b⟩ => ⟨List.mem_cons_of_mem _ a, b⟩
    cases hk : (s.comp i).kind with
    | pull =>
      simp only [selectOrd, hk] at h
      obtain ⟨h1, h2, h3⟩ := ih best x h
      refine ⟨h1.imp id tailmem, h2, ?_⟩
      intro j hj nw nx f hkj
      rcases List.mem_cons.mp hj with e | e
      · subst e; rw [hk] at hkj; cases hkj
      · exact h3 j e nw nx f hkj
    | time nw nx f =>
      cases best with
      | none =>
        simp only [selectOrd, hk] at h
        obtain ⟨h1, h2, h3⟩ := ih _ x h
        have h0 : x.2 ≤ nw := h2 (i, nw) rfl
        refine ⟨?_, fun b hb => (by cases hb), ?_⟩
        · rcases h1 with h1 | h1
          · cases h1; exact Or.inr ⟨List.mem_cons_self, nx, f, hk⟩
          · exact Or.inr (tailmem h1)
        · intro j hj nw' nx' f' hkj
          rcases List.mem_cons.mp hj with e | e
          · subst e; rw [hk] at hkj; cases hkj; exact h0
          · exact h3 j e nw' nx' f' hkj
      | some bp =>
        obtain ⟨bi, bt⟩ := bp
        by_cases hlt : nw < bt
        · simp only [selectOrd, hk, hlt, if_true] at h
          obtain ⟨h1, h2, h3⟩ := ih _ x h
          have h0 : x.2 ≤ nw := h2 (i, nw) rfl
          refine ⟨?_, fun b hb => (by cases hb; show x.2 ≤ bt; omega), ?_⟩
          · rcases h1 with h1 | h1
            · cases h1; exact Or.inr ⟨List.mem_cons_self, nx, f, hk⟩
            · exact Or.inr (tailmem h1)
          · intro j hj nw' nx' f' hkj
            rcases List.mem_cons.mp hj with e | e
            · subst e; rw [hk] at hkj; cases hkj; exact h0
            · exact h3 j e nw' nx' f' hkj
        · simp only [selectOrd, hk, hlt, if_false] at h
          obtain ⟨h1, h2, h3⟩ := ih _ x h
          have h0 : x.2 ≤ bt := h2 (bi, bt) rfl
          refine ⟨h1.imp id tailmem, h2, ?_⟩
          intro j hj nw' nx' f' hkj
          rcases List.mem_cons.mp hj with e | e
          · subst e; rw [hk] at hkj; cases hkj; omega
          · exact h3 j e nw' nx' f' hkj

theorem selectOrd_ne_none (s : State) : ∀ (order : List Nat) (best : Option (Nat × Int)),
    (best ≠ none ∨ ∃ i ∈ order, (s.comp i).isTime = true) → selectOrd s order best ≠ none := by
  intro order
  induction order with
  | nil =>
    intro best h
    rcases h with h | ⟨i, hi, _⟩
    · simpa [selectOrd] using h
    · cases hi
  | cons i r ih =>
    intro best h
    cases hk : (s.comp i).kind with
    | pull =>
      simp only [selectOrd, hk]
      apply ih
      rcases h with h | ⟨j, hj, hT⟩
      · exact Or.inl h
      · rcases List.mem_cons.mp hj with e | e
        · subst e; simp [Comp.isTime, hk] at hT
        · exact Or.inr ⟨j, e, hT⟩
    | time nw nx f =>
      cases best with
      | none => simp only [selectOrd, hk]; exact ih _ (Or.inl (by simp))
      | some bp =>
        obtain ⟨bi, bt⟩ := bp
        simp only [selectOrd, hk]
        split <;> exact ih _ (Or.inl (by simp))

/-- a running component exists in the table -/
theorem anyRunning_witness (s : State) (endT : Int) (h : anyRunning s endT = true) :
    ∃ c, c < s.comps.length ∧ ∃ nw nx f, (s.comp c).kind = .time nw nx f ∧ nw < endT := by
  simp only [anyRunning, List.any_eq_true] at h
  obtain ⟨c, hc, hp⟩ := h
  obtain ⟨j, hj, rfl⟩ := List.getElem_of_mem hc
  refine ⟨j, hj, ?_⟩
  have hcomp : s.comp j = s.comps[j] := by
    simp only [State.comp, List.getD_eq_getElem?_getD, List.getElem?_eq_getElem hj, Option.getD_some]
  rw [hcomp]
  cases hk : s.comps[j].kind with
  | pull => simp [hk] at hp
  | time nw nx f => simp only [hk, Bool.and_eq_true, decide_eq_true_eq] at hp; exact ⟨nw, nx, f, rfl, hp.2⟩

/-- **`Composition.run` under any listing is a run of the generalised scheduler.** -/
theorem runLoopOrd_reach (order : List Nat) (endT : Int) (N : Nat) (hcover : ∀ c, c < N → c ∈ order) :
    ∀ (fuel : Nat) (s : State) (acc ups : List (Nat × Int)) (s' : State), s.comps.length = N →
    runLoopOrd order fuel s endT acc = (ups, .done, s') → anyRunning s endT = true →
    Reach endT s s' ∧ anyRunning s' endT = false := by
  intro fuel
  induction fuel with
  | zero => intro s acc ups s' _ h; simp [runLoopOrd] at h
  | succ k ih =>
    intro s acc ups s' hN h hrun
    obtain ⟨c, hc, nw, nx, f, hkc, hlt⟩ := anyRunning_witness s endT hrun
    simp only [runLoopOrd] at h
    cases hsel : selectOrd s order none with
    | none =>
      exact absurd hsel (selectOrd_ne_none s order none
        (Or.inr ⟨c, hcover c (by omega), by simp [Comp.isTime, hkc]⟩))
    | some x =>
      simp only [hsel, Option.map_some] at h
      obtain ⟨h1, _, h3⟩ := selectOrd_spec s order none x hsel
      have hx : ∃ nx f, (s.comp x.1).kind = .time x.2 nx f := by
        rcases h1 with h1 | ⟨_, h1⟩
        · cases h1
        · exact h1
      obtain ⟨nx0, f0, hk0⟩ := hx
      have hle : x.2 ≤ nw := h3 c (hcover c (by omega)) nw nx f hkc
      have hnow0 : getNow (s.comp x.1) < endT := by simp only [getNow, hk0]; omega
      have hx0 : x.1 < s.comps.length := isTime_lt s x.1 (by simp [Comp.isTime, hk0])
      cases hr : updateRec s (s.comps.length + 1) x.1 [] none with
      | error e => simp [hr] at h
      | ok r =>
        cases r with
        | none => simp [hr] at h
        | some u =>
          simp only [hr] at h
          have hstep : Sched1 endT s (applyUpdate s u) := .mk x.1 u hx0 hnow0 hr
          by_cases hrun' : anyRunning (applyUpdate s u) endT = true
          · simp only [hrun', if_true] at h
            obtain ⟨hreach, hdone⟩ := ih _ _ _ _ (by rw [applyUpdate_len]; exact hN) h hrun'
            exact ⟨Reach.trans (.step .refl hstep) hreach, hdone⟩
          · simp only [hrun', Bool.false_eq_true, if_false, Prod.mk.injEq] at h
            obtain ⟨_, _, hs'⟩ := h
            subst hs'
            exact ⟨.step .refl hstep, by simpa using hrun'⟩

/-- the original `runLoop` (listing = index order) likewise -/
theorem runLoop_reach (endT : Int) :
    ∀ (fuel : Nat) (s : State) (acc ups : List (Nat × Int)) (s' : State),
    runLoop fuel s endT acc = (ups, .done, s') → anyRunning s endT = true →
    Reach endT s s' ∧ anyRunning s' endT = false := by
  intro fuel
  induction fuel with
  | zero => intro s acc ups s' h; simp [runLoop] at h
  | succ k ih =>
    intro s acc ups s' h hrun
    obtain ⟨c, hc, nw, nx, f, hkc, hlt⟩ := anyRunning_witness s endT hrun
    simp only [runLoop] at h
    cases hsel : select s with
    | none =>
      simp only [select, Option.map_eq_none_iff] at hsel
      exact absurd hsel (C03.selectAux_ne_none s.comps 0 none ⟨s.comp c, by
        simp only [State.comp, List.getD_eq_getElem?_getD, List.getElem?_eq_getElem hc, Option.getD_some]
        exact List.getElem_mem hc, by simp [Comp.isTime, hkc]⟩)
    | some c0 =>
      simp only [hsel] at h
      obtain ⟨hc0, hT0, hmin, _⟩ := C02.select_least s c0 hsel
      have hnow0 : getNow (s.comp c0) < endT := by
        have := hmin c hc (by simp [Comp.isTime, hkc])
        have e : getNow (s.comp c) = nw := by simp only [getNow, hkc]
        omega
      cases hr : updateRec s (s.comps.length + 1) c0 [] none with
      | error e => simp [hr] at h
      | ok r =>
        cases r with
        | none => simp [hr] at h
        | some u =>
          simp only [hr] at h
          have hstep : Sched1 endT s (applyUpdate s u) := .mk c0 u hc0 hnow0 hr
          by_cases hrun' : anyRunning (applyUpdate s u) endT = true
          · simp only [hrun', if_true] at h
            obtain ⟨hreach, hdone⟩ := ih _ _ _ _ h hrun'
            exact ⟨Reach.trans (.step .refl hstep) hreach, hdone⟩
          · simp only [hrun', Bool.false_eq_true, if_false, Prod.mk.injEq] at h
            obtain ⟨_, _, hs'⟩ := h
            subst hs'
            exact ⟨.step .refl hstep, by simpa using hrun'⟩

/-- **Listing-order independence of the run phase** (partial: acyclic compositions of time-stepped
    components; adapters: pass-through, push-based, no-dependency, fixed delay).  Running the code's loop
    under any two listings that contain every component — and the loop in index order — from a state in
    which something is still behind the end time ends in the same components and output times. -/
theorem runLoop_order_independent_partial {s0 : State} (hf : Frag s0) (rank : Nat → Nat)
    (hrank : ∀ e l, IsDep s0 e l → rank e < rank (own s0 l)) (endT : Int)
    (o1 o2 : List Nat) (h1 : ∀ c, c < s0.comps.length → c ∈ o1) (h2 : ∀ c, c < s0.comps.length → c ∈ o2)
    (hrun : anyRunning s0 endT = true)
    (fuel1 fuel2 fuel3 : Nat) (ups1 ups2 ups3 : List (Nat × Int)) (s1 s2 s3 : State)
    (r1 : runLoopOrd o1 fuel1 s0 endT [] = (ups1, .done, s1))
    (r2 : runLoopOrd o2 fuel2 s0 endT [] = (ups2, .done, s2))
    (r3 : runLoop fuel3 s0 endT [] = (ups3, .done, s3)) :
    (s1.comps = s2.comps ∧ s1.outs = s2.outs) ∧ (s1.comps = s3.comps ∧ s1.outs = s3.outs) := by
  obtain ⟨a1, b1⟩ := runLoopOrd_reach o1 endT _ h1 fuel1 s0 [] ups1 s1 rfl r1 hrun
  obtain ⟨a2, b2⟩ := runLoopOrd_reach o2 endT _ h2 fuel2 s0 [] ups2 s2 rfl r2 hrun
  obtain ⟨a3, b3⟩ := runLoop_reach endT fuel3 s0 [] ups3 s3 r3 hrun
  exact ⟨run_confluent hf rank hrank a1 a2 b1 b2, run_confluent hf rank hrank a1 a3 b1 b3⟩

/-! ### non-vacuity: a concrete composition in the fragment -/

/-- A(start 0, step 2) → [DelayFixed 1, LinearTime] → B(start 0, steps 3,1); A → C(start 1, step 2) directly -/
def exState : State :=
  { comps := [⟨.time 0 2 false, [], [2], 0⟩,
              ⟨.time 0 3 false, [⟨[.dfix 1 0, .cache], 0, false⟩], [3, 1], 0⟩,
              ⟨.time 1 3 false, [⟨[], 0, false⟩], [2], 0⟩],
    outs := [⟨0, 0⟩], dp := [] }

def exRank : Nat → Nat := fun c => if c = 0 then 1 else 0

theorem ex_comp_ge (c : Nat) (h : 3 ≤ c) : exState.comp c = ⟨.pull, [], [], 0⟩ :=
  comp_default exState c (by simpa [exState] using h)

theorem ex_frag : Frag exState where
  allTime := by
    intro c hc
    have : c = 0 ∨ c = 1 ∨ c = 2 := by simp [exState] at hc; omega
    rcases this with h | h | h <;> subst h <;> rfl
  notFin := by
    intro c
    rcases Nat.lt_or_ge c 3 with h | h
    · have : c = 0 ∨ c = 1 ∨ c = 2 := by omega
      rcases this with h | h | h <;> subst h <;> rfl
    · rw [ex_comp_ge c h]; rfl
  pos := by
    intro c hc
    have : c = 0 ∨ c = 1 ∨ c = 2 := by simp [exState] at hc; omega
    rcases this with h | h | h <;> subst h <;> (constructor <;> simp [exState, State.comp, getNow, getNext])
  srcLt := by
    intro c l hl
    rcases Nat.lt_or_ge c 3 with h | h
    · have : c = 0 ∨ c = 1 ∨ c = 2 := by omega
      rcases this with h | h | h <;> subst h <;> simp [exState, State.comp] at hl ⊢ <;> (subst hl; simp)
    · rw [ex_comp_ge c h] at hl; cases hl
  ownerLt := by
    intro o ho
    have : o = 0 := by simp [exState] at ho; omega
    subst this; simp [exState, State.out]
  simple := by
    intro c l hl a ha
    rcases Nat.lt_or_ge c 3 with h | h
    · have : c = 0 ∨ c = 1 ∨ c = 2 := by omega
      rcases this with h | h | h <;> subst h <;> simp [exState, State.comp] at hl <;> subst hl <;> simp at ha
      rcases ha with ha | ha <;> subst ha <;> rfl
    · rw [ex_comp_ge c h] at hl; cases hl
  outTime := by
    intro o ho
    have : o = 0 := by simp [exState] at ho; omega
    subst this; rfl

theorem ex_rank : ∀ e l, IsDep exState e l → exRank e < exRank (own exState l) := by
  intro e l ⟨hl, _⟩
  rcases Nat.lt_or_ge e 3 with h | h
  · have : e = 0 ∨ e = 1 ∨ e = 2 := by omega
    rcases this with h | h | h <;> subst h <;> simp [exState, State.comp] at hl <;> subst hl <;>
      simp [exRank, own, exState, State.out]
  · rw [ex_comp_ge e h] at hl; cases hl

/-- the hypotheses of `runLoop_order_independent_partial` are met by `exState` (`ex_frag`, `ex_rank`) with
    end time 4 under the listings [0,1,2] and [2,1,0]: something is running, the three runs complete, the
    update *sequences* differ, and (as the theorem says) the final times agree -/
example : anyRunning exState 4 = true := by decide

set_option maxRecDepth 8000 in
example : (runLoopOrd [0, 1, 2] 9 exState 4 []).2.1 = .done ∧ (runLoopOrd [2, 1, 0] 9 exState 4 []).2.1 = .done
    ∧ (runLoop 9 exState 4 []).2.1 = .done
    ∧ (runLoopOrd [0, 1, 2] 9 exState 4 []).1 ≠ (runLoopOrd [2, 1, 0] 9 exState 4 []).1
    ∧ (runLoopOrd [0, 1, 2] 9 exState 4 []).2.2.comps.map getNow = (runLoopOrd [2, 1, 0] 9 exState 4 []).2.2.comps.map getNow := by
  simp [runLoop, select, selectAux, runLoopOrd, selectOrd, updateRec, depsLoop, findDeps, exState, State.comp, State.out,
    walk, depsInsert, Comp.isTime, applyUpdate, pullAll, pullChain, anyRunning, Ad.withDelay, getNow]

end Finam.Props.C05Run
