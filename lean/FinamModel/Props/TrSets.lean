import FinamModel.PyPrelude
/-
  Python sets as duplicate-free lists (`Py.setAdd`): membership and `Nodup` of what a sequence of `add`s leaves.
  Shared by the proofs about the translated graph walks (`Props/TrCollect.lean`, `Props/TrMissing.lean`); nothing here
  depends on a generated file.
-/
namespace Finam.Py

/-! ### sets as duplicate-free lists -/

theorem mem_setAdd (s : List Nat) (x y : Nat) : y ∈ setAdd s x ↔ y ∈ s ∨ y = x := by
  unfold setAdd
  by_cases h : x ∈ s
  · simp [h]; intro hy; subst hy; exact h
  · simp [h]

theorem nodup_setAdd (s : List Nat) (x : Nat) (hs : s.Nodup) : (setAdd s x).Nodup := by
  unfold setAdd
  by_cases h : x ∈ s
  · simp [h, hs]
  · simp [h, List.nodup_append, hs]
    intro a ha hax; subst hax; exact h ha

def addAll (s : List Nat) (xs : List Nat) : List Nat := xs.foldl setAdd s

theorem addAll_append (s xs ys : List Nat) : addAll s (xs ++ ys) = addAll (addAll s xs) ys := by
  simp [addAll, List.foldl_append]

theorem mem_addAll : ∀ (xs s : List Nat) (y : Nat), y ∈ addAll s xs ↔ y ∈ s ∨ y ∈ xs := by
  intro xs
  induction xs with
  | nil => intro s y; simp [addAll]
  | cons x xs ih =>
    intro s y
    have := ih (setAdd s x) y
    simp only [addAll, List.foldl_cons] at this ⊢
    rw [this, mem_setAdd]
    simp only [List.mem_cons]
    constructor
    · rintro ((h | h) | h)
      · exact .inl h
      · exact .inr (.inl h)
      · exact .inr (.inr h)
    · rintro (h | h | h)
      · exact .inl (.inl h)
      · exact .inl (.inr h)
      · exact .inr h

theorem nodup_addAll : ∀ (xs s : List Nat), s.Nodup → (addAll s xs).Nodup := by
  intro xs
  induction xs with
  | nil => intro s h; simpa [addAll]
  | cons x xs ih => intro s h; exact ih _ (nodup_setAdd s x h)

end Finam.Py
