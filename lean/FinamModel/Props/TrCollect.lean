import FinamModel.Lifecycle
import FinamModel.Props.TrCommon
import FinamModel.Props.TrSets
import FinamModel.Translated.collect_adapters_input
import FinamModel.Translated.collect_adapters_output
import FinamModel.Translated.collect_adapters
/-!
  C03, "every adapter on a link is finalized exactly once" — on the *translated* `_collect_adapters_input`,
  `_collect_adapters_output` and `Composition._collect_adapters` (`schedule.py`, regenerated on every run).

  The Python functions walk the object graph (up along `source` from every input, down along `targets` from every
  output) and `add` what they meet to the set `self._adapters`, which `_finalize_components` then iterates once.
  A Python set is a list without repetitions here (`Py.setAdd`).  `UpPath` / `ARepr` say when heap objects form the
  adapter chain above an input / the tree below an output.
-/
namespace Finam.Props.C03
open Finam Finam.Py

/-! ### upwards from an input -/

/-- `as` are the adapters met walking up along `source` from `x`, ending at an object without source or at a source
    that is no adapter (an output) -/
def UpPath (h : Heap) : Nat → List Nat → Prop
  | x, [] => h.hasSource x = false ∨ h.isAdapter (h.source x) = false
  | x, a :: as => h.hasSource x = true ∧ h.source x = a ∧ h.isAdapter a = true ∧ UpPath h a as

/-- `_collect_adapters_input(inp, s)` adds exactly the adapters above `inp`, in walking order -/
theorem tr_collect_adapters_input (h : Heap) : ∀ (as : List Nat) (x : Nat) (s : List Nat) (fuel : Nat),
    UpPath h x as → as.length < fuel →
    Tr.collect_adapters_input h fuel x s = .ok (addAll s as) := by
  intro as
  induction as with
  | nil =>
    intro x s fuel hp hf
    cases fuel with
    | zero => simp at hf
    | succ f =>
      unfold Tr.collect_adapters_input
      simp only [UpPath] at hp
      rcases hp with hp | hp
      · simp [hp, addAll, pure, Except.pure]
      · by_cases hs : h.hasSource x = false
        · simp [hs, addAll, pure, Except.pure]
        · simp [hs, hp, addAll, pure, Except.pure]
  | cons a as ih =>
    intro x s fuel hp hf
    cases fuel with
    | zero => simp at hf
    | succ f =>
      obtain ⟨h1, h2, h3, h4⟩ := hp
      unfold Tr.collect_adapters_input
      have hf' : as.length < f := by simp at hf; omega
      simp [h1, h2, h3, ih a (setAdd s a) f h4 hf', addAll, bind, Except.bind, pure, Except.pure]

/-! ### downwards from an output -/

inductive ATree where
  | leaf (x : Nat)                     -- a target that is no adapter (an input of a component)
  | ad (x : Nat) (kids : List ATree)   -- an adapter and what hangs below it

mutual
def ARepr (h : Heap) : Nat → ATree → Prop
  | x, .leaf y => x = y ∧ h.isAdapter x = false
  | x, .ad y ks => x = y ∧ h.isAdapter x = true ∧ ALRepr h (h.targets x) ks
def ALRepr (h : Heap) : List Nat → List ATree → Prop
  | [], [] => True
  | x :: xs, t :: ts => ARepr h x t ∧ ALRepr h xs ts
  | _, _ => False
end

mutual
/-- the adapters of a tree in the order of the walk (an adapter, then everything below it, then its siblings) -/
def ATree.pre : ATree → List Nat
  | .leaf _ => []
  | .ad x ks => x :: preL ks
def preL : List ATree → List Nat
  | [] => []
  | t :: ts => t.pre ++ preL ts
end

mutual
def ATree.depth : ATree → Nat
  | .leaf _ => 0
  | .ad _ ks => 1 + depthL ks
def depthL : List ATree → Nat
  | [] => 0
  | t :: ts => max t.depth (depthL ts)
end

/-- the `for trg in out.targets` loop, given what the recursive call does on adapters that fit into the fuel -/
theorem collect_loop (h : Heap) (fuel : Nat)
    (Hrec : ∀ (x : Nat) (ks : List ATree) (s : List Nat), h.isAdapter x = true → ALRepr h (h.targets x) ks →
      1 + depthL ks ≤ fuel → Tr.collect_adapters_output h fuel x s = .ok (addAll s (preL ks))) :
    ∀ (ts : List ATree) (objs : List Nat) (s : List Nat) (out : Nat), ALRepr h objs ts → depthL ts ≤ fuel →
      Tr.collect_adapters_output.loop1 fuel h out s objs = .ok (addAll s (preL ts)) := by
  intro ts
  induction ts with
  | nil =>
    intro objs s out hr _
    cases objs with
    | nil => unfold Tr.collect_adapters_output.loop1; simp [preL, addAll, pure, Except.pure]
    | cons _ _ => simp [ALRepr] at hr
  | cons t ts ih =>
    intro objs s out hr hd
    cases objs with
    | nil => simp [ALRepr] at hr
    | cons x xs =>
      simp only [ALRepr] at hr
      obtain ⟨hx, hxs⟩ := hr
      simp only [depthL] at hd
      have hdt : t.depth ≤ fuel := by omega
      have hds : depthL ts ≤ fuel := by omega
      unfold Tr.collect_adapters_output.loop1
      cases t with
      | leaf y =>
        simp only [ARepr] at hx
        simp [hx.2, ih xs s out hxs hds, preL, ATree.pre]
      | ad y ks =>
        simp only [ARepr] at hx
        obtain ⟨hxy, hax, hks⟩ := hx
        subst hxy
        simp only [ATree.depth] at hdt
        simp [hax, Hrec x ks (setAdd s x) hax hks hdt, bind, Except.bind, ih xs _ out hxs hds, preL, ATree.pre,
          addAll, List.foldl_append]

/-- `_collect_adapters_output(out, s)` adds exactly the adapters below `out`, in walking order (an adapter itself is
    added by its caller) -/
theorem tr_collect_adapters_output (h : Heap) : ∀ (fuel : Nat) (x : Nat) (ks : List ATree) (s : List Nat),
    ALRepr h (h.targets x) ks → 1 + depthL ks ≤ fuel →
    Tr.collect_adapters_output h fuel x s = .ok (addAll s (preL ks)) := by
  intro fuel
  induction fuel with
  | zero => intro x ks s _ hd; omega
  | succ f ih =>
    intro x ks s hr hd
    unfold Tr.collect_adapters_output
    have hl := collect_loop h f (fun x ks s _ hr hd => ih x ks s hr hd) ks (h.targets x) s x hr (by omega)
    simp [hl, bind, Except.bind, pure, Except.pure]

/-! ### the composition -/

/-- what `_collect_adapters` meets for one component: above each input, below each output -/
def metFor (up : Nat → List Nat) (down : Nat → List ATree) (h : Heap) (c : Nat) : List Nat :=
  (h.inputs c).flatMap up ++ (h.outputs c).flatMap (fun o => preL (down o))

/-- the heap is described by `up` / `down` around the listed components, within the fuel `h.size + 1` the code uses -/
structure Described (h : Heap) (comps : List Nat) (up : Nat → List Nat) (down : Nat → List ATree) : Prop where
  ups : ∀ c ∈ comps, ∀ i ∈ h.inputs c, UpPath h i (up i) ∧ (up i).length ≤ h.size
  downs : ∀ c ∈ comps, ∀ o ∈ h.outputs c, ALRepr h (h.targets o) (down o) ∧ depthL (down o) ≤ h.size

theorem collect_inputs (h : Heap) (up : Nat → List Nat) (c : Nat) : ∀ (is : List Nat) (s : List Nat),
    (∀ i ∈ is, UpPath h i (up i) ∧ (up i).length ≤ h.size) →
    Tr.collect_adapters.loop2 h s c (is.map fun i => ((), i)) = .ok (addAll s (is.flatMap up)) := by
  intro is
  induction is with
  | nil => intro s _; unfold Tr.collect_adapters.loop2; simp [addAll, pure, Except.pure]
  | cons i is ih =>
    intro s hi
    have h1 := hi i List.mem_cons_self
    have h2 := tr_collect_adapters_input h (up i) i s (h.size + 1) h1.1 (by omega)
    simp only [List.map_cons]
    unfold Tr.collect_adapters.loop2
    simp [h2, bind, Except.bind, ih _ (fun j hj => hi j (List.mem_cons_of_mem _ hj)), addAll, List.foldl_append]

theorem collect_outputs (h : Heap) (down : Nat → List ATree) (c : Nat) : ∀ (os : List Nat) (s : List Nat),
    (∀ o ∈ os, ALRepr h (h.targets o) (down o) ∧ depthL (down o) ≤ h.size) →
    Tr.collect_adapters.loop3 h s c (os.map fun o => ((), o)) = .ok (addAll s (os.flatMap fun o => preL (down o))) := by
  intro os
  induction os with
  | nil => intro s _; unfold Tr.collect_adapters.loop3; simp [addAll, pure, Except.pure]
  | cons o os ih =>
    intro s ho
    have h1 := ho o List.mem_cons_self
    have h2 := tr_collect_adapters_output h (h.size + 1) o (down o) s h1.1 (by omega)
    simp only [List.map_cons]
    unfold Tr.collect_adapters.loop3
    simp [h2, bind, Except.bind, ih _ (fun j hj => ho j (List.mem_cons_of_mem _ hj)), addAll, List.foldl_append]

theorem collect_comps (h : Heap) (all : List Nat) (up : Nat → List Nat) (down : Nat → List ATree) :
    ∀ (cs : List Nat) (s : List Nat), Described h cs up down →
    Tr.collect_adapters.loop1 h all s cs = .ok (addAll s (cs.flatMap (metFor up down h))) := by
  intro cs
  induction cs with
  | nil => intro s _; unfold Tr.collect_adapters.loop1; simp [addAll, pure, Except.pure]
  | cons c cs ih =>
    intro s hd
    have hi := collect_inputs h up c (h.inputs c) s (hd.ups c List.mem_cons_self)
    have ho := collect_outputs h down c (h.outputs c) (addAll s ((h.inputs c).flatMap up)) (hd.downs c List.mem_cons_self)
    have hd' : Described h cs up down :=
      ⟨fun c' hc' => hd.ups c' (List.mem_cons_of_mem _ hc'), fun c' hc' => hd.downs c' (List.mem_cons_of_mem _ hc')⟩
    unfold Tr.collect_adapters.loop1
    simp only [hi, ho, bind, Except.bind, ih _ hd', List.flatMap_cons, metFor, addAll_append]

/-- **`Composition._collect_adapters`** adds to `self._adapters` exactly what lies above the inputs and below the
    outputs of the listed components -/
theorem tr_collect_adapters (h : Heap) (comps s : List Nat) (up : Nat → List Nat) (down : Nat → List ATree)
    (hd : Described h comps up down) :
    Tr.collect_adapters h comps s = .ok (addAll s (comps.flatMap (metFor up down h))) := by
  unfold Tr.collect_adapters
  simp [collect_comps h comps up down comps s hd, bind, Except.bind, pure, Except.pure]

/-- **C03 on the code — adapters.**  The set `_finalize_components` iterates (once per element) contains every
    adapter above an input or below an output of a listed component, nothing else, and none of them twice: each
    adapter on a link is finalized exactly once, however many inputs and outputs reach it. -/
theorem code_adapters_collected_once (h : Heap) (comps : List Nat) (up : Nat → List Nat) (down : Nat → List ATree)
    (hd : Described h comps up down) :
    ∃ ads, Tr.collect_adapters h comps [] = .ok ads ∧ ads.Nodup ∧
      ∀ a, a ∈ ads ↔ ∃ c ∈ comps, (∃ i ∈ h.inputs c, a ∈ up i) ∨ (∃ o ∈ h.outputs c, a ∈ preL (down o)) := by
  refine ⟨_, tr_collect_adapters h comps [] up down hd, nodup_addAll _ _ List.nodup_nil, ?_⟩
  intro a
  rw [mem_addAll]
  simp only [List.not_mem_nil, false_or, List.mem_flatMap, metFor, List.mem_append]

/-- the model's `finalizeList` (`Props/C03.adapters_finalized_once`) is this list up to order: same members, no
    repetition -/
theorem code_adapters_match_model (collected : List Nat) (s : List Nat) (hs : s = addAll [] collected) :
    s.Nodup ∧ ∀ a, a ∈ s ↔ a ∈ collected := by
  subst hs
  exact ⟨nodup_addAll _ _ List.nodup_nil, fun a => by simp [mem_addAll]⟩

/-! ### non-vacuity: out(10) → A(1) → {B(2) → in(20), in(21)},  out → in(22);  in(20) sees B, A above it -/

def exH : Heap :=
  { isInput := fun x => x ∈ [1, 2, 20, 21, 22], isOutput := fun x => x ∈ [10, 1, 2], isAdapter := fun x => x ∈ [1, 2],
    isNoDep := fun _ => false, isDelay := fun _ => false, isNoBranch := fun _ => false, isTimeComp := fun _ => false,
    needsPush := fun _ => false, needsPull := fun _ => false, isStatic := fun _ => false, finished := fun _ => false,
    hasSource := fun x => x ∈ [1, 2, 20, 21, 22],
    source := fun x => if x = 20 then 2 else if x = 2 then 1 else if x = 21 then 1 else 10,
    time := fun _ => 0, nextTime := fun _ => 0, withDelay := fun _ t => t, owner := fun _ => 0,
    inputs := fun c => if c = 1 then [20, 21, 22] else [], outputs := fun c => if c = 0 then [10] else [],
    targets := fun x => if x = 10 then [1, 22] else if x = 1 then [2, 21] else if x = 2 then [20] else [],
    size := 8 }

def exUp : Nat → List Nat := fun i => if i = 20 then [2, 1] else if i = 21 then [1] else []
def exDown : Nat → List ATree := fun o => if o = 10 then [.ad 1 [.ad 2 [.leaf 20], .leaf 21], .leaf 22] else []

theorem exDescribed : Described exH [0, 1] exUp exDown := by
  unfold exUp exDown
  constructor
  · intro c hc i hi
    simp at hc
    rcases hc with hc | hc <;> subst hc <;> simp [exH] at hi
    rcases hi with hi | hi | hi <;> subst hi <;> simp [UpPath, exH]
  · intro c hc o ho
    simp at hc
    rcases hc with hc | hc <;> subst hc <;> simp [exH] at ho
    subst ho
    simp [ALRepr, ARepr, exH, depthL, ATree.depth]

/-- the adapters `A` and `B` are reached from the output, from `in(20)` and from `in(21)`; each is collected once -/
example : Tr.collect_adapters exH [0, 1] [] = .ok [1, 2] := by
  rw [tr_collect_adapters exH [0, 1] [] exUp exDown exDescribed]
  decide

end Finam.Props.C03
