import FinamModel.SchedLemmas
/-!
  C04 — unresolvable dependency cycles are reported; delay-resolved cycles run.
-/
namespace Finam.Props.C04
open Finam

/-! ### no unbounded recursion -/

/-- pigeonhole: a duplicate-free list of naturals below `n` has at most `n` elements -/
theorem nodup_bounded_length : ∀ (n : Nat) (l : List Nat), l.Nodup → (∀ x ∈ l, x < n) → l.length ≤ n := by
  intro n
  induction n with
  | zero => intro l _ hb; cases l with
    | nil => simp
    | cons a _ => exact absurd (hb a (by simp)) (by omega)
  | succ n ih =>
    intro l hnd hb
    have hlen : (l.erase n).length ≤ n := by
      apply ih
      · exact hnd.erase n
      · intro x hx
        have hxl : x ∈ l := List.mem_of_mem_erase hx
        have hne : x ≠ n := by
          intro h; subst h
          exact (List.Nodup.mem_erase_iff hnd).mp hx |>.1 rfl
        have := hb x hxl; omega
    have : l.length ≤ (l.erase n).length + 1 := by
      rw [List.length_erase]; split <;> omega
    omega

/-- all owners of outputs are components of the composition (guaranteed by validation, C19) -/
def WF (s : State) : Prop := ∀ o, (s.out o).owner < s.comps.length

/-- **No unbounded recursion.** With fuel exceeding the number of components not yet on the chain the
    dependency walk never runs dry — for every coupling graph; in particular `#components + 1` is
    enough from an empty chain, which is what the run loop uses. -/
theorem updateRec_fuel_enough (s : State) (hwf : WF s) : ∀ (fuel : Nat),
    (∀ c chain tgt, c < s.comps.length → chain.Nodup → (∀ x ∈ chain, x < s.comps.length) →
        s.comps.length < fuel + chain.length → updateRec s fuel c chain tgt ≠ .error .fuel) ∧
    (∀ chain deps, chain.Nodup → (∀ x ∈ chain, x < s.comps.length) →
        s.comps.length < fuel + chain.length → depsLoop s fuel chain deps ≠ .error .fuel) := by
  intro fuel
  induction fuel with
  | zero =>
    constructor
    · intro c chain tgt _ hnd hb hf
      have := nodup_bounded_length _ chain hnd hb; omega
    · intro chain deps hnd hb hf
      have := nodup_bounded_length _ chain hnd hb; omega
  | succ n ih =>
    obtain ⟨ihU, ihL⟩ := ih
    have hU : ∀ c chain tgt, c < s.comps.length → chain.Nodup → (∀ x ∈ chain, x < s.comps.length) →
        s.comps.length < (n+1) + chain.length → updateRec s (n+1) c chain tgt ≠ .error .fuel := by
      intro c chain tgt hc hnd hb hf
      simp only [updateRec]
      split
      · simp
      · rename_i hnot
        have hnd' : (c :: chain).Nodup := List.nodup_cons.mpr ⟨hnot, hnd⟩
        have hb' : ∀ x ∈ c :: chain, x < s.comps.length := by
          intro x hx; cases hx with
          | head => exact hc
          | tail _ h => exact hb x h
        have := ihL (c :: chain) (findDeps s c (match (s.comp c).kind with | .time _ nx _ => nx | .pull => tgt.getD 0)) hnd' hb' (by simp only [List.length_cons]; omega)
        split
        · rename_i e he; intro h; cases h; exact this he
        · simp
        · split
          · split <;> simp
          · simp
    refine ⟨hU, ?_⟩
    intro chain deps hnd hb hf
    induction deps with
    | nil => simp [depsLoop]
    | cons p ps ihd =>
      obtain ⟨o, lt⟩ := p
      simp only [depsLoop]
      split
      · split
        · exact hU _ _ _ (hwf o) hnd hb hf
        · exact ihd
      · have h1 := hU (s.out o).owner chain (some lt) (hwf o) hnd hb hf
        split
        · rename_i e he; intro h; cases h; exact h1 he
        · simp
        · exact ihd

/-- the run loop's call never ends with the internal out-of-fuel result -/
theorem run_call_never_out_of_fuel (s : State) (hwf : WF s) (c : Nat) (hc : c < s.comps.length) :
    updateRec s (s.comps.length + 1) c [] none ≠ .error .fuel :=
  (updateRec_fuel_enough s hwf (s.comps.length + 1)).1 c [] none hc List.nodup_nil (by simp) (by simp)

/-! ### a reported cycle is a genuine cycle of lagging dependencies -/

def targetOf (s : State) (c : Nat) (tgt : Option Int) : Int :=
  match (s.comp c).kind with | .time _ nx _ => nx | .pull => tgt.getD 0

/-- one step of the recursion: `c` (asked for `tgt` if pull-based) depends on an output whose owner
    lags (time-stepped) or has to be explored for the propagated time (pull-based) -/
inductive Edge (s : State) : (Nat × Option Int) → (Nat × Option Int) → Prop where
  | time (c tgt o lt) : (o, lt) ∈ findDeps s c (targetOf s c tgt) →
      (s.comp (s.out o).owner).isTime = true → (s.out o).time < lt →
      Edge s (c, tgt) ((s.out o).owner, none)
  | pull (c tgt o lt) : (o, lt) ∈ findDeps s c (targetOf s c tgt) →
      (s.comp (s.out o).owner).isTime = false →
      Edge s (c, tgt) ((s.out o).owner, some lt)

inductive Star (s : State) : (Nat × Option Int) → (Nat × Option Int) → Prop where
  | refl (a) : Star s a a
  | step {a b c} : Edge s a b → Star s b c → Star s a c

inductive Plus (s : State) : (Nat × Option Int) → (Nat × Option Int) → Prop where
  | mk {a b c} : Edge s a b → Star s b c → Plus s a c

theorem Star.trans {s : State} {a b c} (h1 : Star s a b) (h2 : Star s b c) : Star s a c := by
  induction h1 with
  | refl => exact h2
  | step e _ ih => exact .step e (ih h2)

/-- the walk from `(c, tgt)` either runs into a component already on the chain, or into a cycle -/
def Cyc (s : State) (c : Nat) (tgt : Option Int) (chain : List Nat) : Prop :=
  (∃ x t', Star s (c, tgt) (x, t') ∧ x ∈ chain) ∨
  (∃ x t1 t2, Star s (c, tgt) (x, t1) ∧ Plus s (x, t1) (x, t2))

theorem circular_sound_aux (s : State) : ∀ (fuel : Nat),
    (∀ c chain tgt, updateRec s fuel c chain tgt = .error .circular → Cyc s c tgt chain) ∧
    (∀ c tgt chain deps, (∀ p ∈ deps, p ∈ findDeps s c (targetOf s c tgt)) →
        depsLoop s fuel (c :: chain) deps = .error .circular →
        ∃ c' tgt', Edge s (c, tgt) (c', tgt') ∧ Cyc s c' tgt' (c :: chain)) := by
  intro fuel
  induction fuel with
  | zero =>
    constructor
    · intro c chain tgt h; simp [updateRec] at h
    · intro c tgt chain deps
      induction deps with
      | nil => intro _ h; simp [depsLoop] at h
      | cons p ps ih =>
        intro hsub h
        obtain ⟨o, lt⟩ := p
        simp only [depsLoop] at h
        split at h
        · split at h
          · simp [updateRec] at h
          · exact ih (fun q hq => hsub q (List.mem_cons_of_mem _ hq)) h
        · simp [updateRec] at h
  | succ n ihn =>
    obtain ⟨ihU, ihL⟩ := ihn
    have hU : ∀ c chain tgt, updateRec s (n+1) c chain tgt = .error .circular → Cyc s c tgt chain := by
      intro c chain tgt h
      simp only [updateRec] at h
      split at h
      · rename_i hin
        exact Or.inl ⟨c, tgt, .refl _, hin⟩
      · split at h
        · rename_i e he
          cases h
          obtain ⟨c', tgt', hedge, hcyc⟩ := ihL c tgt chain _ (fun p hp => hp) he
          rcases hcyc with ⟨x, t', hstar, hx⟩ | ⟨x, t1, t2, hstar, hplus⟩
          · cases hx with
            | head => exact Or.inr ⟨c, tgt, t', .refl _, .mk hedge hstar⟩
            | tail _ hx' => exact Or.inl ⟨x, t', .step hedge hstar, hx'⟩
          · exact Or.inr ⟨x, t1, t2, .step hedge hstar, hplus⟩
        · cases h
        · split at h
          · split at h <;> cases h
          · cases h
    refine ⟨hU, ?_⟩
    intro c tgt chain deps
    induction deps with
    | nil => intro _ h; simp [depsLoop] at h
    | cons p ps ih =>
      intro hsub h
      obtain ⟨o, lt⟩ := p
      have hmem : (o, lt) ∈ findDeps s c (targetOf s c tgt) := hsub _ (by simp)
      have hrest : ∀ q ∈ ps, q ∈ findDeps s c (targetOf s c tgt) := fun q hq => hsub q (List.mem_cons_of_mem _ hq)
      simp only [depsLoop] at h
      split at h
      · rename_i hT
        split at h
        · rename_i hlag
          exact ⟨_, _, .time c tgt o lt hmem hT hlag, hU _ _ _ h⟩
        · exact ih hrest h
      · rename_i hP
        split at h
        · rename_i e he
          cases h
          exact ⟨_, _, .pull c tgt o lt hmem (by simpa using hP), hU _ _ _ he⟩
        · cases h
        · exact ih hrest h

/-- **A reported cycle is genuine.** If the dependency walk started by the run loop ends with the
    circular-coupling error, the snapshot contains a cycle of lagging dependencies (through
    time-stepped and pull-based components alike) that is reachable from the selected component. -/
theorem circular_sound (s : State) (fuel : Nat) (c : Nat)
    (h : updateRec s fuel c [] none = .error .circular) :
    ∃ x t1 t2, Star s (c, none) (x, t1) ∧ Plus s (x, t1) (x, t2) := by
  rcases (circular_sound_aux s fuel).1 c [] none h with ⟨x, _, _, hx⟩ | h'
  · cases hx
  · exact h'

/-! ### nothing that lacks data is ever updated (no silently wrong schedule) -/

/-- a component with a link whose source — owned by a time-stepped component — is behind what the
    link demands is never the result of the dependency walk, whatever the rest of the graph is -/
theorem lagging_never_updated (s : State) (fuel : Nat) (c0 : Nat) (chain : List Nat) (tgt : Option Int)
    (u : Nat) (h : updateRec s fuel c0 chain tgt = .ok (some u))
    (l : Link) (hl : l ∈ (s.comp u).inputs) (hst : l.static = false)
    (hT : (s.comp (s.out l.src).owner).isTime = true)
    (lt : Int) (hn : need s.dp l.ads (getNext (s.comp u)) = some lt) (hlag : (s.out l.src).time < lt) : False := by
  have := (Finam.updateRec_sound s fuel).1 c0 chain tgt (some u) h
  obtain ⟨nw, nx, hk, hr⟩ := this
  have hnx : getNext (s.comp u) = nx := by simp [getNext, hk]
  rw [hnx] at hn
  have := hr l hl hst lt hn
  cases this with
  | time _ _ _ hle => omega
  | pull _ _ hP _ => simp [hT] at hP

/-! ### sufficient delay leaves no cycle of lags (ring algebra) -/

/-- a component on a ring: current time, announced step, accumulated delay on its incoming link -/
structure RingNode where
  t : Int
  s : Int
  d : Int
deriving Repr

/-- `b` (upstream of `a`, started at `bstart ≤ b.t`) lags behind what `a` needs for its announced
    pull, the delayed request being clamped at `bstart` -/
def lag (a b : RingNode) (bstart : Int) : Prop := b.t < max (a.t + a.s - a.d) bstart

def chainLag : List (RingNode × Int) → (RingNode × Int) → Prop
  | [], _ => True
  | [a], f => lag a.1 f.1 f.2
  | a :: b :: r, f => lag a.1 b.1 b.2 ∧ chainLag (b :: r) f

def slack : List (RingNode × Int) → Int
  | [] => 0
  | a :: r => (a.1.s - a.1.d) + slack r

theorem chainLag_bound : ∀ (l : List (RingNode × Int)) (h f : RingNode × Int),
    (∀ x ∈ (h :: l), x.2 ≤ x.1.t) → f.2 ≤ f.1.t →
    chainLag (h :: l) f → f.1.t < h.1.t + slack (h :: l) := by
  intro l
  induction l with
  | nil =>
    intro h f _ hf hc
    simp only [chainLag, lag] at hc
    simp only [slack]
    omega
  | cons b r ih =>
    intro h f hst hf hc
    simp only [chainLag] at hc
    obtain ⟨h1, h2⟩ := hc
    have hb : b.2 ≤ b.1.t := hst b (by simp)
    have := ih b f (fun x hx => hst x (List.mem_cons_of_mem _ hx)) hf h2
    simp only [lag] at h1
    simp only [slack] at *
    omega

/-- **Sufficient delay.** On a ring (of any length) whose accumulated link delays sum to at least the
    sum of the announced steps, the lag conditions cannot all hold in any snapshot — wherever the
    delay sits and however it is split — so no circular-coupling error can be due to that ring.
    (`walk_eq_need` shows that the driver sees the accumulated delay of each link.)
    Partial with respect to the property's second sentence: completion of the whole run additionally
    needs the termination argument of C03 and is validated by the correspondence engine. -/
theorem no_lag_cycle_of_delay_sum_partial (h : RingNode × Int) (l : List (RingNode × Int))
    (hst : ∀ x ∈ (h :: l), x.2 ≤ x.1.t)
    (hsum : slack (h :: l) ≤ 0) : ¬ chainLag (h :: l) h := by
  intro hc
  have := chainLag_bound l h h hst (hst h (by simp)) hc
  omega

example : slack [(⟨0, 3, 4⟩, 0), (⟨0, 4, 3⟩, 0)] ≤ 0 ∧
    ¬ chainLag [((⟨0, 3, 4⟩ : RingNode), (0 : Int)), (⟨0, 4, 3⟩, 0)] (⟨0, 3, 4⟩, 0) := by
  refine ⟨by decide, ?_⟩
  apply no_lag_cycle_of_delay_sum_partial
  · intro x hx; simp at hx; rcases hx with h | h <;> subst h <;> simp
  · decide

def ringState : State :=
  { comps := [⟨.time 0 2 false, [⟨[], 1, false⟩], [2], 0⟩, ⟨.time 0 3 false, [⟨[], 0, false⟩], [3], 0⟩],
    outs := [⟨0, 0⟩, ⟨1, 0⟩], dp := [] }

/-- a two-component ring without delay is reported -/
example : updateRec ringState 3 0 [] none = .error .circular := by
  simp [updateRec, depsLoop, findDeps, ringState, State.comp, State.out, walk, depsInsert, Comp.isTime]

end Finam.Props.C04
