import FinamModel.Connect
import FinamModel.Translated.connect_status
import FinamModel.Translated.connect_flags
/-
  The status a `ConnectHelper.connect` call reports and what `Composition._connect_components` makes of it — both
  translated (as slices) from `finam/tools/connect_helper.py` and `finam/schedule.py` on every run.  C06: "a component
  is never reported connected while one of its declared exchanges is outstanding, and a connect call reports progress
  exactly when something new was exchanged".
-/
namespace Finam.Props.C06
open Finam Finam.Py Finam.Connect

def statusCode : Status → Int
  | .connected => 0
  | .connecting => 1
  | .idle => 2
  | .initialized => 3

/-- the status the property demands, on the five maps of the connect helper: CONNECTED iff nothing is outstanding,
    otherwise CONNECTING iff the call exchanged something new -/
def specStatus (inInfos outInfos inData : List (Option Unit)) (infosPushed dataPushed : List Bool) (anyDone : Bool) : Status :=
  if inInfos.all Option.isSome && outInfos.all Option.isSome && inData.all Option.isSome &&
      infosPushed.all (· = true) && dataPushed.all (· = true) then .connected
  else if anyDone then .connecting else .idle

theorem all_isSome (l : List (Option Unit)) :
    (l.all fun v => decide (v.isNone = false)) = l.all Option.isSome := by
  induction l with
  | nil => rfl
  | cons v l ih => cases v <;> simp [ih]

/-- **the status of a connect call** is `specStatus` of its five maps -/
theorem tr_connect_status (ii oi idt : List (Nat × Option Unit)) (ip dp : List (Nat × Bool)) (anyDone : Bool) :
    Tr.connect_status ii oi idt ip dp anyDone =
      .ok (statusCode (specStatus (ii.map Prod.snd) (oi.map Prod.snd) (idt.map Prod.snd) (ip.map Prod.snd) (dp.map Prod.snd) anyDone)) := by
  unfold Tr.connect_status specStatus
  simp only [all_isSome]
  cases h1 : (ii.map Prod.snd).all Option.isSome <;> cases h2 : (oi.map Prod.snd).all Option.isSome <;>
    cases h3 : (idt.map Prod.snd).all Option.isSome <;>
    cases h4 : (ip.map Prod.snd).all (fun v => decide (v = true)) <;>
    cases h5 : (dp.map Prod.snd).all (fun v => decide (v = true)) <;>
    cases anyDone <;> simp [statusCode, h4, h5]

/-- never CONNECTED while an exchange is outstanding; CONNECTING exactly when something new was exchanged (and
    something is still outstanding) -/
theorem connect_status_reading (ii oi idt : List (Option Unit)) (ip dp : List Bool) (anyDone : Bool) :
    (specStatus ii oi idt ip dp anyDone = .connected ↔
      (∀ v ∈ ii, v.isSome) ∧ (∀ v ∈ oi, v.isSome) ∧ (∀ v ∈ idt, v.isSome) ∧ (∀ v ∈ ip, v = true) ∧ (∀ v ∈ dp, v = true)) ∧
    (specStatus ii oi idt ip dp anyDone = .connecting → anyDone = true) ∧
    (specStatus ii oi idt ip dp anyDone = .idle → anyDone = false) := by
  unfold specStatus
  refine ⟨?_, ?_, ?_⟩
  · constructor
    · intro h
      split at h
      · rename_i hc
        simp only [Bool.and_eq_true, List.all_eq_true, decide_eq_true_eq] at hc
        exact ⟨hc.1.1.1.1, hc.1.1.1.2, hc.1.1.2, hc.1.2, hc.2⟩
      · split at h <;> cases h
    · intro ⟨a, b, c, d, e⟩
      have : (ii.all Option.isSome && oi.all Option.isSome && idt.all Option.isSome &&
          ip.all (· = true) && dp.all (· = true)) = true := by
        simp only [Bool.and_eq_true, List.all_eq_true, decide_eq_true_eq]
        exact ⟨⟨⟨⟨a, b⟩, c⟩, d⟩, e⟩
      rw [if_pos this]
  · intro h; split at h
    · cases h
    · split at h
      · assumption
      · cases h
  · intro h; split at h
    · cases h
    · split at h
      · cases h
      · rename_i hn; simpa using hn

/-- **the connect loop's flags**: a component that is not CONNECTED keeps the loop going, and anything but
    CONNECTING_IDLE counts as progress — the flags of `stepComp` -/
theorem tr_connect_flags (st : Status) (hs : st ≠ .initialized) (anew aun : Bool) :
    Tr.connect_flags (statusCode st) anew aun =
      .ok (anew || (st != .idle), aun || (st != .connected)) := by
  cases st <;> simp [Tr.connect_flags, Tr.connect_flags.join1, Tr.connect_flags.join2, statusCode] at hs ⊢

end Finam.Props.C06
