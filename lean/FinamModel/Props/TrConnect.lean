import FinamModel.Connect
import FinamModel.Translated.connect_status
import FinamModel.Translated.connect_flags
import FinamModel.Translated.ConnectHelper__push_data
/-
  The status a `ConnectHelper.connect` call reports and what `Composition._connect_components` makes of it — both
  translated (as slices) from `finam/tools/connect_helper.py` and `finam/schedule.py` on every run.  C06: "a component
  is never reported connected while one of its declared exchanges is outstanding, and a connect call reports progress
  exactly when something new was exchanged".
-/
namespace Finam.Props.C06
open Finam Finam.Py Finam.Connect

def statusCode : Status → Int
  | .connected => 0
  | .connecting => 1
  | .idle => 2
  | .initialized => 3

/-- the status the property demands, on the five maps of the connect helper: CONNECTED iff nothing is outstanding,
    otherwise CONNECTING iff the call exchanged something new -/
def specStatus (inInfos outInfos inData : List (Option Unit)) (infosPushed dataPushed : List Bool) (anyDone : Bool) : Status :=
  if inInfos.all Option.isSome && outInfos.all Option.isSome && inData.all Option.isSome &&
      infosPushed.all (· = true) && dataPushed.all (· = true) then .connected
  else if anyDone then .connecting else .idle

theorem all_isSome (l : List (Option Unit)) :
    (l.all fun v => decide (v.isNone = false)) = l.all Option.isSome := by
  induction l with
  | nil => rfl
  | cons v l ih => cases v <;> simp [ih]

/-- **the status of a connect call** is `specStatus` of its five maps -/
theorem tr_connect_status (ii oi idt : List (Nat × Option Unit)) (ip dp : List (Nat × Bool)) (anyDone : Bool) :
    Tr.connect_status ii oi idt ip dp anyDone =
      .ok (statusCode (specStatus (ii.map Prod.snd) (oi.map Prod.snd) (idt.map Prod.snd) (ip.map Prod.snd) (dp.map Prod.snd) anyDone)) := by
  unfold Tr.connect_status specStatus
  simp only [all_isSome]
  cases h1 : (ii.map Prod.snd).all Option.isSome <;> cases h2 : (oi.map Prod.snd).all Option.isSome <;>
    cases h3 : (idt.map Prod.snd).all Option.isSome <;>
    cases h4 : (ip.map Prod.snd).all (fun v => decide (v = true)) <;>
    cases h5 : (dp.map Prod.snd).all (fun v => decide (v = true)) <;>
    cases anyDone <;> simp [statusCode, h4, h5]

/-- never CONNECTED while an exchange is outstanding; CONNECTING exactly when something new was exchanged (and
    something is still outstanding) -/
theorem connect_status_reading (ii oi idt : List (Option Unit)) (ip dp : List Bool) (anyDone : Bool) :
    (specStatus ii oi idt ip dp anyDone = .connected ↔
      (∀ v ∈ ii, v.isSome) ∧ (∀ v ∈ oi, v.isSome) ∧ (∀ v ∈ idt, v.isSome) ∧ (∀ v ∈ ip, v = true) ∧ (∀ v ∈ dp, v = true)) ∧
    (specStatus ii oi idt ip dp anyDone = .connecting → anyDone = true) ∧
    (specStatus ii oi idt ip dp anyDone = .idle → anyDone = false) := by
  unfold specStatus
  refine ⟨?_, ?_, ?_⟩
  · constructor
    · intro h
      split at h
      · rename_i hc
        simp only [Bool.and_eq_true, List.all_eq_true, decide_eq_true_eq] at hc
        exact ⟨hc.1.1.1.1, hc.1.1.1.2, hc.1.1.2, hc.1.2, hc.2⟩
      · split at h <;> cases h
    · intro ⟨a, b, c, d, e⟩
      have : (ii.all Option.isSome && oi.all Option.isSome && idt.all Option.isSome &&
          ip.all (· = true) && dp.all (· = true)) = true := by
        simp only [Bool.and_eq_true, List.all_eq_true, decide_eq_true_eq]
        exact ⟨⟨⟨⟨a, b⟩, c⟩, d⟩, e⟩
      rw [if_pos this]
  · intro h; split at h
    · cases h
    · split at h
      · assumption
      · cases h
  · intro h; split at h
    · cases h
    · split at h
      · cases h
      · rename_i hn; simpa using hn

/-- **the connect loop's flags**: a component that is not CONNECTED keeps the loop going, and anything but
    CONNECTING_IDLE counts as progress — the flags of `stepComp` -/
theorem tr_connect_flags (st : Status) (hs : st ≠ .initialized) (anew aun : Bool) :
    Tr.connect_flags (statusCode st) anew aun =
      .ok (anew || (st != .idle), aun || (st != .connected)) := by
  cases st <;> simp [Tr.connect_flags, Tr.connect_flags.join1, Tr.connect_flags.join2, statusCode] at hs ⊢

/-- **`ConnectHelper._push_data`** — how the initial data of an output reach it: a static output gets one publication
    without a time; otherwise the data are published for the composition's start time *and* for the time of the output's
    metadata when the two differ (so that both the driver's initial pull at the start time and consumers that ask for the
    metadata time are served), once for the metadata time when they agree; the output is marked as served -/
theorem tr_ConnectHelper__push_data (pushed : List (Nat × Bool)) (trace : List (Option Int)) (name : Nat)
    (time infoTime : Option Int) (static : Bool) :
    Tr.ConnectHelper__push_data pushed trace name time infoTime static =
      .ok (Py.dictSet pushed name true,
           trace ++ (if static then [none] else if infoTime ≠ time then [time, infoTime] else [infoTime])) := by
  unfold Tr.ConnectHelper__push_data Tr.ConnectHelper__push_data.join1
  cases static
  · by_cases h : infoTime = time <;> simp [h, Py.recordPush, bind, Except.bind, pure, Except.pure]
  · simp [Py.recordPush, bind, Except.bind, pure, Except.pure]

/-- **initial data are available at the start time, on the code**: whatever the metadata time of a non-static output
    is, its initial data are published for the composition's start time (the time of the driver's initial pulls) -/
theorem code_initial_data_at_start (pushed : List (Nat × Bool)) (name : Nat) (start infoTime : Option Int) :
    ∃ p tr, Tr.ConnectHelper__push_data pushed [] name start infoTime false = .ok (p, tr) ∧ start ∈ tr ∧ infoTime ∈ tr ∧
      Py.dictGet? p name = some true := by
  refine ⟨_, _, tr_ConnectHelper__push_data pushed [] name start infoTime false, ?_, ?_, ?_⟩
  · by_cases h : infoTime = start <;> simp [h]
  · by_cases h : infoTime = start <;> simp [h]
  · induction pushed with
    | nil => simp [Py.dictSet, Py.dictGet?]
    | cons q pushed ih =>
      obtain ⟨k, v⟩ := q
      by_cases hk : k = name <;> simp [Py.dictSet, Py.dictGet?, hk, ih]

end Finam.Props.C06
