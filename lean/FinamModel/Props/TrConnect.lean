import FinamModel.Connect
import FinamModel.Props.C06
import FinamModel.Translated.connect_status
import FinamModel.Translated.connect_flags
import FinamModel.Translated.ConnectHelper__push_data
import FinamModel.Translated.connect_components
/-
  The status a `ConnectHelper.connect` call reports and what `Composition._connect_components` makes of it — both
  translated (as slices) from `finam/tools/connect_helper.py` and `finam/schedule.py` on every run.  C06: "a component
  is never reported connected while one of its declared exchanges is outstanding, and a connect call reports progress
  exactly when something new was exchanged".
-/
namespace Finam.Props.C06
open Finam Finam.Py Finam.Connect

def statusCode : Status → Int
  | .connected => 0
  | .connecting => 1
  | .idle => 2
  | .initialized => 3

/-- the status the property demands, on the five maps of the connect helper: CONNECTED iff nothing is outstanding,
    otherwise CONNECTING iff the call exchanged something new -/
def specStatus (inInfos outInfos inData : List (Option Unit)) (infosPushed dataPushed : List Bool) (anyDone : Bool) : Status :=
  if inInfos.all Option.isSome && outInfos.all Option.isSome && inData.all Option.isSome &&
      infosPushed.all (· = true) && dataPushed.all (· = true) then .connected
  else if anyDone then .connecting else .idle

theorem all_isSome (l : List (Option Unit)) :
    (l.all fun v => decide (v.isNone = false)) = l.all Option.isSome := by
  induction l with
  | nil => rfl
  | cons v l ih => cases v <;> simp [ih]

/-- **the status of a connect call** is `specStatus` of its five maps -/
theorem tr_connect_status (ii oi idt : List (Nat × Option Unit)) (ip dp : List (Nat × Bool)) (anyDone : Bool) :
    Tr.connect_status ii oi idt ip dp anyDone =
      .ok (statusCode (specStatus (ii.map Prod.snd) (oi.map Prod.snd) (idt.map Prod.snd) (ip.map Prod.snd) (dp.map Prod.snd) anyDone)) := by
  unfold Tr.connect_status specStatus
  simp only [all_isSome]
  cases h1 : (ii.map Prod.snd).all Option.isSome <;> cases h2 : (oi.map Prod.snd).all Option.isSome <;>
    cases h3 : (idt.map Prod.snd).all Option.isSome <;>
    cases h4 : (ip.map Prod.snd).all (fun v => decide (v = true)) <;>
    cases h5 : (dp.map Prod.snd).all (fun v => decide (v = true)) <;>
    cases anyDone <;> simp [statusCode, h4, h5]

/-- never CONNECTED while an exchange is outstanding; CONNECTING exactly when something new was exchanged (and
    something is still outstanding) -/
theorem connect_status_reading (ii oi idt : List (Option Unit)) (ip dp : List Bool) (anyDone : Bool) :
    (specStatus ii oi idt ip dp anyDone = .connected ↔
      (∀ v ∈ ii, v.isSome) ∧ (∀ v ∈ oi, v.isSome) ∧ (∀ v ∈ idt, v.isSome) ∧ (∀ v ∈ ip, v = true) ∧ (∀ v ∈ dp, v = true)) ∧
    (specStatus ii oi idt ip dp anyDone = .connecting → anyDone = true) ∧
    (specStatus ii oi idt ip dp anyDone = .idle → anyDone = false) := by
  unfold specStatus
  refine ⟨?_, ?_, ?_⟩
  · constructor
    · intro h
      split at h
      · rename_i hc
        simp only [Bool.and_eq_true, List.all_eq_true, decide_eq_true_eq] at hc
        exact ⟨hc.1.1.1.1, hc.1.1.1.2, hc.1.1.2, hc.1.2, hc.2⟩
      · split at h <;> cases h
    · intro ⟨a, b, c, d, e⟩
      have : (ii.all Option.isSome && oi.all Option.isSome && idt.all Option.isSome &&
          ip.all (· = true) && dp.all (· = true)) = true := by
        simp only [Bool.and_eq_true, List.all_eq_true, decide_eq_true_eq]
        exact ⟨⟨⟨⟨a, b⟩, c⟩, d⟩, e⟩
      rw [if_pos this]
  · intro h; split at h
    · cases h
    · split at h
      · assumption
      · cases h
  · intro h; split at h
    · cases h
    · split at h
      · cases h
      · rename_i hn; simpa using hn

/-- **the connect loop's flags**: a component that is not CONNECTED keeps the loop going, and anything but
    CONNECTING_IDLE counts as progress — the flags of `stepComp` -/
theorem tr_connect_flags (st : Status) (hs : st ≠ .initialized) (anew aun : Bool) :
    Tr.connect_flags (statusCode st) anew aun =
      .ok (anew || (st != .idle), aun || (st != .connected)) := by
  cases st <;> simp [Tr.connect_flags, Tr.connect_flags.join1, Tr.connect_flags.join2, statusCode] at hs ⊢

/-- **`ConnectHelper._push_data`** — how the initial data of an output reach it: a static output gets one publication
    without a time; otherwise the data are published for the composition's start time *and* for the time of the output's
    metadata when the two differ (so that both the driver's initial pull at the start time and consumers that ask for the
    metadata time are served), once for the metadata time when they agree; the output is marked as served -/
theorem tr_ConnectHelper__push_data (pushed : List (Nat × Bool)) (trace : List (Option Int)) (name : Nat)
    (time infoTime : Option Int) (static : Bool) :
    Tr.ConnectHelper__push_data pushed trace name time infoTime static =
      .ok (Py.dictSet pushed name true,
           trace ++ (if static then [none] else if infoTime ≠ time then [time, infoTime] else [infoTime])) := by
  unfold Tr.ConnectHelper__push_data Tr.ConnectHelper__push_data.join1
  cases static
  · by_cases h : infoTime = time <;> simp [h, Py.recordPush, bind, Except.bind, pure, Except.pure]
  · simp [Py.recordPush, bind, Except.bind, pure, Except.pure]

/-- **initial data are available at the start time, on the code**: whatever the metadata time of a non-static output
    is, its initial data are published for the composition's start time (the time of the driver's initial pulls) -/
theorem code_initial_data_at_start (pushed : List (Nat × Bool)) (name : Nat) (start infoTime : Option Int) :
    ∃ p tr, Tr.ConnectHelper__push_data pushed [] name start infoTime false = .ok (p, tr) ∧ start ∈ tr ∧ infoTime ∈ tr ∧
      Py.dictGet? p name = some true := by
  refine ⟨_, _, tr_ConnectHelper__push_data pushed [] name start infoTime false, ?_, ?_, ?_⟩
  · by_cases h : infoTime = start <;> simp [h]
  · by_cases h : infoTime = start <;> simp [h]
  · induction pushed with
    | nil => simp [Py.dictSet, Py.dictGet?]
    | cons q pushed ih =>
      obtain ⟨k, v⟩ := q
      by_cases hk : k = name <;> simp [Py.dictSet, Py.dictGet?, hk, ih]

/-! ### the whole `Composition._connect_components` loop, on the regenerated definition

`comp.connect(time)` is a parameter `cc` (what it does to the world and to the table of statuses).  The only thing assumed of
it is the frame condition `OwnStatus`: a component's `connect` changes no other component's status. -/

abbrev StatusTab := List (Nat × Int)

/-- `comp.connect` changes the status of `comp` only -/
def OwnStatus {φ} (cc : φ → StatusTab → Nat → Except Err (StatusTab × φ)) : Prop :=
  ∀ w st c st' w', cc w st c = .ok (st', w') → ∀ c', c' ≠ c → Py.dictGet? st' c' = Py.dictGet? st c'

def connected (st : StatusTab) (c : Nat) : Prop := (Py.dictGet? st c).getD (-1) = 0

/-- one pass of the `for comp in self._components` loop: when it ends without `any_unconnected`, every component visited in
    it is CONNECTED at the end of the pass, and so is every component that was CONNECTED before and... stays so -/
theorem pass_all_connected {φ} (cc : φ → StatusTab → Nat → Except Err (StatusTab × φ)) (hcc : OwnStatus cc)
    (full : List Nat) (fuelN : Nat) : ∀ (cs : List Nat) (st : StatusTab) (w : φ) (anew : Bool) (st' : StatusTab) (w' : φ) (anew' : Bool)
      (pre : List Nat), (∀ c ∈ pre, connected st c) →
      Tr.connect_components.loop2 full st w fuelN false anew cc cs = .ok (st', w', false, anew') →
      ∀ c, (c ∈ pre ∨ c ∈ cs) → connected st' c := by
  intro cs
  induction cs with
  | nil =>
    intro st w anew st' w' anew' pre hpre h c hc
    simp [Tr.connect_components.loop2, pure, Except.pure] at h
    obtain ⟨rfl, _, _⟩ := h
    cases hc with
    | inl hp => exact hpre c hp
    | inr hn => cases hn
  | cons c0 cs ih =>
    intro st w anew st' w' anew' pre hpre h c hc
    unfold Tr.connect_components.loop2 at h
    by_cases h0 : (Py.dictGet? st c0).getD (-1) = 0
    · -- already connected: skipped
      simp only [h0, ne_eq, not_true_eq_false, if_false] at h
      have := ih st w anew st' w' anew' (c0 :: pre) (by
        intro x hx; cases hx with
        | head => exact h0
        | tail _ hx => exact hpre x hx) h c (by
          cases hc with
          | inl hp => exact Or.inl (List.mem_cons_of_mem _ hp)
          | inr hn => cases hn with
            | head => exact Or.inl (List.mem_cons_self)
            | tail _ hn => exact Or.inr hn)
      exact this
    · simp only [ne_eq, h0, not_false_eq_true, if_true] at h
      cases hcall : cc w st c0 with
      | error e => simp [hcall, bind, Except.bind] at h
      | ok r =>
        obtain ⟨st1, w1⟩ := r
        simp only [hcall, ok_bind] at h
        have hframe := hcc w st c0 st1 w1 hcall
        by_cases h1 : (Py.dictGet? st1 c0).getD (-1) = 0
        · simp only [h1, if_true] at h
          have hpre1 : ∀ x ∈ c0 :: pre, connected st1 x := by
            intro x hx
            cases hx with
            | head => exact h1
            | tail _ hx =>
              by_cases hxc : x = c0
              · subst hxc; exact h1
              · unfold connected; rw [hframe x hxc]; exact hpre x hx
          exact ih st1 w1 true st' w' anew' (c0 :: pre) hpre1 h c (by
            cases hc with
            | inl hp => exact Or.inl (List.mem_cons_of_mem _ hp)
            | inr hn => cases hn with
              | head => exact Or.inl (List.mem_cons_self)
              | tail _ hn => exact Or.inr hn)
        · -- the component is still unconnected: the pass ends with `any_unconnected`, contradiction
          simp only [h1, if_false] at h
          exfalso
          have key : ∀ (cs : List Nat) (st : StatusTab) (w : φ) (anew : Bool) (r : StatusTab × φ × Bool × Bool),
              Tr.connect_components.loop2 full st w fuelN true anew cc cs = .ok r → r.2.2.1 = true := by
            intro cs
            induction cs with
            | nil => intro st w anew r hr; simp [Tr.connect_components.loop2, pure, Except.pure] at hr; rw [← hr]
            | cons d ds ihd =>
              intro st w anew r hr
              unfold Tr.connect_components.loop2 at hr
              by_cases hd : (Py.dictGet? st d).getD (-1) = 0
              · simp only [hd, ne_eq, not_true_eq_false, if_false] at hr; exact ihd _ _ _ _ hr
              · simp only [ne_eq, hd, not_false_eq_true, if_true] at hr
                cases hcd : cc w st d with
                | error e => simp [hcd, bind, Except.bind] at hr
                | ok q =>
                  obtain ⟨s2, w2⟩ := q
                  simp only [hcd, ok_bind] at hr
                  by_cases e0 : (Py.dictGet? s2 d).getD (-1) = 0
                  · simp only [e0, if_true] at hr; exact ihd _ _ _ _ hr
                  · simp only [e0, if_false] at hr
                    by_cases e1 : (Py.dictGet? s2 d).getD (-1) = 1
                    · simp only [e1, if_true] at hr; exact ihd _ _ _ _ hr
                    · simp only [e1, if_false] at hr; exact ihd _ _ _ _ hr
          by_cases h2 : (Py.dictGet? st1 c0).getD (-1) = 1
          · simp only [h2, if_true] at h
            have := key cs st1 w1 true _ h
            simp at this
          · simp only [h2, if_false] at h
            have := key cs st1 w1 anew _ h
            simp at this

/-- **connect() ends with every component connected, on the code**: whenever the translated `_connect_components` returns
    normally — whatever the components' `connect` methods do to the world, as long as each changes its own status only — every
    listed component is CONNECTED -/
theorem code_connect_ok_all_connected {φ} (cc : φ → StatusTab → Nat → Except Err (StatusTab × φ)) (hcc : OwnStatus cc)
    (comps : List Nat) (st : StatusTab) (w : φ) (fuel : Nat) (st' : StatusTab) (w' : φ)
    (h : Tr.connect_components comps st w cc fuel = .ok (st', w')) : ∀ c ∈ comps, connected st' c := by
  unfold Tr.connect_components at h
  have loopw : ∀ (n : Nat) (st : StatusTab) (w : φ) (k : Int) (r : StatusTab × φ × Int),
      Tr.connect_components.while1 comps st w fuel k cc n = .ok r → ∀ c ∈ comps, connected r.1 c := by
    intro n
    induction n with
    | zero => intro st w k r hr; simp [Tr.connect_components.while1, throw, throwThe, MonadExceptOf.throw] at hr
    | succ n ihn =>
      intro st w k r hr
      unfold Tr.connect_components.while1 at hr
      simp only [if_true] at hr
      cases hp : Tr.connect_components.loop2 comps st w fuel false false cc comps with
      | error e => simp [hp, bind, Except.bind] at hr
      | ok q =>
        obtain ⟨s1, w1, au, an⟩ := q
        simp only [hp, ok_bind] at hr
        cases au with
        | false =>
          simp [pure, Except.pure] at hr
          rw [← hr]
          intro c hc
          exact pass_all_connected cc hcc comps fuel comps st w false s1 w1 an [] (by intro x hx; cases hx) hp c (Or.inr hc)
        | true =>
          simp only [not_true_eq_false, if_false] at hr
          cases an with
          | false => simp [throw, throwThe, MonadExceptOf.throw] at hr
          | true =>
            simp only [not_true_eq_false, if_false] at hr
            exact ihn _ _ _ _ hr
  cases hw : Tr.connect_components.while1 comps st w fuel 0 cc fuel with
  | error e => simp [hw, bind, Except.bind] at h
  | ok r =>
    obtain ⟨s1, w1, k⟩ := r
    simp [hw, bind, Except.bind, pure, Except.pure] at h
    obtain ⟨rfl, _⟩ := h
    exact loopw fuel st w 0 _ hw

/-- the iteration bound given to the translated `while True` is a proof device only: an outcome other than "out of
    fuel" does not depend on it — with more fuel the loop gives the same result (value or error) -/
theorem connect_while_fuel_mono {φ} (cc : φ → StatusTab → Nat → Except Err (StatusTab × φ)) (comps : List Nat) (f : Nat) :
    ∀ (n : Nat) (st : StatusTab) (w : φ) (k : Int) (r : StatusTab × φ × Int),
      Tr.connect_components.while1 comps st w f k cc n = .ok r →
      ∀ m, n ≤ m → Tr.connect_components.while1 comps st w f k cc m = .ok r := by
  intro n
  induction n with
  | zero => intro st w k r h; simp [Tr.connect_components.while1, throw, throwThe, MonadExceptOf.throw] at h
  | succ n ih =>
    intro st w k r h m hm
    cases m with
    | zero => omega
    | succ m =>
      unfold Tr.connect_components.while1 at h ⊢
      simp only [if_true] at h ⊢
      cases hp : Tr.connect_components.loop2 comps st w f false false cc comps with
      | error e => simp [hp, bind, Except.bind] at h
      | ok q =>
        obtain ⟨s1, w1, au, an⟩ := q
        simp only [hp, ok_bind] at h ⊢
        cases au with
        | false => simpa using h
        | true =>
          simp only [not_true_eq_false, if_false] at h ⊢
          cases an with
          | false => simp [throw, throwThe, MonadExceptOf.throw] at h
          | true =>
            simp only [not_true_eq_false, if_false] at h ⊢
            exact ih _ _ _ _ h m (by omega)

/-! ### the translated loop against the model's `connectLoop`

`comp.connect` is instantiated with the model's `stepComp` (one `Component.connect` call on the exchanged set and the
caches); the table of statuses is kept in step with the model's `status` list. -/

theorem dictGet?_dictSet_eq {ν} (d : List (Nat × ν)) (k : Nat) (v : ν) : Py.dictGet? (Py.dictSet d k v) k = some v := by
  induction d with
  | nil => simp [Py.dictSet, Py.dictGet?]
  | cons p d ih =>
    obtain ⟨k', v'⟩ := p
    by_cases h : k' = k <;> simp [Py.dictSet, Py.dictGet?, h, ih]

theorem dictGet?_dictSet_ne {ν} (d : List (Nat × ν)) (k k2 : Nat) (v : ν) (h : k2 ≠ k) :
    Py.dictGet? (Py.dictSet d k v) k2 = Py.dictGet? d k2 := by
  induction d with
  | nil => simp [Py.dictSet, Py.dictGet?, Ne.symm h]
  | cons p d ih =>
    obtain ⟨k', v'⟩ := p
    by_cases h1 : k' = k
    · subst h1; simp [Py.dictSet, Py.dictGet?, Ne.symm h]
    · by_cases h2 : k' = k2
      · subst h2; simp [Py.dictSet, Py.dictGet?, h]
      · simp [Py.dictSet, Py.dictGet?, h1, h2, ih]

/-- what a `comp.connect` call does, taken from the model -/
def ccModel (S : Spec) (st : LState) (tab : StatusTab) (c : Nat) : Except Err (StatusTab × LState) :=
  .ok (Py.dictSet tab c (statusCode (((stepComp S (st, ⟨false, false⟩) c).1.status[c]?).getD .initialized)),
       (stepComp S (st, ⟨false, false⟩) c).1)

/-- the table of statuses agrees with the model's status list on the listed components, which all exist -/
def Sync (S : Spec) (order : List Nat) (tab : StatusTab) (st : LState) : Prop :=
  ∀ c ∈ order, c < st.status.length ∧ c < S.comps.length ∧
    (Py.dictGet? tab c).getD (-1) = statusCode ((st.status[c]?).getD .initialized)

theorem stepComp_status_len (S : Spec) (sf : LState × Flags) (c : Nat) :
    (stepComp S sf c).1.status.length = sf.1.status.length := by
  unfold stepComp
  split <;> simp

theorem stepComp_status_other (S : Spec) (sf : LState × Flags) (c c2 : Nat) (h : c2 ≠ c) :
    (stepComp S sf c).1.status[c2]? = sf.1.status[c2]? := by
  unfold stepComp
  split <;> simp [List.getElem?_set, Ne.symm h]

theorem statusCode_eq_zero (x : Status) : statusCode x = 0 ↔ x = .connected := by cases x <;> simp [statusCode]
theorem statusCode_eq_one (x : Status) : statusCode x = 1 ↔ x = .connecting := by cases x <;> simp [statusCode]

/-- the status a `ConnectHelper.connect` call leaves -/
def newStatus (S : Spec) (st : LState) (c : Nat) (cs : CompSpec) : Status :=
  callStatus c cs st.done (callDone S c cs st.done st.cache)

theorem newStatus_ne_init (S : Spec) (st : LState) (c : Nat) (cs : CompSpec) : newStatus S st c cs ≠ .initialized := by
  unfold newStatus callStatus
  split
  · simp
  · split <;> simp

theorem stepComp_call (S : Spec) (st : LState) (f : Flags) (c : Nat) (cs : CompSpec) (x : Status)
    (hget : st.status[c]? = some x) (h1 : x ≠ .connected) (h2 : x ≠ .initialized) (hcs : S.comps[c]? = some cs) :
    stepComp S (st, f) c =
      ({ done := callDone S c cs st.done st.cache, cache := callCache S c cs st.done st.cache,
         status := st.status.set c (newStatus S st c cs),
         log := st.log ++ [⟨c, newStatus S st c cs, newItems st.done (callDone S c cs st.done st.cache)⟩] },
       ⟨f.unconnected || newStatus S st c cs != .connected, f.progress || newStatus S st c cs != .idle⟩) := by
  unfold stepComp newStatus
  cases x <;> simp_all

/-- the step of `tr_pass_model` for a component whose `connect` runs a helper call -/
theorem pass_call_case (S : Spec) (full : List Nat) (fuelN : Nat) (c : Nat) (cs : List Nat) (order : List Nat) (tab : StatusTab)
    (st : LState) (au an : Bool) (cs_ : CompSpec) (x : Status) (hs : Sync S order tab st) (hin : ∀ y ∈ c :: cs, y ∈ order)
    (hlen : c < st.status.length) (hget : st.status[c]? = some st.status[c]) (hst : st.status[c] = x)
    (h1 : x ≠ .connected) (h2 : x ≠ .initialized) (hcs : S.comps[c]? = some cs_) (hcode : statusCode x ≠ 0)
    (ih : ∀ (order : List Nat) (tab : StatusTab) (st : LState) (au an : Bool), Sync S order tab st → (∀ y ∈ cs, y ∈ order) →
      ∃ tab', Tr.connect_components.loop2 full tab st fuelN au an (ccModel S) cs =
          .ok (tab', (cs.foldl (stepComp S) (st, ⟨au, an⟩)).1, (cs.foldl (stepComp S) (st, ⟨au, an⟩)).2.unconnected,
               (cs.foldl (stepComp S) (st, ⟨au, an⟩)).2.progress) ∧
        Sync S order tab' (cs.foldl (stepComp S) (st, ⟨au, an⟩)).1) :
    ∃ tab', (if statusCode x ≠ (0 : Int) then do
          let (self_status, self_world) ← ccModel S st tab c
          if ((Py.dictGet? self_status c).getD (-1)) = (0 : Int) then
            Tr.connect_components.loop2 full self_status self_world fuelN au true (ccModel S) cs
          else
            if ((Py.dictGet? self_status c).getD (-1)) = (1 : Int) then
              Tr.connect_components.loop2 full self_status self_world fuelN true true (ccModel S) cs
            else
              Tr.connect_components.loop2 full self_status self_world fuelN true an (ccModel S) cs
        else Tr.connect_components.loop2 full tab st fuelN au an (ccModel S) cs) =
        .ok (tab', (cs.foldl (stepComp S) (stepComp S (st, ⟨au, an⟩) c)).1,
             (cs.foldl (stepComp S) (stepComp S (st, ⟨au, an⟩) c)).2.unconnected,
             (cs.foldl (stepComp S) (stepComp S (st, ⟨au, an⟩) c)).2.progress) ∧
      Sync S order tab' (cs.foldl (stepComp S) (stepComp S (st, ⟨au, an⟩) c)).1 := by
  have hgx : st.status[c]? = some x := by rw [hget, hst]
  have hstep := stepComp_call S st ⟨au, an⟩ c cs_ x hgx h1 h2 hcs
  have hstep0 := stepComp_call S st ⟨false, false⟩ c cs_ x hgx h1 h2 hcs
  have hnew : (((stepComp S (st, ⟨false, false⟩) c).1.status[c]?).getD .initialized) = newStatus S st c cs_ := by
    rw [hstep0]; simp [List.getElem?_set, hlen]
  simp only [hcode, ne_eq, not_false_eq_true, if_true, ccModel, ok_bind, hnew, dictGet?_dictSet_eq, Option.getD_some]
  rw [hstep]
  have hsync : Sync S order (Py.dictSet tab c (statusCode (newStatus S st c cs_))) (stepComp S (st, ⟨false, false⟩) c).1 := by
    intro y hy
    obtain ⟨a1, a2, a3⟩ := hs y hy
    rw [hstep0]
    refine ⟨by simpa using a1, a2, ?_⟩
    by_cases hyc : y = c
    · subst hyc; simp [dictGet?_dictSet_eq, List.getElem?_set, hlen]
    · simp only [dictGet?_dictSet_ne _ _ _ _ hyc, List.getElem?_set, Ne.symm hyc, if_false]; simpa using a3
  rw [hstep0] at hsync ⊢
  have hrest : ∀ y ∈ cs, y ∈ order := fun y hy => hin y (List.mem_cons_of_mem _ hy)
  have b1 : (Status.connected != Status.idle) = true := by decide
  have b2 : (Status.connecting != Status.connected) = true := by decide
  have b3 : (Status.connecting != Status.idle) = true := by decide
  have b4 : (Status.idle != Status.connected) = true := by decide
  cases hns : newStatus S st c cs_ with
  | initialized => exact absurd hns (newStatus_ne_init S st c cs_)
  | connected =>
    rw [hns] at hsync
    obtain ⟨tab', e1, e2⟩ := ih order _ _ au true hsync hrest
    refine ⟨tab', ?_, ?_⟩
    · simpa [statusCode, b1] using e1
    · simpa [b1] using e2
  | connecting =>
    rw [hns] at hsync
    have h10 : ¬ ((1 : Int) = 0) := by decide
    obtain ⟨tab', e1, e2⟩ := ih order _ _ true true hsync hrest
    refine ⟨tab', ?_, ?_⟩
    · simpa [statusCode, h10, b2, b3] using e1
    · simpa [b2, b3] using e2
  | idle =>
    rw [hns] at hsync
    have h20 : ¬ ((2 : Int) = 0) := by decide
    have h21 : ¬ ((2 : Int) = 1) := by decide
    obtain ⟨tab', e1, e2⟩ := ih order _ _ true an hsync hrest
    refine ⟨tab', ?_, ?_⟩
    · simpa [statusCode, h20, h21, b4] using e1
    · simpa [b4] using e2

/-- one pass of the translated `for comp in self._components` loop is the model's fold of `stepComp` -/
theorem tr_pass_model (S : Spec) (full : List Nat) (fuelN : Nat) : ∀ (cs : List Nat) (order : List Nat) (tab : StatusTab) (st : LState)
    (au an : Bool), Sync S order tab st → (∀ c ∈ cs, c ∈ order) →
    ∃ tab', Tr.connect_components.loop2 full tab st fuelN au an (ccModel S) cs =
        .ok (tab', (cs.foldl (stepComp S) (st, ⟨au, an⟩)).1, (cs.foldl (stepComp S) (st, ⟨au, an⟩)).2.unconnected,
             (cs.foldl (stepComp S) (st, ⟨au, an⟩)).2.progress) ∧
      Sync S order tab' (cs.foldl (stepComp S) (st, ⟨au, an⟩)).1 := by
  intro cs
  induction cs with
  | nil => intro order tab st au an hs _; exact ⟨tab, by simp [Tr.connect_components.loop2, pure, Except.pure], hs⟩
  | cons c cs ih =>
    intro order tab st au an hs hin
    have hc := hs c (hin c (List.mem_cons_self))
    obtain ⟨hlen, hcomp, hcode⟩ := hc
    have hget : st.status[c]? = some st.status[c] := List.getElem?_eq_getElem hlen
    obtain ⟨cs_, hcs⟩ : ∃ x, S.comps[c]? = some x := ⟨S.comps[c], List.getElem?_eq_getElem hcomp⟩
    simp only [List.foldl_cons]
    unfold Tr.connect_components.loop2
    rw [hcode, hget]
    simp only [Option.getD_some]
    cases hst : st.status[c] with
    | connected =>
      -- skipped by both
      have hstep : stepComp S (st, ⟨au, an⟩) c = (st, ⟨au, an⟩) := by
        unfold stepComp; simp [hget, hst]
      simp only [statusCode, ne_eq, not_true_eq_false, if_false, hstep]
      exact ih order tab st au an hs (fun x hx => hin x (List.mem_cons_of_mem _ hx))
    | initialized =>
      have hstep : stepComp S (st, ⟨au, an⟩) c =
          ({ st with status := st.status.set c .connecting, log := st.log ++ [⟨c, .connecting, []⟩] }, ⟨true, true⟩) := by
        unfold stepComp; simp [hget, hst]
      have hstep0 : (stepComp S (st, ⟨false, false⟩) c).1 =
          { st with status := st.status.set c .connecting, log := st.log ++ [⟨c, .connecting, []⟩] } := by
        unfold stepComp; simp [hget, hst]
      have hnew : ((stepComp S (st, ⟨false, false⟩) c).1.status[c]?).getD .initialized = .connecting := by
        rw [hstep0]; simp [List.getElem?_set, hlen]
      have h30 : ¬ ((3 : Int) = 0) := by decide
      simp only [statusCode, ne_eq, h30, not_false_eq_true, if_true, ccModel, ok_bind, hnew, dictGet?_dictSet_eq, Option.getD_some]
      have h10 : ¬ ((1 : Int) = 0) := by decide
      simp only [h10, if_false, if_true, hstep, hstep0]
      apply ih order
      · intro x hx
        obtain ⟨h1, h2, h3⟩ := hs x hx
        refine ⟨by simpa using h1, h2, ?_⟩
        by_cases hxc : x = c
        · subst hxc; simp [dictGet?_dictSet_eq, List.getElem?_set, hlen, statusCode]
        · simp only [dictGet?_dictSet_ne _ _ _ _ hxc, List.getElem?_set, Ne.symm hxc, if_false]; simpa using h3
      · exact fun x hx => hin x (List.mem_cons_of_mem _ hx)
    | connecting =>
      exact pass_call_case S full fuelN c cs order tab st au an cs_ .connecting hs hin hlen hget hst (by simp) (by simp) hcs
        (by simp [statusCode]) (fun o t s a b h1 h2 => ih o t s a b h1 h2)
    | idle =>
      exact pass_call_case S full fuelN c cs order tab st au an cs_ .idle hs hin hlen hget hst (by simp) (by simp) hcs
        (by simp [statusCode]) (fun o t s a b h1 h2 => ih o t s a b h1 h2)

/-- the translated `while True` loop is the model's `connectLoop` -/
theorem tr_while_model (S : Spec) (order : List Nat) (f : Nat) : ∀ (n : Nat) (tab : StatusTab) (st : LState) (k : Int),
    Sync S order tab st →
    match connectLoop S order n st with
    | .ok st' => ∃ tab' k', Tr.connect_components.while1 order tab st f k (ccModel S) n = .ok (tab', st', k') ∧ Sync S order tab' st'
    | .circular _ _ => Tr.connect_components.while1 order tab st f k (ccModel S) n = .error .circular
    | .outOfFuel _ => Tr.connect_components.while1 order tab st f k (ccModel S) n = .error .other := by
  intro n
  induction n with
  | zero => intro tab st k _; simp [connectLoop, Tr.connect_components.while1, throw, throwThe, MonadExceptOf.throw]
  | succ n ih =>
    intro tab st k hs
    obtain ⟨tab1, hp, hs1⟩ := tr_pass_model S order f order order tab st false false hs (fun c hc => hc)
    unfold connectLoop Tr.connect_components.while1
    simp only [if_true, hp, ok_bind, iter]
    by_cases hu : (order.foldl (stepComp S) (st, ⟨false, false⟩)).2.unconnected = false
    · simp only [hu, if_true, Bool.false_eq_true, not_false_eq_true]
      exact ⟨tab1, k, rfl, hs1⟩
    · have hu' : (order.foldl (stepComp S) (st, ⟨false, false⟩)).2.unconnected = true := by
        cases hx : (order.foldl (stepComp S) (st, ⟨false, false⟩)).2.unconnected <;> simp_all
      simp only [hu', Bool.true_eq_false, if_false, not_true_eq_false]
      by_cases hg : (order.foldl (stepComp S) (st, ⟨false, false⟩)).2.progress = false
      · simp [hg, throw, throwThe, MonadExceptOf.throw]
      · have hg' : (order.foldl (stepComp S) (st, ⟨false, false⟩)).2.progress = true := by
          cases hx : (order.foldl (stepComp S) (st, ⟨false, false⟩)).2.progress <;> simp_all
        simp only [hg', Bool.true_eq_false, if_false, not_true_eq_false]
        exact ih tab1 _ (k + 1) hs1

/-- **`Composition._connect_components` = the model's connect loop** (with `comp.connect` instantiated by the model's
    `stepComp`): the same outcome — every component connected / circular-coupling error / bound exhausted — and, when it
    returns, the model's final state with a table of statuses that agrees with it.  The theorems of `Props/C06.lean` about
    `connect` (termination within `bound`, the stuck set, the least fixed point of what gets exchanged) are thereby
    statements about the regenerated loop. -/
theorem tr_connect_components (S : Spec) (order : List Nat) (tab : StatusTab) (st : LState) (fuel : Nat)
    (hs : Sync S order tab st) :
    match connectLoop S order fuel st with
    | .ok st' => ∃ tab', Tr.connect_components order tab st (ccModel S) fuel = .ok (tab', st') ∧ Sync S order tab' st'
    | .circular _ _ => Tr.connect_components order tab st (ccModel S) fuel = .error .circular
    | .outOfFuel _ => Tr.connect_components order tab st (ccModel S) fuel = .error .other := by
  have h := tr_while_model S order fuel fuel tab st 0 hs
  unfold Tr.connect_components
  cases hc : connectLoop S order fuel st with
  | ok st' =>
    rw [hc] at h
    obtain ⟨tab', k', e, hs'⟩ := h
    exact ⟨tab', by simp [e, bind, Except.bind, pure, Except.pure], hs'⟩
  | circular st' names => rw [hc] at h; simp [h, bind, Except.bind]
  | outOfFuel st' => rw [hc] at h; simp [h, bind, Except.bind]

/-- the initial table: every listed component INITIALIZED (code 3), in step with the model's initial state -/
theorem sync_init (S : Spec) (order : List Nat) (h : ∀ c ∈ order, c < S.comps.length) :
    Sync S order (order.map fun c => (c, (3 : Int))) (Connect.initState S) := by
  intro c hc
  refine ⟨by simpa [Connect.initState] using h c hc, h c hc, ?_⟩
  have hl : c < (Connect.initState S).status.length := by simpa [Connect.initState] using h c hc
  have : (Connect.initState S).status[c]? = some Status.initialized := by
    rw [List.getElem?_eq_getElem hl]; simp [Connect.initState]
  rw [this]
  simp only [Option.getD_some, statusCode]
  have : Py.dictGet? (order.map fun c => (c, (3 : Int))) c = some 3 := by
    clear hl this
    induction order with
    | nil => cases hc
    | cons d ds ihd =>
      by_cases hd : d = c
      · simp [Py.dictGet?, hd]
      · have : c ∈ ds := by cases hc with
          | head => exact absurd rfl hd
          | tail _ hh => exact hh
        simp [Py.dictGet?, hd, ihd (fun x hx => h x (List.mem_cons_of_mem _ hx)) this]
  rw [this]; rfl

/-- **connect() always terminates, on the code**: run on the initial state with the bound `#items + 2 · #components + 1`, the
    translated `_connect_components` never runs out of iterations — it returns, or raises the circular-coupling error -/
theorem code_connect_terminates (S : Spec) (order : List Nat) (h : ∀ c ∈ order, c < S.comps.length) :
    Tr.connect_components order (order.map fun c => (c, (3 : Int))) (Connect.initState S) (ccModel S) (bound S) ≠ .error .other := by
  have ht := tr_connect_components S order _ (Connect.initState S) (bound S) (sync_init S order h)
  have hterm := loop_terminates S order
  unfold connect at hterm
  cases hc : connectLoop S order (bound S) (Connect.initState S) with
  | ok st' => rw [hc] at ht; obtain ⟨tab', e, _⟩ := ht; rw [e]; simp
  | circular st' names => rw [hc] at ht; rw [ht]; simp
  | outOfFuel st' => exact absurd hc (hterm st')

/-- **the outcome of the regenerated loop is the model's**: it returns exactly when the model's `connect` succeeds (then with
    the model's final state, every listed component CONNECTED in the table), and raises the circular-coupling error exactly
    when the model reports a stall -/
theorem code_connect_outcome (S : Spec) (order : List Nat) (h : ∀ c ∈ order, c < S.comps.length) :
    match connect S order with
    | .ok st' => ∃ tab', Tr.connect_components order (order.map fun c => (c, (3 : Int))) (Connect.initState S) (ccModel S) (bound S)
        = .ok (tab', st') ∧ ∀ c ∈ order, connected tab' c
    | .circular _ _ => Tr.connect_components order (order.map fun c => (c, (3 : Int))) (Connect.initState S) (ccModel S) (bound S)
        = .error .circular
    | .outOfFuel _ => False := by
  have ht := tr_connect_components S order _ (Connect.initState S) (bound S) (sync_init S order h)
  have hterm := loop_terminates S order
  unfold connect at hterm ⊢
  cases hc : connectLoop S order (bound S) (Connect.initState S) with
  | ok st' =>
    rw [hc] at ht
    obtain ⟨tab', e, hs⟩ := ht
    refine ⟨tab', e, ?_⟩
    have hown : OwnStatus (ccModel S) := by
      intro w st c st1 w1 hcall c' hne
      simp only [ccModel, Except.ok.injEq, Prod.mk.injEq] at hcall
      rw [← hcall.1]
      exact dictGet?_dictSet_ne _ _ _ _ hne
    exact code_connect_ok_all_connected (ccModel S) hown order _ (Connect.initState S) (bound S) tab' st' e
  | circular st' names => rw [hc] at ht; exact ht
  | outOfFuel st' => exact absurd hc (hterm st')

end Finam.Props.C06
