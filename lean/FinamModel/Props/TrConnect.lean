import FinamModel.Connect
import FinamModel.Translated.connect_status
import FinamModel.Translated.connect_flags
import FinamModel.Translated.ConnectHelper__push_data
import FinamModel.Translated.connect_components
/-
  The status a `ConnectHelper.connect` call reports and what `Composition._connect_components` makes of it — both
  translated (as slices) from `finam/tools/connect_helper.py` and `finam/schedule.py` on every run.  C06: "a component
  is never reported connected while one of its declared exchanges is outstanding, and a connect call reports progress
  exactly when something new was exchanged".
-/
namespace Finam.Props.C06
open Finam Finam.Py Finam.Connect

def statusCode : Status → Int
  | .connected => 0
  | .connecting => 1
  | .idle => 2
  | .initialized => 3

/-- the status the property demands, on the five maps of the connect helper: CONNECTED iff nothing is outstanding,
    otherwise CONNECTING iff the call exchanged something new -/
def specStatus (inInfos outInfos inData : List (Option Unit)) (infosPushed dataPushed : List Bool) (anyDone : Bool) : Status :=
  if inInfos.all Option.isSome && outInfos.all Option.isSome && inData.all Option.isSome &&
      infosPushed.all (· = true) && dataPushed.all (· = true) then .connected
  else if anyDone then .connecting else .idle

theorem all_isSome (l : List (Option Unit)) :
    (l.all fun v => decide (v.isNone = false)) = l.all Option.isSome := by
  induction l with
  | nil => rfl
  | cons v l ih => cases v <;> simp [ih]

/-- **the status of a connect call** is `specStatus` of its five maps -/
theorem tr_connect_status (ii oi idt : List (Nat × Option Unit)) (ip dp : List (Nat × Bool)) (anyDone : Bool) :
    Tr.connect_status ii oi idt ip dp anyDone =
      .ok (statusCode (specStatus (ii.map Prod.snd) (oi.map Prod.snd) (idt.map Prod.snd) (ip.map Prod.snd) (dp.map Prod.snd) anyDone)) := by
  unfold Tr.connect_status specStatus
  simp only [all_isSome]
  cases h1 : (ii.map Prod.snd).all Option.isSome <;> cases h2 : (oi.map Prod.snd).all Option.isSome <;>
    cases h3 : (idt.map Prod.snd).all Option.isSome <;>
    cases h4 : (ip.map Prod.snd).all (fun v => decide (v = true)) <;>
    cases h5 : (dp.map Prod.snd).all (fun v => decide (v = true)) <;>
    cases anyDone <;> simp [statusCode, h4, h5]

/-- never CONNECTED while an exchange is outstanding; CONNECTING exactly when something new was exchanged (and
    something is still outstanding) -/
theorem connect_status_reading (ii oi idt : List (Option Unit)) (ip dp : List Bool) (anyDone : Bool) :
    (specStatus ii oi idt ip dp anyDone = .connected ↔
      (∀ v ∈ ii, v.isSome) ∧ (∀ v ∈ oi, v.isSome) ∧ (∀ v ∈ idt, v.isSome) ∧ (∀ v ∈ ip, v = true) ∧ (∀ v ∈ dp, v = true)) ∧
    (specStatus ii oi idt ip dp anyDone = .connecting → anyDone = true) ∧
    (specStatus ii oi idt ip dp anyDone = .idle → anyDone = false) := by
  unfold specStatus
  refine ⟨?_, ?_, ?_⟩
  · constructor
    · intro h
      split at h
      · rename_i hc
        simp only [Bool.and_eq_true, List.all_eq_true, decide_eq_true_eq] at hc
        exact ⟨hc.1.1.1.1, hc.1.1.1.2, hc.1.1.2, hc.1.2, hc.2⟩
      · split at h <;> cases h
    · intro ⟨a, b, c, d, e⟩
      have : (ii.all Option.isSome && oi.all Option.isSome && idt.all Option.isSome &&
          ip.all (· = true) && dp.all (· = true)) = true := by
        simp only [Bool.and_eq_true, List.all_eq_true, decide_eq_true_eq]
        exact ⟨⟨⟨⟨a, b⟩, c⟩, d⟩, e⟩
      rw [if_pos this]
  · intro h; split at h
    · cases h
    · split at h
      · assumption
      · cases h
  · intro h; split at h
    · cases h
    · split at h
      · cases h
      · rename_i hn; simpa using hn

/-- **the connect loop's flags**: a component that is not CONNECTED keeps the loop going, and anything but
    CONNECTING_IDLE counts as progress — the flags of `stepComp` -/
theorem tr_connect_flags (st : Status) (hs : st ≠ .initialized) (anew aun : Bool) :
    Tr.connect_flags (statusCode st) anew aun =
      .ok (anew || (st != .idle), aun || (st != .connected)) := by
  cases st <;> simp [Tr.connect_flags, Tr.connect_flags.join1, Tr.connect_flags.join2, statusCode] at hs ⊢

/-- **`ConnectHelper._push_data`** — how the initial data of an output reach it: a static output gets one publication
    without a time; otherwise the data are published for the composition's start time *and* for the time of the output's
    metadata when the two differ (so that both the driver's initial pull at the start time and consumers that ask for the
    metadata time are served), once for the metadata time when they agree; the output is marked as served -/
theorem tr_ConnectHelper__push_data (pushed : List (Nat × Bool)) (trace : List (Option Int)) (name : Nat)
    (time infoTime : Option Int) (static : Bool) :
    Tr.ConnectHelper__push_data pushed trace name time infoTime static =
      .ok (Py.dictSet pushed name true,
           trace ++ (if static then [none] else if infoTime ≠ time then [time, infoTime] else [infoTime])) := by
  unfold Tr.ConnectHelper__push_data Tr.ConnectHelper__push_data.join1
  cases static
  · by_cases h : infoTime = time <;> simp [h, Py.recordPush, bind, Except.bind, pure, Except.pure]
  · simp [Py.recordPush, bind, Except.bind, pure, Except.pure]

/-- **initial data are available at the start time, on the code**: whatever the metadata time of a non-static output
    is, its initial data are published for the composition's start time (the time of the driver's initial pulls) -/
theorem code_initial_data_at_start (pushed : List (Nat × Bool)) (name : Nat) (start infoTime : Option Int) :
    ∃ p tr, Tr.ConnectHelper__push_data pushed [] name start infoTime false = .ok (p, tr) ∧ start ∈ tr ∧ infoTime ∈ tr ∧
      Py.dictGet? p name = some true := by
  refine ⟨_, _, tr_ConnectHelper__push_data pushed [] name start infoTime false, ?_, ?_, ?_⟩
  · by_cases h : infoTime = start <;> simp [h]
  · by_cases h : infoTime = start <;> simp [h]
  · induction pushed with
    | nil => simp [Py.dictSet, Py.dictGet?]
    | cons q pushed ih =>
      obtain ⟨k, v⟩ := q
      by_cases hk : k = name <;> simp [Py.dictSet, Py.dictGet?, hk, ih]

/-! ### the whole `Composition._connect_components` loop, on the regenerated definition

`comp.connect(time)` is a parameter `cc` (what it does to the world and to the table of statuses).  The only thing assumed of
it is the frame condition `OwnStatus`: a component's `connect` changes no other component's status. -/

abbrev StatusTab := List (Nat × Int)

/-- `comp.connect` changes the status of `comp` only -/
def OwnStatus {φ} (cc : φ → StatusTab → Nat → Except Err (StatusTab × φ)) : Prop :=
  ∀ w st c st' w', cc w st c = .ok (st', w') → ∀ c', c' ≠ c → Py.dictGet? st' c' = Py.dictGet? st c'

def connected (st : StatusTab) (c : Nat) : Prop := (Py.dictGet? st c).getD (-1) = 0

/-- one pass of the `for comp in self._components` loop: when it ends without `any_unconnected`, every component visited in
    it is CONNECTED at the end of the pass, and so is every component that was CONNECTED before and... stays so -/
theorem pass_all_connected {φ} (cc : φ → StatusTab → Nat → Except Err (StatusTab × φ)) (hcc : OwnStatus cc)
    (full : List Nat) (fuelN : Nat) : ∀ (cs : List Nat) (st : StatusTab) (w : φ) (anew : Bool) (st' : StatusTab) (w' : φ) (anew' : Bool)
      (pre : List Nat), (∀ c ∈ pre, connected st c) →
      Tr.connect_components.loop2 full st w fuelN false anew cc cs = .ok (st', w', false, anew') →
      ∀ c, (c ∈ pre ∨ c ∈ cs) → connected st' c := by
  intro cs
  induction cs with
  | nil =>
    intro st w anew st' w' anew' pre hpre h c hc
    simp [Tr.connect_components.loop2, pure, Except.pure] at h
    obtain ⟨rfl, _, _⟩ := h
    cases hc with
    | inl hp => exact hpre c hp
    | inr hn => cases hn
  | cons c0 cs ih =>
    intro st w anew st' w' anew' pre hpre h c hc
    unfold Tr.connect_components.loop2 at h
    by_cases h0 : (Py.dictGet? st c0).getD (-1) = 0
    · -- already connected: skipped
      simp only [h0, ne_eq, not_true_eq_false, if_false] at h
      have := ih st w anew st' w' anew' (c0 :: pre) (by
        intro x hx; cases hx with
        | head => exact h0
        | tail _ hx => exact hpre x hx) h c (by
          cases hc with
          | inl hp => exact Or.inl (List.mem_cons_of_mem _ hp)
          | inr hn => cases hn with
            | head => exact Or.inl (List.mem_cons_self)
            | tail _ hn => exact Or.inr hn)
      exact this
    · simp only [ne_eq, h0, not_false_eq_true, if_true] at h
      cases hcall : cc w st c0 with
      | error e => simp [hcall, bind, Except.bind] at h
      | ok r =>
        obtain ⟨st1, w1⟩ := r
        simp only [hcall, ok_bind] at h
        have hframe := hcc w st c0 st1 w1 hcall
        by_cases h1 : (Py.dictGet? st1 c0).getD (-1) = 0
        · simp only [h1, if_true] at h
          have hpre1 : ∀ x ∈ c0 :: pre, connected st1 x := by
            intro x hx
            cases hx with
            | head => exact h1
            | tail _ hx =>
              by_cases hxc : x = c0
              · subst hxc; exact h1
              · unfold connected; rw [hframe x hxc]; exact hpre x hx
          exact ih st1 w1 true st' w' anew' (c0 :: pre) hpre1 h c (by
            cases hc with
            | inl hp => exact Or.inl (List.mem_cons_of_mem _ hp)
            | inr hn => cases hn with
              | head => exact Or.inl (List.mem_cons_self)
              | tail _ hn => exact Or.inr hn)
        · -- the component is still unconnected: the pass ends with `any_unconnected`, contradiction
          simp only [h1, if_false] at h
          exfalso
          have key : ∀ (cs : List Nat) (st : StatusTab) (w : φ) (anew : Bool) (r : StatusTab × φ × Bool × Bool),
              Tr.connect_components.loop2 full st w fuelN true anew cc cs = .ok r → r.2.2.1 = true := by
            intro cs
            induction cs with
            | nil => intro st w anew r hr; simp [Tr.connect_components.loop2, pure, Except.pure] at hr; rw [← hr]
            | cons d ds ihd =>
              intro st w anew r hr
              unfold Tr.connect_components.loop2 at hr
              by_cases hd : (Py.dictGet? st d).getD (-1) = 0
              · simp only [hd, ne_eq, not_true_eq_false, if_false] at hr; exact ihd _ _ _ _ hr
              · simp only [ne_eq, hd, not_false_eq_true, if_true] at hr
                cases hcd : cc w st d with
                | error e => simp [hcd, bind, Except.bind] at hr
                | ok q =>
                  obtain ⟨s2, w2⟩ := q
                  simp only [hcd, ok_bind] at hr
                  by_cases e0 : (Py.dictGet? s2 d).getD (-1) = 0
                  · simp only [e0, if_true] at hr; exact ihd _ _ _ _ hr
                  · simp only [e0, if_false] at hr
                    by_cases e1 : (Py.dictGet? s2 d).getD (-1) = 1
                    · simp only [e1, if_true] at hr; exact ihd _ _ _ _ hr
                    · simp only [e1, if_false] at hr; exact ihd _ _ _ _ hr
          by_cases h2 : (Py.dictGet? st1 c0).getD (-1) = 1
          · simp only [h2, if_true] at h
            have := key cs st1 w1 true _ h
            simp at this
          · simp only [h2, if_false] at h
            have := key cs st1 w1 anew _ h
            simp at this

/-- **connect() ends with every component connected, on the code**: whenever the translated `_connect_components` returns
    normally — whatever the components' `connect` methods do to the world, as long as each changes its own status only — every
    listed component is CONNECTED -/
theorem code_connect_ok_all_connected {φ} (cc : φ → StatusTab → Nat → Except Err (StatusTab × φ)) (hcc : OwnStatus cc)
    (comps : List Nat) (st : StatusTab) (w : φ) (fuel : Nat) (st' : StatusTab) (w' : φ)
    (h : Tr.connect_components comps st w cc fuel = .ok (st', w')) : ∀ c ∈ comps, connected st' c := by
  unfold Tr.connect_components at h
  have loopw : ∀ (n : Nat) (st : StatusTab) (w : φ) (k : Int) (r : StatusTab × φ × Int),
      Tr.connect_components.while1 comps st w fuel k cc n = .ok r → ∀ c ∈ comps, connected r.1 c := by
    intro n
    induction n with
    | zero => intro st w k r hr; simp [Tr.connect_components.while1, throw, throwThe, MonadExceptOf.throw] at hr
    | succ n ihn =>
      intro st w k r hr
      unfold Tr.connect_components.while1 at hr
      simp only [if_true] at hr
      cases hp : Tr.connect_components.loop2 comps st w fuel false false cc comps with
      | error e => simp [hp, bind, Except.bind] at hr
      | ok q =>
        obtain ⟨s1, w1, au, an⟩ := q
        simp only [hp, ok_bind] at hr
        cases au with
        | false =>
          simp [pure, Except.pure] at hr
          rw [← hr]
          intro c hc
          exact pass_all_connected cc hcc comps fuel comps st w false s1 w1 an [] (by intro x hx; cases hx) hp c (Or.inr hc)
        | true =>
          simp only [not_true_eq_false, if_false] at hr
          cases an with
          | false => simp [throw, throwThe, MonadExceptOf.throw] at hr
          | true =>
            simp only [not_true_eq_false, if_false] at hr
            exact ihn _ _ _ _ hr
  cases hw : Tr.connect_components.while1 comps st w fuel 0 cc fuel with
  | error e => simp [hw, bind, Except.bind] at h
  | ok r =>
    obtain ⟨s1, w1, k⟩ := r
    simp [hw, bind, Except.bind, pure, Except.pure] at h
    obtain ⟨rfl, _⟩ := h
    exact loopw fuel st w 0 _ hw

end Finam.Props.C06
