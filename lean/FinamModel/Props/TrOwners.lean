import FinamModel.PyPrelude
import FinamModel.Translated.map_inputs
import FinamModel.Translated.map_outputs
/-!
  `_map_inputs` / `_map_outputs` (`schedule.py`, regenerated on every run): the tables `Composition.connect` stores as
  `_input_owners` / `_output_owners`, read by the link enumeration of `Composition.metadata` (C19) and by
  `_find_dependencies` (C01, C02).  `Props/TrLinksCode.lean` composes it with the link enumeration.
-/
namespace Finam.Props.Owners
open Finam Finam.Py

theorem dictGet_dictSet_eq (d : List (Nat × Nat)) (k v : Nat) : dictGet (dictSet d k v) k = .ok v := by
  induction d with
  | nil => simp [dictSet, dictGet]
  | cons p d ih =>
    obtain ⟨k', v'⟩ := p
    by_cases h : k' = k <;> simp [dictSet, dictGet, h, ih]

theorem dictGet_dictSet_ne (d : List (Nat × Nat)) (k k2 v : Nat) (h : k ≠ k2) :
    dictGet (dictSet d k v) k2 = dictGet d k2 := by
  induction d with
  | nil => simp [dictSet, dictGet, h]
  | cons p d ih =>
    obtain ⟨k', v'⟩ := p
    by_cases h1 : k' = k
    · subst h1; simp [dictSet, dictGet, h]
    · by_cases h2 : k' = k2
      · subst h2; simp [dictSet, dictGet, h1]
      · simp [dictSet, dictGet, h1, h2, ih]

/-- a dict after a sequence of `d[k] = v` -/
def setAll (d : List (Nat × Nat)) (ps : List (Nat × Nat)) : List (Nat × Nat) := ps.foldl (fun d p => dictSet d p.1 p.2) d

theorem setAll_append (d ps qs) : setAll d (ps ++ qs) = setAll (setAll d ps) qs := by simp [setAll, List.foldl_append]

/-- a key all of whose assignments carry the same value reads as that value -/
theorem get_setAll (k v : Nat) : ∀ (ps d : List (Nat × Nat)), (∀ p ∈ ps, p.1 = k → p.2 = v) →
    ((k, v) ∈ ps ∨ dictGet d k = .ok v) → dictGet (setAll d ps) k = .ok v := by
  intro ps
  induction ps with
  | nil => intro d _ h; simpa [setAll] using h
  | cons p ps ih =>
    intro d hu h
    have hu' : ∀ q ∈ ps, q.1 = k → q.2 = v := fun q hq => hu q (List.mem_cons_of_mem _ hq)
    have e : setAll d (p :: ps) = setAll (dictSet d p.1 p.2) ps := rfl
    rw [e]
    by_cases hk : p.1 = k
    · have hv : p.2 = v := hu p List.mem_cons_self hk
      exact ih _ hu' (.inr (by rw [hk, hv]; exact dictGet_dictSet_eq d k v))
    · rcases h with h | h
      · rcases List.mem_cons.mp h with h | h
        · exact absurd (by rw [← h]) hk
        · exact ih _ hu' (.inl h)
      · exact ih _ hu' (.inr (by rw [dictGet_dictSet_ne d p.1 k p.2 hk]; exact h))

/-- nothing is invented: what a key reads as was assigned to it (or was there before) -/
theorem setAll_get (k v : Nat) : ∀ (ps d : List (Nat × Nat)), dictGet (setAll d ps) k = .ok v →
    (k, v) ∈ ps ∨ dictGet d k = .ok v := by
  intro ps
  induction ps with
  | nil => intro d h; exact .inr (by simpa [setAll] using h)
  | cons p ps ih =>
    intro d h
    have e : setAll d (p :: ps) = setAll (dictSet d p.1 p.2) ps := rfl
    rw [e] at h
    rcases ih _ h with h1 | h1
    · exact .inl (List.mem_cons_of_mem _ h1)
    · by_cases hk : p.1 = k
      · rw [hk, dictGet_dictSet_eq] at h1
        have : p.2 = v := by simpa using h1
        exact .inl (by rw [← hk, ← this]; exact List.mem_cons_self)
      · rw [dictGet_dictSet_ne d p.1 k p.2 hk] at h1
        exact .inr h1

/-- the assignments of `_map_inputs` / `_map_outputs`, in order -/
def slotPairs (slots : Nat → List Nat) (comps : List Nat) : List (Nat × Nat) :=
  comps.flatMap fun c => (slots c).map fun s => (s, c)

theorem in_loop2 (h : Heap) (c : Nat) : ∀ (is : List Nat) (d : List (Nat × Nat)),
    Tr.map_inputs.loop2 h d c (is.map fun i => ((), i)) = .ok (setAll d (is.map fun s => (s, c))) := by
  intro is
  induction is with
  | nil => intro d; unfold Tr.map_inputs.loop2; simp [setAll, pure, Except.pure]
  | cons i is ih => intro d; simp only [List.map_cons]; unfold Tr.map_inputs.loop2; simp [ih, setAll]

theorem in_loop1 (h : Heap) (all : List Nat) : ∀ (cs : List Nat) (d : List (Nat × Nat)),
    Tr.map_inputs.loop1 h all d cs = .ok (setAll d (slotPairs h.inputs cs)) := by
  intro cs
  induction cs with
  | nil => intro d; unfold Tr.map_inputs.loop1; simp [setAll, slotPairs, pure, Except.pure]
  | cons c cs ih =>
    intro d
    unfold Tr.map_inputs.loop1
    simp only [in_loop2, bind, Except.bind, ih, slotPairs, List.flatMap_cons, setAll_append]

/-- **`_map_inputs`** = the assignments `in_map[inp] = comp` in listing order -/
theorem tr_map_inputs (h : Heap) (comps : List Nat) :
    Tr.map_inputs h comps = .ok (setAll [] (slotPairs h.inputs comps)) := by
  unfold Tr.map_inputs
  simp [in_loop1, bind, Except.bind, pure, Except.pure]

theorem out_loop2 (h : Heap) (c : Nat) : ∀ (os : List Nat) (d : List (Nat × Nat)),
    Tr.map_outputs.loop2 h d c (os.map fun i => ((), i)) = .ok (setAll d (os.map fun s => (s, c))) := by
  intro os
  induction os with
  | nil => intro d; unfold Tr.map_outputs.loop2; simp [setAll, pure, Except.pure]
  | cons o os ih => intro d; simp only [List.map_cons]; unfold Tr.map_outputs.loop2; simp [ih, setAll]

theorem out_loop1 (h : Heap) (all : List Nat) : ∀ (cs : List Nat) (d : List (Nat × Nat)),
    Tr.map_outputs.loop1 h all d cs = .ok (setAll d (slotPairs h.outputs cs)) := by
  intro cs
  induction cs with
  | nil => intro d; unfold Tr.map_outputs.loop1; simp [setAll, slotPairs, pure, Except.pure]
  | cons c cs ih =>
    intro d
    unfold Tr.map_outputs.loop1
    simp only [out_loop2, bind, Except.bind, ih, slotPairs, List.flatMap_cons, setAll_append]

/-- **`_map_outputs`** = the assignments `out_map[out] = comp` in listing order -/
theorem tr_map_outputs (h : Heap) (comps : List Nat) :
    Tr.map_outputs h comps = .ok (setAll [] (slotPairs h.outputs comps)) := by
  unfold Tr.map_outputs
  simp [out_loop1, bind, Except.bind, pure, Except.pure]

theorem mem_slotPairs (slots : Nat → List Nat) (comps : List Nat) (s c : Nat) :
    (s, c) ∈ slotPairs slots comps ↔ c ∈ comps ∧ s ∈ slots c := by
  simp only [slotPairs, List.mem_flatMap, List.mem_map, Prod.mk.injEq]
  constructor
  · rintro ⟨c', hc', s', hs', rfl, rfl⟩; exact ⟨hc', hs'⟩
  · rintro ⟨hc, hs⟩; exact ⟨c, hc, s, hs, rfl, rfl⟩

/-- a slot of exactly one listed component reads as that component; and whatever the table says about a slot is a
    listed component that has it -/
theorem owner_table (slots : Nat → List Nat) (comps : List Nat) (s : Nat) :
    (∀ c, c ∈ comps → s ∈ slots c → (∀ c' ∈ comps, s ∈ slots c' → c' = c) →
      dictGet (setAll [] (slotPairs slots comps)) s = .ok c) ∧
    (∀ c, dictGet (setAll [] (slotPairs slots comps)) s = .ok c → c ∈ comps ∧ s ∈ slots c) := by
  constructor
  · intro c hc hs hu
    refine get_setAll s c _ [] ?_ (.inl ((mem_slotPairs slots comps s c).mpr ⟨hc, hs⟩))
    intro p hp hk
    obtain ⟨s', c'⟩ := p
    simp only at hk
    subst hk
    exact hu c' ((mem_slotPairs slots comps s' c').mp hp).1 ((mem_slotPairs slots comps s' c').mp hp).2
  · intro c hg
    rcases setAll_get s c _ [] hg with h1 | h1
    · exact (mem_slotPairs slots comps s c).mp h1
    · simp [dictGet] at h1

/-- **the owner tables on the code**: `_map_inputs` maps every input of exactly one listed component to it and has no
    other entries; the same for `_map_outputs` (the `output_owners` that `_find_dependencies` reads) -/
theorem code_input_owner (h : Heap) (comps : List Nat) :
    ∃ owners, Tr.map_inputs h comps = .ok owners ∧
      (∀ c i, c ∈ comps → i ∈ h.inputs c → (∀ c' ∈ comps, i ∈ h.inputs c' → c' = c) → dictGet owners i = .ok c) ∧
      (∀ c i, dictGet owners i = .ok c → c ∈ comps ∧ i ∈ h.inputs c) :=
  ⟨_, tr_map_inputs h comps, fun c i hc hi hu => (owner_table h.inputs comps i).1 c hc hi hu,
    fun c i hg => (owner_table h.inputs comps i).2 c hg⟩

theorem code_output_owner (h : Heap) (comps : List Nat) :
    ∃ owners, Tr.map_outputs h comps = .ok owners ∧
      (∀ c o, c ∈ comps → o ∈ h.outputs c → (∀ c' ∈ comps, o ∈ h.outputs c' → c' = c) → dictGet owners o = .ok c) ∧
      (∀ c o, dictGet owners o = .ok c → c ∈ comps ∧ o ∈ h.outputs c) :=
  ⟨_, tr_map_outputs h comps, fun c o hc ho hu => (owner_table h.outputs comps o).1 c hc ho hu,
    fun c o hg => (owner_table h.outputs comps o).2 c hg⟩

/-! ### non-vacuity -/

def exH : Heap :=
  { isInput := fun x => x ∈ [20, 21], isOutput := fun x => x ∈ [10], isAdapter := fun _ => false,
    isNoDep := fun _ => false, isDelay := fun _ => false, isNoBranch := fun _ => false, isTimeComp := fun _ => false,
    needsPush := fun _ => false, needsPull := fun _ => false, isStatic := fun _ => false, finished := fun _ => false,
    hasSource := fun x => x ∈ [20, 21], source := fun _ => 10,
    time := fun _ => 0, nextTime := fun _ => 0, withDelay := fun _ t => t, owner := fun _ => 0,
    inputs := fun c => if c = 2 then [20] else if c = 4 then [21] else [], outputs := fun c => if c = 0 then [10] else [],
    targets := fun x => if x = 10 then [20, 21] else [], size := 5 }

example : Tr.map_inputs exH [0, 2, 4] = .ok [(20, 2), (21, 4)] := by decide
example : Tr.map_outputs exH [0, 2, 4] = .ok [(10, 0)] := by decide

end Finam.Props.Owners
