import FinamModel.Sched
import FinamModel.Translated.run_select
import FinamModel.Translated.run_any_running
/-
  The run loop's two decisions, translated from `Composition.run` in `finam/schedule.py` on every run:
  which component is handed to `_update_recursive` (`sort(key=time)[0]` of the time components: the least
  advanced one, the first in the listing among equals) and whether the loop goes on (`any_running`).
  Both are proved equal to the model's `selectOrd` / `anyRunning` (C02, C03, C05).
-/
namespace Finam.Props.C03
open Finam Finam.Py

/-- left-to-right "first minimum": a later element replaces the best one only when strictly smaller -/
def lmin {α} (key : α → Int) : Option α → List α → Option α
  | best, [] => best
  | none, x :: xs => lmin key (some x) xs
  | some b, x :: xs => lmin key (if key x < key b then some x else some b) xs

theorem head_insert {α} (key : α → Int) (x : α) (acc : List α) :
    (insertByKey key x acc).head? = (match acc.head? with
      | none => some x
      | some b => if key x < key b then some x else some b) := by
  cases acc with
  | nil => rfl
  | cons y ys => simp only [insertByKey, List.head?_cons]; split <;> rfl

theorem head_sort {α} (key : α → Int) : ∀ (xs acc : List α),
    (xs.foldl (fun acc x => insertByKey key x acc) acc).head? = lmin key acc.head? xs := by
  intro xs
  induction xs with
  | nil => intro acc; rfl
  | cons x xs ih =>
    intro acc
    simp only [List.foldl_cons, ih, head_insert]
    cases acc.head? with
    | none => rfl
    | some b => simp only [lmin]

/-- **the run loop's choice**: the translated `sort(key=time)[0]` is the first least-advanced component of the list -/
theorem tr_run_select (h : Heap) (tcs : List Nat) :
    Tr.run_select h tcs = (match lmin h.time none tcs with | some x => .ok x | none => .error .other) := by
  unfold Tr.run_select
  have := head_sort h.time tcs []
  simp only [List.head?_nil] at this
  have he : (fun m => h.time m) = h.time := rfl
  rw [he]
  cases hs : sortByKey h.time tcs with
  | nil =>
    have hs' := hs
    simp only [sortByKey] at hs'; rw [hs'] at this; simp only []; rw [hs]; simp [← this]
  | cons y ys =>
    have hs' := hs
    simp only [sortByKey] at hs'; rw [hs'] at this; simp only []; rw [hs]; simp [← this]

/-- `lmin` with a current best: the answer is either that best (nothing in the list is strictly smaller) or a list
    element that is strictly smaller than the best and than everything before it, and not larger than anything after -/
theorem lmin_spec {α} (key : α → Int) : ∀ (xs : List α) (b : α),
    (lmin key (some b) xs = some b ∧ ∀ y ∈ xs, key b ≤ key y) ∨
    (∃ pre x post, xs = pre ++ x :: post ∧ lmin key (some b) xs = some x ∧ key x < key b ∧
        (∀ y ∈ pre, key x < key y) ∧ (∀ y ∈ post, key x ≤ key y)) := by
  intro xs
  induction xs with
  | nil => intro b; exact Or.inl ⟨rfl, by simp⟩
  | cons a xs ih =>
    intro b
    simp only [lmin]
    by_cases hlt : key a < key b
    · simp only [hlt, if_true]
      rcases ih a with ⟨h1, h2⟩ | ⟨pre, x, post, hx, h1, h2, h3, h4⟩
      · exact Or.inr ⟨[], a, xs, rfl, h1, hlt, by simp, h2⟩
      · refine Or.inr ⟨a :: pre, x, post, by simp [hx], h1, by omega, ?_, h4⟩
        intro y hy
        cases hy with
        | head => exact h2
        | tail _ hy' => exact h3 y hy'
    · simp only [hlt, if_false]
      rcases ih b with ⟨h1, h2⟩ | ⟨pre, x, post, hx, h1, h2, h3, h4⟩
      · refine Or.inl ⟨h1, ?_⟩
        intro y hy
        cases hy with
        | head => omega
        | tail _ hy' => exact h2 y hy'
      · refine Or.inr ⟨a :: pre, x, post, by simp [hx], h1, h2, ?_, h4⟩
        intro y hy
        cases hy with
        | head => omega
        | tail _ hy' => exact h3 y hy'

/-- **C02 on the code, least advanced first.**  The component the *translated* run loop hands to
    `_update_recursive` is a time component of minimal time, and the first such component in the listing. -/
theorem code_run_select_least (h : Heap) (tcs : List Nat) (x : Nat) (hx : Tr.run_select h tcs = .ok x) :
    ∃ pre post, tcs = pre ++ x :: post ∧ (∀ y ∈ pre, h.time x < h.time y) ∧ (∀ y ∈ post, h.time x ≤ h.time y) := by
  rw [tr_run_select] at hx
  cases tcs with
  | nil => simp [lmin] at hx
  | cons a xs =>
    simp only [lmin] at hx
    rcases lmin_spec h.time xs a with ⟨h1, h2⟩ | ⟨pre, y, post, hy, h1, h2, h3, h4⟩
    · rw [h1] at hx
      simp only [Except.ok.injEq] at hx; subst hx
      exact ⟨[], xs, rfl, by simp, h2⟩
    · rw [h1] at hx
      simp only [Except.ok.injEq] at hx; subst hx
      refine ⟨a :: pre, post, by simp [hy], ?_, h4⟩
      intro z hz
      cases hz with
      | head => exact h2
      | tail _ hz' => exact h3 z hz'

/-- the model's `selectOrd` on a listing is `lmin` on the time components of that listing -/
theorem lmin_selectOrd (h : Heap) (s : State) (cid : Nat → Nat)
    (ht : ∀ i, (s.comp i).isTime = true → h.time (cid i) = getNow (s.comp i)) :
    ∀ (order : List Nat) (best : Option (Nat × Int)), (∀ b, best = some b → b.2 = h.time (cid b.1)) →
      lmin h.time (best.map fun b => cid b.1) ((order.filter fun i => (s.comp i).isTime).map cid) =
        (selectOrd s order best).map fun b => cid b.1 := by
  intro order
  induction order with
  | nil => intro best _; rfl
  | cons i r ih =>
    intro best hb
    cases hk : (s.comp i).kind with
    | pull =>
      have hti : (s.comp i).isTime = false := by simp [Comp.isTime, hk]
      simp only [List.filter_cons, hti, Bool.false_eq_true, if_false, selectOrd, hk]
      exact ih best hb
    | time nw nx fin =>
      have hti : (s.comp i).isTime = true := by simp [Comp.isTime, hk]
      have hnow : h.time (cid i) = nw := by rw [ht i hti]; simp [getNow, hk]
      simp only [List.filter_cons, hti, if_true, List.map_cons, selectOrd, hk]
      cases best with
      | none =>
        simp only [Option.map_none, lmin]
        exact ih (some (i, nw)) (by intro b hb'; cases hb'; exact hnow.symm)
      | some b =>
        have hbt := hb b rfl
        simp only [Option.map_some, lmin, hnow, ← hbt]
        by_cases hlt : nw < b.2
        · simp only [hlt, if_true]
          exact ih (some (i, nw)) (by intro b' hb'; cases hb'; exact hnow.symm)
        · simp only [hlt, if_false]
          exact ih (some b) hb

/-- **`any_running`**: some time component is neither finished nor at / beyond the end time -/
theorem any_loop (h : Heap) (tcs : List Nat) (endT : Int) : ∀ (xs : List Nat),
    Tr.run_any_running.loop1 h tcs endT false xs =
      .ok (xs.any fun c => !h.finished c && decide (h.time c < endT)) := by
  intro xs
  induction xs with
  | nil => rfl
  | cons x xs ih =>
    rw [Tr.run_any_running.loop1]
    by_cases hc : h.finished x = false ∧ h.time x < endT
    · simp [hc]
    · simp only [hc, if_false, ih, List.any_cons]
      have : (!h.finished x && decide (h.time x < endT)) = false := by
        cases hf : h.finished x <;> simp [hf] at hc ⊢
        exact hc
      simp [this]

theorem tr_run_any_running (h : Heap) (tcs : List Nat) (endT : Int) :
    Tr.run_any_running h tcs endT = .ok (tcs.any fun c => !h.finished c && decide (h.time c < endT)) := by
  unfold Tr.run_any_running
  simp [any_loop]

/-- … which is the model's `anyRunning` when the heap carries the components' times and FINISHED flags -/
theorem any_running_model (h : Heap) (s : State) (cid : Nat → Nat) (endT : Int)
    (ht : ∀ i, (s.comp i).isTime = true → h.time (cid i) = getNow (s.comp i))
    (hf : ∀ i, h.finished (cid i) = isFinished (s.comp i)) (order : List Nat) :
    ((order.filter fun i => (s.comp i).isTime).map cid).any
        (fun c => !h.finished c && decide (h.time c < endT)) =
      order.any (fun i => match (s.comp i).kind with | .time nw _ fin => !fin && decide (nw < endT) | .pull => false) := by
  induction order with
  | nil => rfl
  | cons i r ih =>
    cases hk : (s.comp i).kind with
    | pull =>
      have hti : (s.comp i).isTime = false := by simp [Comp.isTime, hk]
      simp only [List.filter_cons, hti, Bool.false_eq_true, if_false, List.any_cons, hk, Bool.false_or]
      exact ih
    | time nw nx fin =>
      have hti : (s.comp i).isTime = true := by simp [Comp.isTime, hk]
      have hnow : h.time (cid i) = nw := by rw [ht i hti]; simp [getNow, hk]
      have hfin : h.finished (cid i) = fin := by rw [hf i]; simp [isFinished, hk]
      simp only [List.filter_cons, hti, if_true, List.map_cons, List.any_cons, hk, hnow, hfin, ih]

end Finam.Props.C03
