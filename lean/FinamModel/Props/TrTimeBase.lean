import FinamModel.TimeAdapters
import FinamModel.Props.TrCommon
import FinamModel.Translated.interpolate
import FinamModel.Translated.interpolate_step
import FinamModel.Translated.check_time
import FinamModel.Translated.TimeCachingAdapter__clear_cached_data
/-
  The helpers of `finam/adapters/time.py` shared by the interpolation (C11) and the integration adapters (C12):
  `interpolate`, `interpolate_step`, `check_time`, `TimeCachingAdapter._clear_cached_data` — translated from the
  source on every run and proved equal to the model.
-/
namespace Finam.Props.C11
open Finam Finam.Py

theorem tr_interpolate (o n dt : Rat) : Tr.interpolate o n dt = .ok (TA.lerp o n dt) := rfl

theorem tr_interpolate_step {α} (o n : α) (dt pos : Rat) :
    Tr.interpolate_step o n dt pos = .ok (TA.stepSel o n dt pos) := by
  unfold Tr.interpolate_step TA.stepSel
  by_cases h : dt > pos <;> simp [h]

/-- the eviction loop `while len(self.data) > 1 and self.data[1][0] <= time: self.data.pop(0)` = `TA.clear`
    (and the fuel `len + 1` is enough) -/
theorem clear_while {α} (t : Int) : ∀ (fuel : Nat) (d : List (Int × α)), d.length < fuel →
    Tr.TimeCachingAdapter__clear_cached_data.while1 d t fuel = .ok (ofE (TA.clear (toE d) t)) := by
  intro fuel
  induction fuel with
  | zero => intro d h; omega
  | succ fuel ih =>
    intro d h
    unfold Tr.TimeCachingAdapter__clear_cached_data.while1
    match d with
    | [] => simp [TA.clear, ofE]
    | [p] => simp [TA.clear, ofE]
    | p :: q :: r =>
      have hl : Py.len r + 1 + 1 > 1 := by have := len_nonneg r; omega
      have hi : idx (p :: q :: r) 1 = .ok q := by simpa using idx_nat (p :: q :: r) 1 q (by simp)
      simp only [len_cons, hl, if_true, hi, ok_bind, toE_cons, TA.clear]
      by_cases hc : q.1 ≤ t
      · have := ih (q :: r) (by simp at h ⊢; omega)
        simp only [toE_cons] at this
        simp [hc, Py.pop0, this]
      · simp [hc, ofE]
        exact (ofE_toE r).symm

theorem tr_TimeCachingAdapter__clear_cached_data {α} (d : List (Int × α)) (t : Int) :
    Tr.TimeCachingAdapter__clear_cached_data d t = .ok (ofE (TA.clear (toE d) t)) := by
  unfold Tr.TimeCachingAdapter__clear_cached_data
  apply clear_while
  simp [Py.len]

/-- `check_time(logger, time, (lo, hi))` with both bounds given: first the upper bound, then the lower one,
    a `FinamTimeError` either way -/
theorem tr_check_time (t lo hi : Int) :
    Tr.check_time t (some lo, some hi) = (if t > hi then .error .timeErr else if t < lo then .error .timeErr else .ok ()) := by
  unfold Tr.check_time
  by_cases h1 : t > hi <;> by_cases h2 : t < lo <;> simp [Py.unwrap, h1, h2]

/-- the emptiness test and `check_time(…, (data[0][0], data[-1][0]))` of `_get_data` are `TA.checkRange` -/
theorem check_range_tr {α} (p : Int × α) (r : List (Int × α)) (t : Int) :
    (do let a ← idx (p :: r) 0
        let b ← idx (p :: r) (-1)
        Tr.check_time t (some a.1, some b.1) : Except Err Unit) = TA.checkRange (toE (p :: r)) t := by
  simp only [idx_zero_cons, ok_bind, idx_last, tr_check_time, toE_cons, TA.checkRange]

end Finam.Props.C11
