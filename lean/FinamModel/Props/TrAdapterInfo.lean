import FinamModel.PyPrelude
import FinamModel.Translated.Adapter_exchange_info
import FinamModel.Translated.Adapter__get_info
import FinamModel.Translated.Adapter_get_info
/-!
  C07 — the metadata exchange through pass-through adapters, on the *translated* `Adapter.get_info`, `Adapter._get_info`
  (the default one) and `Adapter.exchange_info` (`sdk/adapter.py`, regenerated on every run).  An `Info` is an opaque
  value; what the adapter's source answers (`self._source.get_info`) is a parameter.
-/
namespace Finam.Props.C07A
open Finam Finam.Py

variable {α : Type}

/-- **a pass-through adapter hands the request up and the answer down unchanged**, and records the answer as its own
    input and output metadata: both ends of the adapter agree -/
theorem code_adapter_passes_info (inI outI : Option α) (req d : α) (src : α → Except Err α) (hs : src req = .ok d) :
    Tr.Adapter_get_info inI outI (some req) src = .ok (d, some d, some d) := by
  unfold Tr.Adapter_get_info Tr.Adapter__get_info Tr.Adapter_exchange_info
  simp [hs, Py.unwrap, bind, Except.bind, pure, Except.pure]

/-- whatever the source raises is what the adapter raises; nothing is recorded -/
theorem code_adapter_passes_error (inI outI : Option α) (req : α) (e : Err) (src : α → Except Err α)
    (hs : src req = .error e) : Tr.Adapter_get_info inI outI (some req) src = .error e := by
  unfold Tr.Adapter_get_info Tr.Adapter__get_info Tr.Adapter_exchange_info
  simp [hs, Py.unwrap, bind, Except.bind, pure, Except.pure]

/-- a request without metadata is refused before the source is asked -/
theorem code_adapter_no_request (inI outI : Option α) (src : α → Except Err α) :
    Tr.Adapter_get_info inI outI none src = .error .metaErr := by
  unfold Tr.Adapter_get_info Tr.Adapter__get_info Tr.Adapter_exchange_info
  simp [bind, Except.bind, throw, throwThe, MonadExceptOf.throw]

/-- `get_info` of the element `k` adapters below an output: each one asks the one above it -/
def chainGet (out : α → Except Err α) : Nat → α → Except Err α
  | 0 => out
  | k + 1 => fun req => (Tr.Adapter_get_info (none : Option α) none (some req) (chainGet out k)).map (·.1)

/-- **C07 on the code — through any chain of pass-through adapters the consumer receives exactly the metadata the
    output delivered for the consumer's request** (and exactly its error) -/
theorem code_adapter_chain_passes_info (out : α → Except Err α) (req : α) : ∀ k, chainGet out k req = out req := by
  intro k
  induction k with
  | zero => rfl
  | succ k ih =>
    simp only [chainGet]
    cases ho : out req with
    | error e => rw [code_adapter_passes_error none none req e _ (by rw [ih, ho])]; rfl
    | ok d => rw [code_adapter_passes_info none none req d _ (by rw [ih, ho])]; rfl

example : chainGet (fun (r : Nat) => if r = 7 then .ok 9 else .error .metaErr) 3 7 = .ok 9 := by
  rw [code_adapter_chain_passes_info]; rfl

end Finam.Props.C07A
