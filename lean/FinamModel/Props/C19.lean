import FinamModel.ValidateLemmas
/-!
  C19 — composition validation rejects exactly the unworkable topologies.

  Model: `FinamModel/Validate.lean` (`validate` mirrors `Composition._validate_composition`,
  `links` the link list of `Composition.metadata`, `connect` the order validation → exchange).
  `Unworkable` is the property's list of rejected setups read on the coupling forest; the helper
  lemmas characterising every single check are in `FinamModel/ValidateLemmas.lean`.
-/
namespace Finam.Props.C19
open Finam Finam.Validate

/-- **C19, exactness.** For every coupling forest (chains of any length, any fan-out, any number
    of components, any listing order) `_validate_composition` raises iff the topology is one of the
    unworkable ones the property lists — no false accept, no false reject. -/
theorem validate_exact (cs : List Comp) (F : List Tree) :
    Rejected (validate cs F) ↔ Unworkable cs F := by
  rw [validate_rejected, checkMissing_rejected]
  simp only [checkInput_rejected, checkInputConnected_rejected, checkDeadLinks_rejected,
    checkBranching_rejected]
  constructor
  · rintro (⟨i, hi, ((h | h) | h)⟩ | ⟨o, ho, h⟩ | h | h)
    · exact ⟨Or.inl ⟨i, hi, h⟩⟩
    · exact ⟨Or.inr (Or.inl ⟨i, hi, h⟩)⟩
    · exact ⟨Or.inr (Or.inr (Or.inl ⟨i, hi, h⟩))⟩
    · exact ⟨Or.inr (Or.inr (Or.inr (Or.inl ⟨o, ho, h⟩)))⟩
    · exact ⟨Or.inr (Or.inr (Or.inr (Or.inr (Or.inl h))))⟩
    · exact ⟨Or.inr (Or.inr (Or.inr (Or.inr (Or.inr h))))⟩
  · rintro ⟨⟨i, hi, h⟩ | ⟨i, hi, h⟩ | ⟨i, hi, h⟩ | ⟨o, ho, h⟩ | h | h⟩
    · exact Or.inl ⟨i, hi, Or.inl (Or.inl h)⟩
    · exact Or.inl ⟨i, hi, Or.inl (Or.inr h)⟩
    · exact Or.inl ⟨i, hi, Or.inr h⟩
    · exact Or.inr (Or.inl ⟨o, ho, h⟩)
    · exact Or.inr (Or.inr (Or.inl h))
    · exact Or.inr (Or.inr (Or.inr h))

/-- every rejection is a `FinamConnectError`, and it precedes every exchange -/
theorem reject_before_exchange (cs : List Comp) (F : List Tree) (exch : Except Err Unit)
    (h : Unworkable cs F) :
    (connect cs F exch).result = .error .connectErr ∧ (connect cs F exch).exchanged = [] := by
  have hr := (validate_exact cs F).mpr h
  simp only [connect]
  cases hv : validate cs F with
  | error r => exact ⟨rfl, rfl⟩
  | ok u => cases u; exact absurd hv hr

/-- a workable topology reaches the exchange phase: the result of `connect` is whatever the
    exchange phase gives, over exactly the reported links -/
theorem accept_reaches_exchange (cs : List Comp) (F : List Tree) (exch : Except Err Unit)
    (h : ¬ Unworkable cs F) :
    connect cs F exch = ⟨exch, links cs F⟩ := by
  have hr : ¬ Rejected (validate cs F) := fun h' => h ((validate_exact cs F).mp h')
  simp only [connect]
  cases hv : validate cs F with
  | error r => exact absurd (by rw [hv]; exact rejected_error r) hr
  | ok u => rfl

/-- after a successful validation every tree that holds an input of the composition is rooted at
    an output of the composition -/
theorem validated_roots (cs : List Comp) (F : List Tree) (hv : validate cs F = .ok ()) :
    ∀ i ∈ compInputs cs, i.headD 0 ∈ compOutputs cs := by
  intro i hi
  apply Classical.byContradiction
  intro hn
  have : Rejected (validate cs F) :=
    (validate_rejected cs F).mpr (Or.inr (Or.inr ((checkMissing_rejected cs F).mpr (Or.inr ⟨i, hi, hn⟩))))
  exact this hv

/-- **C19, link list.** After a successful validation `metadata["links"]` holds exactly the links
    created by `>>` in the trees of the composition's outputs (which are all trees that hold a
    slot of the composition, `validated_roots`). -/
theorem links_exact (cs : List Comp) (F : List Tree) (hv : validate cs F = .ok ()) (a b : Pos) :
    (a, b) ∈ links cs F ↔ IsLink F a b ∧ a.headD 0 ∈ compOutputs cs := by
  simp only [links, List.mem_append, List.mem_flatMap]
  constructor
  · rintro (⟨o, ho, h⟩ | ⟨q, hq, h⟩)
    · obtain ⟨rfl, j, s, hw, hj, rfl⟩ := (mem_directLinks F [o] a b).mp h
      exact ⟨(isLink_iff F o [] _).mpr ⟨j, s, hw, hj, rfl⟩, ho⟩
    · obtain ⟨rfl, j, s, hw, hj, rfl⟩ := (mem_directLinks F q a b).mp h
      have hq2 : a ≠ [] ∧ a.headD 0 ∈ compOutputs cs := by
        simp only [adapters, mem_dedup, List.mem_append, List.mem_flatMap] at hq
        rcases hq with ⟨i, hi, hq⟩ | ⟨o, ho, hq⟩
        · obtain ⟨h1, h2⟩ := mem_adaptersAbove F i a hq
          exact ⟨h1, h2 ▸ validated_roots cs F hv i hi⟩
        · cases ht : F[o]? with
          | none => simp [ht] at hq
          | some t =>
            simp only [ht, List.mem_map] at hq
            obtain ⟨q', _, rfl⟩ := hq
            exact ⟨by simp, by simpa using ho⟩
      cases a with
      | nil => exact absurd rfl hq2.1
      | cons o q => exact ⟨(isLink_iff F o q _).mpr ⟨j, s, hw, hj, rfl⟩, hq2.2⟩
  · rintro ⟨hl, ho⟩
    cases a with
    | nil => exact absurd rfl hl.1
    | cons o q =>
      simp only [List.headD_cons] at ho
      obtain ⟨j, s, hw, hj, rfl⟩ := (isLink_iff F o q b).mp hl
      cases q with
      | nil => exact Or.inl ⟨o, ho, (mem_directLinks F [o] _ _).mpr ⟨rfl, j, s, hw, hj, rfl⟩⟩
      | cons k rest =>
        right
        refine ⟨o :: k :: rest, ?_, (mem_directLinks F _ _ _).mpr ⟨rfl, j, s, hw, hj, rfl⟩⟩
        simp only [adapters, mem_dedup, List.mem_append, List.mem_flatMap]
        right
        obtain ⟨t, ht, hps⟩ := (fwalk_posSpec F o (k :: rest) s).mp hw
        refine ⟨o, ho, ?_⟩
        simp only [ht, List.mem_map]
        refine ⟨k :: rest, (mem_adaptersBelow t _).mpr ⟨by simp, s, hps, ?_⟩, rfl⟩
        cases s with
        | input e => simp [Tree.kids] at hj
        | node e ks => rfl

/-- after validation the root above every input of the composition is an `Output` object -/
theorem validated_sources (cs : List Comp) (F : List Tree) (hv : validate cs F = .ok ()) :
    ∀ i ∈ compInputs cs, ∃ r rest, fwalk F i = some (r :: rest) ∧ r.isSource = true := by
  intro i hi
  apply Classical.byContradiction
  intro hn
  have : Rejected (validate cs F) := by
    refine (validate_rejected cs F).mpr (Or.inl ⟨i, hi, (checkInput_rejected F i).mpr (Or.inl ?_)⟩)
    refine (checkInputConnected_rejected F i).mpr (Or.inl ?_)
    intro r rest hw
    cases hs : r.isSource with
    | false => rfl
    | true => exact absurd ⟨r, rest, hw, hs⟩ hn
  exact this hv

/-- every collected adapter lies strictly below a root -/
theorem adapters_length (cs : List Comp) (F : List Tree) (hv : validate cs F = .ok ()) :
    ∀ q ∈ adapters cs F, 2 ≤ q.length := by
  intro q hq
  simp only [adapters, mem_dedup, List.mem_append, List.mem_flatMap] at hq
  rcases hq with ⟨i, hi, hq⟩ | ⟨o, ho, hq⟩
  · obtain ⟨r, rest, hw, hs⟩ := validated_sources cs F hv i hi
    simp only [adaptersAbove, List.mem_filterMap, List.mem_filter, List.mem_range, decide_eq_true_eq] at hq
    obtain ⟨n, ⟨hn1, hn2⟩, hq⟩ := hq
    cases hw2 : fwalk F (i.take n) with
    | none => simp [hw2] at hq
    | some p =>
      cases hl : p.getLast? with
      | none => simp [hw2, hl] at hq
      | some t =>
        simp only [hw2, hl] at hq
        split at hq
        · cases hq
        · rename_i hns
          cases hq
          -- n = 1 would make t the root, which is a source
          cases i with
          | nil => simp at hn1
          | cons k i' =>
            cases n with
            | zero => omega
            | succ n =>
              cases n with
              | zero =>
                exfalso
                simp only [List.take_succ_cons, List.take_zero] at hw2
                obtain ⟨t0, ht0, rfl⟩ := fwalk_single F k p hw2
                simp at hl; subst hl
                obtain ⟨t1, ht1, hwalk⟩ := (fwalk_cons F k i' (r :: rest)).mp hw
                rw [ht0] at ht1; cases ht1
                have := walk_head t0 i' _ hwalk
                simp at this; subst this
                exact hns hs
              | succ n =>
                simp only [List.length_cons] at hn1
                simp only [List.take_succ_cons, List.length_cons, List.length_take]
                omega
  · cases ht : F[o]? with
    | none => simp [ht] at hq
    | some t =>
      simp only [ht, List.mem_map] at hq
      obtain ⟨q', hq', rfl⟩ := hq
      have := ((mem_adaptersBelow t q').mp hq').1
      cases q' with
      | nil => exact absurd rfl this
      | cons a b => simp

/-- **no link is reported twice** (every output belongs to one listed component) -/
theorem links_nodup (cs : List Comp) (F : List Tree) (hv : validate cs F = .ok ())
    (ho : (compOutputs cs).Nodup) : (links cs F).Nodup := by
  simp only [links]
  rw [List.nodup_append]
  refine ⟨?_, flatMap_directLinks_nodup F _ (dedup_nodup _), ?_⟩
  · have : (compOutputs cs).flatMap (fun o => directLinks F [o]) =
        ((compOutputs cs).map (fun o => [o])).flatMap (directLinks F) := by
      simp [List.flatMap_map]
    rw [this]
    apply flatMap_directLinks_nodup
    simp only [List.Nodup, List.pairwise_map]
    exact ho.imp (fun {a b} h heq => h (by simpa using heq))
  · intro x hx y hy heq
    simp only [List.mem_flatMap] at hx hy
    obtain ⟨o, _, hx⟩ := hx
    obtain ⟨q, hq, hy⟩ := hy
    obtain ⟨x1, x2⟩ := x
    obtain ⟨y1, y2⟩ := y
    have h1 := ((mem_directLinks F [o] x1 x2).mp hx).1
    have h2 := ((mem_directLinks F q y1 y2).mp hy).1
    cases heq
    have := adapters_length cs F hv q hq
    rw [← h2, h1] at this
    simp at this

/-- On a chain `source, adapters…, input` whose adapters do not need pull (every adapter class of
    FINAM: `Gen.no_adapter_needs_pull`) the clause reads as in the property: the source is
    pull-only and some element behind it must be notified by pushes. -/
theorem dead_link_reading (src : Elem) (mid : List Elem) (last : Elem)
    (hmid : ∀ e ∈ mid, e.needsPull = false) :
    PullBeforePush (src :: (mid ++ [last])) ↔
      (src.needsPull = true ∧ ∃ y ∈ mid ++ [last], y.needsPush = true) := by
  rw [pbp_cons]
  constructor
  · rintro (h | h)
    · exact h
    · exact absurd h (pbp_mid_last mid last hmid)
  · exact Or.inl

/-! ### non-vacuity -/

def eOutput : Elem := ⟨true, true, false, false, false⟩          -- Output
def eCallbackOutput : Elem := ⟨true, false, true, false, false⟩  -- CallbackOutput
def eStaticOutput : Elem := ⟨true, true, false, false, true⟩
def eInput : Elem := ⟨false, false, true, false, false⟩          -- Input
def eCallbackInput : Elem := ⟨false, true, false, false, false⟩  -- CallbackInput
def eStaticInput : Elem := ⟨false, false, true, false, true⟩
def eScale : Elem := ⟨false, false, false, false, false⟩
def eLinear : Elem := ⟨false, true, false, true, false⟩          -- LinearTime: push-based, no-branch
def eDelayToPull : Elem := ⟨false, false, false, true, false⟩

/-- producer `A` (two outputs), consumer `B` (three inputs): a fan-out above two no-branch adapters,
    a chain of three adapters, a pull-only source behind pass-through adapters -/
def exF : List Tree := [
  .node eOutput [.node eScale [.node eLinear [.input eInput], .node eDelayToPull [.node eScale [.input eCallbackInput]]]],
  .node eCallbackOutput [.node eScale [.input eInput]]]
def exCs : List Comp := [⟨[[0, 0, 0, 0], [0, 0, 1, 0, 0], [1, 0, 0]], []⟩, ⟨[], [0, 1]⟩]

example : validate exCs exF = .ok () ∧ ¬ Unworkable exCs exF ∧
    links exCs exF = [([0], [0, 0]), ([1], [1, 0]), ([0, 0], [0, 0, 0]), ([0, 0], [0, 0, 1]),
      ([0, 0, 0], [0, 0, 0, 0]), ([0, 0, 1], [0, 0, 1, 0]), ([0, 0, 1, 0], [0, 0, 1, 0, 0]), ([1, 0], [1, 0, 0])] := by
  refine ⟨by decide, ?_, by decide⟩
  rw [← validate_exact]; decide

/-- one witness per clause: each is rejected, hence `Unworkable`, and nothing is exchanged -/
def exUnconnected : List Tree := [.node eOutput [.input eInput], .node eScale [.input eInput]]
def exStatic : List Tree := [.node eOutput [.node eScale [.input eStaticInput]]]
def exDead : List Tree := [.node eCallbackOutput [.node eScale [.node eLinear [.input eInput]]]]
def exBranch : List Tree := [.node eOutput [.node eLinear [.node eScale [.input eInput, .input eInput]]]]
def exForeign : List Tree := [.node eOutput [.input eInput, .node eScale [.input eInput]]]

example : validate [⟨[[0, 0], [1, 0]], [0]⟩] exUnconnected = .error .unconnected ∧
    validate [⟨[[0, 0, 0]], [0]⟩] exStatic = .error .staticSrc ∧
    validate [⟨[[0, 0, 0, 0]], [0]⟩] exDead = .error .deadLink ∧
    validate [⟨[[0, 0, 0, 0], [0, 0, 0, 1]], [0]⟩] exBranch = .error .branching ∧
    validate [⟨[[0, 0]], [0]⟩] exForeign = .error .missingIn ∧
    validate [⟨[[0, 0], [0, 1, 0]], []⟩] exForeign = .error .missingOut ∧
    validate [⟨[[0, 0, 0]], [0]⟩] [.node eStaticOutput [.node eScale [.input eStaticInput]]] = .ok () := by
  decide

example : (links exCs exF).Nodup := links_nodup exCs exF (by decide) (by decide)

example : Unworkable [⟨[[0, 0, 0, 0]], [0]⟩] exDead ∧
    (connect [⟨[[0, 0, 0, 0]], [0]⟩] exDead (.ok ())).exchanged = [] := by
  have h : Unworkable [⟨[[0, 0, 0, 0]], [0]⟩] exDead := (validate_exact _ _).mp (by decide)
  exact ⟨h, (reject_before_exchange _ _ _ h).2⟩

example : PullBeforePush ([eCallbackOutput, eScale, eLinear, eInput]) :=
  (dead_link_reading eCallbackOutput [eScale, eLinear] eInput (by decide)).mpr ⟨rfl, eLinear, by decide, rfl⟩

end Finam.Props.C19
