import FinamModel.PyPrelude
import FinamModel.Translated.transfer_fields
import FinamModel.Translated.ConnectHelper__apply_rules
import FinamModel.Translated.ConnectHelper__apply_in_info_rules
import FinamModel.Translated.ConnectHelper__apply_out_info_rules
/-!
  C06 — metadata composed by transfer rules, on the *translated* `_transfer_fields` and `ConnectHelper._apply_rules`
  (`tools/connect_helper.py`, regenerated from the source on every run).  An `Info` is read as (time, grid, metadata by
  key; key 0 = "time", key 1 = "grid"), a rule as (kind, name or field, fields, value) with kind 0 = `FromInput`,
  1 = `FromOutput`, 2 = `FromValue`.  The statements are made directly on the regenerated definitions: the composed
  metadata are the left fold of the rules in the order given — every rule works on what the earlier ones left, a later rule
  overwrites an earlier one.
-/
namespace Finam.Props.Rules
open Finam Finam.Py

abbrev Info3 := Option Nat × Option Nat × List (Nat × Option Nat)
abbrev Rule := Int × Nat × List Nat × Option Nat

/-- one field of a transfer -/
def fieldStep (s : Info3) (t : Info3) (f : Nat) : Except Err Info3 :=
  if f = 0 then .ok (s.1, t.2.1, t.2.2)
  else if f = 1 then .ok (t.1, s.2.1, t.2.2)
  else match dictGet s.2.2 f with
    | .error e => .error e
    | .ok v => .ok (t.1, t.2.1, dictSet t.2.2 f v)

/-- `_transfer_fields(source, target, fields)`: everything when no field is named, else the named fields in order
    (a metadata key the source does not have is a `KeyError`) -/
def transferSpec (fields : List Nat) (s t : Info3) : Except Err Info3 :=
  if fields = [] then .ok s else fields.foldlM (fieldStep s) t

theorem transfer_loop (full : List Nat) (s : Info3) : ∀ (fs : List Nat) (t : Info3),
    Tr.transfer_fields.loop1 full s.1 s.2.1 s.2.2 t.1 t.2.1 t.2.2 fs = fs.foldlM (fieldStep s) t := by
  intro fs
  induction fs with
  | nil => intro t; simp [Tr.transfer_fields.loop1, pure, Except.pure]
  | cons f fs ih =>
    intro t
    obtain ⟨tt, tg, tm⟩ := t
    simp only [Tr.transfer_fields.loop1, List.foldlM_cons, fieldStep]
    by_cases h0 : f = 0
    · simp only [h0, if_true]; exact ih (s.1, tg, tm)
    · by_cases h1 : f = 1
      · simp only [h1, if_true]
        have := ih (tt, s.2.1, tm)
        simpa [bind, Except.bind] using this
      · simp only [h0, h1, if_false]
        cases hg : dictGet s.2.2 f with
        | error e => simp [bind, Except.bind]
        | ok v =>
          have := ih (tt, tg, dictSet tm f v)
          simpa [bind, Except.bind] using this

/-- **`_transfer_fields`** = `transferSpec` -/
theorem tr_transfer_fields (fields : List Nat) (s t : Info3) :
    Tr.transfer_fields fields s.1 s.2.1 s.2.2 t.1 t.2.1 t.2.2 = transferSpec fields s t := by
  unfold Tr.transfer_fields transferSpec
  cases fields with
  | nil => simp [Py.len, pure, Except.pure]
  | cons f fs =>
    have hl : ¬ (Py.len (f :: fs) = 0) := by have := len_nonneg fs; simp [len_cons]; omega
    simp only [hl, if_false, List.cons_ne_nil]
    rw [transfer_loop]
    cases (f :: fs).foldlM (fieldStep s) t <;> simp [bind, Except.bind, pure, Except.pure]

/-- `Info(time=None, grid=None)`: nothing but the dimensionless unit (id 3) under the key "units" (id 2) -/
def info0 : Info3 := (none, none, [(2, some 3)])

/-- what one rule does to the metadata composed so far -/
def ruleStep (ins outs : List (Nat × Option Info3)) (t : Info3) (r : Rule) : Except Err Info3 :=
  if r.1 = 0 then
    match dictGet ins r.2.1 with
    | .error e => .error e
    | .ok none => .error .other          -- `MissingInfoError`: the input's metadata are not there yet
    | .ok (some s) => transferSpec r.2.2.1 s t
  else if r.1 = 1 then
    match dictGet outs r.2.1 with
    | .error e => .error e
    | .ok none => .error .other
    | .ok (some s) => transferSpec r.2.2.1 s t
  else if r.1 = 2 then
    if r.2.1 = 0 then .ok (r.2.2.2, t.2.1, t.2.2)
    else if r.2.1 = 1 then .ok (t.1, r.2.2.2, t.2.2)
    else .ok (t.1, t.2.1, dictSet t.2.2 r.2.1 r.2.2.2)
  else .ok t

theorem rules_loop (ins outs : List (Nat × Option Info3)) (full : List Rule) : ∀ (rs : List Rule) (t : Info3),
    Tr.ConnectHelper__apply_rules.loop1 ins outs full t.1 t.2.1 t.2.2 rs = rs.foldlM (ruleStep ins outs) t := by
  intro rs
  induction rs with
  | nil => intro t; simp [Tr.ConnectHelper__apply_rules.loop1, pure, Except.pure]
  | cons r rs ih =>
    intro t
    obtain ⟨tt, tg, tm⟩ := t
    simp only [Tr.ConnectHelper__apply_rules.loop1, List.foldlM_cons, ruleStep]
    by_cases h0 : r.1 = 0
    · simp only [h0, if_true]
      cases hg : dictGet ins r.2.1 with
      | error e => simp [bind, Except.bind]
      | ok o =>
        cases o with
        | none => simp [bind, Except.bind, throw, throwThe, MonadExceptOf.throw]
        | some s =>
          have ht := tr_transfer_fields r.2.2.1 s (tt, tg, tm)
          simp only [] at ht
          simp only [ok_bind, Option.isNone_some, Bool.false_eq_true, if_false, Option.getD_some, ht]
          cases htr : transferSpec r.2.2.1 s (tt, tg, tm) with
          | error e => simp [bind, Except.bind]
          | ok t' => obtain ⟨a, b, c⟩ := t'; simpa [bind, Except.bind] using ih (a, b, c)
    · by_cases h1 : r.1 = 1
      · simp only [h1, if_true]
        have h10 : ¬ ((1 : Int) = 0) := by decide
        simp only [h10, if_false]
        cases hg : dictGet outs r.2.1 with
        | error e => simp [bind, Except.bind]
        | ok o =>
          cases o with
          | none => simp [bind, Except.bind, throw, throwThe, MonadExceptOf.throw]
          | some s =>
            have ht := tr_transfer_fields r.2.2.1 s (tt, tg, tm)
            simp only [] at ht
            simp only [ok_bind, Option.isNone_some, Bool.false_eq_true, if_false, Option.getD_some, ht]
            cases htr : transferSpec r.2.2.1 s (tt, tg, tm) with
            | error e => simp [bind, Except.bind]
            | ok t' => obtain ⟨a, b, c⟩ := t'; simpa [bind, Except.bind] using ih (a, b, c)
      · by_cases h2 : r.1 = 2
        · simp only [h0, h1, h2, if_true, if_false]
          have h20 : ¬ ((2 : Int) = 0) := by decide
          have h21 : ¬ ((2 : Int) = 1) := by decide
          simp only [h20, h21, if_false]
          by_cases f0 : r.2.1 = 0
          · simp only [f0, if_true]; simpa [bind, Except.bind] using ih (r.2.2.2, tg, tm)
          · by_cases f1 : r.2.1 = 1
            · simp only [f1, if_true]
              have : ¬ ((1 : Nat) = 0) := by decide
              simp only [this, if_false]
              simpa [bind, Except.bind] using ih (tt, r.2.2.2, tm)
            · simp only [f0, f1, if_false]
              simpa [bind, Except.bind] using ih (tt, tg, dictSet tm r.2.1 r.2.2.2)
        · simp only [h0, h1, h2, if_false]
          simpa [bind, Except.bind] using ih (tt, tg, tm)

/-- **`ConnectHelper._apply_rules`** = the left fold of the rules, in the order given, over empty metadata -/
theorem tr_ConnectHelper__apply_rules (ins outs : List (Nat × Option Info3)) (rules : List Rule) :
    Tr.ConnectHelper__apply_rules ins outs rules = rules.foldlM (ruleStep ins outs) info0 := by
  unfold Tr.ConnectHelper__apply_rules
  have := rules_loop ins outs rules rules info0
  simp only [info0] at this ⊢
  simp only [this]
  cases List.foldlM (ruleStep ins outs) (none, none, [(2, some 3)]) rules <;> simp [bind, Except.bind, pure, Except.pure]

/-- **rules are applied in order, on the code**: the metadata composed by `rules ++ [r]` are what `r` makes of the metadata
    composed by `rules` -/
theorem code_rules_in_order (ins outs : List (Nat × Option Info3)) (rules : List Rule) (r : Rule) :
    Tr.ConnectHelper__apply_rules ins outs (rules ++ [r]) =
      (match Tr.ConnectHelper__apply_rules ins outs rules with
       | .error e => .error e
       | .ok t => ruleStep ins outs t r) := by
  rw [tr_ConnectHelper__apply_rules, tr_ConnectHelper__apply_rules, List.foldlM_append]
  cases rules.foldlM (ruleStep ins outs) info0 with
  | error e => simp [bind, Except.bind]
  | ok t => simp [bind, Except.bind, pure, Except.pure]; cases ruleStep ins outs t r <;> rfl

/-- **a later rule overwrites an earlier one, on the code**: when the last rule is a value rule for the time, the
    composed metadata carry that time, whatever the rules before it set -/
theorem code_last_value_rule_wins (ins outs : List (Nat × Option Info3)) (rules : List Rule) (v : Option Nat) (t : Info3)
    (h : Tr.ConnectHelper__apply_rules ins outs (rules ++ [(2, 0, [], v)]) = .ok t) : t.1 = v := by
  rw [code_rules_in_order] at h
  cases hr : Tr.ConnectHelper__apply_rules ins outs rules with
  | error e => rw [hr] at h; cases h
  | ok t0 =>
    rw [hr] at h
    simp [ruleStep] at h
    rw [← h]

example : Tr.ConnectHelper__apply_rules [(0, some (some 5, some 7, [(2, some 9)]))] [] [(0, 0, [], none), (2, 0, [], some 6)]
    = .ok (some 6, some 7, [(2, some 9)]) := by decide

/-! ### which rule sets are applied in a connect call (`_apply_in_info_rules` / `_apply_out_info_rules`) -/

theorem in_rules_loop_nocache (full : List (Nat × Int)) (infos : List (Nat × Option Unit)) (c1 c2 : List (Nat × Nat))
    (applied : Nat → Option Nat) : ∀ (rs : List (Nat × Int)) (acc : List (Nat × Nat)),
    Tr.ConnectHelper__apply_in_info_rules.loop1 full infos false c1 acc applied rs =
      Tr.ConnectHelper__apply_in_info_rules.loop1 full infos false c2 acc applied rs := by
  intro rs
  induction rs with
  | nil => intro acc; rfl
  | cons r rs ih =>
    intro acc
    obtain ⟨name, rl⟩ := r
    simp only [Tr.ConnectHelper__apply_in_info_rules.loop1]
    cases dictGet infos name with
    | error e => rfl
    | ok o =>
      simp only [ok_bind, Bool.false_eq_true, not_false_eq_true, true_or, and_true]
      by_cases h : o.isNone = true
      · simp only [h, if_true]
        cases applied name <;> simp [ih]
      · simp only [h, if_false]; exact ih acc

/-- **without caching, metadata not delivered so far are generated again in every call** (F18, on the code): with
    `cache=False` what `_apply_in_info_rules` hands back does not depend on what an earlier call left in the cache -/
theorem code_in_rules_no_cache_ignores_cache (rules : List (Nat × Int)) (infos : List (Nat × Option Unit))
    (c1 c2 : List (Nat × Nat)) (applied : Nat → Option Nat) :
    Tr.ConnectHelper__apply_in_info_rules rules infos false c1 applied =
      Tr.ConnectHelper__apply_in_info_rules rules infos false c2 applied := by
  unfold Tr.ConnectHelper__apply_in_info_rules
  rw [in_rules_loop_nocache rules infos c1 c2 applied rules []]

theorem out_rules_loop_nocache (full : List (Nat × Int)) (pushed : List (Nat × Bool)) (c1 c2 : List (Nat × Nat))
    (applied : Nat → Option Nat) : ∀ (rs : List (Nat × Int)) (acc : List (Nat × Nat)),
    Tr.ConnectHelper__apply_out_info_rules.loop1 full pushed false c1 acc applied rs =
      Tr.ConnectHelper__apply_out_info_rules.loop1 full pushed false c2 acc applied rs := by
  intro rs
  induction rs with
  | nil => intro acc; rfl
  | cons r rs ih =>
    intro acc
    obtain ⟨name, rl⟩ := r
    simp only [Tr.ConnectHelper__apply_out_info_rules.loop1]
    cases dictGet pushed name with
    | error e => rfl
    | ok o =>
      simp only [ok_bind, Bool.false_eq_true, not_false_eq_true, true_or, and_true]
      by_cases h : o = true
      · simp [h, ih]
      · simp only [h, not_false_eq_true, if_true]
        cases applied name <;> simp [ih]

/-- the same for the outputs' rule sets -/
theorem code_out_rules_no_cache_ignores_cache (rules : List (Nat × Int)) (pushed : List (Nat × Bool))
    (c1 c2 : List (Nat × Nat)) (applied : Nat → Option Nat) :
    Tr.ConnectHelper__apply_out_info_rules rules pushed false c1 applied =
      Tr.ConnectHelper__apply_out_info_rules rules pushed false c2 applied := by
  unfold Tr.ConnectHelper__apply_out_info_rules
  rw [out_rules_loop_nocache rules pushed c1 c2 applied rules []]

end Finam.Props.Rules
