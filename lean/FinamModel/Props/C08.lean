import FinamModel.Link
import FinamModel.OutputLemmas
/-!
  C08 — data crossing a link keeps its values, time, units and shape.
-/
namespace Finam.Props.C08
open Finam Finam.Link

def dist (a b : Int) : Int := if a ≤ b then b - a else a - b

/-- every entry of a sorted list is at or after its head -/
theorem sorted_head_le {α} : ∀ (l : List (Entry α)) (x : Entry α), Sorted (x :: l) → ∀ y ∈ x :: l, x.t ≤ y.t := by
  intro l
  induction l with
  | nil => intro x _ y hy; simp at hy; subst hy; omega
  | cons z l ihl =>
    intro x hx y hy
    cases hy with
    | head => omega
    | tail _ hy' => have := ihl z hx.2 y hy'; have := hx.1; omega

theorem lookupAux_nearest {α} : ∀ (es : List (Entry α)) (prev : Entry α) (t : Int) (v : α),
    Sorted (prev :: es) → prev.t < t → lookupAux prev es t = .ok v →
    ∃ e ∈ prev :: es, e.v = v ∧ ∀ e' ∈ prev :: es, dist t e.t ≤ dist t e'.t := by
  intro es
  induction es with
  | nil => intro prev t v _ _ h; simp [lookupAux] at h
  | cons e es ih =>
    intro prev t v hs hp h
    simp only [lookupAux] at h
    split at h
    · -- t > e.t : continue
      rename_i hgt
      obtain ⟨e1, hmem, hv, hmin⟩ := ih e t v hs.2 hgt h
      refine ⟨e1, List.mem_cons_of_mem _ hmem, hv, ?_⟩
      intro e' he'
      cases he' with
      | head =>
        have h1 := hmin e (by simp)
        have := hs.1
        simp only [dist] at *
        split at h1 <;> split at h1 <;> split <;> split <;> omega
      | tail _ h' => exact hmin e' h'
    · split at h
      · -- exact hit
        rename_i _ heq
        cases h
        refine ⟨e, by simp, rfl, ?_⟩
        intro e' _
        simp only [dist, heq]
        split <;> split <;> omega
      · rename_i hng hne
        have hlt : t < e.t := by omega
        have hafter := sorted_head_le es e hs.2
        split at h
        · -- earlier neighbour is strictly nearer
          rename_i hnear
          cases h
          refine ⟨prev, by simp, rfl, ?_⟩
          intro e' he'
          cases he' with
          | head => simp only [dist]; split <;> omega
          | tail _ h' =>
            have := hafter e' h'
            simp only [dist]; split <;> split <;> omega
        · rename_i hnear
          cases h
          refine ⟨e, by simp, rfl, ?_⟩
          intro e' he'
          cases he' with
          | head => simp only [dist]; split <;> split <;> omega
          | tail _ h' =>
            have := hafter e' h'
            simp only [dist]; split <;> split <;> omega

/-- **C08, nearest publication.** Whatever an output serves for `t` is the payload of a publication
    whose time is nearest to `t` among everything retained (either neighbour at an exact tie). -/
theorem lookup_nearest {α} (d : List (Entry α)) (t : Int) (v : α) (hs : Sorted d)
    (h : lookup d t = .ok v) :
    ∃ e ∈ d, e.v = v ∧ ∀ e' ∈ d, dist t e.t ≤ dist t e'.t := by
  cases d with
  | nil => simp [lookup] at h
  | cons e0 es =>
    simp only [lookup] at h
    split at h
    · cases h
    · rename_i hr
      split at h
      · rename_i heq
        cases h
        refine ⟨e0, by simp, rfl, ?_⟩
        intro e' _
        simp only [dist, heq]; split <;> split <;> omega
      · rename_i hne
        exact lookupAux_nearest es e0 t v hs (by omega) h

theorem lookupAux_ok_of_le {α} : ∀ (es : List (Entry α)) (prev : Entry α) (t : Int),
    t ≤ lastT prev es → prev.t < t → ∃ v, lookupAux prev es t = .ok v := by
  intro es
  induction es with
  | nil => intro prev t h1 h2; simp [lastT] at h1; omega
  | cons e es ih =>
    intro prev t h1 h2
    simp only [lookupAux]
    split
    · rename_i hgt; exact ih e t (by simpa [lastT] using h1) hgt
    · split
      · exact ⟨_, rfl⟩
      · split <;> exact ⟨_, rfl⟩

/-- **C08, served range.** Exactly the requests between the oldest retained and the newest
    publication are served; everything outside is refused with a time error (nothing stored: no-data). -/
theorem lookup_range {α} (e0 : Entry α) (es : List (Entry α)) (t : Int) :
    (e0.t ≤ t ∧ t ≤ lastT e0 es → ∃ v, lookup (e0 :: es) t = .ok v) ∧
    (t < e0.t ∨ lastT e0 es < t → lookup (e0 :: es) t = .error .timeErr) := by
  constructor
  · intro ⟨h1, h2⟩
    simp only [lookup]
    split
    · rename_i h; omega
    · split
      · exact ⟨_, rfl⟩
      · rename_i hne; exact lookupAux_ok_of_le es e0 t h2 (by omega)
  · intro h
    simp only [lookup]
    split
    · rfl
    · rename_i hn; omega

theorem lookup_empty {α} (t : Int) : lookup ([] : List (Entry α)) t = .error .noData := rfl

/-- a publication time itself is served with that publication's payload -/
theorem lookup_exact {α} (d : List (Entry α)) (e : Entry α) (hs : Sorted d) (he : e ∈ d) :
    lookup d e.t = .ok e.v := by
  cases d with
  | nil => cases he
  | cons e0 es =>
    obtain ⟨v, hv⟩ : ∃ v, lookup (e0 :: es) e.t = .ok v := by
      apply (lookup_range e0 es e.t).1
      refine ⟨sorted_head_le es e0 hs e he, ?_⟩
      -- e.t ≤ last
      have : ∀ (l : List (Entry α)) (x : Entry α), Sorted (x :: l) → ∀ y ∈ x :: l, y.t ≤ lastT x l := by
        intro l
        induction l with
        | nil => intro x _ y hy; simp at hy; subst hy; simp [lastT]
        | cons z l ihl =>
          intro x hx y hy
          simp only [lastT]
          cases hy with
          | head => have := ihl z hx.2 z (by simp); have := hx.1; omega
          | tail _ hy' => exact ihl z hx.2 y hy'
      exact this es e0 hs e he
    obtain ⟨e1, hmem, hv1, hmin⟩ := lookup_nearest _ _ _ hs hv
    have h0 := hmin e he
    have hd : dist e.t e.t = 0 := by simp [dist]
    have hz : e1.t = e.t := by
      rw [hd] at h0
      simp only [dist] at h0
      split at h0 <;> omega
    -- two entries of a sorted list with equal times are the same entry
    have huniq : ∀ (l : List (Entry α)), Sorted l → ∀ a ∈ l, ∀ b ∈ l, a.t = b.t → a = b := by
      intro l
      induction l with
      | nil => intro _ a ha; cases ha
      | cons x l ihl =>
        intro hsx a ha b hb hab
        cases ha with
        | head =>
          cases hb with
          | head => rfl
          | tail _ hb' =>
            cases l with
            | nil => cases hb'
            | cons y l' =>
              have := sorted_head_le l' y hsx.2 b hb'
              have := hsx.1
              omega
        | tail _ ha' =>
          cases hb with
          | head =>
            cases l with
            | nil => cases ha'
            | cons y l' =>
              have := sorted_head_le l' y hsx.2 a ha'
              have := hsx.1
              omega
          | tail _ hb' => exact ihl (sorted_tail hsx) a ha' b hb' hab
    have := huniq _ hs e1 hmem e he hz
    rw [hv, ← hv1, this]

example : lookup [⟨0, 10⟩, ⟨5, 20⟩, ⟨9, 30⟩] 2 = .ok (10 : Nat) ∧
          lookup [⟨0, 10⟩, ⟨5, 20⟩, ⟨9, 30⟩] 3 = .ok (20 : Nat) ∧
          lookup [⟨0, 10⟩, ⟨5, 20⟩, ⟨9, 30⟩] 7 = .ok (30 : Nat) ∧
          lookup [⟨0, 10⟩, ⟨5, 20⟩, ⟨9, 30⟩] 10 = (.error .timeErr : Except Err Nat) := by decide

/-! ### shape normalisation on publication -/

/-- **C08, shape.** Whatever `prepare` accepts for a grid comes out with a leading time axis of
    length one (for single time slices) followed by the grid's data shape; plain arrays of the
    grid's shape get the axis added, arrays that already carry it pass unchanged. -/
theorem prepare_shape (gshape : List Nat) (orderF : Bool) (a r : Arr)
    (hg : gshape ≠ [])    -- FINAM grids have at least one axis
    (hte : timeEntries gshape a.shape = 1)
    (h : checkInputShape (.grid gshape orderF) a = .ok r) :
    r.shape = 1 :: gshape := by
  simp only [checkInputShape, hte] at h
  simp only [Nat.mul_one, Nat.succ_ne_zero, false_or, ne_eq, ite_not, Nat.le_refl, if_true] at h
  split at h
  · split at h
    · cases h
      simp only [reshapeFlat]
      split <;> rfl
    · rename_i h1
      split at h
      · rename_i h2
        cases h
        simp only [timeEntries] at hte
        cases hr : a.shape with
        | nil => rw [hr] at h2; simp at h2; exact absurd h2 hg
        | cons x xs =>
          rw [hr] at h2 hte
          simp at h2
          subst h2
          simp at hte
          simp [hte]
      · split at h
        · rename_i h3
          cases h; simp [h3]
        · cases h
  · cases h

/-- elements of a flat payload land in grid order: position `i` of the result holds the flat
    payload's element number `ravel_order i` -/
theorem prepare_flat_elements (gshape : List Nat) (orderF : Bool) (flat : List Rat) (p : Nat)
    (hp : p < prod (1 :: gshape)) :
    (reshapeFlat flat gshape orderF).data.getD p 0 =
      flat.getD (if orderF then ravelF (1 :: gshape) (unravelC (1 :: gshape) p) else p) 0 := by
  simp only [reshapeFlat]
  split
  · rename_i h
    simp only [h, if_true]
    rw [List.getD_eq_getElem?_getD, List.getElem?_map, List.getElem?_range hp]
    simp
  · rename_i h
    simp [h]

/-- payloads whose size does not match the grid are refused with a data error -/
theorem prepare_wrong_size (gshape : List Nat) (orderF : Bool) (a : Arr)
    (h : prod a.shape ≠ prod gshape * timeEntries gshape a.shape) :
    checkInputShape (.grid gshape orderF) a = .error .dataErr := by
  simp only [checkInputShape]
  simp [h]

/-! ### units -/

/-- conversion is the affine map of dimensional analysis; it composes and round-trips -/
theorem convert_compose (a b c : LUnit) (v : Rat) (hb : b.factor ≠ 0) :
    convertVal b c (convertVal a b v) = convertVal a c v := by
  simp only [convertVal]
  have : (v * a.factor + a.offset - b.offset) / b.factor * b.factor = v * a.factor + a.offset - b.offset :=
    Rat.div_mul_cancel hb
  rw [this]
  congr 1
  grind

theorem convert_self (a : LUnit) (v : Rat) (ha : a.factor ≠ 0) : convertVal a a v = v := by
  simp only [convertVal]
  have : v * a.factor + a.offset - a.offset = v * a.factor := by grind
  rw [this]
  exact Rat.mul_div_cancel ha

/-- **C08, value.** A pull for `t` returns the nearest publication converted from the producer's to
    the consumer's units element by element (relabelled without touching the numbers when the units
    are equivalent), with the shape it was stored with; an incompatible pair never yields data. -/
theorem pull_value (g : GridKind) (su iu : LUnit) (o : LinkOut) (t : Int) (r : Arr)
    (hs : Sorted o.hist) (h : pull g su iu o t = .ok r) :
    su.compatible iu = true ∧
    ∃ e ∈ o.hist, (∀ e' ∈ o.hist, dist t e.t ≤ dist t e'.t) ∧ r.shape = e.v.shape ∧
      r.data = if su.equivalent iu then e.v.data else e.v.data.map (convertVal su iu) := by
  simp only [pull, bind, Except.bind] at h
  split at h
  · cases h
  · rename_i x hx
    obtain ⟨e, hmem, hv, hmin⟩ := lookup_nearest _ _ _ hs hx
    simp only [convertAndCheck] at h
    by_cases hc : su.compatible iu = true
    · simp only [hc, Bool.not_true, Bool.false_eq_true, if_false] at h
      by_cases hk : checkShape g x.shape = true
      · simp only [hk, Bool.not_true, Bool.false_eq_true, if_false] at h
        cases h
        subst hv
        exact ⟨hc, e, hmem, hmin, rfl, rfl⟩
      · simp [hk] at h
    · simp [hc] at h

/-- what a pull returns has the consumer grid's data shape behind a time axis -/
theorem pull_shape (gshape : List Nat) (oF : Bool) (su iu : LUnit) (o : LinkOut) (t : Int) (r : Arr)
    (h : pull (.grid gshape oF) su iu o t = .ok r) :
    r.shape.tail = gshape ∧ r.shape.length = gshape.length + 1 := by
  simp only [pull, bind, Except.bind] at h
  split at h
  · cases h
  · rename_i x hx
    simp only [convertAndCheck] at h
    by_cases hc : su.compatible iu = true
    · simp only [hc, Bool.not_true, Bool.false_eq_true, if_false] at h
      by_cases hk : checkShape (.grid gshape oF) x.shape = true
      · simp only [hk, Bool.not_true, Bool.false_eq_true, if_false] at h
        cases h
        simp only [checkShape, Bool.and_eq_true, beq_iff_eq] at hk
        exact ⟨hk.2, hk.1⟩
      · simp [hk] at h
    · simp [hc] at h

/-- incompatible units never yield data -/
theorem pull_incompatible (g : GridKind) (su iu : LUnit) (o : LinkOut) (t : Int)
    (hc : su.compatible iu = false) : ∃ e, pull g su iu o t = .error e := by
  simp only [pull, bind, Except.bind]
  split
  · exact ⟨_, rfl⟩
  · simp [convertAndCheck, hc]

/-- **C08, shared memory.** Publishing a buffer that is the buffer of the previous (in-RAM)
    publication is refused with a data error and leaves the history unchanged — for a plain payload and for a
    quantity in any spelling of the output's units (no conversion, hence no new array). -/
theorem shared_memory_refused (g : GridKind) (u : LUnit) (o : LinkOut) (t : Int) (pu : Option LUnit)
    (buf : Nat) (a : Arr) (h : o.lastBuf = some buf) (hc : converts u pu = false) :
    (∃ e, push g u o t pu buf a = .error e) := by
  simp only [push, bind, Except.bind]
  split
  · exact ⟨_, rfl⟩
  · simp [h, hc]

theorem shared_memory_refused_plain (g : GridKind) (u : LUnit) (o : LinkOut) (t : Int)
    (buf : Nat) (a : Arr) (h : o.lastBuf = some buf) : ∃ e, push g u o t none buf a = .error e :=
  shared_memory_refused g u o t none buf a h rfl

theorem shared_memory_refused_equivalent (g : GridKind) (u p : LUnit) (o : LinkOut) (t : Int)
    (buf : Nat) (a : Arr) (h : o.lastBuf = some buf) (he : p.equivalent u = true) :
    ∃ e, push g u o t (some p) buf a = .error e :=
  shared_memory_refused g u o t (some p) buf a h (by simp [converts, he])

theorem fresh_buffer_accepted (g : GridKind) (u : LUnit) (o : LinkOut) (t : Int) (pu : Option LUnit)
    (buf : Nat) (a x : Arr) (h : o.lastBuf ≠ some buf) (hc : converts u pu = false) (hp : prepare g u pu a = .ok x) :
    push g u o t pu buf a = .ok ⟨o.hist ++ [⟨t, x⟩], some buf⟩ := by
  simp only [push, bind, Except.bind, hp]
  simp [h, hc]

/-- a converted payload is stored as a new array: accepted whatever buffer it came from, and the next publication
    cannot alias it -/
theorem converted_accepted (g : GridKind) (u : LUnit) (o : LinkOut) (t : Int) (pu : Option LUnit)
    (buf : Nat) (a x : Arr) (hc : converts u pu = true) (hp : prepare g u pu a = .ok x) :
    push g u o t pu buf a = .ok ⟨o.hist ++ [⟨t, x⟩], none⟩ := by
  simp only [push, bind, Except.bind, hp]
  simp [hc]

example :
    let m : LUnit := ⟨[1], 1, 0⟩
    let km : LUnit := ⟨[1], 1000, 0⟩
    let o : LinkOut := ⟨[⟨0, ⟨[1, 2], [1, 2]⟩⟩, ⟨10, ⟨[1, 2], [3, 4]⟩⟩], some 1⟩
    pull (.grid [2] false) km m o 4 = .ok ⟨[1, 2], [1000, 2000]⟩ ∧
    pull (.grid [2] false) km m o 5 = .ok ⟨[1, 2], [3000, 4000]⟩ := by decide +kernel

end Finam.Props.C08
