import FinamModel.CellLemmas
/-!
  C14 — grid index-to-coordinate mapping is consistent for every layout.

  Model: `FinamModel/Grid.lean` (`SGrid`: `points`, `cells`, `cellCenters`, `dataAxes`, `dataShape`,
  `dataPoints`, `toUnstructured`; `gstep`: the `data_shape`/`data_size` memo of `RectilinearGrid`
  under reads, location changes, copies and casts).
-/
namespace Finam.Props.C14
open Finam

/-! ### Index-to-coordinate consistency -/

/-- **C14, first sentence.** For every structured grid (any number of axes of any positive lengths —
    length-1 axes included —, either order, reversed or natural axes order, any combination of
    increasing/decreasing axes, cell or point data) and every multi-index `i` inside the grid's
    data shape: the entry of the flattened data-point list at the position obtained by flattening
    `i` in the grid's order is the coordinate read off the per-axis data axes at `i`. -/
theorem point_at_index (g : SGrid) (hne : ∀ ax ∈ g.axes, ax ≠ []) (i : List Nat)
    (hi : InB g.dataShape i) :
    g.dataPoints[ravel g.order g.dataShape i]? = some (g.coordAt i) := by
  rw [SGrid.dataPoints_eq]
  rw [SGrid.dataShape_eq g hne] at hi ⊢
  unfold SGrid.coordAt
  rw [SGrid.dataAxes_eq]
  cases hr : g.rev with
  | false =>
    simp only [hr, Bool.false_eq_true, if_false] at hi ⊢
    simpa [pointOrder] using SGrid.genPoints_at (g.locAxes) g.order g.inc i hi
  | true =>
    simp only [hr, if_true] at hi ⊢
    have hi' : InB ((g.locAxes).map List.length) i.reverse := by
      have := InB_reverse hi; simpa using this
    have hlen : i.length = (SGrid.dirAxes (g.locAxes) g.inc).length := by
      rw [hi.length_eq, SGrid.dirAxes_length]; simp
    have h1 := SGrid.genPoints_at (g.locAxes) g.order.swap g.inc i.reverse hi'
    have h2 : ravel g.order ((g.locAxes).map List.length).reverse i =
        ravel g.order.swap ((g.locAxes).map List.length) i.reverse := by
      have := ravel_reverse g.order ((g.locAxes).map List.length) i.reverse
      simp only [List.reverse_reverse] at this
      rw [this]; cases g.order <;> rfl
    rw [h2]
    simp only [pointOrder, if_true]
    rw [h1, SGrid.pick_reverse _ _ hlen]

/-- non-vacuity: an ESRI-like layout (axes reversed, y decreasing, C order), cell data -/
def exEsri : SGrid := ⟨[[0, 1, 2, 3], [0, 2, 4]], [true, false], true, .C, .cells, none⟩
example : InB exEsri.dataShape [1, 2] ∧ exEsri.coordAt [1, 2] = [5/2, 1] ∧
    exEsri.dataPoints[ravel exEsri.order exEsri.dataShape [1, 2]]? = some [5/2, 1] := by decide +kernel

/-! ### Cells, cell centres, unstructured cast -/

theorem dims_pos (g : SGrid) (hne : ∀ ax ∈ g.axes, ax ≠ []) : ∀ d ∈ g.dims, 1 ≤ d := by
  intro d hd
  simp only [SGrid.dims, List.mem_map] at hd
  obtain ⟨ax, hax, rfl⟩ := hd
  exact List.length_pos_iff.mpr (hne ax hax)

theorem meshDim_eq (g : SGrid) : g.meshDim = (squeeze g.dims).length := rfl

theorem cellCount_eq (g : SGrid) (hne : ∀ ax ∈ g.axes, ax ≠ []) :
    g.cellCount = prod ((squeeze g.dims).map (· - 1)) := by
  unfold SGrid.cellCount
  rw [← expandSh_cdim g.dims (dims_pos g hne), prod_expandSh _ _ (by simp)]

/-- every row of the cell table, located by the multi-index of its cell -/
theorem cells_row (g : SGrid) (hne : ∀ ax ∈ g.axes, ax ≠ []) (hm : g.meshDim ≤ 3) (j : Nat)
    (hj : j < g.cellCount) :
    let po := pointOrder g.order g.rev
    let ci := unravel po ((squeeze g.dims).map (· - 1)) j
    InB ((squeeze g.dims).map (· - 1)) ci ∧
    g.cells[j]? = some ((corners g.meshDim).map fun δ => ravel po g.dims (expand g.dims (addIdx ci δ))) := by
  intro po ci
  rw [cellCount_eq g hne] at hj
  have hci : InB ((squeeze g.dims).map (· - 1)) ci := unravel_inB po _ j hj
  refine ⟨hci, ?_⟩
  have := genCells_spec g.dims po (dims_pos g hne) hm ci hci
  rw [ravel_unravel po _ j hj] at this
  exact this

/-- **C14: every cell references existing points.** The cell table has one row per cell, every
    row has `2 ^ mesh_dim` nodes, and every node id is below the number of points — for every
    combination of axis lengths (degenerate axes included), order and axes_reversed. -/
theorem cells_reference_points (g : SGrid) (hne : ∀ ax ∈ g.axes, ax ≠ []) (hm : g.meshDim ≤ 3) :
    g.cells.length = g.cellCount ∧
    ∀ row ∈ g.cells, row.length = 2 ^ g.meshDim ∧ ∀ p ∈ row, p < g.pointCount := by
  have hlen : g.cells.length = g.cellCount := by
    rw [cellCount_eq g hne]; exact genCells_length g.dims _ hm
  refine ⟨hlen, ?_⟩
  intro row hrow
  obtain ⟨j, hj, hjrow⟩ := List.mem_iff_getElem.mp hrow
  rw [hlen] at hj
  obtain ⟨hci, hspec⟩ := cells_row g hne hm j hj
  have hget := List.getElem?_eq_getElem (l := g.cells) (by rw [hlen]; exact hj)
  rw [hspec, hjrow] at hget
  have hrow_eq := (Option.some.inj hget).symm
  rw [hrow_eq]
  refine ⟨by simp [corners_length _ hm], ?_⟩
  intro p hp
  simp only [List.mem_map] at hp
  obtain ⟨δ, hδ, rfl⟩ := hp
  have hin := InB_expand_dims g.dims _ (dims_pos g hne) (corner_inB g.dims _ δ hm hci hδ)
  exact ravel_lt _ _ _ hin

/-- **C14: cell centres equal the mean of the cell's nodes.** For every cell `j` the `j`-th entry
    of `cell_centers` (generated from the cell-centre axes) is the componentwise mean of the points
    the `j`-th row of `cells` refers to — for every layout, on increasing and decreasing axes,
    including the C-order remapping of point ids and rows in three dimensions. -/
theorem centre_is_mean_of_nodes (g : SGrid) (hne : ∀ ax ∈ g.axes, ax ≠ []) (hm : g.meshDim ≤ 3)
    (j : Nat) (hj : j < g.cellCount) :
    g.cellCenters[j]? = some (meanPts g.dim ((g.cells.getD j []).map fun p => g.points.getD p [])) := by
  obtain ⟨hci, hspec⟩ := cells_row g hne hm j hj
  have hd := dims_pos g hne
  rw [cellCount_eq g hne] at hj
  rw [List.getD_eq_getElem?_getD, hspec]
  simp only [Option.getD_some, List.map_map]
  -- the points the row refers to
  have hpts : ∀ δ ∈ corners g.meshDim,
      g.points.getD (ravel (pointOrder g.order g.rev) g.dims
        (expand g.dims (addIdx (unravel (pointOrder g.order g.rev) ((squeeze g.dims).map (· - 1)) j) δ))) [] =
      SGrid.pick (SGrid.dirAxes g.axes g.inc)
        (expand g.dims (addIdx (unravel (pointOrder g.order g.rev) ((squeeze g.dims).map (· - 1)) j) δ)) := by
    intro δ hδ
    have hin := InB_expand_dims g.dims _ hd (corner_inB g.dims _ δ hm hci hδ)
    have := SGrid.genPoints_at g.axes (pointOrder g.order g.rev) g.inc _ hin
    rw [List.getD_eq_getElem?_getD]
    unfold SGrid.points
    simp only [SGrid.dims] at this ⊢
    rw [this]; rfl
  rw [List.map_congr_left (fun δ hδ => by simpa [Function.comp_def] using hpts δ hδ)]
  have hmean := SGrid.mean_of_corners g.axes g.inc hne hm _ hci
  simp only [SGrid.dim, meshDim_eq, SGrid.dims] at hmean ⊢
  rw [hmean]
  -- the centre generated from the cell axes
  have hcl : ((squeeze g.dims).map (· - 1)).length = (squeeze g.dims).length := by simp
  have hsh : g.cellAxes.map List.length = expandSh g.dims ((squeeze g.dims).map (· - 1)) := by
    rw [expandSh_cdim g.dims hd, SGrid.cellAxes_map_length g hne]
  have hin : InB (g.cellAxes.map List.length) (expand g.dims
      (unravel (pointOrder g.order g.rev) ((squeeze g.dims).map (· - 1)) j)) := by
    rw [hsh]; exact InB_expand _ _ _ hcl hci
  have hat := SGrid.genPoints_at g.cellAxes (pointOrder g.order g.rev) g.inc _ hin
  rw [hsh, ravel_expand _ _ _ _ hcl hci.length_eq, ravel_unravel _ _ j hj] at hat
  unfold SGrid.cellCenters
  simp only [SGrid.dims, SGrid.cellAxes] at hat ⊢
  exact hat

theorem nodeCount_eq (m : Nat) (hm : m ≤ 3) : nodeCountOfMeshDim m = 2 ^ m := by
  match m, hm with
  | 0, _ => rfl
  | 1, _ => rfl
  | 2, _ => rfl
  | 3, _ => rfl

theorem cellCenters_length (g : SGrid) (hne : ∀ ax ∈ g.axes, ax ≠ []) : g.cellCenters.length = g.cellCount := by
  unfold SGrid.cellCenters SGrid.cellCount
  rw [SGrid.genPoints_length, SGrid.cellAxes_map_length g hne]

/-- the node-centre computation of the unstructured cast reproduces the structured cell centres -/
theorem cast_cellCenters (g : SGrid) (hne : ∀ ax ∈ g.axes, ax ≠ []) (hm : g.meshDim ≤ 3) :
    g.toUnstructured.cellCenters = g.cellCenters := by
  obtain ⟨hlen, hrows⟩ := cells_reference_points g hne hm
  apply List.ext_getElem?
  intro j
  by_cases hj : j < g.cellCount
  · rw [centre_is_mean_of_nodes g hne hm j hj]
    simp only [UGrid.cellCenters, SGrid.toUnstructured, List.getElem?_map]
    have hjl : j < g.cells.length := by rw [hlen]; exact hj
    rw [List.getElem?_eq_getElem hjl]
    simp only [Option.map_some, List.getD_eq_getElem?_getD, List.getElem?_eq_getElem hjl, Option.getD_some]
    have hrl := (hrows _ (List.getElem_mem hjl)).1
    rw [nodeCount_eq _ hm, List.take_of_length_le (by omega)]
  · have h1 : g.toUnstructured.cellCenters.length = g.cellCount := by
      simp [UGrid.cellCenters, SGrid.toUnstructured, hlen]
    rw [List.getElem?_eq_none (by omega), List.getElem?_eq_none (by rw [cellCenters_length g hne]; omega)]

/-- **C14: casting to an unstructured grid preserves all of this.** The cast keeps points, cells,
    location and order; its data points are the structured grid's data points (the centres being
    recomputed as means of the cells' nodes); its data shape is the flat size; and so the element at
    multi-index `i` of structured data, flattened in the grid's order, sits at the unstructured data
    point with the coordinate given by the data axes. -/
theorem unstructured_cast_preserves (g : SGrid) (hne : ∀ ax ∈ g.axes, ax ≠ []) (hm : g.meshDim ≤ 3) :
    g.toUnstructured.points = g.points ∧ g.toUnstructured.cells = g.cells ∧
    g.toUnstructured.loc = g.loc ∧ g.toUnstructured.order = g.order ∧
    g.toUnstructured.dataPoints = g.dataPoints ∧
    g.toUnstructured.dataShape = [g.dataSize] ∧ g.toUnstructured.dataSize = g.dataSize ∧
    (∀ row ∈ g.toUnstructured.cells, ∀ p ∈ row, p < g.toUnstructured.points.length) ∧
    ∀ i, InB g.dataShape i →
      g.toUnstructured.dataPoints[ravel g.order g.dataShape i]? = some (g.coordAt i) := by
  have hcc := cast_cellCenters g hne hm
  obtain ⟨hlen, hrows⟩ := cells_reference_points g hne hm
  have hdp : g.toUnstructured.dataPoints = g.dataPoints := by
    unfold UGrid.dataPoints SGrid.dataPoints
    rw [hcc]; rfl
  have hpl : g.points.length = g.pointCount := by
    unfold SGrid.points SGrid.pointCount SGrid.dims; exact SGrid.genPoints_length _ _ _
  have hsize : g.dataSize = if g.loc = .points then g.points.length else g.cells.length := by
    rw [hpl, hlen]
    unfold SGrid.dataSize SGrid.dataShape SGrid.shapeFor SGrid.pointCount SGrid.cellCount
    cases g.rev <;> cases g.loc <;> simp [prod_reverse, List.map_reverse]
  refine ⟨rfl, rfl, rfl, rfl, hdp, ?_, ?_, ?_, ?_⟩
  · rw [hsize]; simp only [UGrid.dataShape, SGrid.toUnstructured]
    by_cases h : g.loc = .points <;> simp [h]
  · rw [hsize]; simp only [UGrid.dataSize, SGrid.toUnstructured]; rfl
  · intro row hrow p hp
    have := (hrows row hrow).2 p hp
    simp only [SGrid.toUnstructured]
    rw [hpl]; exact this
  · intro i hi
    rw [hdp]; exact point_at_index g hne i hi

/-- non-vacuity: a 3-D grid in C order with a decreasing axis — cell 1's row, its centre and the mean
    of its nodes -/
def exHex : SGrid := ⟨[[0, 1, 2], [0, 2, 4, 6], [0, 3]], [true, false, true], false, .C, .cells, none⟩
example : exHex.meshDim = 3 ∧ exHex.cellCount = 6 ∧
    exHex.cells.getD 1 [] = [5, 13, 11, 3, 4, 12, 10, 2] ∧
    exHex.cellCenters[1]? = some [1/2, 3, 3/2] ∧
    meanPts 3 ((exHex.cells.getD 1 []).map fun p => exHex.points.getD p []) = [1/2, 3, 3/2] := by
  decide +kernel

/-! ### Shape, size and points always reflect the current data location -/

/-- specification of the operation history: objects are just their current location, nothing is
    remembered -/
def specStep (g : SGrid) (valid : List Loc) (locs : List Loc) : GOp → List Loc × GObs
  | .readShape k =>
    match locs[k]? with
    | none => (locs, .bad)
    | some l => (locs, .shape (g.shapeFor l))
  | .readSize k =>
    match locs[k]? with
    | none => (locs, .bad)
    | some l => (locs, .size (prod (g.shapeFor l)))
  | .readPoints k =>
    match locs[k]? with
    | none => (locs, .bad)
    | some l => (locs, .npoints ({ g with loc := l }.dataPoints.length))
  | .setLoc k l =>
    match locs[k]? with
    | none => (locs, .bad)
    | some _ => if l ∈ valid then (locs.set k l, .done) else (locs, .rejected)
  | .copy k =>
    match locs[k]? with
    | none => (locs, .bad)
    | some l => (locs ++ [l], .done)
  | .cast k =>
    match locs[k]? with
    | none => (locs, .bad)
    | some l => (locs ++ [l], .done)

def specRun (g : SGrid) (valid : List Loc) : List Loc → List GOp → List GObs
  | _, [] => []
  | locs, op :: ops => (specStep g valid locs op).2 :: specRun g valid (specStep g valid locs op).1 ops

/-- a memo field is either empty or holds the value for the object's current location -/
def MemoOk (g : SGrid) (ob : GObj) : Prop :=
  (ob.memoShape = none ∨ ob.memoShape = some (g.shapeFor ob.loc)) ∧
  (ob.memoSize = none ∨ ob.memoSize = some (prod (g.shapeFor ob.loc)))

def PoolOk (g : SGrid) (pool : List GObj) : Prop := ∀ ob ∈ pool, MemoOk g ob

theorem poolOk_set {g : SGrid} {pool : List GObj} (h : PoolOk g pool) (k : Nat) (ob : GObj)
    (hob : MemoOk g ob) : PoolOk g (pool.set k ob) := by
  intro x hx
  rcases List.mem_or_eq_of_mem_set hx with h1 | h1
  · exact h x h1
  · subst h1; exact hob

theorem poolOk_append {g : SGrid} {pool : List GObj} (h : PoolOk g pool) (ob : GObj)
    (hob : MemoOk g ob) : PoolOk g (pool ++ [ob]) := by
  intro x hx
  simp only [List.mem_append, List.mem_singleton] at hx
  rcases hx with h1 | h1
  · exact h x h1
  · subst h1; exact hob

theorem map_loc_set (pool : List GObj) (k : Nat) (ob : GObj) :
    (pool.set k ob).map (·.loc) = (pool.map (·.loc)).set k ob.loc := by
  simp [List.map_set]

theorem set_self_loc (pool : List GObj) (k : Nat) (ob : GObj) (h : pool[k]? = some ob) :
    (pool.map (·.loc)).set k ob.loc = pool.map (·.loc) := by
  apply List.ext_getElem?
  intro i
  by_cases hik : k = i
  · subst hik
    obtain ⟨hl, he⟩ := List.getElem?_eq_some_iff.mp h
    simp [hl, he]
  · simp [hik]

/-- one step: the memoising implementation answers like the memo-free specification and keeps
    the invariant -/
theorem step_refines (g : SGrid) (valid : List Loc) (pool : List GObj) (hp : PoolOk g pool) (op : GOp) :
    (gstep g valid pool op).2 = (specStep g valid (pool.map (·.loc)) op).2 ∧
    (gstep g valid pool op).1.map (·.loc) = (specStep g valid (pool.map (·.loc)) op).1 ∧
    PoolOk g (gstep g valid pool op).1 := by
  cases op with
  | readShape k =>
    simp only [gstep, specStep, List.getElem?_map]
    cases hk : pool[k]? with
    | none => simp [hp]
    | some ob =>
      have hob := hp ob (List.mem_of_getElem? hk)
      cases hm : ob.memoShape with
      | some s =>
        rcases hob.1 with h1 | h1
        · rw [hm] at h1; cases h1
        · rw [hm] at h1; cases h1; simp [hp, hm]
      | none =>
        simp only [hm, Option.map_some]
        refine ⟨trivial, ?_, ?_⟩
        · rw [map_loc_set]; exact set_self_loc pool k ob hk
        · exact poolOk_set hp k _ ⟨Or.inr rfl, hob.2⟩
  | readSize k =>
    simp only [gstep, specStep, List.getElem?_map]
    cases hk : pool[k]? with
    | none => simp [hp]
    | some ob =>
      have hob := hp ob (List.mem_of_getElem? hk)
      cases hm : ob.memoSize with
      | some n =>
        rcases hob.2 with h1 | h1
        · rw [hm] at h1; cases h1
        · rw [hm] at h1; cases h1; simp [hp, hm]
      | none =>
        rcases hob.1 with h1 | h1
        all_goals
          simp only [hm, h1, Option.map_some]
          refine ⟨trivial, ?_, ?_⟩
          · rw [map_loc_set]; exact set_self_loc pool k ob hk
          · exact poolOk_set hp k _ ⟨Or.inr rfl, Or.inr rfl⟩
  | readPoints k =>
    simp only [gstep, specStep, List.getElem?_map]
    cases hk : pool[k]? with
    | none => simp [hp]
    | some ob => simp [hp]
  | setLoc k l =>
    simp only [gstep, specStep, List.getElem?_map]
    cases hk : pool[k]? with
    | none => simp [hp]
    | some ob =>
      by_cases hv : l ∈ valid
      · simp only [Option.map_some, hv, if_true]
        refine ⟨trivial, ?_, ?_⟩
        · rw [map_loc_set]
        · exact poolOk_set hp k _ ⟨Or.inl rfl, Or.inl rfl⟩
      · simp [hv, hp]
  | copy k =>
    simp only [gstep, specStep, List.getElem?_map]
    cases hk : pool[k]? with
    | none => simp [hp]
    | some ob =>
      have hob := hp ob (List.mem_of_getElem? hk)
      simp only [Option.map_some, List.map_append, List.map_cons, List.map_nil, true_and]
      exact poolOk_append hp ob hob
  | cast k =>
    simp only [gstep, specStep, List.getElem?_map]
    cases hk : pool[k]? with
    | none => simp [hp]
    | some ob =>
      simp only [Option.map_some, List.map_append, List.map_cons, List.map_nil, true_and]
      exact poolOk_append hp _ ⟨Or.inl rfl, Or.inl rfl⟩

theorem run_refines (g : SGrid) (valid : List Loc) : ∀ (ops : List GOp) (pool : List GObj),
    PoolOk g pool → grun g valid pool ops = specRun g valid (pool.map (·.loc)) ops := by
  intro ops
  induction ops with
  | nil => intro _ _; rfl
  | cons op ops ih =>
    intro pool hp
    obtain ⟨h1, h2, h3⟩ := step_refines g valid pool hp op
    simp only [grun, specRun]
    rw [h1, ih _ h3, h2]

/-- **C14, last sentence.** Whatever sequence of property reads, copies, casts and data-location
    changes is applied to a freshly constructed grid (and to the objects derived from it), every
    read of `data_shape`, `data_size` and `data_points` returns the value that belongs to the
    object's *current* data location: the memoising implementation is observationally equal to a
    specification that remembers nothing. -/
theorem shape_reflects_location (g : SGrid) (valid : List Loc) (l : Loc) (ops : List GOp) :
    grun g valid [GObj.fresh l] ops = specRun g valid [l] ops := by
  have h : PoolOk g [GObj.fresh l] := by
    intro ob hob
    simp only [List.mem_singleton] at hob
    subst hob
    exact ⟨Or.inl rfl, Or.inl rfl⟩
  exact run_refines g valid ops _ h

/-- non-vacuity: the history of finding F7 (read, change location, read) on `UniformGrid((3,4))` -/
def exGrid : SGrid := ⟨[[0, 1, 2], [0, 1, 2, 3]], [true, true], false, .F, .cells, none⟩
example : grun exGrid [.cells, .points] [GObj.fresh .cells]
      [.readShape 0, .readSize 0, .setLoc 0 .points, .readShape 0, .readSize 0, .copy 0, .setLoc 1 .cells,
       .readShape 1, .readShape 0] =
    [.shape [2, 3], .size 6, .done, .shape [3, 4], .size 12, .done, .done, .shape [2, 3], .shape [3, 4]] := by
  decide

end Finam.Props.C14
