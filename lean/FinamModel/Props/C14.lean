import FinamModel.GridLemmas
/-!
  C14 — grid index-to-coordinate mapping is consistent for every layout.

  Model: `FinamModel/Grid.lean` (`SGrid`: `points`, `cells`, `cellCenters`, `dataAxes`, `dataShape`,
  `dataPoints`, `toUnstructured`; `gstep`: the `data_shape`/`data_size` memo of `RectilinearGrid`
  under reads, location changes, copies and casts).
-/
namespace Finam.Props.C14
open Finam

/-! ### Index-to-coordinate consistency -/

/-- **C14, first sentence.** For every structured grid (any number of axes of any positive lengths —
    length-1 axes included —, either order, reversed or natural axes order, any combination of
    increasing/decreasing axes, cell or point data) and every multi-index `i` inside the grid's
    data shape: the entry of the flattened data-point list at the position obtained by flattening
    `i` in the grid's order is the coordinate read off the per-axis data axes at `i`. -/
theorem point_at_index (g : SGrid) (hne : ∀ ax ∈ g.axes, ax ≠ []) (i : List Nat)
    (hi : InB g.dataShape i) :
    g.dataPoints[ravel g.order g.dataShape i]? = some (g.coordAt i) := by
  rw [SGrid.dataPoints_eq]
  rw [SGrid.dataShape_eq g hne] at hi ⊢
  unfold SGrid.coordAt
  rw [SGrid.dataAxes_eq]
  cases hr : g.rev with
  | false =>
    simp only [hr, Bool.false_eq_true, if_false] at hi ⊢
    simpa [pointOrder] using SGrid.genPoints_at (g.locAxes) g.order g.inc i hi
  | true =>
    simp only [hr, if_true] at hi ⊢
    have hi' : InB ((g.locAxes).map List.length) i.reverse := by
      have := InB_reverse hi; simpa using this
    have hlen : i.length = (SGrid.dirAxes (g.locAxes) g.inc).length := by
      rw [hi.length_eq, SGrid.dirAxes_length]; simp
    have h1 := SGrid.genPoints_at (g.locAxes) g.order.swap g.inc i.reverse hi'
    have h2 : ravel g.order ((g.locAxes).map List.length).reverse i =
        ravel g.order.swap ((g.locAxes).map List.length) i.reverse := by
      have := ravel_reverse g.order ((g.locAxes).map List.length) i.reverse
      simp only [List.reverse_reverse] at this
      rw [this]; cases g.order <;> rfl
    rw [h2]
    simp only [pointOrder, if_true]
    rw [h1, SGrid.pick_reverse _ _ hlen]

/-- non-vacuity: an ESRI-like layout (axes reversed, y decreasing, C order), cell data -/
def exEsri : SGrid := ⟨[[0, 1, 2, 3], [0, 2, 4]], [true, false], true, .C, .cells, none⟩
example : InB exEsri.dataShape [1, 2] ∧ exEsri.coordAt [1, 2] = [5/2, 1] ∧
    exEsri.dataPoints[ravel exEsri.order exEsri.dataShape [1, 2]]? = some [5/2, 1] := by decide +kernel

/-! ### Shape, size and points always reflect the current data location -/

/-- specification of the operation history: objects are just their current location, nothing is
    remembered -/
def specStep (g : SGrid) (valid : List Loc) (locs : List Loc) : GOp → List Loc × GObs
  | .readShape k =>
    match locs[k]? with
    | none => (locs, .bad)
    | some l => (locs, .shape (g.shapeFor l))
  | .readSize k =>
    match locs[k]? with
    | none => (locs, .bad)
    | some l => (locs, .size (prod (g.shapeFor l)))
  | .readPoints k =>
    match locs[k]? with
    | none => (locs, .bad)
    | some l => (locs, .npoints ({ g with loc := l }.dataPoints.length))
  | .setLoc k l =>
    match locs[k]? with
    | none => (locs, .bad)
    | some _ => if l ∈ valid then (locs.set k l, .done) else (locs, .rejected)
  | .copy k =>
    match locs[k]? with
    | none => (locs, .bad)
    | some l => (locs ++ [l], .done)
  | .cast k =>
    match locs[k]? with
    | none => (locs, .bad)
    | some l => (locs ++ [l], .done)

def specRun (g : SGrid) (valid : List Loc) : List Loc → List GOp → List GObs
  | _, [] => []
  | locs, op :: ops => (specStep g valid locs op).2 :: specRun g valid (specStep g valid locs op).1 ops

/-- a memo field is either empty or holds the value for the object's current location -/
def MemoOk (g : SGrid) (ob : GObj) : Prop :=
  (ob.memoShape = none ∨ ob.memoShape = some (g.shapeFor ob.loc)) ∧
  (ob.memoSize = none ∨ ob.memoSize = some (prod (g.shapeFor ob.loc)))

def PoolOk (g : SGrid) (pool : List GObj) : Prop := ∀ ob ∈ pool, MemoOk g ob

theorem poolOk_set {g : SGrid} {pool : List GObj} (h : PoolOk g pool) (k : Nat) (ob : GObj)
    (hob : MemoOk g ob) : PoolOk g (pool.set k ob) := by
  intro x hx
  rcases List.mem_or_eq_of_mem_set hx with h1 | h1
  · exact h x h1
  · subst h1; exact hob

theorem poolOk_append {g : SGrid} {pool : List GObj} (h : PoolOk g pool) (ob : GObj)
    (hob : MemoOk g ob) : PoolOk g (pool ++ [ob]) := by
  intro x hx
  simp only [List.mem_append, List.mem_singleton] at hx
  rcases hx with h1 | h1
  · exact h x h1
  · subst h1; exact hob

theorem map_loc_set (pool : List GObj) (k : Nat) (ob : GObj) :
    (pool.set k ob).map (·.loc) = (pool.map (·.loc)).set k ob.loc := by
  simp [List.map_set]

theorem set_self_loc (pool : List GObj) (k : Nat) (ob : GObj) (h : pool[k]? = some ob) :
    (pool.map (·.loc)).set k ob.loc = pool.map (·.loc) := by
  apply List.ext_getElem?
  intro i
  by_cases hik : k = i
  · subst hik
    obtain ⟨hl, he⟩ := List.getElem?_eq_some_iff.mp h
    simp [hl, he]
  · simp [hik]

/-- one step: the memoising implementation answers like the memo-free specification and keeps
    the invariant -/
theorem step_refines (g : SGrid) (valid : List Loc) (pool : List GObj) (hp : PoolOk g pool) (op : GOp) :
    (gstep g valid pool op).2 = (specStep g valid (pool.map (·.loc)) op).2 ∧
    (gstep g valid pool op).1.map (·.loc) = (specStep g valid (pool.map (·.loc)) op).1 ∧
    PoolOk g (gstep g valid pool op).1 := by
  cases op with
  | readShape k =>
    simp only [gstep, specStep, List.getElem?_map]
    cases hk : pool[k]? with
    | none => simp [hp]
    | some ob =>
      have hob := hp ob (List.mem_of_getElem? hk)
      cases hm : ob.memoShape with
      | some s =>
        rcases hob.1 with h1 | h1
        · rw [hm] at h1; cases h1
        · rw [hm] at h1; cases h1; simp [hp, hm]
      | none =>
        simp only [hm, Option.map_some]
        refine ⟨trivial, ?_, ?_⟩
        · rw [map_loc_set]; exact set_self_loc pool k ob hk
        · exact poolOk_set hp k _ ⟨Or.inr rfl, hob.2⟩
  | readSize k =>
    simp only [gstep, specStep, List.getElem?_map]
    cases hk : pool[k]? with
    | none => simp [hp]
    | some ob =>
      have hob := hp ob (List.mem_of_getElem? hk)
      cases hm : ob.memoSize with
      | some n =>
        rcases hob.2 with h1 | h1
        · rw [hm] at h1; cases h1
        · rw [hm] at h1; cases h1; simp [hp, hm]
      | none =>
        rcases hob.1 with h1 | h1
        all_goals
          simp only [hm, h1, Option.map_some]
          refine ⟨trivial, ?_, ?_⟩
          · rw [map_loc_set]; exact set_self_loc pool k ob hk
          · exact poolOk_set hp k _ ⟨Or.inr rfl, Or.inr rfl⟩
  | readPoints k =>
    simp only [gstep, specStep, List.getElem?_map]
    cases hk : pool[k]? with
    | none => simp [hp]
    | some ob => simp [hp]
  | setLoc k l =>
    simp only [gstep, specStep, List.getElem?_map]
    cases hk : pool[k]? with
    | none => simp [hp]
    | some ob =>
      by_cases hv : l ∈ valid
      · simp only [Option.map_some, hv, if_true]
        refine ⟨trivial, ?_, ?_⟩
        · rw [map_loc_set]
        · exact poolOk_set hp k _ ⟨Or.inl rfl, Or.inl rfl⟩
      · simp [hv, hp]
  | copy k =>
    simp only [gstep, specStep, List.getElem?_map]
    cases hk : pool[k]? with
    | none => simp [hp]
    | some ob =>
      have hob := hp ob (List.mem_of_getElem? hk)
      simp only [Option.map_some, List.map_append, List.map_cons, List.map_nil, true_and]
      exact poolOk_append hp ob hob
  | cast k =>
    simp only [gstep, specStep, List.getElem?_map]
    cases hk : pool[k]? with
    | none => simp [hp]
    | some ob =>
      simp only [Option.map_some, List.map_append, List.map_cons, List.map_nil, true_and]
      exact poolOk_append hp _ ⟨Or.inl rfl, Or.inl rfl⟩

theorem run_refines (g : SGrid) (valid : List Loc) : ∀ (ops : List GOp) (pool : List GObj),
    PoolOk g pool → grun g valid pool ops = specRun g valid (pool.map (·.loc)) ops := by
  intro ops
  induction ops with
  | nil => intro _ _; rfl
  | cons op ops ih =>
    intro pool hp
    obtain ⟨h1, h2, h3⟩ := step_refines g valid pool hp op
    simp only [grun, specRun]
    rw [h1, ih _ h3, h2]

/-- **C14, last sentence.** Whatever sequence of property reads, copies, casts and data-location
    changes is applied to a freshly constructed grid (and to the objects derived from it), every
    read of `data_shape`, `data_size` and `data_points` returns the value that belongs to the
    object's *current* data location: the memoising implementation is observationally equal to a
    specification that remembers nothing. -/
theorem shape_reflects_location (g : SGrid) (valid : List Loc) (l : Loc) (ops : List GOp) :
    grun g valid [GObj.fresh l] ops = specRun g valid [l] ops := by
  have h : PoolOk g [GObj.fresh l] := by
    intro ob hob
    simp only [List.mem_singleton] at hob
    subst hob
    exact ⟨Or.inl rfl, Or.inl rfl⟩
  exact run_refines g valid ops _ h

/-- non-vacuity: the history of finding F7 (read, change location, read) on `UniformGrid((3,4))` -/
def exGrid : SGrid := ⟨[[0, 1, 2], [0, 1, 2, 3]], [true, true], false, .F, .cells, none⟩
example : grun exGrid [.cells, .points] [GObj.fresh .cells]
      [.readShape 0, .readSize 0, .setLoc 0 .points, .readShape 0, .readSize 0, .copy 0, .setLoc 1 .cells,
       .readShape 1, .readShape 0] =
    [.shape [2, 3], .size 6, .done, .shape [3, 4], .size 12, .done, .done, .shape [2, 3], .shape [3, 4]] := by
  decide

end Finam.Props.C14
