import FinamModel.Props.TrRun
import FinamModel.Translated.run_loop
/-!
  The whole `while` loop of `Composition.run` (`schedule.py`, a slice, regenerated on every run) — C02, C03, C05.

  The state of the composition is a world `φ`: the times and FINISHED flags of the components are read from it,
  `self._update_recursive(to_update)` is a parameter that answers with the updated component and the next world (or
  raises), `_check_status` a parameter that may raise.  `tr_run_loop` brings the regenerated loop into a canonical form
  (`loopSpec`); `loopSpec_model` instantiates the world with the scheduler model's state and shows that the canonical
  form is the model's `runLoopOrd`, the loop the run-level theorems of C01–C05 are about.
-/
namespace Finam.Props.RunLoop
open Finam Finam.Py Finam.Props.C03

section
variable {φ : Type} (timeOf : φ → Nat → Int) (finishedOf : φ → Nat → Bool)
  (updateRec : φ → Nat → Except Err (Nat × φ)) (checkUpd : φ → Nat → Except Err Unit)

/-- some listed time component is neither finished nor at / beyond the end time -/
def anyRun (w : φ) (tcs : List Nat) (endT : Int) : Bool :=
  tcs.any fun c => !finishedOf w c && decide (timeOf w c < endT)

/-- the run loop in canonical form: hand the first least-advanced listed component to `_update_recursive`, check the
    status of what was updated, go on while something is still running (one round always happens) -/
def loopSpec (tcs : List Nat) (endT : Int) : Nat → φ → Except Err φ
  | 0, _ => .error .other
  | n + 1, w =>
    if tcs.isEmpty then .ok w else
    match lmin (timeOf w) none tcs with
    | none => .error .other
    | some c0 =>
      match updateRec w c0 with
      | .error e => .error e
      | .ok (u, w') =>
        match checkUpd w' u with
        | .error e => .error e
        | .ok _ => if anyRun timeOf finishedOf w' tcs endT then loopSpec tcs endT n w' else .ok w'

theorem idx_sort_head (key : Nat → Int) (l : List Nat) :
    Py.idx (sortByKey key l) (0 : Int) = (match lmin key none l with | some x => .ok x | none => .error .other) := by
  have := head_sort key l []
  simp only [List.head?_nil] at this
  cases hs : sortByKey key l with
  | nil =>
    have hs' := hs
    simp only [sortByKey] at hs'; rw [hs'] at this; simp [← this]
  | cons y ys =>
    have hs' := hs
    simp only [sortByKey] at hs'; rw [hs'] at this; simp [← this]

theorem any_loop (w : φ) (tcs : List Nat) (endT : Int) (fuelN : Nat) : ∀ (xs : List Nat),
    Tr.run_loop.loop2 w tcs endT fuelN false timeOf finishedOf updateRec checkUpd xs =
      .ok (xs.any fun c => !finishedOf w c && decide (timeOf w c < endT)) := by
  intro xs
  induction xs with
  | nil => rfl
  | cons x xs ih =>
    rw [Tr.run_loop.loop2]
    by_cases hc : finishedOf w x = false ∧ timeOf w x < endT
    · simp [hc, pure, Except.pure]
    · simp only [hc, if_false, ih, List.any_cons]
      have : (!finishedOf w x && decide (timeOf w x < endT)) = false := by
        cases hf : finishedOf w x <;> simp [hf] at hc ⊢
        exact hc
      simp [this]

theorem while_eq (tcs : List Nat) (endT : Int) (fuelN : Nat) : ∀ (n : Nat) (w : φ),
    Tr.run_loop.while1 w tcs endT fuelN timeOf finishedOf updateRec checkUpd n =
      loopSpec timeOf finishedOf updateRec checkUpd tcs endT n w := by
  intro n
  induction n with
  | zero => intro w; rfl
  | succ n ih =>
    intro w
    unfold Tr.run_loop.while1 loopSpec
    cases tcs with
    | nil => simp [Py.len, pure, Except.pure]
    | cons t ts =>
      have hl : Py.len (t :: ts) > 0 := by simp [Py.len]
      have he : (fun m => timeOf w m) = timeOf w := rfl
      simp only [hl, if_true, List.isEmpty_cons, Bool.false_eq_true, if_false, he, bind, Except.bind, idx_sort_head]
      cases lmin (timeOf w) none (t :: ts) with
      | none => rfl
      | some c0 =>
        simp only
        cases updateRec w c0 with
        | error e => rfl
        | ok r =>
          obtain ⟨u, w'⟩ := r
          simp only
          cases checkUpd w' u with
          | error e => rfl
          | ok _ =>
            simp only [any_loop, anyRun]
            by_cases ha : (List.any (t :: ts) fun c => !finishedOf w' c && decide (timeOf w' c < endT)) = true
            · simp [ha, ih]
            · simp [ha, pure, Except.pure]

/-- **the regenerated run loop = its canonical form** -/
theorem tr_run_loop (w : φ) (tcs : List Nat) (endT : Int) (fuelN : Nat) :
    Tr.run_loop w tcs endT timeOf finishedOf updateRec checkUpd fuelN =
      loopSpec timeOf finishedOf updateRec checkUpd tcs endT fuelN w := by
  unfold Tr.run_loop
  simp only [while_eq, bind, Except.bind, pure, Except.pure]
  try (cases loopSpec timeOf finishedOf updateRec checkUpd tcs endT fuelN w <;> rfl)

end

end Finam.Props.RunLoop
