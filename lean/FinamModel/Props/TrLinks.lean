import FinamModel.PyPrelude
import FinamModel.Translated.metadata_links
/-!
  C19, "after a successful connect the composition's reported link list is exactly the set of links that were
  created" — on the *translated* link enumeration of `Composition.metadata` (`schedule.py`, a slice of the property
  getter, regenerated on every run).

  A link end is a pair of objects (see `harness/trspecs.py`): `(component, output)` or `(adapter, adapter)` as the
  source, `(adapter, adapter)` or `(owning component, input)` as the target.  `self._adapters` is read as the
  duplicate-free list it is iterated as (`Props/TrCollect.code_adapters_collected_once` says what it holds).
-/
namespace Finam.Props.C19L
open Finam Finam.Py

abbrev Link := (Nat × Nat) × (Nat × Nat)

/-- the "to" entry of a link -/
def linkEnd (h : Heap) (owners : List (Nat × Nat)) (t : Nat) : Except Err (Nat × Nat) :=
  if h.isAdapter t = true then .ok (t, t) else (dictGet owners t).map fun o => (o, t)

/-- the links from one source, one per target, in the order of `targets` -/
def linksFrom (h : Heap) (owners : List (Nat × Nat)) (frm : Nat × Nat) : List Nat → Except Err (List Link)
  | [] => .ok []
  | t :: ts =>
    match linkEnd h owners t with
    | .error e => .error e
    | .ok e => match linksFrom h owners frm ts with
      | .error e' => .error e'
      | .ok r => .ok ((frm, e) :: r)

/-- one list after the other; the first error wins -/
def catM : List (Except Err (List Link)) → Except Err (List Link)
  | [] => .ok []
  | x :: xs =>
    match x with
    | .error e => .error e
    | .ok a => match catM xs with
      | .error e' => .error e'
      | .ok b => .ok (a ++ b)

def after (links : List Link) (r : Except Err (List Link)) : Except Err (List Link) := r.map (links ++ ·)

theorem loop3_eq (h : Heap) (owners : List (Nat × Nat)) (comp on o : Nat) : ∀ (ts : List Nat) (links : List Link),
    Tr.metadata_links.loop3 h owners links comp on o ts = after links (linksFrom h owners (comp, on) ts) := by
  intro ts
  induction ts with
  | nil => intro links; unfold Tr.metadata_links.loop3; simp [linksFrom, after, Except.map, pure, Except.pure]
  | cons t ts ih =>
    intro links
    unfold Tr.metadata_links.loop3
    by_cases ha : h.isAdapter t = true
    · simp only [ha, if_true, ih, linksFrom, linkEnd]
      cases linksFrom h owners (comp, on) ts <;> simp [after, Except.map]
    · simp only [ha, linksFrom, linkEnd, bind, Except.bind]
      cases hd : dictGet owners t with
      | error e => simp [after, Except.map]
      | ok ow =>
        simp only [ih, Except.map]
        cases linksFrom h owners (comp, on) ts <;> simp [after, Except.map]

theorem loop5_eq (h : Heap) (owners : List (Nat × Nat)) (ada : Nat) : ∀ (ts : List Nat) (links : List Link),
    Tr.metadata_links.loop5 h owners links ada ts = after links (linksFrom h owners (ada, ada) ts) := by
  intro ts
  induction ts with
  | nil => intro links; unfold Tr.metadata_links.loop5; simp [linksFrom, after, Except.map, pure, Except.pure]
  | cons t ts ih =>
    intro links
    unfold Tr.metadata_links.loop5
    by_cases ha : h.isAdapter t = true
    · simp only [ha, if_true, ih, linksFrom, linkEnd]
      cases linksFrom h owners (ada, ada) ts <;> simp [after, Except.map]
    · simp only [ha, linksFrom, linkEnd, bind, Except.bind]
      cases hd : dictGet owners t with
      | error e => simp [after, Except.map]
      | ok ow =>
        simp only [ih, Except.map]
        cases linksFrom h owners (ada, ada) ts <;> simp [after, Except.map]

theorem loop2_eq (h : Heap) (owners : List (Nat × Nat)) (comp : Nat) : ∀ (os : List Nat) (links : List Link),
    Tr.metadata_links.loop2 h owners links comp (os.map fun o => (o, o))
      = after links (catM (os.map fun o => linksFrom h owners (comp, o) (h.targets o))) := by
  intro os
  induction os with
  | nil => intro links; unfold Tr.metadata_links.loop2; simp [catM, after, Except.map, pure, Except.pure]
  | cons o os ih =>
    intro links
    simp only [List.map_cons]
    unfold Tr.metadata_links.loop2
    rw [loop3_eq]
    simp only [catM]
    cases linksFrom h owners (comp, o) (h.targets o) with
    | error e => simp [after, Except.map, bind, Except.bind]
    | ok a =>
      simp only [after, Except.map, bind, Except.bind, ih]
      cases catM (os.map fun o => linksFrom h owners (comp, o) (h.targets o)) <;> simp [after, Except.map]

/-- the links of one component: output by output -/
def compLinks (h : Heap) (owners : List (Nat × Nat)) (c : Nat) : Except Err (List Link) :=
  catM ((h.outputs c).map fun o => linksFrom h owners (c, o) (h.targets o))

theorem loop1_eq (h : Heap) (all : List Nat) (owners : List (Nat × Nat)) : ∀ (cs : List Nat) (links : List Link),
    Tr.metadata_links.loop1 h all owners links cs = after links (catM (cs.map (compLinks h owners))) := by
  intro cs
  induction cs with
  | nil => intro links; unfold Tr.metadata_links.loop1; simp [catM, after, Except.map, pure, Except.pure]
  | cons c cs ih =>
    intro links
    unfold Tr.metadata_links.loop1
    rw [loop2_eq]
    simp only [List.map_cons, catM]
    have : catM ((h.outputs c).map fun o => linksFrom h owners (c, o) (h.targets o)) = compLinks h owners c := rfl
    rw [this]
    cases compLinks h owners c with
    | error e => simp [after, Except.map, bind, Except.bind]
    | ok a =>
      simp only [after, Except.map, bind, Except.bind, ih]
      cases catM (cs.map (compLinks h owners)) <;> simp [after, Except.map]

theorem loop4_eq (h : Heap) (all : List Nat) (owners : List (Nat × Nat)) : ∀ (as : List Nat) (links : List Link),
    Tr.metadata_links.loop4 h all owners links as
      = after links (catM (as.map fun a => linksFrom h owners (a, a) (h.targets a))) := by
  intro as
  induction as with
  | nil => intro links; unfold Tr.metadata_links.loop4; simp [catM, after, Except.map, pure, Except.pure]
  | cons a as ih =>
    intro links
    unfold Tr.metadata_links.loop4
    rw [loop5_eq]
    simp only [List.map_cons, catM]
    cases linksFrom h owners (a, a) (h.targets a) with
    | error e => simp [after, Except.map, bind, Except.bind]
    | ok l =>
      simp only [after, Except.map, bind, Except.bind, ih]
      cases catM (as.map fun a => linksFrom h owners (a, a) (h.targets a)) <;> simp [after, Except.map]

/-- **the link enumeration of `Composition.metadata`**: the links of the listed components (component by component,
    output by output, target by target), then the links below the collected adapters -/
theorem tr_metadata_links (h : Heap) (comps adas : List Nat) (owners : List (Nat × Nat)) :
    Tr.metadata_links h comps adas owners
      = catM [catM (comps.map (compLinks h owners)), catM (adas.map fun a => linksFrom h owners (a, a) (h.targets a))] := by
  unfold Tr.metadata_links
  simp only [loop1_eq, loop4_eq, catM, bind, Except.bind, after, Except.map, List.nil_append, pure, Except.pure]
  cases catM (comps.map (compLinks h owners)) with
  | error e => rfl
  | ok a =>
    simp only
    cases catM (adas.map fun a => linksFrom h owners (a, a) (h.targets a)) <;> simp

/-! ### what the list says when every linked input has an owner -/

/-- the entry for target `t` when `own t` is the owner of input `t` -/
def endOf (h : Heap) (own : Nat → Nat) (t : Nat) : Nat × Nat := if h.isAdapter t = true then (t, t) else (own t, t)

@[simp] theorem endOf_snd (h : Heap) (own : Nat → Nat) (t : Nat) : (endOf h own t).2 = t := by
  unfold endOf; split <;> rfl

theorem linksFrom_ok (h : Heap) (owners : List (Nat × Nat)) (own : Nat → Nat) (frm : Nat × Nat) : ∀ (ts : List Nat),
    (∀ t ∈ ts, h.isAdapter t = false → dictGet owners t = .ok (own t)) →
    linksFrom h owners frm ts = .ok (ts.map fun t => (frm, endOf h own t)) := by
  intro ts
  induction ts with
  | nil => intro _; rfl
  | cons t ts ih =>
    intro ho
    have ih' := ih (fun t' ht' => ho t' (List.mem_cons_of_mem _ ht'))
    by_cases ha : h.isAdapter t = true
    · simp [linksFrom, linkEnd, ha, ih', endOf]
    · have hd := ho t List.mem_cons_self (by simpa using ha)
      simp [linksFrom, linkEnd, ha, hd, Except.map, ih', endOf]

theorem catM_ok {α} (f : α → Except Err (List Link)) (g : α → List Link) : ∀ (xs : List α),
    (∀ x ∈ xs, f x = .ok (g x)) → catM (xs.map f) = .ok (xs.flatMap g) := by
  intro xs
  induction xs with
  | nil => intro _; rfl
  | cons x xs ih =>
    intro hx
    simp [catM, hx x List.mem_cons_self, ih (fun y hy => hx y (List.mem_cons_of_mem _ hy))]

/-- every source whose targets are reported: the outputs of the listed components, then the collected adapters -/
def sources (h : Heap) (comps adas : List Nat) : List Nat := comps.flatMap h.outputs ++ adas

/-- the links that exist below a list of sources, as (source object, target object) -/
def edges (h : Heap) (srcs : List Nat) : List (Nat × Nat) := srcs.flatMap fun x => (h.targets x).map fun t => (x, t)

/-- all input owners are known: every target of a reported source that is no adapter is a key of `_input_owners` -/
def Owned (h : Heap) (owners : List (Nat × Nat)) (own : Nat → Nat) (srcs : List Nat) : Prop :=
  ∀ x ∈ srcs, ∀ t ∈ h.targets x, h.isAdapter t = false → dictGet owners t = .ok (own t)

/-- **C19 on the code — the reported link list, exactly.**  When every linked input has an owner (validation has
    passed: `code_missing_exact`), the translated enumeration succeeds, and the list it returns has one entry per
    existing link below the outputs of the listed components and below the collected adapters — the same links, in
    walking order, each as often as it exists (once: `targets` lists are duplicate-free by construction of `>>`) —
    every entry naming its source and target objects and the owning component of an input. -/
theorem code_links_exact (h : Heap) (comps adas : List Nat) (owners : List (Nat × Nat)) (own : Nat → Nat)
    (ho : Owned h owners own (sources h comps adas)) :
    ∃ L, Tr.metadata_links h comps adas owners = .ok L ∧
      L.map (fun l => (l.1.2, l.2.2)) = edges h (sources h comps adas) ∧
      (∀ l ∈ L, l.2 = endOf h own l.2.2) ∧
      (∀ l ∈ L, l.1.1 = l.1.2 ∧ l.1.1 ∈ adas ∨ l.1.1 ∈ comps ∧ l.1.2 ∈ h.outputs l.1.1) := by
  have hc : ∀ c ∈ comps, compLinks h owners c
      = .ok ((h.outputs c).flatMap fun o => (h.targets o).map fun t => (((c, o), endOf h own t) : Link)) := by
    intro c hc
    unfold compLinks
    refine catM_ok _ _ _ ?_
    intro o hoo
    refine linksFrom_ok h owners own (c, o) _ ?_
    intro t ht hna
    exact ho o (by simp [sources]; exact .inl ⟨c, hc, hoo⟩) t ht hna
  have ha : ∀ a ∈ adas, linksFrom h owners (a, a) (h.targets a)
      = .ok ((h.targets a).map fun t => (((a, a), endOf h own t) : Link)) := by
    intro a haa
    refine linksFrom_ok h owners own (a, a) _ ?_
    intro t ht hna
    exact ho a (by simp [sources]; exact .inr haa) t ht hna
  refine ⟨(comps.flatMap fun c => (h.outputs c).flatMap fun o => (h.targets o).map fun t => (((c, o), endOf h own t) : Link))
      ++ (adas.flatMap fun a => (h.targets a).map fun t => (((a, a), endOf h own t) : Link)), ?_, ?_, ?_, ?_⟩
  · rw [tr_metadata_links]
    simp only [catM, catM_ok _ _ comps hc, catM_ok _ _ adas ha, List.append_nil]
  · simp [edges, sources, List.map_flatMap, List.flatMap_append, Function.comp_def, List.flatMap_assoc, endOf_snd]
  · intro l hl
    simp only [List.mem_append, List.mem_flatMap, List.mem_map] at hl
    rcases hl with ⟨c, _, o, _, t, _, rfl⟩ | ⟨a, _, t, _, rfl⟩ <;> simp
  · intro l hl
    simp only [List.mem_append, List.mem_flatMap, List.mem_map] at hl
    rcases hl with ⟨c, hc', o, ho', t, _, rfl⟩ | ⟨a, ha', t, _, rfl⟩
    · exact .inr ⟨hc', ho'⟩
    · exact .inl ⟨rfl, ha'⟩

/-- a linked input without an owner makes the enumeration fail (a `KeyError`; `_check_missing_components` has
    rejected such a composition before) -/
theorem code_links_unowned_first (h : Heap) (adas : List Nat) (owners : List (Nat × Nat)) (c o t : Nat)
    (hna : h.isAdapter t = false) (hk : dictGet owners t = .error .other) (ht : h.targets o = [t]) (hc : h.outputs c = [o]) :
    Tr.metadata_links h [c] adas owners = .error .other := by
  rw [tr_metadata_links]
  simp [catM, compLinks, hc, ht, linksFrom, linkEnd, hna, hk, Except.map]

/-! ### non-vacuity: producer `0` (output `10`) → adapter `1` → {input `20` of consumer `2`, adapter `3` → input `21` of consumer `4`} -/

def exH : Heap :=
  { isInput := fun x => x ∈ [1, 3, 20, 21], isOutput := fun x => x ∈ [10, 1, 3], isAdapter := fun x => x ∈ [1, 3],
    isNoDep := fun _ => false, isDelay := fun _ => false, isNoBranch := fun _ => false, isTimeComp := fun _ => false,
    needsPush := fun _ => false, needsPull := fun _ => false, isStatic := fun _ => false, finished := fun _ => false,
    hasSource := fun x => x ∈ [1, 3, 20, 21],
    source := fun x => if x = 1 then 10 else if x = 20 then 1 else if x = 3 then 1 else if x = 21 then 3 else 0,
    time := fun _ => 0, nextTime := fun _ => 0, withDelay := fun _ t => t, owner := fun _ => 0,
    inputs := fun c => if c = 2 then [20] else if c = 4 then [21] else [], outputs := fun c => if c = 0 then [10] else [],
    targets := fun x => if x = 10 then [1] else if x = 1 then [20, 3] else if x = 3 then [21] else [],
    size := 9 }

example : Tr.metadata_links exH [0, 2, 4] [1, 3] [(20, 2), (21, 4)]
    = .ok [((0, 10), (1, 1)), ((1, 1), (2, 20)), ((1, 1), (3, 3)), ((3, 3), (4, 21))] := by decide

example : Owned exH [(20, 2), (21, 4)] (fun t => if t = 20 then 2 else 4) (sources exH [0, 2, 4] [1, 3]) := by
  intro x hx t ht hna
  simp [sources, exH] at hx
  rcases hx with rfl | rfl | rfl <;> simp [exH] at ht hna ⊢
  · subst ht; simp at hna
  · rcases ht with rfl | rfl
    · simp [dictGet]
    · simp at hna
  · subst ht; simp [dictGet]

end Finam.Props.C19L
