import FinamModel.Props.TrRunLoop
import FinamModel.Props.C01
import FinamModel.Props.C05Run
/-!
  The regenerated run loop on the scheduler model: with the world instantiated by the model's state (and the trace of
  updates), `_update_recursive` by the model's `updateRec` followed by `applyUpdate`, the canonical form of the
  translated loop (`Props/TrRunLoop.tr_run_loop`) **is** the model's `runLoopOrd` — the loop the run-level theorems
  (C01Run, C03Run, C04Run, C05Run) are about.
-/
namespace Finam.Props.RunLoop
open Finam Finam.Py Finam.Props.C03 Finam.Props.C05Run

abbrev W := State × List (Nat × Int)

def errMapM : SErr → Err
  | .circular => .circular
  | .finished => .timeErr
  | .fuel => .other

def timeOfM (w : W) (m : Nat) : Int := getNow (w.1.comp m)
def finOfM (w : W) (m : Nat) : Bool := isFinished (w.1.comp m)
/-- `self._update_recursive(to_update)` of the model: decide whom to update, update it, note it in the trace -/
def updM (w : W) (c0 : Nat) : Except Err (Nat × W) :=
  match updateRec w.1 (w.1.comps.length + 1) c0 [] none with
  | .error e => .error (errMapM e)
  | .ok none => .error .other
  | .ok (some u) => .ok (u, (applyUpdate w.1 u, (u, getNow ((applyUpdate w.1 u).comp u)) :: w.2))
def checkM (_ : W) (_ : Nat) : Except Err Unit := .ok ()

/-- the listing handed to the loop holds exactly the time components -/
def Listing (s : State) (order : List Nat) : Prop := ∀ i, i ∈ order ↔ (s.comp i).isTime = true

def outcome : List (Nat × Int) × RunEnd × State → Except Err W
  | (_, .outOfFuel, _) => .error .other
  | (_, .err e, _) => .error (errMapM e)
  | (tr, .done, s) => .ok (s, tr.reverse)

theorem lmin_some {α} (key : α → Int) : ∀ (xs : List α) (b : α), ∃ y, lmin key (some b) xs = some y := by
  intro xs
  induction xs with
  | nil => intro b; exact ⟨b, rfl⟩
  | cons x xs ih =>
    intro b
    simp only [lmin]
    split
    · exact ih x
    · exact ih b

def keyHeap (s : State) : Heap :=
  { isInput := fun _ => false, isOutput := fun _ => false, isAdapter := fun _ => false,
    isNoDep := fun _ => false, isDelay := fun _ => false, isNoBranch := fun _ => false, isTimeComp := fun _ => false,
    needsPush := fun _ => false, needsPull := fun _ => false, isStatic := fun _ => false,
    finished := fun i => isFinished (s.comp i), hasSource := fun _ => false, source := fun _ => 0,
    time := fun i => getNow (s.comp i), nextTime := fun _ => 0, withDelay := fun _ t => t, owner := fun _ => 0,
    inputs := fun _ => [], outputs := fun _ => [], targets := fun _ => [], size := 0 }

theorem filter_all (s : State) (order : List Nat) (h : ∀ i ∈ order, (s.comp i).isTime = true) :
    (order.filter fun i => (s.comp i).isTime) = order := by
  rw [List.filter_eq_self]; exact h

/-- the loop's choice on a listing of the time components is the model's `selectOrd` -/
theorem select_eq (s : State) (acc : List (Nat × Int)) (order : List Nat) (hl : ∀ i ∈ order, (s.comp i).isTime = true) :
    lmin (timeOfM (s, acc)) none order = (selectOrd s order none).map (·.1) := by
  have := lmin_selectOrd (keyHeap s) s id (fun i _ => rfl) order none (by intro b hb; cases hb)
  rw [filter_all s order hl] at this
  show lmin (fun i => getNow (s.comp i)) none order = _
  simpa [keyHeap] using this

theorem anyRunning_listing (s : State) (acc : List (Nat × Int)) (order : List Nat) (hl : Listing s order) (endT : Int) :
    anyRun timeOfM finOfM (s, acc) order endT = anyRunning s endT := by
  have hm := any_running_model (keyHeap s) s id endT (fun i _ => rfl) (fun i => rfl) order
  rw [filter_all s order (fun i hi => (hl i).mp hi)] at hm
  simp only [List.map_id, keyHeap] at hm
  refine Eq.trans (b := order.any (fun i => match (s.comp i).kind with | .time nw _ fin => !fin && decide (nw < endT) | .pull => false)) ?_ ?_
  · exact hm
  -- both sides: some time component is unfinished and before the end
  · apply Bool.eq_iff_iff.mpr
    simp only [anyRunning, List.any_eq_true]
    constructor
    · rintro ⟨i, hi, hf⟩
      have hti := (hl i).mp hi
      have hlt := isTime_lt s i hti
      refine ⟨s.comp i, ?_, hf⟩
      simp only [State.comp, List.getD_eq_getElem?_getD, List.getElem?_eq_getElem hlt, Option.getD_some]
      exact List.getElem_mem hlt
    · rintro ⟨c, hc, hf⟩
      obtain ⟨i, hi, rfl⟩ := List.getElem_of_mem hc
      have hci : s.comp i = s.comps[i] := by
        simp only [State.comp, List.getD_eq_getElem?_getD, List.getElem?_eq_getElem hi, Option.getD_some]
      have hti : (s.comp i).isTime = true := by
        rw [hci]
        cases hk : s.comps[i].kind with
        | pull => simp [hk] at hf
        | time _ _ _ => simp [Comp.isTime, hk]
      exact ⟨i, (hl i).mpr hti, by rw [hci]; exact hf⟩

theorem listing_update (s : State) (order : List Nat) (hl : Listing s order) (u : Nat) (hT : (s.comp u).isTime = true) :
    Listing (applyUpdate s u) order := by
  intro i
  rw [hl i, applyUpdate_comp s u (isTime_lt s u hT) hT i]
  by_cases hi : i = u
  · subst hi
    simp only [if_true, hT]
    cases hk : (s.comp i).kind with
    | pull => simp [Comp.isTime, hk] at hT
    | time nw nx fin => simp [adv1, hk, Comp.isTime]
  · simp [hi]

/-- **the regenerated run loop is the model's run loop.**  On the scheduler model — listing = the time components,
    `_update_recursive` = `updateRec` then `applyUpdate` — the canonical form of the translated `while` loop of
    `Composition.run` gives exactly what `runLoopOrd` gives: the same final state and trace of updates, the same error,
    for every state, end time and iteration bound. -/
theorem loopSpec_model (order : List Nat) (hne : order ≠ []) (endT : Int) : ∀ (n : Nat) (s : State) (acc : List (Nat × Int)),
    Listing s order →
    loopSpec timeOfM finOfM updM checkM order endT n (s, acc) = outcome (runLoopOrd order n s endT acc) := by
  intro n
  induction n with
  | zero => intro s acc _; rfl
  | succ n ih =>
    intro s acc hl
    unfold loopSpec runLoopOrd
    have hemp : order.isEmpty = false := by cases order with | nil => exact absurd rfl hne | cons _ _ => rfl
    have hall : ∀ i ∈ order, (s.comp i).isTime = true := fun i hi => (hl i).mp hi
    simp only [hemp, Bool.false_eq_true, if_false, select_eq s acc order hall]
    have hsome : ∃ y, lmin (timeOfM (s, acc)) none order = some y := by
      cases order with
      | nil => exact absurd rfl hne
      | cons x xs => simp only [lmin]; exact lmin_some _ xs x
    rw [select_eq s acc order hall] at hsome
    obtain ⟨c0, hc0⟩ := hsome
    rw [hc0]
    simp only [updM]
    cases hu : updateRec s (s.comps.length + 1) c0 [] none with
    | error e => rfl
    | ok r =>
      cases r with
      | none => rfl
      | some u =>
        simp only [checkM]
        have hsound := Props.C01.updateRec_sound s (s.comps.length + 1) c0 [] none (some u) hu
        obtain ⟨nw, nx, hk, _⟩ := hsound
        have hT : (s.comp u).isTime = true := by simp [Comp.isTime, hk]
        have hl' := listing_update s order hl u hT
        rw [anyRunning_listing (applyUpdate s u) _ order hl' endT]
        cases har : anyRunning (applyUpdate s u) endT with
        | true => simp only [if_true]; exact ih _ _ hl'
        | false => simp [outcome]

/-- **the translated loop = the model's loop**, composed: what the regenerated `while` loop of `Composition.run`
    computes on the model world is `runLoopOrd` -/
theorem code_run_loop_is_model (order : List Nat) (hne : order ≠ []) (endT : Int) (n : Nat) (s : State)
    (acc : List (Nat × Int)) (hl : Listing s order) :
    Tr.run_loop (s, acc) order endT timeOfM finOfM updM checkM n = outcome (runLoopOrd order n s endT acc) := by
  rw [tr_run_loop, loopSpec_model order hne endT n s acc hl]

end Finam.Props.RunLoop
