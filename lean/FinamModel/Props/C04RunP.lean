import FinamModel.Props.C04Run
/-!
  C04, second sentence, with **pull-based components on the cycles**.

  `C04Run.lean` proves "enough delay ⇒ the run completes" for compositions of time-stepped components.  Here the
  potential argument is extended to dependency walks that pass through pull-based components (which have no time of
  their own: they are explored for the time their consumer asks for).

  * a pull-based component counts with step bound 0 in the potential condition
    `π p + M c − delay(link) ≤ π c`  (`Mc' c = Mc c` for time-stepped `c`, `0` for pull-based `c`);
  * the level of a node of the walk is `now(c) + π c` for a time-stepped component and `t + π c` for a pull-based
    component explored for `t`;
  * a `DelayFixed` adapter clamps a request at its `initial_time`; `T0` is a time at or before every component time and
    at or after every clamp on links that leave pull-based components.  A pull-based component explored for a time
    `≤ T0` ("low") can only lead to low pull-based components: nothing time-stepped lags behind a time `≤ T0`;
  * every pull-based component is read by one component only (`UniqueConsumer`).  Without this the driver itself
    breaks the property: see the finding `pull-reentry-circular` (a pull-based component on a delay-resolved ring that
    is also read from outside the ring is "on the chain" when the walk re-enters it for an earlier time, and a
    circular coupling is reported although every cycle carries enough delay).  With it, a cycle through a pull-based
    component is also a cycle through its consumer, and so on up to a time-stepped component.

  Then no cycle of lagging dependencies exists (`no_lag_cycleP`), hence no circular-coupling error (`no_circularP`),
  and the invariant is preserved by updates (`cycOkP_update`), so the run completes (`sufficient_delay_run_completesP`).
-/
namespace Finam.Props.C04RunP
open Finam Finam.Props.C05Run Finam.Props.C03Run Finam.Props.C04Run

def McP (s : State) (Mc : Nat → Int) (c : Nat) : Int := if (s.comp c).isTime then Mc c else 0

/-- lower bound of the clamps on a link, by the kind of the producing component -/
def clampBound (s : State) (T0 : Int) (o : Nat) : Int :=
  if (s.comp (s.out o).owner).isTime then getNow (s.comp (s.out o).owner) else T0

structure CycOkP (M T0 : Int) (Mc π : Nat → Int) (s : State) : Prop where
  wft : WFT M s
  notFin : ∀ c, isFinished (s.comp c) = false
  simple : ∀ c l, l ∈ (s.comp c).inputs → ∀ a ∈ l.ads, adSimple a = true
  stepc : ∀ c, c < s.comps.length → (s.comp c).isTime = true →
    getNext (s.comp c) ≤ getNow (s.comp c) + Mc c ∧ ∀ x ∈ (s.comp c).steps, x ≤ Mc c
  low : ∀ c, c < s.comps.length → (s.comp c).isTime = true → T0 ≤ getNow (s.comp c)
  inits : ∀ c l, l ∈ (s.comp c).inputs → initsLe (clampBound s T0 l.src) l.ads
  potential : ∀ c l, l ∈ (s.comp c).inputs → l.static = false →
    π (s.out l.src).owner + McP s Mc c - delayOf l.ads ≤ π c

/-- the time a node of the walk stands for -/
def base (s : State) (n : Nat × Option Int) : Int :=
  if (s.comp n.1).isTime then getNow (s.comp n.1) else n.2.getD 0

def lvl (s : State) (π : Nat → Int) (n : Nat × Option Int) : Int := base s n + π n.1

/-- a pull-based component explored for a time at or before `T0` -/
def Low (s : State) (T0 : Int) (n : Nat × Option Int) : Prop := (s.comp n.1).isTime = false ∧ n.2.getD 0 ≤ T0

theorem comp_lt_of_input {s : State} {c : Nat} {l : Link} (hl : l ∈ (s.comp c).inputs) : c < s.comps.length := by
  rcases Nat.lt_or_ge c s.comps.length with h | h
  · exact h
  · rw [comp_default s c h] at hl; cases hl

theorem target_le {M T0 : Int} {Mc π : Nat → Int} {s : State} (h : CycOkP M T0 Mc π s)
    (c : Nat) (tgt : Option Int) (hc : c < s.comps.length) :
    C04.targetOf s c tgt ≤ base s (c, tgt) + McP s Mc c := by
  unfold base McP C04.targetOf
  cases hk : (s.comp c).kind with
  | pull => simp [Comp.isTime, hk]
  | time nw nx f =>
    have hT : (s.comp c).isTime = true := by simp [Comp.isTime, hk]
    have := (h.stepc c hc hT).1
    simp only [getNext, getNow, hk] at this
    simp [Comp.isTime, hk, getNow]; omega

/-- every edge of the dependency walk: a low node only leads to low nodes; otherwise the target is low, or the level
    does not increase — and strictly decreases when the target is a lagging time-stepped component -/
theorem edge_cases {M T0 : Int} {Mc π : Nat → Int} {s : State} (h : CycOkP M T0 Mc π s)
    {a b : Nat × Option Int} (he : C04.Edge s a b) :
    (Low s T0 a → Low s T0 b) ∧
    (Low s T0 b ∨ (lvl s π b ≤ lvl s π a ∧ ((s.comp b.1).isTime = true → lvl s π b < lvl s π a))) := by
  cases he with
  | time c tgt o lt hmem hT hlag =>
    obtain ⟨l, hl, hst, hsrc, hn, _⟩ := C02.findDeps_mem_link s c _ o lt hmem
    have hc := comp_lt_of_input hl
    rw [need_simple s.dp l.ads _ (h.simple c l hl)] at hn
    have ho : o < s.outs.length := by rw [← hsrc]; exact h.wft.srcLt c l hl
    have hot := h.wft.outTime o ho hT
    have hin := h.inits c l hl
    rw [hsrc] at hin
    simp only [clampBound, hT, if_true] at hin
    have hpot := h.potential c l hl hst
    rw [hsrc] at hpot
    have htl := target_le h c tgt hc
    have hle := need_le [] l.ads _ lt (h.wft.ads c l hl) hn
    have hown : (s.out o).owner < s.comps.length := h.wft.owners o
    have hlowp := h.low _ hown hT
    constructor
    · -- from a low node nothing time-stepped lags
      intro ⟨hP, hlo⟩
      exfalso
      have : C04.targetOf s c tgt = tgt.getD 0 := by
        unfold C04.targetOf; cases hk : (s.comp c).kind with
        | pull => rfl
        | time _ _ _ => simp [Comp.isTime, hk] at hP
      rw [this] at hle
      simp only at hlo
      omega
    · right
      have hb : base s ((s.out o).owner, none) = getNow (s.comp (s.out o).owner) := by simp [base, hT]
      rcases need_le_delay l.ads _ lt _ (h.simple c l hl) hin hn with h1 | h1
      · simp only [lvl, hb]
        constructor
        · omega
        · intro _; omega
      · omega
  | pull c tgt o lt hmem hP =>
    obtain ⟨l, hl, hst, hsrc, hn, _⟩ := C02.findDeps_mem_link s c _ o lt hmem
    have hc := comp_lt_of_input hl
    rw [need_simple s.dp l.ads _ (h.simple c l hl)] at hn
    have hin := h.inits c l hl
    rw [hsrc] at hin
    simp only [clampBound, hP, Bool.false_eq_true, if_false] at hin
    have hpot := h.potential c l hl hst
    rw [hsrc] at hpot
    have htl := target_le h c tgt hc
    have hle := need_le [] l.ads _ lt (h.wft.ads c l hl) hn
    constructor
    · intro ⟨hPc, hlo⟩
      refine ⟨hP, ?_⟩
      have : C04.targetOf s c tgt = tgt.getD 0 := by
        unfold C04.targetOf; cases hk : (s.comp c).kind with
        | pull => rfl
        | time _ _ _ => simp [Comp.isTime, hk] at hPc
      rw [this] at hle
      simp only [Option.getD_some] at hlo ⊢
      omega
    · rcases need_le_delay l.ads _ lt _ (h.simple c l hl) hin hn with h1 | h1
      · right
        have hb : base s ((s.out o).owner, some lt) = lt := by simp [base, hP]
        simp only [lvl, hb]
        constructor
        · omega
        · intro hT'; rw [hP] at hT'; cases hT'
      · left; exact ⟨hP, by simpa using h1⟩

theorem star_low {M T0 : Int} {Mc π : Nat → Int} {s : State} (h : CycOkP M T0 Mc π s)
    {a b : Nat × Option Int} (hs : C04.Star s a b) (ha : Low s T0 a) : Low s T0 b := by
  induction hs with
  | refl => exact ha
  | step e _ ih => exact ih ((edge_cases h e).1 ha)

/-- along a walk that ends at a node that is not low, no node is low and the level does not increase -/
theorem star_lvl {M T0 : Int} {Mc π : Nat → Int} {s : State} (h : CycOkP M T0 Mc π s)
    {a b : Nat × Option Int} (hs : C04.Star s a b) (hb : ¬ Low s T0 b) : lvl s π b ≤ lvl s π a := by
  induction hs with
  | refl => exact Int.le_refl _
  | @step a m b e rest ih =>
    have hm : ¬ Low s T0 m := fun hl => hb (star_low h rest hl)
    rcases (edge_cases (π := π) h e).2 with hl | ⟨h1, _⟩
    · exact absurd hl hm
    · have := ih hb; omega

/-! ### no cycle of lagging dependencies -/

/-- the walk read from its end -/
inductive StarR (s : State) (a : Nat × Option Int) : (Nat × Option Int) → Prop where
  | refl : StarR s a a
  | snoc {y b} : StarR s a y → C04.Edge s y b → StarR s a b

theorem starR_trans_edge {s : State} {a y b : Nat × Option Int} (e : C04.Edge s a y) (h : StarR s y b) : StarR s a b := by
  induction h with
  | refl => exact .snoc .refl e
  | snoc _ e' ih => exact .snoc ih e'

theorem star_to_starR {s : State} {a b : Nat × Option Int} (h : C04.Star s a b) : StarR s a b := by
  induction h with
  | refl => exact .refl
  | step e _ ih => exact starR_trans_edge e ih

theorem starR_to_star {s : State} {a b : Nat × Option Int} (h : StarR s a b) : C04.Star s a b := by
  induction h with
  | refl => exact .refl _
  | snoc _ e ih => exact C04.Star.trans ih (.step e (.refl _))

/-- a walk with at least one edge ends with an edge -/
theorem edge_star_last {s : State} {m b : Nat × Option Int} (hs : C04.Star s m b) :
    ∀ a, C04.Edge s a m → ∃ y, C04.Star s a y ∧ C04.Edge s y b := by
  induction hs with
  | refl => intro a e; exact ⟨a, .refl a, e⟩
  | step e2 _ ih =>
    intro a e
    obtain ⟨y, hy, he⟩ := ih _ e2
    exact ⟨y, .step e hy, he⟩

theorem plus_last {s : State} {a b : Nat × Option Int} (h : C04.Plus s a b) :
    ∃ y, C04.Star s a y ∧ C04.Edge s y b := by
  cases h with
  | mk e hs => exact edge_star_last hs _ e

/-- **a time-stepped component is never on a cycle of lagging dependencies** -/
theorem no_time_cycle {M T0 : Int} {Mc π : Nat → Int} {s : State} (h : CycOkP M T0 Mc π s)
    (x : Nat) (t1 t2 : Option Int) (hT : (s.comp x).isTime = true) : ¬ C04.Plus s (x, t1) (x, t2) := by
  intro hp
  obtain ⟨y, hy, he⟩ := plus_last hp
  have hnl : ¬ Low s T0 (x, t2) := by intro hl; rw [hl.1] at hT; cases hT
  have hny : ¬ Low s T0 y := fun hl => hnl ((edge_cases (π := π) h he).1 hl)
  have h1 := star_lvl (π := π) h hy hny
  rcases (edge_cases (π := π) h he).2 with hl | ⟨_, h2⟩
  · exact hnl hl
  · have := h2 hT
    have e1 : lvl s π (x, t1) = lvl s π (x, t2) := by simp [lvl, base, hT]
    omega

/-- what an edge says about the graph: the target owns an output that a link of the source reads -/
theorem edge_link {s : State} {a b : Nat × Option Int} (e : C04.Edge s a b) :
    ∃ l ∈ (s.comp a.1).inputs, (s.out l.src).owner = b.1 := by
  cases e with
  | time c tgt o lt hmem _ _ =>
    obtain ⟨l, hl, _, hsrc, _, _⟩ := C02.findDeps_mem_link s c _ o lt hmem
    exact ⟨l, hl, by rw [hsrc]⟩
  | pull c tgt o lt hmem _ =>
    obtain ⟨l, hl, _, hsrc, _, _⟩ := C02.findDeps_mem_link s c _ o lt hmem
    exact ⟨l, hl, by rw [hsrc]⟩

/-- every pull-based component is read by one component only (it may read several of its outputs) -/
def UniqueConsumer (s : State) : Prop :=
  ∀ c l c' l', l ∈ (s.comp c).inputs → l' ∈ (s.comp c').inputs →
    (s.out l.src).owner = (s.out l'.src).owner → (s.comp (s.out l.src).owner).isTime = false → c = c'

/-- **No cycle of lagging dependencies is reachable from a time-stepped component**: a cycle through a pull-based
    component would also be a cycle through its only consumer, and so on up to a time-stepped component. -/
theorem no_lag_cycleP {M T0 : Int} {Mc π : Nat → Int} {s : State} (h : CycOkP M T0 Mc π s)
    (hu : UniqueConsumer s) (c : Nat) (hc : (s.comp c).isTime = true) :
    ∀ b, StarR s (c, none) b → ∀ t2, ¬ C04.Plus s b (b.1, t2) := by
  intro b hb
  induction hb with
  | refl => intro t2; exact no_time_cycle h c none t2 hc
  | @snoc y b hy e ih =>
    intro t2 hp
    by_cases hT : (s.comp b.1).isTime = true
    · exact no_time_cycle h b.1 b.2 t2 hT hp
    · simp only [Bool.not_eq_true] at hT
      -- the last edge of the cycle comes from the same component as `y`
      obtain ⟨y', hy', he'⟩ := plus_last hp
      obtain ⟨l, hl, hlo⟩ := edge_link e
      obtain ⟨l', hl', hlo'⟩ := edge_link he'
      have hsame : y.1 = y'.1 := hu y.1 l y'.1 l' hl hl' (by rw [hlo, hlo']) (by rw [hlo]; exact hT)
      have hcyc : C04.Plus s y (y.1, y'.2) := by
        have : (y.1, y'.2) = y' := by rw [hsame]
        rw [this]
        exact .mk e hy'
      exact ih y'.2 hcyc

/-- **No circular-coupling error** with pull-based components on the cycles. -/
theorem no_circularP {M T0 : Int} {Mc π : Nat → Int} {s : State} (h : CycOkP M T0 Mc π s)
    (hu : UniqueConsumer s) (fuel c : Nat) (hc : (s.comp c).isTime = true) :
    updateRec s fuel c [] none ≠ .error .circular := by
  intro he
  obtain ⟨x, t1, t2, hs, hp⟩ := C04.circular_sound s fuel c he
  exact no_lag_cycleP h hu c hc (x, t1) (star_to_starR hs) t2 hp

/-! ### the invariant is preserved by updates; the run completes -/

theorem uniqueConsumer_update {s : State} (hu : UniqueConsumer s) (hw : ∀ c l, l ∈ (s.comp c).inputs → l.src < s.outs.length)
    (u : Nat) (hul : u < s.comps.length) (hT : (s.comp u).isTime = true) : UniqueConsumer (applyUpdate s u) := by
  intro c l c' l' hl hl' hown hP
  rw [applyUpdate_inputs s u hul hT c] at hl
  rw [applyUpdate_inputs s u hul hT c'] at hl'
  have ho := hw c l hl
  have ho' := hw c' l' hl'
  have e1 : ((applyUpdate s u).out l.src).owner = (s.out l.src).owner := by
    rw [applyUpdate_out s u hT l.src ho]; split <;> rfl
  have e2 : ((applyUpdate s u).out l'.src).owner = (s.out l'.src).owner := by
    rw [applyUpdate_out s u hT l'.src ho']; split <;> rfl
  rw [e1, e2] at hown
  rw [e1, applyUpdate_comp s u hul hT] at hP
  refine hu c l c' l' hl hl' hown ?_
  by_cases hou : (s.out l.src).owner = u
  · simp only [hou, if_true, adv1_isTime] at hP; rw [hT] at hP; cases hP
  · simpa only [hou, if_false] using hP

theorem isTime_update {s : State} (u : Nat) (hul : u < s.comps.length) (hT : (s.comp u).isTime = true) (c : Nat) :
    ((applyUpdate s u).comp c).isTime = (s.comp c).isTime := by
  rw [applyUpdate_comp s u hul hT c]
  by_cases hcu : c = u
  · subst hcu; simp only [if_true, adv1_isTime]
  · simp only [hcu, if_false]

theorem cycOkP_update {M T0 : Int} {Mc π : Nat → Int} {s : State} (h : CycOkP M T0 Mc π s) (hMc : ∀ c, 1 ≤ Mc c) (u : Nat)
    (hu : u < s.comps.length) (hT : (s.comp u).isTime = true) : CycOkP M T0 Mc π (applyUpdate s u) where
  wft := wft_update h.wft u hu hT
  notFin := by
    intro c
    rw [applyUpdate_comp s u hu hT c]
    split
    · rw [adv1_fin]; exact h.notFin u
    · exact h.notFin c
  simple := by
    intro c l hl
    rw [applyUpdate_inputs s u hu hT c] at hl
    exact h.simple c l hl
  stepc := by
    intro c hc hTc
    rw [applyUpdate_len] at hc
    rw [isTime_update u hu hT c] at hTc
    rw [applyUpdate_comp s u hu hT c]
    by_cases hcu : c = u
    · subst hcu
      simp only [if_true]
      have hs := h.stepc c hc hTc
      refine ⟨?_, by rw [adv1_steps]; exact hs.2⟩
      unfold adv1
      cases hk : (s.comp c).kind with
      | pull => simp [Comp.isTime, hk] at hT
      | time nw nx fin =>
        simp only [getNow, getNext]
        by_cases he : (s.comp c).steps.isEmpty = true
        · simp only [he, if_true]; have := hMc c; omega
        · simp only [he]
          have hlen : 0 < (s.comp c).steps.length := by
            cases hs' : (s.comp c).steps with
            | nil => simp [hs'] at he
            | cons a l => simp
          have hlt : ((s.comp c).k + 1) % (s.comp c).steps.length < (s.comp c).steps.length := Nat.mod_lt _ hlen
          have : (s.comp c).steps.getD (((s.comp c).k + 1) % (s.comp c).steps.length) 1 =
              (s.comp c).steps[((s.comp c).k + 1) % (s.comp c).steps.length] := by
            simp [List.getD_eq_getElem?_getD, List.getElem?_eq_getElem hlt]
          have hb := hs.2 _ (List.getElem_mem hlt)
          simp only [Bool.false_eq_true, if_false]
          omega
    · simp only [hcu, if_false]; exact h.stepc c hc hTc
  low := by
    intro c hc hTc
    rw [applyUpdate_len] at hc
    rw [isTime_update u hu hT c] at hTc
    rw [applyUpdate_comp s u hu hT c]
    by_cases hcu : c = u
    · subst hcu
      simp only [if_true, adv1_now]
      have := h.low c hc hTc
      have hpos := (h.wft.steps c hc hTc).1
      omega
    · simp only [hcu, if_false]; exact h.low c hc hTc
  inits := by
    intro c l hl
    rw [applyUpdate_inputs s u hu hT c] at hl
    have ho := h.wft.srcLt c l hl
    have hold := h.inits c l hl
    have howner : ((applyUpdate s u).out l.src).owner = (s.out l.src).owner := by
      rw [applyUpdate_out s u hT l.src ho]; split <;> rfl
    unfold clampBound at hold ⊢
    rw [howner, isTime_update u hu hT, applyUpdate_comp s u hu hT _]
    intro a ha
    have := hold a ha
    by_cases hTo : (s.comp (s.out l.src).owner).isTime = true
    · simp only [hTo, if_true] at this ⊢
      by_cases hou : (s.out l.src).owner = u
      · simp only [hou, if_true, adv1_now]
        rw [hou] at this
        have hpos := (h.wft.steps u hu hT).1
        cases a with
        | dfix d i => simp only at this ⊢; omega
        | _ => trivial
      · simp only [hou, if_false]; exact this
    · simp only [hTo, Bool.false_eq_true, if_false] at this ⊢; exact this
  potential := by
    intro c l hl hst
    rw [applyUpdate_inputs s u hu hT c] at hl
    have ho := h.wft.srcLt c l hl
    have howner : ((applyUpdate s u).out l.src).owner = (s.out l.src).owner := by
      rw [applyUpdate_out s u hT l.src ho]; split <;> rfl
    have hM : McP (applyUpdate s u) Mc c = McP s Mc c := by unfold McP; rw [isTime_update u hu hT c]
    rw [howner, hM]; exact h.potential c l hl hst

/-- **A composition whose cycles carry enough delay runs to completion — with pull-based components on the cycles**
    (each read by one component).  From a state in which something is behind the end time, with fuel above the
    potential of `C03Run.run_terminates`, the run loop ends `.done`: no circular-coupling error, no other error, no
    exhaustion. -/
theorem sufficient_delay_run_completesP {M T0 : Int} {Mc π : Nat → Int} (hMc : ∀ c, 1 ≤ Mc c) (endT : Int) :
    ∀ (fuel : Nat) (s : State) (acc : List (Nat × Int)), CycOkP M T0 Mc π s → UniqueConsumer s →
    anyRunning s endT = true → phi (bound M endT s) s < fuel → (runLoop fuel s endT acc).2.1 = .done := by
  intro fuel
  induction fuel with
  | zero => intro s acc _ _ _ h; omega
  | succ n ih =>
    intro s acc hc huq hrun hphi
    obtain ⟨c, hcl, nw, nx, f, hkc, hlt⟩ := anyRunning_witness s endT hrun
    simp only [runLoop]
    cases hsel : select s with
    | none => simp
    | some c0 =>
      simp only []
      obtain ⟨hc0, hT0, hmin, _⟩ := C02.select_least s c0 hsel
      have hnow0 : getNow (s.comp c0) < endT := by
        have := hmin c hcl (by simp [Comp.isTime, hkc])
        have e : getNow (s.comp c) = nw := by simp only [getNow, hkc]
        omega
      cases hr : updateRec s (s.comps.length + 1) c0 [] none with
      | error e =>
        exfalso
        cases e with
        | circular => exact no_circularP hc huq _ c0 hT0 hr
        | finished => exact (not_finished_aux s hc.notFin _).1 c0 [] none hr
        | fuel => exact C04.run_call_never_out_of_fuel s hc.wft.owners c0 hc0 hr
      | ok r =>
        cases r with
        | none => exact absurd hr (time_not_none s _ c0 [] none hT0)
        | some u =>
          simp only []
          obtain ⟨hu, hTu, hbelow⟩ := updated_below hc.wft endT c0 u hc0 hT0 hnow0 hr
          by_cases hrun' : anyRunning (applyUpdate s u) endT = true
          · simp only [hrun', if_true]
            apply ih _ _ (cycOkP_update hc hMc u hu hTu) (uniqueConsumer_update huq hc.wft.srcLt u hu hTu) hrun'
            have hb : bound M endT (applyUpdate s u) = bound M endT s := by simp only [bound, applyUpdate_len]
            rw [hb]
            have := phi_update hc.wft (bound M endT s) u hu hTu hbelow
            omega
          · simp [hrun']

/-! ### non-vacuity: the ring  T(step 2) >> P(pull-based) >> DelayFixed(3) >> T -/

def exRingP : State :=
  { comps := [⟨.time 0 2 false, [⟨[.dfix 3 0], 1, false⟩], [2], 0⟩,
              ⟨.pull, [⟨[], 0, false⟩], [], 0⟩],
    outs := [⟨0, 0⟩, ⟨1, 0⟩], dp := [] }

def exMcP : Nat → Int := fun _ => 2
def exPiP : Nat → Int := fun _ => 0

theorem exRingP_comp_ge (c : Nat) (h : 2 ≤ c) : exRingP.comp c = ⟨.pull, [], [], 0⟩ :=
  comp_default exRingP c (by simpa [exRingP] using h)

theorem exRingP_wft : WFT 2 exRingP where
  mpos := by decide
  steps := by
    intro c hc hT
    have : c = 0 ∨ c = 1 := by simp [exRingP] at hc; omega
    rcases this with h | h <;> subst h
    · refine ⟨?_, ?_, ?_⟩ <;> simp [exRingP, State.comp, getNow, getNext]
    · simp [exRingP, State.comp, Comp.isTime] at hT
  ads := by
    intro c l hl a ha
    rcases Nat.lt_or_ge c 2 with h | h
    · have : c = 0 ∨ c = 1 := by omega
      rcases this with h | h <;> subst h <;> simp [exRingP, State.comp] at hl <;> subst hl <;> simp at ha
      subst ha; simp [C01.Ad.wf]
    · rw [exRingP_comp_ge c h] at hl; cases hl
  owners := by
    intro o
    rcases Nat.lt_or_ge o 2 with h | h
    · have : o = 0 ∨ o = 1 := by omega
      rcases this with h | h <;> subst h <;> simp [exRingP, State.out]
    · rw [out_default exRingP o (by simpa [exRingP] using h)]; simp [exRingP]
  srcLt := by
    intro c l hl
    rcases Nat.lt_or_ge c 2 with h | h
    · have : c = 0 ∨ c = 1 := by omega
      rcases this with h | h <;> subst h <;> simp [exRingP, State.comp] at hl <;> subst hl <;> simp [exRingP]
    · rw [exRingP_comp_ge c h] at hl; cases hl
  outTime := by
    intro o ho hT
    have : o = 0 ∨ o = 1 := by simp [exRingP] at ho; omega
    rcases this with h | h <;> subst h
    · rfl
    · simp [exRingP, State.comp, State.out, Comp.isTime] at hT

theorem exRingP_ok : CycOkP 2 0 exMcP exPiP exRingP where
  wft := exRingP_wft
  notFin := by
    intro c
    rcases Nat.lt_or_ge c 2 with h | h
    · have : c = 0 ∨ c = 1 := by omega
      rcases this with h | h <;> subst h <;> rfl
    · rw [exRingP_comp_ge c h]; rfl
  simple := by
    intro c l hl a ha
    rcases Nat.lt_or_ge c 2 with h | h
    · have : c = 0 ∨ c = 1 := by omega
      rcases this with h | h <;> subst h <;> simp [exRingP, State.comp] at hl <;> subst hl <;> simp at ha
      subst ha; rfl
    · rw [exRingP_comp_ge c h] at hl; cases hl
  stepc := by
    intro c hc hT
    have : c = 0 ∨ c = 1 := by simp [exRingP] at hc; omega
    rcases this with h | h <;> subst h
    · simp [exRingP, State.comp, getNow, getNext, exMcP]
    · simp [exRingP, State.comp, Comp.isTime] at hT
  low := by
    intro c hc hT
    have : c = 0 ∨ c = 1 := by simp [exRingP] at hc; omega
    rcases this with h | h <;> subst h
    · simp [exRingP, State.comp, getNow]
    · simp [exRingP, State.comp, Comp.isTime] at hT
  inits := by
    intro c l hl a ha
    rcases Nat.lt_or_ge c 2 with h | h
    · have : c = 0 ∨ c = 1 := by omega
      rcases this with h | h <;> subst h <;> simp [exRingP, State.comp] at hl <;> subst hl <;> simp at ha
      subst ha; simp [clampBound, exRingP, State.comp, State.out, Comp.isTime]
    · rw [exRingP_comp_ge c h] at hl; cases hl
  potential := by
    intro c l hl _
    rcases Nat.lt_or_ge c 2 with h | h
    · have : c = 0 ∨ c = 1 := by omega
      rcases this with h | h <;> subst h <;> simp [exRingP, State.comp] at hl <;> subst hl <;>
        simp [exRingP, State.out, State.comp, exMcP, exPiP, delayOf, McP, Comp.isTime]
    · rw [exRingP_comp_ge c h] at hl; cases hl

theorem exRingP_uniq : UniqueConsumer exRingP := by
  intro c l c' l' hl hl' hown hP
  rcases Nat.lt_or_ge c 2 with h | h
  · rcases Nat.lt_or_ge c' 2 with h' | h'
    · have hc : c = 0 ∨ c = 1 := by omega
      have hc' : c' = 0 ∨ c' = 1 := by omega
      rcases hc with e | e <;> rcases hc' with e' | e' <;> subst e <;> subst e' <;>
        simp [exRingP, State.comp] at hl hl' <;> subst hl <;> subst hl' <;>
        simp [exRingP, State.out, State.comp, Comp.isTime] at hown hP ⊢
    · rw [exRingP_comp_ge c' h'] at hl'; cases hl'
  · rw [exRingP_comp_ge c h] at hl; cases hl

/-- the ring through the pull-based component never reports a circular coupling and runs to completion (end time 8) -/
example : ∀ acc, (runLoop 40 exRingP 8 acc).2.1 = .done :=
  fun acc => sufficient_delay_run_completesP (M := 2) (T0 := 0) (Mc := exMcP) (π := exPiP)
    (fun c => by simp [exMcP]) 8 40 exRingP acc exRingP_ok exRingP_uniq (by decide) (by decide)

/-! ### why `UniqueConsumer` is needed: the finding `pull-reentry-circular`

`T(step 2) >> P(pull-based) >> DelayFixed(3) >> T` as above, plus a component `C(step 5)` that also reads `P`.  The only
cycle carries enough delay (3 ≥ 2) and the potential condition holds, but the dependency walk from `C` explores `P` for
`C`'s time, finds `T` lagging, and from `T` reaches `P` again (for the delayed, earlier time) while `P` is still on the
chain: a circular coupling is reported.  The model mirrors the code here (the real package raises
`FinamCircularCouplingError` on this composition — replayed by the C04 check on every run). -/

def exTail : State :=
  { comps := [⟨.time 0 2 false, [⟨[.dfix 3 0], 1, false⟩], [2], 0⟩,
              ⟨.pull, [⟨[], 0, false⟩], [], 0⟩,
              ⟨.time 0 5 false, [⟨[], 1, false⟩], [5], 0⟩],
    outs := [⟨0, 0⟩, ⟨1, 0⟩], dp := [] }

/-- the potential condition of "enough delay" holds on every link (π = 0 everywhere, steps 2 / 0 / 5) … -/
example : (0 : Int) + 2 - 3 ≤ 0 ∧ (0 : Int) + 0 - 0 ≤ 0 := by decide

/-- … `C` is not the only reader of `P` … -/
example : ¬ UniqueConsumer exTail := by
  intro h
  have := h 0 ⟨[.dfix 3 0], 1, false⟩ 2 ⟨[], 1, false⟩ (by simp [exTail, State.comp]) (by simp [exTail, State.comp]) rfl
    (by simp [exTail, State.comp, State.out, Comp.isTime])
  cases this

/-- … and the walk started for `C` (the run loop's second choice; `T` goes first and is fine) reports a cycle -/
theorem pull_reentry_witness : updateRec exTail 4 2 [] none = .error .circular := by
  simp [updateRec, depsLoop, findDeps, exTail, State.comp, State.out, walk, depsInsert, Comp.isTime, Ad.withDelay, imin]

end Finam.Props.C04RunP
