import FinamModel.Validate
import FinamModel.Translated.check_input_connected
import FinamModel.Translated.check_dead_links
import FinamModel.Translated.check_branching
/-
  Equivalence of the translated topology checks `_check_input_connected`, `_check_dead_links` and
  `_check_branching` (regenerated from `finam/schedule.py` on every run) with the hand-written forest model
  `Finam.Validate` of the C19 theorems.  The Python functions walk an object graph along `source` / `targets`;
  `ObjPath` / `TreeRepr` say when the objects of a heap represent a path / a tree of the model.
-/
namespace Finam.Props.C19
open Finam Finam.Py Finam.Validate

/-- the flags of object `x` as the model's `Elem` -/
def elemOf (h : Heap) (x : Nat) : Elem :=
  ⟨!(h.isInput x), h.needsPush x, h.needsPull x, h.isNoBranch x, h.isStatic x⟩

/-- the objects `objs` (an input first, then what `source` yields) carry the flags of the path `q`
    (the model's path root → input, reversed); every element but the last is an `IInput` with a source -/
def ObjPath (h : Heap) : List Nat → List Tree → Prop
  | [x], [t] => elemOf h x = t.elem ∧ (h.isInput x = !t.isSource) ∧ (h.isInput x = true → h.hasSource x = false)
  | x :: y :: os, t :: t' :: r =>
      elemOf h x = t.elem ∧ h.isInput x = true ∧ h.hasSource x = true ∧ h.source x = y ∧ ObjPath h (y :: os) (t' :: r)
  | _, _ => False

theorem objPath_head (h : Heap) (objs : List Nat) (q : List Tree) (x : Nat) (hp : ObjPath h objs q)
    (hx : objs.head? = some x) : ∀ t, q.head? = some t → elemOf h x = t.elem := by
  intro t ht
  cases objs with
  | nil => simp at hx
  | cons a os =>
    simp at hx; subst hx
    cases q with
    | nil => simp at ht
    | cons t' ts =>
      simp at ht; subst ht
      cases os <;> cases ts <;> simp [ObjPath] at hp <;> exact hp.1

/-- the model's `checkInputConnected` once the path is known -/
def checkConnectedPath : List Tree → Except Rule Unit
  | [] => .error .unconnected
  | r :: rest =>
    if !r.isSource then .error .unconnected
    else if ((r :: rest).getLast?.getD r).elem.static && !r.elem.static then .error .staticSrc
    else .ok ()

theorem checkInputConnected_path (F : List Tree) (i : Pos) :
    checkInputConnected F i = match fwalk F i with
      | none => .error .unconnected
      | some p => checkConnectedPath p := by
  unfold checkInputConnected
  cases fwalk F i with
  | none => rfl
  | some p => cases p <;> rfl

/-- the walk `while isinstance(inp, IInput): if inp.source is None: raise …; inp = inp.source` -/
theorem connected_walk (h : Heap) : ∀ (objs : List Nat) (q : List Tree) (wf : Nat), ObjPath h objs q → objs.length < wf →
    ∃ x root, objs.head? = some x ∧ q.getLast? = some root ∧
      Tr.check_input_connected.while1 h x wf =
        (if root.isSource then .ok (objs.getLast?.getD 0) else .error .connectErr) ∧
      (root.isSource = true → elemOf h (objs.getLast?.getD 0) = root.elem) := by
  intro objs
  induction objs with
  | nil => intro q wf hp; cases q <;> simp [ObjPath] at hp
  | cons x os ih =>
    intro q wf hp hw
    match wf, hw with
    | wf + 1, hw =>
      cases os with
      | nil =>
        match q, hp with
        | [t], hp =>
          obtain ⟨he, hi, hs⟩ := hp
          refine ⟨x, t, rfl, by simp, ?_, by intro _; simpa using he⟩
          rw [Tr.check_input_connected.while1]
          cases hsrc : t.isSource with
          | true => simp [hsrc] at hi; simp [hi]
          | false => simp [hsrc] at hi; simp [hi, hs hi]
      | cons y os' =>
        match q, hp with
        | t :: t' :: r, hp =>
          obtain ⟨he, hi, hs, hy, hrest⟩ := hp
          obtain ⟨x', root, h1, h2, h3, h4⟩ := ih (t' :: r) wf hrest (by simp at hw ⊢; omega)
          simp at h1; subst h1
          refine ⟨x, root, rfl, by simpa using h2, ?_, ?_⟩
          · rw [Tr.check_input_connected.while1]
            simp only [hi, if_true, hs, Bool.true_eq_false, if_false, hy]
            simpa using h3
          · intro hr; simpa using h4 hr

/-- **`_check_input_connected` is the model's check**: unconnected chains and static inputs behind non-static
    outputs are refused with a connect error, everything else passes — for every heap path that represents the
    model path `p` (root first). -/
theorem tr_check_input_connected (h : Heap) (objs : List Nat) (p : List Tree) (x : Nat)
    (hp : ObjPath h objs p.reverse) (hx : objs.head? = some x) (hlen : objs.length ≤ h.size) :
    Tr.check_input_connected h x =
      (match checkConnectedPath p with | .ok _ => .ok () | .error _ => .error .connectErr) := by
  obtain ⟨x', root, h1, h2, h3, h4⟩ := connected_walk h objs p.reverse (h.size + 1) hp (by omega)
  rw [hx] at h1; simp at h1; subst h1
  -- the root of `p` is the last element of the reversed path
  cases p with
  | nil => simp at h2
  | cons r rest =>
    have hroot : r = root := by simpa using h2
    subst hroot
    -- the input itself is the last element of `p`
    have hlast : elemOf h x = ((r :: rest).getLast?.getD r).elem := by
      have := objPath_head h objs (r :: rest).reverse x hp hx
      rw [List.head?_reverse] at this
      cases hl : (r :: rest).getLast? with
      | none => simp at hl
      | some t => rw [hl] at this; simpa using this t rfl
    unfold Tr.check_input_connected
    simp only [h3, checkConnectedPath]
    cases hsrc : r.isSource with
    | false => simp
    | true =>
      have he := h4 hsrc
      have hst : h.isStatic x = ((r :: rest).getLast?.getD r).elem.static := by rw [← hlast]; rfl
      have hrs : h.isStatic (objs.getLast?.getD 0) = r.elem.static := by rw [← he]; rfl
      simp only [if_true, ok_bind, hst, hrs, Bool.not_true, Bool.false_eq_true, if_false]
      cases h1 : ((r :: rest).getLast?.getD r).elem.static <;> cases h2 : r.elem.static <;> simp

/-! ### `_check_dead_links` -/

/-- the loop `for i, item in enumerate(reversed(chain))` is the model's `deadLoop` on the flags of the items -/
theorem dead_loop_tr (h : Heap) (chain : List Nat) : ∀ (items : List Nat) (k : Nat) (first : Int),
    match deadLoop (items.map (elemOf h)) k first with
    | some _ => Tr.check_dead_links.loop2 h chain first (enumFrom (k : Int) items) = .error .connectErr
    | none => ∃ f, Tr.check_dead_links.loop2 h chain first (enumFrom (k : Int) items) = .ok f := by
  intro items
  induction items with
  | nil => intro k first; simp [deadLoop, enumFrom, Tr.check_dead_links.loop2]
  | cons x xs ih =>
    intro k first
    simp only [List.map_cons, deadLoop, enumFrom]
    rw [Tr.check_dead_links.loop2]
    by_cases hc : first ≥ 0 ∧ (elemOf h x).needsPush = true
    · have hc' : first ≥ 0 ∧ h.needsPush x = true := hc
      simp [hc, hc']
    · have hc' : ¬ (first ≥ 0 ∧ h.needsPush x = true) := hc
      simp only [hc, hc', if_false]
      have := ih (k + 1) (if (elemOf h x).needsPull then (k : Int) else first)
      have hk : ((k + 1 : Nat) : Int) = (k : Int) + 1 := by omega
      rw [hk] at this
      cases hp : (elemOf h x).needsPull with
      | true =>
        have hp' : h.needsPull x = true := hp
        simp only [hp, if_true] at this
        simp only [hp', if_true]; exact this
      | false =>
        have hp' : h.needsPull x = false := hp
        simp only [hp, Bool.false_eq_true, if_false] at this
        simp only [hp', Bool.false_eq_true, if_false]; exact this

/-- the walk `while isinstance(inp, IInput): inp = inp.source; chain.append(inp)` collects the objects of a
    connected path -/
theorem dead_walk (h : Heap) : ∀ (objs : List Nat) (q : List Tree) (x : Nat) (acc : List Nat) (wf : Nat),
    ObjPath h objs q → objs.head? = some x → (∀ r, q.getLast? = some r → r.isSource = true) → objs.length < wf →
    ∃ last, Tr.check_dead_links.while1 h x (acc ++ [x]) wf = .ok (last, acc ++ objs) := by
  intro objs
  induction objs with
  | nil => intro q x acc wf hp; cases q <;> simp [ObjPath] at hp
  | cons a os ih =>
    intro q x acc wf hp hx hroot hw
    simp at hx; subst hx
    match wf, hw with
    | wf + 1, hw =>
      cases os with
      | nil =>
        match q, hp with
        | [t], hp =>
          obtain ⟨he, hi, hs⟩ := hp
          have := hroot t (by simp)
          simp [this] at hi
          refine ⟨a, ?_⟩
          rw [Tr.check_dead_links.while1]; simp [hi]
      | cons y os' =>
        match q, hp with
        | t :: t' :: r, hp =>
          obtain ⟨he, hi, hs, hy, hrest⟩ := hp
          obtain ⟨last, hl⟩ := ih (t' :: r) y (acc ++ [a]) wf hrest rfl
            (by intro r' hr'; exact hroot r' (by simpa using hr')) (by simp at hw ⊢; omega)
          refine ⟨last, ?_⟩
          rw [Tr.check_dead_links.while1]
          simp only [hi, if_true, hy, ok_bind]
          simpa using hl

theorem objPath_elems (h : Heap) : ∀ (objs : List Nat) (q : List Tree), ObjPath h objs q →
    objs.map (elemOf h) = q.map Tree.elem := by
  intro objs
  induction objs with
  | nil => intro q hp; cases q <;> simp [ObjPath] at hp
  | cons a os ih =>
    intro q hp
    cases os with
    | nil =>
      match q, hp with
      | [t], hp => simp [hp.1]
    | cons y os' =>
      match q, hp with
      | t :: t' :: r, hp =>
        obtain ⟨he, _, _, _, hrest⟩ := hp
        have := ih (t' :: r) hrest
        simp [he] at this ⊢
        exact this

/-- **`_check_dead_links` is the model's `deadLoop`** on every connected path: a connect error exactly when a
    pull-only element is followed downstream by an element that needs pushes. -/
theorem tr_check_dead_links (h : Heap) (objs : List Nat) (p : List Tree) (x : Nat)
    (hp : ObjPath h objs p.reverse) (hx : objs.head? = some x)
    (hroot : ∀ r, p.head? = some r → r.isSource = true) (hlen : objs.length ≤ h.size) :
    Tr.check_dead_links h x =
      (if (deadLoop (p.map Tree.elem) 0 (-1)).isSome then .error .connectErr else .ok ()) := by
  obtain ⟨last, hw⟩ := dead_walk h objs p.reverse x [] (h.size + 1) hp hx
    (by intro r hr; exact hroot r (by simpa [List.getLast?_reverse] using hr)) (by omega)
  have hel : objs.reverse.map (elemOf h) = p.map Tree.elem := by
    have := objPath_elems h objs p.reverse hp
    rw [List.map_reverse, this, ← List.map_reverse]; simp
  unfold Tr.check_dead_links
  simp only [List.nil_append] at hw
  simp only [hw, ok_bind, enumerate]
  have := dead_loop_tr h objs objs.reverse 0 (-1)
  rw [hel] at this
  have h0 : ((0 : Nat) : Int) = 0 := rfl
  rw [h0] at this
  cases hd : deadLoop (p.map Tree.elem) 0 (-1) with
  | none => rw [hd] at this; obtain ⟨f, hf⟩ := this; simp [hf]
  | some v => rw [hd] at this; simp [this]

/-! ### `_check_branching` -/

mutual
/-- object `x` of the heap is the root of tree `t`: adapters / outputs (`IOutput`) are nodes whose `targets` are
    the kids; plain inputs are leaves -/
def TreeRepr (h : Heap) : Nat → Tree → Prop
  | x, .input _ => h.isOutput x = false
  | x, .node e ks => h.isOutput x = true ∧ h.isNoBranch x = e.noBranch ∧ ListRepr h (h.targets x) ks
def ListRepr (h : Heap) : List Nat → List Tree → Prop
  | [], [] => True
  | x :: xs, t :: ts => TreeRepr h x t ∧ ListRepr h xs ts
  | _, _ => False
end

mutual
def tsize : Tree → Nat
  | .input _ => 1
  | .node _ ks => 1 + tsizeL ks
def tsizeL : List Tree → Nat
  | [] => 0
  | t :: ts => tsize t + tsizeL ts
end

/-- the Python work list (top = last element) against a list of model trees with their sticky flags (top first) -/
def WRepr (h : Heap) : List (Nat × Bool) → List (Tree × Bool) → Prop
  | [], [] => True
  | p :: ps, q :: qs => TreeRepr h p.1 q.1 ∧ q.1.isInput = false ∧ p.2 = q.2 ∧ WRepr h ps qs
  | _, _ => False

def wsize : List (Tree × Bool) → Nat
  | [] => 0
  | q :: qs => tsize q.1 + wsize qs

def wbad : List (Tree × Bool) → Bool
  | [] => false
  | q :: qs => q.1.branchBad q.2 || wbad qs

theorem listRepr_length (h : Heap) : ∀ xs ts, ListRepr h xs ts → xs.length = ts.length := by
  intro xs
  induction xs with
  | nil => intro ts hr; cases ts <;> simp [ListRepr] at hr ⊢
  | cons x xs ih => intro ts hr; cases ts with
    | nil => simp [ListRepr] at hr
    | cons t ts => simp [ListRepr] at hr; simp [ih ts hr.2]

/-- the `for target in curr_targets: if isinstance(target, IOutput): targets.append(...)` loop pushes the node kids
    (in order); as a reversed work list: they come on top in reverse order -/
theorem push_loop (h : Heap) (nb : Bool) (cur : List Nat) : ∀ (xs : List Nat) (ts : List Tree) (tg : Nat)
    (W : List (Nat × Bool)) (WT : List (Tree × Bool)), ListRepr h xs ts → WRepr h W.reverse WT →
    ∃ W' WT', Tr.check_branching.loop2 h W tg nb cur xs = .ok W' ∧ WRepr h W'.reverse WT' ∧
      wsize WT' ≤ wsize WT + tsizeL ts ∧ wbad WT' = (wbad WT || branchBadL nb ts) := by
  intro xs
  induction xs with
  | nil =>
    intro ts tg W WT hr hw
    cases ts with
    | nil => exact ⟨W, WT, rfl, hw, by simp [tsizeL], by simp [branchBadL]⟩
    | cons _ _ => simp [ListRepr] at hr
  | cons x xs ih =>
    intro ts tg W WT hr hw
    cases ts with
    | nil => simp [ListRepr] at hr
    | cons t ts =>
      obtain ⟨ht, hrest⟩ := hr
      rw [Tr.check_branching.loop2]
      cases t with
      | input e =>
        have hx : h.isOutput x = false := ht
        obtain ⟨W', WT', h1, h2, h3, h4⟩ := ih ts x W WT hrest hw
        refine ⟨W', WT', by simp [hx, h1], h2, by simp [tsizeL, tsize] at h3 ⊢; omega, ?_⟩
        simp [h4, branchBadL, Tree.branchBad]
      | node e ks =>
        have hx : h.isOutput x = true := ht.1
        have hw' : WRepr h (W ++ [(x, nb)]).reverse ((.node e ks, nb) :: WT) := by
          simp only [List.reverse_append, List.reverse_cons, List.reverse_nil, List.nil_append, List.cons_append]
          exact ⟨ht, rfl, rfl, hw⟩
        obtain ⟨W', WT', h1, h2, h3, h4⟩ := ih ts x (W ++ [(x, nb)]) ((.node e ks, nb) :: WT) hrest hw'
        refine ⟨W', WT', by simp [hx, h1], h2, by simp [tsizeL, wsize] at h3 ⊢; omega, ?_⟩
        simp only [h4, wbad, branchBadL]
        cases (Tree.node e ks).branchBad nb <;> cases wbad WT <;> simp

theorem popLast_append {α} (a : α) : ∀ (l : List α), popLast (l ++ [a]) = .ok (a, l) := by
  intro l
  induction l with
  | nil => rfl
  | cons x l ih =>
    cases l with
    | nil => simp [popLast, Except.map]
    | cons y l' =>
      have : (x :: y :: l') ++ [a] = x :: y :: (l' ++ [a]) := rfl
      rw [this, popLast]
      have ih' : popLast (y :: (l' ++ [a])) = .ok (a, y :: l') := ih
      rw [ih']; rfl

/-- the work-list loop of `_check_branching` answers the model's `branchBad` of everything on the list: a connect
    error iff some tree on the list branches at or below a no-branch element -/
theorem branching_loop (h : Heap) (out : Nat) : ∀ (n : Nat) (W : List (Nat × Bool)) (WT : List (Tree × Bool)) (wf : Nat),
    wsize WT ≤ n → WRepr h W.reverse WT → wsize WT < wf →
    (if wbad WT then Tr.check_branching.while1 h out W wf = .error .connectErr
     else Tr.check_branching.while1 h out W wf = .ok []) := by
  intro n
  induction n with
  | zero =>
    intro W WT wf hs hw hf
    cases WT with
    | nil =>
      have : W = [] := by cases hW : W.reverse with
        | nil => simpa using hW
        | cons _ _ => rw [hW] at hw; simp [WRepr] at hw
      subst this
      match wf, hf with
      | wf + 1, _ => simp [wbad, Tr.check_branching.while1]
    | cons q qs => cases hq : q.1 <;> simp [wsize, hq, tsize] at hs <;> omega
  | succ n ih =>
    intro W WT wf hs hw hf
    cases WT with
    | nil =>
      have : W = [] := by cases hW : W.reverse with
        | nil => simpa using hW
        | cons _ _ => rw [hW] at hw; simp [WRepr] at hw
      subst this
      match wf, hf with
      | wf + 1, _ => simp [wbad, Tr.check_branching.while1]
    | cons q qs =>
      cases hW : W.reverse with
      | nil => rw [hW] at hw; simp [WRepr] at hw
      | cons p ps =>
        rw [hW] at hw
        obtain ⟨ht, hnode, hflag, hrest⟩ := hw
        have hWeq : W = ps.reverse ++ [p] := by
          have := congrArg List.reverse hW; simpa using this
        obtain ⟨x, nb⟩ := p
        obtain ⟨t, nb'⟩ := q
        simp only at ht hflag
        subst hflag
        match wf, hf with
        | wf + 1, hf =>
          rw [Tr.check_branching.while1]
          subst hWeq
          have hlen : Py.len (ps.reverse ++ [(x, nb)]) > 0 := by simp [Py.len]
          simp only [hlen, if_true, popLast_append, ok_bind]
          cases t with
          | input e => simp [Tree.isInput] at hnode
          | node e ks =>
            obtain ⟨hx, hnbr, hkids⟩ := ht
            have hl : Py.len (h.targets x) = (ks.length : Int) := by
              simp [Py.len, listRepr_length h _ _ hkids]
            have hnb2 : decide (nb = true ∨ h.isNoBranch x = true) = (nb || e.noBranch) := by
              rw [hnbr]; cases nb <;> cases e.noBranch <;> simp
            simp only [hnb2, hl]
            by_cases hbr : ((nb || e.noBranch) = true ∧ (ks.length : Int) > 1)
            · have hbad : wbad ((Tree.node e ks, nb) :: qs) = true := by
                have : ks.length > 1 := by omega
                simp [wbad, Tree.branchBad, hbr.1, this]
              simp [hbr, hbad]
            · simp only [hbr, if_false]
              have hfirst : ((nb || e.noBranch) && decide (ks.length > 1)) = false := by
                cases hq : (nb || e.noBranch) with
                | false => simp
                | true =>
                  have : ¬ ((ks.length : Int) > 1) := fun hgt => hbr ⟨hq, hgt⟩
                  have : ¬ (ks.length > 1) := by omega
                  simp [this]
              obtain ⟨W', WT', h1, h2, h3, h4⟩ := push_loop h (nb || e.noBranch) (h.targets x) (h.targets x) ks x
                ps.reverse qs hkids (by simpa using hrest)
              have hsz : wsize WT' ≤ n := by simp [wsize, tsize] at hs; omega
              have hf' : wsize WT' < wf := by simp [wsize, tsize] at hf; omega
              have := ih W' WT' wf hsz h2 hf'
              have hb : wbad ((Tree.node e ks, nb) :: qs) = wbad WT' := by
                simp only [wbad, Tree.branchBad, hfirst, Bool.false_or, h4]
                cases wbad qs <;> cases branchBadL (nb || e.noBranch) ks <;> rfl
              rw [hb]
              simp only [h1, ok_bind]
              exact this

/-- **`_check_branching` is the model's `branchBad`**: starting from an output object that represents tree `t`,
    the translated function raises a connect error iff `t` has a fan-out at or downstream of a no-branch adapter. -/
theorem tr_check_branching (h : Heap) (out : Nat) (e : Elem) (ks : List Tree)
    (hr : TreeRepr h out (.node e ks)) (hsize : tsize (.node e ks) ≤ h.size) :
    Tr.check_branching h out =
      (if (Tree.node e ks).branchBad false then .error .connectErr else .ok ()) := by
  have := branching_loop h out (tsize (.node e ks)) [(out, false)] [(.node e ks, false)] (h.size + 1)
    (by simp [wsize]) (by simp [WRepr, hr, Tree.isInput]) (by simp [wsize]; omega)
  unfold Tr.check_branching
  simp only [wbad, Bool.or_false] at this
  cases hb : (Tree.node e ks).branchBad false with
  | true => rw [hb] at this; simp only [if_true] at this; simp [this]
  | false => rw [hb] at this; simp only [Bool.false_eq_true, if_false] at this; simp [this]

/-! ### the hypotheses are satisfiable

Output 20 `>>` NextTime-like adapter 30 (push-based, no-branch) `>>` inputs 40 and 41: a fan-out at a no-branch
adapter.  The heap represents the model tree, the model refuses it, hence so does the translated code. -/

def exHeap : Heap :=
  { isInput := fun x => x == 30 || x == 40 || x == 41, isOutput := fun x => x == 20 || x == 30,
    isAdapter := fun x => x == 30, isNoDep := fun _ => false, isDelay := fun _ => false,
    isNoBranch := fun x => x == 30, isTimeComp := fun _ => false, needsPush := fun x => x == 30,
    needsPull := fun x => x == 40 || x == 41, isStatic := fun _ => false, finished := fun _ => false,
    hasSource := fun x => x == 30 || x == 40 || x == 41, source := fun x => if x = 30 then 20 else 30,
    time := fun _ => 0, nextTime := fun _ => 0, withDelay := fun _ t => t, owner := fun _ => 0,
    inputs := fun _ => [], outputs := fun _ => [],
    targets := fun x => if x = 20 then [30] else if x = 30 then [40, 41] else [], size := 6 }

def exIn : Tree := .input ⟨false, false, true, false, false⟩
def exAd : Elem := ⟨false, true, false, true, false⟩
def exOut : Elem := ⟨true, false, false, false, false⟩
def exTree : Tree := .node exOut [.node exAd [exIn, exIn]]

example : Tr.check_branching exHeap 20 = .error .connectErr := by
  have hr : TreeRepr exHeap 20 exTree := by
    simp [exTree, exAd, exOut, exIn, TreeRepr, ListRepr, exHeap]
  have := tr_check_branching exHeap 20 exOut [.node exAd [exIn, exIn]] hr (by simp [tsize, tsizeL, exIn, exHeap])
  rw [this]
  simp [Tree.branchBad, branchBadL, exAd, exOut, exIn]

/-- the path output 20 → adapter 30 → input 40, and both path theorems applied to it: connected, no dead link -/
example : Tr.check_input_connected exHeap 40 = .ok () ∧ Tr.check_dead_links exHeap 40 = .ok () := by
  have hp : ObjPath exHeap [40, 30, 20] [.node exOut [.node exAd [exIn, exIn]], .node exAd [exIn, exIn], exIn].reverse := by
    simp [ObjPath, elemOf, exHeap, exIn, exAd, exOut, Tree.elem, Tree.isSource]
  constructor
  · rw [tr_check_input_connected exHeap [40, 30, 20] _ 40 hp rfl (by simp [exHeap])]
    simp [checkConnectedPath, Tree.isSource, exOut, Tree.elem, exIn]
  · rw [tr_check_dead_links exHeap [40, 30, 20] _ 40 hp rfl (by simp [Tree.isSource, exOut]) (by simp [exHeap])]
    simp [deadLoop, Tree.elem, exOut, exAd, exIn]

end Finam.Props.C19