import FinamModel.MaskLemmas
import FinamModel.Props.C15
/-!
  C18 — masked data: compression round-trips and mask rules are as documented.

  Model: `FinamModel/Mask.lean` (`toCompressed`, `fromCompressed`, `prepare`, `masksEqual`,
  `masksCompatible`, `acceptsMask`).
-/
namespace Finam.Props.C18
open Finam

/-! ### Compress / expand round trip -/

/-- what the round trip must deliver: same shape, exactly the mask `m`, every unmasked element
    back at its multi-index, masked positions undefined -/
def Restored (data : Arr Int) (m : Arr Bool) (r : Expanded) : Prop :=
  r.data.shape = data.shape ∧ r.dmask = some (some m) ∧
  ∀ i, InB data.shape i → r.data.get i = if m.get i then none else some (data.get i)

/-- the values kept by a compression: the unmasked elements in the requested memory order -/
def keptValues (data : Arr Int) (o : Order) (m : Arr Bool) : List Int :=
  compressNot (m.flat o) (data.flat o)

theorem expand_kept (data : Arr Int) (o : Order) (m : Arr Bool) (hm : m.shape = data.shape) :
    ∃ r, fromCompressed (keptValues data o m) data.shape o (.arr m) false = .ok r ∧ Restored data m r := by
  have hml : (m.flat o).length = prod data.shape := by rw [Arr.flat_length, hm]
  have hdl : (data.flat o).length = (m.flat o).length := by rw [Arr.flat_length, hml]
  have hcl : (keptValues data o m).length = countNot (m.flat o) := compressNot_length _ _ hdl
  simp only [fromCompressed, hml, bne_self_eq_false, Bool.false_eq_true, if_false, hm, beq_self_eq_true, if_true]
  have hvs : (if ((keptValues data o m).length == 1 && countNot (m.flat o) != 1) = true then
        List.replicate (countNot (m.flat o)) ((keptValues data o m).getD 0 0)
      else keptValues data o m) = keptValues data o m := by
    split
    · rename_i h
      simp only [Bool.and_eq_true, beq_iff_eq, bne_iff_ne, ne_eq] at h
      omega
    · rfl
  rw [hvs]
  simp only [hcl, bne_self_eq_false, Bool.false_eq_true, if_false]
  refine ⟨_, rfl, rfl, rfl, ?_⟩
  intro i hi
  simp only [Arr.ofFlat]
  have hk := ravel_lt o _ _ hi
  have hsc := scatter_compress (m.flat o) (data.flat o) hdl (ravel o data.shape i) (by rw [hml]; exact hk)
  have hmi : (m.flat o).getD (ravel o data.shape i) true = m.get i := by
    rw [Arr.flat_getD o m _ (by rw [hm]; exact hk), hm, unravel_ravel o _ _ hi]
  have hdi : (data.flat o)[ravel o data.shape i]? = some (data.get i) := by
    rw [Arr.flat_getElem? o data _ hk, unravel_ravel o _ _ hi]
  rw [hmi, hdi] at hsc
  simp only [keptValues]
  rw [List.getD_eq_getElem?_getD, hsc]
  cases m.get i <;> simp

/-- **C18, first sentence (explicit mask argument).** For every shape, either order, every mask of
    that shape and plain or quantified payloads: `to_compressed(x, order, mask)` keeps exactly the
    unmasked values in the requested memory order, and `from_compressed` of that with the same
    shape, mask and order returns every unmasked value to its original position, under exactly
    that mask. -/
theorem compress_expand_roundtrip (data : Arr Int) (o : Order) (m : Arr Bool) (quantified : Bool)
    (hm : m.shape = data.shape) :
    toCompressed ⟨data, none, quantified⟩ o (.arr m) = .ok (keptValues data o m) ∧
    ∃ r, fromCompressed (keptValues data o m) data.shape o (.arr m) false = .ok r ∧ Restored data m r := by
  refine ⟨?_, expand_kept data o m hm⟩
  simp [toCompressed, MaskSpec.isPyNone, MaskSpec.specified, keptValues]

/-- **C18, first sentence (payload is a masked array).** The same when the payload carries the
    mask itself, whatever mask argument is passed along. -/
theorem compress_expand_roundtrip_masked (data : Arr Int) (o : Order) (m : Arr Bool) (quantified : Bool)
    (arg : MaskSpec) (hm : m.shape = data.shape) :
    toCompressed ⟨data, some (some m), quantified⟩ o arg = .ok (keptValues data o m) ∧
    ∃ r, fromCompressed (keptValues data o m) data.shape o (.arr m) false = .ok r ∧ Restored data m r := by
  refine ⟨?_, expand_kept data o m hm⟩
  simp [toCompressed, keptValues]

/-- without a mask (`None`, `Mask.FLEX`, `Mask.NONE`, `nomask`) compression is the flattening in the
    requested order and expansion the matching reshape: every element returns to its position -/
theorem compress_expand_roundtrip_unmasked (data : Arr Int) (o : Order) (quantified : Bool) (mask : MaskSpec)
    (hmask : ∀ m, mask ≠ .arr m) :
    toCompressed ⟨data, none, quantified⟩ o mask = .ok (data.flat o) ∧
    ∃ r, fromCompressed (data.flat o) data.shape o mask false = .ok r ∧ r.data.shape = data.shape ∧
      (r.dmask = match mask with | .nomask => some none | _ => none) ∧
      ∀ i, InB data.shape i → r.data.get i = some (data.get i) := by
  constructor
  · cases mask <;> simp [toCompressed, MaskSpec.isPyNone, MaskSpec.specified]
    exact absurd rfl (hmask _)
  · have hl : (data.flat o).length = prod data.shape := Arr.flat_length o data
    have hget : ∀ i, InB data.shape i →
        (Arr.ofFlat o data.shape ((data.flat o).map some) none).get i = some (data.get i) := by
      intro i hi
      have hk := ravel_lt o _ _ hi
      simp only [Arr.ofFlat]
      rw [List.getD_eq_getElem?_getD, List.getElem?_map, Arr.flat_getElem? o data _ hk,
        unravel_ravel o _ _ hi]
      rfl
    cases mask with
    | arr m => exact absurd rfl (hmask m)
    | pyNone =>
      refine ⟨⟨Arr.ofFlat o data.shape ((data.flat o).map some) none, none⟩, ?_, rfl, rfl, hget⟩
      simp [fromCompressed, hl]
    | flex =>
      refine ⟨⟨Arr.ofFlat o data.shape ((data.flat o).map some) none, none⟩, ?_, rfl, rfl, hget⟩
      simp [fromCompressed, hl]
    | none_ =>
      refine ⟨⟨Arr.ofFlat o data.shape ((data.flat o).map some) none, none⟩, ?_, rfl, rfl, hget⟩
      simp [fromCompressed, hl]
    | nomask =>
      refine ⟨⟨Arr.ofFlat o data.shape ((data.flat o).map some) none, some none⟩, ?_, rfl, rfl, hget⟩
      simp [fromCompressed, hl]

/-- non-vacuity: a 2x3 array in Fortran order under a partial mask -/
def exData : Arr Int := Arr.ofFlat .C [2, 3] [1, 2, 3, 4, 5, 6] 0
def exMask : Arr Bool := Arr.ofFlat .C [2, 3] [true, false, false, false, false, true] false
example : keptValues exData .F exMask = [4, 2, 5, 3] ∧
    (fromCompressed [4, 2, 5, 3] [2, 3] .F (.arr exMask) false).toOption.map (·.data.toList) =
      some [none, some 2, some 3, some 4, some 5, none] := by decide

/-! ### `prepare` under a fixed mask -/

/-- what `prepare` must produce under an info with the fixed mask `m`: shape `1 :: data_shape`,
    a masked array whose mask is exactly `m`, and the payload's values (`src i` = the payload
    element that belongs at grid index `i`) -/
def Prepared (gshape : List Nat) (m : Arr Bool) (src : List Nat → Int) (r : Payload) : Prop :=
  r.data.shape = 1 :: gshape ∧
  ∃ rm, r.dmask = some (some rm) ∧ rm.shape = 1 :: gshape ∧
    ∀ i, InB gshape i → rm.get (0 :: i) = m.get i ∧ r.data.get (0 :: i) = src i

/-- payload already in the grid's data shape -/
theorem prepare_applies_fixed_mask_shaped (gshape : List Nat) (o : Order) (m : Arr Bool) (x : Payload)
    (hm : m.shape = gshape) (hx : x.data.shape = gshape) (hp : x.dmask = none) (hl : gshape.length ≠ 1)
    (hne : gshape ≠ []) :
    ∃ r, prepare gshape o (.arr m) x = .ok r ∧ Prepared gshape m x.data.get r := by
  have h1 : (x.data.ndim == 1) = false := by simpa [Arr.ndim, hx] using hl
  have hpm : prepMask o (.arr m) x = .arr m := by simp [prepMask, h1]
  have hat : attachMask x.data.shape (.arr m) = .ok m := by simp [attachMask, hm, hx]
  refine ⟨{ x with data := x.data.expandDims0, dmask := some (some m.expandDims0) }, ?_, ?_⟩
  · simp only [prepare, hpm, prepAttach_plain (.arr m) _ x rfl hp m hat]
    rw [checkInputShape_shaped gshape o { x with dmask := some (some m) } hx hl hne]
    rfl
  · exact ⟨by simp [Arr.expandDims0, hx], m.expandDims0, rfl, by simp [Arr.expandDims0, hm],
      fun i _ => ⟨rfl, rfl⟩⟩

/-- payload with a time axis of length one in front -/
theorem prepare_applies_fixed_mask_time (gshape : List Nat) (o : Order) (m : Arr Bool) (x : Payload)
    (hm : m.shape = gshape) (hx : x.data.shape = 1 :: gshape) (hp : x.dmask = none) (hne : gshape ≠ []) :
    ∃ r, prepare gshape o (.arr m) x = .ok r ∧ Prepared gshape m (fun i => x.data.get (0 :: i)) r := by
  have hlen : gshape.length ≠ 0 := by simpa using hne
  have h1 : (x.data.ndim == 1) = false := by
    simp only [Arr.ndim, hx, List.length_cons, beq_eq_false_iff_ne, ne_eq]; omega
  have hpm : prepMask o (.arr m) x = .arr m := by simp [prepMask, h1]
  have hsh : (gshape == 1 :: gshape) = false := by
    simp only [beq_eq_false_iff_ne, ne_eq]
    intro h; have := congrArg List.length h; simp at this
  have hmask : ∃ rm, attachMask (1 :: gshape) (.arr m) = .ok rm ∧ rm.shape = 1 :: gshape ∧
      ∀ i, InB gshape i → rm.get (0 :: i) = m.get i := by
    by_cases hone : prod gshape = 1
    · refine ⟨⟨1 :: gshape, fun _ => m.get (unravelC m.shape 0)⟩, ?_, rfl, ?_⟩
      · simp only [attachMask, hm, hsh, Bool.false_eq_true, if_false, hone, beq_self_eq_true, if_true]
      · intro i hi
        have := ravelC_lt gshape i hi
        have h0 : ravelC gshape i = 0 := by omega
        simp only [hm]
        rw [← h0, unravel_ravelC gshape i hi]
    · refine ⟨m.reshape .C (1 :: gshape), ?_, rfl, ?_⟩
      · have hne1 : (prod gshape == 1) = false := by simpa using hone
        simp only [attachMask, hm, hsh, Bool.false_eq_true, if_false, hne1, prod, Nat.one_mul,
          beq_self_eq_true, if_true]
      · intro i hi
        simp only [Arr.reshape, hm]
        rw [ravel_cons_zero .C gshape i hi.length_eq, unravel_ravel .C gshape i hi]
  obtain ⟨rm, hrm1, hrm2, hrm3⟩ := hmask
  refine ⟨{ x with dmask := some (some rm) }, ?_, hx, rm, rfl, hrm2, fun i hi => ⟨hrm3 i hi, rfl⟩⟩
  simp only [prepare, hpm, prepAttach_plain (.arr m) _ x rfl hp rm (hx ▸ hrm1)]
  exact checkInputShape_time gshape o { x with dmask := some (some rm) } hx hne

/-- flat payload (one value per grid element, given in the grid's order): the mask lands in grid
    order as well — `prepare` flattens it with `order=info.grid.order` before attaching it. -/
theorem prepare_applies_fixed_mask_flat (gshape : List Nat) (o : Order) (m : Arr Bool) (x : Payload)
    (hm : m.shape = gshape) (hx : x.data.shape = [prod gshape]) (hp : x.dmask = none) (hne : gshape ≠ []) :
    ∃ r, prepare gshape o (.arr m) x = .ok r ∧
      Prepared gshape m (fun i => x.data.get [ravel o gshape i]) r := by
  have hlen : gshape.length ≠ 0 := by simpa using hne
  have h1 : (x.data.ndim == 1) = true := by simp [Arr.ndim, hx]
  -- the mask attached to the flat payload
  have hmask : ∃ fm : Arr Bool, attachMask x.data.shape (prepMask o (.arr m) x) = .ok fm ∧
      fm.shape = [prod gshape] ∧ ∀ i, InB gshape i → fm.get [ravel o gshape i] = m.get i := by
    by_cases hnd : m.ndim > 1
    · refine ⟨⟨[prod m.shape], fun i => m.get (unravel o m.shape (i.getD 0 0))⟩, ?_, by simp [hm], ?_⟩
      · simp [prepMask, h1, hnd, attachMask, hx, hm]
      · intro i hi
        simp only [hm, List.getD_cons_zero]
        rw [unravel_ravel o gshape i hi]
    · -- a one-dimensional grid: the mask is flat already
      have hg1 : gshape.length = 1 := by simp only [Arr.ndim, hm] at hnd; omega
      obtain ⟨n, rfl⟩ : ∃ n, gshape = [n] := by
        cases gshape with
        | nil => simp at hg1
        | cons n r => cases r with
          | nil => exact ⟨n, rfl⟩
          | cons _ _ => simp at hg1
      refine ⟨m, ?_, by simp [hm, prod], ?_⟩
      · simp [prepMask, h1, hnd, attachMask, hx, hm, prod]
      · intro i hi
        cases i with
        | nil => simp [InB] at hi
        | cons k r => cases r with
          | nil => rw [ravel_singleton]
          | cons _ _ => simp [InB] at hi
  obtain ⟨fm, hf1, hf2, hf3⟩ := hmask
  refine ⟨{ x with data := x.data.reshape o (1 :: gshape), dmask := some (some (fm.reshape o (1 :: gshape))) }, ?_,
    rfl, fm.reshape o (1 :: gshape), rfl, rfl, ?_⟩
  · simp only [prepare, prepAttach_plain (.arr m) _ x rfl hp fm hf1]
    rw [checkInputShape_flat gshape o { x with dmask := some (some fm) } hx hne]
    rfl
  · intro i hi
    simp only [Arr.reshape, hf2, hx]
    rw [ravel_cons_zero o gshape i hi.length_eq, unravel_singleton]
    exact ⟨hf3 i hi, rfl⟩

/-- **C18, second sentence.** Preparing a payload without a mask of its own (flat in grid order,
    in the grid's data shape, or with a leading time axis of length one; plain or quantified) under
    metadata with the fixed mask `m` succeeds and applies exactly `m`: the prepared array has shape
    `1 :: data_shape`, its mask at `[0, i]` is `m[i]`, and its value there is the payload's value for
    grid index `i`. -/
theorem prepare_applies_fixed_mask (gshape : List Nat) (o : Order) (m : Arr Bool) (x : Payload)
    (hm : m.shape = gshape) (hp : x.dmask = none) (hne : gshape ≠ [])
    (hx : x.data.shape = [prod gshape] ∨ (x.data.shape = gshape ∧ gshape.length ≠ 1) ∨ x.data.shape = 1 :: gshape) :
    ∃ r src, prepare gshape o (.arr m) x = .ok r ∧ Prepared gshape m src r := by
  rcases hx with h | ⟨h, hl⟩ | h
  · obtain ⟨r, h1, h2⟩ := prepare_applies_fixed_mask_flat gshape o m x hm h hp hne
    exact ⟨r, _, h1, h2⟩
  · obtain ⟨r, h1, h2⟩ := prepare_applies_fixed_mask_shaped gshape o m x hm h hp hl hne
    exact ⟨r, _, h1, h2⟩
  · obtain ⟨r, h1, h2⟩ := prepare_applies_fixed_mask_time gshape o m x hm h hp hne
    exact ⟨r, _, h1, h2⟩

/-- non-vacuity: the input of finding F17 (flat payload, Fortran-ordered 2x3 grid) -/
def exMask2 : Arr Bool := Arr.ofFlat .C [2, 3] [true, true, false, false, false, false] false
example : (prepare [2, 3] .F (.arr exMask2) ⟨Arr.ofFlat .C [6] [1, 2, 3, 4, 5, 6] 0, none, false⟩).toOption.map
      (fun r => (r.data.toList, r.dmask.map (Option.map Arr.toList))) =
    some ([1, 3, 5, 2, 4, 6], some (some [true, true, false, false, false, false])) := by decide

/-! ### The acceptance table

`cons` is the consumer's mask specification (`this` of `Info.accepts` with
`incoming_donwstream=False`), `prod` the producer's; `cg`, `pg` their grids. -/

/-- a fixed mask: `nomask` or a boolean array -/
def Fixed : MaskSpec → Prop
  | .nomask => True
  | .arr _ => True
  | _ => False

/-- **C18, third sentence: the table.** A flexible consumer accepts any producer specification; an
    unmasked consumer only an unmasked producer; a fixed-mask consumer only a producer with a fixed
    mask, and then exactly when `masks_equal` holds. -/
theorem mask_accept_table (cons prod : MaskSpec) (cg pg : Option GridRef) (hp : prod.isPyNone = false) :
    masksCompatible cons prod false cg pg =
      match cons with
      | .flex => .ok true
      | .none_ => .ok (match prod with | .none_ => true | _ => false)
      | .pyNone => (match prod with | .nomask => masksEqual cons prod cg pg | .arr _ => masksEqual cons prod cg pg | _ => .ok false)
      | .nomask => (match prod with | .nomask => masksEqual cons prod cg pg | .arr _ => masksEqual cons prod cg pg | _ => .ok false)
      | .arr _ => (match prod with | .nomask => masksEqual cons prod cg pg | .arr _ => masksEqual cons prod cg pg | _ => .ok false) := by
  cases cons <;> cases prod <;>
    first
    | exact absurd hp (by decide)
    | simp [masksCompatible, MaskSpec.isPyNone, MaskSpec.specified]

/-- the producer-side check (`Output.get_info`: `incoming_donwstream=True`) is the same relation
    with the roles swapped -/
theorem producer_side_check (prod cons : MaskSpec) (pg cg : Option GridRef) :
    masksCompatible prod cons true pg cg = masksCompatible cons prod false cg pg := by
  simp [masksCompatible]

/-- `Info.accepts` reports a mask failure exactly when the table rejects (consumer side) -/
theorem accepts_iff_table (cons prod : MaskSpec) (cg pg : Option GridRef) (hc : cons.isPyNone = false) :
    acceptsMask cons prod false cg pg = masksCompatible cons prod false cg pg := by
  unfold acceptsMask
  rw [hc]
  simp only [Bool.false_eq_true, if_false, Bool.false_and]
  cases masksCompatible cons prod false cg pg with
  | error e => rfl
  | ok b => cases b <;> rfl

/-- a mask with nothing masked equals `nomask` and nothing else does -/
theorem fixed_equal_nomask (m : Arr Bool) (cg pg : Option GridRef) :
    masksEqual .nomask (.arr m) cg pg = .ok (allFalse m.toList) ∧
    masksEqual (.arr m) .nomask cg pg = .ok (allFalse m.toList) ∧
    masksEqual .nomask .nomask cg pg = .ok true := ⟨rfl, rfl, rfl⟩

/-- without both grids the arrays themselves are compared -/
theorem fixed_equal_without_grids (a b : Arr Bool) (pg : Option GridRef) :
    (masksEqual (.arr a) (.arr b) none pg = .ok true ↔
      a.shape = b.shape ∧ ∀ i, InB a.shape i → a.get i = b.get i) ∧
    (masksEqual (.arr a) (.arr b) pg none = .ok true ↔
      a.shape = b.shape ∧ ∀ i, InB a.shape i → a.get i = b.get i) := by
  have key : (masksEqual (.arr a) (.arr b) none pg = .ok true ↔
      a.shape = b.shape ∧ ∀ i, InB a.shape i → a.get i = b.get i) := by
    simp only [masksEqual]
    by_cases hn : a.ndim = b.ndim
    · simp only [hn, bne_self_eq_false, Bool.false_eq_true, if_false, Except.ok.injEq, Bool.and_eq_true,
        beq_iff_eq]
      constructor
      · rintro ⟨h1, h2⟩; exact ⟨h1, (toList_eq_iff a b h1).mp h2⟩
      · rintro ⟨h1, h2⟩; exact ⟨h1, (toList_eq_iff a b h1).mpr h2⟩
    · have : (a.ndim != b.ndim) = true := by simpa using hn
      simp only [this, if_true, Except.ok.injEq, Bool.false_eq_true, false_iff, not_and]
      intro h1; exact absurd (by simp [Arr.ndim, h1]) hn
  refine ⟨key, ?_⟩
  cases pg with
  | none => exact key
  | some g =>
    simp only [masksEqual]
    by_cases hn : a.ndim = b.ndim
    · simp only [hn, bne_self_eq_false, Bool.false_eq_true, if_false, Except.ok.injEq, Bool.and_eq_true,
        beq_iff_eq]
      constructor
      · rintro ⟨h1, h2⟩; exact ⟨h1, (toList_eq_iff a b h1).mp h2⟩
      · rintro ⟨h1, h2⟩; exact ⟨h1, (toList_eq_iff a b h1).mpr h2⟩
    · have : (a.ndim != b.ndim) = true := by simpa using hn
      simp only [this, if_true, Except.ok.injEq, Bool.false_eq_true, false_iff, not_and]
      intro h1; exact absurd (by simp [Arr.ndim, h1]) hn

/-- **C18, third sentence: "equal after accounting for grid layout".** For masks `a`, `b` given in
    the data shapes of two compatible structured grids `g`, `h` (any two layouts of one geometry),
    `masks_equal` holds exactly when the two masks carry the same flag at every canonical position,
    i.e. at every physical location (`C15.compatible_same_locations`: `dataIdx g c` and
    `dataIdx h c` lie at the same coordinate). -/
theorem fixed_equal_after_layout (g h : SGrid) (hg : C15.WF g) (hh : C15.WF h)
    (hc : g.compatibleWith h = true) (a b : Arr Bool) (ha : a.shape = g.dataShape) (hb : b.shape = h.dataShape) :
    masksEqual (.arr a) (.arr b) (some (.structured g)) (some (.structured h)) = .ok true ↔
      ∀ c, InB (C15.xyzShape g) c → a.get (C15.dataIdx g c) = b.get (C15.dataIdx h c) := by
  obtain ⟨hx, _⟩ := C15.compatible_same_locations g h hg hh hc
  obtain ⟨ca, hca1, hca2, hca3⟩ := C15.toCanonical_spec g hg a [] (by simp [ha])
  obtain ⟨cb, hcb1, hcb2, hcb3⟩ := C15.toCanonical_spec h hh b [] (by simp [hb])
  have hn : a.ndim = b.ndim := by
    simp only [Arr.ndim, ha, hb, C15.dataShape_length g hg, C15.dataShape_length h hh]
    have := congrArg List.length hx
    simpa [C15.xyz_length] using this
  simp only [List.append_nil] at hca2 hcb2
  have hsh : ca.shape = cb.shape := by rw [hca2, hcb2, hx]
  simp only [masksEqual, hn, bne_self_eq_false, Bool.false_eq_true, if_false, GridRef.toCanonical, hca1, hcb1,
    Except.ok.injEq, Bool.and_eq_true, beq_iff_eq]
  constructor
  · rintro ⟨_, h2⟩ c hcin
    have := (toList_eq_iff ca cb hsh).mp h2 c (by rw [hca2]; exact hcin)
    have e1 := hca3 c [] hcin.length_eq rfl
    have e2 := hcb3 c [] (by rw [← hx]; exact hcin.length_eq) rfl
    simp only [List.append_nil, List.reverse_nil, List.nil_append, ite_self] at e1 e2
    rw [← e1, ← e2]; exact this
  · intro hall
    refine ⟨hsh, (toList_eq_iff ca cb hsh).mpr ?_⟩
    intro c hcin
    rw [hca2] at hcin
    have e1 := hca3 c [] hcin.length_eq rfl
    have e2 := hcb3 c [] (by rw [← hx]; exact hcin.length_eq) rfl
    simp only [List.append_nil, List.reverse_nil, List.nil_append, ite_self] at e1 e2
    rw [e1, e2]; exact hall c hcin

/-- non-vacuity: the same physical mask in two layouts is accepted, a different one is not, and a
    fixed-mask consumer without a grid still compares the arrays (finding F9) -/
def exG : SGrid := ⟨[[0, 1, 2], [0, 2, 4, 6]], [true, true], false, .F, .cells, none⟩
def exH : SGrid := ⟨[[0, 1, 2], [0, 2, 4, 6]], [true, false], true, .C, .cells, none⟩
def exA : Arr Bool := Arr.ofFlat .C [2, 3] [true, true, false, false, false, false] false
def exA' : Arr Bool := Arr.ofFlat .C [3, 2] [false, false, true, false, true, false] false
def exB : Arr Bool := Arr.ofFlat .C [2, 3] [false, false, false, false, false, true] false
example :
    masksCompatible (.arr exA') (.arr exA) false (some (.structured exH)) (some (.structured exG)) = .ok true ∧
    masksCompatible (.arr exA) (.arr exB) false (some (.structured exG)) (some (.structured exG)) = .ok false ∧
    masksCompatible (.arr exA) (.arr exB) false none (some (.structured exG)) = .ok false ∧
    masksCompatible .flex (.arr exB) false none none = .ok true ∧
    masksCompatible .none_ (.arr exB) false none none = .ok false ∧
    masksCompatible .none_ .none_ false none none = .ok true ∧
    masksCompatible (.arr exA) .flex false none none = .ok false := by decide +kernel

end Finam.Props.C18
