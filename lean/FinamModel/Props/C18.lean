import FinamModel.MaskLemmas
/-!
  C18 — masked data: compression round-trips and mask rules are as documented.

  Model: `FinamModel/Mask.lean` (`toCompressed`, `fromCompressed`, `prepare`, `masksEqual`,
  `masksCompatible`, `acceptsMask`).
-/
namespace Finam.Props.C18
open Finam

/-! ### Compress / expand round trip -/

/-- what the round trip must deliver: same shape, exactly the mask `m`, every unmasked element
    back at its multi-index, masked positions undefined -/
def Restored (data : Arr Int) (m : Arr Bool) (r : Expanded) : Prop :=
  r.data.shape = data.shape ∧ r.dmask = some (some m) ∧
  ∀ i, InB data.shape i → r.data.get i = if m.get i then none else some (data.get i)

/-- the values kept by a compression: the unmasked elements in the requested memory order -/
def keptValues (data : Arr Int) (o : Order) (m : Arr Bool) : List Int :=
  compressNot (m.flat o) (data.flat o)

theorem expand_kept (data : Arr Int) (o : Order) (m : Arr Bool) (hm : m.shape = data.shape) :
    ∃ r, fromCompressed (keptValues data o m) data.shape o (.arr m) false = .ok r ∧ Restored data m r := by
  have hml : (m.flat o).length = prod data.shape := by rw [Arr.flat_length, hm]
  have hdl : (data.flat o).length = (m.flat o).length := by rw [Arr.flat_length, hml]
  have hcl : (keptValues data o m).length = countNot (m.flat o) := compressNot_length _ _ hdl
  simp only [fromCompressed, hml, bne_self_eq_false, Bool.false_eq_true, if_false, hm, beq_self_eq_true, if_true]
  have hvs : (if ((keptValues data o m).length == 1 && countNot (m.flat o) != 1) = true then
        List.replicate (countNot (m.flat o)) ((keptValues data o m).getD 0 0)
      else keptValues data o m) = keptValues data o m := by
    split
    · rename_i h
      simp only [Bool.and_eq_true, beq_iff_eq, bne_iff_ne, ne_eq] at h
      omega
    · rfl
  rw [hvs]
  simp only [hcl, bne_self_eq_false, Bool.false_eq_true, if_false]
  refine ⟨_, rfl, rfl, rfl, ?_⟩
  intro i hi
  simp only [Arr.ofFlat]
  have hk := ravel_lt o _ _ hi
  have hsc := scatter_compress (m.flat o) (data.flat o) hdl (ravel o data.shape i) (by rw [hml]; exact hk)
  have hmi : (m.flat o).getD (ravel o data.shape i) true = m.get i := by
    rw [Arr.flat_getD o m _ (by rw [hm]; exact hk), hm, unravel_ravel o _ _ hi]
  have hdi : (data.flat o)[ravel o data.shape i]? = some (data.get i) := by
    rw [Arr.flat_getElem? o data _ hk, unravel_ravel o _ _ hi]
  rw [hmi, hdi] at hsc
  simp only [keptValues]
  rw [List.getD_eq_getElem?_getD, hsc]
  cases m.get i <;> simp

/-- **C18, first sentence (explicit mask argument).** For every shape, either order, every mask of
    that shape and plain or quantified payloads: `to_compressed(x, order, mask)` keeps exactly the
    unmasked values in the requested memory order, and `from_compressed` of that with the same
    shape, mask and order returns every unmasked value to its original position, under exactly
    that mask. -/
theorem compress_expand_roundtrip (data : Arr Int) (o : Order) (m : Arr Bool) (quantified : Bool)
    (hm : m.shape = data.shape) :
    toCompressed ⟨data, none, quantified⟩ o (.arr m) = .ok (keptValues data o m) ∧
    ∃ r, fromCompressed (keptValues data o m) data.shape o (.arr m) false = .ok r ∧ Restored data m r := by
  refine ⟨?_, expand_kept data o m hm⟩
  simp [toCompressed, MaskSpec.isPyNone, MaskSpec.specified, keptValues]

/-- **C18, first sentence (payload is a masked array).** The same when the payload carries the
    mask itself, whatever mask argument is passed along. -/
theorem compress_expand_roundtrip_masked (data : Arr Int) (o : Order) (m : Arr Bool) (quantified : Bool)
    (arg : MaskSpec) (hm : m.shape = data.shape) :
    toCompressed ⟨data, some (some m), quantified⟩ o arg = .ok (keptValues data o m) ∧
    ∃ r, fromCompressed (keptValues data o m) data.shape o (.arr m) false = .ok r ∧ Restored data m r := by
  refine ⟨?_, expand_kept data o m hm⟩
  simp [toCompressed, keptValues]

/-- without a mask (`None`, `Mask.FLEX`, `Mask.NONE`, `nomask`) compression is the flattening in the
    requested order and expansion the matching reshape: every element returns to its position -/
theorem compress_expand_roundtrip_unmasked (data : Arr Int) (o : Order) (quantified : Bool) (mask : MaskSpec)
    (hmask : ∀ m, mask ≠ .arr m) :
    toCompressed ⟨data, none, quantified⟩ o mask = .ok (data.flat o) ∧
    ∃ r, fromCompressed (data.flat o) data.shape o mask false = .ok r ∧ r.data.shape = data.shape ∧
      (r.dmask = match mask with | .nomask => some none | _ => none) ∧
      ∀ i, InB data.shape i → r.data.get i = some (data.get i) := by
  constructor
  · cases mask <;> simp [toCompressed, MaskSpec.isPyNone, MaskSpec.specified]
    exact absurd rfl (hmask _)
  · have hl : (data.flat o).length = prod data.shape := Arr.flat_length o data
    have hget : ∀ i, InB data.shape i →
        (Arr.ofFlat o data.shape ((data.flat o).map some) none).get i = some (data.get i) := by
      intro i hi
      have hk := ravel_lt o _ _ hi
      simp only [Arr.ofFlat]
      rw [List.getD_eq_getElem?_getD, List.getElem?_map, Arr.flat_getElem? o data _ hk,
        unravel_ravel o _ _ hi]
      rfl
    cases mask with
    | arr m => exact absurd rfl (hmask m)
    | pyNone =>
      refine ⟨⟨Arr.ofFlat o data.shape ((data.flat o).map some) none, none⟩, ?_, rfl, rfl, hget⟩
      simp [fromCompressed, hl]
    | flex =>
      refine ⟨⟨Arr.ofFlat o data.shape ((data.flat o).map some) none, none⟩, ?_, rfl, rfl, hget⟩
      simp [fromCompressed, hl]
    | none_ =>
      refine ⟨⟨Arr.ofFlat o data.shape ((data.flat o).map some) none, none⟩, ?_, rfl, rfl, hget⟩
      simp [fromCompressed, hl]
    | nomask =>
      refine ⟨⟨Arr.ofFlat o data.shape ((data.flat o).map some) none, some none⟩, ?_, rfl, rfl, hget⟩
      simp [fromCompressed, hl]

/-- non-vacuity: a 2x3 array in Fortran order under a partial mask -/
def exData : Arr Int := Arr.ofFlat .C [2, 3] [1, 2, 3, 4, 5, 6] 0
def exMask : Arr Bool := Arr.ofFlat .C [2, 3] [true, false, false, false, false, true] false
example : keptValues exData .F exMask = [4, 2, 5, 3] ∧
    (fromCompressed [4, 2, 5, 3] [2, 3] .F (.arr exMask) false).toOption.map (·.data.toList) =
      some [none, some 2, some 3, some 4, some 5, none] := by decide

end Finam.Props.C18
