import FinamModel.Sched
import FinamModel.SchedLemmas
import FinamModel.Translated.find_dependencies
import FinamModel.Translated.update_recursive
/-
  Equivalence of the translated dependency walk `_find_dependencies` and recursive selection
  `Composition._update_recursive` (regenerated from `finam/schedule.py` on every run) with the hand-written
  scheduler model `findDeps` / `updateRec` of the C01 / C02 / C04 / C13 / C20 theorems.

  The Python code walks an object graph (`inp.source`, `isinstance`, `output_owners[...]`); the model works on
  adapter chains given as lists.  `HeapRepr` says when a heap of objects represents a model state; the theorems
  hold for every heap, state and request that are so related.
-/
namespace Finam.Props.C02
open Finam Finam.Py

/-- adapter object `x` of heap `h` is an adapter of model kind `a` -/
def AdRepr (h : Heap) (dp : DP) (x : Nat) : Ad → Prop
  | .pass => h.isNoDep x = false ∧ h.isDelay x = false ∧ (h.isAdapter x = true → h.needsPush x = false)
  | .cache => h.isNoDep x = false ∧ h.isDelay x = false ∧ h.isAdapter x = true ∧ h.needsPush x = true
  | .nodep => h.isNoDep x = true
  | .dpush => h.isNoDep x = true
  | .dfix d i => h.isNoDep x = false ∧ h.isDelay x = true ∧ (h.isAdapter x = true → h.needsPush x = false) ∧
      ∀ t, h.withDelay x t = (Ad.dfix d i).withDelay dp t
  | .dpull id n a i => h.isNoDep x = false ∧ h.isDelay x = true ∧ (h.isAdapter x = true → h.needsPush x = false) ∧
      ∀ t, h.withDelay x t = (Ad.dpull id n a i).withDelay dp t

/-- following `source` from the input-like object `x` one passes exactly the adapters `ads` and arrives at the
    output object `o` (which is neither an input nor an adapter of any kind) -/
def ChainRepr (h : Heap) (dp : DP) : Nat → List Ad → Nat → Prop
  | x, [], o => h.source x = o ∧ h.isInput o = false ∧ h.isNoDep o = false ∧ h.isDelay o = false ∧ h.isAdapter o = false
  | x, a :: r, o => h.isInput (h.source x) = true ∧ AdRepr h dp (h.source x) a ∧ ChainRepr h dp (h.source x) r o

/-- the loop `while isinstance(inp, IInput): …` of `_find_dependencies` is the model's `walk`: it ends at the
    source output with the walked time, or on a dependency-breaking adapter exactly when `walk` answers `none` -/
theorem walk_tr (h : Heap) (dp : DP) (o : Nat) :
    ∀ (ads : List Ad) (x : Nat) (lt : Int) (delayed pushed : Bool) (wf : Nat),
      h.isInput x = true → ChainRepr h dp x ads o → ads.length + 1 < wf →
      ∃ inp' lt' d' p', Tr.find_dependencies.while2 h x lt delayed pushed wf = .ok (inp', lt', d', p') ∧
        (match walk dp ads lt pushed with
         | some t => inp' = o ∧ lt' = t
         | none => h.isNoDep inp' = true) := by
  intro ads
  induction ads with
  | nil =>
    intro x lt delayed pushed wf hx hc hw
    obtain ⟨hs, ho, hnd, hdl, had⟩ := hc
    match wf, hw with
    | wf + 2, _ =>
      refine ⟨o, lt, delayed, pushed, ?_, by simp [walk]⟩
      cases pushed <;>
        simp [Tr.find_dependencies.while2, hx, hs, ho, hnd, hdl, had]
  | cons a r ih =>
    intro x lt delayed pushed wf hx hc hw
    obtain ⟨hy, ha, hr⟩ := hc
    match wf, hw with
    | wf + 1, hw =>
      have hw' : r.length + 1 < wf := by simp at hw; omega
      cases pushed with
      | true =>
        obtain ⟨i, l, d, p, h1, h2⟩ := ih (h.source x) lt delayed true wf hy hr hw'
        refine ⟨i, l, d, p, ?_, by simpa [walk] using h2⟩
        rw [Tr.find_dependencies.while2]
        simp [hx, h1]
      | false =>
        cases a with
        | pass =>
          obtain ⟨h1, h2, h3⟩ := ha
          obtain ⟨i, l, d, p, e1, e2⟩ := ih (h.source x) lt delayed false wf hy hr hw'
          refine ⟨i, l, d, p, ?_, by simpa [walk] using e2⟩
          rw [Tr.find_dependencies.while2]
          by_cases had : h.isAdapter (h.source x) = true
          · simp [hx, h1, h2, had, h3 had, e1]
          · simp [hx, h1, h2, had, e1]
        | cache =>
          obtain ⟨h1, h2, h3, h4⟩ := ha
          obtain ⟨i, l, d, p, e1, e2⟩ := ih (h.source x) lt delayed true wf hy hr hw'
          refine ⟨i, l, d, p, ?_, by simpa [walk] using e2⟩
          rw [Tr.find_dependencies.while2]
          simp [hx, h1, h2, h3, h4, e1]
        | nodep =>
          refine ⟨h.source x, lt, delayed, false, ?_, by simpa [walk, AdRepr] using ha⟩
          rw [Tr.find_dependencies.while2]
          simp [AdRepr] at ha
          simp [hx, ha]
        | dpush =>
          refine ⟨h.source x, lt, delayed, false, ?_, by simpa [walk, AdRepr] using ha⟩
          rw [Tr.find_dependencies.while2]
          simp [AdRepr] at ha
          simp [hx, ha]
        | dfix dd ii =>
          obtain ⟨h1, h2, h3, h4⟩ := ha
          obtain ⟨i, l, d, p, e1, e2⟩ := ih (h.source x) (h.withDelay (h.source x) lt) true false wf hy hr hw'
          refine ⟨i, l, d, p, ?_, by simpa [walk, h4] using e2⟩
          rw [Tr.find_dependencies.while2]
          by_cases had : h.isAdapter (h.source x) = true
          · simp [hx, h1, h2, had, h3 had, e1]
          · simp [hx, h1, h2, had, e1]
        | dpull id n aa ii =>
          obtain ⟨h1, h2, h3, h4⟩ := ha
          obtain ⟨i, l, d, p, e1, e2⟩ := ih (h.source x) (h.withDelay (h.source x) lt) true false wf hy hr hw'
          refine ⟨i, l, d, p, ?_, by simpa [walk, h4] using e2⟩
          rw [Tr.find_dependencies.while2]
          by_cases had : h.isAdapter (h.source x) = true
          · simp [hx, h1, h2, had, h3 had, e1]
          · simp [hx, h1, h2, had, e1]

/-- the Python `deps` dict (object → (time, delayed flag)) against the model's association list (output index → time) -/
def DepsRel (oid : Nat → Nat) : List (Nat × (Int × Bool)) → List (Nat × Int) → Prop
  | [], [] => True
  | p :: ps, q :: qs => p.1 = oid q.1 ∧ p.2.1 = q.2 ∧ DepsRel oid ps qs
  | _, _ => False

/-- `if inp not in deps or local_time > deps[inp][0]: deps[inp] = (local_time, delayed)` is `depsInsert` -/
theorem insert_tr (oid : Nat → Nat) (hinj : ∀ a b, oid a = oid b → a = b) (o : Nat) (t : Int) (dl : Bool) :
    ∀ (dpy : List (Nat × (Int × Bool))) (dm : List (Nat × Int)), DepsRel oid dpy dm →
      (dictHas dpy (oid o) = false → DepsRel oid (dictSet dpy (oid o) (t, dl)) (depsInsert dm o t)) ∧
      (dictHas dpy (oid o) = true → ∃ v, dictGet dpy (oid o) = .ok v ∧
          (t > v.1 → DepsRel oid (dictSet dpy (oid o) (t, dl)) (depsInsert dm o t)) ∧
          (¬ t > v.1 → DepsRel oid dpy (depsInsert dm o t))) := by
  intro dpy
  induction dpy with
  | nil =>
    intro dm hr
    cases dm with
    | nil => simp [dictHas, dictSet, depsInsert, DepsRel]
    | cons q qs => simp [DepsRel] at hr
  | cons p ps ih =>
    intro dm hr
    cases dm with
    | nil => simp [DepsRel] at hr
    | cons q qs =>
      obtain ⟨h1, h2, h3⟩ := hr
      obtain ⟨k, v, d⟩ := p
      obtain ⟨k', v'⟩ := q
      simp only at h1 h2
      subst h1 h2
      have ih' := ih qs h3
      by_cases hk : k' = o
      · subst hk
        constructor
        · intro hh; simp [dictHas] at hh
        · intro _
          refine ⟨(v, d), by simp [dictGet], ?_, ?_⟩
          · intro hgt
            simp only [dictSet, depsInsert, if_true, DepsRel]
            simp [hgt, h3]
          · intro hgt
            simp only [depsInsert, if_true, DepsRel]
            simp [hgt, h3]
      · have hne : ¬ oid k' = oid o := fun e => hk (hinj _ _ e)
        constructor
        · intro hh
          have hh' : dictHas ps (oid o) = false := by simpa [dictHas, hne] using hh
          simp only [dictSet, depsInsert, hne, hk, if_false, DepsRel]
          exact ⟨trivial, trivial, ih'.1 hh'⟩
        · intro hh
          have hh' : dictHas ps (oid o) = true := by simpa [dictHas, hne] using hh
          obtain ⟨w, hw1, hw2, hw3⟩ := ih'.2 hh'
          refine ⟨w, by simp [dictGet, hne, hw1], ?_, ?_⟩
          · intro hgt
            simp only [dictSet, depsInsert, hne, hk, if_false, DepsRel]
            exact ⟨trivial, trivial, hw2 hgt⟩
          · intro hgt
            simp only [depsInsert, hk, if_false, DepsRel]
            exact ⟨trivial, trivial, hw3 hgt⟩

inductive All2 {α β : Type} (R : α → β → Prop) : List α → List β → Prop
  | nil : All2 R [] []
  | cons {a b as bs} : R a b → All2 R as bs → All2 R (a :: as) (b :: bs)

/-- a heap of slot / adapter / component objects represents the scheduler state `s`: component `c` is object
    `cid c`, output `o` is object `oid o`, and following `source` from the inputs of a component passes the
    adapter kinds of the model's links -/
structure HeapRepr (h : Heap) (s : State) (oid cid : Nat → Nat) : Prop where
  inputs : ∀ c, All2 (fun x (l : Link) => h.isInput x = true ∧ ChainRepr h s.dp x l.ads (oid l.src) ∧
      h.isStatic (oid l.src) = l.static ∧ l.ads.length < h.size) (h.inputs (cid c)) (s.comp c).inputs
  owner : ∀ o, h.owner (oid o) = cid (s.out o).owner
  time : ∀ o, h.time (oid o) = (s.out o).time
  isTime : ∀ c, h.isTimeComp (cid c) = (s.comp c).isTime
  nodep : ∀ o, h.isNoDep (oid o) = false
  oinj : ∀ a b, oid a = oid b → a = b
  cinj : ∀ a b, cid a = cid b → a = b
  next : ∀ c, h.nextTime (cid c) = getNext (s.comp c)
  fin : ∀ c, h.finished (cid c) = isFinished (s.comp c)

/-- one round of the model's fold in `findDeps` -/
def depsStep (s : State) (target : Int) (deps : List (Nat × Int)) (l : Link) : List (Nat × Int) :=
  if l.static then deps else
  match walk s.dp l.ads target false with
  | none => deps
  | some lt =>
    let o := s.out l.src
    if (s.comp o.owner).isTime && !(o.time < lt) then deps else depsInsert deps l.src lt

theorem findDeps_eq_fold (s : State) (c : Nat) (target : Int) :
    findDeps s c target = (s.comp c).inputs.foldl (depsStep s target) [] := rfl

theorem deps_loop_tr (h : Heap) (s : State) (oid cid : Nat → Nat) (hr : HeapRepr h s oid cid) (comp : Nat) (target : Int) :
    ∀ (xs : List Nat) (ls : List Link) (dpy : List (Nat × (Int × Bool))) (dm : List (Nat × Int)),
      All2 (fun x (l : Link) => h.isInput x = true ∧ ChainRepr h s.dp x l.ads (oid l.src) ∧
        h.isStatic (oid l.src) = l.static ∧ l.ads.length < h.size) xs ls →
      DepsRel oid dpy dm →
      ∃ dpy', Tr.find_dependencies.loop1 h comp target dpy (xs.map fun i => ((), i)) = .ok dpy' ∧
        DepsRel oid dpy' (ls.foldl (depsStep s target) dm) := by
  intro xs
  induction xs with
  | nil =>
    intro ls dpy dm hf hd
    cases hf
    exact ⟨dpy, rfl, hd⟩
  | cons x xs ih =>
    intro ls dpy dm hf hd
    cases hf with
    | cons hxl hrest =>
      rename_i l ls'
      obtain ⟨hx, hc, hst, hlen⟩ := hxl
      obtain ⟨i, lt', d', p', e1, e2⟩ := walk_tr h s.dp (oid l.src) l.ads x target false false (h.size + 1) hx hc (by omega)
      simp only [List.map_cons, List.foldl_cons]
      rw [Tr.find_dependencies.loop1]
      simp only [e1, ok_bind]
      -- the model's step
      cases hw : walk s.dp l.ads target false with
      | none =>
        rw [hw] at e2
        simp only at e2
        have hstep : depsStep s target dm l = dm := by
          simp only [depsStep, hw]; split <;> rfl
        obtain ⟨dpy', h1, h2⟩ := ih ls' dpy dm hrest hd
        refine ⟨dpy', ?_, by rw [hstep]; exact h2⟩
        simp [e2, h1]
      | some t =>
        rw [hw] at e2
        obtain ⟨hi, hlt⟩ := e2
        subst hi hlt
        have hnd := hr.nodep l.src
        by_cases hs : l.static = true
        · have hstep : depsStep s target dm l = dm := by simp [depsStep, hs]
          obtain ⟨dpy', h1, h2⟩ := ih ls' dpy dm hrest hd
          refine ⟨dpy', ?_, by rw [hstep]; exact h2⟩
          simp [hnd, hst, hs, h1]
        · simp only [Bool.not_eq_true] at hs
          by_cases hcond : ((s.comp (s.out l.src).owner).isTime && !decide ((s.out l.src).time < lt')) = true
          · have hstep : depsStep s target dm l = dm := by simp [depsStep, hs, hw, hcond]
            obtain ⟨dpy', h1, h2⟩ := ih ls' dpy dm hrest hd
            refine ⟨dpy', ?_, by rw [hstep]; exact h2⟩
            simp only [Bool.and_eq_true, Bool.not_eq_true', decide_eq_false_iff_not] at hcond
            simp [hnd, hst, hs, hr.owner, hr.isTime, hr.time, hcond.1, hcond.2, h1]
          · have hstep : depsStep s target dm l = depsInsert dm l.src lt' := by simp [depsStep, hs, hw, hcond]
            have hcond' : (¬ h.isTimeComp (h.owner (oid l.src)) = true) ∨
                (h.isTimeComp (h.owner (oid l.src)) = true ∧ h.time (oid l.src) < lt') := by
              simp only [Bool.and_eq_true, Bool.not_eq_true', decide_eq_false_iff_not, not_and, Classical.not_not] at hcond
              rw [hr.owner, hr.isTime, hr.time]
              by_cases hti : (s.comp (s.out l.src).owner).isTime = true
              · exact Or.inr ⟨hti, hcond hti⟩
              · exact Or.inl hti
            have hins := insert_tr oid hr.oinj l.src lt' d' dpy dm hd
            have hA : (¬ (h.isNoDep (oid l.src) = true)) ∧ (¬ (h.isStatic (oid l.src) = true)) :=
              ⟨by simp [hnd], by simp [hst, hs]⟩
            rw [hstep]
            cases hhas : dictHas dpy (oid l.src) with
            | false =>
              obtain ⟨dpy', h1, h2⟩ := ih ls' _ _ hrest (hins.1 hhas)
              refine ⟨dpy', ?_, h2⟩
              simp only [if_pos hA, if_pos hcond', hhas, if_true, h1]
            | true =>
              obtain ⟨v, hv, hgt, hle⟩ := hins.2 hhas
              have hne : ¬ (true = false) := by simp
              by_cases hg : lt' > v.1
              · obtain ⟨dpy', h1, h2⟩ := ih ls' _ _ hrest (hgt hg)
                refine ⟨dpy', ?_, h2⟩
                simp only [if_pos hA, if_pos hcond', hhas, if_neg hne, hv, ok_bind, if_pos hg, h1]
              · obtain ⟨dpy', h1, h2⟩ := ih ls' _ _ hrest (hle hg)
                refine ⟨dpy', ?_, h2⟩
                simp only [if_pos hA, if_pos hcond', hhas, if_neg hne, hv, ok_bind, if_neg hg, h1]

/-- **`_find_dependencies` is `findDeps`**: on every heap that represents the state, for every component and target
    time, the translated function returns a dict whose keys and times are the model's dependency list (in the same
    insertion order). -/
theorem tr_find_dependencies (h : Heap) (s : State) (oid cid : Nat → Nat) (hr : HeapRepr h s oid cid) (c : Nat) (target : Int) :
    ∃ dpy, Tr.find_dependencies h (cid c) target = .ok dpy ∧ DepsRel oid dpy (findDeps s c target) := by
  obtain ⟨dpy, h1, h2⟩ := deps_loop_tr h s oid cid hr (cid c) target _ _ [] [] (hr.inputs c) trivial
  refine ⟨dpy, ?_, by rw [findDeps_eq_fold]; exact h2⟩
  simp [Tr.find_dependencies, h1]

/-! ### `_update_recursive` -/

def errMap : SErr → Err
  | .circular => .circular
  | .finished => .timeErr
  | .fuel => .other

abbrev PyChain := List (Nat × Option (Int × Bool))

/-- what the translated function has to answer, given the model's answer: the same error class, the same
    component, or "nothing to update" with the chain dict exactly as it was handed in -/
def Agrees (cid : Nat → Nat) (chainPy : PyChain) : Except SErr (Option Nat) → Except Err (Option Nat × PyChain) → Prop
  | .error e, r => r = .error (errMap e)
  | .ok (some u), r => ∃ ch, r = .ok (some (cid u), ch)
  | .ok none, r => r = .ok (none, chainPy)

/-- the keys of the Python `chain` dict are the components on the model's chain -/
def KeysRel (cid : Nat → Nat) (chainPy : PyChain) (chain : List Nat) : Prop :=
  ∀ c, dictHas chainPy (cid c) = true ↔ c ∈ chain

theorem has_set {ν} (d : List (Nat × ν)) (k k' : Nat) (v : ν) :
    dictHas (dictSet d k v) k' = (dictHas d k' || decide (k = k')) := by
  induction d with
  | nil => simp [dictSet, dictHas]
  | cons p ps ih =>
    obtain ⟨a, b⟩ := p
    by_cases h : a = k
    · subst h; simp [dictSet, dictHas]
      by_cases h2 : a = k' <;> simp [h2]
    · have ih' := ih
      simp only [dictHas] at ih'
      simp [dictSet, dictHas, h, ih', Bool.or_assoc]

theorem del_set {ν} (d : List (Nat × ν)) (k : Nat) (v : ν) (hk : dictHas d k = false) :
    dictDel (dictSet d k v) k = .ok d := by
  induction d with
  | nil => simp [dictSet, dictDel]
  | cons p ps ih =>
    obtain ⟨a, b⟩ := p
    have ha : ¬ a = k := by intro e; subst e; simp [dictHas] at hk
    have hps : dictHas ps k = false := by simpa [dictHas, ha] using hk
    simp [dictSet, dictDel, ha, ih hps, Except.map]

theorem del_set_set {ν} (d : List (Nat × ν)) (k : Nat) (v : ν) (d0 : List (Nat × ν)) (hd : dictDel d k = .ok d0) :
    dictDel (dictSet d k v) k = .ok d0 := by
  induction d generalizing d0 with
  | nil => simp [dictDel] at hd
  | cons p ps ih =>
    obtain ⟨a, b⟩ := p
    by_cases ha : a = k
    · subst ha; simpa [dictSet, dictDel] using hd
    · simp only [dictDel, ha, if_false] at hd
      cases hq : dictDel ps k with
      | error e => simp [hq, Except.map] at hd
      | ok q =>
        simp [hq, Except.map] at hd
        simp [dictSet, dictDel, ha, ih q hq, Except.map, hd]

/-- the model's answer for component `c` once its dependencies `deps` are walked -/
def combined (s : State) (fuel : Nat) (c : Nat) (chainM : List Nat) (deps : List (Nat × Int)) : Except SErr (Option Nat) :=
  match depsLoop s fuel chainM deps with
  | .error e => .error e
  | .ok (some u) => .ok (some u)
  | .ok none =>
    match (s.comp c).kind with
    | .time _ _ fin => if fin then .error .finished else .ok (some c)
    | .pull => .ok none

theorem time_never_none (s : State) (fuel c : Nat) (chain : List Nat) (tgt : Option Int)
    (ht : (s.comp c).isTime = true) : updateRec s fuel c chain tgt ≠ .ok none := by
  intro h
  have := (updateRec_sound s fuel).1 c chain tgt none h
  simp [ht] at this

theorem update_recursive_tr (h : Heap) (s : State) (oid cid : Nat → Nat) (hr : HeapRepr h s oid cid) :
    ∀ (fuel : Nat) (c : Nat) (chain : List Nat) (chainPy : PyChain) (tgt : Option Int),
      KeysRel cid chainPy chain → ((s.comp c).isTime = false → tgt.isSome = true) →
      Agrees cid chainPy (updateRec s fuel c chain tgt) (Tr.update_recursive h fuel (cid c) chainPy tgt) := by
  intro fuel
  induction fuel with
  | zero =>
    intro c chain chainPy tgt _ _
    simp [updateRec, Tr.update_recursive, Agrees, errMap]
  | succ n ih =>
    -- the loop at level n, using the main function at level n
    have hQ : ∀ (c : Nat) (chain : List Nat) (chainPy : PyChain) (deps : List (Nat × Int)) (depsPy full : List (Nat × (Int × Bool)))
        (chainL : PyChain), DepsRel oid depsPy deps → KeysRel cid chainL (c :: chain) →
        dictDel chainL (cid c) = .ok chainPy →
        Agrees cid chainPy (combined s n c (c :: chain) deps)
          (Tr.update_recursive.loop2 n h (cid c) chainL full depsPy) := by
      intro c chain chainPy deps
      induction deps with
      | nil =>
        intro depsPy full chainL hd hk hdel
        cases depsPy with
        | cons _ _ => simp [DepsRel] at hd
        | nil =>
          rw [Tr.update_recursive.loop2]
          simp only [combined, depsLoop, hr.isTime, hr.fin]
          cases hkind : (s.comp c).kind with
          | time nw nx fin =>
            cases fin <;> simp [Comp.isTime, isFinished, hkind, Agrees, errMap]
          | pull => simp [Comp.isTime, isFinished, hkind, Agrees, hdel]
      | cons q qs ihq =>
        intro depsPy full chainL hd hk hdel
        cases depsPy with
        | nil => simp [DepsRel] at hd
        | cons p ps =>
          obtain ⟨h1, h2, h3⟩ := hd
          obtain ⟨dep, lt, dl⟩ := p
          obtain ⟨o, lt'⟩ := q
          simp only at h1 h2
          subst h1 h2
          rw [Tr.update_recursive.loop2]
          simp only [hr.owner, hr.isTime, hr.time]
          simp only [combined, depsLoop]
          by_cases hT : (s.comp (s.out o).owner).isTime = true
          · simp only [hT, if_true]
            by_cases hlag : (s.out o).time < lt
            · simp only [hlag, if_true]
              have hk' : KeysRel cid (dictSet chainL (cid c) (some (lt - (s.out o).time, dl))) (c :: chain) := by
                intro c'
                rw [has_set, ← hk c']
                by_cases e : cid c = cid c'
                · have : c = c' := hr.cinj _ _ e
                  subst this
                  simp [(hk c).2 (by simp)]
                · simp [e]
              have := ih (s.out o).owner (c :: chain) _ none hk' (by simp [hT])
              have hnn := time_never_none s n (s.out o).owner (c :: chain) none hT
              cases hres : updateRec s n (s.out o).owner (c :: chain) none with
              | error e => rw [hres] at this; simp only [Agrees] at this; simp [this, Agrees]
              | ok ro =>
                cases ro with
                | none => exact absurd hres hnn
                | some u =>
                  rw [hres] at this
                  obtain ⟨ch, hch⟩ := this
                  simp [hch, Agrees]
            · simp only [hlag, if_false]
              exact ihq ps full chainL h3 hk hdel
          · simp only [Bool.not_eq_true] at hT
            simp only [hT, Bool.false_eq_true, if_false]
            have := ih (s.out o).owner (c :: chain) chainL (some lt) hk (by simp)
            cases hres : updateRec s n (s.out o).owner (c :: chain) (some lt) with
            | error e => rw [hres] at this; simp only [Agrees] at this; simp [this, Agrees]
            | ok ro =>
              cases ro with
              | none =>
                rw [hres] at this; simp only [Agrees] at this
                simp only [this, ok_bind, Option.isNone_none, Bool.true_eq_false, if_false]
                exact ihq ps full chainL h3 hk hdel
              | some u =>
                rw [hres] at this
                obtain ⟨ch, hch⟩ := this
                simp [hch, Agrees]
    intro c chain chainPy tgt hk htgt
    rw [Tr.update_recursive]
    simp only [updateRec]
    by_cases hin : c ∈ chain
    · have : dictHas chainPy (cid c) = true := (hk c).2 hin
      simp [hin, this, Agrees, errMap]
    · have hnot : dictHas chainPy (cid c) = false := by
        cases hh : dictHas chainPy (cid c) with
        | false => rfl
        | true => exact absurd ((hk c).1 hh) hin
      have hne : ¬ (false = true) := by simp
      simp only [hin, if_false, hnot, if_neg hne]
      -- the dependency list of both sides
      have hkL : KeysRel cid (dictSet chainPy (cid c) none) (c :: chain) := by
        intro c'
        rw [has_set]
        by_cases e : cid c = cid c'
        · have : c = c' := hr.cinj _ _ e
          subst this; simp
        · have : ¬ c' = c := fun e' => e (by rw [e'])
          simp [e, this, hk c']
      have hdel := del_set chainPy (cid c) (none : Option (Int × Bool)) hnot
      cases hkind : (s.comp c).kind with
      | time nw nx fin =>
        have hti : h.isTimeComp (cid c) = true := by rw [hr.isTime]; simp [Comp.isTime, hkind]
        obtain ⟨dpy, hd1, hd2⟩ := tr_find_dependencies h s oid cid hr c nx
        have hq := hQ c chain chainPy (findDeps s c nx) dpy dpy _ hd2 hkL hdel
        have hnx : h.nextTime (cid c) = nx := by rw [hr.next]; simp [getNext, hkind]
        simp only [hti, if_true, Tr.update_recursive.join1, Py.unwrap, ok_bind, hnx, hd1]
        simp only [combined, hkind] at hq
        cases hdl : depsLoop s n (c :: chain) (findDeps s c nx) with
        | error e => simp only [hdl] at hq ⊢; exact hq
        | ok ro => cases ro <;> (simp only [hdl] at hq ⊢; exact hq)
      | pull =>
        have hti : h.isTimeComp (cid c) = false := by rw [hr.isTime]; simp [Comp.isTime, hkind]
        have hsome := htgt (by simp [Comp.isTime, hkind])
        obtain ⟨t, ht⟩ := Option.isSome_iff_exists.mp hsome
        subst ht
        obtain ⟨dpy, hd1, hd2⟩ := tr_find_dependencies h s oid cid hr c t
        have hq := hQ c chain chainPy (findDeps s c t) dpy dpy _ hd2 hkL hdel
        simp only [hti, Bool.false_eq_true, if_false, Tr.update_recursive.join1, Py.unwrap, ok_bind, hd1]
        simp only [combined, hkind] at hq
        simp only [Option.getD_some]
        cases hdl : depsLoop s n (c :: chain) (findDeps s c t) with
        | error e => simp only [hdl] at hq ⊢; exact hq
        | ok ro => cases ro <;> (simp only [hdl] at hq ⊢; exact hq)

/-- **`Composition._update_recursive` is `updateRec`**, called as the run loop calls it (empty chain, no target):
    the same component is selected for the update, or the same error class is raised (circular coupling,
    finished dependency), for every heap that represents the state and every fuel. -/
theorem tr_update_recursive (h : Heap) (s : State) (oid cid : Nat → Nat) (hr : HeapRepr h s oid cid) (fuel c : Nat)
    (hc : (s.comp c).isTime = true) :
    Agrees cid [] (updateRec s fuel c [] none) (Tr.update_recursive h fuel (cid c) [] none) :=
  update_recursive_tr h s oid cid hr fuel c [] [] none (by intro c'; simp [dictHas]) (by simp [hc])

/-! ### the hypotheses are satisfiable: a concrete heap representing a concrete state

`A (step 1) >> DelayFixed(3) >> B (step 5)`: components are objects 10 and 11, A's output is object 20, the adapter 30,
B's input 40. -/

def exState : State :=
  { comps := [⟨.time 0 1 false, [], [], 0⟩, ⟨.time 0 5 false, [⟨[.dfix 3 0], 0, false⟩], [], 0⟩],
    outs := [⟨0, 0⟩], dp := [] }

def exHeap : Heap :=
  { isInput := fun x => x == 40 || x == 30, isOutput := fun x => x == 20 || x == 30, isAdapter := fun x => x == 30,
    isNoDep := fun _ => false, isDelay := fun x => x == 30, isNoBranch := fun _ => false,
    isTimeComp := fun x => x == 10 || x == 11, needsPush := fun _ => false, needsPull := fun _ => false,
    isStatic := fun _ => false, finished := fun _ => false, hasSource := fun x => x == 40 || x == 30,
    source := fun x => if x = 40 then 30 else 20, time := fun _ => 0,
    nextTime := fun x => if x = 10 then 1 else if x = 11 then 5 else 0,
    withDelay := fun _ t => (Ad.dfix 3 0).withDelay [] t, owner := fun _ => 10,
    inputs := fun x => if x = 11 then [40] else [], outputs := fun x => if x = 10 then [20] else [],
    targets := fun x => if x = 20 then [30] else if x = 30 then [40] else [], size := 5 }

theorem exRepr : HeapRepr exHeap exState (· + 20) (· + 10) where
  inputs := by
    intro c
    match c with
    | 0 => simp [exHeap, exState, State.comp]; exact .nil
    | 1 =>
      simp only [exHeap, exState, State.comp]
      refine .cons ⟨by simp, ?_, by simp, by simp⟩ .nil
      simp [ChainRepr, AdRepr]
    | c + 2 => simp [exHeap, exState, State.comp]; exact .nil
  owner := by intro o; match o with
    | 0 => simp [exHeap, exState, State.out]
    | o + 1 => simp [exHeap, exState, State.out]
  time := by intro o; match o with
    | 0 => simp [exHeap, exState, State.out]
    | o + 1 => simp [exHeap, exState, State.out]
  isTime := by intro c; match c with
    | 0 => simp [exHeap, exState, State.comp, Comp.isTime]
    | 1 => simp [exHeap, exState, State.comp, Comp.isTime]
    | c + 2 => simp [exHeap, exState, State.comp, Comp.isTime]
  nodep := by intro o; simp [exHeap]
  oinj := by intro a b h; simpa using h
  cinj := by intro a b h; simpa using h
  next := by intro c; match c with
    | 0 => simp [exHeap, exState, State.comp, getNext]
    | 1 => simp [exHeap, exState, State.comp, getNext]
    | c + 2 => simp [exHeap, exState, State.comp, getNext]
  fin := by intro c; match c with
    | 0 => simp [exHeap, exState, State.comp, isFinished]
    | 1 => simp [exHeap, exState, State.comp, isFinished]
    | c + 2 => simp [exHeap, exState, State.comp, isFinished]

/-- on the example both the model and (hence) the translated code select the producer `A` (object 10) when asked
    to update the consumer `B`: B announces 5, the delayed request is 2, A has only published 0 -/
example : updateRec exState 3 1 [] none = .ok (some 0) ∧
    ∃ ch, Tr.update_recursive exHeap 3 11 [] none = .ok (some 10, ch) := by
  have hm : updateRec exState 3 1 [] none = .ok (some 0) := by
    simp [updateRec, depsLoop, findDeps, exState, State.comp, State.out, walk, depsInsert, Comp.isTime, Ad.withDelay, imin]
  have := tr_update_recursive exHeap exState _ _ exRepr 3 1 (by simp [exState, State.comp, Comp.isTime])
  rw [hm] at this
  exact ⟨hm, this⟩

end Finam.Props.C02
