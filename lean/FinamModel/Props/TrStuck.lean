import FinamModel.PyPrelude
import FinamModel.Translated.connect_stuck
/-!
  C06 / C04 — whom the circular-coupling error of the connect phase names, on the *translated* comprehension
  `unconn = [m.name for m in self._components if m.status != ComponentStatus.CONNECTED]` of
  `Composition._connect_components` (`schedule.py`, a slice, regenerated on every run).  Components are named by their
  identity; the status table is the one the translated connect loop (`Props/TrConnect.lean`) maintains, `0` = CONNECTED.
-/
namespace Finam.Props.C06S
open Finam Finam.Py

def statusOf (st : List (Nat × Int)) (m : Nat) : Int := (dictGet? st m).getD (-1)

theorem tr_connect_stuck (comps : List Nat) (st : List (Nat × Int)) :
    Tr.connect_stuck comps st = .ok (comps.filter fun m => decide (statusOf st m ≠ 0)) := by
  unfold Tr.connect_stuck statusOf
  simp [pure, Except.pure]

/-- **the error names exactly the stuck components**: every listed component that is not CONNECTED, no other, each as
    often as it is listed, in listing order -/
theorem code_stuck_exact (comps : List Nat) (st : List (Nat × Int)) :
    ∃ names, Tr.connect_stuck comps st = .ok names ∧ (∀ m, m ∈ names ↔ m ∈ comps ∧ statusOf st m ≠ 0) ∧
      names.Sublist comps := by
  refine ⟨_, tr_connect_stuck comps st, ?_, List.filter_sublist⟩
  intro m
  simp [List.mem_filter]

/-- when every component is CONNECTED nobody is named -/
theorem code_stuck_none (comps : List Nat) (st : List (Nat × Int)) (h : ∀ m ∈ comps, statusOf st m = 0) :
    Tr.connect_stuck comps st = .ok [] := by
  rw [tr_connect_stuck]
  congr 1
  rw [List.filter_eq_nil_iff]
  intro m hm
  simp [h m hm]

example : Tr.connect_stuck [3, 5, 8] [(3, 0), (5, 2), (8, 1)] = .ok [5, 8] := by decide

end Finam.Props.C06S
