import FinamModel.Props.C01Run
/-!
  C01 / C13 on links behind a `DelayToPush` — **a pull through `DelayToPush` never fails**, whatever the schedule.

  `DelayToPush` forwards `min(t, newest publication)` to its source (`C13.code_DelayToPush_request`, on the translated
  `with_delay`) and cuts the dependency (`NoDependencyAdapter`): the driver does not wait for such a link, so the
  guarantee cannot come from the scheduler.  It comes from the output alone: as long as the output has published once
  and the raw requests of the end point do not go back behind what it was last served, every such pull is answered —
  also while other end points of the same output pull (and evict) in any admissible way, and whatever is published in
  between.  This closes the "DelayToPush on the way" case of C01's run-level statement at link level
  (`run_pulls_ok` / `run_pulls_okC` cover direct, fixed-delay and push-based links).
-/
namespace Finam.Props.C01Dpush
open Finam Finam.Props.C01Run

/-- events at one output: publications, pulls of ordinary end points, pulls of end points behind a `DelayToPush`
    (with the *raw* request time of the consumer) -/
inductive DEv where
  | push (t : Int)
  | pull (k : Nat) (t : Int)
  | dpull (k : Nat) (t : Int)

/-- what reaches the output for a raw request `t` through `DelayToPush` -/
def effReq (s : OState Unit) (t : Int) : Int :=
  match s.hist with
  | [] => t
  | e0 :: es => imin t (lastT e0 es)

def dstep (s : OState Unit) : DEv → OState Unit × Option (Except Err Unit)
  | .push t => stepImpl s (.push t ())
  | .pull k t => stepImpl s (.pull k t)
  | .dpull k t => stepImpl s (.pull k (effReq s t))

/-- admissible events: publications are newer than everything published; an ordinary end point does not go back in
    time; a `DelayToPush` end point's raw request is not before what it was last served, nor before the first
    publication -/
def DPre (s : OState Unit) : DEv → Prop
  | .push t => ∀ e ∈ s.hist, e.t < t
  | .pull k t => k < s.last.length ∧ ∀ a, s.last[k]? = some (some a) → a ≤ t
  | .dpull k t => k < s.last.length ∧ (∀ a, s.last[k]? = some (some a) → a ≤ t) ∧
      (∀ e0 es, s.hist = e0 :: es → e0.t ≤ t)

structure DInv (s : OState Unit) : Prop where
  inv : Inv2 s
  pub : s.hist ≠ []
  /-- no end point was ever served beyond the newest publication -/
  le : ∀ a, some a ∈ s.last → ∀ e0 es, s.hist = e0 :: es → a ≤ lastT e0 es

theorem lastT_append (e0 : Entry Unit) (es : List (Entry Unit)) (x : Entry Unit) : lastT e0 (es ++ [x]) = x.t := by
  induction es generalizing e0 with
  | nil => rfl
  | cons e es ih => simpa [lastT] using ih e

theorem exists_last (e0 : Entry Unit) (es : List (Entry Unit)) : ∃ e ∈ e0 :: es, e.t = lastT e0 es := by
  induction es generalizing e0 with
  | nil => exact ⟨e0, List.mem_cons_self, rfl⟩
  | cons e es ih =>
    obtain ⟨x, hx, hxt⟩ := ih e
    exact ⟨x, List.mem_cons_of_mem _ hx, by simpa [lastT] using hxt⟩

theorem mem_set_some (l : List (Option Int)) (k : Nat) (r a : Int) (h : some a ∈ l.set k (some r)) :
    a = r ∨ some a ∈ l := by
  rcases List.mem_or_eq_of_mem_set h with h | h
  · exact .inr h
  · left; cases h; rfl

/-- a served pull at `r ≤ newest` keeps the invariant -/
theorem dinv_pull_ok (s : OState Unit) (h : DInv s) (k : Nat) (r : Int) (hk : k < s.last.length)
    (hmono : ∀ a, s.last[k]? = some (some a) → a ≤ r) (e0 : Entry Unit) (es : List (Entry Unit)) (hh : s.hist = e0 :: es)
    (hlo : e0.t ≤ r) (hhi : r ≤ lastT e0 es) :
    (stepImpl s (.pull k r)).2 = some (.ok ()) ∧ DInv (stepImpl s (.pull k r)).1 := by
  obtain ⟨hans, hinv, hhist, hlast⟩ := pull_ok s h.inv k r hk hmono e0 es hh hlo hhi
  refine ⟨hans, hinv, by rw [hhist]; exact h.pub, ?_⟩
  intro a ha e0' es' hh'
  rw [hhist, hh] at hh'
  cases hh'
  rw [hlast] at ha
  rcases mem_set_some _ _ _ _ ha with ha | ha
  · subst ha; exact hhi
  · exact h.le a ha e0 es hh

/-- **one event**: the invariant is kept, and a pull through `DelayToPush` is answered -/
theorem dstep_ok (s : OState Unit) (h : DInv s) (ev : DEv) (hp : DPre s ev) :
    DInv (dstep s ev).1 ∧ (∀ k t, ev = .dpull k t → (dstep s ev).2 = some (.ok ())) := by
  obtain ⟨e0, es, hh⟩ : ∃ e0 es, s.hist = e0 :: es := by
    cases hs : s.hist with
    | nil => exact absurd hs h.pub
    | cons e0 es => exact ⟨e0, es, rfl⟩
  have hsorted : ∀ e ∈ e0 :: es, e.t ≤ lastT e0 es := sorted_le_last es e0 (hh ▸ h.inv.sorted)
  cases ev with
  | push t =>
    refine ⟨?_, fun k t' he => by cases he⟩
    have hpre : Pre s (.push t ()) := hp
    refine ⟨inv_step s h.inv _ hpre, ?_, ?_⟩
    · show s.hist ++ [⟨t, ()⟩] ≠ []
      simp
    · intro a ha e0' es' hh'
      have ha' : some a ∈ s.last := ha
      have hle := h.le a ha' e0 es hh
      have hnew : (stepImpl s (.push t ())).1.hist = e0 :: (es ++ [⟨t, ()⟩]) := by
        show s.hist ++ [⟨t, ()⟩] = _
        rw [hh]; rfl
      have hh'' : (stepImpl s (.push t ())).1.hist = e0' :: es' := hh'
      rw [hnew] at hh''
      cases hh''
      rw [lastT_append]
      have hlt : lastT e0 es < t := by
        obtain ⟨x, hx, hxt⟩ := exists_last e0 es
        have := hp x (hh ▸ hx)
        omega
      show a ≤ t
      omega
  | pull k t =>
    refine ⟨?_, fun k' t' he => by cases he⟩
    have hpre : Pre s (.pull k t) := hp
    by_cases hr : e0.t ≤ t ∧ t ≤ lastT e0 es
    · exact (dinv_pull_ok s h k t hp.1 hp.2 e0 es hh hr.1 hr.2).2
    · -- outside the published range: a time error, nothing changes
      have hans := answers_agree s h.inv.toInv (.pull k t) hpre
      have herr : lookup s.hist t = .error .timeErr := by
        rw [hh]
        apply (C08.lookup_range e0 es t).2
        by_cases h1 : t < e0.t
        · exact .inl h1
        · right; have : ¬ (t ≤ lastT e0 es) := fun h2 => hr ⟨by omega, h2⟩
          omega
      have hsame : (stepImpl s (.pull k t)).1 = s := by
        simp only [answerSpec, herr] at hans
        simp only [stepImpl] at hans ⊢
        cases hl : lookup s.ret t with
        | ok v => rw [hl] at hans; simp at hans
        | error e => rfl
      show DInv (stepImpl s (.pull k t)).1
      rw [hsame]; exact h
  | dpull k t =>
    have hreq : effReq s t = imin t (lastT e0 es) := by simp [effReq, hh]
    have hmin1 : imin t (lastT e0 es) ≤ lastT e0 es := by unfold imin; split <;> omega
    have hmin2 : ∀ a, a ≤ t → a ≤ lastT e0 es → a ≤ imin t (lastT e0 es) := by
      intro a h1 h2; unfold imin; split <;> omega
    obtain ⟨hk, hmono, hfirst⟩ := hp
    have hlo : e0.t ≤ imin t (lastT e0 es) := hmin2 _ (hfirst e0 es hh) (hsorted e0 List.mem_cons_self)
    have hm : ∀ a, s.last[k]? = some (some a) → a ≤ imin t (lastT e0 es) := by
      intro a ha
      exact hmin2 a (hmono a ha) (h.le a (List.mem_of_getElem? ha) e0 es hh)
    have := dinv_pull_ok s h k (imin t (lastT e0 es)) hk hm e0 es hh hlo hmin1
    simp only [dstep, hreq]
    exact ⟨this.2, fun _ _ _ => this.1⟩

def drun : OState Unit → List DEv → List (DEv × Option (Except Err Unit))
  | _, [] => []
  | s, ev :: evs => (ev, (dstep s ev).2) :: drun (dstep s ev).1 evs

def DPreAll : OState Unit → List DEv → Prop
  | _, [] => True
  | s, ev :: evs => DPre s ev ∧ DPreAll (dstep s ev).1 evs

/-- **C01 for links behind `DelayToPush`, every history**: along any admissible sequence of publications, pulls of
    other end points and pulls through `DelayToPush`, every pull through `DelayToPush` is answered — no time-range
    error, no no-data error. -/
theorem dpush_pulls_never_fail : ∀ (evs : List DEv) (s : OState Unit), DInv s → DPreAll s evs →
    ∀ k t a, (DEv.dpull k t, a) ∈ drun s evs → a = some (.ok ()) := by
  intro evs
  induction evs with
  | nil => intro s _ _ k t a h; cases h
  | cons ev evs ih =>
    intro s hi hp k t a hmem
    obtain ⟨hp1, hp2⟩ := hp
    obtain ⟨hinv, hans⟩ := dstep_ok s hi ev hp1
    simp only [drun, List.mem_cons] at hmem
    rcases hmem with h | h
    · cases h
      exact hans k t rfl
    · exact ih _ hinv hp2 k t a h

/-! ### non-vacuity: publications at 0, 4, 9; an ordinary end point 0 and a `DelayToPush` end point 1 that asks ahead of the
    producer (served the newest), then behind it -/

def ex0 : OState Unit := (stepImpl (initState Unit 2) (.push 0 ())).1

theorem ex0_inv : DInv ex0 := by
  refine ⟨inv_step _ (Finam.Props.C09.init_inv Unit 2) _ (by intro e he; cases he), by simp [ex0, stepImpl, initState], ?_⟩
  intro a ha
  simp [ex0, stepImpl, initState] at ha

def exEvs : List DEv := [.dpull 1 3, .pull 0 0, .push 4, .dpull 1 7, .pull 0 4, .push 9, .dpull 1 8, .pull 0 9, .dpull 1 9]

/-- the admissibility conditions as a computable test -/
def dpreB (s : OState Unit) : DEv → Bool
  | .push t => s.hist.all fun e => decide (e.t < t)
  | .pull k t => decide (k < s.last.length) && (match s.last[k]? with | some (some a) => decide (a ≤ t) | _ => true)
  | .dpull k t => decide (k < s.last.length) && (match s.last[k]? with | some (some a) => decide (a ≤ t) | _ => true) &&
      (match s.hist with | [] => true | e0 :: _ => decide (e0.t ≤ t))

def dpreAllB : OState Unit → List DEv → Bool
  | _, [] => true
  | s, ev :: evs => dpreB s ev && dpreAllB (dstep s ev).1 evs

theorem dpreB_sound (s : OState Unit) (ev : DEv) (h : dpreB s ev = true) : DPre s ev := by
  cases ev with
  | push t => intro e he; simpa using (List.all_eq_true.mp h) e he
  | pull k t =>
    simp only [dpreB, Bool.and_eq_true, decide_eq_true_eq] at h
    refine ⟨h.1, fun a ha => ?_⟩
    have := h.2; rw [ha] at this; simpa using this
  | dpull k t =>
    simp only [dpreB, Bool.and_eq_true, decide_eq_true_eq] at h
    refine ⟨h.1.1, fun a ha => ?_, fun e0 es hh => ?_⟩
    · have := h.1.2; rw [ha] at this; simpa using this
    · have := h.2; rw [hh] at this; simpa using this

theorem dpreAllB_sound : ∀ (evs : List DEv) (s : OState Unit), dpreAllB s evs = true → DPreAll s evs := by
  intro evs
  induction evs with
  | nil => intro _ _; trivial
  | cons ev evs ih =>
    intro s h
    simp only [dpreAllB, Bool.and_eq_true] at h
    exact ⟨dpreB_sound s ev h.1, ih _ h.2⟩

example : DPreAll ex0 exEvs := dpreAllB_sound _ _ (by decide)

example : (drun ex0 exEvs).map (·.2) =
    [some (.ok ()), some (.ok ()), none, some (.ok ()), some (.ok ()), none, some (.ok ()), some (.ok ()), some (.ok ())] := by
  decide

end Finam.Props.C01Dpush
