import FinamModel.PyPrelude
import FinamModel.Translated.Input_set_source
import FinamModel.Translated.Output_add_target
/-!
  C19 — linking (`out >> inp`), on the *translated* `Input.source` setter and `Output.add_target` (`sdk/input.py`,
  `sdk/output.py`, regenerated on every run): an input takes one source and keeps it, an output's targets grow by
  appending.  This is what makes the coupling graph the forest the topology model (`FinamModel/Validate.lean`) reads.
-/
namespace Finam.Props.C19K
open Finam Finam.Py

/-- attempts to set the source of one input, one after the other; a refused attempt changes nothing -/
def setAll (isOut : Nat → Bool) : Option Nat → List Nat → Option Nat
  | cur, [] => cur
  | cur, s :: rest =>
    match Tr.Input_set_source cur s isOut with
    | .ok cur' => setAll isOut cur' rest
    | .error _ => setAll isOut cur rest

/-- a second source is refused and the first one stays -/
theorem code_source_set_once (s0 s : Nat) (isOut : Nat → Bool) :
    Tr.Input_set_source (some s0) s isOut = .error .other := by
  unfold Tr.Input_set_source; simp [throw, throwThe, MonadExceptOf.throw]

/-- a fresh input accepts exactly an `IOutput` -/
theorem code_source_fresh (s : Nat) (isOut : Nat → Bool) :
    Tr.Input_set_source none s isOut = if isOut s then .ok (some s) else .error .other := by
  unfold Tr.Input_set_source
  cases h : isOut s <;> simp [pure, Except.pure, throw, throwThe, MonadExceptOf.throw]

/-- **an input has at most one source, the first `IOutput` it was given**: whatever sequence of `source = …` assignments
    is attempted, the input ends with the first acceptable one (or none), and once it has a source it never changes -/
theorem code_source_first_wins (isOut : Nat → Bool) : ∀ (attempts : List Nat),
    setAll isOut none attempts = attempts.find? (fun s => isOut s) := by
  have hkeep : ∀ (attempts : List Nat) (s0 : Nat), setAll isOut (some s0) attempts = some s0 := by
    intro attempts
    induction attempts with
    | nil => intro s0; rfl
    | cons s rest ih => intro s0; simp only [setAll, code_source_set_once]; exact ih s0
  intro attempts
  induction attempts with
  | nil => rfl
  | cons s rest ih =>
    simp only [setAll, code_source_fresh, List.find?_cons]
    cases h : isOut s with
    | true => simp only [if_true]; exact hkeep rest s
    | false => simp only [Bool.false_eq_true, if_false]; exact ih

/-- `add_target` appends an `IInput` and refuses anything else; the targets already there keep their places -/
theorem code_add_target (ts : List Nat) (t : Nat) (isIn : Nat → Bool) :
    Tr.Output_add_target ts t isIn = if isIn t then .ok (ts ++ [t]) else .error .other := by
  unfold Tr.Output_add_target
  cases h : isIn t <;> simp [pure, Except.pure, throw, throwThe, MonadExceptOf.throw]

example : setAll (fun s => s ≥ 10) none [3, 12, 11, 4] = some 12 := by
  rw [code_source_first_wins]; rfl

end Finam.Props.C19K
