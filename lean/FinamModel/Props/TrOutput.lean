import FinamModel.Output
import FinamModel.Translated.Output__interpolate
import FinamModel.Props.TrTime
/-
  Equivalence of the translated `Output._interpolate` (regenerated from `finam/sdk/output.py`) with the
  hand-written `lookup` of the C08 / C09 theorems.
-/
namespace Finam.Props.C08
open Finam Finam.Py Finam.Props.C11

theorem lookup_loop {α} (full : List (Int × α)) (t : Int) :
    ∀ (suf : List (Int × α)) (k : Int) (p : Int × α), idx full (k - 1) = .ok p → SufAt full suf k →
      Tr.Output__interpolate.loop1 full t (enumFrom k suf) = lookupAux ⟨p.1, p.2⟩ (toE suf) t := by
  intro suf
  induction suf with
  | nil => intro k p _ _; rfl
  | cons e suf ih =>
    intro k p hp hs
    obtain ⟨t', v⟩ := e
    simp only [enumFrom, Tr.Output__interpolate.loop1, toE_cons, lookupAux]
    by_cases h1 : t > t'
    · have := ih (k + 1) (t', v) (sufAt_tail hs).2 (sufAt_tail hs).1
      simp [h1, this]
    · by_cases h2 : t = t'
      · simp [h2]
      · simp only [h1, h2, if_false, hp, ok_bind]
        by_cases h3 : t - p.1 < t' - t <;> simp [h3]

theorem lastE_t {α} (e0 : Entry α) (es : List (Entry α)) : (TA.lastE e0 es).t = lastT e0 es := by
  induction es generalizing e0 with
  | nil => rfl
  | cons e es ih => simp [TA.lastE, lastT, ih]

/-- `Output._interpolate` = `lookup` on every non-empty history, for every request: the range test, the exact
    hit, the nearest-publication rule with the earlier one at the midpoint.  (`get_data` tests `len(self.data) == 0`
    before calling `_interpolate`; on an empty history the Python function itself would raise `IndexError`.) -/
theorem tr_Output__interpolate {α} (p : Int × α) (r : List (Int × α)) (t : Int) :
    Tr.Output__interpolate (p :: r) t = lookup (toE (p :: r)) t := by
  unfold Tr.Output__interpolate
  simp only [idx_zero_cons, ok_bind, toE_cons, lookup, idx_last p r, lastE_t]
  by_cases h0 : t < p.1
  · simp [h0]
  · by_cases h1 : t > lastT ⟨p.1, p.2⟩ (toE r)
    · simp [h0, h1]
    · simp only [h0, h1, if_false, or_self, enumerate]
      rw [enumFrom, Tr.Output__interpolate.loop1]
      by_cases h2 : t > p.1
      · have := lookup_loop (p :: r) t r (0 + 1) p (by simp) (sufAt_tail (sufAt_self _)).1
        have hne : ¬ t = p.1 := by omega
        simp only [Int.zero_add] at this
        simp [h2, hne, this]
      · have : t = p.1 := by omega
        simp [this]

end Finam.Props.C08
