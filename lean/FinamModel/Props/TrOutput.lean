import FinamModel.Output
import FinamModel.Translated.Output__interpolate
import FinamModel.Translated.Output__clear_data
import FinamModel.Translated.Output_get_data
import FinamModel.Translated.push_data_gate
import FinamModel.Translated.Output_push_data
import FinamModel.Translated.Output_info
import FinamModel.Translated.Output_pinged
import FinamModel.Translated.Adapter_pinged
import FinamModel.Static
import FinamModel.Props.C09
import FinamModel.Props.C08
import FinamModel.Props.TrCommon
import FinamModel.Props.TrOutputCommon
/-
  Equivalence of the translated `Output._interpolate` (regenerated from `finam/sdk/output.py`) with the
  hand-written `lookup` of the C08 / C09 theorems.
-/
namespace Finam.Props.C08
open Finam Finam.Py Finam.Props.C11

theorem lookup_loop {α} (full : List (Int × α)) (t : Int) :
    ∀ (suf : List (Int × α)) (k : Int) (p : Int × α), idx full (k - 1) = .ok p → SufAt full suf k →
      Tr.Output__interpolate.loop1 full t (enumFrom k suf) = lookupAux ⟨p.1, p.2⟩ (toE suf) t := by
  intro suf
  induction suf with
  | nil => intro k p _ _; rfl
  | cons e suf ih =>
    intro k p hp hs
    obtain ⟨t', v⟩ := e
    simp only [enumFrom, Tr.Output__interpolate.loop1, toE_cons, lookupAux]
    by_cases h1 : t > t'
    · have := ih (k + 1) (t', v) (sufAt_tail hs).2 (sufAt_tail hs).1
      simp [h1, this]
    · by_cases h2 : t = t'
      · simp [h2]
      · simp only [h1, h2, if_false, hp, ok_bind]
        by_cases h3 : t - p.1 < t' - t <;> simp [h3]

theorem lastE_t {α} (e0 : Entry α) (es : List (Entry α)) : (TA.lastE e0 es).t = lastT e0 es := by
  induction es generalizing e0 with
  | nil => rfl
  | cons e es ih => simp [TA.lastE, lastT, ih]

/-- `Output._interpolate` = `lookup` on every non-empty history, for every request: the range test, the exact
    hit, the nearest-publication rule with the earlier one at the midpoint.  (`get_data` tests `len(self.data) == 0`
    before calling `_interpolate`; on an empty history the Python function itself would raise `IndexError`.) -/
theorem tr_Output__interpolate {α} (p : Int × α) (r : List (Int × α)) (t : Int) :
    Tr.Output__interpolate (p :: r) t = lookup (toE (p :: r)) t := by
  unfold Tr.Output__interpolate
  simp only [idx_zero_cons, ok_bind, toE_cons, lookup, idx_last p r, lastE_t]
  by_cases h0 : t < p.1
  · simp [h0]
  · by_cases h1 : t > lastT ⟨p.1, p.2⟩ (toE r)
    · simp [h0, h1]
    · simp only [h0, h1, if_false, or_self, enumerate]
      rw [enumFrom, Tr.Output__interpolate.loop1]
      by_cases h2 : t > p.1
      · have := lookup_loop (p :: r) t r (0 + 1) p (by simp) (sufAt_tail (sufAt_self _)).1
        have hne : ¬ t = p.1 := by omega
        simp only [Int.zero_add] at this
        simp [h2, hne, this]
      · have : t = p.1 := by omega
        simp [this]

/-- **C08 on the code, nearest publication.**  Whatever the *translated* `Output._interpolate` serves for `t` from a
    sorted history is the payload of a publication whose time is nearest to `t` among everything retained. -/
theorem code_interpolate_nearest {α} (p : Int × α) (r : List (Int × α)) (t : Int) (v : α)
    (hs : Sorted (toE (p :: r))) (h : Tr.Output__interpolate (p :: r) t = .ok v) :
    ∃ e ∈ toE (p :: r), e.v = v ∧ ∀ e' ∈ toE (p :: r), dist t e.t ≤ dist t e'.t := by
  rw [tr_Output__interpolate] at h
  exact lookup_nearest _ t v hs h

/-- **C08 on the code, served range.**  The translated `Output._interpolate` serves exactly the requests between the
    oldest retained and the newest publication and refuses everything outside with a time error. -/
theorem code_interpolate_range {α} (p : Int × α) (r : List (Int × α)) (t : Int) :
    (p.1 ≤ t ∧ t ≤ lastT ⟨p.1, p.2⟩ (toE r) → ∃ v, Tr.Output__interpolate (p :: r) t = .ok v) ∧
    (t < p.1 ∨ lastT ⟨p.1, p.2⟩ (toE r) < t → Tr.Output__interpolate (p :: r) t = .error .timeErr) := by
  rw [tr_Output__interpolate]
  exact lookup_range ⟨p.1, p.2⟩ (toE r) t

end Finam.Props.C08

namespace Finam.Props.C09
open Finam Finam.Py Finam.Props.C11

/-- the eviction loop of `Output._clear_data` is `evict` (and the fuel `len + 1` is enough) -/
theorem evict_while {α} (ci : List (Nat × Option Int)) (tmin : Int) : ∀ (fuel : Nat) (d : List (Int × α)), d.length < fuel →
    Tr.Output__clear_data.while1 d ci tmin fuel = .ok (ofE (evict (toE d) tmin)) := by
  intro fuel
  induction fuel with
  | zero => intro d h; omega
  | succ fuel ih =>
    intro d h
    unfold Tr.Output__clear_data.while1
    match d with
    | [] => simp [evict, ofE]
    | [p] => simp [evict, ofE]
    | p :: q :: r =>
      have hl : Py.len r + 1 + 1 > 1 := by have := len_nonneg r; omega
      have hi : idx (p :: q :: r) 1 = .ok q := by simpa using idx_nat (p :: q :: r) 1 q (by simp)
      simp only [len_cons, hl, if_true, hi, ok_bind, toE_cons, evict]
      by_cases hc : q.1 ≤ tmin
      · have := ih (q :: r) (by simp at h ⊢; omega)
        simp only [toE_cons] at this
        simp [hc, Py.pop0, this]
      · simp [hc, ofE]
        exact (ofE_toE r).symm

/-- **`Output._clear_data` is the bookkeeping step of the model's `stepImpl`**: the request is recorded for the
    pulling end point, and once every end point has pulled the history is evicted up to the smallest recorded request. -/
theorem tr_Output__clear_data {α} (d : List (Int × α)) (ci : List (Nat × Option Int)) (k target : Nat) (t : Int)
    (hnd : (ci.map Prod.fst).Nodup) (hk : (ci.map Prod.fst)[k]? = some target) :
    ∃ ci', Tr.Output__clear_data d ci t target = .ok (ci',
        ofE (match minLast ((ci.map Prod.snd).set k (some t)) with
             | some m => if Finam.allSome ((ci.map Prod.snd).set k (some t)) then evict (toE d) m else toE d
             | none => toE d)) ∧
      ci'.map Prod.snd = (ci.map Prod.snd).set k (some t) ∧ ci'.map Prod.fst = ci.map Prod.fst := by
  obtain ⟨hv, hf⟩ := dictSet_values ci k target (some t) hnd hk
  refine ⟨Py.dictSet ci target (some t), ?_, hv, hf⟩
  unfold Tr.Output__clear_data
  simp only [hv]
  have hspec := allSome_spec ((ci.map Prod.snd).set k (some t))
  cases hany : ((ci.map Prod.snd).set k (some t)).any (fun t => decide (t.isNone = true)) with
  | true =>
    have hall := hspec.2 hany
    simp only [if_true, hall]
    cases minLast ((ci.map Prod.snd).set k (some t)) <;> simp [ofE, ofE_toE]
  | false =>
    obtain ⟨xs, h1, h2, h3⟩ := hspec.1 hany
    have hne : xs ≠ [] := by
      intro e; subst e
      have hlen := congrArg List.length h1
      have hkl : k < (ci.map Prod.fst).length := by
        cases Nat.lt_or_ge k (ci.map Prod.fst).length with
        | inl h => exact h
        | inr hc =>
          have := List.getElem?_eq_none hc
          rw [this] at hk; cases hk
      simp only [List.length_set, List.length_map, List.length_nil] at hlen hkl
      omega
    cases xs with
    | nil => exact absurd rfl hne
    | cons x xs =>
      have hmin : minLast ((ci.map Prod.snd).set k (some t)) = some (rmin x xs) := by rw [h1]; exact minLast_some x xs
      simp only [Bool.false_eq_true, if_false, Py.minOptList, h2, ok_bind, Py.minList, foldl_rmin, hmin, h3, if_true]
      have := evict_while (Py.dictSet ci target (some t)) (rmin x xs) (Int.toNat (Py.len d) + 1) d (by simp [Py.len])
      simp [this]

/-- **`Output.get_data` of a non-static output** (metadata exchanged with every end point, something published):
    the nearest-publication `lookup`, then the bookkeeping / eviction step — one `pull` event of the C09 model;
    a failing lookup changes nothing. -/
theorem tr_Output_get_data {α} (d : List (Int × α)) (ci : List (Nat × Option Int)) (ex : Int) (k target : Nat) (t : Int)
    (hex : ¬ ex < Py.len ci) (hd : d ≠ [])
    (hnd : (ci.map Prod.fst).Nodup) (hk : (ci.map Prod.fst)[k]? = some target) :
    match lookup (toE d) t with
    | .error e => Tr.Output_get_data (some ()) ex ci d false t target = .error e
    | .ok v => ∃ ci', Tr.Output_get_data (some ()) ex ci d false t target = .ok (v, ci',
        ofE (match minLast ((ci.map Prod.snd).set k (some t)) with
             | some m => if Finam.allSome ((ci.map Prod.snd).set k (some t)) then evict (toE d) m else toE d
             | none => toE d)) ∧
        ci'.map Prod.snd = (ci.map Prod.snd).set k (some t) ∧ ci'.map Prod.fst = ci.map Prod.fst := by
  cases d with
  | nil => exact absurd rfl hd
  | cons p r =>
    have hl : ¬ (Py.len r + 1 = 0) := by have := len_nonneg r; omega
    have hi := Finam.Props.C08.tr_Output__interpolate p r t
    unfold Tr.Output_get_data
    simp only [Option.isNone_some, Bool.false_eq_true, if_false, hex, len_cons, hl, hi]
    cases hlk : lookup (toE (p :: r)) t with
    | error e => simp
    | ok v =>
      obtain ⟨ci', h1, h2, h3⟩ := tr_Output__clear_data (p :: r) ci k target t hnd hk
      refine ⟨ci', ?_, h2, h3⟩
      simp only [ok_bind, Tr.Output_get_data.join1, Bool.false_eq_true, not_false_eq_true, if_true, h1,
        Tr.Output_get_data.join2, ite_self, pure_eq_ok]

/-! ### C09 on the regenerated code

An output whose pulls are answered by the *translated* `Output.get_data` and whose publications enter through the
*translated* `Output.push_data` (the payload as `tools.prepare` returns it), with `n` registered end points. -/

/-- **`Output.push_data`** (non-static path; `tools.prepare` and the aliasing test are not translated): with every
    registered end point's metadata exchanged the prepared payload is appended with its time and the output's time is
    set; with an exchange outstanding it is a no-data error; without targets nothing happens -/
theorem tr_Output_push_data {α} (ci : List (Nat × Option Int)) (data : List (Int × α)) (tm : Option Int) (t : Int) (v : α)
    (ex : Int) (hex : Py.len ci ≤ ex) :
    Tr.Output_push_data true ex ci data false tm t v = .ok (some t, data ++ [(t, v)]) := by
  have hex' : (ci.length : Int) ≤ ex := by simpa [Py.len] using hex
  have h' : ¬ ex < (ci.length : Int) := by omega
  unfold Tr.Output_push_data Tr.Output_push_data.join1 Tr.Output_push_data.join2 Tr.Output_push_data.join3
  cases data with
  | nil => simp [h', hex', Py.len, pure, Except.pure]
  | cons e es =>
    have hl : ¬ ((es.length : Int) + 1 ≤ 0) := by omega
    have hi := idx_last e es
    simp [h', hex', hl, hi, Py.len, bind, Except.bind, pure, Except.pure]

theorem tr_Output_push_data_outstanding {α} (ci : List (Nat × Option Int)) (data : List (Int × α)) (tm : Option Int) (t : Int)
    (v : α) (ex : Int) (hex : ex < Py.len ci) :
    Tr.Output_push_data true ex ci data false tm t v = .error .noData := by
  have hex' : ex < (ci.length : Int) := by simpa [Py.len] using hex
  unfold Tr.Output_push_data
  simp [hex', Py.len]

theorem tr_Output_push_data_unconnected {α} (ci : List (Nat × Option Int)) (data : List (Int × α)) (tm : Option Int) (t : Int)
    (v : α) (ex : Int) :
    Tr.Output_push_data false ex ci data false tm t v = .ok (tm, data) := by
  unfold Tr.Output_push_data
  simp [pure, Except.pure]

/-- **`Output.info`** (what `ConnectHelper` reads to learn whether an output's exchange is complete): the metadata is
    handed out exactly when the output holds an info and — if it has targets — every end point that pinged it has
    exchanged its metadata; otherwise a no-data error.  The same gate sits in front of `push_data` and `get_data`
    (`tr_Output_push_data_outstanding`, `tr_Output_get_data`). -/
theorem tr_Output_info (hasInfo hasTargets : Bool) (ex : Int) (ci : List (Nat × Option Int)) :
    Tr.Output_info hasInfo hasTargets ex ci =
      if hasInfo = true ∧ (hasTargets = false ∨ Py.len ci ≤ ex) then .ok () else .error .noData := by
  unfold Tr.Output_info
  cases hasInfo <;> cases hasTargets <;> simp [pure, Except.pure] <;>
    (by_cases h : ex < Py.len ci <;> simp [h] <;> omega)

structure CodeOut (α : Type) where
  data : List (Int × α)
  ci : List (Nat × Option Int)

def codeInit (α : Type) (n : Nat) : CodeOut α := ⟨[], (List.range n).map fun k => (k, none)⟩

def codeStep {α} (s : CodeOut α) : Ev α → CodeOut α × Option (Except Err α)
  | .push t v =>
    match Tr.Output_push_data true (Py.len s.ci) s.ci s.data false none t v with
    | .ok (_, data') => (⟨data', s.ci⟩, none)
    | .error _ => (s, none)
  | .pull k t =>
    match Tr.Output_get_data (some ()) (Py.len s.ci) s.ci s.data false t k with
    | .ok (v, ci', data') => (⟨data', ci'⟩, some (.ok v))
    | .error e => (s, some (.error e))

def codeRun {α} : CodeOut α → List (Ev α) → List (Option (Except Err α))
  | _, [] => []
  | s, ev :: evs => (codeStep s ev).2 :: codeRun (codeStep s ev).1 evs

/-- the code state represents the model state -/
structure CodeRel {α} (n : Nat) (c : CodeOut α) (s : OState α) : Prop where
  data : toE c.data = s.ret
  vals : c.ci.map Prod.snd = s.last
  keys : c.ci.map Prod.fst = List.range n

theorem toE_append {α} (a b : List (Int × α)) : toE (a ++ b) = toE a ++ toE b := by simp [toE]

theorem get_data_nodata {α} (ci : List (Nat × Option Int)) (ex : Int) (t : Int) (target : Nat) :
    Tr.Output_get_data (some ()) ex ci ([] : List (Int × α)) false t target = .error .noData := by
  unfold Tr.Output_get_data
  by_cases h : ex < Py.len ci <;> simp [h]

theorem code_step_sim {α} (n : Nat) (c : CodeOut α) (s : OState α) (hr : CodeRel n c s) (ev : Ev α)
    (hp : preB s ev = true) :
    (codeStep c ev).2 = (stepImpl s ev).2 ∧ CodeRel n (codeStep c ev).1 (stepImpl s ev).1 := by
  cases ev with
  | push t v =>
    have hp' := tr_Output_push_data c.ci c.data none t v (Py.len c.ci) (Int.le_refl _)
    simp only [codeStep, hp']
    refine ⟨rfl, ?_, hr.vals, hr.keys⟩
    show toE (c.data ++ [(t, v)]) = s.ret ++ [⟨t, v⟩]
    rw [toE_append, hr.data]; rfl
  | pull k t =>
    have hk : k < s.last.length := by
      simp only [preB, Bool.and_eq_true, decide_eq_true_eq] at hp; exact hp.1
    have hlen : s.last.length = n := by
      rw [← hr.vals]; have := congrArg List.length hr.keys; simpa using this
    have hkey : (c.ci.map Prod.fst)[k]? = some k := by
      rw [hr.keys, List.getElem?_range (by omega)]
    have hnd : (c.ci.map Prod.fst).Nodup := by rw [hr.keys]; exact List.nodup_range
    obtain ⟨cd, cci⟩ := c
    obtain ⟨hdata, hvals, hkeys⟩ := hr
    simp only at hdata hvals hkeys hkey hnd
    cases cd with
    | nil =>
      have hret : s.ret = [] := by rw [← hdata]; rfl
      simp only [codeStep, get_data_nodata, stepImpl, hret, lookup]
      refine ⟨by first | rfl | trivial, ⟨?_, hvals, hkeys⟩⟩
      simp [hret]
    | cons p r =>
      have hmain := tr_Output_get_data (p :: r) cci (Py.len cci) k k t (by omega) (by simp) hnd hkey
      have hret : s.ret = toE (p :: r) := by rw [← hdata]
      simp only [codeStep, stepImpl, hret]
      cases hl : lookup (toE (p :: r)) t with
      | error e =>
        rw [hl] at hmain
        simp only [hmain]
        refine ⟨by first | rfl | trivial, ⟨?_, hvals, hkeys⟩⟩
        first | exact hret.symm | exact hdata | (simp only []; exact hret.symm)
      | ok v =>
        rw [hl] at hmain
        obtain ⟨ci', h1, h2, h3⟩ := hmain
        simp only [h1]
        refine ⟨by first | rfl | trivial, ⟨?_, ?_, ?_⟩⟩
        · simp only [toE_ofE, hvals]
          cases minLast (s.last.set k (some t)) <;> simp
        · simp only [h2, hvals]
        · simp only [h3, hkeys]

theorem code_run_sim {α} (n : Nat) : ∀ (evs : List (Ev α)) (c : CodeOut α) (s : OState α), CodeRel n c s →
    preAllB s evs = true → codeRun c evs = (runBoth s evs).map (·.1) := by
  intro evs
  induction evs with
  | nil => intro c s _ _; rfl
  | cons ev evs ih =>
    intro c s hr hp
    simp only [preAllB, Bool.and_eq_true] at hp
    obtain ⟨h1, h2⟩ := code_step_sim n c s hr ev hp.1
    simp only [codeRun, runBoth, List.map_cons, h1]
    rw [ih _ _ h2 hp.2]

/-- **C09 on the code.**  For every interleaving of publications (increasing times) and pulls by `n` end points
    (non-decreasing requests per end point), every pull answered by the *translated* `Output.get_data` returns what an
    output with unlimited history returns — nothing a consumer may still request has been discarded by the translated
    `_clear_data`. -/
theorem code_evict_refines_unbounded {α} (n : Nat) (evs : List (Ev α))
    (h : preAllB (initState α n) evs = true) :
    codeRun (codeInit α n) evs = (runBoth (initState α n) evs).map (·.2) := by
  have hrel : CodeRel n (codeInit α n) (initState α n) :=
    ⟨rfl, by
      simp only [codeInit, initState, List.map_map, Function.comp_def]
      clear h
      induction n with
      | zero => rfl
      | succ n ih => simp [List.range_succ, List.replicate_succ', ih],
     by simp [codeInit, List.map_map, Function.comp_def]⟩
  rw [code_run_sim n evs _ _ hrel h]
  apply List.map_congr_left
  intro p hp
  exact evict_refines_unbounded n evs h p hp

/-- non-vacuity: the two-consumer history of `Props/C09.lean` (with evictions) run through the translated code -/
example : codeRun (codeInit Nat 2) exEvs =
    [none, some (.ok 0), some (.ok 0), none, some (.ok 1), none, some (.ok 1), some (.ok 2), some (.ok 2)] := by
  have h := code_evict_refines_unbounded 2 exEvs (by decide)
  rw [h]; decide

/-! ### the ping phase: who is an end point of an output -/

/-- **`Output.pinged`**: the pinging input (or push-based adapter) becomes an end point that has not pulled yet; a plain input
    pinging a second time is an error; an adapter may ping again (a branching pass-through adapter pings once per target) -/
theorem tr_Output_pinged (ci : List (Nat × Option Int)) (src : Nat) (isAd : Nat → Bool) :
    Tr.Output_pinged ci src isAd =
      if !isAd src && Py.dictHas ci src then .error .other else .ok (Py.dictSet ci src none) := by
  unfold Tr.Output_pinged
  cases isAd src <;> cases Py.dictHas ci src <;> simp [throw, throwThe, MonadExceptOf.throw, pure, Except.pure]

/-- **`Adapter.pinged`**: a push-based adapter announces *itself* upstream (it is the output's end point: it pulls when
    notified), a pass-through adapter passes the pinging input on -/
theorem tr_Adapter_pinged (needsPush : Bool) (ann : List Nat) (src me : Nat) :
    Tr.Adapter_pinged needsPush ann src me = .ok (ann ++ [if needsPush then me else src]) := by
  cases needsPush <;> simp [Tr.Adapter_pinged, Py.recordPush, bind, Except.bind, pure, Except.pure]

/-- **the end point of a link, on the code**: pinging through a chain of adapters (the one next to the input first) announces
    to the output the first push-based adapter seen from the output's side — or the input itself when there is none -/
def announceChain (me : Nat) : List (Nat × Bool) → Nat
  | [] => me
  | (a, push) :: rest => announceChain (if push then a else me) rest

theorem code_ping_chain (src : Nat) : ∀ (chain : List (Nat × Bool)) (cur : Nat),
    (chain.foldl (fun acc ad => match Tr.Adapter_pinged ad.2 [] acc ad.1 with
        | .ok [x] => x
        | _ => acc) cur) = announceChain cur chain := by
  intro chain
  induction chain with
  | nil => intro cur; rfl
  | cons ad rest ih =>
    intro cur
    obtain ⟨a, push⟩ := ad
    simp only [List.foldl_cons, tr_Adapter_pinged, List.nil_append, announceChain]
    exact ih _

end Finam.Props.C09

namespace Finam.Props.C20
open Finam Finam.Py

/-- **`Output.get_data` of a static output** serves its one publication unchanged for every request time and every
    requesting end point, and changes nothing (no bookkeeping, no eviction): `SOut.get`. -/
theorem tr_Output_get_data_static {α} (p : Int × α) (r : List (Int × α)) (ci : List (Nat × Option Int)) (ex : Int)
    (t : Int) (target : Nat) (hex : ¬ ex < Py.len ci) :
    Tr.Output_get_data (some ()) ex ci (p :: r) true t target = .ok (p.2, ci, p :: r) ∧
    (SOut.get ⟨some p.2⟩ (some t) = .ok p.2) := by
  have hl : ¬ (Py.len r + 1 = 0) := by have := len_nonneg r; omega
  constructor
  · unfold Tr.Output_get_data
    simp [hex, hl, Tr.Output_get_data.join1, Tr.Output_get_data.join2]
  · rfl

/-- before anything is published (or before the metadata exchange is complete) every request is answered with
    "no data" -/
theorem tr_Output_get_data_nodata {α} (ci : List (Nat × Option Int)) (ex : Int) (st : Bool) (t : Int) (target : Nat) :
    Tr.Output_get_data (some ()) ex ci ([] : List (Int × α)) st t target = .error .noData := by
  unfold Tr.Output_get_data
  by_cases h : ex < Py.len ci <;> simp [h]

/-- **`Output.push_data`, the decision before the payload is prepared** (translated slice): a publication is refused
    with "no data" while the metadata exchange with a connected end point is outstanding; a static output accepts its
    first publication (and drops the time) and refuses every further one with a static-data error — `SOut.push`; a
    non-static output lets every publication through with its time. -/
theorem tr_push_data_gate {α} (ci : List (Nat × Option Int)) (ex : Int) (d : List (Int × α)) (st : Bool)
    (t : Option Int) (hex : ¬ ex < Py.len ci) :
    Tr.push_data_gate true ex ci d st t =
      (if st then (if d = [] then .ok none else .error .staticErr) else .ok t) := by
  unfold Tr.push_data_gate
  cases st with
  | false => simp [hex, Tr.push_data_gate.join1]
  | true =>
    cases d with
    | nil => simp [hex, Tr.push_data_gate.join1]
    | cons p r =>
      have : Py.len r + 1 > 0 := by have := len_nonneg r; omega
      simp [hex, this]

theorem tr_push_data_gate_static {α} (ci : List (Nat × Option Int)) (ex : Int) (d : List (Int × α)) (t : Option Int)
    (v : α) (hex : ¬ ex < Py.len ci) :
    (Tr.push_data_gate true ex ci d true t).isOk = (SOut.push ⟨d.head?.map Prod.snd⟩ v).isOk := by
  rw [tr_push_data_gate ci ex d true t hex]
  cases d <;> simp [SOut.push, Except.isOk, Except.toBool]

theorem tr_push_data_gate_not_exchanged {α} (ci : List (Nat × Option Int)) (ex : Int) (d : List (Int × α)) (st : Bool)
    (t : Option Int) (hex : ex < Py.len ci) :
    Tr.push_data_gate true ex ci d st t = .error .noData := by
  unfold Tr.push_data_gate
  simp [hex]

end Finam.Props.C20
