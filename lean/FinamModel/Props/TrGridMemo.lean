import FinamModel.PyPrelude
import FinamModel.Translated.RectilinearGrid_data_shape
import FinamModel.Translated.RectilinearGrid_data_size
import FinamModel.Translated.RectilinearGrid_set_data_location
/-!
  C14, last sentence — "data shape, data size and data points always reflect the current data location, whatever was
  read or set before" — on the *translated* memoised getters `RectilinearGrid.data_shape` / `data_size` and the
  `data_location` setter (`data/grid_spec.py`, regenerated on every run).

  What the base classes compute for a location (`super().data_shape`, `super().data_size`) are the parameters
  `shapeOf` / `sizeOf`; `_check_location` is `checkLoc` (returns the location or raises).  `data_points` is not memoised.
-/
namespace Finam.Props.C14T
open Finam Finam.Py

/-- the three attributes of a grid object the memo lives in -/
structure M where
  loc : Nat
  shape : Option (List Int)
  size : Option Int
deriving Repr

inductive Op where
  | readShape | readSize
  | setLoc (l : Nat)

inductive Out where
  | shape (s : Option (List Int))
  | size (n : Option Int)
  | unit
deriving DecidableEq, Repr

section
variable (shapeOf : Nat → List Int) (sizeOf : Nat → Int) (checkLoc : Nat → Except Err Nat)

/-- one access, through the translated methods -/
def stepCode (m : M) : Op → Except Err (M × Out)
  | .readShape => (Tr.RectilinearGrid_data_shape m.shape (shapeOf m.loc)).map fun r => ({ m with shape := r.2 }, .shape r.1)
  | .readSize => (Tr.RectilinearGrid_data_size m.size (sizeOf m.loc)).map fun r => ({ m with size := r.2 }, .size r.1)
  | .setLoc l => (Tr.RectilinearGrid_set_data_location m.loc m.shape m.size l checkLoc).map fun r =>
      ({ loc := r.1, shape := r.2.1, size := r.2.2 }, .unit)

/-- the same access without any memo: the answer is what the current location gives -/
def stepSpec (loc : Nat) : Op → Except Err (Nat × Out)
  | .readShape => .ok (loc, .shape (some (shapeOf loc)))
  | .readSize => .ok (loc, .size (some (sizeOf loc)))
  | .setLoc l => (checkLoc l).map fun l' => (l', .unit)

/-- a memo field is empty or holds the value of the current location -/
def Inv (m : M) : Prop :=
  (m.shape = none ∨ m.shape = some (shapeOf m.loc)) ∧ (m.size = none ∨ m.size = some (sizeOf m.loc))

theorem step_refines (m : M) (op : Op) (hi : Inv shapeOf sizeOf m) :
    (stepCode shapeOf sizeOf checkLoc m op).map (fun r => (r.1.loc, r.2)) = stepSpec shapeOf sizeOf checkLoc m.loc op ∧
    ∀ m' o, stepCode shapeOf sizeOf checkLoc m op = .ok (m', o) → Inv shapeOf sizeOf m' := by
  obtain ⟨hs, hz⟩ := hi
  cases op with
  | readShape =>
    unfold stepCode stepSpec Tr.RectilinearGrid_data_shape Tr.RectilinearGrid_data_shape.join1
    rcases hs with hs | hs
    · simp only [hs, Option.isNone_none, if_true, pure, Except.pure, Except.map]
      refine ⟨by first | rfl | trivial, ?_⟩
      intro m' o h
      injection h with h; injection h with h1 h2; subst h1
      exact ⟨.inr rfl, hz⟩
    · simp only [hs, Option.isNone_some, Bool.false_eq_true, if_false, pure, Except.pure, Except.map]
      refine ⟨by first | rfl | trivial, ?_⟩
      intro m' o h
      injection h with h; injection h with h1 h2; subst h1
      exact ⟨.inr rfl, hz⟩
  | readSize =>
    unfold stepCode stepSpec Tr.RectilinearGrid_data_size Tr.RectilinearGrid_data_size.join1
    rcases hz with hz | hz
    · simp only [hz, Option.isNone_none, if_true, pure, Except.pure, Except.map]
      refine ⟨by first | rfl | trivial, ?_⟩
      intro m' o h
      injection h with h; injection h with h1 h2; subst h1
      exact ⟨hs, .inr rfl⟩
    · simp only [hz, Option.isNone_some, Bool.false_eq_true, if_false, pure, Except.pure, Except.map]
      refine ⟨by first | rfl | trivial, ?_⟩
      intro m' o h
      injection h with h; injection h with h1 h2; subst h1
      exact ⟨hs, .inr rfl⟩
  | setLoc l =>
    unfold stepCode stepSpec Tr.RectilinearGrid_set_data_location
    cases hc : checkLoc l with
    | error e => simp [hc, bind, Except.bind, Except.map]
    | ok l' =>
      simp only [hc, bind, Except.bind, pure, Except.pure, Except.map]
      refine ⟨by first | rfl | trivial, ?_⟩
      intro m' o h
      injection h with h; injection h with h1 h2; subst h1
      exact ⟨.inl rfl, .inl rfl⟩

def runCode : M → List Op → Except Err (M × List Out)
  | m, [] => .ok (m, [])
  | m, op :: ops =>
    match stepCode shapeOf sizeOf checkLoc m op with
    | .error e => .error e
    | .ok (m', o) => (runCode m' ops).map fun r => (r.1, o :: r.2)

def runSpec : Nat → List Op → Except Err (Nat × List Out)
  | loc, [] => .ok (loc, [])
  | loc, op :: ops =>
    match stepSpec shapeOf sizeOf checkLoc loc op with
    | .error e => .error e
    | .ok (loc', o) => (runSpec loc' ops).map fun r => (r.1, o :: r.2)

/-- **C14 on the code — the memo is transparent.**  Every history of reads of `data_shape` / `data_size` and
    assignments to `data_location` on the translated methods gives, read by read, what the location current at that
    moment gives — the answers of an object without any memo — and fails exactly where `_check_location` rejects the new
    location (then nothing has changed). -/
theorem code_memo_transparent : ∀ (ops : List Op) (m : M), Inv shapeOf sizeOf m →
    (runCode shapeOf sizeOf checkLoc m ops).map (fun r => (r.1.loc, r.2)) = runSpec shapeOf sizeOf checkLoc m.loc ops := by
  intro ops
  induction ops with
  | nil => intro m _; rfl
  | cons op ops ih =>
    intro m hi
    obtain ⟨h1, h2⟩ := step_refines shapeOf sizeOf checkLoc m op hi
    unfold runCode runSpec
    cases hc : stepCode shapeOf sizeOf checkLoc m op with
    | error e =>
      rw [hc] at h1
      simp only [Except.map] at h1
      rw [← h1]; rfl
    | ok r =>
      obtain ⟨m', o⟩ := r
      rw [hc] at h1
      simp only [Except.map] at h1
      rw [← h1]
      have ih' := ih m' (h2 m' o hc)
      simp only
      rw [← ih']
      cases runCode shapeOf sizeOf checkLoc m' ops <;> rfl

/-- a freshly constructed grid (both memo fields empty) satisfies the invariant -/
theorem inv_fresh (loc : Nat) : Inv shapeOf sizeOf ⟨loc, none, none⟩ := ⟨.inl rfl, .inl rfl⟩

end

/-! ### non-vacuity: a 3×4-node grid, cells (0) ↔ points (1); location 2 is rejected -/
def exShape : Nat → List Int := fun l => if l = 0 then [2, 3] else [3, 4]
def exSize : Nat → Int := fun l => if l = 0 then 6 else 12
def exCheck : Nat → Except Err Nat := fun l => if l ≤ 1 then .ok l else .error .other

example : (runCode exShape exSize exCheck ⟨0, none, none⟩ [.readShape, .readSize, .setLoc 1, .readShape, .readSize, .readShape]).map (·.2)
    = .ok [.shape (some [2, 3]), .size (some 6), .unit, .shape (some [3, 4]), .size (some 12), .shape (some [3, 4])] := by decide
example : (runCode exShape exSize exCheck ⟨0, none, none⟩ [.readShape, .setLoc 2]).map (·.2) = .error .other := by decide

end Finam.Props.C14T
