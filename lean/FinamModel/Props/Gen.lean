import FinamModel.Generated
/-!
  Obligations over the table regenerated from `/repo` on every run (`harness/extract.py`).
  The hand-written models assume exactly these facts about FINAM's classes; a source change
  to a marker base class, a `needs_push`/`needs_pull` flag, an enum or a default changes
  `Generated.lean` and the matching `decide` below stops checking.
-/
namespace Finam.Props.Gen
open Finam.Generated

def row (n : String) : Option ClassFlags := classTable.find? (·.name = n)

/-- every class could be constructed with default arguments -/
theorem all_constructed : classTable.all (·.ok) = true := by decide

/-- every time-caching adapter is push-based (it registers itself at the output and is a barrier
    for requests), carries the no-branch marker, and is neither a delay nor a no-dependency adapter -/
theorem caching_push_based :
    (classTable.filter (·.timeCaching)).all
      (fun r => r.needsPush && r.noBranch && !r.timeDelay && !r.noDependency && !r.needsPull) = true := by
  decide

/-- the adapters the models treat as time-caching are exactly these -/
theorem caching_names :
    (classTable.filter (·.timeCaching)).map (·.name) =
      ["NextTime", "PreviousTime", "LinearTime", "StackTime", "StepTime", "AvgOverTime", "SumOverTime"] := by
  decide

/-- push-based adapters are exactly the time-caching ones -/
theorem push_based_adapters_are_caching :
    (classTable.filter (fun r => r.isAdapter && r.needsPush)).map (·.name) =
    (classTable.filter (·.timeCaching)).map (·.name) := by decide

theorem delay_fixed_flags :
    row "DelayFixed" = some ⟨"DelayFixed", true, true, false, false, false, false, false, true⟩ := by decide

theorem delay_to_push_flags :
    row "DelayToPush" = some ⟨"DelayToPush", true, true, true, false, false, false, false, true⟩ := by decide

theorem delay_to_pull_flags :
    row "DelayToPull" = some ⟨"DelayToPull", true, true, false, true, false, false, false, true⟩ := by decide

/-- the delay adapters are exactly these three -/
theorem delay_names :
    (classTable.filter (·.timeDelay)).map (·.name) = ["DelayFixed", "DelayToPush", "DelayToPull"] := by decide

/-- the only adapter carrying the no-dependency marker is DelayToPush -/
theorem nodep_names : (classTable.filter (·.noDependency)).map (·.name) = ["DelayToPush"] := by decide

/-- pass-through adapters: no marker, neither push- nor pull-needing -/
theorem passthrough_flags :
    (["Scale", "Callback", "ValueToGrid", "GridToValue", "CallbackProbe", "RegridNearest", "RegridLinear",
      "Histogram"].all fun n =>
        match row n with
        | some r => r.isAdapter && !r.timeDelay && !r.noDependency && !r.noBranch && !r.timeCaching &&
                    !r.needsPush && !r.needsPull
        | none => false) = true := by decide

/-- no adapter needs pull -/
theorem no_adapter_needs_pull : (classTable.filter (fun r => r.isAdapter && r.needsPull)) = [] := by decide

theorem slot_flags :
    (row "Input").map (fun r => (r.needsPush, r.needsPull)) = some (false, true) ∧
    (row "CallbackInput").map (fun r => (r.needsPush, r.needsPull)) = some (true, false) ∧
    (row "Output").map (fun r => (r.needsPush, r.needsPull)) = some (true, false) ∧
    (row "CallbackOutput").map (fun r => (r.needsPush, r.needsPull)) = some (false, true) := by decide

theorem status_enum :
    componentStatus = ["CREATED", "INITIALIZED", "CONNECTING", "CONNECTING_IDLE", "CONNECTED", "VALIDATED",
                       "UPDATED", "FINISHED", "FINALIZED", "FAILED"] := by decide

theorem cell_tables :
    cellTypes = [("VERTEX", 0, 1, 0), ("LINE", 1, 2, 1), ("TRI", 2, 3, 2), ("QUAD", 3, 4, 2),
                 ("TETRA", 4, 4, 3), ("HEX", 5, 8, 3)] := by decide

theorem location_enum : locations = [("CELLS", 0), ("POINTS", 1)] := by decide

theorem mask_enum : maskKinds = ["FLEX", "NONE"] := by decide

theorem step_default_is_half : stepTimeDefaultNum = 500 := by decide

theorem delay_to_pull_defaults : delayToPullDefaultSteps = 1 ∧ delayToPullDefaultDelayUs = 0 := by decide

theorem hierarchy : timeDelayAdapterIsITimeDelay = true ∧ timeCachingIsNoBranch = true := by decide

/-- C19: the adapters carrying the no-branch marker are the time-caching ones and DelayToPull -/
theorem nobranch_names :
    (classTable.filter (·.noBranch)).map (·.name) =
      ["NextTime", "PreviousTime", "LinearTime", "StackTime", "StepTime", "DelayToPull", "AvgOverTime", "SumOverTime"] := by
  decide

/-- C19: no adapter is static; `is_static` of a slot is the constructor's flag (Input/Output/CallbackInput with and
    without `static=True`, CallbackOutput never) -/
theorem static_flags :
    adapterStaticNames = [] ∧ slotStaticFlags = [true, false, true, false, true, false] := by decide

end Finam.Props.Gen
