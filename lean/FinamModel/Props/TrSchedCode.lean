import FinamModel.Props.TrSched
import FinamModel.Props.C01
import FinamModel.Props.C02
import FinamModel.Props.C04
/-
  The scheduler properties as statements about the *translated* `_update_recursive` (regenerated from
  `finam/schedule.py` in this run): `Props/TrSched.lean` (code = model) composed with `updateRec_sound` (C01),
  `updateRec_chain` (C02) and `circular_sound` (C04), on every heap that represents the scheduler state.
-/
namespace Finam.Props.C02
open Finam Finam.Py

/-- what the translated function answers determines what the model answers -/
theorem code_result_some (h : Heap) (s : State) (oid cid : Nat → Nat) (hr : HeapRepr h s oid cid) (fuel c : Nat)
    (hc : (s.comp c).isTime = true) (x : Nat) (ch : PyChain)
    (hx : Tr.update_recursive h fuel (cid c) [] none = .ok (some x, ch)) :
    ∃ u, x = cid u ∧ updateRec s fuel c [] none = .ok (some u) := by
  have := tr_update_recursive h s oid cid hr fuel c hc
  cases hm : updateRec s fuel c [] none with
  | error e => rw [hm] at this; simp only [Agrees] at this; rw [this] at hx; cases hx
  | ok r =>
    cases r with
    | none => rw [hm] at this; simp only [Agrees] at this; rw [this] at hx; cases hx
    | some u =>
      rw [hm] at this
      obtain ⟨ch', hch⟩ := this
      rw [hch] at hx
      simp only [Except.ok.injEq, Prod.mk.injEq, Option.some.injEq] at hx
      exact ⟨u, hx.1.symm, rfl⟩

end Finam.Props.C02

namespace Finam.Props.C01
open Finam Finam.Py Finam.Props.C02

/-- **C01 on the code.**  Whatever the translated `_update_recursive` selects for the update is an unfinished time
    component whose every non-static input — directly, through adapters, through pull-based components — can be
    served for its announced pull time. -/
theorem code_update_recursive_sound (h : Heap) (s : State) (oid cid : Nat → Nat) (hr : HeapRepr h s oid cid)
    (fuel c : Nat) (hc : (s.comp c).isTime = true) (x : Nat) (ch : PyChain)
    (hx : Tr.update_recursive h fuel (cid c) [] none = .ok (some x, ch)) :
    ∃ u nw nx, x = cid u ∧ (s.comp u).kind = .time nw nx false ∧ Ready s u nx := by
  obtain ⟨u, hxu, hm⟩ := code_result_some h s oid cid hr fuel c hc x ch hx
  obtain ⟨nw, nx, hk, hready⟩ := (_root_.Finam.updateRec_sound s fuel).1 c [] none (some u) hm
  exact ⟨u, nw, nx, hxu, hk, hready⟩

end Finam.Props.C01

namespace Finam.Props.C02
open Finam Finam.Py

/-- **C02 on the code.**  The component the translated `_update_recursive` selects is reached from the component it
    was called for along a chain of lagging dependencies; nothing off such a chain is advanced. -/
theorem code_update_recursive_chain (h : Heap) (s : State) (oid cid : Nat → Nat) (hr : HeapRepr h s oid cid)
    (fuel c : Nat) (hc : (s.comp c).isTime = true) (x : Nat) (ch : PyChain)
    (hx : Tr.update_recursive h fuel (cid c) [] none = .ok (some x, ch)) :
    ∃ u t', x = cid u ∧ C04.Star s (c, none) (u, t') := by
  obtain ⟨u, hxu, hm⟩ := code_result_some h s oid cid hr fuel c hc x ch hx
  obtain ⟨t', ht⟩ := updateRec_chain s fuel c [] none u hm
  exact ⟨u, t', hxu, ht⟩

end Finam.Props.C02

namespace Finam.Props.C04
open Finam Finam.Py Finam.Props.C02

/-- **C04 on the code.**  If the translated `_update_recursive` raises the circular-coupling error, the snapshot
    contains a genuine cycle of lagging dependencies reachable from the selected component; and it never raises
    anything but that error, the finished-dependency error, or (with too little fuel) the fuel marker. -/
theorem code_circular_sound (h : Heap) (s : State) (oid cid : Nat → Nat) (hr : HeapRepr h s oid cid)
    (fuel c : Nat) (hc : (s.comp c).isTime = true)
    (hx : Tr.update_recursive h fuel (cid c) [] none = .error .circular) :
    ∃ x t1 t2, Star s (c, none) (x, t1) ∧ Plus s (x, t1) (x, t2) := by
  have := tr_update_recursive h s oid cid hr fuel c hc
  cases hm : updateRec s fuel c [] none with
  | error e =>
    rw [hm] at this; simp only [Agrees] at this
    rw [this] at hx
    cases e with
    | circular => exact circular_sound s fuel c hm
    | finished => simp [errMap] at hx
    | fuel => simp [errMap] at hx
  | ok r =>
    cases r with
    | none => rw [hm] at this; simp only [Agrees] at this; rw [this] at hx; cases hx
    | some u => rw [hm] at this; obtain ⟨ch', hch⟩ := this; rw [hch] at hx; cases hx

end Finam.Props.C04
