import FinamModel.Props.TrLinks
import FinamModel.Props.TrOwners
import FinamModel.Props.TrCollect
/-!
  C19 — the translated link enumeration of `Composition.metadata` on the owner table the translated `_map_inputs`
  builds (`Props/TrLinks.lean` and `Props/TrOwners.lean` composed).
-/
namespace Finam.Props.C19L
open Finam Finam.Py Finam.Props.Owners

/-- **C19 on the code — the link list after validation.**  When every input at the end of a reported link belongs to
    exactly one listed component (what `_check_missing_components` has established: `code_missing_exact`), the table
    built by the translated `_map_inputs` makes the translated link enumeration succeed, and the reported list is exactly
    the list of existing links. -/
theorem code_links_after_validation (h : Heap) (comps adas : List Nat) (own : Nat → Nat)
    (hin : ∀ x ∈ sources h comps adas, ∀ t ∈ h.targets x, h.isAdapter t = false →
      own t ∈ comps ∧ t ∈ h.inputs (own t) ∧ ∀ c' ∈ comps, t ∈ h.inputs c' → c' = own t) :
    ∃ owners L, Tr.map_inputs h comps = .ok owners ∧ Tr.metadata_links h comps adas owners = .ok L ∧
      L.map (fun l => (l.1.2, l.2.2)) = edges h (sources h comps adas) ∧ (∀ l ∈ L, l.2 = endOf h own l.2.2) := by
  obtain ⟨owners, ho, hget, _⟩ := code_input_owner h comps
  have hOwned : Owned h owners own (sources h comps adas) := by
    intro x hx t ht hna
    obtain ⟨h1, h2, h3⟩ := hin x hx t ht hna
    exact hget (own t) t h1 h2 h3
  obtain ⟨L, hl, he, hend, _⟩ := code_links_exact h comps adas owners own hOwned
  exact ⟨owners, L, ho, hl, he, hend⟩

/-- **C19 on the code — the link list of a connected composition, end to end.**  With `self._adapters` computed by the
    translated `_collect_adapters` and `_input_owners` by the translated `_map_inputs`: when every input at the end of a
    link from a listed output or a collected adapter belongs to exactly one listed component, the translated enumeration
    reports exactly the existing links below the listed components' outputs and below every adapter that lies above an
    input or below an output of a listed component — each adapter once. -/
theorem code_links_of_collected (h : Heap) (comps : List Nat) (up : Nat → List Nat) (down : Nat → List C03.ATree)
    (own : Nat → Nat) (hd : C03.Described h comps up down)
    (hin : ∀ x, (x ∈ comps.flatMap h.outputs ∨
        ∃ c ∈ comps, (∃ i ∈ h.inputs c, x ∈ up i) ∨ (∃ o ∈ h.outputs c, x ∈ C03.preL (down o))) →
      ∀ t ∈ h.targets x, h.isAdapter t = false →
        own t ∈ comps ∧ t ∈ h.inputs (own t) ∧ ∀ c' ∈ comps, t ∈ h.inputs c' → c' = own t) :
    ∃ ads owners L, Tr.collect_adapters h comps [] = .ok ads ∧ ads.Nodup ∧ Tr.map_inputs h comps = .ok owners ∧
      Tr.metadata_links h comps ads owners = .ok L ∧
      L.map (fun l => (l.1.2, l.2.2)) = edges h (sources h comps ads) := by
  obtain ⟨ads, hc, hn, hm⟩ := C03.code_adapters_collected_once h comps up down hd
  have hin' : ∀ x ∈ sources h comps ads, ∀ t ∈ h.targets x, h.isAdapter t = false →
      own t ∈ comps ∧ t ∈ h.inputs (own t) ∧ ∀ c' ∈ comps, t ∈ h.inputs c' → c' = own t := by
    intro x hx
    simp only [sources, List.mem_append] at hx
    rcases hx with hx | hx
    · exact hin x (.inl hx)
    · exact hin x (.inr ((hm x).mp hx))
  obtain ⟨owners, L, ho, hl, he, _⟩ := code_links_after_validation h comps ads own hin'
  exact ⟨ads, owners, L, hc, hn, ho, hl, he⟩

example : Tr.metadata_links exH [0, 2, 4] [1, 3] [(20, 2), (21, 4)] = .ok
    [((0, 10), (1, 1)), ((1, 1), (2, 20)), ((1, 1), (3, 3)), ((3, 3), (4, 21))] ∧
    Tr.map_inputs exH [0, 2, 4] = .ok [(20, 2), (21, 4)] := by decide

end Finam.Props.C19L
