import FinamModel.SpillLemmas
/-!
  C10 — spilling data to disk is invisible and leaves no files behind.

  Model: `FinamModel/Spill.lean` (`stepS` mirrors `_pack` / `_unpack`, the eviction loops with
  `os.remove`, `finalize`, and the read path of each buffering slot kind with `_unpack` where the code
  calls it).  Reference: `stepR`, the same slot holding every value in RAM — it is built from the
  models of C09 (`lookup`), C11 (`TA.getData`) and C12 (`TI.avgInterp`, `TI.sumInterp`) and knows
  nothing about files.  No precondition on the event history is needed.
-/
namespace Finam.Props.C10
open Finam Finam.SP

def finalR (k : SlotKind) : RState → List SP.Ev → RState
  | r, [] => r
  | r, ev :: evs => finalR k (stepR k r ev).1 evs

theorem sim_run (c : Cfg) (hu : c.unpackUnits = c.inUnits) : ∀ (evs : List SP.Ev) (s : SState) (r : RState),
    Sim c s r → runS c s evs = runR c.kind r evs ∧ Sim c (finalS c s evs) (finalR c.kind r evs) := by
  intro evs
  induction evs with
  | nil => intro s r h; exact ⟨rfl, h⟩
  | cons ev evs ih =>
    intro s r h
    obtain ⟨h1, h2⟩ := sim_step c hu s r h ev
    obtain ⟨h3, h4⟩ := ih _ _ h2
    exact ⟨by simp only [runS, runR, h1, h3], h4⟩

/-- **C10, transparency.** For every slot kind (output with any number of end points, next, previous,
    linear, step at any position, stack, average and sum in every configuration), every memory limit
    (none, negative, zero, any value — so also limits crossed in the middle of the run), every
    location, and every history of publications (with arbitrary payload sizes), requests and
    finalisation, every answer of the spilling slot — delivered values or error class — is the answer
    of the same slot holding everything in RAM. -/
theorem spill_transparent (kind : SlotKind) (limit : Option Int) (loc : Option String) (slotId units nEnds : Nat)
    (evs : List SP.Ev) :
    runS (mkCfg kind limit loc slotId units) (initS nEnds) evs = runR kind (initR nEnds) evs :=
  (sim_run (mkCfg kind limit loc slotId units) rfl evs _ _ (sim_init _ nEnds)).1

/-- … hence identical to the run without a limit. -/
theorem spill_transparent_vs_no_limit (kind : SlotKind) (limit : Option Int) (loc : Option String)
    (slotId units nEnds : Nat) (evs : List SP.Ev) :
    runS (mkCfg kind limit loc slotId units) (initS nEnds) evs =
    runS (mkCfg kind none loc slotId units) (initS nEnds) evs := by
  rw [spill_transparent, spill_transparent]

/-- non-vacuity: a limit crossed in the middle of the run (first entry in RAM, later ones on disk),
    linear interpolation between a RAM and a disk entry, eviction of both kinds, finalisation -/
def exCfg : Cfg := mkCfg .linear (some 16) (some "spill") 7 0
def exEvs : List SP.Ev := [.push 0 1 16, .pull 0 0, .push 4 3 16, .push 8 11 16, .pull 0 2, .pull 0 6, .pull 0 9,
                        .push 12 0 16, .pull 0 8, .finalize]
example :
    runS exCfg (initS 1) exEvs =
      [none, some (.ok [1]), none, none, some (.ok [2]), some (.ok [7]), some (.error .timeErr), none,
       some (.ok [11]), none] ∧
    (statesS exCfg (initS 1) exEvs).map (fun s => s.fs.map (·.1.n)) =
      [[], [], [0], [0, 1], [0, 1], [0, 1], [0, 1], [0, 1], [1], []] ∧
    (statesS exCfg (initS 1) exEvs).map (·.total) = [16, 16, 16, 16, 16, 0, 0, 16, 16, 16] := by
  decide +kernel

/-! ### Files -/

theorem sim_reach (c : Cfg) (hu : c.unpackUnits = c.inUnits) (nEnds : Nat) (evs : List SP.Ev) :
    Sim c (finalS c (initS nEnds) evs) (finalR c.kind (initR nEnds) evs) :=
  (sim_run c hu evs _ _ (sim_init c nEnds)).2

/-- **C10, placement.** In every reachable state every spill file on disk lies directly in the
    configured location (`memory_location or ""`), carries the slot's identity, and is named by the
    buffer — there are no stray files. -/
theorem files_under_location (kind : SlotKind) (limit : Option Int) (loc : Option String)
    (slotId units nEnds : Nat) (evs : List SP.Ev) :
    let s := finalS (mkCfg kind limit loc slotId units) (initS nEnds) evs
    (∀ p ∈ s.fs, p.1.dir = loc.getD "" ∧ p.1.slot = slotId) ∧ s.fs.map (·.1) = diskFiles s.data := by
  intro s
  have h := (sim_reach (mkCfg kind limit loc slotId units) rfl nEnds evs).finv
  refine ⟨?_, h.keys⟩
  intro p hp
  have hm : p.1 ∈ s.fs.map (·.1) := List.mem_map_of_mem hp
  rw [h.keys] at hm
  obtain ⟨_, h2, h3⟩ := h.fresh _ hm
  exact ⟨h3, h2⟩

/-- every file the slot ever created was created in the configured location -/
theorem created_under_location (c : Cfg) : ∀ (evs : List SP.Ev) (s : SState),
    (∀ f ∈ s.created, f.dir = c.loc.getD "" ∧ f.slot = c.slotId) →
    ∀ f ∈ (finalS c s evs).created, f.dir = c.loc.getD "" ∧ f.slot = c.slotId := by
  intro evs
  induction evs with
  | nil => intro s h; exact h
  | cons ev evs ih =>
    intro s h
    apply ih
    cases ev with
    | push t v size =>
      simp only [stepS, pack]
      split
      · intro f hf
        rcases List.mem_append.mp hf with h1 | h1
        · exact h f h1
        · simp only [List.mem_singleton] at h1; subst h1; exact ⟨rfl, rfl⟩
      · exact h
    | pull k t =>
      simp only [stepS]
      split
      · exact h
      · split
        · exact h
        · split <;> exact h
    | finalize =>
      simp only [stepS]
      split <;> exact h

/-- **C10, nothing left behind.** Finalising after any history removes every spill file of the slot
    (and never fails: each buffered file still exists). -/
theorem finalize_leaves_no_files (kind : SlotKind) (limit : Option Int) (loc : Option String)
    (slotId units nEnds : Nat) (evs : List SP.Ev) :
    let s := finalS (mkCfg kind limit loc slotId units) (initS nEnds) (evs ++ [SP.Ev.finalize])
    s.fs = [] ∧ s.data = [] := by
  intro s
  have hfin : ∀ (c : Cfg) (evs : List SP.Ev) (s0 : SState), finalS c s0 (evs ++ [SP.Ev.finalize]) =
      (stepS c (finalS c s0 evs) .finalize).1 := by
    intro c evs
    induction evs with
    | nil => intro s0; rfl
    | cons ev evs ih => intro s0; simp only [List.cons_append, finalS]; exact ih _
  have h := (sim_reach (mkCfg kind limit loc slotId units) rfl nEnds evs).finv
  have hs : s = (stepS (mkCfg kind limit loc slotId units)
      (finalS (mkCfg kind limit loc slotId units) (initS nEnds) evs) .finalize).1 := hfin _ _ _
  rw [hs]
  simp only [stepS, finalizeFs_spec _ _ _ _ h]
  trivial

example : (finalS exCfg (initS 1) (exEvs.take 8)).fs.length = 2 ∧
    (finalS exCfg (initS 1) (exEvs.take 8 ++ [SP.Ev.finalize])).fs = [] := by decide +kernel

/-- without a limit (or with a negative one) nothing is ever written -/
theorem no_limit_no_files (kind : SlotKind) (limit : Option Int) (hl : ∀ l, limit = some l → l < 0)
    (loc : Option String) (slotId units : Nat) : ∀ (evs : List SP.Ev) (s : SState), s.created = [] →
    (finalS (mkCfg kind limit loc slotId units) s evs).created = [] := by
  intro evs
  induction evs with
  | nil => intro s h; exact h
  | cons ev evs ih =>
    intro s h
    apply ih
    cases ev with
    | push t v size =>
      have hsp : spills (mkCfg kind limit loc slotId units) s.total size = false := by
        simp only [spills, mkCfg]
        cases hlim : limit with
        | none => rfl
        | some l =>
          have := hl l hlim
          have : ¬ (0 ≤ l) := by omega
          simp [this]
      simp only [stepS, pack, hsp, Bool.false_eq_true, if_false]
      exact h
    | pull k t =>
      simp only [stepS]
      split
      · exact h
      · split
        · exact h
        · split <;> exact h
    | finalize =>
      simp only [stepS]
      split <;> exact h

/-! ### Memory accounting -/

def isFinalize : SP.Ev → Bool
  | .finalize => true
  | _ => false

/-- **C10, accounting.** As long as the slot has not been finalised, `_total_mem` is exactly the number
    of bytes of the entries held in RAM (so the limit test of `_pack` compares what it should). -/
theorem mem_accounting (kind : SlotKind) (limit : Option Int) (loc : Option String)
    (slotId units nEnds : Nat) (evs : List SP.Ev) (hnf : evs.all (fun e => !isFinalize e) = true) :
    let s := finalS (mkCfg kind limit loc slotId units) (initS nEnds) evs
    s.total = ramBytes s.data := by
  have key : ∀ (c : Cfg), c.unpackUnits = c.inUnits → ∀ (evs : List SP.Ev) (s : SState) (r : RState), Sim c s r →
      s.total = ramBytes s.data → evs.all (fun e => !isFinalize e) = true →
      (finalS c s evs).total = ramBytes (finalS c s evs).data := by
    intro c hu evs
    induction evs with
    | nil => intro s r _ h _; exact h
    | cons ev evs ih =>
      intro s r hsim hacc hnf
      simp only [List.all_cons, Bool.and_eq_true] at hnf
      obtain ⟨_, hsim'⟩ := sim_step c hu s r hsim ev
      refine ih _ _ hsim' ?_ hnf.2
      cases ev with
      | push t v size =>
        simp only [stepS, pack]
        split
        · simp only [ramBytes_append, ramBytes]; omega
        · simp only [ramBytes_append, ramBytes]; omega
      | pull k t =>
        simp only [stepS]
        split
        · exact hacc
        · split
          · exact hacc
          · rename_i m _
            obtain ⟨total', fs', he, _, hacc'⟩ := evictS_spec c s.counter s.data s.total s.fs m hsim.finv
            rw [he]
            simp only
            omega
      | finalize => simp [isFinalize] at hnf
  exact key _ rfl evs _ _ (sim_init _ nEnds) rfl hnf

example : (finalS exCfg (initS 1) (exEvs.take 9)).total = 16 ∧
    ramBytes (finalS exCfg (initS 1) (exEvs.take 9)).data = 16 ∧
    (finalS exCfg (initS 1) (exEvs.take 9)).data.length = 2 := by decide +kernel

end Finam.Props.C10
