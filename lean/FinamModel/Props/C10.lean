import FinamModel.SpillLemmas
namespace Finam.Props.C10
open Finam Finam.SP

theorem placeholder_partial : val (.inRam 1 8) = 1 := rfl

end Finam.Props.C10
