import FinamModel.Props.TrCollect
import FinamModel.Translated.finalize_components
/-!
  C03 — `Composition._finalize_components` on the regenerated definition (`schedule.py`): every listed component is finalized
  exactly once, in listing order, and then every adapter of the collected set exactly once.  Composed with
  `code_adapters_collected_once` (`Props/TrCollect.lean`): every adapter that lies above an input or below an output of a
  listed component is finalized exactly once.  `comp.finalize()` / `ada.finalize()` on other objects are recorded in traces;
  the adapter set is read as the duplicate-free list it is iterated as.
-/
namespace Finam.Props.C03
open Finam Finam.Py

theorem fin_loop1 (full fa : List Nat) : ∀ (cs fin : List Nat), Tr.finalize_components.loop1 full fin fa cs = .ok (fin ++ cs) := by
  intro cs
  induction cs with
  | nil => intro fin; simp [Tr.finalize_components.loop1, pure, Except.pure]
  | cons c cs ih => intro fin; simp [Tr.finalize_components.loop1, Py.recordPush, bind, Except.bind, pure, Except.pure, ih]

theorem fin_loop2 (full fin : List Nat) : ∀ (as fa : List Nat), Tr.finalize_components.loop2 full fin fa as = .ok (fa ++ as) := by
  intro as
  induction as with
  | nil => intro fa; simp [Tr.finalize_components.loop2, pure, Except.pure]
  | cons a as ih => intro fa; simp [Tr.finalize_components.loop2, Py.recordPush, bind, Except.bind, pure, Except.pure, ih]

/-- **`_finalize_components`**: the components in listing order, then the collected adapters, each once -/
theorem tr_finalize_components (comps ads fin fa : List Nat) :
    Tr.finalize_components comps ads fin fa = .ok (fin ++ comps, fa ++ ads) := by
  simp [Tr.finalize_components, fin_loop1, fin_loop2, bind, Except.bind, pure, Except.pure]

/-- **every adapter on a link is finalized exactly once, on the code**: collecting the adapters of a described object graph
    with the translated `_collect_adapters` and finalizing with the translated `_finalize_components` calls `finalize` once on
    every adapter above an input or below an output of a listed component, on nothing else, and on every component once -/
theorem code_finalize_once (h : Heap) (comps : List Nat) (up : Nat → List Nat) (down : Nat → List ATree)
    (hd : Described h comps up down) :
    ∃ ads finAd, Tr.collect_adapters h comps [] = .ok ads ∧ Tr.finalize_components comps ads [] [] = .ok (comps, finAd) ∧
      finAd.Nodup ∧
      ∀ a, a ∈ finAd ↔ ∃ c ∈ comps, (∃ i ∈ h.inputs c, a ∈ up i) ∨ (∃ o ∈ h.outputs c, a ∈ preL (down o)) := by
  obtain ⟨ads, e, hn, hm⟩ := code_adapters_collected_once h comps up down hd
  exact ⟨ads, ads, e, by simp [tr_finalize_components], hn, hm⟩

example : Tr.finalize_components [0, 1] [7, 5] [] [] = .ok ([0, 1], [7, 5]) := by decide

end Finam.Props.C03
