import FinamModel.SchedLemmas
import FinamModel.DataPath
/-!
  C01 — the scheduler never updates a component before its input data exists.
-/
namespace Finam.Props.C01
open Finam

/-- **Assumed = required.** The time for which `_find_dependencies` checks a link is, for every
    adapter chain in every ordering, exactly what the data path demands of the source. -/
theorem walk_eq_need (dp : DP) (ads : List Ad) (t : Int) : walk dp ads t false = need dp ads t :=
  Finam.walk_eq_need dp ads t

/-- **Scheduler safety** (every state, every coupling graph, every fuel): whatever
    `_update_recursive` decides to update is an unfinished time-stepped component all of whose
    non-static inputs — directly, through adapters, or through pull-based components — can be
    served for its announced next pull time; a pull-based component for which the recursion
    answers "nothing to update upstream" can be served at the propagated time. -/
theorem updateRec_sound (s : State) (fuel : Nat) (c : Nat) (chain : List Nat) (tgt : Option Int)
    (r : Option Nat) : updateRec s fuel c chain tgt = .ok r →
    match r with
    | some u => ∃ nw nx, (s.comp u).kind = .time nw nx false ∧ Ready s u nx
    | none => (s.comp c).isTime = false ∧ Ready s c (tgt.getD 0) :=
  (Finam.updateRec_sound s fuel).1 c chain tgt r

/-- delays are not negative (FINAM does not check this; a negative `DelayFixed` would shift requests
    into the future) -/
def Ad.wf : Ad → Prop
  | .dfix d _ => 0 ≤ d
  | _ => True

theorem withDelay_le (dp : DP) (a : Ad) (t : Int) (hw : Ad.wf a) : a.withDelay dp t ≤ t := by
  cases a with
  | dfix d i => simp only [Ad.wf] at hw; simp only [Ad.withDelay, imin]; split <;> (try split) <;> omega
  | dpull id n a i => simp only [Ad.withDelay, imin]; split <;> omega
  | _ => simp [Ad.withDelay]

theorem imin_le_right (a b : Int) : imin a b ≤ b := by simp only [imin]; split <;> omega
theorem imin_le_left (a b : Int) : imin a b ≤ a := by simp only [imin]; split <;> omega

/-- no element on the way ever moves a request forward in time -/
theorem reach_le (dp : DP) (newest : Int) : ∀ (ads : List Ad) (t : Int), (∀ a ∈ ads, Ad.wf a) → t ≤ newest →
    (reach dp newest ads t).time ≤ newest := by
  intro ads
  induction ads with
  | nil => intro t _ h; exact h
  | cons a r ih =>
    intro t hw h
    have hwr : ∀ a ∈ r, Ad.wf a := fun x hx => hw x (List.mem_cons_of_mem _ hx)
    have hwa : Ad.wf a := hw a (by simp)
    cases a with
    | pass => exact ih t hwr h
    | nodep => exact ih t hwr h
    | cache => exact h
    | dpush => exact ih _ hwr (imin_le_right _ _)
    | dfix d i => exact ih _ hwr (Int.le_trans (withDelay_le dp _ t hwa) h)
    | dpull id n a i => exact ih _ hwr (Int.le_trans (withDelay_le dp _ t hwa) h)

/-- **The requirement is sufficient.** If the source's newest publication is at or beyond what
    `need` demands (nothing, when a `DelayToPush` breaks the dependency), the pull passes the
    upper range check of whichever element answers it: no "time point in the future" / "out of
    range" error, no extrapolation.  Chains with a bare `NoDependencyAdapter` marker in front of the
    answering element are excluded: there the user declares independence. -/
theorem need_sufficient (dp : DP) (newest : Int) : ∀ (ads : List Ad) (t : Int),
    (∀ a ∈ ads, Ad.wf a) → hasBareNoDep ads = false →
    (∀ lt, need dp ads t = some lt → lt ≤ newest) →
    upperOk newest (reach dp newest ads t) := by
  intro ads
  induction ads with
  | nil => intro t _ _ h; simpa [upperOk, reach, Check.time, need] using h
  | cons a r ih =>
    intro t hw hb h
    have hwr : ∀ a ∈ r, Ad.wf a := fun x hx => hw x (List.mem_cons_of_mem _ hx)
    cases a with
    | pass => exact ih t hwr (by simpa [hasBareNoDep] using hb) (by simpa [need] using h)
    | nodep => simp [hasBareNoDep] at hb
    | cache => simpa [upperOk, reach, Check.time, need] using h
    | dpush =>
      simp only [reach, upperOk]
      exact reach_le dp newest r _ hwr (imin_le_right _ _)
    | dfix d i => exact ih _ hwr (by simpa [hasBareNoDep] using hb) (by simpa [need] using h)
    | dpull id n a i => exact ih _ hwr (by simpa [hasBareNoDep] using hb) (by simpa [need] using h)

/-- **The requirement is necessary** (so the scheduler waits for nothing it does not need): if the
    newest publication is older than `need`, the pull fails the range check. -/
theorem need_necessary (dp : DP) (newest : Int) : ∀ (ads : List Ad) (t lt : Int),
    need dp ads t = some lt → newest < lt →
    ¬ upperOk newest (reach dp newest ads t) := by
  intro ads
  induction ads with
  | nil => intro t lt h hl; simp [need] at h; subst h; simp [upperOk, reach, Check.time]; omega
  | cons a r ih =>
    intro t lt h hl
    cases a with
    | pass => exact ih t lt (by simpa [need] using h) hl
    | nodep => simp [need] at h
    | cache => simp [need] at h; subst h; simp [upperOk, reach, Check.time]; omega
    | dpush => simp [need] at h
    | dfix d i => exact ih _ lt (by simpa [need] using h) hl
    | dpull id n a i => exact ih _ lt (by simpa [need] using h) hl

/-- a component the scheduler selects for update passes the upper range check on every link from a
    time-stepped producer (composition of the two theorems above on one link) -/
theorem selected_link_in_range (s : State) (u : Nat) (nx : Int) (hr : Ready s u nx)
    (l : Link) (hl : l ∈ (s.comp u).inputs) (hst : l.static = false)
    (hT : (s.comp (s.out l.src).owner).isTime = true) (hw : ∀ a ∈ l.ads, Ad.wf a)
    (hb : hasBareNoDep l.ads = false) :
    upperOk (s.out l.src).time (reach s.dp (s.out l.src).time l.ads nx) := by
  apply need_sufficient s.dp _ l.ads nx hw hb
  intro lt hn
  have := hr l hl hst lt hn
  cases this with
  | time _ _ _ hle => exact hle
  | pull _ _ hP _ => simp [hT] at hP

/-! non-vacuity: a chain with a delay upstream of a push-based adapter and chained delays -/
example : need [] [.dfix 2 0, .dfix 3 0] 10 = some 5 ∧ walk [] [.dfix 2 0, .dfix 3 0] 10 false = some 5 ∧
          need [] [.cache, .dfix 3 0] 10 = some 10 ∧ need [] [.pass, .dpush, .dfix 3 0] 10 = none ∧
          need [[4]] [.dpull 0 1 1 0, .pass] 10 = some 3 := by decide

def exState : State :=
  { comps := [⟨.time 0 5 false, [⟨[.dfix 3 0], 0, false⟩], [5], 0⟩, ⟨.time 0 1 false, [], [1], 0⟩],
    outs := [⟨1, 0⟩], dp := [] }

example : updateRec exState 3 0 [] none = .ok (some 1) ∧ select exState = some 0 := by
  constructor
  · simp [updateRec, depsLoop, findDeps, exState, State.comp, State.out, walk, Ad.withDelay, imin, depsInsert,
      Comp.isTime]
  · decide

end Finam.Props.C01
