import FinamModel.Props.C06
import FinamModel.OutputLemmas
/-!
  C05 — the coupling outcome is independent of listing and linking order.

  Clause by clause:
  * connect phase: `connect_order_independent` (same success/failure, same exchanged set, same
    reported components for any two listings) — from the least-fixed-point characterisation of C06;
  * served data depends only on the request time and on the publication history up to the
    bracketing publication: `lookup_append_stable` (later publications do not change an answer
    that could already be given) and C09's `evict_refines_unbounded` (earlier evictions do not);
  * run phase: see `FinamModel/Props/C05Run.lean` (`run_confluent`, `run_order_independent_partial`)
    and `FinamModel/Props/C05Values.lean`.
-/
namespace Finam.Props.C05
open Finam

/-! ### connect phase -/

/-- **The connect phase does not depend on the listing order**: for two listings of the same
    composition it succeeds or fails alike, ends with the same set of exchanged items (infos in both
    directions, pushed data, initial pulls) and, on failure, names the same components. -/
theorem connect_order_independent {S : Connect.Spec} {o₁ o₂ : List Nat}
    (h₁ : C06.IsListing S o₁) (h₂ : C06.IsListing S o₂) :
    C06.Outcome.isOk (Connect.connect S o₁) = C06.Outcome.isOk (Connect.connect S o₂) ∧
    (∀ x, x ∈ (Connect.connect S o₁).state.done ↔ x ∈ (Connect.connect S o₂).state.done) ∧
    (∀ st₁ n₁ st₂ n₂, Connect.connect S o₁ = .circular st₁ n₁ → Connect.connect S o₂ = .circular st₂ n₂ →
      ∀ c, c ∈ n₁ ↔ c ∈ n₂) :=
  C06.confluent h₁ h₂

/-! ### served data: later publications never change an answer -/

theorem lastT_append_ge {α} : ∀ (es : List (Entry α)) (e0 : Entry α) (r : List (Entry α)),
    Sorted (e0 :: es ++ r) → lastT e0 es ≤ lastT e0 (es ++ r) := by
  intro es
  induction es with
  | nil => intro e0 r hs; simpa [lastT] using lastT_ge e0 r hs
  | cons e es ih =>
    intro e0 r hs
    simp only [List.cons_append, lastT]
    exact ih e r (sorted_tail hs)

theorem lookupAux_append {α} : ∀ (es : List (Entry α)) (prev : Entry α) (r : List (Entry α)) (t : Int),
    prev.t < t → t ≤ lastT prev es → lookupAux prev (es ++ r) t = lookupAux prev es t := by
  intro es
  induction es with
  | nil => intro prev r t h1 h2; simp only [lastT] at h2; omega
  | cons e es ih =>
    intro prev r t h1 h2
    simp only [List.cons_append, lookupAux]
    by_cases hgt : t > e.t
    · simp only [hgt, if_true]
      exact ih e r t hgt (by simpa [lastT] using h2)
    · simp only [hgt, if_false]

/-- **Prefix stability** (the reason tie-breaking cannot influence values): once the history holds a
    publication at or beyond the request time, appending further (newer) publications does not
    change what the output serves for that time. -/
theorem lookup_append_stable {α} (e0 : Entry α) (es r : List (Entry α)) (t : Int)
    (hs : Sorted (e0 :: es ++ r)) (ht : t ≤ lastT e0 es) :
    lookup (e0 :: es ++ r) t = lookup (e0 :: es) t := by
  have hge := lastT_append_ge es e0 r hs
  simp only [List.cons_append, lookup]
  by_cases h1 : t < e0.t
  · simp [h1]
  · have h2 : ¬ (t > lastT e0 (es ++ r)) := by omega
    have h3 : ¬ (t > lastT e0 es) := by omega
    simp only [h1, h2, h3, or_self, if_false]
    by_cases h4 : t = e0.t
    · simp [h4]
    · simp only [h4, if_false]
      exact lookupAux_append es e0 r t (by omega) ht

/-- non-vacuity: a request at 3 between publications 0 and 4 is answered alike before and after
    publications 6 and 9 arrive -/
example : lookup ([⟨0, 10⟩, ⟨4, 14⟩] ++ [⟨6, 16⟩, ⟨9, 19⟩] : List (Entry Nat)) 3 = lookup [⟨0, 10⟩, ⟨4, 14⟩] 3 := by
  decide

end Finam.Props.C05
