import FinamModel.Output
import FinamModel.PyPrelude
import FinamModel.Props.C09
import FinamModel.Props.TrCommon
/-
  Helper lemmas about the bookkeeping of an output's end points (the minimum of the recorded requests, "every end point
  has pulled", `d[target] = v` on a dict with distinct keys), shared by the equivalence proofs of `Output._clear_data`
  (`TrOutput.lean`, C09) and of its variant with the spill-file branches (`TrSpill.lean`, C10).  Nothing here depends on a
  generated file.
-/
namespace Finam.Props.C09
open Finam Finam.Py Finam.Props.C11

/-- minimum as `minLast` computes it -/
def rmin : Int → List Int → Int
  | a, [] => a
  | a, b :: r => if a ≤ rmin b r then a else rmin b r

theorem rmin_imin (a b : Int) : ∀ r, rmin (Py.imin a b) r = (if a ≤ rmin b r then a else rmin b r) := by
  intro r
  induction r generalizing a b with
  | nil =>
    simp only [rmin, Py.imin]
    by_cases h1 : b < a <;> by_cases h2 : a ≤ b <;> simp [h1, h2] <;> omega
  | cons c r ih =>
    simp only [rmin, Py.imin]
    by_cases h1 : b < a <;> by_cases h2 : b ≤ rmin c r <;> by_cases h3 : a ≤ rmin c r <;> by_cases h4 : a ≤ b <;>
      simp [h1, h2, h3, h4] <;> omega

theorem foldl_rmin (a : Int) : ∀ xs, xs.foldl Py.imin a = rmin a xs := by
  intro xs
  induction xs generalizing a with
  | nil => rfl
  | cons b r ih => simp only [List.foldl_cons, ih, rmin_imin, rmin]

theorem minLast_some (a : Int) : ∀ xs : List Int, minLast ((a :: xs).map some) = some (rmin a xs) := by
  intro xs
  induction xs generalizing a with
  | nil => rfl
  | cons b r ih =>
    have := ih b
    simp only [List.map_cons] at this ⊢
    simp only [minLast, this, rmin]

theorem allSome_spec : ∀ (vs : List (Option Int)),
    (vs.any (fun t => decide (t.isNone = true)) = false → ∃ xs, vs = xs.map some ∧ Py.allSome vs = .ok xs ∧ Finam.allSome vs = true) ∧
    (vs.any (fun t => decide (t.isNone = true)) = true → Finam.allSome vs = false) := by
  intro vs
  induction vs with
  | nil => simp [Py.allSome, Finam.allSome]
  | cons v vs ih =>
    cases v with
    | none => simp [Finam.allSome]
    | some x =>
      constructor
      · intro h
        have h' : vs.any (fun t => decide (t.isNone = true)) = false := by simpa using h
        obtain ⟨xs, h1, h2, h3⟩ := ih.1 h'
        refine ⟨x :: xs, by simp [h1], by simp [Py.allSome, h2, Except.map], ?_⟩
        simpa [Finam.allSome] using h3
      · intro h
        have h' : vs.any (fun t => decide (t.isNone = true)) = true := by simpa using h
        have := ih.2 h'
        simpa [Finam.allSome] using this

/-- `d[target] = v` on the `k`-th key of a dict with distinct keys: the values change at position `k` only -/
theorem dictSet_values {ν} : ∀ (ci : List (Nat × ν)) (k : Nat) (target : Nat) (w : ν),
    (ci.map Prod.fst).Nodup → (ci.map Prod.fst)[k]? = some target →
    (Py.dictSet ci target w).map Prod.snd = (ci.map Prod.snd).set k w ∧
    (Py.dictSet ci target w).map Prod.fst = ci.map Prod.fst := by
  intro ci
  induction ci with
  | nil => intro k target w _ hk; simp at hk
  | cons p ps ih =>
    intro k target w hnd hk
    obtain ⟨a, b⟩ := p
    cases k with
    | zero =>
      simp at hk; subst hk
      simp [Py.dictSet]
    | succ k =>
      have hne : ¬ a = target := by
        intro e; subst e
        simp only [List.map_cons, List.nodup_cons] at hnd
        have : a ∈ ps.map Prod.fst := by
          simp only [List.map_cons, List.getElem?_cons_succ] at hk
          exact List.mem_of_getElem? hk
        exact hnd.1 this
      simp only [List.map_cons, List.nodup_cons] at hnd
      simp only [List.map_cons, List.getElem?_cons_succ] at hk
      obtain ⟨h1, h2⟩ := ih k target w hnd.2 hk
      simp [Py.dictSet, hne, h1, h2]

end Finam.Props.C09
