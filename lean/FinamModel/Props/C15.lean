import FinamModel.CanonicalLemmas
/-!
  C15 — canonical form and conversion between compatible grids preserve located values.

  Model: `FinamModel/Canonical.lean` (`toCanonical`, `fromCanonical`, `compatibleWith`, `eqGrid`,
  `trans` = the closure of `get_transform_to` with its time-axis handling, `deliver` = what
  `Input.pull_data` hands to the consumer).
-/
namespace Finam.Props.C15
open Finam SGrid

/-- a well-formed structured grid: at least one axis, every axis has a point, one direction flag
    per axis -/
structure WF (g : SGrid) : Prop where
  nonempty : ∀ ax ∈ g.axes, ax ≠ []
  inc_len : g.inc.length = g.axes.length
  dim_pos : 1 ≤ g.axes.length

/-- shape of canonical data: axis lengths in xyz order -/
def xyzShape (g : SGrid) : List Nat := g.locAxes.map List.length

/-- data index of the element at canonical index `c` (inverse of `canonIdx`) -/
def dataIdx (g : SGrid) (c : List Nat) : List Nat :=
  let j := flipIdxAll g.inc (xyzShape g) c
  if g.rev then j.reverse else j

theorem dataShape_xyz (g : SGrid) (hw : WF g) :
    g.dataShape = if g.rev then (xyzShape g).reverse else xyzShape g := dataShape_eq g hw.nonempty

theorem dataIdx_length (g : SGrid) (c : List Nat) : (dataIdx g c).length = c.length := by
  unfold dataIdx; split <;> simp [flipIdxAll_length]

theorem xyz_length (g : SGrid) : (xyzShape g).length = g.axes.length := by
  unfold xyzShape locAxes cellAxes; split <;> simp

theorem dataShape_length (g : SGrid) (hw : WF g) : g.dataShape.length = g.axes.length := by
  rw [dataShape_xyz g hw]; split <;> simp [xyz_length]

theorem inc_dataShape (g : SGrid) (hw : WF g) : g.inc.length = g.dataShape.length := by
  rw [dataShape_length g hw, hw.inc_len]

theorem canonIdx_eq (g : SGrid) (hw : WF g) (i : List Nat) :
    g.canonIdx i = flipIdxAll g.inc (xyzShape g) (if g.rev then i.reverse else i) := by
  have h : (fun s : List Nat => if g.rev then s.reverse else s) (g.shapeFor g.loc) = xyzShape g := by
    have := dataShape_xyz g hw
    unfold dataShape at this
    simp only [this]
    cases g.rev <;> simp
  simp only [canonIdx]
  simp only at h
  rw [h]

theorem canonIdx_inB (g : SGrid) (hw : WF g) (i : List Nat) (hi : InB g.dataShape i) :
    InB (xyzShape g) (g.canonIdx i) := by
  rw [canonIdx_eq g hw]
  apply flipIdxAll_inB
  rw [dataShape_xyz g hw] at hi
  cases hr : g.rev <;> simp only [hr, if_true, Bool.false_eq_true, if_false] at hi ⊢
  · exact hi
  · simpa using InB_reverse hi

theorem dataIdx_inB (g : SGrid) (hw : WF g) (c : List Nat) (hc : InB (xyzShape g) c) :
    InB g.dataShape (dataIdx g c) := by
  rw [dataShape_xyz g hw]
  have := flipIdxAll_inB g.inc _ _ hc
  unfold dataIdx
  cases hr : g.rev <;> simp only [if_true, Bool.false_eq_true, if_false]
  · exact this
  · exact InB_reverse this

theorem dataIdx_canonIdx (g : SGrid) (hw : WF g) (i : List Nat) (hi : InB g.dataShape i) :
    dataIdx g (g.canonIdx i) = i := by
  rw [canonIdx_eq g hw]
  unfold dataIdx
  rw [dataShape_xyz g hw] at hi
  cases hr : g.rev <;> simp only [hr, if_true, Bool.false_eq_true, if_false] at hi ⊢
  · exact flipIdxAll_invol _ _ _ hi
  · rw [flipIdxAll_invol _ _ _ (by simpa using InB_reverse hi)]; simp

theorem canonIdx_dataIdx (g : SGrid) (hw : WF g) (c : List Nat) (hc : InB (xyzShape g) c) :
    g.canonIdx (dataIdx g c) = c := by
  rw [canonIdx_eq g hw]
  unfold dataIdx
  cases hr : g.rev <;> simp only [if_true, Bool.false_eq_true, if_false, List.reverse_reverse]
  · exact flipIdxAll_invol _ _ _ hc
  · exact flipIdxAll_invol _ _ _ hc

/-- splitting an in-bounds index of a concatenated shape -/
theorem InB_split {s1 s2 idx : List Nat} (h : InB (s1 ++ s2) idx) :
    ∃ i t, idx = i ++ t ∧ InB s1 i ∧ InB s2 t := by
  refine ⟨idx.take s1.length, idx.drop s1.length, (List.take_append_drop _ _).symm, ?_⟩
  have hl := h.length_eq
  have hl1 : (idx.take s1.length).length = s1.length := by
    simp only [List.length_take, List.length_append] at hl ⊢; omega
  have := (InB_append_iff (s2 := s2) (i2 := idx.drop s1.length) hl1).mp
    (by rw [List.take_append_drop]; exact h)
  exact this

/-! ### Round trips -/

/-- canonical form of `a`, element by element: canonical index `c` (plus extra axes `t`: none, or
    the time axis) holds the data element at `dataIdx g c`.  Extra axes trail for natural axes
    order and lead for reversed axes order. -/
theorem toCanonical_spec {α} (g : SGrid) (hw : WF g) (a : Arr α) (e : List Nat)
    (ha : a.shape = if g.rev then e.reverse ++ g.dataShape else g.dataShape ++ e) :
    ∃ c, g.toCanonical a = .ok c ∧ c.shape = xyzShape g ++ e ∧
      ∀ ci t, ci.length = (xyzShape g).length → t.length = e.length →
        c.get (ci ++ t) = a.get (if g.rev then t.reverse ++ dataIdx g ci else dataIdx g ci ++ t) := by
  have hds := dataShape_xyz g hw
  have hdl := dataShape_length g hw
  have hxl := xyz_length g
  cases hr : g.rev with
  | false =>
    simp only [hr, Bool.false_eq_true, if_false] at ha hds
    obtain ⟨c, h1, h2, h3⟩ := toCanonical_nonrev g hr (inc_dataShape g hw) a e ha
    refine ⟨c, h1, by rw [h2, hds], ?_⟩
    intro ci t hc ht
    simp only [Bool.false_eq_true, if_false, dataIdx, hr]
    rw [h3 ci t (by omega) ht, hds]
  | true =>
    simp only [hr, if_true] at ha hds
    obtain ⟨c, h1, h2, h3⟩ := toCanonical_rev g hr (inc_dataShape g hw) (by rw [hdl]; exact hw.dim_pos) a e ha
    refine ⟨c, h1, by rw [h2, hds]; simp, ?_⟩
    intro ci t hc ht
    simp only [if_true, dataIdx, hr]
    rw [h3 ci t (by omega) ht, hds]; simp

/-- `from_canonical`, element by element -/
theorem fromCanonical_spec {α} (g : SGrid) (hw : WF g) (c : Arr α) (e : List Nat)
    (hc : c.shape = xyzShape g ++ e) :
    ∃ b, g.fromCanonical c = .ok b ∧
      b.shape = (if g.rev then e.reverse ++ g.dataShape else g.dataShape ++ e) ∧
      ∀ i t, i.length = g.dataShape.length → t.length = e.length →
        b.get (if g.rev then t ++ i else i ++ t) = c.get (g.canonIdx i ++ (if g.rev then t.reverse else t)) := by
  have hds := dataShape_xyz g hw
  have hdl := dataShape_length g hw
  cases hr : g.rev with
  | false =>
    simp only [hr, Bool.false_eq_true, if_false] at hds ⊢
    obtain ⟨b, h1, h2, h3⟩ := fromCanonical_nonrev g hr (inc_dataShape g hw) c e (by rw [hc, hds])
    refine ⟨b, h1, h2, ?_⟩
    intro i t hi ht
    rw [h3 i t hi ht, canonIdx_eq g hw, hds]; simp [hr]
  | true =>
    simp only [hr, if_true] at hds ⊢
    obtain ⟨b, h1, h2, h3⟩ := fromCanonical_rev g hr (inc_dataShape g hw) (by rw [hdl]; exact hw.dim_pos) c e
      (by rw [hc, hds]; simp)
    refine ⟨b, h1, h2, ?_⟩
    intro i t hi ht
    rw [h3 i t hi ht, canonIdx_eq g hw, hds]; simp [hr]

/-- **C15, first sentence (a).** `from_canonical(to_canonical(x)) = x` for data in the grid's data
    shape — also with extra (time) axes where the conversions admit them. -/
theorem from_to_canonical_id {α} (g : SGrid) (hw : WF g) (a : Arr α) (e : List Nat)
    (ha : a.shape = if g.rev then e.reverse ++ g.dataShape else g.dataShape ++ e) :
    ∃ c b, g.toCanonical a = .ok c ∧ g.fromCanonical c = .ok b ∧ b.Eqv a := by
  obtain ⟨c, hc1, hc2, hc3⟩ := toCanonical_spec g hw a e ha
  obtain ⟨b, hb1, hb2, hb3⟩ := fromCanonical_spec g hw c e hc2
  refine ⟨c, b, hc1, hb1, by rw [hb2, ha], ?_⟩
  intro idx hidx
  rw [hb2] at hidx
  have hxl : ∀ i, InB g.dataShape i → (g.canonIdx i).length = (xyzShape g).length := fun i hi =>
    (canonIdx_inB g hw i hi).length_eq
  cases hr : g.rev with
  | false =>
    simp only [hr, Bool.false_eq_true, if_false] at hidx hb3 hc3
    obtain ⟨i, t, rfl, hi, ht⟩ := InB_split hidx
    rw [hb3 i t hi.length_eq ht.length_eq, hc3 _ t (hxl i hi) ht.length_eq, dataIdx_canonIdx g hw i hi]
  | true =>
    simp only [hr, if_true] at hidx hb3 hc3
    obtain ⟨t, i, rfl, ht, hi⟩ := InB_split hidx
    have htl : t.length = e.length := by simpa using ht.length_eq
    rw [hb3 i t hi.length_eq htl, hc3 _ t.reverse (hxl i hi) (by simp [htl]),
      dataIdx_canonIdx g hw i hi]
    simp

/-- **C15, first sentence (b).** `to_canonical(from_canonical(c)) = c` for canonical data. -/
theorem to_from_canonical_id {α} (g : SGrid) (hw : WF g) (c : Arr α) (e : List Nat)
    (hc : c.shape = xyzShape g ++ e) :
    ∃ b c', g.fromCanonical c = .ok b ∧ g.toCanonical b = .ok c' ∧ c'.Eqv c := by
  obtain ⟨b, hb1, hb2, hb3⟩ := fromCanonical_spec g hw c e hc
  obtain ⟨c', hc1, hc2, hc3⟩ := toCanonical_spec g hw b e hb2
  refine ⟨b, c', hb1, hc1, by rw [hc2, hc], ?_⟩
  intro idx hidx
  rw [hc2] at hidx
  obtain ⟨ci, t, rfl, hci, ht⟩ := InB_split hidx
  have hdi := dataIdx_inB g hw ci hci
  rw [hc3 ci t hci.length_eq ht.length_eq]
  cases hr : g.rev with
  | false =>
    simp only [hr, Bool.false_eq_true, if_false] at hb3 ⊢
    rw [hb3 _ t hdi.length_eq ht.length_eq, canonIdx_dataIdx g hw ci hci]
  | true =>
    simp only [hr, if_true] at hb3 ⊢
    rw [hb3 _ t.reverse hdi.length_eq (by simp [ht.length_eq]), canonIdx_dataIdx g hw ci hci]
    simp

/-! ### Canonical data is indexed in x, y, z order along increasing coordinates -/

/-- the coordinate of data index `i` is read off the *increasing* xyz axes at the canonical index -/
theorem coordAt_canon (g : SGrid) (hw : WF g) (i : List Nat) (hi : InB g.dataShape i) :
    g.coordAt i = pick g.locAxes (g.canonIdx i) := by
  rw [canonIdx_eq g hw]
  unfold coordAt
  rw [dataAxes_eq]
  rw [dataShape_xyz g hw] at hi
  cases hr : g.rev with
  | false =>
    simp only [hr, Bool.false_eq_true, if_false] at hi ⊢
    exact pick_dirAxes _ _ _ hi
  | true =>
    simp only [hr, if_true] at hi ⊢
    have hi' : InB (xyzShape g) i.reverse := by simpa using InB_reverse hi
    have hlen : i.length = (dirAxes g.locAxes g.inc).length := by
      rw [hi.length_eq, dirAxes_length]; simp [xyzShape]
    rw [pick_reverse _ _ hlen]
    exact pick_dirAxes _ _ _ hi'

/-- strictly increasing list of coordinates -/
def Increasing : List Rat → Prop
  | [] => True
  | [_] => True
  | a :: b :: rest => a < b ∧ Increasing (b :: rest)

/-- cell-centre axes of increasing point axes increase -/
theorem cellAxis_increasing (ax : List Rat) (h : Increasing ax) : Increasing (cellAxis ax) := by
  unfold cellAxis
  split
  · induction ax with
    | nil => trivial
    | cons a rest ih =>
      cases rest with
      | nil => trivial
      | cons b rest2 =>
        cases rest2 with
        | nil => simp [Increasing]
        | cons c rest3 =>
          have h1 : a < b := h.1
          have h2 : b < c := h.2.1
          have := ih h.2 (by simp)
          simp only [List.tail_cons, List.zipWith_cons_cons] at this ⊢
          refine ⟨?_, this⟩
          grind
  · exact h

/-- **C15, first sentence (c).** The canonical array has the xyz axis lengths as shape, and its
    element `[ix, iy, iz]` is the data value located at `(x[ix], y[iy], z[iz])` of the increasing
    (cell-centre or point) axes: for every data index `i`, canonical position `canonIdx i` holds
    `a[i]`, and the coordinate of `i` is the increasing axes read at `canonIdx i`.  `canonIdx` is a
    bijection between the data shape and the canonical shape (`dataIdx` is its inverse), and the
    canonical axes increase whenever the grid's point axes do. -/
theorem canonical_is_xyz_increasing {α} (g : SGrid) (hw : WF g) (a : Arr α) (ha : a.shape = g.dataShape) :
    ∃ c, g.toCanonical a = .ok c ∧ c.shape = g.locAxes.map List.length ∧
      (∀ i, InB g.dataShape i →
        InB c.shape (g.canonIdx i) ∧ c.get (g.canonIdx i) = a.get i ∧
        g.coordAt i = pick g.locAxes (g.canonIdx i)) ∧
      (∀ ci, InB c.shape ci → ∃ i, InB g.dataShape i ∧ g.canonIdx i = ci) ∧
      ((∀ ax ∈ g.axes, Increasing ax) → ∀ ax ∈ g.locAxes, Increasing ax) := by
  obtain ⟨c, h1, h2, h3⟩ := toCanonical_spec g hw a [] (by simp [ha])
  simp only [List.append_nil] at h2
  refine ⟨c, h1, h2, ?_, ?_, ?_⟩
  · intro i hi
    have hin := canonIdx_inB g hw i hi
    refine ⟨by rw [h2]; exact hin, ?_, coordAt_canon g hw i hi⟩
    have := h3 (g.canonIdx i) [] hin.length_eq rfl
    simp only [List.append_nil, List.reverse_nil, List.nil_append, ite_self] at this
    rw [this, dataIdx_canonIdx g hw i hi]
  · intro ci hci
    rw [h2] at hci
    exact ⟨dataIdx g ci, dataIdx_inB g hw ci hci, canonIdx_dataIdx g hw ci hci⟩
  · intro hinc ax hax
    unfold locAxes at hax
    split at hax
    · simp only [cellAxes, List.mem_map] at hax
      obtain ⟨ax0, h0, rfl⟩ := hax
      exact cellAxis_increasing ax0 (hinc ax0 h0)
    · exact hinc ax hax

/-! ### Compatibility -/

theorem zip_all_eq {β} [DecidableEq β] : ∀ (l1 l2 : List β), l1.length = l2.length →
    ((List.zip l1 l2).all (fun p => p.1 == p.2) = true ↔ l1 = l2) := by
  intro l1
  induction l1 with
  | nil => intro l2 h; cases l2 <;> simp at *
  | cons x xs ih =>
    intro l2 h
    cases l2 with
    | nil => simp at h
    | cons y ys =>
      simp only [List.length_cons, Nat.add_right_cancel_iff] at h
      simp [ih ys h]

theorem shape_relation (g h : SGrid) (hax : g.axes = h.axes) (hloc : g.loc = h.loc) :
    g.dataShape = (if g.rev != h.rev then h.dataShape.reverse else h.dataShape) := by
  unfold dataShape shapeFor dims
  rw [hax, hloc]
  cases g.rev <;> cases h.rev <;> cases h.loc <;> simp

/-- **C15, second sentence.** Two grids are reported compatible exactly when they have the same
    number of axes, the same reference system, the same location kind (cells / points) and the same
    coordinates on every axis — whatever their order, axes_reversed and direction flags are.
    (A cell grid and a point grid are never compatible, by design.) -/
theorem compatible_iff_same_locations (g h : SGrid) :
    g.compatibleWith h = true ↔
      g.dim = h.dim ∧ g.crs = h.crs ∧ g.loc = h.loc ∧ g.axes = h.axes := by
  constructor
  · intro hc
    unfold compatibleWith at hc
    by_cases h1 : (g.dim == h.dim && g.crs == h.crs && g.loc == h.loc) = true
    · rw [if_neg (by simp [h1])] at hc
      by_cases h2 : (g.dataShape != (if g.rev != h.rev then h.dataShape.reverse else h.dataShape)) = true
      · rw [if_pos h2] at hc; cases hc
      · rw [if_neg h2] at hc
        simp only [Bool.and_eq_true, beq_iff_eq] at h1
        obtain ⟨⟨hd, hcrs⟩, hl⟩ := h1
        refine ⟨hd, hcrs, hl, ?_⟩
        exact (zip_all_eq g.axes h.axes hd).mp (by simpa [axisClose] using hc)
    · rw [if_pos (by simp [h1])] at hc; cases hc
  · rintro ⟨hd, hcrs, hl, hax⟩
    have hsh := shape_relation g h hax hl
    unfold compatibleWith
    rw [if_neg (by simp [hd, hcrs, hl]), if_neg (by rw [← hsh]; simp)]
    have := (zip_all_eq g.axes h.axes (by rw [hax])).mpr hax
    simpa [axisClose] using this

/-- compatible grids describe the same set of data locations: same canonical shape, and the same
    coordinate at every canonical position -/
theorem compatible_same_locations (g h : SGrid) (hg : WF g) (hh : WF h) (hc : g.compatibleWith h = true) :
    xyzShape g = xyzShape h ∧
    ∀ c, InB (xyzShape g) c → g.coordAt (dataIdx g c) = h.coordAt (dataIdx h c) := by
  obtain ⟨_, _, hl, hax⟩ := (compatible_iff_same_locations g h).mp hc
  have hla : g.locAxes = h.locAxes := by unfold locAxes cellAxes; rw [hl, hax]
  have hx : xyzShape g = xyzShape h := by unfold xyzShape; rw [hla]
  refine ⟨hx, fun c hcin => ?_⟩
  rw [coordAt_canon g hg _ (dataIdx_inB g hg c hcin), canonIdx_dataIdx g hg c hcin,
    coordAt_canon h hh _ (dataIdx_inB h hh c (hx ▸ hcin)), canonIdx_dataIdx h hh c (hx ▸ hcin), hla]

/-! ### The transform between compatible layouts, with a leading time axis -/

theorem moveFirstToLast_get {α} (a : Arr α) (T : Nat) (sh : List Nat) (ha : a.shape = T :: sh)
    (i : List Nat) (t : Nat) (_hi : i.length = sh.length) :
    a.moveFirstToLast.shape = sh ++ [T] ∧ a.moveFirstToLast.get (i ++ [t]) = a.get (t :: i) := by
  simp [Arr.moveFirstToLast, ha]

theorem moveLastToFirst_get {α} (a : Arr α) (T : Nat) (sh : List Nat) (ha : a.shape = sh ++ [T])
    (i : List Nat) (t : Nat) :
    a.moveLastToFirst.shape = T :: sh ∧ a.moveLastToFirst.get (t :: i) = a.get (i ++ [t]) := by
  simp [Arr.moveLastToFirst, ha]

/-- **C15, third sentence.** For compatible grids `g` (source) and `h` (consumer) and source data
    with a leading time axis (`T :: data_shape g`), the transform chosen by `get_transform_to`
    succeeds, the result has shape `T :: data_shape h`, and for every time index `t` and every
    consumer index `j` the delivered element is the source element at the data index with the same
    canonical position — which lies at the same physical coordinate. -/
theorem transform_preserves_location {α} (g h : SGrid) (hg : WF g) (hh : WF h)
    (hc : g.compatibleWith h = true) (a : Arr α) (T : Nat) (ha : a.shape = T :: g.dataShape) :
    ∃ r, SGrid.trans g h a = .ok r ∧ r.shape = T :: h.dataShape ∧
      ∀ t j, InB h.dataShape j →
        r.get (t :: j) = a.get (t :: dataIdx g (h.canonIdx j)) ∧
        InB g.dataShape (dataIdx g (h.canonIdx j)) ∧
        g.coordAt (dataIdx g (h.canonIdx j)) = h.coordAt j := by
  obtain ⟨hx, hloc⟩ := compatible_same_locations g h hg hh hc
  have hgl := dataShape_length g hg
  have hhl := dataShape_length h hh
  have hxl := xyz_length g
  have hasTime : (a.ndim == g.dataShape.length + 1) = true := by simp [Arr.ndim, ha]
  have hcl : ∀ j, InB h.dataShape j → (h.canonIdx j).length = (xyzShape g).length := fun j hj => by
    rw [hx]; exact (canonIdx_inB h hh j hj).length_eq
  -- step 1: the array handed to to_canonical and its canonical form
  have step1 : ∃ c, (g.toCanonical (if g.rev then a else a.moveFirstToLast)) = .ok c ∧
      c.shape = xyzShape g ++ [T] ∧
      ∀ ci t, ci.length = (xyzShape g).length → c.get (ci ++ [t]) = a.get (t :: dataIdx g ci) := by
    cases hr : g.rev with
    | false =>
      simp only [Bool.false_eq_true, if_false]
      have hm := fun i t hi => moveFirstToLast_get a T g.dataShape ha i t hi
      obtain ⟨c, h1, h2, h3⟩ := toCanonical_spec g hg a.moveFirstToLast [T]
        (by simp [hr, (hm (List.replicate g.dataShape.length 0) 0 (by simp)).1])
      refine ⟨c, h1, h2, fun ci t hci => ?_⟩
      have := h3 ci [t] hci rfl
      simp only [hr, Bool.false_eq_true, if_false] at this
      rw [this]
      exact (hm _ t (by rw [dataIdx_length, hci, hxl, hgl])).2
    | true =>
      simp only [if_true]
      obtain ⟨c, h1, h2, h3⟩ := toCanonical_spec g hg a [T] (by simp [hr, ha])
      refine ⟨c, h1, h2, fun ci t hci => ?_⟩
      have := h3 ci [t] hci rfl
      simp only [hr, if_true, List.reverse_cons, List.reverse_nil, List.nil_append, List.cons_append] at this
      exact this
  obtain ⟨c, hc1, hc2, hc3⟩ := step1
  -- step 2: from_canonical on the consumer side
  obtain ⟨b, hb1, hb2, hb3⟩ := fromCanonical_spec h hh c [T] (by rw [hc2, hx])
  have hloc' : ∀ j, InB h.dataShape j →
      InB g.dataShape (dataIdx g (h.canonIdx j)) ∧ g.coordAt (dataIdx g (h.canonIdx j)) = h.coordAt j := by
    intro j hj
    have hin : InB (xyzShape g) (h.canonIdx j) := by rw [hx]; exact canonIdx_inB h hh j hj
    refine ⟨dataIdx_inB g hg _ hin, ?_⟩
    rw [hloc _ hin, dataIdx_canonIdx h hh j hj]
  have ha1 : (if (true && !g.rev) = true then a.moveFirstToLast else a) =
      (if g.rev then a else a.moveFirstToLast) := by cases g.rev <;> rfl
  simp only [SGrid.trans, hasTime, ha1, hc1, hb1]
  cases hr : h.rev with
  | true =>
    simp only [hr, if_true, List.reverse_cons, List.reverse_nil, List.nil_append, List.cons_append] at hb2 hb3
    refine ⟨b, by simp, hb2, fun t j hj => ⟨?_, hloc' j hj⟩⟩
    have := hb3 j [t] hj.length_eq rfl
    simp only [List.cons_append, List.nil_append, List.reverse_cons, List.reverse_nil] at this
    rw [this, hc3 _ t (hcl j hj)]
  | false =>
    simp only [hr, Bool.false_eq_true, if_false] at hb2 hb3
    have hm := fun i t => moveLastToFirst_get b T h.dataShape hb2 i t
    refine ⟨b.moveLastToFirst, by simp, (hm [] 0).1, fun t j hj => ⟨?_, hloc' j hj⟩⟩
    rw [(hm j t).2, hb3 j [t] hj.length_eq rfl, hc3 _ t (hcl j hj)]

/-- the same without a time axis (direct use of the transform on data in the source data shape) -/
theorem transform_preserves_location_no_time {α} (g h : SGrid) (hg : WF g) (hh : WF h)
    (hc : g.compatibleWith h = true) (a : Arr α) (ha : a.shape = g.dataShape) :
    ∃ r, SGrid.trans g h a = .ok r ∧ r.shape = h.dataShape ∧
      ∀ j, InB h.dataShape j →
        r.get j = a.get (dataIdx g (h.canonIdx j)) ∧
        InB g.dataShape (dataIdx g (h.canonIdx j)) ∧
        g.coordAt (dataIdx g (h.canonIdx j)) = h.coordAt j := by
  obtain ⟨hx, hloc⟩ := compatible_same_locations g h hg hh hc
  have noTime : (a.ndim == g.dataShape.length + 1) = false := by simp [Arr.ndim, ha]
  obtain ⟨c, hc1, hc2, hc3⟩ := toCanonical_spec g hg a [] (by simp [ha])
  obtain ⟨b, hb1, hb2, hb3⟩ := fromCanonical_spec h hh c [] (by rw [hc2, hx])
  simp only [SGrid.trans, noTime, Bool.false_and, Bool.false_eq_true, if_false, hc1, hb1]
  refine ⟨b, rfl, by simpa using hb2, fun j hj => ?_⟩
  have hin : InB (xyzShape g) (h.canonIdx j) := by rw [hx]; exact canonIdx_inB h hh j hj
  refine ⟨?_, dataIdx_inB g hg _ hin, by rw [hloc _ hin, dataIdx_canonIdx h hh j hj]⟩
  have h1 := hb3 j [] hj.length_eq rfl
  have h2 := hc3 (h.canonIdx j) [] hin.length_eq rfl
  simp only [List.append_nil, List.nil_append, List.reverse_nil, ite_self] at h1 h2
  rw [h1, h2]

theorem compatible_symm (g h : SGrid) (hc : g.compatibleWith h = true) : h.compatibleWith g = true := by
  obtain ⟨a, b, c, d⟩ := (compatible_iff_same_locations g h).mp hc
  exact (compatible_iff_same_locations h g).mpr ⟨a.symm, b.symm, c.symm, d.symm⟩

/-- **C15, third sentence, at the input.** What `Input.pull_data` delivers for compatible but
    differently laid-out grids (`prepare` has put the time axis in front): the exchange succeeds,
    the shape check of `tools.check` passes and every delivered element is the source element
    located at the same physical coordinate. -/
theorem deliver_preserves_location {α} (g h : SGrid) (hg : WF g) (hh : WF h)
    (hc : g.compatibleWith h = true) (hne : g.eqGrid h = false) (a : Arr α) (T : Nat)
    (ha : a.shape = T :: g.dataShape) :
    ∃ r, SGrid.deliver g h a = .ok r ∧ r.shape = T :: h.dataShape ∧
      ∀ t j, InB h.dataShape j →
        r.get (t :: j) = a.get (t :: dataIdx g (h.canonIdx j)) ∧
        g.coordAt (dataIdx g (h.canonIdx j)) = h.coordAt j := by
  obtain ⟨r, h1, h2, h3⟩ := transform_preserves_location g h hg hh hc a T ha
  refine ⟨r, ?_, h2, fun t j hj => ⟨(h3 t j hj).1, (h3 t j hj).2.2⟩⟩
  simp [SGrid.deliver, compatible_symm g h hc, getTransformTo, hc, hne, h1, checkShape, Arr.ndim, h2]

/-- **C15, last clause.** Grids that compare equal (compatible, same axes order and directions;
    `order` may differ) get no transform: the data is handed through unchanged, and that is right
    because equal grids place every data index at the same coordinate. -/
theorem equal_layout_is_passthrough {α} (g h : SGrid) (hg : WF g) (hh : WF h) (he : g.eqGrid h = true)
    (a : Arr α) (T : Nat) (ha : a.shape = T :: g.dataShape) :
    g.getTransformTo h = .ok .passThrough ∧ SGrid.deliver g h a = .ok a ∧
    g.dataShape = h.dataShape ∧ ∀ j, InB g.dataShape j → g.coordAt j = h.coordAt j := by
  unfold eqGrid at he
  by_cases hc : g.compatibleWith h = true
  · rw [if_neg (by simp [hc])] at he
    simp only [Bool.and_eq_true, beq_iff_eq] at he
    obtain ⟨hinc, hrev⟩ := he
    obtain ⟨hd, _, hl, hax⟩ := (compatible_iff_same_locations g h).mp hc
    have hincl : g.inc.length = h.inc.length := by rw [hg.inc_len, hh.inc_len, hax]
    have hinc' : g.inc = h.inc := (zip_all_eq g.inc h.inc hincl).mp hinc
    have hla : g.locAxes = h.locAxes := by unfold locAxes cellAxes; rw [hl, hax]
    have hsh : g.dataShape = h.dataShape := by
      have := shape_relation g h hax hl
      rw [this, hrev]; simp
    have heq : g.eqGrid h = true := by
      unfold eqGrid; rw [if_neg (by simp [hc])]; simp [hinc, hrev]
    refine ⟨by simp [getTransformTo, hc, heq], ?_, hsh, ?_⟩
    · simp [SGrid.deliver, compatible_symm g h hc, getTransformTo, hc, heq, checkShape, Arr.ndim, ha, hsh]
    · intro j hj
      rw [coordAt_canon g hg j hj, coordAt_canon h hh j (hsh ▸ hj), canonIdx_eq g hg, canonIdx_eq h hh]
      unfold xyzShape
      rw [hla, hinc', hrev]
  · rw [if_pos (by simp [hc])] at he; cases he

/-! ### Non-vacuity: a 2x3-cell geometry in two layouts, data with a time axis -/

def exSrc : SGrid := ⟨[[0, 1, 2], [0, 2, 4, 6]], [true, true], false, .F, .cells, none⟩
def exDst : SGrid := ⟨[[0, 1, 2], [0, 2, 4, 6]], [true, false], true, .C, .cells, none⟩
def exArr : Arr Int := Arr.ofFlat .C [1, 2, 3] [0, 1, 2, 3, 4, 5] 0

example : WF exSrc ∧ WF exDst := by
  refine ⟨⟨?_, rfl, by decide⟩, ⟨?_, rfl, by decide⟩⟩ <;> (intro ax hax; simp [exSrc, exDst] at hax; rcases hax with h | h <;> simp [h])

example : exSrc.compatibleWith exDst = true ∧ exSrc.eqGrid exDst = false ∧ exArr.shape = 1 :: exSrc.dataShape ∧
    (SGrid.deliver exSrc exDst exArr).toOption.map (fun r => (r.shape, r.toList)) =
      some ([1, 3, 2], [2, 5, 1, 4, 0, 3]) := by decide +kernel

example : (exSrc.toCanonical (Arr.ofFlat .C [2, 3] [0, 1, 2, 3, 4, 5] (0 : Int))).toOption.map (·.toList) =
    some [0, 1, 2, 3, 4, 5] ∧
    (exDst.toCanonical (Arr.ofFlat .C [3, 2] [2, 5, 1, 4, 0, 3] (0 : Int))).toOption.map (·.toList) =
    some [0, 1, 2, 3, 4, 5] := by decide +kernel

/-- equal layouts (only `order` differs): no transform, the array is delivered as it is -/
def exSame : SGrid := { exSrc with order := .C }
example : exSrc.eqGrid exSame = true ∧ exSrc.getTransformTo exSame = .ok .passThrough ∧
    (SGrid.deliver exSrc exSame exArr).toOption.map (fun r => (r.shape, r.toList)) =
      some ([1, 2, 3], [0, 1, 2, 3, 4, 5]) := by decide +kernel

end Finam.Props.C15
