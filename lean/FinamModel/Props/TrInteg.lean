import FinamModel.Integration
import FinamModel.Props.C12
import FinamModel.Translated.AvgOverTime__interpolate
import FinamModel.Translated.SumOverTime__interpolate
import FinamModel.Translated.TimeIntegrationAdapter__get_data_avg
import FinamModel.Translated.TimeIntegrationAdapter__get_data_sum
import FinamModel.Translated.TimeIntegrationAdapter__source_updated
import FinamModel.Props.TrCommon
import FinamModel.Props.TrTimeBase
/-
  Equivalence of the translated `_interpolate` bodies of `AvgOverTime` / `SumOverTime` (regenerated from
  `finam/adapters/time_integration.py`) with the hand-written model `TI.avgInterp` / `TI.sumInterp` of the C12 theorems.
-/
namespace Finam.Props.C12
open Finam Finam.Py Finam.Props.C11

/-- `k, k+1, …` (`n` numbers) -/
def rangeFrom : Int → Nat → List Int
  | _, 0 => []
  | k, n + 1 => k :: rangeFrom (k + 1) n

theorem range'_map (s n : Nat) : (List.range' s n).map Int.ofNat = rangeFrom (s : Int) n := by
  induction n generalizing s with
  | zero => rfl
  | succ n ih =>
    simp only [List.range'_succ, List.map_cons, rangeFrom]
    have := ih (s + 1)
    have e : ((s + 1 : Nat) : Int) = (s : Int) + 1 := by omega
    rw [e] at this
    simp [this]

theorem py_range (n : Nat) : Py.range (n : Int) = rangeFrom 0 n := by
  have := range'_map 0 n
  simp only [Py.range, Int.toNat_natCast, List.range_eq_range']
  simpa using this

theorem rmax_eq (a b : Rat) : Py.rmax a b = max a b := by
  unfold Py.rmax; grind
theorem rmin_eq (a b : Rat) : Py.rmin a b = min a b := by
  unfold Py.rmin; grind

theorem div_ok (a : Int) (b : Int) (hb : b ≠ 0) : Py.div ((a : Int) : Rat) ((b : Int) : Rat) = .ok (((a : Int) : Rat) / ((b : Int) : Rat)) := by
  have : ¬ (((b : Int) : Rat) = 0) := by exact_mod_cast hb
  simp [Py.div, this]

theorem sorted_head_lt {α} (a b : Entry α) (r : List (Entry α)) (h : Sorted (a :: b :: r)) : a.t < b.t := h.1

theorem sum_loop (data : List (Int × Rat)) (prev : Int) (step : Option Rat) (pt : Bool) (t : Int) :
    ∀ (suf : List (Int × Rat)) (k : Int) (acc : Option Rat) (to : Int) (vo : Rat),
      SufAt data suf (k + 1) → Sorted (toE ((to, vo) :: suf)) →
      ∃ to' vo', Tr.SumOverTime__interpolate.loop1 data prev step pt t acc to vo (rangeFrom k suf.length)
        = .ok (TI.loop step pt prev t ⟨to, vo⟩ (toE suf) acc, to', vo') := by
  intro suf
  induction suf with
  | nil => intro k acc to vo _ _; exact ⟨to, vo, rfl⟩
  | cons e suf ih =>
    intro k acc to vo hs hsort
    obtain ⟨tn, vn⟩ := e
    have hidx : idx data (k + 1) = .ok (tn, vn) := by
      have := hs 0 (tn, vn) (by simp); simpa using this
    have hlt : to < tn := sorted_head_lt _ _ _ hsort
    have hne : tn - to ≠ 0 := by omega
    have hs' : SufAt data suf (k + 1 + 1) := (sufAt_tail hs).1
    have hsort' : Sorted (toE ((tn, vn) :: suf)) := sorted_tail hsort
    simp only [List.length_cons, rangeFrom, toE_cons, TI.loop]
    rw [Tr.SumOverTime__interpolate.loop1]
    simp only [hidx, ok_bind]
    by_cases h1 : prev ≥ tn
    · obtain ⟨a, b, hab⟩ := ih (k + 1) acc tn vn hs' hsort'
      exact ⟨a, b, by simp [h1, hab]⟩
    · simp only [h1, if_false]
      by_cases h2 : t ≤ to
      · exact ⟨to, vo, by simp [h2]⟩
      · simp only [h2, if_false, div_ok _ _ hne, ok_bind, rmax_eq, rmin_eq, Tr.interpolate, pure_eq_ok,
          Py.totalSeconds]
        cases step with
        | none =>
          cases pt <;> cases acc <;>
            (simp only [Option.isNone_none, Option.isNone_some, if_true, Bool.false_eq_true, if_false, Py.unwrap, ok_bind, Option.getD]
             first
             | (obtain ⟨a, b, hab⟩ := ih (k + 1) _ tn vn hs' hsort'
                refine ⟨a, b, ?_⟩
                rw [← hab]; congr 2 <;> simp [TI.piece, TA.frac, TA.lerp, TI.secs] <;> grind))
        | some s =>
          cases pt <;> cases acc <;>
            (simp only [Option.isNone_none, Option.isNone_some, if_true, Bool.false_eq_true, if_false, Py.unwrap, ok_bind, Option.getD]
             first
             | (obtain ⟨a, b, hab⟩ := ih (k + 1) _ tn vn hs' hsort'
                refine ⟨a, b, ?_⟩
                rw [← hab]; congr 2 <;> simp [TI.piece, TA.frac, TA.lerp, TI.secs] <;> grind))

theorem avg_loop (data : List (Int × Rat)) (prev : Int) (step : Option Rat) (t : Int) :
    ∀ (suf : List (Int × Rat)) (k : Int) (acc : Option Rat) (to : Int) (vo : Rat),
      SufAt data suf (k + 1) → Sorted (toE ((to, vo) :: suf)) →
      ∃ to' vo', Tr.AvgOverTime__interpolate.loop1 data prev step t acc to vo (rangeFrom k suf.length)
        = .ok (TI.loop step true prev t ⟨to, vo⟩ (toE suf) acc, to', vo') := by
  intro suf
  induction suf with
  | nil => intro k acc to vo _ _; exact ⟨to, vo, rfl⟩
  | cons e suf ih =>
    intro k acc to vo hs hsort
    obtain ⟨tn, vn⟩ := e
    have hidx : idx data (k + 1) = .ok (tn, vn) := by
      have := hs 0 (tn, vn) (by simp); simpa using this
    have hlt : to < tn := sorted_head_lt _ _ _ hsort
    have hne : tn - to ≠ 0 := by omega
    have hs' : SufAt data suf (k + 1 + 1) := (sufAt_tail hs).1
    have hsort' : Sorted (toE ((tn, vn) :: suf)) := sorted_tail hsort
    simp only [List.length_cons, rangeFrom, toE_cons, TI.loop]
    rw [Tr.AvgOverTime__interpolate.loop1]
    simp only [hidx, ok_bind]
    by_cases h1 : prev ≥ tn
    · obtain ⟨a, b, hab⟩ := ih (k + 1) acc tn vn hs' hsort'
      exact ⟨a, b, by simp [h1, hab]⟩
    · simp only [h1, if_false]
      by_cases h2 : t ≤ to
      · exact ⟨to, vo, by simp [h2]⟩
      · simp only [h2, if_false, div_ok _ _ hne, ok_bind, rmax_eq, rmin_eq, Tr.interpolate, pure_eq_ok,
          Py.totalSeconds]
        cases step with
        | none =>
          cases acc <;>
            (simp only [Option.isNone_none, Option.isNone_some, if_true, Bool.false_eq_true, if_false, Py.unwrap, ok_bind, Option.getD]
             first
             | (obtain ⟨a, b, hab⟩ := ih (k + 1) _ tn vn hs' hsort'
                refine ⟨a, b, ?_⟩
                rw [← hab]; congr 2 <;> simp [TI.piece, TA.frac, TA.lerp, TI.secs] <;> grind))
        | some s =>
          cases acc <;>
            (simp only [Option.isNone_none, Option.isNone_some, if_true, Bool.false_eq_true, if_false, Py.unwrap, ok_bind, Option.getD]
             first
             | (obtain ⟨a, b, hab⟩ := ih (k + 1) _ tn vn hs' hsort'
                refine ⟨a, b, ?_⟩
                rw [← hab]; congr 2 <;> simp [TI.piece, TA.frac, TA.lerp, TI.secs] <;> grind))


theorem range_len (p : Int × Rat) (r : List (Int × Rat)) : Py.range (Py.len (p :: r) - 1) = rangeFrom 0 r.length := by
  have : Py.len (p :: r) - 1 = ((r.length : Nat) : Int) := by simp [Py.len]
  rw [this, py_range]

/-- **`SumOverTime._interpolate` = `TI.sumInterp`** on sorted buffers (strictly increasing publication times make
    every quotient `(… - t_old) / (t_new - t_old)` well defined; Python would raise `ZeroDivisionError` otherwise). -/
theorem tr_SumOverTime__interpolate (d : List (Int × Rat)) (prev : Int) (step : Option Rat) (pt : Bool) (init t : Int)
    (hs : Sorted (toE d)) (hne : d ≠ []) :
    Tr.SumOverTime__interpolate d prev step pt init t = TI.sumInterp step pt init (toE d) prev t := by
  unfold Tr.SumOverTime__interpolate
  match d with
  | [] => exact absurd rfl hne
  | [p] => cases pt <;> simp [TI.sumInterp, TI.initVal, Py.totalSeconds, TI.secs]
  | p :: q :: r =>
    have hl : ¬ (Py.len r + 1 + 1 = 1) := by have := len_nonneg r; omega
    simp only [len_cons, hl, if_false, idx_zero_cons, ok_bind, toE_cons, TI.sumInterp]
    by_cases h0 : t ≤ p.1
    · cases pt <;> simp [h0, TI.initVal, Py.totalSeconds, TI.secs]
    · simp only [h0, if_false]
      have hr := range_len p (q :: r)
      simp only [len_cons] at hr
      obtain ⟨a, b, hab⟩ := sum_loop (p :: q :: r) prev step pt t (q :: r) 0 none p.1 p.2
        (by have := (sufAt_tail (sufAt_self (p :: q :: r))).1; simpa using this) (by simpa using hs)
      simp only [toE_cons] at hab
      rw [hr, hab]
      cases hloop : TI.loop step pt prev t ⟨p.1, p.2⟩ (⟨q.1, q.2⟩ :: toE r) none with
      | none => cases pt <;> simp [Py.unwrap]
      | some v => cases pt <;> simp [Py.unwrap]

/-- **`AvgOverTime._interpolate` = `TI.avgInterp`** on sorted buffers. -/
theorem tr_AvgOverTime__interpolate (d : List (Int × Rat)) (prev : Int) (step : Option Rat) (t : Int)
    (hs : Sorted (toE d)) (hne : d ≠ []) :
    Tr.AvgOverTime__interpolate d prev step t = TI.avgInterp step (toE d) prev t := by
  unfold Tr.AvgOverTime__interpolate
  match d with
  | [] => exact absurd rfl hne
  | [p] => simp [TI.avgInterp]
  | p :: q :: r =>
    have hl : ¬ (Py.len r + 1 + 1 = 1) := by have := len_nonneg r; omega
    simp only [len_cons, hl, if_false, idx_zero_cons, ok_bind, toE_cons, TI.avgInterp]
    by_cases h0 : t ≤ p.1
    · simp [h0]
    · simp only [h0, if_false]
      have hr := range_len p (q :: r)
      simp only [len_cons] at hr
      obtain ⟨a, b, hab⟩ := avg_loop (p :: q :: r) prev step t (q :: r) 0 none p.1 p.2
        (by have := (sufAt_tail (sufAt_self (p :: q :: r))).1; simpa using this) (by simpa using hs)
      simp only [toE_cons] at hab
      rw [hr, hab]
      simp only [ok_bind, Py.totalSeconds]
      by_cases hpos : t - prev > 0
      · have hx : (0 : Rat) < (t : Rat) - (prev : Rat) := by
          have : ((0 : Int) : Rat) < ((t - prev : Int) : Rat) := by exact_mod_cast hpos
          simpa using this
        have h1 : (0 : Rat) < ((t : Rat) - (prev : Rat)) / 1000000 := by grind
        have h2 : ¬ (((t : Rat) - (prev : Rat)) / 1000000 = 0) := by grind
        have h3 : prev < t := by omega
        cases hloop : TI.loop step true prev t ⟨p.1, p.2⟩ (⟨q.1, q.2⟩ :: toE r) none with
        | none => simp [Py.unwrap, h1, h3]
        | some v => simp [Py.unwrap, Py.div, h1, h2, h3, TI.secs]
      · have hx : ¬ ((0 : Rat) < (t : Rat) - (prev : Rat)) := by
          have : ¬ (((0 : Int) : Rat) < ((t - prev : Int) : Rat)) := by exact_mod_cast hpos
          simpa using this
        have h1 : ¬ ((0 : Rat) < ((t : Rat) - (prev : Rat)) / 1000000) := by grind
        have h3 : ¬ (prev < t) := by omega
        simp [h1, h3]

/-- **`TimeIntegrationAdapter._get_data` of `SumOverTime`** = the pull step of `TI.stepImpl`: range check, integral
    since the previous request, eviction by the *previous* request time, `_prev_time` advanced to the request -/
theorem tr_TimeIntegrationAdapter__get_data_sum (d : List (Int × Rat)) (prev : Int) (step : Option Rat) (pt : Bool)
    (init t : Int) (hs : Sorted (toE d)) :
    Tr.TimeIntegrationAdapter__get_data_sum d prev step pt init t =
      (TI.getData ⟨step, .sum pt init⟩ (toE d) prev t).map (fun v => (v, t, ofE (TA.clear (toE d) prev))) := by
  unfold Tr.TimeIntegrationAdapter__get_data_sum
  match d with
  | [] => simp [TI.getData, TA.checkRange, Except.map]
  | p :: r =>
    have hl : ¬ (Py.len r + 1 = 0) := by have := len_nonneg r; omega
    have := tr_SumOverTime__interpolate (p :: r) prev step pt init t hs (by simp)
    simp only [toE_cons] at this
    simp only [len_cons, hl, if_false, idx_zero_cons, ok_bind, idx_last, tr_check_time, this,
      tr_TimeCachingAdapter__clear_cached_data, TI.getData, TI.interp, toE_cons, TA.checkRange]
    by_cases h1 : t > (TA.lastE ⟨p.1, p.2⟩ (toE r)).t
    · simp [h1, Except.map]
    · by_cases h2 : t < p.1
      · simp [h1, h2, Except.map]
      · simp only [h1, h2, if_false, ok_bind]
        cases TI.sumInterp step pt init (⟨p.1, p.2⟩ :: toE r) prev t <;> simp [Except.map]

theorem tr_TimeIntegrationAdapter__get_data_avg (d : List (Int × Rat)) (prev : Int) (step : Option Rat)
    (t : Int) (hs : Sorted (toE d)) :
    Tr.TimeIntegrationAdapter__get_data_avg d prev step t =
      (TI.getData ⟨step, .avg⟩ (toE d) prev t).map (fun v => (v, t, ofE (TA.clear (toE d) prev))) := by
  unfold Tr.TimeIntegrationAdapter__get_data_avg
  match d with
  | [] => simp [TI.getData, TA.checkRange, Except.map]
  | p :: r =>
    have hl : ¬ (Py.len r + 1 = 0) := by have := len_nonneg r; omega
    have := tr_AvgOverTime__interpolate (p :: r) prev step t hs (by simp)
    simp only [toE_cons] at this
    simp only [len_cons, hl, if_false, idx_zero_cons, ok_bind, idx_last, tr_check_time, this,
      tr_TimeCachingAdapter__clear_cached_data, TI.getData, TI.interp, toE_cons, TA.checkRange]
    by_cases h1 : t > (TA.lastE ⟨p.1, p.2⟩ (toE r)).t
    · simp [h1, Except.map]
    · by_cases h2 : t < p.1
      · simp [h1, h2, Except.map]
      · simp only [h1, h2, if_false, ok_bind]
        cases TI.avgInterp step (⟨p.1, p.2⟩ :: toE r) prev t <;> simp [Except.map]

/-! ### C12 on the regenerated code

An integration adapter whose requests are answered by the *translated* `TimeIntegrationAdapter._get_data` (with the
translated `_interpolate` of `AvgOverTime` / `SumOverTime` inside); notifications append to the buffer and set
`_prev_time` the first time, as `_source_updated` does. -/

structure CodeTI where
  buf : List (Int × Rat)
  prev : Option Int

def codeGetTI (c : TI.Cfg) (buf : List (Int × Rat)) (prev t : Int) : Except Err (Rat × Int × List (Int × Rat)) :=
  match c.mode with
  | .avg => Tr.TimeIntegrationAdapter__get_data_avg buf prev c.step t
  | .sum pt init => Tr.TimeIntegrationAdapter__get_data_sum buf prev c.step pt init t

/-- **`TimeIntegrationAdapter._source_updated`**: the data pulled at the notification is appended with its time; the
    first notification also sets the start of the first integration interval -/
theorem tr_TimeIntegrationAdapter__source_updated {α} (buf : List (Int × α)) (prev : Option Int) (t : Int) (v : α) :
    Tr.TimeIntegrationAdapter__source_updated buf prev t v =
      .ok ((match prev with | none => some t | some p => some p), buf ++ [(t, v)]) := by
  cases prev <;> simp [Tr.TimeIntegrationAdapter__source_updated, pure, Except.pure]

def codeStepTI (c : TI.Cfg) (s : CodeTI) : TA.Ev → CodeTI × Option (Except Err Rat)
  | .push t v =>
    match Tr.TimeIntegrationAdapter__source_updated s.buf s.prev t v with
    | .ok (prev', buf') => (⟨buf', prev'⟩, none)
    | .error _ => (s, none)
  | .pull t =>
    match codeGetTI c s.buf (s.prev.getD 0) t with
    | .ok (v, p', buf') => (⟨buf', some p'⟩, some (.ok v))
    | .error e => (s, some (.error e))

def codeRunTI (c : TI.Cfg) : CodeTI → List TA.Ev → List (Option (Except Err Rat))
  | _, [] => []
  | s, ev :: evs => (codeStepTI c s ev).2 :: codeRunTI c (codeStepTI c s ev).1 evs

theorem code_get_ti_eq (c : TI.Cfg) (buf : List (Int × Rat)) (prev t : Int) (hs : Sorted (toE buf)) :
    codeGetTI c buf prev t = (TI.getData c (toE buf) prev t).map (fun v => (v, t, ofE (TA.clear (toE buf) prev))) := by
  obtain ⟨step, mode⟩ := c
  cases mode with
  | avg => exact tr_TimeIntegrationAdapter__get_data_avg buf prev step t hs
  | sum pt init => exact tr_TimeIntegrationAdapter__get_data_sum buf prev step pt init t hs

theorem code_step_sim_ti (c : TI.Cfg) (cs : CodeTI) (s : TI.IState) (hb : toE cs.buf = s.buf) (hp : cs.prev = s.prev)
    (hi : TI.Inv s) (ev : TA.Ev) :
    (codeStepTI c cs ev).2 = (TI.stepImpl c s ev).2 ∧ toE (codeStepTI c cs ev).1.buf = (TI.stepImpl c s ev).1.buf ∧
      (codeStepTI c cs ev).1.prev = (TI.stepImpl c s ev).1.prev := by
  cases ev with
  | push t v =>
    simp only [codeStepTI, tr_TimeIntegrationAdapter__source_updated]
    refine ⟨rfl, ?_, ?_⟩
    · show toE (cs.buf ++ [(t, v)]) = s.buf ++ [⟨t, v⟩]
      simp [toE, ← hb]
    · show (match cs.prev with | none => some t | some p => some p) = _
      rw [hp]; rfl
  | pull t =>
    have hs : Sorted (toE cs.buf) := by
      obtain ⟨p, hp'⟩ := hi.suffix
      rw [hb]; exact Finam.Props.C11.sorted_suffix' p s.buf (hp' ▸ hi.sorted)
    cases hbuf : s.buf with
    | nil =>
      have hg : TI.getData c [] (cs.prev.getD 0) t = .error .noData := by simp [TI.getData, TA.checkRange]
      have hstep : TI.stepImpl c s (.pull t) = (s, some (.error .noData)) := by
        simp [TI.stepImpl, hbuf]
      rw [hstep]
      simp only [codeStepTI, code_get_ti_eq c cs.buf _ t hs, hb, hbuf, hg, Except.map]
      refine ⟨?_, ?_, ?_⟩ <;> first | trivial | exact hp | (rw [hb, hbuf]) | (simp [hb, hbuf])
    | cons e r =>
      obtain ⟨p, hprev, _⟩ := hi.prevOk e r hbuf
      have hcp : cs.prev.getD 0 = p := by rw [hp, hprev]; rfl
      simp only [codeStepTI, hcp, code_get_ti_eq c cs.buf p t hs, hb, hbuf]
      cases hg : TI.getData c (e :: r) p t with
      | error err =>
        have hstep : TI.stepImpl c s (.pull t) = (s, some (.error err)) := by simp [TI.stepImpl, hbuf, hprev, hg]
        rw [hstep]
        simp only [Except.map]
        refine ⟨?_, ?_, ?_⟩ <;> first | trivial | exact hp | (rw [hb, hbuf]) | (simp [hb, hbuf])
      | ok v =>
        have hstep : TI.stepImpl c s (.pull t) = ({ s with buf := TA.clear (e :: r) p, prev := some t }, some (.ok v)) := by
          simp [TI.stepImpl, hbuf, hprev, hg]
        rw [hstep]
        simp only [Except.map]
        refine ⟨?_, ?_, ?_⟩ <;> first | trivial | (simp [toE_ofE])

theorem code_run_sim_ti (c : TI.Cfg) : ∀ (evs : List TA.Ev) (cs : CodeTI) (s : TI.IState),
    toE cs.buf = s.buf → cs.prev = s.prev → TI.Inv s → TI.preAllB c s evs = true →
    codeRunTI c cs evs = (TI.runBoth c s evs).map (·.1) := by
  intro evs
  induction evs with
  | nil => intro cs s _ _ _ _; rfl
  | cons ev evs ih =>
    intro cs s hb hp hi hpre
    simp only [TI.preAllB, Bool.and_eq_true] at hpre
    obtain ⟨h1, h2, h3⟩ := code_step_sim_ti c cs s hb hp hi ev
    simp only [codeRunTI, TI.runBoth, List.map_cons, h1]
    rw [ih _ _ h2 h3 (TI.inv_step c s hi ev (TI.pre_of_preB s ev hpre.1)) hpre.2]

/-- **C12 on the code.**  For every interleaving of publications (strictly increasing) and requests (non-decreasing)
    every request at `p1` inside the published range that follows a request (or the first publication) at `p0 < p1` is
    answered by the *translated* `_get_data` / `_interpolate` of `SumOverTime` / `AvgOverTime` with the exact integral of
    the interpolant of the *full* publication history over `[p0, p1]` (divided by `p1 - p0` for the average). -/
theorem code_integration_refines_spec (c : TI.Cfg) (evs : List TA.Ev) (h : TI.preAllB c TI.init evs = true) :
    ∀ (i : Nat) (v : Rat), ((TI.runBoth c TI.init evs).map (·.2))[i]? = some (some v) →
      (codeRunTI c ⟨[], none⟩ evs)[i]? = some (some (.ok v)) := by
  intro i v hv
  rw [code_run_sim_ti c evs ⟨[], none⟩ TI.init rfl rfl TI.init_inv h]
  simp only [List.getElem?_map] at hv ⊢
  cases hp : (TI.runBoth c TI.init evs)[i]? with
  | none => rw [hp] at hv; simp at hv
  | some p =>
    rw [hp] at hv
    simp only [Option.map_some, Option.some.injEq] at hv ⊢
    exact integration_refines_spec c evs h p (List.mem_of_getElem? hp) v hv

end Finam.Props.C12
