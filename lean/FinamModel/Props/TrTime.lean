import FinamModel.TimeAdapters
import FinamModel.Props.C11
import FinamModel.Props.TrCommon
import FinamModel.Props.TrTimeBase
import FinamModel.Translated.NextTime__interpolate
import FinamModel.Translated.PreviousTime__interpolate
import FinamModel.Translated.LinearTime__interpolate
import FinamModel.Translated.StepTime__interpolate
import FinamModel.Translated.TimeCachingAdapter__get_data_next
import FinamModel.Translated.TimeCachingAdapter__get_data_prev
import FinamModel.Translated.TimeCachingAdapter__get_data_linear
import FinamModel.Translated.TimeCachingAdapter__get_data_step
import FinamModel.Translated.TimeCachingAdapter__source_updated
/-
  Equivalence of the translated `_interpolate` bodies / eviction loop of the time-caching adapters
  (regenerated from `finam/adapters/time.py`) with the hand-written model `TA.*` of the C11 theorems.
-/
namespace Finam.Props.C11
open Finam Finam.Py

theorem next_loop {α} (full : List (Int × α)) (t : Int) (d : List (Int × α)) :
    Tr.NextTime__interpolate.loop1 full t d = TA.nextLoop (toE d) t := by
  induction d with
  | nil => rfl
  | cons p d ih =>
    obtain ⟨t', v⟩ := p
    simp only [Tr.NextTime__interpolate.loop1, toE_cons, TA.nextLoop, ih]
    by_cases h : t > t' <;> simp [h]

/-- `NextTime._interpolate` = `TA.nextInterp`, for every buffer and request -/
theorem tr_NextTime__interpolate {α} (d : List (Int × α)) (t : Int) :
    Tr.NextTime__interpolate d t = TA.nextInterp (toE d) t := by
  unfold Tr.NextTime__interpolate
  match d with
  | [] => simp [TA.nextInterp, next_loop]
  | [p] => simp [TA.nextInterp]
  | p :: q :: r =>
    have : ¬ (Py.len r + 1 + 1 = 1) := by have := len_nonneg r; omega
    simp [TA.nextInterp, next_loop, this]

theorem prev_loop {α} (full : List (Int × α)) (t : Int) :
    ∀ (suf : List (Int × α)) (k : Int) (p : Int × α), idx full (k - 1) = .ok p → SufAt full suf k →
      Tr.PreviousTime__interpolate.loop1 full t (enumFrom k suf) = TA.prevLoop ⟨p.1, p.2⟩ (toE suf) t := by
  intro suf
  induction suf with
  | nil => intro k p _ _; rfl
  | cons e suf ih =>
    intro k p hp hs
    obtain ⟨t', v⟩ := e
    simp only [enumFrom, Tr.PreviousTime__interpolate.loop1, toE_cons, TA.prevLoop]
    by_cases h1 : t > t'
    · have := ih (k + 1) (t', v) (sufAt_tail hs).2 (sufAt_tail hs).1
      simp [h1, this]
    · by_cases h2 : t = t'
      · simp [h2]
      · simp [h1, h2, hp]

/-- `PreviousTime._interpolate` = `TA.prevInterp` -/
theorem tr_PreviousTime__interpolate {α} (d : List (Int × α)) (t : Int) :
    Tr.PreviousTime__interpolate d t = TA.prevInterp (toE d) t := by
  unfold Tr.PreviousTime__interpolate
  match d with
  | [] => simp [TA.prevInterp, enumerate, enumFrom, Tr.PreviousTime__interpolate.loop1]
  | [p] => simp [TA.prevInterp]
  | p :: q :: r =>
    have hl : ¬ (Py.len r + 1 + 1 = 1) := by have := len_nonneg r; omega
    have := prev_loop (p :: q :: r) t (p :: q :: r) 0 _ (by simpa using idx_last p (q :: r)) (sufAt_self _)
    simp only [toE_cons] at this
    simp [TA.prevInterp, hl, enumerate, this]

/-- in the loop of `LinearTime._interpolate` / `StepTime._interpolate` the quotient `(time - t_prev) / (t - t_prev)`
    is only formed between two *different* buffered times when the request is not before the first entry and the
    buffer is sorted; here: the previous entry is strictly older than every entry of the suffix -/
def Older {α} (p : Int × α) (suf : List (Int × α)) : Prop := ∀ e ∈ suf, p.1 < e.1

theorem lin_loop (full : List (Int × Rat)) (t : Int) :
    ∀ (suf : List (Int × Rat)) (k : Int) (p : Int × Rat), idx full (k - 1) = .ok p → SufAt full suf k →
      Sorted (toE (p :: suf)) →
      Tr.LinearTime__interpolate.loop1 full t (enumFrom k suf) = TA.linLoop ⟨p.1, p.2⟩ (toE suf) t := by
  intro suf
  induction suf with
  | nil => intro k p _ _ _; rfl
  | cons e suf ih =>
    intro k p hp hs hsort
    obtain ⟨t', v⟩ := e
    simp only [enumFrom, Tr.LinearTime__interpolate.loop1, toE_cons, TA.linLoop]
    by_cases h1 : t > t'
    · have := ih (k + 1) (t', v) (sufAt_tail hs).2 (sufAt_tail hs).1 (sorted_tail hsort)
      simp [h1, this]
    · by_cases h2 : t = t'
      · simp [h2]
      · have hlt : p.1 < t' := by
          have := hsort; simp only [toE_cons] at this
          cases suf <;> simp [Sorted] at this <;> first | exact this | exact this.1
        have hne : ¬ ((((t' - p.1 : Int)) : Rat) = 0) := by
          have : (t' - p.1 : Int) ≠ 0 := by omega
          exact_mod_cast this
        have hne' : ¬ ((t' : Rat) - (p.1 : Rat) = 0) := by simpa using hne
        simp [h1, h2, hp, Py.div, hne', Tr.interpolate, TA.lerp, TA.frac]

theorem step_loop {α} (full : List (Int × α)) (pos : Rat) (t : Int) :
    ∀ (suf : List (Int × α)) (k : Int) (p : Int × α), idx full (k - 1) = .ok p → SufAt full suf k →
      Sorted (toE (p :: suf)) →
      Tr.StepTime__interpolate.loop1 full pos t (enumFrom k suf) = TA.stepLoop pos ⟨p.1, p.2⟩ (toE suf) t := by
  intro suf
  induction suf with
  | nil => intro k p _ _ _; rfl
  | cons e suf ih =>
    intro k p hp hs hsort
    obtain ⟨t', v⟩ := e
    simp only [enumFrom, Tr.StepTime__interpolate.loop1, toE_cons, TA.stepLoop]
    by_cases h1 : t > t'
    · have := ih (k + 1) (t', v) (sufAt_tail hs).2 (sufAt_tail hs).1 (sorted_tail hsort)
      simp [h1, this]
    · by_cases h2 : t = t'
      · simp [h2]
      · have hlt : p.1 < t' := by
          have := hsort; simp only [toE_cons] at this
          cases suf <;> simp [Sorted] at this <;> first | exact this | exact this.1
        have hne : ¬ ((((t' - p.1 : Int)) : Rat) = 0) := by
          have : (t' - p.1 : Int) ≠ 0 := by omega
          exact_mod_cast this
        have hne' : ¬ ((t' : Rat) - (p.1 : Rat) = 0) := by simpa using hne
        simp [h1, h2, hp, Py.div, hne', tr_interpolate_step, TA.frac]

/-- `LinearTime._interpolate` = `TA.linInterp` on a sorted buffer for a request not before its first entry
    (what `check_time` in `_get_data` establishes before `_interpolate` is called; before the first entry the
    Python code would divide by the distance between the *last* and the first entry, `data[i - 1]` with `i = 0`). -/
theorem tr_LinearTime__interpolate (d : List (Int × Rat)) (t : Int) (hs : Sorted (toE d))
    (h0 : ∀ e ∈ d.head?, e.1 ≤ t) :
    Tr.LinearTime__interpolate d t = TA.linInterp (toE d) t := by
  unfold Tr.LinearTime__interpolate
  match d with
  | [] => simp [TA.linInterp, enumerate, enumFrom, Tr.LinearTime__interpolate.loop1]
  | [p] => simp [TA.linInterp]
  | p :: q :: r =>
    have hl : ¬ (Py.len r + 1 + 1 = 1) := by have := len_nonneg r; omega
    have h0' : p.1 ≤ t := h0 p (by simp)
    have hstep : Tr.LinearTime__interpolate.loop1 (p :: q :: r) t (enumFrom 0 (p :: q :: r)) =
        (if t > p.1 then Tr.LinearTime__interpolate.loop1 (p :: q :: r) t (enumFrom (0 + 1) (q :: r)) else .ok p.2) := by
      rw [enumFrom, Tr.LinearTime__interpolate.loop1]
      by_cases h1 : t > p.1
      · simp [h1]
      · have : t = p.1 := by omega
        simp [this]
    have hmodel : TA.linInterp (toE (p :: q :: r)) t =
        (if t > p.1 then TA.linLoop ⟨p.1, p.2⟩ (toE (q :: r)) t else .ok p.2) := by
      simp only [toE_cons, TA.linInterp, TA.linLoop]
      by_cases h1 : t > p.1
      · simp [h1]
      · have : t = p.1 := by omega
        simp [this]
    have := lin_loop (p :: q :: r) t (q :: r) (0 + 1) p (by simp) (sufAt_tail (sufAt_self _)).1 hs
    rw [hmodel, ← this, ← hstep]
    simp [hl, enumerate]

theorem tr_StepTime__interpolate {α} (d : List (Int × α)) (pos : Rat) (t : Int) (hs : Sorted (toE d))
    (h0 : ∀ e ∈ d.head?, e.1 ≤ t) :
    Tr.StepTime__interpolate d pos t = TA.stepInterp pos (toE d) t := by
  unfold Tr.StepTime__interpolate
  match d with
  | [] => simp [TA.stepInterp, enumerate, enumFrom, Tr.StepTime__interpolate.loop1]
  | [p] => simp [TA.stepInterp]
  | p :: q :: r =>
    have hl : ¬ (Py.len r + 1 + 1 = 1) := by have := len_nonneg r; omega
    have h0' : p.1 ≤ t := h0 p (by simp)
    have hstep : Tr.StepTime__interpolate.loop1 (p :: q :: r) pos t (enumFrom 0 (p :: q :: r)) =
        (if t > p.1 then Tr.StepTime__interpolate.loop1 (p :: q :: r) pos t (enumFrom (0 + 1) (q :: r)) else .ok p.2) := by
      rw [enumFrom, Tr.StepTime__interpolate.loop1]
      by_cases h1 : t > p.1
      · simp [h1]
      · have : t = p.1 := by omega
        simp [this]
    have hmodel : TA.stepInterp pos (toE (p :: q :: r)) t =
        (if t > p.1 then TA.stepLoop pos ⟨p.1, p.2⟩ (toE (q :: r)) t else .ok p.2) := by
      simp only [toE_cons, TA.stepInterp, TA.stepLoop]
      by_cases h1 : t > p.1
      · simp [h1]
      · have : t = p.1 := by omega
        simp [this]
    have := step_loop (p :: q :: r) pos t (q :: r) (0 + 1) p (by simp) (sufAt_tail (sufAt_self _)).1 hs
    rw [hmodel, ← this, ← hstep]
    simp [hl, enumerate]

theorem sorted_head_le {α} (p : Int × α) (r : List (Int × α)) (t : Int)
    (h : TA.checkRange (toE (p :: r)) t = .ok ()) : ∀ e ∈ (p :: r).head?, e.1 ≤ t := by
  intro e he
  simp at he; subst he
  simp only [toE_cons, TA.checkRange] at h
  by_cases h1 : t > (TA.lastE ⟨p.1, p.2⟩ (toE r)).t
  · simp [h1] at h
  · by_cases h2 : t < p.1
    · simp [h1, h2] at h
    · omega

/-- **`TimeCachingAdapter._get_data` of `NextTime`** = `TA.stepImpl .next` on a pull: the answer of `getData` and the
    buffer after `_clear_cached_data` -/
theorem tr_TimeCachingAdapter__get_data_next (d : List (Int × Rat)) (t : Int) :
    Tr.TimeCachingAdapter__get_data_next d t =
      (TA.getData .next (toE d) t).map (fun v => (v, ofE (TA.clear (toE d) t))) := by
  unfold Tr.TimeCachingAdapter__get_data_next
  match d with
  | [] => simp [TA.getData, TA.checkRange, Except.map]
  | p :: r =>
    have hl : ¬ (Py.len r + 1 = 0) := by have := len_nonneg r; omega
    simp only [len_cons, hl, if_false, idx_zero_cons, ok_bind, idx_last, tr_check_time, tr_NextTime__interpolate,
      tr_TimeCachingAdapter__clear_cached_data, TA.getData, TA.interp, toE_cons, TA.checkRange]
    by_cases h1 : t > (TA.lastE ⟨p.1, p.2⟩ (toE r)).t
    · simp [h1, Except.map]
    · by_cases h2 : t < p.1
      · simp [h1, h2, Except.map]
      · simp only [h1, h2, if_false, ok_bind]
        cases TA.nextInterp (⟨p.1, p.2⟩ :: toE r) t <;> simp [Except.map]

theorem tr_TimeCachingAdapter__get_data_prev (d : List (Int × Rat)) (t : Int) :
    Tr.TimeCachingAdapter__get_data_prev d t =
      (TA.getData .prev (toE d) t).map (fun v => (v, ofE (TA.clear (toE d) t))) := by
  unfold Tr.TimeCachingAdapter__get_data_prev
  match d with
  | [] => simp [TA.getData, TA.checkRange, Except.map]
  | p :: r =>
    have hl : ¬ (Py.len r + 1 = 0) := by have := len_nonneg r; omega
    simp only [len_cons, hl, if_false, idx_zero_cons, ok_bind, idx_last, tr_check_time, tr_PreviousTime__interpolate,
      tr_TimeCachingAdapter__clear_cached_data, TA.getData, TA.interp, toE_cons, TA.checkRange]
    by_cases h1 : t > (TA.lastE ⟨p.1, p.2⟩ (toE r)).t
    · simp [h1, Except.map]
    · by_cases h2 : t < p.1
      · simp [h1, h2, Except.map]
      · simp only [h1, h2, if_false, ok_bind]
        cases TA.prevInterp (⟨p.1, p.2⟩ :: toE r) t <;> simp [Except.map]

theorem tr_TimeCachingAdapter__get_data_linear (d : List (Int × Rat)) (t : Int) (hs : Sorted (toE d)) :
    Tr.TimeCachingAdapter__get_data_linear d t =
      (TA.getData .linear (toE d) t).map (fun v => (v, ofE (TA.clear (toE d) t))) := by
  unfold Tr.TimeCachingAdapter__get_data_linear
  match d with
  | [] => simp [TA.getData, TA.checkRange, Except.map]
  | p :: r =>
    have hl : ¬ (Py.len r + 1 = 0) := by have := len_nonneg r; omega
    simp only [len_cons, hl, if_false, idx_zero_cons, ok_bind, idx_last, tr_check_time,
      tr_TimeCachingAdapter__clear_cached_data, TA.getData, TA.interp, toE_cons, TA.checkRange]
    by_cases h1 : t > (TA.lastE ⟨p.1, p.2⟩ (toE r)).t
    · simp [h1, Except.map]
    · by_cases h2 : t < p.1
      · simp [h1, h2, Except.map]
      · have h0 : ∀ e ∈ (p :: r).head?, e.1 ≤ t := by intro e he; simp at he; subst he; omega
        have := tr_LinearTime__interpolate (p :: r) t hs h0
        simp only [toE_cons] at this
        simp only [h1, h2, if_false, ok_bind, this]
        cases TA.linInterp (⟨p.1, p.2⟩ :: toE r) t <;> simp [Except.map]

theorem tr_TimeCachingAdapter__get_data_step (d : List (Int × Rat)) (pos : Rat) (t : Int) (hs : Sorted (toE d)) :
    Tr.TimeCachingAdapter__get_data_step d pos t =
      (TA.getData (.step pos) (toE d) t).map (fun v => (v, ofE (TA.clear (toE d) t))) := by
  unfold Tr.TimeCachingAdapter__get_data_step
  match d with
  | [] => simp [TA.getData, TA.checkRange, Except.map]
  | p :: r =>
    have hl : ¬ (Py.len r + 1 = 0) := by have := len_nonneg r; omega
    simp only [len_cons, hl, if_false, idx_zero_cons, ok_bind, idx_last, tr_check_time,
      tr_TimeCachingAdapter__clear_cached_data, TA.getData, TA.interp, toE_cons, TA.checkRange]
    by_cases h1 : t > (TA.lastE ⟨p.1, p.2⟩ (toE r)).t
    · simp [h1, Except.map]
    · by_cases h2 : t < p.1
      · simp [h1, h2, Except.map]
      · have h0 : ∀ e ∈ (p :: r).head?, e.1 ≤ t := by intro e he; simp at he; subst he; omega
        have := tr_StepTime__interpolate (p :: r) pos t hs h0
        simp only [toE_cons] at this
        simp only [h1, h2, if_false, ok_bind, this]
        cases TA.stepInterp pos (⟨p.1, p.2⟩ :: toE r) t <;> simp [Except.map]

/-! ### C11 on the regenerated code

A time-caching adapter whose requests are answered by the *translated* `_get_data` of its kind and whose notifications
go through the *translated* `_source_updated` (the value pulled from the source at the notification is a parameter). -/

def codeGet (k : TA.Kind) (buf : List (Int × Rat)) (t : Int) : Except Err (Rat × List (Int × Rat)) :=
  match k with
  | .next => Tr.TimeCachingAdapter__get_data_next buf t
  | .prev => Tr.TimeCachingAdapter__get_data_prev buf t
  | .linear => Tr.TimeCachingAdapter__get_data_linear buf t
  | .step pos => Tr.TimeCachingAdapter__get_data_step buf pos t

/-- **`TimeCachingAdapter._source_updated`**: the data pulled at the notification is appended with its time -/
theorem tr_TimeCachingAdapter__source_updated {α} (buf : List (Int × α)) (t : Int) (v : α) :
    Tr.TimeCachingAdapter__source_updated buf t v = .ok (buf ++ [(t, v)]) := by
  simp [Tr.TimeCachingAdapter__source_updated, pure, Except.pure]

def codeStepTA (k : TA.Kind) (buf : List (Int × Rat)) : TA.Ev → List (Int × Rat) × Option (Except Err Rat)
  | .push t v =>
    match Tr.TimeCachingAdapter__source_updated buf t v with
    | .ok buf' => (buf', none)
    | .error _ => (buf, none)
  | .pull t =>
    match codeGet k buf t with
    | .ok (v, buf') => (buf', some (.ok v))
    | .error e => (buf, some (.error e))

def codeRunTA (k : TA.Kind) : List (Int × Rat) → List TA.Ev → List (Option (Except Err Rat))
  | _, [] => []
  | buf, ev :: evs => (codeStepTA k buf ev).2 :: codeRunTA k (codeStepTA k buf ev).1 evs

theorem code_get_eq (k : TA.Kind) (buf : List (Int × Rat)) (t : Int) (hs : Sorted (toE buf)) :
    codeGet k buf t = (TA.getData k (toE buf) t).map (fun v => (v, ofE (TA.clear (toE buf) t))) := by
  cases k with
  | next => exact tr_TimeCachingAdapter__get_data_next buf t
  | prev => exact tr_TimeCachingAdapter__get_data_prev buf t
  | linear => exact tr_TimeCachingAdapter__get_data_linear buf t hs
  | step pos => exact tr_TimeCachingAdapter__get_data_step buf pos t hs

theorem code_step_sim_ta (k : TA.Kind) (buf : List (Int × Rat)) (s : TA.AState) (hb : toE buf = s.buf) (hi : TA.Inv s)
    (ev : TA.Ev) :
    (codeStepTA k buf ev).2 = (TA.stepImpl k s ev).2 ∧ toE (codeStepTA k buf ev).1 = (TA.stepImpl k s ev).1.buf := by
  cases ev with
  | push t v =>
    simp only [codeStepTA, tr_TimeCachingAdapter__source_updated]
    refine ⟨rfl, ?_⟩
    show toE (buf ++ [(t, v)]) = s.buf ++ [⟨t, v⟩]
    simp [toE, ← hb]
  | pull t =>
    have hs : Sorted (toE buf) := by
      obtain ⟨p, hp⟩ := hi.suffix
      rw [hb]; exact sorted_suffix' p s.buf (hp ▸ hi.sorted)
    simp only [codeStepTA, code_get_eq k buf t hs, TA.stepImpl, hb]
    cases TA.getData k s.buf t with
    | error e => exact ⟨rfl, hb⟩
    | ok v => exact ⟨rfl, by simp [Except.map, toE_ofE]⟩

theorem code_run_sim_ta (k : TA.Kind) : ∀ (evs : List TA.Ev) (buf : List (Int × Rat)) (s : TA.AState),
    toE buf = s.buf → TA.Inv s → TA.preAllB k s evs = true →
    codeRunTA k buf evs = (TA.runBoth k s evs).map (·.1) := by
  intro evs
  induction evs with
  | nil => intro buf s _ _ _; rfl
  | cons ev evs ih =>
    intro buf s hb hi hp
    simp only [TA.preAllB, Bool.and_eq_true] at hp
    obtain ⟨h1, h2⟩ := code_step_sim_ta k buf s hb hi ev
    simp only [codeRunTA, TA.runBoth, List.map_cons, h1]
    rw [ih _ _ h2 (TA.inv_step k s hi ev (TA.pre_of_preB s ev hp.1)) hp.2]

/-- **C11 on the code.**  For every interleaving of publications (strictly increasing times, arbitrary values) and
    requests (non-decreasing), every answer of the *translated* `_get_data` of `NextTime` / `PreviousTime` /
    `LinearTime` / `StepTime` — value or error class — is the answer of the mathematical definition evaluated on the
    full publication history, although the translated `_clear_cached_data` discards buffer entries on every served
    request. -/
theorem code_adapter_refines_spec (k : TA.Kind) (evs : List TA.Ev) (h : TA.preAllB k TA.init evs = true) :
    codeRunTA k [] evs = (TA.runBoth k TA.init evs).map (·.2) := by
  rw [code_run_sim_ta k evs [] TA.init rfl init_inv h]
  apply List.map_congr_left
  intro p hp
  exact adapter_refines_spec k evs h p hp

end Finam.Props.C11
