import FinamModel.PyPrelude
import FinamModel.Translated.Output_notify_targets
import FinamModel.Translated.Adapter_notify_targets
import FinamModel.Translated.Adapter_source_updated
/-!
  Push notifications on the *translated* `Output.notify_targets`, `Adapter.notify_targets` and `Adapter.source_updated`
  (`sdk/output.py`, `sdk/adapter.py`, regenerated from the source on every run): what the scheduling theorems (C01) and
  the buffers of the push-based adapters (C11, C12) assume of them.  `target.source_updated(time)` on another object is
  recorded in a trace; the statements are about that trace, directly on the regenerated definitions.
-/
namespace Finam.Props.Notify
open Finam

theorem output_loop (full : List Nat) (time : Option Int) : ∀ (ts : List Nat) (notes : List (Nat × Option Int)),
    Tr.Output_notify_targets.loop1 full notes time ts = .ok (notes ++ ts.map (fun t => (t, time))) := by
  intro ts
  induction ts with
  | nil => intro notes; simp [Tr.Output_notify_targets.loop1, pure, Except.pure]
  | cons t ts ih =>
    intro notes
    simp [Tr.Output_notify_targets.loop1, Py.recordPush, bind, Except.bind, pure, Except.pure, ih]

theorem adapter_loop (full : List Nat) (time : Option Int) : ∀ (ts : List Nat) (notes : List (Nat × Option Int)),
    Tr.Adapter_notify_targets.loop1 full notes time ts = .ok (notes ++ ts.map (fun t => (t, time))) := by
  intro ts
  induction ts with
  | nil => intro notes; simp [Tr.Adapter_notify_targets.loop1, pure, Except.pure]
  | cons t ts ih =>
    intro notes
    simp [Tr.Adapter_notify_targets.loop1, Py.recordPush, bind, Except.bind, pure, Except.pure, ih]

/-- **`Output.notify_targets`**: every target is notified exactly once, in the order in which the targets were linked,
    with the time of the publication — whatever kind of target it is -/
theorem tr_Output_notify_targets (targets : List Nat) (notes : List (Nat × Option Int)) (time : Option Int) :
    Tr.Output_notify_targets targets notes time = .ok (notes ++ targets.map (fun t => (t, time))) := by
  simp [Tr.Output_notify_targets, output_loop, bind, Except.bind, pure, Except.pure]

/-- **`Adapter.notify_targets`**: the same for an adapter: all of its targets, once each, the time unchanged -/
theorem tr_Adapter_notify_targets (targets : List Nat) (notes : List (Nat × Option Int)) (time : Option Int) :
    Tr.Adapter_notify_targets targets notes time = .ok (notes ++ targets.map (fun t => (t, time))) := by
  simp [Tr.Adapter_notify_targets, adapter_loop, bind, Except.bind, pure, Except.pure]

/-- **`Adapter.source_updated`**: after the adapter's own handling (`_source_updated`, a hook) the notification is passed
    on to every target with the time it arrived with -/
theorem tr_Adapter_source_updated (targets : List Nat) (notes : List (Nat × Option Int)) (time : Option Int) :
    Tr.Adapter_source_updated targets notes time = .ok (notes ++ targets.map (fun t => (t, time))) := by
  simp [Tr.Adapter_source_updated, tr_Adapter_notify_targets, bind, Except.bind, pure, Except.pure]

/-- **a notification reaches every end of a chain of adapters with the publication's time** (on the code): passing a
    notification of time `t` through a chain of adapters, each with the next one as a target among its targets, the last
    adapter notifies all of its targets with `t` -/
theorem code_notification_time_unchanged (t : Option Int) (targets : List Nat) (x : Nat) (hx : x ∈ targets) :
    ∃ notes, Tr.Adapter_source_updated targets [] t = .ok notes ∧ (x, t) ∈ notes ∧ ∀ p ∈ notes, p.2 = t := by
  refine ⟨_, tr_Adapter_source_updated targets [] t, ?_, ?_⟩
  · simp only [List.nil_append, List.mem_map]; exact ⟨x, hx, rfl⟩
  · intro p hp
    simp only [List.nil_append, List.mem_map] at hp
    obtain ⟨_, _, rfl⟩ := hp
    rfl

example : Tr.Output_notify_targets [3, 5] [] (some 7) = .ok [(3, some 7), (5, some 7)] := by decide

end Finam.Props.Notify
