import FinamModel.RegridLemmas
/-!
  C16 — regridding puts the right source value at each target location.

  Model: `FinamModel/Regrid.lean` (`regridNearest` mirrors `RegridNearest._update_grid_specs/_get_data`,
  `regridLinear` the unstructured / masked-source path of `RegridLinear`; both work on the flat level:
  `data_points`, ravelled masks and ravelled values in grid order).  The scipy parts are parameters:
  `nn` with the arg-min specification `IsArgmin` (any arg-min: ties are free), `ι` with the hypotheses
  *NaN exactly outside the hull, whatever the values* and *exact on affine fields inside the hull*.
  Partial by nature: scipy's k-d tree and triangulation are not verified, the correspondence run
  validates the hypotheses on the generated cases.

  Every theorem is for all grids (any number of locations, any dimension, any masks, any values).
-/
namespace Finam.Props.C16
open Finam Finam.Regrid

variable {α : Type}

/-- the source side of one regridding: every compressed coordinate / value pair comes from an unmasked
    source location, and every unmasked source location is among the compressed coordinates -/
theorem source_pairs (sp : List Pt) (sm : List Bool) (sv : List α) (hs1 : sm.length = sp.length)
    (hs2 : sv.length = sp.length) (i : Nat) (p0 : Pt) (h : (compress sm sp)[i]? = some p0) :
    ∃ (j : Nat) (v : α), sm[j]? = some false ∧ sp[j]? = some p0 ∧ sv[j]? = some v ∧ (compress sm sv)[i]? = some v := by
  obtain ⟨j, e1, e2, e3⟩ := compress_index sm sp sv hs1 (by omega) i p0 h
  have hj : j < sv.length := by
    rcases List.getElem?_eq_some_iff.mp e2 with ⟨hl, _⟩; omega
  exact ⟨j, sv[j], e1, e2, List.getElem?_eq_getElem hj, by rw [e3, List.getElem?_eq_getElem hj]⟩

/-- a nearest unmasked source location of `q`, with its value -/
def NearestSource (sp : List Pt) (sm : List Bool) (sv : List α) (q : Pt) (v : α) : Prop :=
  ∃ (j : Nat) (p : Pt), sm[j]? = some false ∧ sp[j]? = some p ∧ sv[j]? = some v ∧
    ∀ (j' : Nat) (p' : Pt), sm[j']? = some false → sp[j']? = some p' → dist2 p q ≤ dist2 p' q

/-- value picked by the arg-min among the compressed source locations -/
theorem argmin_pick (nn : List Pt → Pt → Nat) (hnn : IsArgmin nn) (sp : List Pt) (sm : List Bool) (sv : List α)
    (hs1 : sm.length = sp.length) (hs2 : sv.length = sp.length) (hne : ∃ j : Nat, sm[j]? = some false) (q : Pt) :
    nn (compress sm sp) q < (compress sm sv).length ∧
    ∃ v, cellAt (compress sm sv) (nn (compress sm sp) q) = .val v ∧ NearestSource sp sm sv q v := by
  obtain ⟨j0, hj0⟩ := hne
  have hj0' : j0 < sp.length := by
    rcases List.getElem?_eq_some_iff.mp hj0 with ⟨hl, _⟩; omega
  have hcs : compress sm sp ≠ [] := by
    intro h
    have := compress_cover sm sp j0 sp[j0] hj0 (List.getElem?_eq_getElem hj0')
    rw [h] at this; cases this
  obtain ⟨p0, hp0, hmin⟩ := hnn (compress sm sp) q hcs
  obtain ⟨j, v, e1, e2, e3, e4⟩ := source_pairs sp sm sv hs1 hs2 _ p0 hp0
  refine ⟨?_, v, cellAt_of_getElem? _ _ v e4, j, p0, e1, e2, e3, ?_⟩
  · rcases List.getElem?_eq_some_iff.mp e4 with ⟨hl, _⟩; exact hl
  · intro j' p' h1 h2
    exact hmin p' (compress_cover sm sp j' p' h1 h2)

/-- the nearest regridding runs and delivers, per target location, `masked` or the arg-min's pick -/
theorem nearest_eval (nn : List Pt → Pt → Nat) (hnn : IsArgmin nn) (sp : List Pt) (sm : List Bool) (sv : List α)
    (tp : List Pt) (tm : List Bool) (hs1 : sm.length = sp.length) (hs2 : sv.length = sp.length)
    (ht : tm.length = tp.length) (hne : ∃ j : Nat, sm[j]? = some false) :
    regridNearest nn sp sm sv tp tm = .ok (List.zipWith
      (fun m q => if m then Cell.masked else cellAt (compress sm sv) (nn (compress sm sp) q)) tm tp) := by
  unfold regridNearest
  have hcs : (compress sm sp).isEmpty = false := by
    obtain ⟨j0, hj0⟩ := hne
    have hj0' : j0 < sp.length := by
      rcases List.getElem?_eq_some_iff.mp hj0 with ⟨hl, _⟩; omega
    have := compress_cover sm sp j0 sp[j0] hj0 (List.getElem?_eq_getElem hj0')
    cases hc : compress sm sp with
    | nil => rw [hc] at this; cases this
    | cons a as => rfl
  rw [hcs]
  have hall : ((compress tm tp).map (nn (compress sm sp))).all (· < (compress sm sv).length) = true := by
    simp only [List.all_eq_true, List.mem_map, decide_eq_true_eq]
    rintro i ⟨q, _, rfl⟩
    exact (argmin_pick nn hnn sp sm sv hs1 hs2 hne q).1
  simp only [Bool.false_eq_true, if_false, hall, if_true]
  exact fromCompressed_map_compress _ tm tp ht

/-- **Nearest-neighbour regridding gives every unmasked target location the value of a
    Euclidean-nearest unmasked source location (any of the nearest on ties), and masked target cells stay
    masked** — for every arg-min function, all grids, masks and values. -/
theorem nearest_value (nn : List Pt → Pt → Nat) (hnn : IsArgmin nn) (sp : List Pt) (sm : List Bool) (sv : List α)
    (tp : List Pt) (tm : List Bool) (hs1 : sm.length = sp.length) (hs2 : sv.length = sp.length)
    (ht : tm.length = tp.length) (hne : ∃ j : Nat, sm[j]? = some false) :
    ∃ out, regridNearest nn sp sm sv tp tm = .ok out ∧ out.length = tp.length ∧
      ∀ (k : Nat) (q : Pt), tp[k]? = some q →
        (tm[k]? = some true → out[k]? = some Cell.masked) ∧
        (tm[k]? = some false → ∃ v, out[k]? = some (Cell.val v) ∧ NearestSource sp sm sv q v) := by
  refine ⟨_, nearest_eval nn hnn sp sm sv tp tm hs1 hs2 ht hne, by simp [List.length_zipWith, ht], ?_⟩
  intro k q hq
  constructor
  · intro hm
    rw [zipWith_cell_getElem? _ tm tp k true q hm hq]; rfl
  · intro hm
    obtain ⟨_, v, hv, hnear⟩ := argmin_pick nn hnn sp sm sv hs1 hs2 hne q
    refine ⟨v, ?_, hnear⟩
    rw [zipWith_cell_getElem? _ tm tp k false q hm hq]
    simp [hv]

/-- **Masked target cells stay masked, and only they**: a delivered cell is `masked` exactly at the
    masked positions of the output mask. -/
theorem masked_target_stays_masked (nn : List Pt → Pt → Nat) (hnn : IsArgmin nn) (sp : List Pt) (sm : List Bool)
    (sv : List α) (tp : List Pt) (tm : List Bool) (hs1 : sm.length = sp.length) (hs2 : sv.length = sp.length)
    (ht : tm.length = tp.length) (hne : ∃ j : Nat, sm[j]? = some false) (out : List (Cell α))
    (h : regridNearest nn sp sm sv tp tm = .ok out) (k : Nat) (hk : k < tp.length) :
    out[k]? = some .masked ↔ tm[k]? = some true := by
  obtain ⟨out', h', _, hcells⟩ := nearest_value nn hnn sp sm sv tp tm hs1 hs2 ht hne
  rw [h] at h'
  cases h'
  have hq : tp[k]? = some tp[k] := List.getElem?_eq_getElem hk
  have hm : tm[k]? = some tm[k] := List.getElem?_eq_getElem (by omega)
  obtain ⟨c1, c2⟩ := hcells k tp[k] hq
  cases hb : tm[k] with
  | true => rw [hb] at hm; simp [hm, c1 hm]
  | false =>
    rw [hb] at hm
    obtain ⟨v, hv, _⟩ := c2 hm
    simp [hm, hv]

/-- **Identity between different layouts of the same grid**: a target location that coincides with an
    unmasked source location receives that location's value (source coordinates pairwise distinct, all
    points of the same dimension) — whatever the order in which either grid enumerates its locations. -/
theorem nearest_same_grid_id (nn : List Pt → Pt → Nat) (hnn : IsArgmin nn) (sp : List Pt) (sm : List Bool)
    (sv : List α) (tp : List Pt) (tm : List Bool) (hs1 : sm.length = sp.length) (hs2 : sv.length = sp.length)
    (ht : tm.length = tp.length) (d : Nat) (hdim : ∀ p ∈ sp, p.length = d)
    (hinj : ∀ (j j' : Nat) (p : Pt), sm[j]? = some false → sm[j']? = some false → sp[j]? = some p → sp[j']? = some p → j = j')
    (k j : Nat) (q : Pt) (v : α) (hq : tp[k]? = some q) (hm : tm[k]? = some false)
    (hj : sp[j]? = some q) (hjm : sm[j]? = some false) (hv : sv[j]? = some v) :
    ∃ out, regridNearest nn sp sm sv tp tm = .ok out ∧ out[k]? = some (.val v) := by
  obtain ⟨out, h, _, hcells⟩ := nearest_value nn hnn sp sm sv tp tm hs1 hs2 ht ⟨j, hjm⟩
  refine ⟨out, h, ?_⟩
  obtain ⟨v0, hv0, j0, p0, e1, e2, e3, hmin⟩ := (hcells k q hq).2 hm
  have h0 : dist2 p0 q ≤ 0 := by
    have := hmin j q hjm hj
    rwa [dist2_self] at this
  have h1 := dist2_nonneg p0 q
  have hz : dist2 p0 q = 0 := by grind
  have hl : p0.length = q.length := by
    rw [hdim p0 (List.mem_of_getElem? e2), hdim q (List.mem_of_getElem? hj)]
  have hp : p0 = q := dist2_eq_zero p0 q hl hz
  subst hp
  have hjj : j0 = j := hinj j0 j p0 e1 hjm e2 hj
  subst hjj
  rw [hv] at e3
  cases e3
  exact hv0

/-- **Masked source values never influence the result** (nearest): two fields that agree on the
    unmasked source locations are regridded to the same thing. -/
theorem masked_source_no_influence (nn : List Pt → Pt → Nat) (sp : List Pt) (sm : List Bool) (sv sv' : List α)
    (tp : List Pt) (tm : List Bool) (hl : sv.length = sv'.length)
    (hagree : ∀ j : Nat, sm[j]? = some false → sv[j]? = sv'[j]?) :
    regridNearest nn sp sm sv tp tm = regridNearest nn sp sm sv' tp tm := by
  unfold regridNearest
  rw [compress_congr sm sv sv' hl hagree]

/-- the same for the linear regridding -/
theorem masked_source_no_influence_linear (ι : List Pt → List α → Pt → Option α) (zero : α)
    (nn : List Pt → Pt → Nat) (fill : Bool) (sp : List Pt) (sm : List Bool) (sv sv' : List α) (tp : List Pt)
    (req : MaskReq) (hl : sv.length = sv'.length) (hagree : ∀ j : Nat, sm[j]? = some false → sv[j]? = sv'[j]?) :
    regridLinear ι zero nn fill sp sm sv tp req = regridLinear ι zero nn fill sp sm sv' tp req := by
  unfold regridLinear
  rw [compress_congr sm sv sv' hl hagree]

/-! ### linear regridding (unstructured / masked-source path) -/

/-- hypotheses on the interpolator parameter: `InHull pts q` = "`q` lies in the convex hull of `pts`";
    the NaN pattern is the outside of the hull whatever the values (the adapter determines it once, with
    placeholder values); fields of the class `Aff` (the affine ones) are reproduced inside -/
structure InterpOk (ι : List Pt → List α → Pt → Option α) (InHull : List Pt → Pt → Prop)
    (Aff : (Pt → α) → Prop) : Prop where
  nan_iff : ∀ pts vals q, vals.length = pts.length → ((ι pts vals q).isNone = true ↔ ¬ InHull pts q)
  exact : ∀ pts f q, Aff f → InHull pts q → ι pts (pts.map f) q = some (f q)

/-- is position `k` masked by the requested mask? -/
def reqMasked (req : MaskReq) (k : Nat) : Bool :=
  match req with
  | .explicit m => m[k]?.getD false
  | _ => false

/-- the requested explicit mask fits the target grid -/
def ReqFits (req : MaskReq) (n : Nat) : Prop := ∀ m, req = .explicit m → m.length = n

theorem fillMask_length (n : Nat) (req : MaskReq) (h : ReqFits req n) : (fillMask n req).length = n := by
  cases req with
  | explicit m => exact h m rfl
  | flex => simp [fillMask]
  | none => simp [fillMask]

theorem fillMask_get (n : Nat) (req : MaskReq) (h : ReqFits req n) (k : Nat) (hk : k < n) :
    (fillMask n req)[k]? = some (reqMasked req k) := by
  cases req with
  | explicit m =>
    have : k < m.length := by rw [h m rfl]; exact hk
    simp [fillMask, reqMasked, List.getElem?_eq_getElem this]
  | flex => simp [fillMask, reqMasked, hk]
  | none => simp [fillMask, reqMasked, hk]

/-- what `linearMask` answers: the outliers (FLEX), nothing provided there is no outlier (NONE), the
    explicit mask provided it covers the outliers -/
theorem linearMask_ok {outlier tm : List Bool} {req : MaskReq} (h : linearMask outlier req = .ok tm) :
    tm.length = outlier.length ∧
    ∀ k o, outlier[k]? = some o → (o = true → tm[k]? = some true) ∧
      (o = false → tm[k]? = some (reqMasked req k)) := by
  cases req with
  | flex =>
    simp only [linearMask, Except.ok.injEq] at h
    subst h
    refine ⟨rfl, fun k o ho => ⟨fun e => by rw [ho, e], fun e => by rw [ho, e]; rfl⟩⟩
  | none =>
    simp only [linearMask] at h
    split at h
    · cases h
    · rename_i hany
      simp only [Except.ok.injEq] at h
      subst h
      refine ⟨by simp, fun k o ho => ?_⟩
      have hk : k < outlier.length := by
        rcases List.getElem?_eq_some_iff.mp ho with ⟨hl, _⟩; exact hl
      constructor
      · intro e
        exfalso
        apply hany
        simp only [List.any_eq_true, id_eq]
        exact ⟨o, List.mem_of_getElem? ho, e⟩
      · intro _; simp [reqMasked, hk]
  | explicit m =>
    simp only [linearMask] at h
    split at h
    · rename_i hc
      simp only [Except.ok.injEq] at h
      subst h
      refine ⟨hc.1, fun k o ho => ?_⟩
      have hk : k < outlier.length := by
        rcases List.getElem?_eq_some_iff.mp ho with ⟨hl, _⟩; exact hl
      have hkm : k < m.length := by omega
      have hz := hc.2
      simp only [List.all_eq_true, id_eq] at hz
      have hmem : (!o || m[k]) ∈ List.zipWith (fun o b => !o || b) outlier m := by
        apply List.mem_of_getElem? (i := k)
        simp [List.getElem?_zipWith, ho, List.getElem?_eq_getElem hkm]
      have := hz _ hmem
      constructor
      · intro e; subst e
        simp only [Bool.not_true, Bool.false_or] at this
        simp [List.getElem?_eq_getElem hkm, this]
      · intro _; simp [reqMasked, List.getElem?_eq_getElem hkm]
    · cases h

theorem zipWith_ext {β γ δ : Type} {f g : β → γ → δ} (h : ∀ a b, f a b = g a b) (l1 : List β) (l2 : List γ) :
    List.zipWith f l1 l2 = List.zipWith g l1 l2 := by
  have : f = g := funext fun a => funext fun b => h a b
  rw [this]

variable (ι : List Pt → List α → Pt → Option α) (InHull : List Pt → Pt → Prop) (Aff : (Pt → α) → Prop)

open Classical in
/-- the final output mask and cells of the linear regridding, spelled out -/
theorem linear_eval (hι : InterpOk ι InHull Aff) (zero : α) (nn : List Pt → Pt → Nat) (fill : Bool)
    (sp : List Pt) (sm : List Bool) (sv : List α) (tp : List Pt) (req : MaskReq) (hfit : ReqFits req tp.length)
    (out : List (Cell α)) (h : regridLinear ι zero nn fill sp sm sv tp req = .ok out) :
    ∃ tm : List Bool, tm.length = tp.length ∧
      (∀ (k : Nat) (q : Pt), tp[k]? = some q →
        (fill = true → tm[k]? = some (reqMasked req k)) ∧
        (fill = false → (¬ InHull (compress sm sp) q → tm[k]? = some true) ∧
                        (InHull (compress sm sp) q → tm[k]? = some (reqMasked req k)))) ∧
      out = List.zipWith (fun m q => if m then Cell.masked else
        (if fill = true ∧ ¬ InHull (compress sm sp) q then cellAt (compress sm sv) (nn (compress sm sp) q)
         else cellOfOpt (ι (compress sm sp) (compress sm sv) q))) tm tp := by
  classical
  unfold regridLinear at h
  split at h
  · cases h
  · have hz : ∀ q, (ι (compress sm sp) ((compress sm sp).map fun _ => zero) q).isNone = true ↔
        ¬ InHull (compress sm sp) q := fun q => hι.nan_iff _ _ q (by simp)
    cases fill with
    | true =>
      simp only [if_true] at h
      have hlen := fillMask_length tp.length req hfit
      rw [fromCompressed_map_compress _ _ tp hlen] at h
      simp only [Except.ok.injEq] at h
      refine ⟨fillMask tp.length req, hlen, ?_, ?_⟩
      · intro k q hq
        have hk : k < tp.length := by
          rcases List.getElem?_eq_some_iff.mp hq with ⟨hl, _⟩; exact hl
        exact ⟨fun _ => fillMask_get _ _ hfit k hk, fun e => Bool.noConfusion e⟩
      · rw [← h]
        apply zipWith_ext
        intro m q
        by_cases hin : InHull (compress sm sp) q
        · have : (ι (compress sm sp) ((compress sm sp).map fun _ => zero) q).isNone = false := by
            cases hh : (ι (compress sm sp) ((compress sm sp).map fun _ => zero) q).isNone with
            | false => rfl
            | true => exact absurd hin ((hz q).mp hh)
          simp [this, hin]
        · have := (hz q).mpr hin
          simp [this, hin]
    | false =>
      simp only [Bool.false_eq_true, if_false] at h
      split at h
      · cases h
      · rename_i tm hmask
        obtain ⟨hl, hcell⟩ := linearMask_ok hmask
        have hlen : tm.length = tp.length := by simpa using hl
        rw [fromCompressed_map_compress _ tm tp hlen] at h
        simp only [Except.ok.injEq] at h
        refine ⟨tm, hlen, ?_, ?_⟩
        · intro k q hq
          refine ⟨fun e => Bool.noConfusion e, fun _ => ?_⟩
          have ho : (tp.map fun q => (ι (compress sm sp) ((compress sm sp).map fun _ => zero) q).isNone)[k]? =
              some ((ι (compress sm sp) ((compress sm sp).map fun _ => zero) q).isNone) := by
            simp [hq]
          obtain ⟨c1, c2⟩ := hcell k _ ho
          constructor
          · intro hout; exact c1 ((hz q).mpr hout)
          · intro hin
            apply c2
            cases hh : (ι (compress sm sp) ((compress sm sp).map fun _ => zero) q).isNone with
            | false => rfl
            | true => exact absurd hin ((hz q).mp hh)
        · rw [← h]
          apply zipWith_ext
          intro m q
          simp

/-- **Linear regridding of unstructured or masked sources reproduces affine fields exactly inside the
    convex hull of the (unmasked) source locations**: a target location inside the hull, not masked by
    the request, receives `f q` when the unmasked source values are `f` of their locations. -/
theorem linear_affine_exact (hι : InterpOk ι InHull Aff) (zero : α) (nn : List Pt → Pt → Nat) (fill : Bool)
    (sp : List Pt) (sm : List Bool) (sv : List α) (tp : List Pt) (req : MaskReq) (hfit : ReqFits req tp.length)
    (f : Pt → α) (hf : Aff f) (hs : sv.length = sp.length)
    (hfield : ∀ (j : Nat) (p : Pt), sm[j]? = some false → sp[j]? = some p → sv[j]? = some (f p))
    (out : List (Cell α)) (h : regridLinear ι zero nn fill sp sm sv tp req = .ok out)
    (k : Nat) (q : Pt) (hq : tp[k]? = some q) (hin : InHull (compress sm sp) q) :
    out[k]? = some (if reqMasked req k then .masked else .val (f q)) := by
  obtain ⟨tm, hlen, hmask, hout⟩ := linear_eval ι InHull Aff hι zero nn fill sp sm sv tp req hfit out h
  have hcv : compress sm sv = (compress sm sp).map f := by
    rw [← compress_map]
    apply compress_congr sm sv (sp.map f) (by simp [hs])
    intro j hj
    by_cases hjl : j < sp.length
    · rw [hfield j sp[j] hj (List.getElem?_eq_getElem hjl)]
      simp [List.getElem?_eq_getElem hjl]
    · have h1 : sv[j]? = none := List.getElem?_eq_none (by omega)
      have h2 : (sp.map f)[j]? = none := List.getElem?_eq_none (by simp; omega)
      rw [h1, h2]
  have htm : tm[k]? = some (reqMasked req k) := by
    cases fill with
    | true => exact (hmask k q hq).1 rfl
    | false => exact ((hmask k q hq).2 rfl).2 hin
  rw [hout, zipWith_cell_getElem? _ tm tp k _ q htm hq]
  have : ¬ (fill = true ∧ ¬ InHull (compress sm sp) q) := fun hc => hc.2 hin
  simp only [this, if_false, hcv, hι.exact _ f q hf hin, cellOfOpt]

/-- **…and masks, or fills with the nearest value if requested, everything outside**: without fill a
    delivered result has every outside location masked (a request that does not cover them is refused);
    with fill an outside location not masked by the request carries the value of a Euclidean-nearest
    unmasked source location. -/
theorem linear_outside_masked_or_filled (hι : InterpOk ι InHull Aff) (zero : α) (nn : List Pt → Pt → Nat)
    (hnn : IsArgmin nn) (fill : Bool) (sp : List Pt) (sm : List Bool) (sv : List α) (tp : List Pt) (req : MaskReq)
    (hfit : ReqFits req tp.length) (hs1 : sm.length = sp.length) (hs2 : sv.length = sp.length)
    (out : List (Cell α)) (h : regridLinear ι zero nn fill sp sm sv tp req = .ok out)
    (k : Nat) (q : Pt) (hq : tp[k]? = some q) (hout : ¬ InHull (compress sm sp) q) :
    (fill = false → out[k]? = some .masked) ∧
    (fill = true → reqMasked req k = true → out[k]? = some .masked) ∧
    (fill = true → reqMasked req k = false → ∃ v, out[k]? = some (.val v) ∧ NearestSource sp sm sv q v) := by
  obtain ⟨tm, hlen, hmask, hres⟩ := linear_eval ι InHull Aff hι zero nn fill sp sm sv tp req hfit out h
  have hne : ∃ j : Nat, sm[j]? = some false := by
    -- the source is not entirely masked, otherwise the run would have failed
    unfold regridLinear at h
    split at h
    · cases h
    · rename_i hc
      cases hcs : compress sm sp with
      | nil => rw [hcs] at hc; simp at hc
      | cons a as =>
        have : (compress sm sp)[0]? = some a := by rw [hcs]; rfl
        obtain ⟨j, e1, _, _⟩ := compress_index sm sp sp hs1 hs1 0 a this
        exact ⟨j, e1⟩
  refine ⟨?_, ?_, ?_⟩
  · intro hf
    have htm := ((hmask k q hq).2 hf).1 hout
    rw [hres, zipWith_cell_getElem? _ tm tp k true q htm hq]; rfl
  · intro hf hr
    have htm := (hmask k q hq).1 hf
    rw [hr] at htm
    rw [hres, zipWith_cell_getElem? _ tm tp k true q htm hq]; rfl
  · intro hf hr
    have htm := (hmask k q hq).1 hf
    rw [hr] at htm
    obtain ⟨_, v, hv, hnear⟩ := argmin_pick nn hnn sp sm sv hs1 hs2 hne q
    refine ⟨v, ?_, hnear⟩
    rw [hres, zipWith_cell_getElem? _ tm tp k false q htm hq]
    simp [hf, hout, hv]

/-- requested-masked target cells stay masked in the linear regridding as well -/
theorem linear_masked_target_stays_masked (hι : InterpOk ι InHull Aff) (zero : α) (nn : List Pt → Pt → Nat)
    (fill : Bool) (sp : List Pt) (sm : List Bool) (sv : List α) (tp : List Pt) (req : MaskReq)
    (hfit : ReqFits req tp.length) (out : List (Cell α))
    (h : regridLinear ι zero nn fill sp sm sv tp req = .ok out) (k : Nat) (q : Pt) (hq : tp[k]? = some q)
    (hr : reqMasked req k = true) : out[k]? = some .masked := by
  classical
  obtain ⟨tm, hlen, hmask, hres⟩ := linear_eval ι InHull Aff hι zero nn fill sp sm sv tp req hfit out h
  have htm : tm[k]? = some true := by
    cases fill with
    | true => have := (hmask k q hq).1 rfl; rwa [hr] at this
    | false =>
      by_cases hin : InHull (compress sm sp) q
      · have := ((hmask k q hq).2 rfl).2 hin; rwa [hr] at this
      · exact ((hmask k q hq).2 rfl).1 hin
  rw [hres, zipWith_cell_getElem? _ tm tp k true q htm hq]; rfl

/-! ### non-vacuity -/

/-- the arg-min hypothesis is satisfiable: the driver's first-minimum search -/
example : IsArgmin argminFirst := argminFirst_isArgmin

/-- three source locations on a line, the middle one masked; three targets, the last one masked:
    the first target is nearest to source 0, the second (between the masked source 1 and source 2) gets
    source 2, the masked target stays masked -/
example : regridNearest argminFirst [[0], [1], [2]] [false, true, false] [5, 6, 7]
    [[1/2], [5/4], [9/4]] [false, false, true] = .ok [Cell.val (5 : Nat), .val 7, .masked] := by decide +kernel

/-- the same grid enumerated in another order: identity -/
example : regridNearest argminFirst [[0, 0], [1, 0], [0, 1], [1, 1]] [false, false, false, false] [1, 2, 3, 4]
    [[1, 1], [0, 1], [1, 0], [0, 0]] [false, false, false, false] =
    .ok [Cell.val (4 : Nat), .val 3, .val 2, .val 1] := by decide +kernel

/-- an interpolator that satisfies the hypotheses `InterpOk` (exact at the nodes, NaN elsewhere; the
    "hull" is the node set): the hypotheses are consistent -/
def nodeInterp (pts : List Pt) (vals : List Rat) (q : Pt) : Option Rat :=
  if q ∈ pts then vals[pts.idxOf q]? else none

example : InterpOk nodeInterp (fun pts q => q ∈ pts) (fun _ => True) where
  nan_iff := by
    intro pts vals q hl
    unfold nodeInterp
    by_cases h : q ∈ pts
    · have : pts.idxOf q < vals.length := by rw [hl]; exact List.idxOf_lt_length_of_mem h
      simp [h, List.getElem?_eq_getElem this]
    · simp [h]
  exact := by
    intro pts f q _ h
    unfold nodeInterp
    have hlt : pts.idxOf q < pts.length := List.idxOf_lt_length_of_mem h
    simp [h, hlt, List.getElem_idxOf hlt]

/-- linear plumbing on a triangle with the affine field `1 + 2x + 3y` (node interpolator): a target
    on a node is reproduced, a target off the nodes is masked without fill and filled with a nearest
    source value with fill; `Mask.NONE` is refused when something is outside -/
example :
    regridLinear nodeInterp 0 argminFirst false [[0, 0], [1, 0], [0, 1]] [false, false, false] [1, 3, 4]
      [[1, 0], [2, 2]] .flex = .ok [Cell.val 3, .masked] ∧
    regridLinear nodeInterp 0 argminFirst true [[0, 0], [1, 0], [0, 1]] [false, false, false] [1, 3, 4]
      [[1, 0], [2, 2]] .flex = .ok [Cell.val 3, .val 3] ∧
    regridLinear nodeInterp 0 argminFirst false [[0, 0], [1, 0], [0, 1]] [false, false, false] [1, 3, 4]
      [[1, 0], [2, 2]] .none = .error .dataErr ∧
    regridLinear nodeInterp 0 argminFirst false [[0, 0], [1, 0], [0, 1]] [false, false, false] [1, 3, 4]
      [[1, 0], [2, 2]] (.explicit [true, true]) = .ok [Cell.masked, .masked] := by decide +kernel

end Finam.Props.C16
