import FinamModel.Props.C01
import FinamModel.Props.C05Run
/-!
  C03, termination — `Composition.run(end_time)` returns after finitely many updates, for **every**
  composition (any graph: cycles, pull-based components, every adapter kind), provided announced steps
  are positive and bounded and delays are not negative.

  Argument.  Whatever the driver updates lies at the end of a chain of lagging dependencies that starts
  at a component behind the end time (`C02.updateRec_chain`); the chain has at most `#components`
  edges (`updateRec_chain_len`: the recursion depth is bounded by the fuel); along the chain the
  target time grows by less than the largest step `M` per hop (`target_bound`), so the updated
  component's time is below `B = end + (#components + 2)·M`.  Every update moves a component that is
  below `B` forward by at least one unit, so the potential `Φ = Σ max(0, B − time)` strictly decreases
  (`phi_update`), and the loop performs at most `Φ(initial state)` updates (`run_terminates`).
-/
namespace Finam.Props.C03Run
open Finam Finam.Props.C05Run

/-! ### chains with their length -/

inductive StarN (s : State) : Nat → (Nat × Option Int) → (Nat × Option Int) → Prop where
  | refl (a) : StarN s 0 a a
  | step {k a b c} : C04.Edge s a b → StarN s k b c → StarN s (k+1) a c

theorem updateRec_chain_len_aux (s : State) : ∀ (fuel : Nat),
    (∀ c chain tgt u, updateRec s fuel c chain tgt = .ok (some u) →
      ∃ k t', k < fuel ∧ StarN s k (c, tgt) (u, t')) ∧
    (∀ c tgt chain deps u, (∀ p ∈ deps, p ∈ findDeps s c (C04.targetOf s c tgt)) →
        depsLoop s fuel (c :: chain) deps = .ok (some u) →
        ∃ k c' tgt' t', k < fuel ∧ C04.Edge s (c, tgt) (c', tgt') ∧ StarN s k (c', tgt') (u, t')) := by
  intro fuel
  induction fuel with
  | zero =>
    constructor
    · intro c chain tgt u h; simp [updateRec] at h
    · intro c tgt chain deps
      induction deps with
      | nil => intro u _ h; simp [depsLoop] at h
      | cons p ps ih =>
        intro u hsub h
        obtain ⟨o, lt⟩ := p
        simp only [depsLoop] at h
        split at h
        · split at h
          · simp [updateRec] at h
          · exact ih u (fun q hq => hsub q (List.mem_cons_of_mem _ hq)) h
        · simp [updateRec] at h
  | succ n ihn =>
    obtain ⟨ihU, ihL⟩ := ihn
    have hU : ∀ c chain tgt u, updateRec s (n+1) c chain tgt = .ok (some u) →
        ∃ k t', k < n + 1 ∧ StarN s k (c, tgt) (u, t') := by
      intro c chain tgt u h
      simp only [updateRec] at h
      split at h
      · cases h
      · split at h
        · cases h
        · rename_i u' hloop
          cases h
          obtain ⟨k, c', tgt', t', hk, hedge, hstar⟩ := ihL c tgt chain _ u (fun p hp => hp) hloop
          exact ⟨k + 1, t', by omega, .step hedge hstar⟩
        · split at h
          · split at h
            · cases h
            · cases h; exact ⟨0, tgt, by omega, .refl _⟩
          · cases h
    refine ⟨hU, ?_⟩
    intro c tgt chain deps
    induction deps with
    | nil => intro u _ h; simp [depsLoop] at h
    | cons p ps ih =>
      intro u hsub h
      obtain ⟨o, lt⟩ := p
      have hmem : (o, lt) ∈ findDeps s c (C04.targetOf s c tgt) := hsub _ (by simp)
      have hrest : ∀ q ∈ ps, q ∈ findDeps s c (C04.targetOf s c tgt) := fun q hq => hsub q (List.mem_cons_of_mem _ hq)
      simp only [depsLoop] at h
      split at h
      · rename_i hT
        split at h
        · rename_i hlag
          obtain ⟨k, t', hk, hs⟩ := hU _ _ _ _ h
          exact ⟨k, _, _, t', hk, .time c tgt o lt hmem hT hlag, hs⟩
        · exact ih u hrest h
      · rename_i hP
        split at h
        · cases h
        · rename_i u' he
          cases h
          obtain ⟨k, t', hk, hs⟩ := hU _ _ _ _ he
          exact ⟨k, _, _, t', hk, .pull c tgt o lt hmem (by simpa using hP), hs⟩
        · exact ih u hrest h

/-- the chain from the selected component to the updated one has fewer edges than the fuel -/
theorem updateRec_chain_len (s : State) (fuel : Nat) (c : Nat) (chain : List Nat) (tgt : Option Int) (u : Nat)
    (h : updateRec s fuel c chain tgt = .ok (some u)) : ∃ k t', k < fuel ∧ StarN s k (c, tgt) (u, t') :=
  (updateRec_chain_len_aux s fuel).1 c chain tgt u h

/-! ### well-formed states: positive bounded steps, non-negative delays -/

theorem need_le (dp : DP) : ∀ (ads : List Ad) (t lt : Int), (∀ a ∈ ads, C01.Ad.wf a) → need dp ads t = some lt → lt ≤ t := by
  intro ads
  induction ads with
  | nil => intro t lt _ h; simp [need] at h; omega
  | cons a r ih =>
    intro t lt hw h
    have hwr : ∀ a ∈ r, C01.Ad.wf a := fun x hx => hw x (List.mem_cons_of_mem _ hx)
    have hwa : C01.Ad.wf a := hw a (by simp)
    cases a with
    | pass => simp only [need] at h; exact ih t lt hwr h
    | cache => simp [need] at h; omega
    | nodep => simp [need] at h
    | dpush => simp [need] at h
    | dfix d i =>
      simp only [need] at h
      have := ih _ lt hwr h
      have := C01.withDelay_le dp (.dfix d i) t hwa
      omega
    | dpull id n a i =>
      simp only [need] at h
      have := ih _ lt hwr h
      have := C01.withDelay_le dp (.dpull id n a i) t hwa
      omega

/-- steps of a component: the current announcement and every scripted step lie in [1, M] -/
def StepsIn (M : Int) (c : Comp) : Prop :=
  getNow c < getNext c ∧ getNext c ≤ getNow c + M ∧ ∀ x ∈ c.steps, 0 < x ∧ x ≤ M

structure WFT (M : Int) (s : State) : Prop where
  mpos : 1 ≤ M
  steps : ∀ c, c < s.comps.length → (s.comp c).isTime = true → StepsIn M (s.comp c)
  ads : ∀ c l, l ∈ (s.comp c).inputs → ∀ a ∈ l.ads, C01.Ad.wf a
  owners : C04.WF s
  srcLt : ∀ c l, l ∈ (s.comp c).inputs → l.src < s.outs.length
  outTime : ∀ o, o < s.outs.length → (s.comp (s.out o).owner).isTime = true →
    (s.out o).time = getNow (s.comp (s.out o).owner)

theorem adv1_stepsIn (M : Int) (hM : 1 ≤ M) (c : Comp) (h : StepsIn M c) (hT : c.isTime = true) : StepsIn M (adv1 c) := by
  obtain ⟨h1, h2, h3⟩ := h
  refine ⟨(adv1_pos c ⟨h1, fun x hx => (h3 x hx).1⟩ hT).1, ?_, by rw [adv1_steps]; exact h3⟩
  unfold adv1
  cases hk : c.kind with
  | pull => simp [Comp.isTime, hk] at hT
  | time nw nx fin =>
    simp only [getNow, getNext]
    by_cases he : c.steps.isEmpty = true
    · simp only [he, if_true]; omega
    · simp only [he]
      have hlen : 0 < c.steps.length := by
        cases hs : c.steps with
        | nil => simp [hs] at he
        | cons a l => simp
      have hlt : (c.k + 1) % c.steps.length < c.steps.length := Nat.mod_lt _ hlen
      have : c.steps.getD ((c.k + 1) % c.steps.length) 1 = c.steps[(c.k + 1) % c.steps.length] := by
        simp [List.getD_eq_getElem?_getD, List.getElem?_eq_getElem hlt]
      have hb := (h3 _ (List.getElem_mem hlt)).2
      simp only [Bool.false_eq_true, if_false]
      omega

theorem applyUpdate_inputs (s : State) (u : Nat) (hu : u < s.comps.length) (hT : (s.comp u).isTime = true) (c : Nat) :
    ((applyUpdate s u).comp c).inputs = (s.comp c).inputs := by
  rw [applyUpdate_comp s u hu hT c]
  split
  · rename_i h; subst h; exact adv1_inputs _
  · rfl

theorem wft_update {M : Int} {s : State} (h : WFT M s) (u : Nat) (hu : u < s.comps.length)
    (hT : (s.comp u).isTime = true) : WFT M (applyUpdate s u) where
  mpos := h.mpos
  steps := by
    intro c hc hTc
    rw [applyUpdate_len] at hc
    rw [applyUpdate_comp s u hu hT c] at hTc ⊢
    by_cases hcu : c = u
    · subst hcu
      simp only [if_true] at hTc ⊢
      exact adv1_stepsIn M h.mpos _ (h.steps c hc hT) hT
    · simp only [hcu, if_false] at hTc ⊢
      exact h.steps c hc hTc
  ads := by
    intro c l hl
    rw [applyUpdate_inputs s u hu hT c] at hl
    exact h.ads c l hl
  owners := by
    intro o
    rw [applyUpdate_len]
    rcases Nat.lt_or_ge o s.outs.length with ho | ho
    · rw [applyUpdate_out s u hT o ho]
      split
      · exact h.owners o
      · exact h.owners o
    · rw [out_default _ o (by rw [applyUpdate_olen]; exact ho)]
      have := h.owners o
      rw [out_default s o ho] at this
      exact this
  srcLt := by
    intro c l hl
    rw [applyUpdate_inputs s u hu hT c] at hl
    rw [applyUpdate_olen]
    exact h.srcLt c l hl
  outTime := by
    intro o ho hTo
    rw [applyUpdate_olen] at ho
    rw [applyUpdate_out s u hT o ho] at hTo ⊢
    by_cases hou : (s.out o).owner = u
    · simp only [hou, if_true] at hTo ⊢
      rw [applyUpdate_comp s u hu hT u]
      simp only [if_true, adv1_now]
    · simp only [hou, if_false] at hTo ⊢
      rw [applyUpdate_comp s u hu hT _] at hTo ⊢
      simp only [hou, if_false] at hTo ⊢
      exact h.outTime o ho hTo

/-! ### the updated component is below the bound -/

theorem targetOf_time {s : State} {c : Nat} (tgt : Option Int) (hT : (s.comp c).isTime = true) :
    C04.targetOf s c tgt = getNext (s.comp c) := by
  unfold C04.targetOf getNext
  cases hk : (s.comp c).kind with
  | pull => simp [Comp.isTime, hk] at hT
  | time a b d => rfl

/-- one edge of the dependency walk raises the target time by less than `M` -/
theorem edge_target {M : Int} {s : State} (hw : WFT M s) {c c' : Nat} {tgt tgt' : Option Int}
    (h : C04.Edge s (c, tgt) (c', tgt')) : C04.targetOf s c' tgt' < C04.targetOf s c tgt + M := by
  have hM := hw.mpos
  generalize ha : (c, tgt) = a at h
  generalize hb : (c', tgt') = b at h
  cases h with
  | time c1 tgt1 o lt hmem hT hlag =>
    cases ha; cases hb
    obtain ⟨l, hl, _, hsrc, hn, _⟩ := C02.findDeps_mem_link s c _ o lt hmem
    have hle := need_le s.dp l.ads _ lt (hw.ads c l hl) hn
    have ho : o < s.outs.length := by rw [← hsrc]; exact hw.srcLt c l hl
    rw [targetOf_time none hT]
    have hs := hw.steps _ (hw.owners o) hT
    have hot := hw.outTime o ho hT
    have := hs.2.1
    omega
  | pull c1 tgt1 o lt hmem hP =>
    cases ha; cases hb
    obtain ⟨l, hl, _, _, hn, _⟩ := C02.findDeps_mem_link s c _ o lt hmem
    have hle := need_le s.dp l.ads _ lt (hw.ads c l hl) hn
    have : C04.targetOf s (s.out o).owner (some lt) = lt := by
      unfold C04.targetOf
      cases hk : (s.comp (s.out o).owner).kind with
      | pull => rfl
      | time a b d => simp [Comp.isTime, hk] at hP
    rw [this]
    omega

/-- along a chain of `k` edges the target time grows by less than `M` per edge -/
theorem target_bound {M : Int} {s : State} (hw : WFT M s) : ∀ (k : Nat) (a b : Nat × Option Int), StarN s k a b →
    ∀ (X : Int), C04.targetOf s a.1 a.2 < X → C04.targetOf s b.1 b.2 < X + k * M := by
  intro k
  induction k with
  | zero =>
    intro a b h X hX
    cases h with
    | refl => simpa using hX
  | succ k ih =>
    intro a b h X hX
    cases h with
    | @step _ _ m _ hedge hstar =>
      obtain ⟨ac, atg⟩ := a
      obtain ⟨mc, mt⟩ := m
      have hmid : C04.targetOf s mc mt < X + M := by
        have := edge_target hw hedge
        simp only at hX
        omega
      have := ih (mc, mt) b hstar (X + M) hmid
      have e : X + M + (k : Int) * M = X + ((k + 1 : Nat) : Int) * M := by
        rw [show ((k + 1 : Nat) : Int) = (k : Int) + 1 by omega]
        rw [Int.add_mul]; omega
      omega

/-- time bound below which every updated component lies -/
def bound (M endT : Int) (s : State) : Int := endT + ((s.comps.length : Int) + 2) * M

/-- **Whatever the driver updates is below the bound**, when the walk starts from a component that has
    not reached the end time. -/
theorem updated_below {M : Int} {s : State} (hw : WFT M s) (endT : Int) (h u : Nat)
    (hh : h < s.comps.length) (hT : (s.comp h).isTime = true) (hnow : getNow (s.comp h) < endT)
    (hrec : updateRec s (s.comps.length + 1) h [] none = .ok (some u)) :
    u < s.comps.length ∧ (s.comp u).isTime = true ∧ getNow (s.comp u) < bound M endT s := by
  obtain ⟨nw, nx, hk, _⟩ := (Finam.updateRec_sound s (s.comps.length + 1)).1 h [] none (some u) hrec
  have hTu : (s.comp u).isTime = true := by simp [Comp.isTime, hk]
  have hu : u < s.comps.length := isTime_lt s u hTu
  obtain ⟨k, t', hk', hstar⟩ := updateRec_chain_len s _ h [] none u hrec
  have hsh := hw.steps h hh hT
  have hX : C04.targetOf s h none < endT + M := by
    rw [targetOf_time none hT]; have := hsh.2.1; omega
  have hb := target_bound hw k (h, none) (u, t') hstar (endT + M) hX
  rw [targetOf_time t' hTu] at hb
  have hsu := hw.steps u hu hTu
  have hM := hw.mpos
  refine ⟨hu, hTu, ?_⟩
  unfold bound
  have hkM : (k : Int) * M ≤ (s.comps.length : Int) * M := by
    apply Int.mul_le_mul_of_nonneg_right _ (by omega)
    omega
  have e : ((s.comps.length : Int) + 2) * M = (s.comps.length : Int) * M + 2 * M := by
    rw [Int.add_mul]
  have := hsu.1
  omega

/-! ### the potential -/

def phiC (B : Int) (c : Comp) : Nat := match c.kind with | .time nw _ _ => (B - nw).toNat | .pull => 0

def phi (B : Int) (s : State) : Nat := (s.comps.map (phiC B)).sum

theorem sum_map_set_lt {α} (f : α → Nat) : ∀ (l : List α) (i : Nat) (x : α) (hi : i < l.length), f x < f l[i] →
    ((l.set i x).map f).sum < (l.map f).sum := by
  intro l
  induction l with
  | nil => intro i x hi; simp at hi
  | cons a l ih =>
    intro i x hi hlt
    cases i with
    | zero => simp only [List.set_cons_zero, List.map_cons, List.sum_cons, List.getElem_cons_zero] at hlt ⊢; omega
    | succ i =>
      simp only [List.set_cons_succ, List.map_cons, List.sum_cons, List.getElem_cons_succ] at hlt ⊢
      have := ih i x (by simpa using hi) hlt
      omega

/-- every update of a component below the bound lowers the potential -/
theorem phi_update {M : Int} {s : State} (hw : WFT M s) (B : Int) (u : Nat) (hu : u < s.comps.length)
    (hT : (s.comp u).isTime = true) (hlt : getNow (s.comp u) < B) : phi B (applyUpdate s u) < phi B s := by
  cases hk : (s.comp u).kind with
  | pull => simp [Comp.isTime, hk] at hT
  | time nw nx fin =>
    rw [applyUpdate_eq s u nw nx fin hk]
    simp only [phi]
    apply sum_map_set_lt (phiC B) s.comps u _ hu
    have hcu : s.comps[u] = s.comp u := by
      simp only [State.comp, List.getD_eq_getElem?_getD, List.getElem?_eq_getElem hu, Option.getD_some]
    rw [hcu]
    have hs := hw.steps u hu hT
    have hnow : getNow (s.comp u) = nw := by simp [getNow, hk]
    have hnx : getNext (s.comp u) = nx := by simp [getNext, hk]
    have hadv : (adv1 (s.comp u)).kind = .time nx (nx + (if (s.comp u).steps.isEmpty then 1 else (s.comp u).steps.getD (((s.comp u).k + 1) % (s.comp u).steps.length) 1)) fin := by
      unfold adv1; simp only [hk]
    simp only [phiC, hadv, hk]
    have := hs.1
    omega

theorem applyUpdate_not_running {M : Int} {s : State} (hw : WFT M s) (endT : Int) (u : Nat) (hu : u < s.comps.length)
    (hT : (s.comp u).isTime = true) (h : anyRunning s endT = false) : anyRunning (applyUpdate s u) endT = false := by
  cases hk : (s.comp u).kind with
  | pull => simp [Comp.isTime, hk] at hT
  | time nw nx fin =>
    rw [applyUpdate_eq s u nw nx fin hk]
    simp only [anyRunning, List.any_eq_false] at h ⊢
    intro c hc
    rcases List.mem_or_eq_of_mem_set hc with hc' | hc'
    · exact h c hc'
    · subst hc'
      have hmem : s.comp u ∈ s.comps := by
        simp only [State.comp, List.getD_eq_getElem?_getD, List.getElem?_eq_getElem hu, Option.getD_some]
        exact List.getElem_mem hu
      have h0 := h _ hmem
      have hs := hw.steps u hu hT
      have hnow : getNow (s.comp u) = nw := by simp [getNow, hk]
      have hnx : getNext (s.comp u) = nx := by simp [getNext, hk]
      simp only [hk] at h0
      unfold adv1
      simp only [hk]
      have := hs.1
      simp only [Bool.and_eq_true, Bool.not_eq_true', decide_eq_true_eq, not_and, Bool.not_eq_false] at h0 ⊢
      intro hf
      have := h0 hf
      omega

/-- **`run(end_time)` terminates**: with fuel above the potential the loop never runs out of fuel — for
    every composition (cycles, pull-based components, all adapters), positive bounded steps, non-negative
    delays.  The number of updates is at most `Σ_c max(0, end + (#components+2)·M − time_c)`. -/
theorem run_terminates {M : Int} (endT : Int) : ∀ (fuel : Nat) (s : State) (acc : List (Nat × Int)), WFT M s →
    anyRunning s endT = true → phi (bound M endT s) s < fuel → (runLoop fuel s endT acc).2.1 ≠ .outOfFuel := by
  intro fuel
  induction fuel with
  | zero => intro s acc _ _ h; omega
  | succ n ih =>
    intro s acc hw hrun hphi
    obtain ⟨c, hc, nw, nx, f, hkc, hlt⟩ := anyRunning_witness s endT hrun
    simp only [runLoop]
    cases hsel : select s with
    | none => simp
    | some c0 =>
      simp only []
      obtain ⟨hc0, hT0, hmin, _⟩ := C02.select_least s c0 hsel
      have hnow0 : getNow (s.comp c0) < endT := by
        have := hmin c hc (by simp [Comp.isTime, hkc])
        have e : getNow (s.comp c) = nw := by simp only [getNow, hkc]
        omega
      cases hr : updateRec s (s.comps.length + 1) c0 [] none with
      | error e => simp
      | ok r =>
        cases r with
        | none => simp
        | some u =>
          simp only []
          obtain ⟨hu, hTu, hbelow⟩ := updated_below hw endT c0 u hc0 hT0 hnow0 hr
          by_cases hrun' : anyRunning (applyUpdate s u) endT = true
          · simp only [hrun', if_true]
            apply ih _ _ (wft_update hw u hu hTu) hrun'
            have hb : bound M endT (applyUpdate s u) = bound M endT s := by simp only [bound, applyUpdate_len]
            rw [hb]
            have := phi_update hw (bound M endT s) u hu hTu hbelow
            omega
          · simp [hrun']

/-- when nothing is behind the end time at the start, the do-while loop performs exactly one update -/
theorem run_terminates_idle {M : Int} (endT : Int) (fuel : Nat) (s : State) (acc : List (Nat × Int)) (hw : WFT M s)
    (hidle : anyRunning s endT = false) : (runLoop (fuel + 1) s endT acc).2.1 ≠ .outOfFuel := by
  simp only [runLoop]
  cases hsel : select s with
  | none => simp
  | some c0 =>
    simp only []
    cases hr : updateRec s (s.comps.length + 1) c0 [] none with
    | error e => simp
    | ok r =>
      cases r with
      | none => simp
      | some u =>
        simp only []
        obtain ⟨nw, nx, hk, _⟩ := (Finam.updateRec_sound s (s.comps.length + 1)).1 c0 [] none (some u) hr
        have hTu : (s.comp u).isTime = true := by simp [Comp.isTime, hk]
        have hu : u < s.comps.length := isTime_lt s u hTu
        have := applyUpdate_not_running hw endT u hu hTu hidle
        simp [this]

/-! ### non-vacuity -/

theorem ex_wft : WFT 3 exState where
  mpos := by decide
  steps := by
    intro c hc _
    have : c = 0 ∨ c = 1 ∨ c = 2 := by simp [exState] at hc; omega
    rcases this with h | h | h <;> subst h <;>
      (refine ⟨?_, ?_, ?_⟩ <;> simp [exState, State.comp, getNow, getNext])
  ads := by
    intro c l hl a ha
    rcases Nat.lt_or_ge c 3 with h | h
    · have : c = 0 ∨ c = 1 ∨ c = 2 := by omega
      rcases this with h | h | h <;> subst h <;> simp [exState, State.comp] at hl <;> subst hl <;> simp at ha
      rcases ha with ha | ha <;> subst ha <;> simp [C01.Ad.wf]
    · rw [ex_comp_ge c h] at hl; cases hl
  owners := by
    intro o
    rcases Nat.lt_or_ge o 1 with h | h
    · have : o = 0 := by omega
      subst this; simp [exState, State.out]
    · rw [out_default exState o (by simpa [exState] using h)]; simp [exState]
  srcLt := ex_frag.srcLt
  outTime := fun o ho _ => ex_frag.outTime o ho

/-- the run of `exState` to end time 4 needs at most 56 updates (it performs 7) -/
example : ∀ acc, (runLoop 57 exState 4 acc).2.1 ≠ .outOfFuel :=
  fun acc => run_terminates 4 57 exState acc ex_wft (by decide) (by decide)

end Finam.Props.C03Run
