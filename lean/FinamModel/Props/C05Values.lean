import FinamModel.Props.C05
/-!
  C05, values — the (time, value) series received by every consumer does not depend on the order in
  which ready components are updated.

  Abstract data-flow model: every output has a publication history; an update of component `c` pulls
  every input link of `c` at the component's announced time, records what it received, and appends
  one publication — a function of the component, its update count and the received values — to each
  of its outputs.  What a link delivers is any function `serve` of the source's history and the
  request time that is *stable*: once the history covers the time reaching the source, appending a
  newer publication does not change the answer.  `lookup_stable` shows that `Output`'s nearest lookup
  (the model of `Output._interpolate`, C08) is stable; push-based adapters answer from a copy of the
  same history restricted by their own eviction (C11: equal to the full history).

  * `update_comm`  — two different ready components can be updated in either order: same state;
  * `move_front`   — a ready component can be moved to the front of any valid schedule;
  * `valid_perm_run_eq` — **any two valid schedules that update every component equally often end in
    the same state**: same histories, same received series, for every consumer.
  Together with `C05Run.run_confluent` (the update counts at the end of a run do not depend on the
  listing) and `C01.updateRec_sound` (the driver only updates ready components) this is the run-phase
  clause of C05.
-/
namespace Finam.Props.C05Values
open Finam
set_option linter.unusedSimpArgs false

variable {V : Type}

/-- one input link of a component -/
structure VLink (V : Type) where
  src : Nat                                   -- source output
  req : Int → Int                             -- time reaching the source for a pull at `t` (delays applied)
  serve : List (Entry V) → Int → V            -- what the link delivers, from the source history and the pull time

/-- the static part of a composition -/
structure Net (V : Type) where
  links : Nat → List (VLink V)                -- input links of each component
  owner : Nat → Nat                           -- owner of each output
  tm : Nat → Nat → Int                        -- time of component `c` after `k` updates
  behave : Nat → Nat → List V → Nat → V       -- value published by `c` at its `k`-th update on output `o`

structure VState (V : Type) where
  hist : Nat → List (Entry V)                 -- publications of each output, oldest first
  got : Nat → List (Int × List V)             -- (time, values) series received by each component
  cnt : Nat → Nat

/-- the history covers a request: some publication is at or beyond it -/
def Covered (h : List (Entry V)) (t : Int) : Prop := ∃ e ∈ h, t ≤ e.t

/-- `e` is newer than everything in `h` -/
def Newer (h : List (Entry V)) (e : Entry V) : Prop := ∀ x ∈ h, x.t < e.t

/-- a link's answer is not changed by publications that arrive after the request is covered -/
def Stable (l : VLink V) : Prop :=
  ∀ (h : List (Entry V)) (e : Entry V) (t : Int), Covered h (l.req t) → Newer h e → l.serve (h ++ [e]) t = l.serve h t

def pullTime (N : Net V) (s : VState V) (c : Nat) : Int := N.tm c (s.cnt c + 1)

def pulled (N : Net V) (s : VState V) (c : Nat) : List V :=
  (N.links c).map fun l => l.serve (s.hist l.src) (pullTime N s c)

/-- `comp.update()`: pull all inputs at the announced time, publish on every own output, advance -/
def update (N : Net V) (s : VState V) (c : Nat) : VState V :=
  { hist := fun o => if N.owner o = c then s.hist o ++ [⟨pullTime N s c, N.behave c (s.cnt c) (pulled N s c) o⟩] else s.hist o,
    got := fun d => if d = c then s.got d ++ [(pullTime N s c, pulled N s c)] else s.got d,
    cnt := fun d => if d = c then s.cnt d + 1 else s.cnt d }

/-- all inputs of `c` can be served for its announced time (what the scheduler guarantees, C01) -/
def ReadyV (N : Net V) (s : VState V) (c : Nat) : Prop :=
  ∀ l ∈ N.links c, Covered (s.hist l.src) (l.req (pullTime N s c))

/-- publications of an output are not newer than its owner's current time -/
def HistInv (N : Net V) (s : VState V) : Prop :=
  ∀ o e, e ∈ s.hist o → e.t ≤ N.tm (N.owner o) (s.cnt (N.owner o))

def run (N : Net V) : VState V → List Nat → VState V
  | s, [] => s
  | s, c :: cs => run N (update N s c) cs

def Valid (N : Net V) : VState V → List Nat → Prop
  | _, [] => True
  | s, c :: cs => ReadyV N s c ∧ Valid N (update N s c) cs

/-- the static hypotheses: positive steps, stable links -/
structure NetOk (N : Net V) : Prop where
  mono : ∀ c k, N.tm c k < N.tm c (k + 1)
  stable : ∀ c, ∀ l ∈ N.links c, Stable l

theorem covered_append {h : List (Entry V)} {t : Int} (e : Entry V) (hc : Covered h t) : Covered (h ++ [e]) t := by
  obtain ⟨x, hx, hle⟩ := hc
  exact ⟨x, List.mem_append_left _ hx, hle⟩

theorem histInv_update {N : Net V} (ok : NetOk N) {s : VState V} (hi : HistInv N s) (c : Nat) : HistInv N (update N s c) := by
  intro o e he
  simp only [update] at he ⊢
  by_cases ho : N.owner o = c
  · simp only [ho, if_true] at he ⊢
    rcases List.mem_append.mp he with h | h
    · have := hi o e h
      rw [ho] at this
      have := ok.mono c (s.cnt c)
      omega
    · simp at h; subst h; exact Int.le_refl _
  · simp only [ho, if_false] at he ⊢
    have := hi o e he
    by_cases hoc : N.owner o = c
    · exact absurd hoc ho
    · simpa [hoc] using this

theorem newer_of_inv {N : Net V} (ok : NetOk N) {s : VState V} (hi : HistInv N s) (o : Nat) (v : V) :
    Newer (s.hist o) ⟨N.tm (N.owner o) (s.cnt (N.owner o) + 1), v⟩ := by
  intro x hx
  have := hi o x hx
  have := ok.mono (N.owner o) (s.cnt (N.owner o))
  simp only; omega

/-- updating another component does not change what a ready component pulls -/
theorem pulled_update_other {N : Net V} (ok : NetOk N) {s : VState V} (hi : HistInv N s) {a b : Nat} (hab : a ≠ b)
    (hr : ReadyV N s a) : pulled N (update N s b) a = pulled N s a := by
  have hpt : pullTime N (update N s b) a = pullTime N s a := by simp [pullTime, update, hab]
  simp only [pulled, hpt]
  apply List.map_congr_left
  intro l hl
  simp only [update]
  by_cases ho : N.owner l.src = b
  · simp only [ho, if_true]
    apply ok.stable a l hl
    · exact hr l hl
    · have := newer_of_inv ok hi l.src (N.behave b (s.cnt b) (pulled N s b) l.src)
      rw [ho] at this
      exact this
  · simp only [ho, if_false]

theorem ready_update_other {N : Net V} {s : VState V} {a b : Nat} (hab : a ≠ b) (hr : ReadyV N s a) :
    ReadyV N (update N s b) a := by
  intro l hl
  have hpt : pullTime N (update N s b) a = pullTime N s a := by simp [pullTime, update, hab]
  rw [hpt]
  simp only [update]
  by_cases ho : N.owner l.src = b
  · simp only [ho, if_true]; exact covered_append _ (hr l hl)
  · simp only [ho, if_false]; exact hr l hl

/-- **Ready updates commute.**  If two different components can both be updated, updating them in either
    order gives the same state: same histories, same received series, same counts. -/
theorem update_comm {N : Net V} (ok : NetOk N) {s : VState V} (hi : HistInv N s) {a b : Nat} (hab : a ≠ b)
    (ha : ReadyV N s a) (hb : ReadyV N s b) :
    update N (update N s a) b = update N (update N s b) a := by
  have pa := pulled_update_other ok hi hab ha
  have pb := pulled_update_other ok hi (Ne.symm hab) hb
  have ta : pullTime N (update N s b) a = pullTime N s a := by simp [pullTime, update, hab]
  have tb : pullTime N (update N s a) b = pullTime N s b := by simp [pullTime, update, Ne.symm hab]
  have ca : (update N s b).cnt a = s.cnt a := by simp [update, hab]
  have cb : (update N s a).cnt b = s.cnt b := by simp [update, Ne.symm hab]
  show VState.mk _ _ _ = VState.mk _ _ _
  congr 1
  · funext o
    simp only [pa, pb, ta, tb, ca, cb]
    simp only [update]
    by_cases h1 : N.owner o = a <;> by_cases h2 : N.owner o = b
    · exact absurd (h1.symm.trans h2) hab
    · simp [h1, h2, hab, Ne.symm hab]
    · simp [h1, h2, hab, Ne.symm hab]
    · simp [h1, h2, hab, Ne.symm hab]
  · funext d
    simp only [pa, pb, ta, tb]
    simp only [update]
    by_cases h1 : d = a <;> by_cases h2 : d = b
    · exact absurd (h1.symm.trans h2) hab
    · simp [h1, h2, hab, Ne.symm hab]
    · simp [h1, h2, hab, Ne.symm hab]
    · simp [h1, h2, hab, Ne.symm hab]
  · funext d
    simp only [update]
    by_cases h1 : d = a <;> by_cases h2 : d = b
    · exact absurd (h1.symm.trans h2) hab
    · simp [h1, h2, hab, Ne.symm hab]
    · simp [h1, h2, hab, Ne.symm hab]
    · simp [h1, h2, hab, Ne.symm hab]

theorem histInv_run {N : Net V} (ok : NetOk N) : ∀ (cs : List Nat) (s : VState V), HistInv N s → HistInv N (run N s cs) := by
  intro cs
  induction cs with
  | nil => intro s h; exact h
  | cons c cs ih => intro s h; exact ih _ (histInv_update ok h c)

/-- a component that is ready now can be moved to the front of a valid schedule in which it occurs later -/
theorem move_front {N : Net V} (ok : NetOk N) (a : Nat) : ∀ (α β : List Nat) (s : VState V), HistInv N s →
    a ∉ α → ReadyV N s a → Valid N s (α ++ a :: β) →
    Valid N s (a :: (α ++ β)) ∧ run N s (a :: (α ++ β)) = run N s (α ++ a :: β) := by
  intro α
  induction α with
  | nil => intro β s _ _ _ hv; exact ⟨hv, rfl⟩
  | cons x α ih =>
    intro β s hi hna hra hv
    have hxa : x ≠ a := fun e => hna (by simp [e])
    have hna' : a ∉ α := fun h => hna (List.mem_cons_of_mem _ h)
    obtain ⟨hrx, hv'⟩ := hv
    have hi' := histInv_update ok hi x
    have hra' : ReadyV N (update N s x) a := ready_update_other (Ne.symm hxa) hra
    obtain ⟨⟨_, hvt⟩, hrun⟩ := ih β (update N s x) hi' hna' hra' hv'
    have hcomm : update N (update N s x) a = update N (update N s a) x := update_comm ok hi hxa hrx hra
    refine ⟨⟨hra, ready_update_other hxa hrx, ?_⟩, ?_⟩
    · rw [← hcomm]; exact hvt
    · show run N (update N (update N s a) x) (α ++ β) = run N (update N s x) (α ++ a :: β)
      rw [← hcomm]; exact hrun

theorem split_first (a : Nat) : ∀ (l : List Nat), a ∈ l → ∃ α β, l = α ++ a :: β ∧ a ∉ α := by
  intro l
  induction l with
  | nil => intro h; cases h
  | cons x l ih =>
    intro h
    by_cases hx : x = a
    · exact ⟨[], l, by simp [hx], by simp⟩
    · have : a ∈ l := by
        rcases List.mem_cons.mp h with e | e
        · exact absurd e.symm hx
        · exact e
      obtain ⟨α, β, hl, hn⟩ := ih this
      refine ⟨x :: α, β, by simp [hl], ?_⟩
      intro hm
      rcases List.mem_cons.mp hm with e | e
      · exact hx e.symm
      · exact hn e

/-- **Order independence of values.**  Two valid schedules (every update performed on a ready
    component) that are permutations of each other — i.e. update every component equally often — end in
    the same state: every output holds the same publications and every consumer has received the same
    (time, values) series. -/
theorem valid_perm_run_eq {N : Net V} (ok : NetOk N) : ∀ (σ₁ σ₂ : List Nat) (s : VState V), HistInv N s →
    σ₁.Perm σ₂ → Valid N s σ₁ → Valid N s σ₂ → run N s σ₁ = run N s σ₂ := by
  intro σ₁ σ₂
  induction σ₂ generalizing σ₁ with
  | nil => intro s _ hp _ _; rw [List.Perm.eq_nil hp]
  | cons a τ ih =>
    intro s hi hp hv1 hv2
    have hmem : a ∈ σ₁ := hp.symm.subset List.mem_cons_self
    obtain ⟨α, β, hσ, hna⟩ := split_first a σ₁ hmem
    subst hσ
    obtain ⟨hra, hvτ⟩ := hv2
    obtain ⟨⟨_, hvm⟩, hrun⟩ := move_front ok a α β s hi hna hra hv1
    rw [← hrun]
    show run N (update N s a) (α ++ β) = run N (update N s a) τ
    apply ih (α ++ β) (update N s a) (histInv_update ok hi a) _ hvm hvτ
    have : (a :: (α ++ β)).Perm (a :: τ) := List.Perm.trans (List.perm_middle.symm) hp
    exact List.Perm.cons_inv this

/-! ### `Output`'s nearest lookup is a stable link -/

theorem sorted_covered_le_last : ∀ (es : List (Entry V)) (e0 : Entry V) (t : Int), Sorted (e0 :: es) →
    Covered (e0 :: es) t → t ≤ lastT e0 es := by
  intro es
  induction es with
  | nil =>
    intro e0 t _ hc
    obtain ⟨x, hx, hle⟩ := hc
    simp at hx; subst hx; simpa [lastT] using hle
  | cons e1 es ih =>
    intro e0 t hs hc
    obtain ⟨x, hx, hle⟩ := hc
    simp only [lastT]
    rcases List.mem_cons.mp hx with h | h
    · subst h
      have h01 := hs.1
      have := lastT_ge e1 es hs.2
      omega
    · exact ih e1 t hs.2 ⟨x, h, hle⟩

/-- the direct link `Output >> Input` (request passed through unchanged, nearest publication served)
    is stable on sorted histories -/
theorem lookup_stable (h : List (Entry V)) (e : Entry V) (t : Int) (hs : Sorted h) (hc : Covered h t)
    (hn : Newer h e) : lookup (h ++ [e]) t = lookup h t := by
  cases h with
  | nil => obtain ⟨x, hx, _⟩ := hc; cases hx
  | cons e0 es =>
    have hs' : Sorted (e0 :: es ++ [e]) := sorted_snoc (e0 :: es) e hs hn
    exact C05.lookup_append_stable e0 es [e] t hs' (sorted_covered_le_last es e0 t hs hc)

/-! ### non-vacuity: two producers and a consumer, both schedules valid, same result -/

def exNet : Net Int where
  links := fun c => if c = 2 then [⟨0, id, fun h t => match lookup h t with | .ok v => v | .error _ => -1⟩,
                                   ⟨1, fun t => t - 1, fun h t => match lookup h (t - 1) with | .ok v => v | .error _ => -1⟩]
                    else []
  owner := id
  tm := fun c k => (k : Int) * (if c = 2 then 2 else 1)
  behave := fun c k vals _ => 100 * c + k + vals.foldl (· + ·) 0

def exInit : VState Int := ⟨fun o => [⟨0, 100 * o⟩], fun _ => [], fun _ => 0⟩

example : (run exNet exInit [0, 1, 0, 1, 2]).got 2 = (run exNet exInit [1, 0, 1, 0, 2]).got 2 ∧
    (run exNet exInit [0, 1, 0, 1, 2]).got 2 = [(2, [1, 100])] := by decide

end Finam.Props.C05Values
