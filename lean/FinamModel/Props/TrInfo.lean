import FinamModel.Info
import FinamModel.Props.TrCommon
import FinamModel.Translated.masks_compatible
import FinamModel.Translated.Info_accepts
/-!
  C07 — the compatibility rule of the metadata exchange on the *translated* `masks_compatible`
  (`data/tools/mask.py`) and `Info.accepts` (`data/tools/info.py`), regenerated from the source on every run,
  against the hand-written `Finam.Info.masksCompatible` / `Finam.Info.accepts` the C07 theorems are about.

  Masks are `None` / `Mask.FLEX` = -1 / `Mask.NONE` = -2 / an explicit mask `k ≥ 0`; grids and units are identifiers.
  What the package says about two grids (`compatible_with`), two units (`compatible_units`) and two explicit masks
  (`masks_equal`) are the relations `R` of the model (their laws are C15's, C17's, C18's).
-/
namespace Finam.Props.C07
open Finam Finam.Info

def mcode : Option MaskSpec → Option Int
  | none => none
  | some .flex => some (-1)
  | some .none => some (-2)
  | some (.explicit k) => some (k : Int)

def mdecode : Option Int → Option MaskSpec
  | none => none
  | some x => if x = -1 then some .flex else if x = -2 then some .none else some (.explicit x.toNat)

theorem mdecode_mcode (m : Option MaskSpec) : mdecode (mcode m) = m := by
  cases m with
  | none => rfl
  | some s =>
    cases s with
    | flex => rfl
    | none => rfl
    | explicit k =>
      simp only [mcode, mdecode]
      have h1 : ¬ ((k : Int) = -1) := by omega
      have h2 : ¬ ((k : Int) = -2) := by omega
      simp [h1, h2]

/-- `masks_equal` as the translated callers see it -/
def meq (R : Rel) : Option Int → Option Int → Option Nat → Option Nat → Except Err Bool :=
  fun a b g1 g2 => .ok (masksEqual R (mdecode a) (mdecode b) g1 g2)

theorem spec_mcode (m : Option MaskSpec) : Py.maskSpecified (mcode m) = maskSpecified m := by
  cases m with
  | none => rfl
  | some s => cases s <;> simp [mcode, Py.maskSpecified, maskSpecified]

theorem mcode_isNone (m : Option MaskSpec) : (mcode m).isNone = m.isNone := by
  cases m with
  | none => rfl
  | some s => cases s <;> rfl

theorem mcode_eq_flex (m : Option MaskSpec) : (mcode m = some (-1 : Int)) ↔ m = some .flex := by
  cases m with
  | none => simp [mcode]
  | some s => cases s <;> simp [mcode] <;> omega

theorem mcode_eq_none (m : Option MaskSpec) : (mcode m = some (-2 : Int)) ↔ m = some .none := by
  cases m with
  | none => simp [mcode]
  | some s => cases s <;> simp [mcode] <;> omega

/-- the part of `masks_compatible` behind the choice of up- and downstream side -/
theorem masks_join (R : Rel) (this incoming : Option Int) (ds : Bool) (tg ig : Option Nat) (up down : Option MaskSpec)
    (upG downG : Option Nat) :
    Tr.masks_compatible.join1 this incoming ds tg ig (mcode up) (mcode down) upG downG (meq R) =
      .ok (if up.isNone then false
           else if !maskSpecified down then
             (if !maskSpecified up then (down == some .flex || up == some .none) else down == some .flex)
           else if !maskSpecified up then false
           else masksEqual R down up downG upG) := by
  unfold Tr.masks_compatible.join1
  simp only [mcode_isNone, spec_mcode, meq, mdecode_mcode, mcode_eq_flex, mcode_eq_none]
  cases up with
  | none => simp [pure, Except.pure]
  | some u =>
    cases down with
    | none => cases u <;> simp [maskSpecified, pure, Except.pure, bind, Except.bind]
    | some d => cases u <;> cases d <;> simp [maskSpecified, pure, Except.pure, bind, Except.bind]

/-- **`masks_compatible`** = the model's `masksCompatible`, for every pair of masks, both directions, any grids -/
theorem tr_masks_compatible (R : Rel) (this incoming : Option MaskSpec) (ds : Bool) (tg ig : Option Nat) :
    Tr.masks_compatible (mcode this) (mcode incoming) ds tg ig (meq R) =
      .ok (masksCompatible R this incoming ds tg ig) := by
  unfold Tr.masks_compatible masksCompatible
  cases ds with
  | true => simp only [if_true]; rw [masks_join]
  | false =>
    simp only [Bool.false_eq_true, if_false]
    rw [masks_join]

/-- `self.grid.compatible_with(incoming.grid)`: `None` is no compatible grid -/
def gcompat (R : Rel) : Nat → Option Nat → Bool := fun g h => match h with | none => false | some h => R.gridCompat g h

theorem ite_ok_ff (b : Bool) : (if b = false then (Except.ok false : Except Err Bool) else .ok true) = .ok b := by
  cases b <;> rfl

theorem ite_ok_ft (b : Bool) : (if b = true then (Except.ok true : Except Err Bool) else .ok false) = .ok b := by
  cases b <;> rfl

theorem ite_ok_and_f (b c : Bool) : (if b = false then (Except.ok false : Except Err Bool) else .ok c) = .ok (b && c) := by
  cases b <;> rfl

theorem ite_ok_and_t (b c : Bool) : (if b = true then (Except.ok c : Except Err Bool) else .ok false) = .ok (b && c) := by
  cases b <;> rfl

/-- **`Info.accepts`** = the model's `accepts`, for every pair of infos and both directions -/
theorem tr_Info_accepts (R : Rel) (self incoming : Info) (ds : Bool) :
    Tr.Info_accepts self.grid (mcode self.mask) self.units ds incoming.grid (mcode incoming.mask) incoming.units
      (gcompat R) R.unitsCompat (meq R) = .ok (accepts R self incoming ds) := by
  obtain ⟨_, sg, su, sm, _⟩ := self
  obtain ⟨_, ig, iu, im, _⟩ := incoming
  unfold Tr.Info_accepts Tr.Info_accepts.join1 Tr.Info_accepts.join2 Tr.Info_accepts.join3 accepts
  simp only [mcode_isNone, tr_masks_compatible, gcompat]
  cases sg <;> cases ig <;> cases su <;> cases iu <;> cases sm <;> cases im <;> cases ds <;>
    simp [bind, Except.bind, pure, Except.pure, ite_ok_ff, ite_ok_ft, ite_ok_and_f, ite_ok_and_t] <;>
    (try (split <;> simp_all [ite_ok_ff, ite_ok_ft, ite_ok_and_f, ite_ok_and_t])) <;>
    (try simp only [Bool.and_assoc])

end Finam.Props.C07
