import FinamModel.Props.C15
import FinamModel.PyArr
import FinamModel.Translated.StructuredGrid_to_canonical
import FinamModel.Translated.StructuredGrid_from_canonical
/-!
  C15, first sentence — "converting data to canonical form and back is the identity, and canonical data is indexed in
  x, y, z order along increasing coordinates" — on the *translated* `StructuredGrid.to_canonical` and
  `StructuredGrid.from_canonical` (`data/grid_base.py`, regenerated on every run).  Arrays are `Arr α`; the numpy calls are
  read as the array operations of `FinamModel/Index.lean` (what numpy itself does is part of the correspondence check).
-/
namespace Finam.Props.C15C
open Finam Finam.Py Finam.SGrid Finam.Props.C15

def ishape (l : List Nat) : List Int := l.map Int.ofNat

theorem ishape_inj (a b : List Nat) : ishape a = ishape b ↔ a = b := by
  unfold ishape
  exact List.map_inj_right (fun x y hxy => Int.ofNat.inj hxy)

/-- the `for i, inc in enumerate(self.axes_increase)` loop of `to_canonical` = `flipAll` -/
theorem flip_loop_to {α} (all : List Bool) : ∀ (incs : List Bool) (k : Nat) (a : Arr α),
    Tr.StructuredGrid_to_canonical.loop3 all a (enumFrom (k : Int) incs) = .ok (flipAll incs k a) := by
  intro incs
  induction incs with
  | nil => intro k a; rfl
  | cons b bs ih =>
    intro k a
    have e : enumFrom (k : Int) (b :: bs) = ((k : Int), b) :: enumFrom (((k + 1 : Nat) : Int)) bs := by
      simp [enumFrom]
    rw [e]
    unfold Tr.StructuredGrid_to_canonical.loop3
    cases b with
    | true => simp only [not_true_eq_false, if_false, flipAll, if_true]; exact ih (k + 1) a
    | false =>
      simp only [Bool.false_eq_true, not_false_eq_true, if_true, flipAll, if_false, Int.toNat_natCast]
      exact ih (k + 1) (a.flip k)

theorem flip_loop_from {α} (all : List Bool) : ∀ (incs : List Bool) (k : Nat) (a : Arr α),
    Tr.StructuredGrid_from_canonical.loop2 all a (enumFrom (k : Int) incs) = .ok (flipAll incs k a) := by
  intro incs
  induction incs with
  | nil => intro k a; rfl
  | cons b bs ih =>
    intro k a
    have e : enumFrom (k : Int) (b :: bs) = ((k : Int), b) :: enumFrom (((k + 1 : Nat) : Int)) bs := by
      simp [enumFrom]
    rw [e]
    unfold Tr.StructuredGrid_from_canonical.loop2
    cases b with
    | true => simp only [not_true_eq_false, if_false, flipAll, if_true]; exact ih (k + 1) a
    | false =>
      simp only [Bool.false_eq_true, not_false_eq_true, if_true, flipAll, if_false, Int.toNat_natCast]
      exact ih (k + 1) (a.flip k)

theorem len_ishape (d : List Nat) : (Py.len (ishape d)).toNat = d.length := by simp [Py.len, ishape]

theorem ndim_gt {α} (a : Arr α) : (Py.ndimI a > (1 : Int)) ↔ a.ndim > 1 := by
  unfold Py.ndimI Arr.ndim; omega

/-- the shape test of `to_canonical`, both axes orders -/
theorem shape_test_to {α} (d : List Nat) (a : Arr α) :
    (Py.stepSlice (ishape d) (1 : Int) = Py.takeI (Py.stepSlice (Py.shapeI a) (1 : Int)) (Py.len (ishape d)) ↔ d = a.shape.take d.length) ∧
    (Py.stepSlice (ishape d) (-(1 : Int)) = Py.takeI (Py.stepSlice (Py.shapeI a) (-(1 : Int))) (Py.len (ishape d)) ↔
      d.reverse = a.shape.reverse.take d.length) := by
  unfold Py.stepSlice Py.takeI
  rw [len_ishape]
  constructor
  · simp only [show ¬ ((1 : Int) < 0) by omega, if_false, Py.shapeI]
    rw [← List.map_take]; exact ishape_inj _ _
  · simp only [show ((-(1 : Int)) < 0) by omega, if_true, Py.shapeI]
    rw [← List.map_reverse, ← List.map_take]
    have : (ishape d).reverse = ishape d.reverse := by simp [ishape]
    rw [this]; exact ishape_inj _ _

/-- the shape test of `from_canonical` -/
theorem shape_test_from {α} (d : List Nat) (a : Arr α) :
    (Py.stepSlice (ishape d) (1 : Int) = Py.takeI (Py.shapeI a) (Py.len (ishape d)) ↔ d = a.shape.take d.length) ∧
    (Py.stepSlice (ishape d) (-(1 : Int)) = Py.takeI (Py.shapeI a) (Py.len (ishape d)) ↔ d.reverse = a.shape.take d.length) := by
  unfold Py.stepSlice Py.takeI
  rw [len_ishape]
  constructor
  · simp only [show ¬ ((1 : Int) < 0) by omega, if_false, Py.shapeI]
    rw [← List.map_take]; exact ishape_inj _ _
  · simp only [show ((-(1 : Int)) < 0) by omega, if_true, Py.shapeI]
    rw [← List.map_take]
    have : (ishape d).reverse = ishape d.reverse := by simp [ishape]
    rw [this]; exact ishape_inj _ _

/-- **`StructuredGrid.to_canonical`** = the model's `toCanonical` -/
theorem tr_StructuredGrid_to_canonical {α} (g : SGrid) (a : Arr α) :
    Tr.StructuredGrid_to_canonical g.rev (ishape g.dataShape) g.inc a = g.toCanonical a := by
  unfold Tr.StructuredGrid_to_canonical Tr.StructuredGrid_to_canonical.join1 Tr.StructuredGrid_to_canonical.join2 toCanonical
  have hl : ∀ (x : Arr α), Tr.StructuredGrid_to_canonical.loop3 g.inc x (enumFrom (0 : Int) g.inc) = .ok (flipAll g.inc 0 x) :=
    fun x => by simpa using flip_loop_to g.inc g.inc 0 x
  have hen : ∀ (l : List Bool), Py.enumerate l = enumFrom (0 : Int) l := fun _ => rfl
  cases hr : g.rev with
  | true =>
    simp only [if_true, (shape_test_to g.dataShape a).2, hen, hl, bind, Except.bind, pure, Except.pure, ndim_gt]
    by_cases hs : g.dataShape.reverse = a.shape.reverse.take g.dataShape.length
    · by_cases hn : a.ndim > 1 <;> simp [hs, hn, throw, throwThe, MonadExceptOf.throw]
    · simp [hs, throw, throwThe, MonadExceptOf.throw]
  | false =>
    simp only [Bool.false_eq_true, if_false, (shape_test_to g.dataShape a).1, hen, hl, bind, Except.bind, pure, Except.pure, false_and]
    by_cases hs : g.dataShape = a.shape.take g.dataShape.length
    · simp [← hs, throw, throwThe, MonadExceptOf.throw]
    · simp [hs, throw, throwThe, MonadExceptOf.throw]

/-- **`StructuredGrid.from_canonical`** = the model's `fromCanonical` -/
theorem tr_StructuredGrid_from_canonical {α} (g : SGrid) (a : Arr α) :
    Tr.StructuredGrid_from_canonical g.rev (ishape g.dataShape) g.inc a = g.fromCanonical a := by
  unfold Tr.StructuredGrid_from_canonical Tr.StructuredGrid_from_canonical.join1 Tr.StructuredGrid_from_canonical.join3 fromCanonical
  have hl : ∀ (x : Arr α), Tr.StructuredGrid_from_canonical.loop2 g.inc x (enumFrom (0 : Int) g.inc) = .ok (flipAll g.inc 0 x) :=
    fun x => by simpa using flip_loop_from g.inc g.inc 0 x
  have hen : ∀ (l : List Bool), Py.enumerate l = enumFrom (0 : Int) l := fun _ => rfl
  cases hr : g.rev with
  | true =>
    simp only [if_true, (shape_test_from g.dataShape a).2, hen, hl, bind, Except.bind, pure, Except.pure, ndim_gt]
    by_cases hs : g.dataShape.reverse = a.shape.take g.dataShape.length
    · by_cases hn : (flipAll g.inc 0 a).ndim > 1 <;> simp [hs, hn, throw, throwThe, MonadExceptOf.throw]
    · simp [hs, throw, throwThe, MonadExceptOf.throw]
  | false =>
    simp only [Bool.false_eq_true, if_false, (shape_test_from g.dataShape a).1, hen, hl, bind, Except.bind, pure, Except.pure, false_and]
    by_cases hs : g.dataShape = a.shape.take g.dataShape.length
    · simp [← hs, throw, throwThe, MonadExceptOf.throw]
    · simp [hs, throw, throwThe, MonadExceptOf.throw]

/-- **C15 on the code — to canonical form and back is the identity.**  For data in the grid's data shape (extra — time —
    axes where the conversions admit them), the translated `to_canonical` succeeds, the translated `from_canonical`
    succeeds on its answer, and the result is the original array, element by element. -/
theorem code_from_to_canonical_id {α} (g : SGrid) (hw : WF g) (a : Arr α) (e : List Nat)
    (ha : a.shape = if g.rev then e.reverse ++ g.dataShape else g.dataShape ++ e) :
    ∃ c b, Tr.StructuredGrid_to_canonical g.rev (ishape g.dataShape) g.inc a = .ok c ∧
      Tr.StructuredGrid_from_canonical g.rev (ishape g.dataShape) g.inc c = .ok b ∧ b.Eqv a := by
  obtain ⟨c, b, h1, h2, h3⟩ := Props.C15.from_to_canonical_id g hw a e ha
  exact ⟨c, b, by rw [tr_StructuredGrid_to_canonical]; exact h1, by rw [tr_StructuredGrid_from_canonical]; exact h2, h3⟩

/-- … and from canonical form and back -/
theorem code_to_from_canonical_id {α} (g : SGrid) (hw : WF g) (c : Arr α) (e : List Nat)
    (hc : c.shape = xyzShape g ++ e) :
    ∃ b c', Tr.StructuredGrid_from_canonical g.rev (ishape g.dataShape) g.inc c = .ok b ∧
      Tr.StructuredGrid_to_canonical g.rev (ishape g.dataShape) g.inc b = .ok c' ∧ c'.Eqv c := by
  obtain ⟨b, c', h1, h2, h3⟩ := Props.C15.to_from_canonical_id g hw c e hc
  exact ⟨b, c', by rw [tr_StructuredGrid_from_canonical]; exact h1, by rw [tr_StructuredGrid_to_canonical]; exact h2, h3⟩

/-- **C15 on the code — canonical data is indexed in x, y, z order along increasing coordinates**: what the translated
    `to_canonical` returns holds `a[i]` at the canonical index of `i`, whose coordinate is read off the increasing axes -/
theorem code_canonical_is_xyz_increasing {α} (g : SGrid) (hw : WF g) (a : Arr α) (ha : a.shape = g.dataShape) :
    ∃ c, Tr.StructuredGrid_to_canonical g.rev (ishape g.dataShape) g.inc a = .ok c ∧ c.shape = g.locAxes.map List.length ∧
      (∀ i, InB g.dataShape i →
        InB c.shape (g.canonIdx i) ∧ c.get (g.canonIdx i) = a.get i ∧ g.coordAt i = pick g.locAxes (g.canonIdx i)) := by
  obtain ⟨c, h1, h2, h3, _⟩ := Props.C15.canonical_is_xyz_increasing g hw a ha
  exact ⟨c, by rw [tr_StructuredGrid_to_canonical]; exact h1, h2, h3⟩

/-- data of the wrong shape is refused (`ValueError`) -/
theorem code_to_canonical_wrong_shape {α} (g : SGrid) (a : Arr α) (hr : g.rev = false)
    (hs : g.dataShape ≠ a.shape.take g.dataShape.length) :
    Tr.StructuredGrid_to_canonical g.rev (ishape g.dataShape) g.inc a = .error .other := by
  rw [tr_StructuredGrid_to_canonical]
  unfold toCanonical
  simp [hr, hs]

end Finam.Props.C15C
