import FinamModel.SchedLemmas
/-!
  C02 — the driver follows least-advanced-first and updates only what is needed.
  (placeholder: theorems are added below as they are proved)
-/
namespace Finam.Props.C02
open Finam

/-- the checked time equals the time actually demanded of the source: delays of chained delay
    adapters add up -/
theorem walk_eq_need (dp : DP) (ads : List Ad) (t : Int) : walk dp ads t false = need dp ads t :=
  Finam.walk_eq_need dp ads t

end Finam.Props.C02
