import FinamModel.SchedLemmas
import FinamModel.Props.C04
/-!
  C02 — the driver follows least-advanced-first and updates only what is needed.

  * `select_least`: the component the run loop starts from is a time-stepped component of minimal
    time, the first such in the listing (stable sort, element 0);
  * `updateRec_chain`: whatever `_update_recursive` ends up updating is reached from the selected
    component along a chain of dependencies each of which *lags* (the source output is behind what
    the dependant demands for its announced pull, through pull-based components too);
  * `findDeps_mem_link`: every recorded dependency stems from a non-static link whose requirement
    (delays accumulated, `walk_eq_need`) is exactly the recorded time;
  * `walk_eq_need`: the checked time equals the time actually demanded of the source.
-/
namespace Finam.Props.C02
open Finam

/-- the checked time equals the time actually demanded of the source: delays of chained delay
    adapters add up -/
theorem walk_eq_need (dp : DP) (ads : List Ad) (t : Int) : walk dp ads t false = need dp ads t :=
  Finam.walk_eq_need dp ads t

/-! ### what `_find_dependencies` records -/

theorem depsInsert_mem_cases {deps : List (Nat × Int)} {o : Nat} {t : Int} {p : Nat × Int}
    (h : p ∈ depsInsert deps o t) : p ∈ deps ∨ p = (o, t) := by
  induction deps with
  | nil => simp [depsInsert] at h; exact Or.inr h
  | cons q r ih =>
    obtain ⟨o', t'⟩ := q
    simp only [depsInsert] at h
    by_cases ho : o' = o
    · simp only [ho, if_true] at h
      subst ho
      rcases List.mem_cons.mp h with h' | h'
      · by_cases ht : t > t'
        · simp only [ht, if_true] at h'; exact Or.inr h'
        · simp only [ht, if_false] at h'; subst h'; exact Or.inl List.mem_cons_self
      · exact Or.inl (List.mem_cons_of_mem _ h')
    · simp only [ho, if_false] at h
      cases h with
      | head => exact Or.inl List.mem_cons_self
      | tail _ h' =>
        rcases ih h' with h'' | h''
        · exact Or.inl (List.mem_cons_of_mem _ h'')
        · exact Or.inr h''

/-- the condition under which `_find_dependencies` skips a link: the source belongs to a
    time-stepped component and is not behind the required time -/
def upToDate (s : State) (o : Nat) (lt : Int) : Prop :=
  (s.comp (s.out o).owner).isTime = true ∧ ¬ (s.out o).time < lt

/-- **Every recorded dependency is a real requirement**: an entry `(o, lt)` of the dependency
    dictionary comes from a non-static link of the component to output `o` whose requirement for
    the target time — with the delays of all delay adapters on the link accumulated — is exactly
    `lt`, and whose source was not found up to date. -/
theorem findDeps_mem_link (s : State) (c : Nat) (target : Int) (o : Nat) (lt : Int)
    (h : (o, lt) ∈ findDeps s c target) :
    ∃ l ∈ (s.comp c).inputs, l.static = false ∧ l.src = o ∧ need s.dp l.ads target = some lt ∧
      ¬ upToDate s o lt := by
  unfold findDeps at h
  simp only [Finam.walk_eq_need] at h
  generalize hall : (s.comp c).inputs = all at h ⊢
  suffices H : ∀ (ls : List Link) (acc : List (Nat × Int)),
      (∀ p ∈ acc, ∃ l ∈ all, l.static = false ∧ l.src = p.1 ∧ need s.dp l.ads target = some p.2 ∧ ¬ upToDate s p.1 p.2) →
      (∀ l ∈ ls, l ∈ all) →
      ∀ p ∈ ls.foldl (fun deps l =>
        if l.static then deps else
        match need s.dp l.ads target with
        | none => deps
        | some lt =>
          let o := s.out l.src
          if (s.comp o.owner).isTime && !(o.time < lt) then deps else depsInsert deps l.src lt) acc,
        ∃ l ∈ all, l.static = false ∧ l.src = p.1 ∧ need s.dp l.ads target = some p.2 ∧ ¬ upToDate s p.1 p.2 by
    exact H all [] (by simp) (fun l hl => hl) (o, lt) h
  intro ls
  induction ls with
  | nil => intro acc hacc _ p hp; exact hacc p hp
  | cons x xs ih =>
    intro acc hacc hsub p hp
    simp only [List.foldl_cons] at hp
    refine ih _ ?_ (fun l hl => hsub l (List.mem_cons_of_mem _ hl)) p hp
    intro q hq
    by_cases hst : x.static = true
    · simp only [hst, if_true] at hq; exact hacc q hq
    · simp only [hst] at hq
      cases hn : need s.dp x.ads target with
      | none => simp only [hn] at hq; exact hacc q hq
      | some ltx =>
        simp only [hn] at hq
        by_cases hc : ((s.comp (s.out x.src).owner).isTime && !decide ((s.out x.src).time < ltx)) = true
        · simp only [hc, if_true] at hq; exact hacc q hq
        · simp only [hc] at hq
          rcases depsInsert_mem_cases hq with h1 | h1
          · exact hacc q h1
          · subst h1
            refine ⟨x, hsub x List.mem_cons_self, by simpa using hst, rfl, hn, ?_⟩
            intro hu
            apply hc
            simp only [Bool.and_eq_true, Bool.not_eq_true', decide_eq_false_iff_not]
            exact hu

/-! ### only what is needed: the updated component lies on a chain of lagging dependencies -/

theorem updateRec_chain_aux (s : State) : ∀ (fuel : Nat),
    (∀ c chain tgt u, updateRec s fuel c chain tgt = .ok (some u) → ∃ t', C04.Star s (c, tgt) (u, t')) ∧
    (∀ c tgt chain deps u, (∀ p ∈ deps, p ∈ findDeps s c (C04.targetOf s c tgt)) →
        depsLoop s fuel (c :: chain) deps = .ok (some u) →
        ∃ c' tgt' t', C04.Edge s (c, tgt) (c', tgt') ∧ C04.Star s (c', tgt') (u, t')) := by
  intro fuel
  induction fuel with
  | zero =>
    constructor
    · intro c chain tgt u h; simp [updateRec] at h
    · intro c tgt chain deps
      induction deps with
      | nil => intro u _ h; simp [depsLoop] at h
      | cons p ps ih =>
        intro u hsub h
        obtain ⟨o, lt⟩ := p
        simp only [depsLoop] at h
        split at h
        · split at h
          · simp [updateRec] at h
          · exact ih u (fun q hq => hsub q (List.mem_cons_of_mem _ hq)) h
        · simp [updateRec] at h
  | succ n ihn =>
    obtain ⟨ihU, ihL⟩ := ihn
    have hU : ∀ c chain tgt u, updateRec s (n+1) c chain tgt = .ok (some u) → ∃ t', C04.Star s (c, tgt) (u, t') := by
      intro c chain tgt u h
      simp only [updateRec] at h
      split at h
      · cases h
      · split at h
        · cases h
        · rename_i u' hloop
          cases h
          obtain ⟨c', tgt', t', hedge, hstar⟩ := ihL c tgt chain _ u (fun p hp => hp) hloop
          exact ⟨t', .step hedge hstar⟩
        · split at h
          · split at h
            · cases h
            · cases h; exact ⟨tgt, .refl _⟩
          · cases h
    refine ⟨hU, ?_⟩
    intro c tgt chain deps
    induction deps with
    | nil => intro u _ h; simp [depsLoop] at h
    | cons p ps ih =>
      intro u hsub h
      obtain ⟨o, lt⟩ := p
      have hmem : (o, lt) ∈ findDeps s c (C04.targetOf s c tgt) := hsub _ (by simp)
      have hrest : ∀ q ∈ ps, q ∈ findDeps s c (C04.targetOf s c tgt) := fun q hq => hsub q (List.mem_cons_of_mem _ hq)
      simp only [depsLoop] at h
      split at h
      · rename_i hT
        split at h
        · rename_i hlag
          obtain ⟨t', hs⟩ := hU _ _ _ _ h
          exact ⟨_, _, t', .time c tgt o lt hmem hT hlag, hs⟩
        · exact ih u hrest h
      · rename_i hP
        split at h
        · cases h
        · rename_i u' he
          cases h
          obtain ⟨t', hs⟩ := hU _ _ _ _ he
          exact ⟨_, _, t', .pull c tgt o lt hmem (by simpa using hP), hs⟩
        · exact ih u hrest h

/-- **Only what is needed.** The component that `_update_recursive` ends up updating is reached from
    the component it was called for along a chain of `Edge`s: each step goes from a component to the
    owner of an output that is recorded by `_find_dependencies` for the dependant's announced pull and
    either lags behind the required time (time-stepped owner) or is pull-based and explored for the
    propagated time.  Nothing off such a chain is ever advanced, whatever its position in the list. -/
theorem updateRec_chain (s : State) (fuel : Nat) (c : Nat) (chain : List Nat) (tgt : Option Int) (u : Nat)
    (h : updateRec s fuel c chain tgt = .ok (some u)) : ∃ t', C04.Star s (c, tgt) (u, t') :=
  (updateRec_chain_aux s fuel).1 c chain tgt u h

/-! ### least advanced first -/

/-- one step of the scan, case by case -/
theorem selectAux_cons_pull (c : Comp) (cs : List Comp) (i : Nat) (best : Option (Nat × Int))
    (hk : c.kind = .pull) : selectAux (c :: cs) i best = selectAux cs (i+1) best := by
  simp only [selectAux, hk]

theorem selectAux_cons_none (c : Comp) (cs : List Comp) (i : Nat) (nw nx : Int) (f : Bool)
    (hk : c.kind = .time nw nx f) : selectAux (c :: cs) i none = selectAux cs (i+1) (some (i, nw)) := by
  simp only [selectAux, hk]

theorem selectAux_cons_lt (c : Comp) (cs : List Comp) (i : Nat) (nw nx : Int) (f : Bool) (bi : Nat) (bt : Int)
    (hk : c.kind = .time nw nx f) (hlt : nw < bt) :
    selectAux (c :: cs) i (some (bi, bt)) = selectAux cs (i+1) (some (i, nw)) := by
  simp only [selectAux, hk, hlt, if_true]

theorem selectAux_cons_ge (c : Comp) (cs : List Comp) (i : Nat) (nw nx : Int) (f : Bool) (bi : Nat) (bt : Int)
    (hk : c.kind = .time nw nx f) (hlt : ¬ nw < bt) :
    selectAux (c :: cs) i (some (bi, bt)) = selectAux cs (i+1) (some (bi, bt)) := by
  simp only [selectAux, hk, hlt, if_false]

/-- the result of the scan is the incoming best or comes from the scanned list -/
theorem selectAux_origin : ∀ (cs : List Comp) (i : Nat) (best : Option (Nat × Int)) (x : Nat × Int),
    selectAux cs i best = some x →
    best = some x ∨ ∃ (j : Nat) (c : Comp) (nx : Int) (f : Bool), cs[j]? = some c ∧ c.kind = .time x.2 nx f ∧ x.1 = i + j := by
  intro cs
  induction cs with
  | nil => intro i best x h; exact Or.inl h
  | cons c cs ih =>
    intro i best x h
    have lift : (∃ (j : Nat) (c' : Comp) (nx : Int) (f : Bool), cs[j]? = some c' ∧ c'.kind = .time x.2 nx f ∧ x.1 = i + 1 + j) →
        ∃ (j : Nat) (c' : Comp) (nx : Int) (f : Bool), (c :: cs)[j]? = some c' ∧ c'.kind = .time x.2 nx f ∧ x.1 = i + j := by
      rintro ⟨j, c', nx, f, hj, hkc, hi⟩
      exact ⟨j+1, c', nx, f, by simpa using hj, hkc, by omega⟩
    cases hk : c.kind with
    | pull =>
      rw [selectAux_cons_pull c cs i best hk] at h
      rcases ih _ _ _ h with h' | h'
      · exact Or.inl h'
      · exact Or.inr (lift h')
    | time nw nx f =>
      cases best with
      | none =>
        rw [selectAux_cons_none c cs i nw nx f hk] at h
        rcases ih _ _ _ h with h' | h'
        · cases h'; exact Or.inr ⟨0, c, nx, f, by simp, hk, by simp⟩
        · exact Or.inr (lift h')
      | some bp =>
        obtain ⟨bi, bt⟩ := bp
        by_cases hlt : nw < bt
        · rw [selectAux_cons_lt c cs i nw nx f bi bt hk hlt] at h
          rcases ih _ _ _ h with h' | h'
          · cases h'; exact Or.inr ⟨0, c, nx, f, by simp, hk, by simp⟩
          · exact Or.inr (lift h')
        · rw [selectAux_cons_ge c cs i nw nx f bi bt hk hlt] at h
          rcases ih _ _ _ h with h' | h'
          · exact Or.inl h'
          · exact Or.inr (lift h')

/-- the result of the scan is not later than the incoming best nor than any scanned time component -/
theorem selectAux_min : ∀ (cs : List Comp) (i : Nat) (best : Option (Nat × Int)) (x : Nat × Int),
    selectAux cs i best = some x →
    (∀ b, best = some b → x.2 ≤ b.2) ∧
    (∀ c ∈ cs, ∀ (nw nx : Int) (f : Bool), c.kind = .time nw nx f → x.2 ≤ nw) := by
  intro cs
  induction cs with
  | nil =>
    intro i best x h
    refine ⟨fun b hb => ?_, fun c hc => by cases hc⟩
    simp only [selectAux] at h; rw [hb] at h; cases h; exact Int.le_refl _
  | cons c cs ih =>
    intro i best x h
    cases hk : c.kind with
    | pull =>
      rw [selectAux_cons_pull c cs i best hk] at h
      obtain ⟨h1, h2⟩ := ih _ _ _ h
      refine ⟨h1, ?_⟩
      intro c' hc' nw nx f hkc
      rcases List.mem_cons.mp hc' with e | e
      · subst e; rw [hk] at hkc; cases hkc
      · exact h2 c' e nw nx f hkc
    | time nw nx f =>
      cases best with
      | none =>
        rw [selectAux_cons_none c cs i nw nx f hk] at h
        obtain ⟨h1, h2⟩ := ih _ _ _ h
        refine ⟨fun b hb => (by cases hb), ?_⟩
        intro c' hc' nw' nx' f' hkc
        rcases List.mem_cons.mp hc' with e | e
        · subst e; rw [hk] at hkc; cases hkc; exact h1 (i, nw) rfl
        · exact h2 c' e nw' nx' f' hkc
      | some bp =>
        obtain ⟨bi, bt⟩ := bp
        by_cases hlt : nw < bt
        · rw [selectAux_cons_lt c cs i nw nx f bi bt hk hlt] at h
          obtain ⟨h1, h2⟩ := ih _ _ _ h
          have h0 : x.2 ≤ nw := h1 (i, nw) rfl
          refine ⟨fun b hb => by cases hb; show x.2 ≤ bt; omega, ?_⟩
          intro c' hc' nw' nx' f' hkc
          rcases List.mem_cons.mp hc' with e | e
          · subst e; rw [hk] at hkc; cases hkc; exact h0
          · exact h2 c' e nw' nx' f' hkc
        · rw [selectAux_cons_ge c cs i nw nx f bi bt hk hlt] at h
          obtain ⟨h1, h2⟩ := ih _ _ _ h
          have h0 : x.2 ≤ bt := h1 (bi, bt) rfl
          refine ⟨h1, ?_⟩
          intro c' hc' nw' nx' f' hkc
          rcases List.mem_cons.mp hc' with e | e
          · subst e; rw [hk] at hkc; cases hkc; omega
          · exact h2 c' e nw' nx' f' hkc

/-- among equally advanced candidates the earliest in the list wins (Python's `sort` is stable) -/
theorem selectAux_first : ∀ (cs : List Comp) (i : Nat) (best : Option (Nat × Int)) (x : Nat × Int),
    selectAux cs i best = some x → (∀ b, best = some b → b.1 < i) →
    (∀ b, best = some b → x.2 = b.2 → x = b) ∧
    (∀ (j : Nat) (c : Comp) (nx : Int) (f : Bool), cs[j]? = some c → c.kind = .time x.2 nx f → x.1 ≤ i + j) := by
  intro cs
  induction cs with
  | nil =>
    intro i best x h _
    refine ⟨fun b hb _ => ?_, fun j c nx f hj => by simp at hj⟩
    simp only [selectAux] at h; rw [hb] at h; cases h; rfl
  | cons c cs ih =>
    intro i best x h hb
    cases hk : c.kind with
    | pull =>
      rw [selectAux_cons_pull c cs i best hk] at h
      obtain ⟨h1, h2⟩ := ih _ _ _ h (fun b hb' => by have := hb b hb'; omega)
      refine ⟨h1, ?_⟩
      intro j c' nx f hj hkc
      cases j with
      | zero => simp at hj; subst hj; rw [hk] at hkc; cases hkc
      | succ j => have := h2 j c' nx f (by simpa using hj) hkc; omega
    | time nw nx f =>
      cases best with
      | none =>
        rw [selectAux_cons_none c cs i nw nx f hk] at h
        obtain ⟨h1, h2⟩ := ih _ _ _ h (fun b hb' => by cases hb'; show i < i + 1; omega)
        refine ⟨fun b hb' => (by cases hb'), ?_⟩
        intro j c' nx' f' hj hkc
        cases j with
        | zero =>
          simp at hj; subst hj; rw [hk] at hkc; cases hkc
          have := h1 (i, x.2) rfl rfl
          rw [this]; show i ≤ i + 0; omega
        | succ j => have := h2 j c' nx' f' (by simpa using hj) hkc; omega
      | some bp =>
        obtain ⟨bi, bt⟩ := bp
        by_cases hlt : nw < bt
        · rw [selectAux_cons_lt c cs i nw nx f bi bt hk hlt] at h
          obtain ⟨h1, h2⟩ := ih _ _ _ h (fun b hb' => by cases hb'; show i < i + 1; omega)
          have hmin : x.2 ≤ nw := (selectAux_min cs (i+1) (some (i, nw)) x h).1 (i, nw) rfl
          refine ⟨fun b hb' e => by cases hb'; have : x.2 = bt := e; omega, ?_⟩
          intro j c' nx' f' hj hkc
          cases j with
          | zero =>
            simp at hj; subst hj; rw [hk] at hkc; cases hkc
            have := h1 (i, x.2) rfl rfl
            rw [this]; show i ≤ i + 0; omega
          | succ j => have := h2 j c' nx' f' (by simpa using hj) hkc; omega
        · rw [selectAux_cons_ge c cs i nw nx f bi bt hk hlt] at h
          have hbi : bi < i := hb (bi, bt) rfl
          obtain ⟨h1, h2⟩ := ih _ _ _ h (fun b hb' => by cases hb'; show bi < i + 1; omega)
          refine ⟨h1, ?_⟩
          intro j c' nx' f' hj hkc
          cases j with
          | zero =>
            simp at hj; subst hj; rw [hk] at hkc; cases hkc
            have hmin : x.2 ≤ bt := (selectAux_min cs (i+1) (some (bi, bt)) x h).1 (bi, bt) rfl
            have hxb : x.2 = bt := by omega
            have := h1 (bi, bt) rfl hxb
            rw [this]; show bi ≤ i + 0; omega
          | succ j => have := h2 j c' nx' f' (by simpa using hj) hkc; omega

/-- **Least advanced first.** The component the run loop hands to `_update_recursive` is a
    time-stepped component, no time-stepped component of the composition is further back, and among
    the equally advanced ones it is the first in the listing. -/
theorem select_least (s : State) (h : Nat) (hs : select s = some h) :
    h < s.comps.length ∧ (s.comp h).isTime = true ∧
    (∀ c, c < s.comps.length → (s.comp c).isTime = true → getNow (s.comp h) ≤ getNow (s.comp c)) ∧
    (∀ c, c < h → (s.comp c).isTime = true → getNow (s.comp h) < getNow (s.comp c)) := by
  simp only [select, Option.map_eq_some_iff] at hs
  obtain ⟨x, hx, hxh⟩ := hs
  subst hxh
  have horig := selectAux_origin s.comps 0 none x hx
  have hmin := (selectAux_min s.comps 0 none x hx).2
  have hfirst := (selectAux_first s.comps 0 none x hx (fun b hb => by cases hb)).2
  rcases horig with h' | ⟨j, c, nx, f, hj, hkc, hi⟩
  · cases h'
  · have hjlt : j < s.comps.length := by
      rcases Nat.lt_or_ge j s.comps.length with h | h
      · exact h
      · rw [List.getElem?_eq_none h] at hj; cases hj
    have hx1 : x.1 = j := by omega
    have hcomp : s.comp x.1 = c := by
      simp only [State.comp, List.getD_eq_getElem?_getD, hx1, hj, Option.getD_some]
    have hnow : getNow (s.comp x.1) = x.2 := by rw [hcomp]; simp [getNow, hkc]
    have hget : ∀ c', c' < s.comps.length → s.comps[c']? = some (s.comp c') := by
      intro c' hc'
      simp only [State.comp, List.getD_eq_getElem?_getD, List.getElem?_eq_getElem hc', Option.getD_some]
    refine ⟨by omega, by rw [hcomp]; simp [Comp.isTime, hkc], ?_, ?_⟩
    · intro c' hc' hT
      cases hk : (s.comp c').kind with
      | pull => simp [Comp.isTime, hk] at hT
      | time nw nx' f' =>
        have := hmin (s.comp c') (List.mem_of_getElem? (hget c' hc')) nw nx' f' hk
        rw [hnow]; simp only [getNow, hk]; exact this
    · intro c' hc' hT
      have hc'lt : c' < s.comps.length := by omega
      cases hk : (s.comp c').kind with
      | pull => simp [Comp.isTime, hk] at hT
      | time nw nx' f' =>
        have h1 := hmin (s.comp c') (List.mem_of_getElem? (hget c' hc'lt)) nw nx' f' hk
        rw [hnow]; simp only [getNow, hk]
        by_cases hlt : x.2 < nw
        · exact hlt
        · have heq : nw = x.2 := by omega
          subst heq
          have := hfirst c' (s.comp c') nx' f' (hget c' hc'lt) hk
          omega

end Finam.Props.C02
