import FinamModel.Spill
import FinamModel.Props.C10
import FinamModel.Props.TrCommon
import FinamModel.Props.TrOutputCommon
import FinamModel.Translated.Output__pack
import FinamModel.Translated.Output__unpack
import FinamModel.Translated.Output__clear_data_files
import FinamModel.Translated.Output_finalize
import FinamModel.Translated.TimeCachingAdapter__clear_cached_data_files
import FinamModel.Translated.TimeCachingAdapter__unpack
import FinamModel.Translated.TimeCachingAdapter__finalize
/-!
  C10 — the spill mechanism of an output on the *translated* `Output._pack`, `_unpack`, `_clear_data` (with its
  `os.remove` branch) and `finalize` (`sdk/output.py`, regenerated from the source on every run) against the hand-written
  `Finam.SP.pack` / `unpack` / `evictS` / `finalizeFs` the C10 theorems are about.

  In the translated code a stored entry is a value of a type `α` (a quantity or a file name) and the disk a state `φ`
  given with its operations.  Here `α` is the model's `Stored`, `φ` its file map, `os.remove` / `np.save` /
  `MaskedArray.dump` / `np.load` are `removeF` / append / `lookupF` (a missing file is an error, as `FileNotFoundError`).
-/
namespace Finam.Props.C10
open Finam Finam.Py Finam.SP Finam.Props.C11

abbrev FSt := List (File × Rat)

/-- `isinstance(x, str)` -/
def isFileS : Stored → Bool
  | .onDisk _ _ => true
  | .inRam _ _ => false

/-- `x.nbytes` -/
def nbytesS : Stored → Int
  | .inRam _ size => size
  | .onDisk _ _ => 0

/-- `os.path.join(self.memory_location or "", f"{id(self)}-{self._mem_counter}.npy")` -/
def mkFileS (c : Cfg) (n : Int) (d : Stored) : Stored := .onDisk ⟨c.loc.getD "", c.slotId, n.toNat⟩ (val d)

/-- `os.remove(name)` -/
def fsRemoveS (fs : FSt) : Stored → Except Err FSt
  | .onDisk f _ => if (lookupF fs f).isSome then .ok (removeF fs f) else .error .other
  | .inRam _ _ => .error .other

/-- `np.save(name, data.magnitude)` / `data.magnitude.dump(file)` -/
def fsCreateS (fs : FSt) (fn d : Stored) : Except Err FSt :=
  match fn with
  | .onDisk f _ => .ok (fs ++ [(f, val d)])
  | .inRam _ _ => .error .other

/-- `np.load(name)` re-wrapped as a quantity -/
def fsLoadS (fs : FSt) : Stored → Except Err Stored
  | .onDisk f _ =>
    match lookupF fs f with
    | some v => .ok (.inRam v 0)
    | none => .error .other
  | .inRam _ _ => .error .other

/-- **`Output._pack`** = the model's `pack`: the same decision to spill, the same file name, counter, memory account and
    disk — whether or not the payload is a masked array -/
theorem tr_Output__pack (c : Cfg) (s : SState) (v : Rat) (size : Nat) (masked : Stored → Bool) :
    Tr.Output__pack c.limit s.total (s.counter : Int) s.fs (Stored.inRam v size) nbytesS masked (mkFileS c) fsCreateS =
      .ok ((pack c s v size).2, ((pack c s v size).1.counter : Int), (pack c s v size).1.total, (pack c s v size).1.fs) := by
  unfold Tr.Output__pack Tr.Output__pack.join1 pack spills
  cases hl : c.limit with
  | none => simp [nbytesS, pure, Except.pure]
  | some l =>
    simp only [Option.isNone_some, Py.unwrap, ok_bind, nbytesS]
    by_cases h1 : 0 ≤ l <;> by_cases h2 : l < s.total + (size : Int)
    · cases hm : masked (Stored.inRam v size) <;>
        simp [h1, h2, hm, mkFileS, fsCreateS, val, pure, Except.pure, bind, Except.bind]
    · simp [h1, h2, pure, Except.pure]
    · simp [h1, h2, pure, Except.pure]
    · simp [h1, h2, pure, Except.pure]

/-- **`Output._unpack`** = the model's `unpack` (for a slot whose buffer is in the units `_unpack` re-wraps with) -/
theorem tr_Output__unpack (c : Cfg) (hu : c.unpackUnits = c.inUnits) (fs : FSt) (w : Stored) :
    (match Tr.Output__unpack fs w isFileS fsLoadS with
     | .error e => .error e
     | .ok x => .ok (val x)) = unpack c fs w := by
  unfold Tr.Output__unpack unpack
  cases w with
  | inRam v size => simp [isFileS, val, pure, Except.pure]
  | onDisk f g =>
    simp only [isFileS, if_true, fsLoadS]
    cases lookupF fs f with
    | none => simp [bind, Except.bind]
    | some v => simp [hu, val, bind, Except.bind, pure, Except.pure]

/-- the eviction loop of `Output._clear_data`, with its `os.remove` / `_total_mem` branches, is `evictS` -/
theorem evictS_while (ci : List (Nat × Option Int)) (tmin : Int) : ∀ (fuel : Nat) (d : List (Int × Stored)) (total : Int) (fs : FSt),
    d.length < fuel →
    Tr.Output__clear_data_files.while1 d ci total fs tmin isFileS nbytesS fsRemoveS fuel =
      (match evictS (toE d) total fs tmin with
       | .error e => .error e
       | .ok (d', total', fs') => .ok (ofE d', total', fs')) := by
  intro fuel
  induction fuel with
  | zero => intro d _ _ h; omega
  | succ fuel ih =>
    intro d total fs h
    unfold Tr.Output__clear_data_files.while1
    match d with
    | [] => simp [evictS, ofE, pure, Except.pure]
    | [p] => simp [evictS, ofE, pure, Except.pure]
    | p :: q :: r =>
      have hl : Py.len r + 1 + 1 > 1 := by have := len_nonneg r; omega
      have hi : idx (p :: q :: r) 1 = .ok q := by simpa using idx_nat (p :: q :: r) 1 q (by simp)
      have h0 : idx (p :: q :: r) 0 = .ok p := by simpa using idx_nat (p :: q :: r) 0 p (by simp)
      simp only [len_cons, hl, if_true, hi, h0, ok_bind, toE_cons, evictS]
      by_cases hc : q.1 ≤ tmin
      · simp only [hc, if_true, Py.pop0, ok_bind]
        obtain ⟨pt, pv⟩ := p
        cases pv with
        | inRam v size =>
          have := ih (q :: r) (total - size) fs (by simp at h ⊢; omega)
          simp only [toE_cons] at this
          simp [isFileS, nbytesS, dropEntry, this]
        | onDisk f g =>
          simp only [isFileS, if_true, fsRemoveS, dropEntry]
          cases hlk : (lookupF fs f).isSome with
          | false => simp [bind, Except.bind]
          | true =>
            have := ih (q :: r) total (removeF fs f) (by simp at h ⊢; omega)
            simp only [toE_cons] at this
            simp [this]
      · simp [hc, ofE, pure, Except.pure]
        exact (ofE_toE r).symm

/-- **`Output._clear_data`** (files variant) = the bookkeeping / eviction step of the model's `stepS` for an output: the
    request is recorded for the pulling end point; once every end point has pulled, the history is evicted up to the
    smallest recorded request, spill files of evicted entries are removed and the memory account is reduced -/
theorem tr_Output__clear_data_files (d : List (Int × Stored)) (ci : List (Nat × Option Int)) (total : Int) (fs : FSt)
    (k target : Nat) (t : Int) (hnd : (ci.map Prod.fst).Nodup) (hk : (ci.map Prod.fst)[k]? = some target) :
    ∃ ci', ci'.map Prod.snd = (ci.map Prod.snd).set k (some t) ∧ ci'.map Prod.fst = ci.map Prod.fst ∧
      Tr.Output__clear_data_files d ci total fs t target isFileS nbytesS fsRemoveS =
        (match evictTime .output none ((ci.map Prod.snd).set k (some t)) t with
         | none => .ok (ci', total, d, fs)
         | some m =>
           match evictS (toE d) total fs m with
           | .error e => .error e
           | .ok (d', total', fs') => .ok (ci', total', ofE d', fs')) := by
  obtain ⟨hv, hf⟩ := C09.dictSet_values ci k target (some t) hnd hk
  refine ⟨Py.dictSet ci target (some t), hv, hf, ?_⟩
  unfold Tr.Output__clear_data_files evictTime
  simp only [hv]
  have hspec := C09.allSome_spec ((ci.map Prod.snd).set k (some t))
  cases hany : ((ci.map Prod.snd).set k (some t)).any (fun t => decide (t.isNone = true)) with
  | true =>
    have hall := hspec.2 hany
    simp [hall, pure, Except.pure]
  | false =>
    obtain ⟨xs, h1, h2, h3⟩ := hspec.1 hany
    have hne : xs ≠ [] := by
      intro e; subst e
      have hlen := congrArg List.length h1
      have hkl : k < (ci.map Prod.fst).length := by
        cases Nat.lt_or_ge k (ci.map Prod.fst).length with
        | inl h => exact h
        | inr hc =>
          have := List.getElem?_eq_none hc
          rw [this] at hk; cases hk
      simp only [List.length_set, List.length_map, List.length_nil] at hlen hkl
      omega
    cases xs with
    | nil => exact absurd rfl hne
    | cons x xs =>
      have hmin : minLast ((ci.map Prod.snd).set k (some t)) = some (C09.rmin x xs) := by rw [h1]; exact C09.minLast_some x xs
      simp only [Bool.false_eq_true, if_false, Py.minOptList, h2, ok_bind, Py.minList, C09.foldl_rmin, hmin, h3, if_true]
      have := evictS_while (Py.dictSet ci target (some t)) (C09.rmin x xs) (Int.toNat (Py.len d) + 1) d total fs (by simp [Py.len])
      rw [this]
      cases evictS (toE d) total fs (C09.rmin x xs) with
      | error e => simp [bind, Except.bind]
      | ok r => obtain ⟨d', total', fs'⟩ := r; simp [bind, Except.bind, pure, Except.pure]

/-- the loop of `Output.finalize` is `finalizeFs` -/
theorem finalize_loop (full : List (Int × Stored)) : ∀ (d : List (Int × Stored)) (fs : FSt),
    Tr.Output_finalize.loop1 full fs isFileS fsRemoveS d = finalizeFs (toE d) fs := by
  intro d
  induction d with
  | nil => intro fs; rfl
  | cons p d ih =>
    intro fs
    obtain ⟨pt, pv⟩ := p
    unfold Tr.Output_finalize.loop1
    cases pv with
    | inRam v size => simp [isFileS, finalizeFs, ih]
    | onDisk f g =>
      simp only [isFileS, if_true, fsRemoveS, toE_cons, finalizeFs]
      cases (lookupF fs f).isSome with
      | false => simp [bind, Except.bind]
      | true => simp [ih]

/-- **`Output.finalize`** = the model's finalize step: every spill file of a buffered entry is removed (a missing one
    is an error), the buffer is emptied -/
theorem tr_Output_finalize (d : List (Int × Stored)) (fs : FSt) :
    Tr.Output_finalize d fs isFileS fsRemoveS =
      (match finalizeFs (toE d) fs with
       | .error e => .error e
       | .ok fs' => .ok ([], fs')) := by
  unfold Tr.Output_finalize
  rw [finalize_loop]
  cases finalizeFs (toE d) fs <;> simp [bind, Except.bind, pure, Except.pure]

/-! ### the time-caching and time-integration adapters (`adapters/time.py`; `_pack` is the output's) -/

theorem evictS_while_adapter (tmin : Int) : ∀ (fuel : Nat) (d : List (Int × Stored)) (total : Int) (fs : FSt),
    d.length < fuel →
    Tr.TimeCachingAdapter__clear_cached_data_files.while1 d total fs tmin isFileS nbytesS fsRemoveS fuel =
      (match evictS (toE d) total fs tmin with
       | .error e => .error e
       | .ok (d', total', fs') => .ok (ofE d', total', fs')) := by
  intro fuel
  induction fuel with
  | zero => intro d _ _ h; omega
  | succ fuel ih =>
    intro d total fs h
    unfold Tr.TimeCachingAdapter__clear_cached_data_files.while1
    match d with
    | [] => simp [evictS, ofE, pure, Except.pure]
    | [p] => simp [evictS, ofE, pure, Except.pure]
    | p :: q :: r =>
      have hl : Py.len r + 1 + 1 > 1 := by have := len_nonneg r; omega
      have hi : idx (p :: q :: r) 1 = .ok q := by simpa using idx_nat (p :: q :: r) 1 q (by simp)
      have h0 : idx (p :: q :: r) 0 = .ok p := by simpa using idx_nat (p :: q :: r) 0 p (by simp)
      simp only [len_cons, hl, if_true, hi, h0, ok_bind, toE_cons, evictS]
      by_cases hc : q.1 ≤ tmin
      · simp only [hc, if_true, Py.pop0, ok_bind]
        obtain ⟨pt, pv⟩ := p
        cases pv with
        | inRam v size =>
          have := ih (q :: r) (total - size) fs (by simp at h ⊢; omega)
          simp only [toE_cons] at this
          simp [isFileS, nbytesS, dropEntry, this]
        | onDisk f g =>
          simp only [isFileS, if_true, fsRemoveS, dropEntry]
          cases hlk : (lookupF fs f).isSome with
          | false => simp [bind, Except.bind]
          | true =>
            have := ih (q :: r) total (removeF fs f) (by simp at h ⊢; omega)
            simp only [toE_cons] at this
            simp [this]
      · simp [hc, ofE, pure, Except.pure]
        exact (ofE_toE r).symm

/-- **`TimeCachingAdapter._clear_cached_data`** (files variant) = `evictS` up to the request time: the eviction step of
    the model's `stepS` for the interpolation adapters (and, with the previous request time, the integration adapters) -/
theorem tr_TimeCachingAdapter__clear_cached_data_files (d : List (Int × Stored)) (total : Int) (fs : FSt) (t : Int) :
    Tr.TimeCachingAdapter__clear_cached_data_files d total fs t isFileS nbytesS fsRemoveS =
      (match evictS (toE d) total fs t with
       | .error e => .error e
       | .ok (d', total', fs') => .ok (total', ofE d', fs')) := by
  unfold Tr.TimeCachingAdapter__clear_cached_data_files
  rw [evictS_while_adapter t (Int.toNat (Py.len d) + 1) d total fs (by simp [Py.len])]
  cases evictS (toE d) total fs t with
  | error e => simp [bind, Except.bind]
  | ok r => obtain ⟨d', total', fs'⟩ := r; simp [bind, Except.bind, pure, Except.pure]

/-- **`TimeCachingAdapter._unpack`** = the model's `unpack` -/
theorem tr_TimeCachingAdapter__unpack (c : Cfg) (hu : c.unpackUnits = c.inUnits) (fs : FSt) (w : Stored) :
    (match Tr.TimeCachingAdapter__unpack fs w isFileS fsLoadS with
     | .error e => .error e
     | .ok x => .ok (val x)) = unpack c fs w := by
  unfold Tr.TimeCachingAdapter__unpack unpack
  cases w with
  | inRam v size => simp [isFileS, val, pure, Except.pure]
  | onDisk f g =>
    simp only [isFileS, if_true, fsLoadS]
    cases lookupF fs f with
    | none => simp [bind, Except.bind]
    | some v => simp [hu, val, bind, Except.bind, pure, Except.pure]

theorem finalize_loop_adapter (full : List (Int × Stored)) : ∀ (d : List (Int × Stored)) (fs : FSt),
    Tr.TimeCachingAdapter__finalize.loop1 full fs isFileS fsRemoveS d = finalizeFs (toE d) fs := by
  intro d
  induction d with
  | nil => intro fs; rfl
  | cons p d ih =>
    intro fs
    obtain ⟨pt, pv⟩ := p
    unfold Tr.TimeCachingAdapter__finalize.loop1
    cases pv with
    | inRam v size => simp [isFileS, finalizeFs, ih]
    | onDisk f g =>
      simp only [isFileS, if_true, fsRemoveS, toE_cons, finalizeFs]
      cases (lookupF fs f).isSome with
      | false => simp [bind, Except.bind]
      | true => simp [ih]

/-- **`TimeCachingAdapter._finalize`** = the model's finalize step -/
theorem tr_TimeCachingAdapter__finalize (d : List (Int × Stored)) (fs : FSt) :
    Tr.TimeCachingAdapter__finalize d fs isFileS fsRemoveS =
      (match finalizeFs (toE d) fs with
       | .error e => .error e
       | .ok fs' => .ok ([], fs')) := by
  unfold Tr.TimeCachingAdapter__finalize
  rw [finalize_loop_adapter]
  cases finalizeFs (toE d) fs <;> simp [bind, Except.bind, pure, Except.pure]

/-! ### the property on the regenerated code -/

theorem ofE_toE' (l : List (Entry Stored)) : toE (ofE l) = l := toE_ofE l

/-- **C10, nothing left behind, on the code**: after *any* history of publications, pulls and finalisations of a slot
    of any kind (its state as the model reaches it), the translated `Output.finalize` succeeds — every buffered file
    still exists — and leaves neither a buffered entry nor a spill file -/
theorem code_finalize_leaves_no_files (kind : SlotKind) (limit : Option Int) (loc : Option String)
    (slotId units nEnds : Nat) (evs : List SP.Ev) :
    let s := finalS (mkCfg kind limit loc slotId units) (initS nEnds) evs
    Tr.Output_finalize (ofE s.data) s.fs isFileS fsRemoveS = .ok ([], []) := by
  intro s
  have h := (sim_reach (mkCfg kind limit loc slotId units) rfl nEnds evs).finv
  rw [tr_Output_finalize, toE_ofE, finalizeFs_spec _ _ _ _ h]

/-- the same for the buffering adapters: the translated `TimeCachingAdapter._finalize` after any history -/
theorem code_adapter_finalize_leaves_no_files (kind : SlotKind) (limit : Option Int) (loc : Option String)
    (slotId units nEnds : Nat) (evs : List SP.Ev) :
    let s := finalS (mkCfg kind limit loc slotId units) (initS nEnds) evs
    Tr.TimeCachingAdapter__finalize (ofE s.data) s.fs isFileS fsRemoveS = .ok ([], []) := by
  intro s
  have h := (sim_reach (mkCfg kind limit loc slotId units) rfl nEnds evs).finv
  rw [tr_TimeCachingAdapter__finalize, toE_ofE, finalizeFs_spec _ _ _ _ h]

/-- **C10, eviction on the code**: after any history of a slot, the translated `_clear_cached_data` for *any* time
    succeeds (every file it removes still exists), leaves exactly the entries the RAM-only eviction (`clear`) leaves,
    and the memory account keeps counting exactly the payloads held in RAM -/
theorem code_adapter_eviction_ok (kind : SlotKind) (limit : Option Int) (loc : Option String)
    (slotId units nEnds : Nat) (evs : List SP.Ev) (m : Int) :
    let s := finalS (mkCfg kind limit loc slotId units) (initS nEnds) evs
    ∃ total' fs', Tr.TimeCachingAdapter__clear_cached_data_files (ofE s.data) s.total s.fs m isFileS nbytesS fsRemoveS =
        .ok (total', ofE (TA.clear s.data m), fs') ∧
      total' - ramBytes (TA.clear s.data m) = s.total - ramBytes s.data := by
  intro s
  have h := (sim_reach (mkCfg kind limit loc slotId units) rfl nEnds evs).finv
  obtain ⟨total', fs', he, _, hacc⟩ := evictS_spec _ _ s.data s.total s.fs m h
  refine ⟨total', fs', ?_, hacc⟩
  rw [tr_TimeCachingAdapter__clear_cached_data_files, toE_ofE, he]

/-- **C10, files are written exactly when the limit says so, on the code**: the translated `_pack` writes a file iff
    `memory_limit` is set, non-negative and smaller than the memory account plus the new payload; the file is the next
    one under the configured location, and a payload kept in RAM adds its size to the account -/
theorem code_pack_decision (c : Cfg) (s : SState) (v : Rat) (size : Nat) (masked : Stored → Bool) :
    Tr.Output__pack c.limit s.total (s.counter : Int) s.fs (Stored.inRam v size) nbytesS masked (mkFileS c) fsCreateS =
      if spills c s.total size then
        .ok (.onDisk ⟨c.loc.getD "", c.slotId, s.counter⟩ v, (s.counter : Int) + 1, s.total,
             s.fs ++ [(⟨c.loc.getD "", c.slotId, s.counter⟩, v)])
      else .ok (.inRam v size, (s.counter : Int), s.total + size, s.fs) := by
  rw [tr_Output__pack]
  unfold pack
  cases spills c s.total size <;> simp

example : spills (mkCfg .output (some 0) (some "tmp") 7 0) 0 8 = true ∧ spills (mkCfg .output none none 7 0) 0 8 = false := by
  decide

end Finam.Props.C10
