import FinamModel.ConnectLemmas
/-!
  C06 — the iterative connect converges or reports exactly the stuck components.

  Model: `FinamModel/Connect.lean` (`connectCall` pieces `callCache` / `callItems` / `callDone` /
  `callStatus` mirror `ConnectHelper.connect`; `stepComp` / `iter` / `connectLoop` mirror
  `Composition._connect_components`; `linkInit` / `linkPull` mirror the initial pushes and the initial
  pull on one link).  `Derivable S` is the least fixed point of the dependency rules `pre S`
  (provision by the component itself + delivery by the other side).

  All theorems are for every composition spec `S` (any number of components, slots, rule shapes,
  caches on/off, links), every listing `order` and every state reachable by the loop.
-/
namespace Finam.Props.C06
open Finam Finam.Connect

/-- `order` lists exactly the components of `S` (repetitions allowed) -/
def IsListing (S : Spec) (order : List Nat) : Prop :=
  (∀ c ∈ order, c < S.comps.length) ∧ (∀ c, c < S.comps.length → c ∈ order)

instance (S : Spec) (order : List Nat) : Decidable (IsListing S order) := by
  unfold IsListing
  have : Decidable (∀ c, c < S.comps.length → c ∈ order) :=
    decidable_of_iff (∀ c ∈ List.range S.comps.length, c ∈ order) (by simp [List.mem_range])
  exact inferInstance

/-! ### termination -/

/-- **connect() always terminates**: the loop needs at most `#items + 2·#components + 1`
    iterations (`bound S`), whatever the listing order. -/
theorem loop_terminates (S : Spec) (order : List Nat) : ∀ st, connect S order ≠ .outOfFuel st :=
  loop_fuel order (bound S) (Connect.initState S) (init_linv S) (phi_init_lt_bound S)

/-- more generally: from every state satisfying the loop invariant, `phi + 1` iterations suffice -/
theorem loop_terminates_from (S : Spec) (order : List Nat) (st : LState) (h : LInv S st) :
    ∀ st', connectLoop S order (phi S st + 1) st ≠ .outOfFuel st' :=
  loop_fuel order _ st h (Nat.lt_succ_self _)

/-! ### soundness: only derivable items are ever exchanged -/

theorem final_linv (S : Spec) (order : List Nat) : LInv S (connect S order).state :=
  loop_linv order (bound S) (Connect.initState S) (init_linv S)

theorem exchanged_sound (S : Spec) (order : List Nat) : ∀ x ∈ (connect S order).state.done, Derivable S x :=
  justified_derivable S _ (final_linv S order).just

/-! ### CONNECTED iff complete, CONNECTING iff something new -/

/-- **A component is never reported connected while one of its declared exchanges is outstanding**
    (and is reported connected as soon as none is): for every call, on every state. -/
theorem connected_iff_complete (S : Spec) (c : Nat) (cs : CompSpec) (d cache : List Item) :
    callStatus c cs d (callDone S c cs d cache) = .connected ↔
      ∀ x ∈ itemsOf c cs, x ∈ callDone S c cs d cache :=
  callStatus_connected_iff c cs d _

/-- loop level: in the final state (any outcome) every component with status CONNECTED has all its
    items exchanged -/
theorem connected_complete_final (S : Spec) (order : List Nat) (c : Nat)
    (h : (connect S order).state.status[c]? = some .connected) :
    ∀ x ∈ items S c, x ∈ (connect S order).state.done :=
  (final_linv S order).conn c h

/-- **A connect call reports progress exactly when something new was exchanged**: CONNECTING iff
    the component is not complete and the exchanged set grew; CONNECTING_IDLE iff it is not complete and
    the exchanged set is unchanged. -/
theorem progress_iff_new (S : Spec) (c : Nat) (cs : CompSpec) (d cache : List Item) :
    (callStatus c cs d (callDone S c cs d cache) = .connecting ↔
      (¬ ∀ x ∈ itemsOf c cs, x ∈ callDone S c cs d cache) ∧ d.length < (callDone S c cs d cache).length) ∧
    (callStatus c cs d (callDone S c cs d cache) = .idle ↔
      (¬ ∀ x ∈ itemsOf c cs, x ∈ callDone S c cs d cache) ∧ callDone S c cs d cache = d) := by
  refine ⟨callStatus_connecting_iff c cs d _, ?_⟩
  rw [callStatus_idle_iff]
  constructor
  · rintro ⟨h1, h2⟩
    refine ⟨h1, ?_⟩
    have := run_length S (callItems c cs (callCache S c cs d cache)) d
    rw [callDone_eq] at h2 ⊢
    exact (run_stall S _ d (by omega)).1
  · rintro ⟨h1, h2⟩
    exact ⟨h1, by rw [h2]; omega⟩

/-- the exchanged set only grows, and what is new in a call are items of the calling component that
    were attempted -/
theorem call_monotone (S : Spec) (c : Nat) (cs : CompSpec) (d cache : List Item) :
    ∀ x ∈ d, x ∈ callDone S c cs d cache := callDone_mono S c cs d cache

/-! ### success ⇔ the least fixed point is total; the stall report is exact -/

/-- at a circular-coupling stop everything derivable has been exchanged -/
theorem stall_is_lfp {S : Spec} {order : List Nat} (hl : IsListing S order) {st : LState} {names : List Nat}
    (h : connect S order = .circular st names) : ∀ x, x ∈ st.done ↔ Derivable S x := by
  obtain ⟨hi, _, hst, _⟩ := loop_circular order _ _ _ _ (init_linv S) h
  intro x
  refine ⟨justified_derivable S _ hi.just x, closed_complete S st.done ?_ x⟩
  intro y hy hnd
  simp only [allItems, List.mem_flatMap, List.mem_range] at hy
  obtain ⟨c, hc, hy⟩ := hy
  rcases hst c (hl.2 c hc) hc with hconn | ⟨_, _, hstall⟩
  · exact absurd (hi.conn c hconn y hy) hnd
  · exact hstall y hy hnd

/-- after success everything declared has been exchanged, and all of it is derivable -/
theorem success_all_done {S : Spec} {order : List Nat} (hl : IsListing S order) {st : LState}
    (h : connect S order = .ok st) : ∀ x ∈ allItems S, x ∈ st.done := by
  obtain ⟨hi, hall⟩ := loop_ok order _ _ _ (init_linv S) h
  intro x hx
  simp only [allItems, List.mem_flatMap, List.mem_range] at hx
  obtain ⟨c, hc, hx⟩ := hx
  exact hi.conn c (hall c (hl.2 c hc) hc) x hx

/-- **connect() succeeds iff every declared exchange is derivable** (the least fixed point of the
    dependency rules is total) — for every listing order. -/
theorem success_iff_lfp_total {S : Spec} {order : List Nat} (hl : IsListing S order) :
    (∃ st, connect S order = .ok st) ↔ ∀ x ∈ allItems S, Derivable S x := by
  constructor
  · rintro ⟨st, h⟩ x hx
    obtain ⟨hi, _⟩ := loop_ok order _ _ _ (init_linv S) h
    exact justified_derivable S _ hi.just x (success_all_done hl h x hx)
  · intro hall
    cases h : connect S order with
    | ok st => exact ⟨st, rfl⟩
    | outOfFuel st => exact absurd h (loop_terminates S order st)
    | circular st names =>
      exfalso
      obtain ⟨hi, _, hst, hnot⟩ := loop_circular order _ _ _ _ (init_linv S) h
      have hlfp := stall_is_lfp hl h
      apply hnot
      intro c hc hlt
      rcases hst c hc hlt with hconn | ⟨_, hinc, _⟩
      · exact hconn
      · exfalso
        apply hinc
        intro x hx
        exact (hlfp x).mpr (hall x (mem_allItems hlt hx))

/-- a ranking of the items along the dependency rules (no cycles, all references valid) makes every
    item derivable -/
theorem acyclic_all_derivable (S : Spec) (rank : Item → Nat)
    (hwf : ∀ x ∈ allItems S, ∀ p ∈ pre S x, p ∈ allItems S ∧ rank p < rank x) :
    ∀ x ∈ allItems S, Derivable S x := by
  have : ∀ n, ∀ x ∈ allItems S, rank x < n → Derivable S x := by
    intro n
    induction n with
    | zero => intro x _ h; omega
    | succ n ih =>
      intro x hx _
      refine .mk x hx fun p hp => ?_
      have := hwf x hx p hp
      exact ih p this.1 (by omega)
  exact fun x hx => this (rank x + 1) x hx (Nat.lt_succ_self _)

/-- **If the initial data and metadata dependencies are acyclic, connect() ends with every component
    connected**, whatever the listing order. -/
theorem acyclic_success {S : Spec} {order : List Nat} (hl : IsListing S order) (rank : Item → Nat)
    (hwf : ∀ x ∈ allItems S, ∀ p ∈ pre S x, p ∈ allItems S ∧ rank p < rank x) :
    ∃ st, connect S order = .ok st ∧ (∀ x ∈ allItems S, x ∈ st.done) ∧
      ∀ c, c < S.comps.length → st.status[c]? = some .connected := by
  obtain ⟨st, h⟩ := (success_iff_lfp_total hl).mpr (acyclic_all_derivable S rank hwf)
  exact ⟨st, h, success_all_done hl h,
    fun c hc => (loop_ok order _ _ _ (init_linv S) h).2 c (hl.2 c hc) hc⟩

/-- **Otherwise it raises a circular-coupling error that lists exactly the components that could not
    complete**: the reported list is the listing order filtered by "has an item outside the least fixed
    point". -/
theorem stuck_report_exact {S : Spec} {order : List Nat} (hl : IsListing S order) {st : LState}
    {names : List Nat} (h : connect S order = .circular st names) :
    (∀ c, c ∈ names ↔ c ∈ order ∧ ∃ x ∈ items S c, ¬ Derivable S x) ∧
    names = order.filter (fun c => !(holds st.done (items S c))) ∧ names ≠ [] := by
  obtain ⟨hi, hn, hst, hnot⟩ := loop_circular order _ _ _ _ (init_linv S) h
  have hlfp := stall_is_lfp hl h
  have hchar : ∀ c ∈ order, (st.status[c]? != some Status.connected) = !(holds st.done (items S c)) := by
    intro c hc
    have hlt := hl.1 c hc
    rcases hst c hc hlt with hconn | ⟨hidle, hinc, _⟩
    · have : holds st.done (items S c) = true := (holds_iff _ _).mpr (hi.conn c hconn)
      simp [hconn, this]
    · have : holds st.done (items S c) = false := by
        cases hh : holds st.done (items S c) with
        | false => rfl
        | true => exact absurd ((holds_iff _ _).mp hh) hinc
      simp [hidle, this]
  have hnames : names = order.filter (fun c => !(holds st.done (items S c))) := by
    rw [hn]; unfold unconnectedOf
    exact List.filter_congr hchar
  refine ⟨?_, hnames, ?_⟩
  · intro c
    rw [hnames, List.mem_filter]
    constructor
    · rintro ⟨hc, hh⟩
      refine ⟨hc, ?_⟩
      have : ¬ ∀ x ∈ items S c, x ∈ st.done := by
        intro hall
        rw [(holds_iff _ _).mpr hall] at hh; cases hh
      apply Classical.byContradiction
      intro hno
      apply this
      intro x hx
      apply Classical.byContradiction
      intro hxd
      exact hno ⟨x, hx, fun hd => hxd ((hlfp x).mpr hd)⟩
    · rintro ⟨hc, x, hx, hnd⟩
      refine ⟨hc, ?_⟩
      cases hh : holds st.done (items S c) with
      | false => rfl
      | true => exact absurd ((hlfp x).mp ((holds_iff _ _).mp hh x hx)) hnd
  · intro hnil
    apply hnot
    intro c hc hlt
    have : c ∉ names := by rw [hnil]; simp
    rw [hn] at this
    simp only [unconnectedOf, List.mem_filter, hc, true_and] at this
    simpa using this

/-! ### order independence (used by C05) -/

def Outcome.isOk : Outcome → Bool
  | .ok _ => true
  | _ => false

/-- **Confluence**: for two listings of the same composition the connect phase succeeds or fails alike,
    ends with the same exchanged set (the least fixed point) and, on failure, reports the same set of
    components. -/
theorem confluent {S : Spec} {o₁ o₂ : List Nat} (h₁ : IsListing S o₁) (h₂ : IsListing S o₂) :
    Outcome.isOk (connect S o₁) = Outcome.isOk (connect S o₂) ∧
    (∀ x, x ∈ (connect S o₁).state.done ↔ x ∈ (connect S o₂).state.done) ∧
    (∀ st₁ n₁ st₂ n₂, connect S o₁ = .circular st₁ n₁ → connect S o₂ = .circular st₂ n₂ →
      ∀ c, c ∈ n₁ ↔ c ∈ n₂) := by
  have key : ∀ {o : List Nat}, IsListing S o → ∀ x, x ∈ (connect S o).state.done ↔ Derivable S x := by
    intro o ho x
    cases h : connect S o with
    | ok st =>
      refine ⟨?_, fun hd => ?_⟩
      · have := exchanged_sound S o x; rw [h] at this; exact this
      · cases hd with
        | mk _ hmem _ => exact success_all_done ho h x hmem
    | circular st names => exact stall_is_lfp ho h x
    | outOfFuel st => exact absurd h (loop_terminates S o st)
  refine ⟨?_, fun x => (key h₁ x).trans (key h₂ x).symm, ?_⟩
  · have e₁ := success_iff_lfp_total h₁
    have e₂ := success_iff_lfp_total h₂
    cases c₁ : connect S o₁ <;> cases c₂ : connect S o₂ <;> simp only [Outcome.isOk] <;>
      first
        | rfl
        | (exfalso; exact absurd c₁ (loop_terminates S o₁ _))
        | (exfalso; exact absurd c₂ (loop_terminates S o₂ _))
        | (exfalso
           have := e₂.mp ⟨_, c₂⟩
           obtain ⟨st, hst⟩ := e₁.mpr this
           rw [c₁] at hst; cases hst)
        | (exfalso
           have := e₁.mp ⟨_, c₁⟩
           obtain ⟨st, hst⟩ := e₂.mpr this
           rw [c₂] at hst; cases hst)
  · intro st₁ n₁ st₂ n₂ c₁ c₂ c
    rw [(stuck_report_exact h₁ c₁).1 c, (stuck_report_exact h₂ c₂).1 c]
    constructor
    · rintro ⟨hc, hx⟩; exact ⟨h₂.2 c (h₁.1 c hc), hx⟩
    · rintro ⟨hc, hx⟩; exact ⟨h₁.2 c (h₂.1 c hc), hx⟩

/-! ### the time level: initial data, initial pulls, no foreign errors -/

/-- domain of the time-level clauses: no component starts before the composition, delays on the
    links are non-negative -/
def SpecOk (S : Spec) : Prop :=
  ∀ cs ∈ S.comps, S.start ≤ cs.start ∧ ∀ x ∈ cs.ins, ChainOk x.chain

theorem inp_mem {S : Spec} {c i : Nat} {x : InSpec} (h : S.inp? c i = some x) :
    ∃ cs ∈ S.comps, x ∈ cs.ins := by
  unfold Spec.inp? at h
  split at h
  · rename_i cs hcs
    exact ⟨cs, List.mem_of_getElem? hcs, List.mem_of_getElem? h⟩
  · cases h

/-- on every link of a composition in the domain the initial pushes raise nothing and the initial pull
    returns the producer's value -/
theorem link_ok {S : Spec} (h : SpecOk S) {c i : Nat} {x : InSpec} {cs : CompSpec} {y : OutSpec}
    (hx : S.inp? c i = some x) (hcs : S.comps[x.src.1]? = some cs) :
    (∃ ch, linkInit x.chain S.start cs.start y.val = .ok ch) ∧
    linkPull x.chain S.start cs.start y.val = .ok y.val := by
  obtain ⟨cs', hcs', hx'⟩ := inp_mem hx
  have hc := (h cs' hcs').2 x hx'
  have hs := (h cs (List.mem_of_getElem? hcs)).1
  obtain ⟨ch, e, _⟩ := linkInit_ok y.val hs hc
  exact ⟨⟨ch, e⟩, linkPull_ok y.val hs hc⟩

theorem foreign_none {S : Spec} (h : SpecOk S) : ∀ x, foreign S x = none := by
  intro x
  cases x with
  | dataPushed c o =>
    simp only [foreign]
    split
    · rename_i cs y hcs hy
      rw [List.findSome?_eq_none_iff]
      intro t _
      split
      · rename_i x hx
        have hsrc : ∃ ch, linkInit x.chain S.start cs.start y.val = .ok ch := by
          obtain ⟨cs', hcs', hx'⟩ := inp_mem hx
          obtain ⟨ch, e, _⟩ := linkInit_ok y.val (h cs (List.mem_of_getElem? hcs)).1 ((h cs' hcs').2 x hx')
          exact ⟨ch, e⟩
        obtain ⟨ch, e⟩ := hsrc
        rw [e]
      · rfl
    · rfl
  | inData c i =>
    simp only [foreign]
    split
    · rename_i x hx
      split
      · rename_i cs y hcs hy
        rw [(link_ok h hx hcs (y := y)).2]
      · rfl
    · rfl
  | inInfo c i => rfl
  | outInfoPushed c o => rfl
  | outInfoRead c o => rfl

theorem firstForeign_none {S : Spec} (h : ∀ x, foreign S x = none) :
    ∀ (log acc : List LogEntry), firstForeign S acc log = none := by
  intro log
  induction log with
  | nil => intro acc; rfl
  | cons e es ih =>
    intro acc
    have : e.fired.findSome? (foreign S) = none := List.findSome?_eq_none_iff.mpr fun x _ => h x
    simp only [firstForeign, this]
    exact ih _

/-- **No call raises anything but the retry signal**: in the domain `SpecOk` (links carrying any chain
    of pass-through, push-based caching and delay adapters, start times differing) the connect phase
    with errors is the error-free loop — its outcome is success or the circular-coupling error. -/
theorem connect_no_foreign_error {S : Spec} (h : SpecOk S) (order : List Nat) :
    (∀ e log, connectE S order ≠ .error e log) ∧ (∀ st, connectE S order ≠ .outOfFuel st) ∧
    (∀ st, connectE S order = .ok st ↔ connect S order = .ok st) ∧
    (∀ st n, connectE S order = .circular st n ↔ connect S order = .circular st n) := by
  have hf := firstForeign_none (foreign_none h) (connect S order).state.log []
  unfold connectE
  rw [hf]
  cases hc : connect S order with
  | ok st => simp
  | circular st n => simp
  | outOfFuel st => exact absurd hc (loop_terminates S order st)

/-- **After success every output's initial data is published for the composition start time as well
    as the producer's own start time.** -/
theorem initial_data_published {S : Spec} {order : List Nat} (hl : IsListing S order) {st : LState}
    (h : connect S order = .ok st) {c o : Nat} {cs : CompSpec} (hc : S.comps[c]? = some cs)
    (ho : o < cs.outs.length) :
    S.start ∈ published S st.done c o ∧ cs.start ∈ published S st.done c o ∧
    (∀ t ∈ published S st.done c o, t = S.start ∨ t = cs.start) := by
  have hd : Item.dataPushed c o ∈ st.done :=
    success_all_done hl h _ (mem_allItems_iff.mpr ⟨c, cs, hc,
      mem_itemsOf.mpr (Or.inr (Or.inr (Or.inr (Or.inr ⟨o, ho, rfl⟩))))⟩)
  have : published S st.done c o = pushTimes S.start cs.start := by
    simp [published, hc, hd]
  rw [this]
  unfold pushTimes
  split
  · simp
  · rename_i he
    have : cs.start = S.start := Classical.byContradiction fun hne => he hne
    simp [this]

/-- what the output holds after the initial push are entries with the initial value at exactly these
    times -/
theorem initial_entries (s p v : Int) :
    (pushEntries s p v).map (·.t) = pushTimes s p ∧ ∀ e ∈ pushEntries s p v, e.v = v := by
  unfold pushEntries
  refine ⟨by simp [List.map_map, Function.comp_def], ?_⟩
  intro e he
  simp only [List.mem_map] at he
  obtain ⟨t, _, rfl⟩ := he
  rfl

/-- **After success every requested initial pull has delivered the producer's initial value.** -/
theorem initial_pull_value {S : Spec} (hs : SpecOk S) {order : List Nat} (hl : IsListing S order) {st : LState}
    (h : connect S order = .ok st) {c i : Nat} {x : InSpec} {cs : CompSpec} {y : OutSpec}
    (hx : S.inp? c i = some x) (hp : x.pull = true)
    (hcs : S.comps[x.src.1]? = some cs) (hy : S.out? x.src.1 x.src.2 = some y) :
    Item.inData c i ∈ st.done ∧ pulledValue S c i = some y.val := by
  constructor
  · apply success_all_done hl h
    unfold Spec.inp? at hx
    split at hx
    · rename_i cs' hcs'
      exact mem_allItems_iff.mpr ⟨c, cs', hcs', mem_itemsOf.mpr (Or.inr (Or.inr (Or.inl ⟨i, x, hx, hp, rfl⟩)))⟩
    · cases hx
  · simp only [pulledValue, hx, hcs, hy, (link_ok hs hx hcs (y := y)).2]

/-! ### non-vacuity: concrete compositions -/

/-- chain `A >> B >> C`: `A.Out` declared; `B.In` declared and pulled, `B.Out` info by rule
    `FromInput(In)`, data once the pull is done; `C.In` info passed to `try_connect`, pulled, behind
    `DelayFixed(1) >> LinearTime`; `B` starts 3 after the composition, `C` has no cache -/
def exChain : Spec := ⟨[
  ⟨[], [⟨.declared, [], 7⟩], true, 0⟩,
  ⟨[⟨(0, 0), .declared, true, []⟩], [⟨.rule [.inInfo 0], [.inData 0], 8⟩], true, 3⟩,
  ⟨[⟨(1, 0), .provided [], true, [.cache, .dfix 1]⟩], [], false, 0⟩], 0⟩

/-- ring of initial pulls: each component publishes only after its own pull; a bystander `C` -/
def exRing : Spec := ⟨[
  ⟨[⟨(1, 0), .declared, true, []⟩], [⟨.declared, [.inData 0], 1⟩], true, 0⟩,
  ⟨[⟨(0, 0), .declared, true, []⟩], [⟨.declared, [.inData 0], 2⟩], true, 0⟩,
  ⟨[], [⟨.declared, [], 3⟩], true, 0⟩], 0⟩

def Outcome.names : Outcome → List Nat
  | .circular _ n => n
  | _ => []

example : IsListing exChain [2, 1, 0] ∧ Outcome.isOk (connect exChain [2, 1, 0]) = true ∧
    (connect exChain [2, 1, 0]).state.status = [.connected, .connected, .connected] ∧
    (connect exChain [2, 1, 0]).state.log.length = 11 := by decide

/-- ranking for `exChain`: the position at which the item is exchanged in one successful run -/
def exRank (x : Item) : Nat := ((connect exChain [0, 1, 2]).state.done.reverse).idxOf x

example : ∀ x ∈ allItems exChain, ∀ p ∈ pre exChain x, p ∈ allItems exChain ∧ exRank p < exRank x := by
  decide

example : IsListing exRing [0, 1, 2] ∧ IsListing exRing [2, 1, 0] ∧
    Outcome.isOk (connect exRing [0, 1, 2]) = false ∧
    Outcome.names (connect exRing [0, 1, 2]) = [0, 1] ∧ Outcome.names (connect exRing [2, 1, 0]) = [1, 0] ∧
    (connect exRing [0, 1, 2]).state.status = [.idle, .idle, .connected] := by decide

/-- a call that exchanges something and one that does not (second call of `B` in `exChain` under the
    order `[2, 1, 0]`: the second call of `C` exchanges nothing, `B` exchanges its in-info, `A` completes) -/
example : ((connect exChain [2, 1, 0]).state.log.map fun e => (e.comp, e.status, e.fired.length)).take 7 =
    [(2, .connecting, 0), (1, .connecting, 0), (0, .connecting, 0),
     (2, .idle, 0), (1, .connecting, 1), (0, .connected, 2), (2, .idle, 0)] := by decide

example : SpecOk exChain := by
  intro cs hcs
  simp only [exChain, List.mem_cons, List.not_mem_nil, or_false] at hcs
  rcases hcs with rfl | rfl | rfl <;> refine ⟨by decide, ?_⟩ <;> intro x hx <;> simp at hx
  · subst hx; intro a ha; simp at ha
  · subst hx; intro a ha; simp at ha; rcases ha with rfl | rfl <;> simp

/-- the link of `exChain` with the two adapters: producer `B` starts at 3, the composition at 0 —
    two publications, the caching adapter buffers both, the pull at 0 returns `B`'s value -/
example : pushTimes 0 3 = [0, 3] ∧ linkPull [.cache, .dfix 1] 0 3 8 = .ok 8 ∧
    pulledValue exChain 2 0 = some 8 ∧ published exChain (connect exChain [2, 1, 0]).state.done 1 0 = [0, 3] ∧
    Outcome.isOk (connect exChain [2, 1, 0]) = true := by decide

/-- the hypotheses of `SpecOk` are needed, and the model does produce foreign errors: a negative
    delay asks the output for a time after the newest publication; a producer starting before the
    composition is asked for a time before its oldest one -/
example : linkInit [.cache, .dfix (-1)] 0 3 7 = .error .timeErr ∧ linkPull [] 3 0 7 = .error .timeErr := by
  decide

end Finam.Props.C06
