import FinamModel.Lifecycle
import FinamModel.Props.TrCommon
import FinamModel.Translated.Component_initialize
import FinamModel.Translated.Component_connect
import FinamModel.Translated.Component_validate
import FinamModel.Translated.Component_update
import FinamModel.Translated.Component_finalize
import FinamModel.Translated.check_status
import FinamModel.Translated.site_created
import FinamModel.Translated.site_initialize
import FinamModel.Translated.site_connect
import FinamModel.Translated.site_validate
import FinamModel.Translated.site_updated
import FinamModel.Translated.site_finalize
/-!
  C03, life cycle — the status automaton `lcStep` (what `Props/C03.lean` reasons about) against the *translated*
  `Component.initialize / connect / validate / update / finalize` (`sdk/component.py`) and the driver's
  `_check_status` calls with their literal status lists (`schedule.py`, slices around each call site), all
  regenerated from the source on every run.

  The user hooks (`_initialize`, `_connect`, …) are a parameter: `none` — the hook leaves the status alone — or
  `some s` — it sets it (as `try_connect` does inside `_connect`).
-/
namespace Finam.Props.C03
open Finam

/-- `ComponentStatus` values as the code has them -/
def _root_.Finam.St.code : St → Int
  | .created => 0 | .initialized => 1 | .connecting => 2 | .connectingIdle => 3 | .connected => 4
  | .validated => 5 | .updated => 6 | .finished => 7 | .finalized => 8 | .failed => 9

theorem _root_.Finam.St.code_inj : ∀ a b : St, a.code = b.code → a = b := by
  intro a b h; cases a <;> cases b <;> first | rfl | (simp [St.code] at h)

/-- the outcome of a model step as the code reports it: the new status, or a status error -/
def expect : Option St → Except Err Int
  | some s => .ok s.code
  | none => .error .statusErr

/-- what the driver does for one life-cycle call on a component in status `st` (the translated call sites) -/
def codeCall (st : Int) : Call → Except Err Int
  | .initialize => do Tr.site_created st; Tr.site_initialize st none
  | .connect r => Tr.site_connect st (some r.code)
  | .validate => Tr.site_validate st none
  | .update => do let st' ← Tr.Component_update st none; Tr.site_updated st'; pure st'
  | .finalize => Tr.site_finalize st none

/-- **initialize**: exactly the model's step, for every status -/
theorem tr_site_initialize (st : St) : codeCall st.code .initialize = expect (lcStep st .initialize) := by
  cases st <;> simp [codeCall, Tr.site_created, Tr.site_initialize, Tr.Component_initialize, Tr.check_status, Py.hook,
    St.code, lcStep, expect, bind, Except.bind, pure, Except.pure, throw, throwThe, MonadExceptOf.throw]

/-- **finalize**: exactly the model's step, for every status -/
theorem tr_site_finalize (st : St) : codeCall st.code .finalize = expect (lcStep st .finalize) := by
  cases st <;> simp [codeCall, Tr.site_finalize, Tr.site_finalize.join1, Tr.Component_finalize, Tr.check_status, Py.hook,
    St.code, lcStep, expect, bind, Except.bind, pure, Except.pure, throw, throwThe, MonadExceptOf.throw]

/-- **connect**: on the statuses in which the connect loop calls it (`INITIALIZED`: the ping call; `CONNECTING`,
    `CONNECTING_IDLE`: `_connect` ends in whatever `try_connect` set) exactly the model's step -/
theorem tr_site_connect (st r : St) (h : st = .initialized ∨ st = .connecting ∨ st = .connectingIdle) :
    codeCall st.code (.connect r) = expect (lcStep st (.connect r)) := by
  rcases h with h | h | h <;> subst h <;> cases r <;>
    simp [codeCall, Tr.site_connect, Tr.Component_connect, Tr.check_status, Py.hook,
      St.code, lcStep, expect, bind, Except.bind, pure, Except.pure, throw, throwThe, MonadExceptOf.throw]

/-- **validate**: the code turns every status but FAILED into VALIDATED; the model's step is its restriction to
    CONNECTED (the connect loop ends only when every component is CONNECTED: `tr_connect_flags`) -/
theorem tr_site_validate (st : St) :
    codeCall st.code .validate = if st = .failed then .error .statusErr else .ok St.validated.code := by
  cases st <;> simp [codeCall, Tr.site_validate, Tr.Component_validate, Tr.check_status, Py.hook,
    St.code, bind, Except.bind, pure, Except.pure, throw, throwThe, MonadExceptOf.throw]

/-- **update**: `update()` sets UPDATED unless the status is FAILED or FINALIZED, and the run loop accepts VALIDATED
    or UPDATED afterwards -/
theorem tr_site_update (st : St) :
    codeCall st.code .update = if st = .failed ∨ st = .finalized then .error .statusErr else .ok St.updated.code := by
  cases st <;> simp [codeCall, Tr.site_updated, Tr.Component_update, Tr.Component_update.join1, Tr.check_status, Py.hook,
    St.code, bind, Except.bind, pure, Except.pure, throw, throwThe, MonadExceptOf.throw]

/-- one call: whenever the model's automaton accepts it, the code accepts it with the same new status -/
theorem code_step_of_model (st st' : St) (c : Call) (h : lcStep st c = some st') :
    codeCall st.code c = .ok st'.code := by
  cases c with
  | «initialize» => rw [tr_site_initialize, h]; rfl
  | finalize => rw [tr_site_finalize, h]; rfl
  | connect r =>
    have hd : st = .initialized ∨ st = .connecting ∨ st = .connectingIdle := by
      cases st <;> simp [lcStep] at h ⊢
    rw [tr_site_connect st r hd, h]; rfl
  | validate =>
    rw [tr_site_validate]
    cases st <;> simp [lcStep] at h ⊢
    subst h; rfl
  | update =>
    rw [tr_site_update]
    cases st <;> simp [lcStep] at h ⊢ <;> subst h <;> rfl

/-- the code's view of a whole call sequence on one component -/
def codeRunCalls : Int → List Call → Except Err Int
  | st, [] => .ok st
  | st, c :: cs => do let st' ← codeCall st c; codeRunCalls st' cs

/-- **C03 on the code — life cycle**: every call sequence the status automaton accepts is accepted by the translated
    `Component` methods and driver checks, with the same status at every point.  With `lifecycle_order` (the driver's
    call order projects to `initialize connect+ validate update* finalize` and is accepted by the automaton) the
    components walk that life cycle on the code as regenerated in this run. -/
theorem code_lifecycle_run : ∀ (cs : List Call) (st st' : St), lcRun st cs = some st' →
    codeRunCalls st.code cs = .ok st'.code := by
  intro cs
  induction cs with
  | nil => intro st st' h; simp [lcRun] at h; subst h; rfl
  | cons c cs ih =>
    intro st st' h
    simp only [lcRun] at h
    cases hs : lcStep st c with
    | none => simp [hs] at h
    | some s1 =>
      simp only [hs] at h
      simp [codeRunCalls, code_step_of_model st s1 c hs, bind, Except.bind, ih s1 st' h]

/-- non-vacuity: the full life cycle with two connect rounds and two updates, on the code -/
example : codeRunCalls St.created.code
    [.initialize, .connect .connecting, .connect .connectingIdle, .connect .connected, .validate, .update, .update, .finalize]
    = .ok St.finalized.code := by
  apply code_lifecycle_run; decide

/-- fail-stop: a hook that sets FAILED makes the driver's status check raise, at every site -/
theorem code_failed_hook_raises (st : St) :
    Tr.site_initialize st.code (some St.failed.code) = .error .statusErr ∧
    Tr.site_validate st.code (some St.failed.code) = .error .statusErr ∧
    (st ≠ .initialized → Tr.site_connect st.code (some St.failed.code) = .error .statusErr) ∧
    (do let s ← Tr.Component_update st.code (some St.failed.code); Tr.site_updated s) = .error .statusErr := by
  refine ⟨?_, ?_, ?_, ?_⟩ <;> cases st <;>
    simp [Tr.site_initialize, Tr.Component_initialize, Tr.site_validate, Tr.Component_validate, Tr.site_connect,
      Tr.Component_connect, Tr.site_updated, Tr.Component_update, Tr.Component_update.join1, Tr.check_status, Py.hook,
      St.code, bind, Except.bind, pure, Except.pure, throw, throwThe, MonadExceptOf.throw]

/-- the recorded finding `finished-status-overwritten` (F21) on the translated code: an `_update` hook that declares the
    component FINISHED is overwritten with UPDATED by `update()` -/
theorem code_finished_overwritten (st : St) (h : st = .validated ∨ st = .updated) :
    Tr.Component_update st.code (some St.finished.code) = .ok St.updated.code := by
  rcases h with h | h <;> subst h <;>
    simp [Tr.Component_update, Tr.Component_update.join1, Py.hook, St.code, bind, Except.bind, pure, Except.pure]

end Finam.Props.C03
