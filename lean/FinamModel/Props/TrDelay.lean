import FinamModel.Sched
import FinamModel.Props.C13
import FinamModel.Translated.DelayFixed_with_delay
import FinamModel.Translated.DelayToPush_with_delay
import FinamModel.Translated.DelayToPull_with_delay
import FinamModel.Translated.DelayToPull__pulled
import FinamModel.Translated.TimeDelayAdapter_get_info
import FinamModel.Translated.TimeDelayAdapter_get_data
/-
  Equivalence of the *translated* delay-adapter functions (regenerated from `finam/adapters/time.py` by
  `harness/py2lean.py` on every run) with the hand-written model the C13 / C01 / C02 / C04 theorems are about.
  A change to `with_delay` / `_pulled` in the source changes the generated definition and breaks the
  corresponding theorem here, for whatever input distinguishes them.
-/
namespace Finam.Props.C13
open Finam

/-- `DelayFixed.with_delay` is `Ad.withDelay (.dfix d init)`, for every delay, initial time and request. -/
theorem tr_DelayFixed_with_delay (dp : DP) (d init t : Int) :
    Tr.DelayFixed_with_delay d init t = .ok ((Ad.dfix d init).withDelay dp t) := by
  simp only [Tr.DelayFixed_with_delay, Ad.withDelay, Py.imin, imin]
  by_cases h : t - d < init
  · by_cases h2 : init < t
    · have : ¬ t ≤ init := by omega
      simp [h, h2, this]
    · have : t ≤ init := by omega
      simp [h, h2, this]
  · simp [h]

/-- `DelayToPull.with_delay` reads the oldest remembered request (seeding the history with the initial time
    when it is empty), subtracts the extra delay, clamps at the initial time and never moves a request forward:
    the model's `Ad.withDelay (.dpull …)` on the request table, and the history is left seeded. -/
theorem tr_DelayToPull_with_delay (dp : DP) (id n : Nat) (add init t : Int) :
    Tr.DelayToPull_with_delay (dp.getD id []) init add t
      = .ok ((Ad.dpull id n add init).withDelay dp t,
             if (dp.getD id []).isEmpty then [init] else dp.getD id []) := by
  simp only [Tr.DelayToPull_with_delay, Ad.withDelay]
  cases hp : dp.getD id [] with
  | nil =>
    simp [Tr.DelayToPull_with_delay.join1, Tr.DelayToPull_with_delay.join2, Py.imin, imin, Py.idx, bind, Except.bind, pure, Except.pure]
    by_cases h : init - add < init
    · simp [h]; by_cases h2 : init < t
      · have : ¬ t ≤ init := by omega
        simp [h2, this]
      · have : t ≤ init := by omega
        simp [h2, this]
    · simp [h]; by_cases h2 : init - add < t
      · have : ¬ t ≤ init - add := by omega
        simp [h2, this]
      · have : t ≤ init - add := by omega
        simp [h2, this]
  | cons f rest =>
    have hl : ¬ (Py.len rest + 1 = 0) := by have := Py.len_nonneg rest; omega
    simp [hl, Tr.DelayToPull_with_delay.join1, Tr.DelayToPull_with_delay.join2, Py.imin, imin, bind, Except.bind, pure, Except.pure]
    by_cases h : f - add < init
    · simp [h]; by_cases h2 : init < t
      · have : ¬ t ≤ init := by omega
        simp [h2, this]
      · have : t ≤ init := by omega
        simp [h2, this]
    · simp [h]; by_cases h2 : f - add < t
      · have : ¬ t ≤ f - add := by omega
        simp [h2, this]
      · have : t ≤ f - add := by omega
        simp [h2, this]

/-- the `while len(self._pulls) > self.steps: self._pulls.pop(0)` loop drops from the front down to `steps`
    entries (and the fuel `len + 1` given to it is enough) -/
theorem pulled_while (n : Nat) : ∀ (fuel : Nat) (l : List Int), l.length < fuel →
    Tr.DelayToPull__pulled.while1 l (n : Int) fuel = .ok (trimTo n l) := by
  intro fuel
  induction fuel with
  | zero => intro l h; omega
  | succ fuel ih =>
    intro l h
    unfold Tr.DelayToPull__pulled.while1
    by_cases hc : Py.len l > (n : Int)
    · cases l with
      | nil => simp [Py.len] at hc; omega
      | cons x xs =>
        have hx : xs.length < fuel := by simp at h; omega
        have hxs : (xs.length + 1 - n) = (xs.length - n) + 1 := by simp [Py.len] at hc; omega
        have hc' : ¬ (Py.len xs + 1 ≤ (n : Int)) := by simp [Py.len] at hc ⊢; omega
        simp [hc', Py.pop0, bind, Except.bind, ih xs hx, trimTo, hxs]
    · have : l.length - n = 0 := by simp [Py.len] at hc; omega
      simp [hc, trimTo, this, pure, Except.pure]

/-- `DelayToPull._pulled(time)`: append the request, keep the last `steps` -/
theorem tr_DelayToPull__pulled (n : Nat) (l : List Int) (t : Int) :
    Tr.DelayToPull__pulled l (n : Int) t = .ok (trimTo n (l ++ [t])) := by
  simp only [Tr.DelayToPull__pulled]
  apply pulled_while
  simp [Py.len]

/-- `DelayToPush.with_delay`: the initial time before the first notification, afterwards `min(t, newest)`. -/
theorem tr_DelayToPush_with_delay (push : Option Int) (init t : Int) :
    Tr.DelayToPush_with_delay push init t
      = .ok (match push with | none => init | some p => imin t p) := by
  cases push with
  | none => simp [Tr.DelayToPush_with_delay]
  | some p =>
    simp only [Tr.DelayToPush_with_delay, imin]
    by_cases h : t > p
    · have : ¬ t ≤ p := by omega
      simp [h, this, Py.unwrap, bind, Except.bind]
    · have : t ≤ p := by omega
      simp [h, this, Py.unwrap, bind, Except.bind]

/-- **`TimeDelayAdapter.get_info`**: the time a delay adapter clamps its shifted requests at (`initial_time`, the
    `init` of `Ad.dfix` / `Ad.dpull` in the model) is the time of the *source's* metadata — whatever time the requesting
    side states, and whatever was stored before -/
theorem tr_TimeDelayAdapter_get_info (old src req : Option Int) :
    Tr.TimeDelayAdapter_get_info old src req = .ok src := by
  simp [Tr.TimeDelayAdapter_get_info, pure, Except.pure]

/-! ### the property, stated on the regenerated definitions

The theorems above say "translated code = model"; `Props/C13.lean` says "model satisfies the property".  Composed:
the property as a statement about the definitions that were produced from `/repo/src/finam/adapters/time.py` in this run. -/

/-- **C13, fixed delay, on the code**: a request for `t ≥ start` is forwarded as `max (t - delay) start` -/
theorem code_DelayFixed_request (d init t : Int) (hd : 0 ≤ d) (ht : init ≤ t) :
    Tr.DelayFixed_with_delay d init t = .ok (max (t - d) init) := by
  rw [tr_DelayFixed_with_delay [] d init t, dfix_request [] d init t hd ht]

/-- **C13, delay to push, on the code**: `min t (newest publication)` once something was published -/
theorem code_DelayToPush_request (newest init t : Int) :
    Tr.DelayToPush_with_delay (some newest) init t = .ok (min t newest) := by
  rw [tr_DelayToPush_with_delay]
  simp only [imin]
  by_cases h : t ≤ newest
  · simp [h, Int.min_eq_left h]
  · have h' : newest ≤ t := by omega
    simp [h, Int.min_eq_right h']

/-- one request through the translated `DelayToPull`: `with_delay` (which seeds the history), then `_pulled` -/
def codePullStep (n : Nat) (init add : Int) (tab : List Int) (t : Int) : Except Err (Int × List Int) := do
  let (fwd, tab1) ← Tr.DelayToPull_with_delay tab init add t
  let tab2 ← Tr.DelayToPull__pulled tab1 (n : Int) t
  pure (fwd, tab2)

/-- the request history of the translated adapter after the requests `h` -/
def codeTable (n : Nat) (init add : Int) : List Int → List Int → Except Err (List Int)
  | tab, [] => .ok tab
  | tab, t :: h => do
    let (_, tab') ← codePullStep n init add tab t
    codeTable n init add tab' h

theorem codePullStep_eq (n : Nat) (init add : Int) (tab : List Int) (t : Int) :
    codePullStep n init add tab t =
      .ok ((Ad.dpull 0 n add init).withDelay [tab] t, trimTo n ((if tab.isEmpty then [init] else tab) ++ [t])) := by
  unfold codePullStep
  have h1 := tr_DelayToPull_with_delay [tab] 0 n add init t
  simp only [List.getD_cons_zero] at h1
  simp [h1, tr_DelayToPull__pulled]

theorem codeTable_eq (n : Nat) (init add : Int) : ∀ (h tab : List Int),
    codeTable n init add tab h =
      .ok (h.foldl (fun tab t => trimTo n ((if tab.isEmpty then [init] else tab) ++ [t])) tab) := by
  intro h
  induction h with
  | nil => intro tab; rfl
  | cons t h ih => intro tab; simp [codeTable, codePullStep_eq, ih]

/-- **C13, delay to pull, on the code**: after any request history `h` through the translated `with_delay` /
    `_pulled`, a request for `t` is forwarded as the time of the `n`-th previous request minus the extra delay, not
    before the start time and never after `t` -/
theorem code_DelayToPull_request (n : Nat) (hn : 0 < n) (init add : Int) (h : List Int) (t : Int) :
    ∃ tab, codeTable n init add [] h = .ok tab ∧
      ∃ tab', Tr.DelayToPull_with_delay tab init add t = .ok (imin t (max (nthPrev n init h - add) init), tab') := by
  refine ⟨tableAfter n init h, by rw [codeTable_eq]; rfl, ?_⟩
  have h1 := tr_DelayToPull_with_delay [tableAfter n init h] 0 n add init t
  simp only [List.getD_cons_zero] at h1
  have h2 := dpull_request [tableAfter n init h] 0 n hn add init t h (by simp)
  rw [h2] at h1
  exact ⟨_, h1⟩

/-- **`TimeDelayAdapter.get_data`**: the source is asked exactly once, for `with_delay(time)` and on behalf of the
    requesting end point; the *original* request time is what `_pulled` gets to remember; the answer is passed on -/
theorem tr_TimeDelayAdapter_get_data {α} (reqs : List (Int × Nat)) (pulled : List Int) (t : Int) (target : Nat)
    (wd : Int → Except Err Int) (ans : α) :
    Tr.TimeDelayAdapter_get_data reqs pulled t target wd ans =
      (match wd t with
       | .error e => .error e
       | .ok t' => .ok (ans, pulled ++ [t], reqs ++ [(t', target)])) := by
  unfold Tr.TimeDelayAdapter_get_data Tr.TimeDelayAdapter_get_data.join1
  cases wd t with
  | error e => simp [bind, Except.bind]
  | ok t' => simp [Py.recordReq, Py.recordPush, bind, Except.bind, pure, Except.pure]

/-- **the time that reaches the source of a fixed-delay adapter, on the code**: a request for `t ≥ start` through the
    translated `get_data` with the translated `DelayFixed.with_delay` asks the source for `max (t - delay) start` — the
    time the driver checks (`tr_DelayFixed_with_delay` is also what the translated `_find_dependencies` is evaluated with) -/
theorem code_DelayFixed_get_data {α} (reqs : List (Int × Nat)) (pulled : List Int) (d init t : Int) (target : Nat) (ans : α)
    (hd : 0 ≤ d) (ht : init ≤ t) :
    Tr.TimeDelayAdapter_get_data reqs pulled t target (Tr.DelayFixed_with_delay d init) ans =
      .ok (ans, pulled ++ [t], reqs ++ [(max (t - d) init, target)]) := by
  rw [tr_TimeDelayAdapter_get_data, code_DelayFixed_request d init t hd ht]

/-- two consumers on one fixed-delay adapter: every request is shifted on its own — an earlier request after a later one
    is forwarded as it is (the adapter does not remember what it forwarded before) -/
theorem code_DelayFixed_requests_independent {α} (d init t1 t2 : Int) (a b : Nat) (ans : α)
    (hd : 0 ≤ d) (h1 : init ≤ t1) (h2 : init ≤ t2) :
    ∃ p r, Tr.TimeDelayAdapter_get_data [] [] t1 a (Tr.DelayFixed_with_delay d init) ans = .ok (ans, p, r) ∧
      Tr.TimeDelayAdapter_get_data r p t2 b (Tr.DelayFixed_with_delay d init) ans =
        .ok (ans, [t1, t2], [(max (t1 - d) init, a), (max (t2 - d) init, b)]) := by
  refine ⟨_, _, code_DelayFixed_get_data [] [] d init t1 a ans hd h1, ?_⟩
  rw [code_DelayFixed_get_data _ _ d init t2 b ans hd h2]
  rfl

end Finam.Props.C13
