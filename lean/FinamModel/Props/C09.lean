import FinamModel.OutputLemmas
/-!
  C09 — output history is never dropped while needed and never grows unboundedly.

  Model: `FinamModel/Output.lean` (`stepImpl` mirrors `Output.push_data` / `Output.get_data`
  / `Output._clear_data`; `answerSpec` is the specification: an output that never discards).
-/
namespace Finam.Props.C09
open Finam

theorem pre_of_preB {α} (s : OState α) (ev : Ev α) (h : preB s ev = true) : Pre s ev := by
  cases ev with
  | push t v =>
    simp only [preB, List.all_eq_true, decide_eq_true_eq] at h
    exact h
  | pull k t =>
    simp only [preB, Bool.and_eq_true, decide_eq_true_eq] at h
    refine ⟨h.1, ?_⟩
    intro a ha
    have h2 := h.2
    rw [ha] at h2
    simpa using h2

/-- Refinement, general form: from any state satisfying the invariant, every pull of the bounded
    output returns exactly what the unlimited history returns. -/
theorem evict_refines_unbounded_inv {α} : ∀ (evs : List (Ev α)) (s : OState α), Inv2 s →
    preAllB s evs = true → ∀ p ∈ runBoth s evs, p.1 = p.2 := by
  intro evs
  induction evs with
  | nil => intro s _ _ p hp; cases hp
  | cons ev evs ih =>
    intro s hi hpre p hp
    simp only [preAllB, Bool.and_eq_true] at hpre
    simp only [runBoth] at hp
    cases hp with
    | head => exact answers_agree s hi.toInv ev (pre_of_preB s ev hpre.1)
    | tail _ h => exact ih _ (inv_step s hi ev (pre_of_preB s ev hpre.1)) hpre.2 p h

theorem init_inv (α : Type) (n : Nat) : Inv2 (initState α n) where
  sorted := trivial
  suffix := ⟨[], rfl⟩
  lastOk := by intro a ha; simp [initState] at ha
  lastNone := by intro _ x hx; simp [initState] at hx; exact hx.2
  guard := Or.inl rfl

/-- **C09, first sentence.** For every interleaving of publications (increasing times) and pulls by
    any number `n` of end points (non-decreasing request times per end point), every pull of the
    bounded output equals the pull of an output with unlimited history. -/
theorem evict_refines_unbounded {α} (n : Nat) (evs : List (Ev α))
    (h : preAllB (initState α n) evs = true) :
    ∀ p ∈ runBoth (initState α n) evs, p.1 = p.2 :=
  evict_refines_unbounded_inv evs _ (init_inv α n) h

/-- non-vacuity: a two-consumer history with evictions satisfies the precondition, and its answers
    contain real values. -/
def exEvs : List (Ev Nat) := [.push 0 0, .pull 0 0, .pull 1 0, .push 4 1, .pull 0 4, .push 9 2,
                                .pull 1 3, .pull 0 9, .pull 1 9]
example :
    preAllB (initState Nat 2) exEvs = true ∧
    (runFinal (initState Nat 2) exEvs).ret.length = 1 ∧
    (runBoth (initState Nat 2) exEvs).map (·.1) =
      [none, some (.ok 0), some (.ok 0), none, some (.ok 1), none, some (.ok 1), some (.ok 2), some (.ok 2)] := by
  decide

/-! ### The bound -/

/-- after an eviction at `m` everything behind the head is newer than `m` -/
theorem evict_tail_gt {α} (d : List (Entry α)) (m : Int) (hs : Sorted d) :
    ∀ e ∈ (evict d m).tail, m < e.t := by
  fun_induction evict d m with
  | case1 e0 e1 es m h ih => exact ih hs.2
  | case2 e0 e1 es m h =>
    intro e he
    simp only [List.tail_cons] at he
    have h1 : m < e1.t := by omega
    -- every entry of a sorted list is ≥ its head
    have hge : ∀ (l : List (Entry α)) (x : Entry α), Sorted (x :: l) → ∀ y ∈ x :: l, x.t ≤ y.t := by
      intro l
      induction l with
      | nil => intro x _ y hy; simp at hy; subst hy; omega
      | cons z l ihl =>
        intro x hx y hy
        cases hy with
        | head => omega
        | tail _ hy' => have := ihl z hx.2 y hy'; have := hx.1; omega
    have := hge es e1 hs.2 e he
    omega
  | case3 d m hd =>
    intro e he
    cases d with
    | nil => simp at he
    | cons a d' =>
      cases d' with
      | nil => simp at he
      | cons b d'' => exact absurd rfl (hd a b d'')

/-- invariant carrying the bound -/
structure BInv {α} (s : OState α) : Prop where
  inv : Inv2 s
  lastLe : ∀ a, some a ∈ s.last → ∃ e ∈ s.hist, a ≤ e.t
  tailGt : allSome s.last = true → ∀ m, minLast s.last = some m → ∀ e ∈ s.ret.tail, m < e.t

theorem sorted_suffix {α} (p r : List (Entry α)) (h : Sorted (p ++ r)) : Sorted r :=
  sorted_append_right p r h

theorem lastT_mem {α} (e0 : Entry α) (es : List (Entry α)) : ∃ e ∈ e0 :: es, e.t = lastT e0 es := by
  induction es generalizing e0 with
  | nil => exact ⟨e0, by simp, rfl⟩
  | cons e1 es ih =>
    obtain ⟨e, he, het⟩ := ih e1
    exact ⟨e, List.mem_cons_of_mem _ he, by simpa [lastT] using het⟩

theorem lookup_ok_le_last {α} (e0 : Entry α) (es : List (Entry α)) (t : Int) (v : α)
    (h : lookup (e0 :: es) t = .ok v) : t ≤ lastT e0 es := by
  simp only [lookup] at h
  split at h
  · cases h
  · rename_i hn; omega

theorem binv_step {α} (s : OState α) (hi : BInv s) (ev : Ev α) (hp : preB s ev = true) :
    BInv (stepImpl s ev).1 := by
  have hpre := pre_of_preB s ev hp
  refine ⟨inv_step s hi.inv ev hpre, ?_, ?_⟩
  · -- lastLe
    cases ev with
    | push t v =>
      intro a ha
      obtain ⟨e, he, hle⟩ := hi.lastLe a ha
      exact ⟨e, by simp [stepImpl, he], hle⟩
    | pull k t =>
      simp only [stepImpl]
      cases hl : lookup s.ret t with
      | error e => exact hi.lastLe
      | ok v =>
        intro a ha
        simp only at ha
        rcases List.mem_or_eq_of_mem_set ha with h | h
        · exact hi.lastLe a h
        · cases h
          obtain ⟨p, hp1⟩ := hi.inv.suffix
          cases hr : s.ret with
          | nil => rw [hr] at hl; simp [lookup] at hl
          | cons e0 es =>
            rw [hr] at hl
            have hle := lookup_ok_le_last e0 es t v hl
            obtain ⟨e, he, het⟩ := lastT_mem e0 es
            refine ⟨e, ?_, by omega⟩
            simp only at *
            rw [hp1, hr]; exact List.mem_append_right _ he
  · -- tailGt
    cases ev with
    | push t v =>
      intro hall m hm e he
      simp only [stepImpl] at *
      have hm_mem := minLast_mem _ m hm
      obtain ⟨e', he', hle⟩ := hi.lastLe m hm_mem
      have hnew : m < t := by
        have := hpre e' he'
        omega
      cases hr : s.ret with
      | nil => rw [hr] at he; simp at he
      | cons r0 rs =>
        rw [hr] at he
        simp only [List.cons_append, List.tail_cons, List.mem_append, List.mem_singleton] at he
        rcases he with h | h
        · exact hi.tailGt hall m hm e (by rw [hr]; exact h)
        · subst h; exact hnew
    | pull k t =>
      simp only [stepImpl]
      cases hl : lookup s.ret t with
      | error e => exact hi.tailGt
      | ok v =>
        intro hall m hm e he
        simp only at hall hm he
        simp only [hm, hall, if_true] at he
        obtain ⟨p, hp1⟩ := hi.inv.suffix
        have hs : Sorted s.ret := sorted_suffix p s.ret (hp1 ▸ hi.inv.sorted)
        exact evict_tail_gt s.ret m hs e he

theorem init_binv (α : Type) (n : Nat) : BInv (initState α n) where
  inv := init_inv α n
  lastLe := by intro a ha; simp [initState] at ha
  tailGt := by intro _ m _ e he; simp [initState] at he

theorem binv_run {α} : ∀ (evs : List (Ev α)) (s : OState α), BInv s → preAllB s evs = true →
    BInv (runFinal s evs) := by
  intro evs
  induction evs with
  | nil => intro s hi _; exact hi
  | cons ev evs ih =>
    intro s hi hpre
    simp only [preAllB, Bool.and_eq_true] at hpre
    exact ih _ (binv_step s hi ev hpre.1) hpre.2

/-- **C09, second sentence.** After any admissible history in which every end point has pulled at
    least once, the retained history is no longer than the number of publications newer than the
    slowest end point's last request, plus one. -/
theorem evict_bound {α} (n : Nat) (evs : List (Ev α)) (h : preAllB (initState α n) evs = true)
    (m : Int) :
    let s := runFinal (initState α n) evs
    allSome s.last = true → minLast s.last = some m →
    s.ret.length ≤ (s.hist.filter (fun e => decide (m < e.t))).length + 1 := by
  intro s hall hm
  have hb : BInv s := binv_run evs _ (init_binv α n) h
  obtain ⟨p, hp1⟩ := hb.inv.suffix
  have htail := hb.tailGt hall m hm
  have hsub : s.ret.tail.Sublist s.hist := by
    rw [hp1]
    exact (List.tail_sublist _).trans (List.sublist_append_right _ _)
  have hfil : (s.ret.tail.filter (fun e => decide (m < e.t))).Sublist
      (s.hist.filter (fun e => decide (m < e.t))) := hsub.filter _
  have heq : s.ret.tail.filter (fun e => decide (m < e.t)) = s.ret.tail := by
    apply List.filter_eq_self.mpr
    intro e he; simpa using htail e he
  have hlen := hfil.length_le
  rw [heq] at hlen
  have : s.ret.length ≤ s.ret.tail.length + 1 := by
    cases s.ret <;> simp
  omega

/-! ### Which end point is registered at the output

`Input.ping` → `Adapter.pinged(source)` forwards `self if self.needs_push else source`; data
requests reach the output either from the consumer through pass-through adapters (`target or self`
is forwarded unchanged) or from a push-based adapter pulling with `self` on notification.  The
chain is given from the consumer side to the output side, `true` = push-based adapter. -/

inductive Ident where
  | input
  | adapter (pos : Nat)
deriving DecidableEq, Repr

/-- identity arriving at `Output.pinged`, following `Adapter.pinged` from the consumer upwards -/
def registeredFrom (cur : Ident) (pos : Nat) : List Bool → Ident
  | [] => cur
  | pushBased :: rest => registeredFrom (if pushBased then .adapter pos else cur) (pos + 1) rest

def registered (chain : List Bool) : Ident := registeredFrom .input 0 chain

/-- identity that appears as `target` in `Output.get_data`: walking from the output side, the first
    push-based adapter (it pulls with `self` when notified, and shields everything downstream);
    the consumer input if there is none. -/
def requesterFrom (pos : Nat) : List Bool → Option Ident
  | [] => none
  | pushBased :: rest =>
    match requesterFrom (pos + 1) rest with
    | some i => some i
    | none => if pushBased then some (.adapter pos) else none

def requester (chain : List Bool) : Ident := (requesterFrom 0 chain).getD .input

theorem registeredFrom_eq (chain : List Bool) : ∀ (cur : Ident) (pos : Nat),
    registeredFrom cur pos chain = (requesterFrom pos chain).getD cur := by
  induction chain with
  | nil => intro cur pos; rfl
  | cons b rest ih =>
    intro cur pos
    simp only [registeredFrom, requesterFrom]
    rw [ih]
    cases requesterFrom (pos + 1) rest with
    | some i => simp
    | none => cases b <;> simp

/-- **C09, registration.** The end point registered at an output is exactly the identity under which
    data is requested from it: the consumer input behind pass-through adapters, the push-based
    adapter nearest to the output otherwise.  (So every registered end point does pull, and every
    puller is registered.) -/
theorem registration (chain : List Bool) : registered chain = requester chain :=
  registeredFrom_eq chain .input 0

example : registered [false, false] = .input ∧ registered [false, true, false] = .adapter 1 ∧
    registered [true, false, true] = .adapter 2 := by decide

end Finam.Props.C09
