import FinamModel.Props.C01Run
import FinamModel.NetC
/-!
  C01 at run level, with push-based adapters — every pull performed inside an update, and every pull a
  push-based adapter performs when it is notified, succeeds along every run.

  `NetC.lean` models a `TimeCachingAdapter` as a relay node with its own bounded history.  The invariant
  `OInvC` is the one of `C01Run` per node (output or relay), with the node's newest entry tied to the
  newest publication of the output that feeds it, plus a clause for the end points the relays occupy at
  their source outputs.  `update_pulls_okC` goes through the three phases of an update — the component's
  pulls (`pullLinksC_ok`), its publications (`push_node`), the notification of the relays
  (`notify_ok`, an induction over the relay list with the not-yet-notified relays still at the old time) —
  and `run_pulls_okC` lifts it to runs.  Scope: one push-based adapter per link, pass-through adapters between it
  and the output, pass-through / fixed-delay adapters between it and the consumer.
-/
namespace Finam.Props.C01RunC
open Finam Finam.Props.C05Run Finam.Props.C03Run Finam.Props.C01Run

/-! ### chains -/

def chainOk (ads : List Ad) : Prop := ∀ a ∈ directPrefix ads, adDirect a = true

theorem need_prefix : ∀ (ads : List Ad) (t : Int), chainOk ads → need [] ads t = some (reqTime (directPrefix ads) t) := by
  intro ads
  induction ads with
  | nil => intro t _; rfl
  | cons a r ih =>
    intro t h
    cases a with
    | cache => simp [need, directPrefix, reqTime]
    | pass =>
      have hr : chainOk r := fun x hx => h x (by simp [directPrefix, hx])
      simp only [need, directPrefix, reqTime, Ad.withDelay]; exact ih t hr
    | dfix d i =>
      have hr : chainOk r := fun x hx => h x (by simp [directPrefix, hx])
      simp only [need, directPrefix, reqTime]; exact ih _ hr
    | nodep => have := h .nodep (by simp [directPrefix]); simp [adDirect] at this
    | dpush => have := h .dpush (by simp [directPrefix]); simp [adDirect] at this
    | dpull a b c d => have := h (.dpull a b c d) (by simp [directPrefix]); simp [adDirect] at this

/-! ### one publication on a node -/

theorem push_node (s : OState Unit) (hi : Inv2 s) (e0 : Entry Unit) (es : List (Entry Unit)) (hh : s.hist = e0 :: es)
    (T : Int) (hT : lastT e0 es < T) :
    Inv2 (stepImpl s (.push T ())).1 ∧ (stepImpl s (.push T ())).1.hist = e0 :: (es ++ [⟨T, ()⟩]) ∧
    (stepImpl s (.push T ())).1.last = s.last ∧ lastT e0 (es ++ [⟨T, ()⟩]) = T := by
  have hpre : Pre s (.push T ()) := by
    intro e he
    have hs := hi.sorted
    rw [hh] at he hs
    have := sorted_le_last es e0 hs e he
    show e.t < T
    omega
  refine ⟨inv_step s hi _ hpre, ?_, rfl, lastT_snoc _ es e0⟩
  show s.hist ++ [⟨T, ()⟩] = _
  rw [hh]; rfl

/-! ### the invariant of one node -/

/-- request of link `l` of component `c` at the node it reads from -/
def R (sch : State) (c : Nat) (l : Link) : Int := reqTime (directPrefix l.ads) (getNext (sch.comp c))

structure OInvC (n : NetC) (tm : Nat → Int) (x : Nat) : Prop where
  inv : Inv2 (n.os x)
  first : ∃ e0 es, (n.os x).hist = e0 :: es ∧ lastT e0 es = tm x
  links : ∀ c j l, (n.sch.comp c).inputs[j]? = some l → l.static = false → n.node c j = x →
      n.ep c j < (n.os x).last.length ∧
      (∀ a, (n.os x).last[n.ep c j]? = some (some a) → a ≤ R n.sch c l) ∧
      (∀ e0 es, (n.os x).hist = e0 :: es → e0.t ≤ R n.sch c l)
  rel : ∀ r o k, (r, o, k) ∈ n.relays → o = x →
      k < (n.os x).last.length ∧ (∀ a, (n.os x).last[k]? = some (some a) → a ≤ tm x)
  inj : ∀ c j l c' j' l', (n.sch.comp c).inputs[j]? = some l → (n.sch.comp c').inputs[j']? = some l' →
      l.static = false → l'.static = false → n.node c j = x → n.node c' j' = x → n.ep c j = n.ep c' j' → c = c' ∧ j = j'
  sep : ∀ c j l r o k, (n.sch.comp c).inputs[j]? = some l → l.static = false → n.node c j = x →
      (r, o, k) ∈ n.relays → o = x → n.ep c j ≠ k
  relinj : ∀ r o k r' o' k', (r, o, k) ∈ n.relays → (r', o', k') ∈ n.relays → o = x → o' = x → k = k' → r = r'

/-- a pull by the end point of a consumer link keeps the node invariant -/
theorem pull_link_node (n : NetC) (tm : Nat → Int) (x : Nat) (h : OInvC n tm x) (u j : Nat) (l : Link)
    (hl : (n.sch.comp u).inputs[j]? = some l) (hst : l.static = false) (hnode : n.node u j = x)
    (hhi : R n.sch u l ≤ tm x) :
    (stepImpl (n.os x) (.pull (n.ep u j) (R n.sch u l))).2 = some (.ok ()) ∧
    OInvC { n with os := updO n.os x (stepImpl (n.os x) (.pull (n.ep u j) (R n.sch u l))).1 } tm x := by
  obtain ⟨hk, hmono, hlow⟩ := h.links u j l hl hst hnode
  obtain ⟨e0, es, hh, hlast⟩ := h.first
  obtain ⟨hans, hinv2, hhist, hlastset⟩ :=
    pull_ok (n.os x) h.inv (n.ep u j) (R n.sch u l) hk hmono e0 es hh (hlow e0 es hh) (by rw [hlast]; exact hhi)
  refine ⟨hans, ?_⟩
  refine ⟨?_, ?_, ?_, ?_, h.inj, h.sep, h.relinj⟩
  · show Inv2 (updO n.os x _ x); rw [updO_same]; exact hinv2
  · refine ⟨e0, es, ?_, hlast⟩
    show (updO n.os x _ x).hist = _; rw [updO_same, hhist]; exact hh
  · intro c j' l' hl' hst' hnode'
    obtain ⟨hk', hmono', hlow'⟩ := h.links c j' l' hl' hst' hnode'
    show n.ep c j' < (updO n.os x _ x).last.length ∧
      (∀ a, (updO n.os x _ x).last[n.ep c j']? = some (some a) → a ≤ _) ∧
      (∀ e0' es', (updO n.os x _ x).hist = e0' :: es' → e0'.t ≤ _)
    rw [updO_same, hlastset, hhist]
    refine ⟨by rw [List.length_set]; exact hk', ?_, hlow'⟩
    intro a ha
    by_cases hke : n.ep c j' = n.ep u j
    · obtain ⟨hc, hj⟩ := h.inj c j' l' u j l hl' hl hst' hst hnode' hnode hke
      subst hc; subst hj
      rw [hl] at hl'; cases hl'
      rw [hke, List.getElem?_set_self hk] at ha
      cases ha
      exact Int.le_refl _
    · rw [List.getElem?_set_ne (Ne.symm hke)] at ha
      exact hmono' a ha
  · intro r o k hr ho
    obtain ⟨hk', hb⟩ := h.rel r o k hr ho
    show k < (updO n.os x _ x).last.length ∧ (∀ a, (updO n.os x _ x).last[k]? = some (some a) → a ≤ tm x)
    rw [updO_same, hlastset]
    refine ⟨by rw [List.length_set]; exact hk', ?_⟩
    intro a ha
    have hne : n.ep u j ≠ k := h.sep u j l r o k hl hst hnode hr ho
    rw [List.getElem?_set_ne hne] at ha
    exact hb a ha

/-- histories of other nodes are untouched -/
theorem other_node (n : NetC) (tm : Nat → Int) (x y : Nat) (hxy : y ≠ x) (st : OState Unit) (h : OInvC n tm y) :
    OInvC { n with os := updO n.os x st } tm y := by
  refine ⟨?_, ?_, ?_, ?_, h.inj, h.sep, h.relinj⟩
  · show Inv2 (updO n.os x st y); rw [updO_other _ _ hxy]; exact h.inv
  · obtain ⟨e0, es, hh, hl⟩ := h.first
    exact ⟨e0, es, by show (updO n.os x st y).hist = _; rw [updO_other _ _ hxy]; exact hh, hl⟩
  · intro c j l hl hst hnode
    have := h.links c j l hl hst hnode
    show n.ep c j < (updO n.os x st y).last.length ∧
      (∀ a, (updO n.os x st y).last[n.ep c j]? = some (some a) → a ≤ _) ∧
      (∀ e0' es', (updO n.os x st y).hist = e0' :: es' → e0'.t ≤ _)
    rw [updO_other _ _ hxy]; exact this
  · intro r o k hr ho
    have := h.rel r o k hr ho
    show k < (updO n.os x st y).last.length ∧ (∀ a, (updO n.os x st y).last[k]? = some (some a) → a ≤ tm y)
    rw [updO_other _ _ hxy]; exact this

/-! ### phase 1: the pulls of the updated component -/

def IsNode (n : NetC) (x : Nat) : Prop := x < n.sch.outs.length ∨ ∃ o k, (x, o, k) ∈ n.relays

theorem pullLinksC_ok (n : NetC) (tm : Nat → Int) (u : Nat)
    (hnodes : ∀ j l, (n.sch.comp u).inputs[j]? = some l → l.static = false → IsNode n (n.node u j))
    (hready : ∀ j l, (n.sch.comp u).inputs[j]? = some l → l.static = false → R n.sch u l ≤ tm (n.node u j)) :
    ∀ (ls : List Link) (j : Nat) (os : Nat → OState Unit),
      (∀ i l, ls[i]? = some l → (n.sch.comp u).inputs[j + i]? = some l) →
      (∀ x, IsNode n x → OInvC { n with os := os } tm x) →
      AllOk (pullLinksC n.ep n.node u (getNext (n.sch.comp u)) ls j os).2 ∧
      ∀ x, IsNode n x →
        OInvC { n with os := (pullLinksC n.ep n.node u (getNext (n.sch.comp u)) ls j os).1 } tm x := by
  intro ls
  induction ls with
  | nil => intro j os _ hinv; exact ⟨fun a ha => by simp [pullLinksC] at ha, by simpa [pullLinksC] using hinv⟩
  | cons l ls ih =>
    intro j os hidx hinv
    have hidx' : ∀ i l', ls[i]? = some l' → (n.sch.comp u).inputs[j + 1 + i]? = some l' := by
      intro i l' h
      have := hidx (i + 1) l' (by simpa using h)
      rw [show j + (i + 1) = j + 1 + i by omega] at this
      exact this
    have hl0 : (n.sch.comp u).inputs[j]? = some l := by simpa using hidx 0 l (by simp)
    by_cases hst : l.static = true
    · simp only [pullLinksC, hst, if_true]
      exact ih (j + 1) os hidx' hinv
    · have hst' : l.static = false := by simpa using hst
      simp only [pullLinksC, hst', Bool.false_eq_true, if_false]
      have hx := hnodes j l hl0 hst'
      have hO := hinv (n.node u j) hx
      obtain ⟨hans, hnew⟩ := pull_link_node { n with os := os } tm (n.node u j) hO u j l hl0 hst' rfl (hready j l hl0 hst')
      have hinv' : ∀ x, IsNode n x → OInvC { n with os := (updO os (n.node u j)
          (stepImpl (os (n.node u j)) (.pull (n.ep u j) (reqTime (directPrefix l.ads) (getNext (n.sch.comp u))))).1) } tm x := by
        intro x hxn
        by_cases hxe : x = n.node u j
        · subst hxe; exact hnew
        · exact other_node { n with os := os } tm (n.node u j) x hxe _ (hinv x hxn)
      obtain ⟨hok, hfin⟩ := ih (j + 1) _ hidx' hinv'
      refine ⟨?_, hfin⟩
      intro a ha
      rcases List.mem_cons.mp ha with h | h
      · rw [h]; exact hans
      · exact hok a h

/-! ### phase 3: notification of the relays -/

theorem oinv_congr (n : NetC) (tm tm' : Nat → Int) (x : Nat) (h : tm x = tm' x) (hi : OInvC n tm x) : OInvC n tm' x := by
  refine ⟨hi.inv, ?_, hi.links, ?_, hi.inj, hi.sep, hi.relinj⟩
  · obtain ⟨e0, es, hh, hl⟩ := hi.first; exact ⟨e0, es, hh, by rw [← h]; exact hl⟩
  · intro r o k hr ho; obtain ⟨a, b⟩ := hi.rel r o k hr ho; exact ⟨a, by rw [← h]; exact b⟩

/-- a pull by the end point of a relay keeps the invariant of the output it reads -/
theorem pull_relay_node (n : NetC) (tm : Nat → Int) (x : Nat) (h : OInvC n tm x) (r k : Nat)
    (hr : (r, x, k) ∈ n.relays) (T : Int) (hT : tm x = T) :
    (stepImpl (n.os x) (.pull k T)).2 = some (.ok ()) ∧
    OInvC { n with os := updO n.os x (stepImpl (n.os x) (.pull k T)).1 } tm x := by
  obtain ⟨hk, hb⟩ := h.rel r x k hr rfl
  obtain ⟨e0, es, hh, hlast⟩ := h.first
  have hs := h.inv.sorted
  rw [hh] at hs
  have hlo : e0.t ≤ T := by
    have := sorted_le_last es e0 hs e0 List.mem_cons_self
    omega
  obtain ⟨hans, hinv2, hhist, hlastset⟩ :=
    pull_ok (n.os x) h.inv k T hk (fun a ha => by have := hb a ha; omega) e0 es hh hlo (by omega)
  refine ⟨hans, ?_⟩
  refine ⟨?_, ?_, ?_, ?_, h.inj, h.sep, h.relinj⟩
  · show Inv2 (updO n.os x _ x); rw [updO_same]; exact hinv2
  · refine ⟨e0, es, ?_, hlast⟩
    show (updO n.os x _ x).hist = _; rw [updO_same, hhist]; exact hh
  · intro c j l hl hst hnode
    obtain ⟨hk', hmono', hlow'⟩ := h.links c j l hl hst hnode
    show n.ep c j < (updO n.os x _ x).last.length ∧
      (∀ a, (updO n.os x _ x).last[n.ep c j]? = some (some a) → a ≤ _) ∧
      (∀ e0' es', (updO n.os x _ x).hist = e0' :: es' → e0'.t ≤ _)
    rw [updO_same, hlastset, hhist]
    refine ⟨by rw [List.length_set]; exact hk', ?_, hlow'⟩
    intro a ha
    have hne : n.ep c j ≠ k := h.sep c j l r x k hl hst hnode hr rfl
    rw [List.getElem?_set_ne (Ne.symm hne)] at ha
    exact hmono' a ha
  · intro r' o' k' hr' ho'
    subst ho'
    obtain ⟨hk', hb'⟩ := h.rel r' o' k' hr' rfl
    show k' < (updO n.os o' _ o').last.length ∧ (∀ a, (updO n.os o' _ o').last[k']? = some (some a) → a ≤ tm o')
    rw [updO_same, hlastset]
    refine ⟨by rw [List.length_set]; exact hk', ?_⟩
    intro a ha
    by_cases hke : k' = k
    · subst hke
      rw [List.getElem?_set_self hk] at ha
      cases ha; omega
    · rw [List.getElem?_set_ne (Ne.symm hke)] at ha
      exact hb' a ha

/-- a publication on a node (an output publishing, or a relay buffering the entry) keeps the node's invariant, at the
    new time -/
theorem push_relay_node (n : NetC) (tm tm' : Nat → Int) (x : Nat) (h : OInvC n tm x) (T : Int) (hT : tm x < T)
    (hT' : tm' x = T) :
    OInvC { n with os := updO n.os x (stepImpl (n.os x) (.push T ())).1 } tm' x := by
  obtain ⟨e0, es, hh, hlast⟩ := h.first
  obtain ⟨hinv2, hhist, hlasteq, hlt⟩ := push_node (n.os x) h.inv e0 es hh T (by rw [hlast]; exact hT)
  refine ⟨?_, ?_, ?_, ?_, h.inj, h.sep, h.relinj⟩
  · show Inv2 (updO n.os x _ x); rw [updO_same]; exact hinv2
  · refine ⟨e0, es ++ [⟨T, ()⟩], ?_, by rw [hlt, hT']⟩
    show (updO n.os x _ x).hist = _; rw [updO_same, hhist]
  · intro c j l hl hst hnode
    obtain ⟨hk', hmono', hlow'⟩ := h.links c j l hl hst hnode
    show n.ep c j < (updO n.os x _ x).last.length ∧
      (∀ a, (updO n.os x _ x).last[n.ep c j]? = some (some a) → a ≤ _) ∧
      (∀ e0' es', (updO n.os x _ x).hist = e0' :: es' → e0'.t ≤ _)
    rw [updO_same, hlasteq, hhist]
    refine ⟨hk', hmono', ?_⟩
    intro e0' es' he
    cases he
    exact hlow' e0 es hh
  · intro r o k hr ho
    obtain ⟨hk', hb⟩ := h.rel r o k hr ho
    show k < (updO n.os x _ x).last.length ∧ (∀ a, (updO n.os x _ x).last[k]? = some (some a) → a ≤ tm' x)
    rw [updO_same, hlasteq]
    exact ⟨hk', fun a ha => by have := hb a ha; omega⟩

/-- is node `x` a relay of one of `u`'s outputs that is still waiting in the list? -/
def pendingB (sch : State) (u : Nat) (rs : List (Nat × Nat × Nat)) (x : Nat) : Bool :=
  rs.any fun e => e.1 == x && decide (e.2.1 < sch.outs.length) && decide ((sch.out e.2.1).owner = u)

def tmP (sch : State) (u : Nat) (told tnew : Nat → Int) (rs : List (Nat × Nat × Nat)) (x : Nat) : Int :=
  if pendingB sch u rs x then told x else tnew x

theorem pendingB_cons_other (sch : State) (u : Nat) (e : Nat × Nat × Nat) (rs : List (Nat × Nat × Nat)) (x : Nat)
    (h : e.1 ≠ x ∨ ¬ (e.2.1 < sch.outs.length ∧ (sch.out e.2.1).owner = u)) :
    pendingB sch u (e :: rs) x = pendingB sch u rs x := by
  simp only [pendingB, List.any_cons]
  rcases h with h | h
  · have : (e.1 == x) = false := by simpa using h
    simp [this]
  · by_cases h1 : e.2.1 < sch.outs.length
    · have h2 : ¬ (sch.out e.2.1).owner = u := fun h2 => h ⟨h1, h2⟩
      simp [h1, h2]
    · simp [h1]

theorem pendingB_false_of_not_mem (sch : State) (u : Nat) (rs : List (Nat × Nat × Nat)) (x : Nat)
    (h : x ∉ rs.map (·.1)) : pendingB sch u rs x = false := by
  simp only [pendingB, List.any_eq_false]
  intro e he
  have : e.1 ≠ x := fun e1 => h (by rw [← e1]; exact List.mem_map_of_mem he)
  have : (e.1 == x) = false := by simpa using this
  simp [this]

theorem notify_ok (m : NetC) (sch0 : State) (u : Nat) (T : Int) (told tnew : Nat → Int)
    (hlen : m.sch.outs.length = sch0.outs.length)
    (hrelay : ∀ r o k, (r, o, k) ∈ m.relays → o < sch0.outs.length ∧ sch0.outs.length ≤ r)
    (hnewO : ∀ o, o < sch0.outs.length → (sch0.out o).owner = u → tnew o = T)
    (holdR : ∀ r o k, (r, o, k) ∈ m.relays → o < sch0.outs.length → (sch0.out o).owner = u → told r < T ∧ tnew r = T) :
    ∀ (rs : List (Nat × Nat × Nat)) (os : Nat → OState Unit), (∀ e ∈ rs, e ∈ m.relays) → (rs.map (·.1)).Nodup →
      (∀ x, IsNode m x → OInvC { m with os := os } (tmP sch0 u told tnew rs) x) →
      AllOk (notifyRelays sch0 u T rs os).2 ∧
      ∀ x, IsNode m x → OInvC { m with os := (notifyRelays sch0 u T rs os).1 } tnew x := by
  intro rs
  induction rs with
  | nil =>
    intro os _ _ hinv
    refine ⟨fun a ha => by simp [notifyRelays] at ha, ?_⟩
    intro x hx
    have := hinv x hx
    simp only [notifyRelays]
    exact oinv_congr _ _ _ x (by simp [tmP, pendingB]) this
  | cons e rs ih =>
    intro os hmem hnd hinv
    obtain ⟨r, o, k⟩ := e
    have hmemE : (r, o, k) ∈ m.relays := hmem _ List.mem_cons_self
    have hmemT : ∀ e ∈ rs, e ∈ m.relays := fun e he => hmem e (List.mem_cons_of_mem _ he)
    simp only [List.map_cons, List.nodup_cons] at hnd
    obtain ⟨hrnot, hndT⟩ := hnd
    obtain ⟨hol, hrl⟩ := hrelay r o k hmemE
    by_cases hown : o < sch0.outs.length ∧ (sch0.out o).owner = u
    · simp only [notifyRelays, hown, and_self, if_true]
      have hIsO : IsNode m o := Or.inl (by rw [hlen]; exact hol)
      have hIsR : IsNode m r := Or.inr ⟨o, k, hmemE⟩
      have hro : r ≠ o := by omega
      -- the output is not a relay node: its time is the new one
      have hpo : pendingB sch0 u ((r, o, k) :: rs) o = false := by
        apply pendingB_false_of_not_mem
        intro hmm
        obtain ⟨e', he', h1⟩ := List.mem_map.mp hmm
        obtain ⟨r', o', k'⟩ := e'
        have := (hrelay r' o' k' (hmem _ he')).2
        simp only at h1
        omega
      have htmo : tmP sch0 u told tnew ((r, o, k) :: rs) o = T := by
        simp only [tmP, hpo, Bool.false_eq_true, if_false]; exact hnewO o hown.1 hown.2
      obtain ⟨hans, hOnew⟩ := pull_relay_node { m with os := os } _ o (hinv o hIsO) r k hmemE T htmo
      -- the relay is still at the old time
      have hpr : pendingB sch0 u ((r, o, k) :: rs) r = true := by
        simp [pendingB, hown.1, hown.2]
      have htmr : tmP sch0 u told tnew ((r, o, k) :: rs) r = told r := by simp only [tmP, hpr, if_true]
      have hprT : pendingB sch0 u rs r = false := pendingB_false_of_not_mem sch0 u rs r hrnot
      have htmr' : tmP sch0 u told tnew rs r = T := by
        simp only [tmP, hprT, Bool.false_eq_true, if_false]; exact (holdR r o k hmemE hown.1 hown.2).2
      have hR1 : OInvC { m with os := updO os o (stepImpl (os o) (.pull k T)).1 } (tmP sch0 u told tnew ((r, o, k) :: rs)) r :=
        other_node { m with os := os } _ o r hro _ (hinv r hIsR)
      have hRnew := push_relay_node { m with os := updO os o (stepImpl (os o) (.pull k T)).1 } _
        (tmP sch0 u told tnew rs) r hR1 T (by rw [htmr]; exact (holdR r o k hmemE hown.1 hown.2).1) htmr'
      have hinv' : ∀ x, IsNode m x → OInvC { m with os := (updO (updO os o (stepImpl (os o) (.pull k T)).1) r
          (stepImpl (updO os o (stepImpl (os o) (.pull k T)).1 r) (.push T ())).1) } (tmP sch0 u told tnew rs) x := by
        intro x hx
        by_cases hxr : x = r
        · subst hxr; exact hRnew
        · have h1 : OInvC { m with os := updO os o (stepImpl (os o) (.pull k T)).1 } (tmP sch0 u told tnew ((r, o, k) :: rs)) x := by
            by_cases hxo : x = o
            · subst hxo; exact hOnew
            · exact other_node { m with os := os } _ o x hxo _ (hinv x hx)
          have h2 := other_node { m with os := updO os o (stepImpl (os o) (.pull k T)).1 } _ r x hxr
            (stepImpl (updO os o (stepImpl (os o) (.pull k T)).1 r) (.push T ())).1 h1
          refine oinv_congr _ _ _ x ?_ h2
          simp only [tmP, pendingB_cons_other sch0 u (r, o, k) rs x (Or.inl (fun e => hxr e.symm))]
      obtain ⟨hok, hfin⟩ := ih _ hmemT hndT hinv'
      refine ⟨?_, hfin⟩
      intro a ha
      rcases List.mem_cons.mp ha with h | h
      · rw [h]; exact hans
      · exact hok a h
    · simp only [notifyRelays, hown, if_false]
      apply ih os hmemT hndT
      intro x hx
      refine oinv_congr _ _ _ x ?_ (hinv x hx)
      simp only [tmP, pendingB_cons_other sch0 u (r, o, k) rs x (Or.inr hown)]

/-! ### the whole update -/

/-- the clauses of a node only look at that node's history -/
theorem oinv_os_congr (n : NetC) (os os' : Nat → OState Unit) (tm : Nat → Int) (x : Nat) (h : os x = os' x)
    (hi : OInvC { n with os := os } tm x) : OInvC { n with os := os' } tm x := by
  refine ⟨?_, ?_, ?_, ?_, hi.inj, hi.sep, hi.relinj⟩
  · show Inv2 (os' x); rw [← h]; exact hi.inv
  · obtain ⟨e0, es, hh, hl⟩ := hi.first
    exact ⟨e0, es, by show (os' x).hist = _; rw [← h]; exact hh, hl⟩
  · intro c j l hl hst hnode
    have := hi.links c j l hl hst hnode
    show n.ep c j < (os' x).last.length ∧ (∀ a, (os' x).last[n.ep c j]? = some (some a) → a ≤ _) ∧
      (∀ e0' es', (os' x).hist = e0' :: es' → e0'.t ≤ _)
    rw [← h]; exact this
  · intro r o k hr ho
    have := hi.rel r o k hr ho
    show k < (os' x).last.length ∧ (∀ a, (os' x).last[k]? = some (some a) → a ≤ tm x)
    rw [← h]; exact this

/-- advancing the scheduler state (same links, later announced times) keeps a node's invariant -/
theorem oinv_sch (n : NetC) (sch' : State) (tm : Nat → Int) (x : Nat)
    (hin : ∀ c, (sch'.comp c).inputs = (n.sch.comp c).inputs)
    (hnx : ∀ c, getNext (n.sch.comp c) ≤ getNext (sch'.comp c))
    (hi : OInvC n tm x) : OInvC { n with sch := sch' } tm x := by
  have hR : ∀ c l, R n.sch c l ≤ R sch' c l := fun c l => reqTime_mono _ (hnx c)
  refine ⟨hi.inv, hi.first, ?_, hi.rel, ?_, ?_, hi.relinj⟩
  · intro c j l hl hst hnode
    have hl' : (n.sch.comp c).inputs[j]? = some l := by rw [← hin c]; exact hl
    obtain ⟨hk, hmono, hlow⟩ := hi.links c j l hl' hst hnode
    have := hR c l
    refine ⟨hk, fun a ha => by have := hmono a ha; show a ≤ R sch' c l; omega, ?_⟩
    intro e0 es he
    have := hlow e0 es he
    show e0.t ≤ R sch' c l
    omega
  · intro c j l c' j' l' h1 h2
    exact hi.inj c j l c' j' l' (by rw [← hin c]; exact h1) (by rw [← hin c']; exact h2)
  · intro c j l r o k h1
    exact hi.sep c j l r o k (by rw [← hin c]; exact h1)

structure NInvC (n : NetC) (feed : Nat → Nat) : Prop where
  frag : Frag n.sch
  chains : ∀ c l, l ∈ (n.sch.comp c).inputs → chainOk l.ads
  nodeOk : ∀ c j l, (n.sch.comp c).inputs[j]? = some l → l.static = false →
      IsNode n (n.node c j) ∧ feed (n.node c j) = l.src
  relayOk : ∀ r o k, (r, o, k) ∈ n.relays → o < n.sch.outs.length ∧ n.sch.outs.length ≤ r ∧ feed r = o
  relayNodup : (n.relays.map (·.1)).Nodup
  feedOut : ∀ o, o < n.sch.outs.length → feed o = o
  nodes : ∀ x, IsNode n x → OInvC n (fun y => (n.sch.out (feed y)).time) x

/-- **One update on the network with push-based adapters.** -/
theorem update_pulls_okC (n : NetC) (feed : Nat → Nat) (hn : NInvC n feed) (u : Nat) (hu : u < n.sch.comps.length)
    (hT : (n.sch.comp u).isTime = true) (hready : Ready n.sch u (getNext (n.sch.comp u))) :
    AllOk (netUpdateC n u).2 ∧ NInvC (netUpdateC n u).1 feed := by
  have hf := hn.frag
  -- phase 1
  have hr : ∀ j l, (n.sch.comp u).inputs[j]? = some l → l.static = false →
      R n.sch u l ≤ (n.sch.out (feed (n.node u j))).time := by
    intro j l hl hst
    have hmem : l ∈ (n.sch.comp u).inputs := List.mem_of_getElem? hl
    have hneed : need n.sch.dp l.ads (getNext (n.sch.comp u)) = some (R n.sch u l) := by
      rw [need_simple n.sch.dp l.ads _ (hf.simple u l hmem)]
      exact need_prefix l.ads _ (hn.chains u l hmem)
    rw [(hn.nodeOk u j l hl hst).2]
    have := hready l hmem hst _ hneed
    cases this with
    | time _ _ _ hle => exact hle
    | pull _ _ hP _ =>
      have := hf.allTime _ (hf.ownerLt l.src (hf.srcLt u l hmem))
      rw [this] at hP; cases hP
  obtain ⟨hok1, hp1⟩ := pullLinksC_ok n (fun y => (n.sch.out (feed y)).time) u
    (fun j l hl hst => (hn.nodeOk u j l hl hst).1) hr (n.sch.comp u).inputs 0 n.os
    (fun i l h => by simpa using h) (fun x hx => hn.nodes x hx)
  generalize hp : (pullLinksC n.ep n.node u (getNext (n.sch.comp u)) (n.sch.comp u).inputs 0 n.os).1 = pos at hp1
  -- phase 2
  let T := getNext (n.sch.comp u)
  let sch' := applyUpdate n.sch u
  let told : Nat → Int := fun y => (n.sch.out (feed y)).time
  let tnew : Nat → Int := fun y => (sch'.out (feed y)).time
  let os2 : Nat → OState Unit := fun o =>
    if o < n.sch.outs.length ∧ (n.sch.out o).owner = u then (stepImpl (pos o) (.push T ())).1 else pos o
  have hlen : sch'.outs.length = n.sch.outs.length := applyUpdate_olen n.sch u
  have hIs : ∀ x, IsNode ({ n with sch := sch', os := os2 } : NetC) x ↔ IsNode n x := by
    intro x; simp only [IsNode]; rw [show ({ n with sch := sch', os := os2 } : NetC).sch.outs.length = n.sch.outs.length from hlen]
  have hnowT : getNow (n.sch.comp u) < T := (hf.pos u hu).1
  have houtT : ∀ o, o < n.sch.outs.length → (sch'.out o).time = if (n.sch.out o).owner = u then T else (n.sch.out o).time := by
    intro o ho
    rw [applyUpdate_out n.sch u hT o ho]
    split <;> rfl
  have hmid : ∀ x, IsNode n x → OInvC ({ n with sch := sch', os := os2 } : NetC) (tmP n.sch u told tnew n.relays) x := by
    intro x hx
    have h1 : OInvC ({ n with sch := sch', os := pos } : NetC) told x :=
      oinv_sch { n with os := pos } sch' told x (fun c => applyUpdate_inputs n.sch u hu hT c)
        (fun c => next_mono_update hf u hu hT c) (hp1 x hx)
    by_cases hxo : x < n.sch.outs.length
    · -- an output: never a pending relay
      have hpend : pendingB n.sch u n.relays x = false := by
        apply pendingB_false_of_not_mem
        intro hmm
        obtain ⟨e', he', h1'⟩ := List.mem_map.mp hmm
        obtain ⟨r', o', k'⟩ := e'
        have := (hn.relayOk r' o' k' he').2.1
        simp only at h1'
        omega
      have hfx : feed x = x := hn.feedOut x hxo
      by_cases hown : (n.sch.out x).owner = u
      · have htm' : tmP n.sch u told tnew n.relays x = T := by
          simp only [tmP, hpend, Bool.false_eq_true, if_false, tnew, hfx, houtT x hxo, hown, if_true]
        have htold : told x < T := by
          show (n.sch.out (feed x)).time < T
          rw [hfx, hf.outTime x hxo, hown]; exact hnowT
        have := push_relay_node ({ n with sch := sch', os := pos } : NetC) told _ x h1 T htold htm'
        refine oinv_os_congr ({ n with sch := sch' } : NetC) _ os2 _ x ?_ this
        show updO pos x _ x = os2 x
        rw [updO_same]
        show _ = (if x < n.sch.outs.length ∧ (n.sch.out x).owner = u then _ else _)
        rw [if_pos ⟨hxo, hown⟩]
      · have htm' : told x = tmP n.sch u told tnew n.relays x := by
          simp only [tmP, hpend, Bool.false_eq_true, if_false, tnew, told, hfx, houtT x hxo, hown, if_false]
        refine oinv_os_congr ({ n with sch := sch' } : NetC) pos os2 _ x ?_ (oinv_congr _ _ _ x htm' h1)
        show pos x = (if x < n.sch.outs.length ∧ (n.sch.out x).owner = u then _ else _)
        rw [if_neg (fun h => hown h.2)]
    · -- a relay
      have hos : pos x = os2 x := by
        show pos x = (if x < n.sch.outs.length ∧ (n.sch.out x).owner = u then _ else _)
        rw [if_neg (fun h => hxo h.1)]
      rcases hx with hx | ⟨o, k, hmem⟩
      · exact absurd hx hxo
      · obtain ⟨hol, hrl, hfeed⟩ := hn.relayOk x o k hmem
        have htm' : told x = tmP n.sch u told tnew n.relays x := by
          simp only [tmP]
          by_cases hpb : pendingB n.sch u n.relays x = true
          · simp only [hpb, if_true]
          · simp only [hpb, Bool.false_eq_true, if_false, tnew, told, hfeed]
            rw [houtT o hol]
            by_cases hown : (n.sch.out o).owner = u
            · exfalso
              apply hpb
              simp only [pendingB, List.any_eq_true]
              exact ⟨(x, o, k), hmem, by simp [hol, hown]⟩
            · simp only [hown, if_false]
        exact oinv_os_congr ({ n with sch := sch' } : NetC) pos os2 _ x hos (oinv_congr _ _ _ x htm' h1)
  -- phase 3
  obtain ⟨hok3, hfin⟩ := notify_ok ({ n with sch := sch', os := os2 } : NetC) n.sch u T told tnew hlen
    (fun r o k h => ⟨(hn.relayOk r o k h).1, (hn.relayOk r o k h).2.1⟩)
    (fun o ho hown => by show (sch'.out (feed o)).time = T; rw [hn.feedOut o ho, houtT o ho, if_pos hown])
    (fun r o k h ho hown => by
      obtain ⟨_, _, hfeed⟩ := hn.relayOk r o k h
      refine ⟨?_, ?_⟩
      · show (n.sch.out (feed r)).time < T
        rw [hfeed, hf.outTime o ho, hown]; exact hnowT
      · show (sch'.out (feed r)).time = T
        rw [hfeed, houtT o ho, if_pos hown])
    n.relays os2 (fun e he => he) hn.relayNodup (fun x hx => hmid x ((hIs x).mp hx))
  subst hp
  have hnet : (netUpdateC n u).1 = ({ n with sch := sch', os := (notifyRelays n.sch u T n.relays os2).1 } : NetC) := rfl
  have hans : (netUpdateC n u).2 = (pullLinksC n.ep n.node u (getNext (n.sch.comp u)) (n.sch.comp u).inputs 0 n.os).2 ++
      (notifyRelays n.sch u T n.relays os2).2 := rfl
  refine ⟨?_, ?_⟩
  · rw [hans]
    intro a ha
    rcases List.mem_append.mp ha with h | h
    · exact hok1 a h
    · exact hok3 a h
  · rw [hnet]
    refine ⟨frag_update hf u hu hT, ?_, ?_, ?_, hn.relayNodup, ?_, ?_⟩
    · intro c l hl
      have : l ∈ (n.sch.comp c).inputs := by rw [← applyUpdate_inputs n.sch u hu hT c]; exact hl
      exact hn.chains c l this
    · intro c j l hl hst
      have hl' : (n.sch.comp c).inputs[j]? = some l := by rw [← applyUpdate_inputs n.sch u hu hT c]; exact hl
      obtain ⟨h1, h2⟩ := hn.nodeOk c j l hl' hst
      exact ⟨(hIs _).mpr h1 |> fun h => by simpa [IsNode] using h, h2⟩
    · intro r o k h
      obtain ⟨a, b, c⟩ := hn.relayOk r o k h
      exact ⟨by show o < sch'.outs.length; rw [hlen]; exact a, by show sch'.outs.length ≤ r; rw [hlen]; exact b, c⟩
    · intro o ho
      exact hn.feedOut o (by rw [← hlen]; exact ho)
    · intro x hx
      have hx' : IsNode ({ n with sch := sch', os := os2 } : NetC) x := by simpa [IsNode] using hx
      exact hfin x hx'

/-! ### runs -/

inductive NetStepC (endT : Int) (n : NetC) : NetC → List (Option (Except Err Unit)) → Prop where
  | mk (h u : Nat) : h < n.sch.comps.length → getNow (n.sch.comp h) < endT →
      updateRec n.sch (n.sch.comps.length + 1) h [] none = .ok (some u) →
      NetStepC endT n (netUpdateC n u).1 (netUpdateC n u).2

inductive NetReachC (endT : Int) (n0 : NetC) : NetC → Prop where
  | refl : NetReachC endT n0 n0
  | step {n n' : NetC} {ans : List (Option (Except Err Unit))} : NetReachC endT n0 n → NetStepC endT n n' ans → NetReachC endT n0 n'

theorem step_pulls_okC {endT : Int} {n n' : NetC} {feed : Nat → Nat} {ans : List (Option (Except Err Unit))}
    (hn : NInvC n feed) (hs : NetStepC endT n n' ans) : AllOk ans ∧ NInvC n' feed := by
  cases hs with
  | mk h u hh hnow hrec =>
    obtain ⟨nw, nx, hk, hready⟩ := (Finam.updateRec_sound n.sch (n.sch.comps.length + 1)).1 h [] none (some u) hrec
    have hT : (n.sch.comp u).isTime = true := by simp [Comp.isTime, hk]
    have hu : u < n.sch.comps.length := isTime_lt n.sch u hT
    have hnx : getNext (n.sch.comp u) = nx := by simp [getNext, hk]
    exact update_pulls_okC n feed hn u hu hT (by rw [hnx]; exact hready)

theorem reach_ninvC {endT : Int} {n0 n : NetC} {feed : Nat → Nat} (h0 : NInvC n0 feed) (hr : NetReachC endT n0 n) :
    NInvC n feed := by
  induction hr with
  | refl => exact h0
  | step _ hs ih => exact (step_pulls_okC ih hs).2

/-- **Every pull of every update of every run succeeds, push-based adapters included.**  Along any run of the
    driver from a network state satisfying the invariant, every pull a component performs at its announced time —
    from an output's bounded history or from the buffer of a push-based adapter — and every pull such an adapter
    performs when it is notified of a publication is answered `ok`. -/
theorem run_pulls_okC {endT : Int} {n0 n n' : NetC} {feed : Nat → Nat} {ans : List (Option (Except Err Unit))}
    (h0 : NInvC n0 feed) (hr : NetReachC endT n0 n) (hs : NetStepC endT n n' ans) : AllOk ans :=
  (step_pulls_okC (reach_ninvC h0 hr) hs).1

/-! ### non-vacuity: A(step 2) → LinearTime → B(step 3) -/

def exSchC : State :=
  { comps := [⟨.time 0 2 false, [], [2], 0⟩, ⟨.time 0 3 false, [⟨[.cache], 0, false⟩], [3], 0⟩],
    outs := [⟨0, 0⟩], dp := [] }

def exNetC : NetC :=
  { sch := exSchC,
    os := fun x => if x = 0 then ⟨[⟨0, ()⟩], [⟨0, ()⟩], [some 0]⟩ else ⟨[⟨0, ()⟩], [⟨0, ()⟩], [none]⟩,
    ep := fun _ _ => 0, node := fun _ _ => 1, relays := [(1, 0, 0)] }

def exFeed : Nat → Nat := fun _ => 0

theorem exSchC_comp_ge (c : Nat) (h : 2 ≤ c) : exSchC.comp c = ⟨.pull, [], [], 0⟩ :=
  comp_default exSchC c (by simpa [exSchC] using h)

theorem exC_link (c j : Nat) (l : Link) (h : (exNetC.sch.comp c).inputs[j]? = some l) :
    c = 1 ∧ j = 0 ∧ l = ⟨[.cache], 0, false⟩ := by
  rcases Nat.lt_or_ge c 2 with hc | hc
  · have : c = 0 ∨ c = 1 := by omega
    rcases this with e | e <;> subst e
    · have : (exNetC.sch.comp 0).inputs = [] := rfl
      rw [this] at h; simp at h
    · have : (exNetC.sch.comp 1).inputs = [⟨[.cache], 0, false⟩] := rfl
      rw [this] at h
      obtain ⟨a, b⟩ := single_idx _ _ _ h
      exact ⟨rfl, a, b⟩
  · have : exNetC.sch.comp c = ⟨.pull, [], [], 0⟩ := exSchC_comp_ge c hc
    rw [this] at h; simp at h

theorem exSchC_frag : Frag exSchC where
  allTime := by
    intro c hc
    have : c = 0 ∨ c = 1 := by simp [exSchC] at hc; omega
    rcases this with h | h <;> subst h <;> rfl
  notFin := by
    intro c
    rcases Nat.lt_or_ge c 2 with h | h
    · have : c = 0 ∨ c = 1 := by omega
      rcases this with h | h <;> subst h <;> rfl
    · rw [exSchC_comp_ge c h]; rfl
  pos := by
    intro c hc
    have : c = 0 ∨ c = 1 := by simp [exSchC] at hc; omega
    rcases this with h | h <;> subst h <;> (constructor <;> simp [exSchC, State.comp, getNow, getNext])
  srcLt := by
    intro c l hl
    obtain ⟨j, hj⟩ := List.getElem?_of_mem hl
    obtain ⟨_, _, e⟩ := exC_link c j l hj
    subst e; simp [exSchC]
  ownerLt := by
    intro o ho
    have : o = 0 := by simp [exSchC] at ho; omega
    subst this; simp [exSchC, State.out]
  simple := by
    intro c l hl a ha
    obtain ⟨j, hj⟩ := List.getElem?_of_mem hl
    obtain ⟨_, _, e⟩ := exC_link c j l hj
    subst e; simp at ha; subst ha; rfl
  outTime := by
    intro o ho
    have : o = 0 := by simp [exSchC] at ho; omega
    subst this; rfl

theorem exNetC_inv : NInvC exNetC exFeed where
  frag := exSchC_frag
  chains := by
    intro c l hl a ha
    obtain ⟨j, hj⟩ := List.getElem?_of_mem hl
    obtain ⟨_, _, e⟩ := exC_link c j l hj
    subst e; simp [directPrefix] at ha
  nodeOk := by
    intro c j l hl _
    obtain ⟨_, _, e⟩ := exC_link c j l hl
    subst e
    exact ⟨Or.inr ⟨0, 0, by simp [exNetC]⟩, rfl⟩
  relayOk := by
    intro r o k h
    simp [exNetC] at h
    obtain ⟨rfl, rfl, rfl⟩ := h
    exact ⟨by simp [exNetC, exSchC], by simp [exNetC, exSchC], rfl⟩
  relayNodup := by simp [exNetC]
  feedOut := fun _ _ => by
    rename_i o ho
    have : o = 0 := by simp [exNetC, exSchC] at ho; omega
    subst this; rfl
  nodes := by
    intro x hx
    have hx' : x = 0 ∨ x = 1 := by
      rcases hx with h | ⟨o, k, h⟩
      · left; simp [exNetC, exSchC] at h; omega
      · right; simp [exNetC] at h; exact h.1
    rcases hx' with h | h <;> subst h
    · refine ⟨?_, ⟨⟨0, ()⟩, [], rfl, rfl⟩, ?_, ?_, ?_, ?_, ?_⟩
      · exact ⟨by simp [exNetC, Sorted], ⟨[], rfl⟩, by intro a ha; simp [exNetC] at ha; subst ha; simp [exNetC, headLe],
          by intro h; simp [exNetC] at h, Or.inl rfl⟩
      · intro c j l hl _ hnode; simp [exNetC] at hnode
      · intro r o k h _
        simp [exNetC] at h
        obtain ⟨rfl, rfl, rfl⟩ := h
        refine ⟨by simp [exNetC], ?_⟩
        intro a ha; simp [exNetC] at ha; subst ha; simp [exFeed, exNetC, exSchC, State.out]
      · intro c j l c' j' l' _ _ _ _ hnode; simp [exNetC] at hnode
      · intro c j l r o k _ _ hnode; simp [exNetC] at hnode
      · intro r o k r' o' k' h h' _ _ _
        simp [exNetC] at h h'
        rw [h.1, h'.1]
    · refine ⟨?_, ⟨⟨0, ()⟩, [], rfl, rfl⟩, ?_, ?_, ?_, ?_, ?_⟩
      · exact ⟨by simp [exNetC, Sorted], ⟨[], rfl⟩, by intro a ha; simp [exNetC] at ha,
          by intro h; simp [exNetC] at h, Or.inl rfl⟩
      · intro c j l hl _ _
        obtain ⟨hc, hj, e⟩ := exC_link c j l hl
        subst hc; subst hj; subst e
        refine ⟨by simp [exNetC], by intro a ha; simp [exNetC] at ha, ?_⟩
        intro e0 es he; simp [exNetC] at he; rw [← he.1]
        simp [R, directPrefix, reqTime, exNetC, exSchC, State.comp, getNext]
      · intro r o k h ho
        simp [exNetC] at h
        omega
      · intro c j l c' j' l' hl hl' _ _ _ _ _
        obtain ⟨hc, hj, _⟩ := exC_link c j l hl
        obtain ⟨hc', hj', _⟩ := exC_link c' j' l' hl'
        omega
      · intro c j l r o k _ _ _ h ho
        simp [exNetC] at h
        omega
      · intro r o k r' o' k' h h' _ _ _
        simp [exNetC] at h h'
        rw [h.1, h'.1]

end Finam.Props.C01RunC
