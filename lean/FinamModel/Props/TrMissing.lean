import FinamModel.Props.TrSets
import FinamModel.Translated.collect_inputs_outputs
import FinamModel.Translated.check_missing_components
/-!
  C19, "a component that is linked but not part of the composition is rejected, and nothing else is" — on the
  *translated* `_collect_inputs_outputs` and `_check_missing_components` (`schedule.py`, regenerated on every run).

  `_collect_inputs_outputs` walks up along `source` from every input of a listed component to the element that is no
  `IInput` (an `Output`), and down along `targets` from every output with a work *set* (`targets.pop()`, `targets.add`),
  collecting the targets that are no `IOutput` (the inputs of components).  A Python set is a list without repetitions
  (`Py.setAdd`, `pop` takes the last element; the result is a pair of sets, compared as sets).  `UpTo` / `ORepr` say
  when heap objects form the chain above an input / the tree below an output.
-/
namespace Finam.Props.C19M
open Finam Finam.Py

/-! ### upwards from an input -/

/-- `as` are the elements met walking up along `source` from `x`; the walk stops at `r`, the first that is no `IInput` -/
def UpTo (h : Heap) : Nat → List Nat → Nat → Prop
  | x, [], r => h.isInput x = false ∧ x = r
  | x, a :: as, r => h.isInput x = true ∧ h.source x = a ∧ UpTo h a as r

theorem up_walk (h : Heap) : ∀ (as : List Nat) (x r : Nat) (wf : Nat), UpTo h x as r → as.length < wf →
    Tr.collect_inputs_outputs.while3 h x wf = .ok r := by
  intro as
  induction as with
  | nil =>
    intro x r wf hp hf
    cases wf with
    | zero => omega
    | succ f =>
      obtain ⟨h1, h2⟩ := hp
      subst h2
      unfold Tr.collect_inputs_outputs.while3
      simp [h1, pure, Except.pure]
  | cons a as ih =>
    intro x r wf hp hf
    cases wf with
    | zero => simp at hf
    | succ f =>
      obtain ⟨h1, h2, h3⟩ := hp
      unfold Tr.collect_inputs_outputs.while3
      have hf' : as.length < f := by simp at hf; omega
      simp [h1, h2, ih a r f h3 hf']

/-! ### downwards from an output -/

inductive OTree where
  | leaf (x : Nat)                     -- a target that is no `IOutput` (an input of a component)
  | out (x : Nat) (kids : List OTree)  -- an `IOutput` (an adapter) and what hangs below it

mutual
def ORepr (h : Heap) : Nat → OTree → Prop
  | x, .leaf y => x = y ∧ h.isOutput x = false
  | x, .out y ks => x = y ∧ h.isOutput x = true ∧ OLRepr h (h.targets x) ks
def OLRepr (h : Heap) : List Nat → List OTree → Prop
  | [], [] => True
  | x :: xs, t :: ts => ORepr h x t ∧ OLRepr h xs ts
  | _, _ => False
end

mutual
/-- the inputs at the ends of the links below an element -/
def OTree.leaves : OTree → List Nat
  | .leaf x => [x]
  | .out _ ks => leavesL ks
def leavesL : List OTree → List Nat
  | [] => []
  | t :: ts => t.leaves ++ leavesL ts
end

mutual
/-- the `IOutput`s (adapters) at and below an element -/
def OTree.outs : OTree → List Nat
  | .leaf _ => []
  | .out x ks => x :: outsL ks
def outsL : List OTree → List Nat
  | [] => []
  | t :: ts => t.outs ++ outsL ts
end

/-- the direct targets that are no `IOutput` -/
def topLeaves : List OTree → List Nat
  | [] => []
  | .leaf x :: ts => x :: topLeaves ts
  | .out _ _ :: ts => topLeaves ts

/-- the direct targets that are `IOutput`s, with what hangs below each: what one round adds to the work set -/
def kidsG : List OTree → List (Nat × List OTree)
  | [] => []
  | .leaf _ :: ts => kidsG ts
  | .out x ks :: ts => (x, ks) :: kidsG ts

/-- ghost work set: every element on the work set with the trees below it -/
abbrev Ghost := List (Nat × List OTree)

def gouts (G : Ghost) : List Nat := G.flatMap fun p => p.1 :: outsL p.2
def gleaves (G : Ghost) : List Nat := G.flatMap fun p => leavesL p.2
def GRepr (h : Heap) (G : Ghost) : Prop := ∀ p ∈ G, OLRepr h (h.targets p.1) p.2

theorem gouts_append (G H : Ghost) : gouts (G ++ H) = gouts G ++ gouts H := by simp [gouts]
theorem gleaves_append (G H : Ghost) : gleaves (G ++ H) = gleaves G ++ gleaves H := by simp [gleaves]

theorem gouts_kidsG : ∀ ts : List OTree, gouts (kidsG ts) = outsL ts := by
  intro ts
  induction ts with
  | nil => simp [kidsG, gouts, outsL]
  | cons t ts ih =>
    cases t with
    | leaf x => simpa [kidsG, outsL, OTree.outs] using ih
    | out x ks =>
      have : gouts ((x, ks) :: kidsG ts) = (x :: outsL ks) ++ gouts (kidsG ts) := by simp [gouts]
      simp [kidsG, outsL, OTree.outs, this, ih]

theorem mem_leavesL_split : ∀ (ts : List OTree) (y : Nat),
    y ∈ leavesL ts ↔ y ∈ topLeaves ts ∨ y ∈ gleaves (kidsG ts) := by
  intro ts
  induction ts with
  | nil => intro y; simp [leavesL, topLeaves, kidsG, gleaves]
  | cons t ts ih =>
    intro y
    cases t with
    | leaf x =>
      simp only [leavesL, OTree.leaves, topLeaves, kidsG, List.mem_append, List.mem_cons, List.mem_singleton,
        List.not_mem_nil, or_false, ih y]
      constructor
      · rintro (h | h | h)
        · exact .inl (.inl h)
        · exact .inl (.inr h)
        · exact .inr h
      · rintro ((h | h) | h)
        · exact .inl h
        · exact .inr (.inl h)
        · exact .inr (.inr h)
    | out x ks =>
      have e : gleaves ((x, ks) :: kidsG ts) = leavesL ks ++ gleaves (kidsG ts) := by simp [gleaves]
      simp only [leavesL, OTree.leaves, topLeaves, kidsG, List.mem_append, e, ih y]
      constructor
      · rintro (h | h | h)
        · exact .inr (.inl h)
        · exact .inl h
        · exact .inr (.inr h)
      · rintro (h | h | h)
        · exact .inr (.inl h)
        · exact .inl h
        · exact .inr (.inr h)

theorem grepr_kidsG (h : Heap) : ∀ (ts : List OTree) (objs : List Nat), OLRepr h objs ts → GRepr h (kidsG ts) := by
  intro ts
  induction ts with
  | nil => intro objs _ p hp; simp [kidsG] at hp
  | cons t ts ih =>
    intro objs hr
    cases objs with
    | nil => simp [OLRepr] at hr
    | cons x xs =>
      simp only [OLRepr] at hr
      cases t with
      | leaf y => simpa [kidsG] using ih xs hr.2
      | out y ks =>
        intro p hp
        simp only [kidsG, List.mem_cons] at hp
        rcases hp with hp | hp
        · subst hp
          have := hr.1
          simp only [ORepr] at this
          obtain ⟨hxy, _, hk⟩ := this
          subst hxy
          exact hk
        · exact ih xs hr.2 p hp

theorem map_fst_sublist_gouts : ∀ G : Ghost, (G.map Prod.fst).Sublist (gouts G) := by
  intro G
  induction G with
  | nil => simp [gouts]
  | cons p G ih =>
    have : gouts (p :: G) = p.1 :: (outsL p.2 ++ gouts G) := by simp [gouts]
    rw [this, List.map_cons]
    exact List.Sublist.cons_cons _ ((List.sublist_append_of_sublist_right ih))

theorem setAdd_new (s : List Nat) (x : Nat) (hx : x ∉ s) : setAdd s x = s ++ [x] := by simp [setAdd, hx]

theorem popLast_concat {α} (a : α) : ∀ (l : List α), popLast (l ++ [a]) = .ok (a, l) := by
  intro l
  induction l with
  | nil => rfl
  | cons x l ih =>
    cases l with
    | nil => simp [popLast, Except.map]
    | cons y l' =>
      have : (x :: y :: l') ++ [a] = x :: y :: (l' ++ [a]) := rfl
      rw [this, popLast]
      have ih' : popLast (y :: (l' ++ [a])) = .ok (a, y :: l') := ih
      rw [ih']; rfl

/-- the `for target in curr_targets` loop of one round: the inputs among the targets go to `all_inputs`, the
    `IOutput`s to the end of the work set (none of them is on it already) -/
theorem round_loop (h : Heap) (cur : List Nat) : ∀ (ts : List OTree) (objs : List Nat) (a T : List Nat) (tg : Nat),
    OLRepr h objs ts → (T ++ outsL ts).Nodup →
    Tr.collect_inputs_outputs.loop6 h a T tg cur objs = .ok (addAll a (topLeaves ts), T ++ (kidsG ts).map Prod.fst) := by
  intro ts
  induction ts with
  | nil =>
    intro objs a T tg hr _
    cases objs with
    | nil => unfold Tr.collect_inputs_outputs.loop6; simp [topLeaves, kidsG, addAll, pure, Except.pure]
    | cons _ _ => simp [OLRepr] at hr
  | cons t ts ih =>
    intro objs a T tg hr hn
    cases objs with
    | nil => simp [OLRepr] at hr
    | cons x xs =>
      simp only [OLRepr] at hr
      obtain ⟨hx, hxs⟩ := hr
      unfold Tr.collect_inputs_outputs.loop6
      cases t with
      | leaf y =>
        simp only [ORepr] at hx
        obtain ⟨hxy, hno⟩ := hx
        subst hxy
        have hn' : (T ++ outsL ts).Nodup := by simpa [outsL, OTree.outs] using hn
        simp [hno, ih xs (setAdd a x) T x hxs hn', topLeaves, kidsG, addAll]
      | out y ks =>
        simp only [ORepr] at hx
        obtain ⟨hxy, hio, _⟩ := hx
        subst hxy
        have e : T ++ outsL (OTree.out x ks :: ts) = T ++ x :: (outsL ks ++ outsL ts) := by simp [outsL, OTree.outs]
        rw [e] at hn
        have hxT : x ∉ T := by
          intro hm
          have := (List.nodup_append.mp hn).2.2 x hm x List.mem_cons_self
          exact this rfl
        have hn' : ((T ++ [x]) ++ outsL ts).Nodup := by
          refine hn.sublist ?_
          rw [List.append_assoc]
          refine List.Sublist.append (List.Sublist.refl _) ?_
          simp only [List.singleton_append]
          exact List.Sublist.cons_cons _ (List.sublist_append_right _ _)
        simp [hio, setAdd_new T x hxT, ih xs a (T ++ [x]) x hxs hn', topLeaves, kidsG]

/-- **the work-set loop of `_collect_inputs_outputs`** adds to `all_inputs` exactly the inputs at the ends of the links
    below the elements on the work set, and empties the set; one round per `IOutput` reached -/
theorem work_loop (h : Heap) : ∀ (n : Nat) (G : Ghost) (a : List Nat) (wf : Nat),
    (gouts G).length ≤ n → n < wf → GRepr h G → (gouts G).Nodup →
    ∃ L, Tr.collect_inputs_outputs.while5 h a (G.map Prod.fst) wf = .ok (addAll a L, []) ∧
      ∀ y, y ∈ L ↔ y ∈ gleaves G := by
  intro n
  induction n with
  | zero =>
    intro G a wf hl hf _ _
    have hG : G = [] := by
      cases G with
      | nil => rfl
      | cons p G => simp [gouts] at hl
    subst hG
    cases wf with
    | zero => omega
    | succ f =>
      refine ⟨[], ?_, by simp [gleaves]⟩
      unfold Tr.collect_inputs_outputs.while5
      simp [Py.len, addAll, pure, Except.pure]
  | succ n ih =>
    intro G a wf hl hf hr hn
    cases wf with
    | zero => omega
    | succ f =>
      rcases List.eq_nil_or_concat G with hG | ⟨G', p, hG⟩
      · subst hG
        refine ⟨[], ?_, by simp [gleaves]⟩
        unfold Tr.collect_inputs_outputs.while5
        simp [Py.len, addAll, pure, Except.pure]
      · rw [List.concat_eq_append] at hG
        subst hG
        obtain ⟨x, ks⟩ := p
        have hgo : gouts (G' ++ [(x, ks)]) = gouts G' ++ x :: outsL ks := by simp [gouts]
        rw [hgo] at hn hl
        have hks : OLRepr h (h.targets x) ks := hr (x, ks) (by simp)
        have hT : ((G'.map Prod.fst) ++ outsL ks).Nodup := by
          refine hn.sublist ?_
          exact List.Sublist.append (map_fst_sublist_gouts G') (List.sublist_cons_self _ _)
        have hround := round_loop h (h.targets x) ks (h.targets x) a (G'.map Prod.fst) x hks hT
        have hr' : GRepr h (G' ++ kidsG ks) := by
          intro q hq
          rcases List.mem_append.mp hq with hq | hq
          · exact hr q (by simp [hq])
          · exact grepr_kidsG h ks _ hks q hq
        have hgo' : gouts (G' ++ kidsG ks) = gouts G' ++ outsL ks := by rw [gouts_append, gouts_kidsG]
        have hn' : (gouts (G' ++ kidsG ks)).Nodup := by
          rw [hgo']
          exact hn.sublist (List.Sublist.append (List.Sublist.refl _) (List.sublist_cons_self _ _))
        have hl' : (gouts (G' ++ kidsG ks)).length ≤ n := by
          rw [hgo']; simp at hl ⊢; omega
        obtain ⟨L', hw, hm⟩ := ih (G' ++ kidsG ks) (addAll a (topLeaves ks)) f hl' (by omega) hr' hn'
        refine ⟨topLeaves ks ++ L', ?_, ?_⟩
        · unfold Tr.collect_inputs_outputs.while5
          have hlen : Py.len (List.map Prod.fst (G' ++ [(x, ks)])) > 0 := by simp [Py.len]
          have hpop : popLast (List.map Prod.fst (G' ++ [(x, ks)])) = .ok (x, G'.map Prod.fst) := by
            rw [List.map_append]; exact popLast_concat x _
          have hw' : Tr.collect_inputs_outputs.while5 h (addAll a (topLeaves ks))
              (List.map Prod.fst G' ++ List.map Prod.fst (kidsG ks)) f = .ok (addAll (addAll a (topLeaves ks)) L', []) := by
            rw [← List.map_append]; exact hw
          simp only [hlen, if_true, hpop, hround, hw', bind, Except.bind, addAll_append]
        · intro y
          have e1 : gleaves [(x, ks)] = leavesL ks := by simp [gleaves]
          rw [List.mem_append, hm y, gleaves_append, gleaves_append, List.mem_append, List.mem_append, e1,
            mem_leavesL_split ks y]
          constructor
          · rintro (h1 | h1 | h1)
            · exact .inr (.inl h1)
            · exact .inl h1
            · exact .inr (.inr h1)
          · rintro (h1 | h1 | h1)
            · exact .inr (.inl h1)
            · exact .inl h1
            · exact .inr (.inr h1)

/-! ### the composition -/

/-- the heap is described by `top` / `down` around the listed components, within the fuel `h.size + 1` the code uses:
    every input of a listed component leads up to `top i`; below every output hangs the tree `down o`, whose `IOutput`s
    are distinct objects -/
structure Described (h : Heap) (comps : List Nat) (top : Nat → Nat) (down : Nat → List OTree) : Prop where
  ups : ∀ c ∈ comps, ∀ i ∈ h.inputs c, ∃ as, UpTo h i as (top i) ∧ as.length ≤ h.size
  downs : ∀ c ∈ comps, ∀ o ∈ h.outputs c,
    OLRepr h (h.targets o) (down o) ∧ (o :: outsL (down o)).Nodup ∧ (outsL (down o)).length + 1 ≤ h.size

theorem collect_ups (h : Heap) (top : Nat → Nat) (c : Nat) : ∀ (is : List Nat) (s : List Nat),
    (∀ i ∈ is, ∃ as, UpTo h i as (top i) ∧ as.length ≤ h.size) →
    Tr.collect_inputs_outputs.loop2 h s c (is.map fun i => ((), i)) = .ok (addAll s (is.map top)) := by
  intro is
  induction is with
  | nil => intro s _; unfold Tr.collect_inputs_outputs.loop2; simp [addAll, pure, Except.pure]
  | cons i is ih =>
    intro s hi
    obtain ⟨as, h1, h2⟩ := hi i List.mem_cons_self
    have hw := up_walk h as i (top i) (h.size + 1) h1 (by omega)
    simp only [List.map_cons]
    unfold Tr.collect_inputs_outputs.loop2
    simp [hw, bind, Except.bind, ih _ (fun j hj => hi j (List.mem_cons_of_mem _ hj)), addAll]

theorem collect_downs (h : Heap) (down : Nat → List OTree) (c : Nat) : ∀ (os : List Nat) (s : List Nat),
    (∀ o ∈ os, OLRepr h (h.targets o) (down o) ∧ (o :: outsL (down o)).Nodup ∧ (outsL (down o)).length + 1 ≤ h.size) →
    ∃ L, Tr.collect_inputs_outputs.loop4 h s c (os.map fun o => ((), o)) = .ok (addAll s L) ∧
      ∀ y, y ∈ L ↔ ∃ o ∈ os, y ∈ leavesL (down o) := by
  intro os
  induction os with
  | nil =>
    intro s _
    exact ⟨[], by unfold Tr.collect_inputs_outputs.loop4; simp [addAll, pure, Except.pure], by simp⟩
  | cons o os ih =>
    intro s ho
    obtain ⟨h1, h2, h3⟩ := ho o List.mem_cons_self
    have hgo : gouts [(o, down o)] = o :: outsL (down o) := by simp [gouts]
    obtain ⟨L1, hw, hm1⟩ := work_loop h (outsL (down o)).length.succ [(o, down o)] s (h.size + 1)
      (by rw [hgo]; simp) (by omega) (by intro p hp; simp at hp; subst hp; exact h1) (by rw [hgo]; exact h2)
    obtain ⟨L2, hrest, hm2⟩ := ih (addAll s L1) (fun j hj => ho j (List.mem_cons_of_mem _ hj))
    refine ⟨L1 ++ L2, ?_, ?_⟩
    · simp only [List.map_cons]
      unfold Tr.collect_inputs_outputs.loop4
      have hw' : Tr.collect_inputs_outputs.while5 h s (setAdd [] o) (h.size + 1) = .ok (addAll s L1, []) := by
        simpa [setAdd] using hw
      simp only [hw', bind, Except.bind, hrest, addAll_append]
    · intro y
      rw [List.mem_append, hm1 y, hm2 y]
      have : gleaves [(o, down o)] = leavesL (down o) := by simp [gleaves]
      rw [this]
      simp only [List.mem_cons, exists_eq_or_imp]

theorem collect_comps (h : Heap) (all : List Nat) (top : Nat → Nat) (down : Nat → List OTree) :
    ∀ (cs : List Nat) (ins outs : List Nat), Described h cs top down →
    ∃ L, Tr.collect_inputs_outputs.loop1 h all ins outs cs
        = .ok (addAll ins L, addAll outs (cs.flatMap fun c => (h.inputs c).map top)) ∧
      ∀ y, y ∈ L ↔ ∃ c ∈ cs, ∃ o ∈ h.outputs c, y ∈ leavesL (down o) := by
  intro cs
  induction cs with
  | nil =>
    intro ins outs _
    exact ⟨[], by unfold Tr.collect_inputs_outputs.loop1; simp [addAll, pure, Except.pure], by simp⟩
  | cons c cs ih =>
    intro ins outs hd
    have hu := collect_ups h top c (h.inputs c) outs (hd.ups c List.mem_cons_self)
    obtain ⟨L1, hdn, hm1⟩ := collect_downs h down c (h.outputs c) ins (hd.downs c List.mem_cons_self)
    have hd' : Described h cs top down :=
      ⟨fun c' hc' => hd.ups c' (List.mem_cons_of_mem _ hc'), fun c' hc' => hd.downs c' (List.mem_cons_of_mem _ hc')⟩
    obtain ⟨L2, hrest, hm2⟩ := ih (addAll ins L1) (addAll outs ((h.inputs c).map top)) hd'
    refine ⟨L1 ++ L2, ?_, ?_⟩
    · unfold Tr.collect_inputs_outputs.loop1
      simp only [hu, hdn, bind, Except.bind, hrest, List.flatMap_cons, addAll_append]
    · intro y
      rw [List.mem_append, hm1 y, hm2 y]
      simp only [List.mem_cons, exists_eq_or_imp]

/-- **`_collect_inputs_outputs`** returns, as duplicate-free sets, exactly the inputs at the ends of the links below
    the outputs of the listed components, and exactly the tops of the chains above their inputs -/
theorem tr_collect_inputs_outputs (h : Heap) (comps : List Nat) (top : Nat → Nat) (down : Nat → List OTree)
    (hd : Described h comps top down) :
    ∃ ins outs, Tr.collect_inputs_outputs h comps = .ok (ins, outs) ∧ ins.Nodup ∧ outs.Nodup ∧
      (∀ y, y ∈ ins ↔ ∃ c ∈ comps, ∃ o ∈ h.outputs c, y ∈ leavesL (down o)) ∧
      (∀ r, r ∈ outs ↔ ∃ c ∈ comps, ∃ i ∈ h.inputs c, r = top i) := by
  obtain ⟨L, hl, hm⟩ := collect_comps h comps top down comps [] [] hd
  refine ⟨addAll [] L, addAll [] (comps.flatMap fun c => (h.inputs c).map top), ?_, nodup_addAll _ _ List.nodup_nil,
    nodup_addAll _ _ List.nodup_nil, ?_, ?_⟩
  · unfold Tr.collect_inputs_outputs
    simp [hl, bind, Except.bind, pure, Except.pure]
  · intro y; rw [mem_addAll]; simp [hm y]
  · intro r; rw [mem_addAll]; simp only [List.not_mem_nil, false_or, List.mem_flatMap, List.mem_map]
    constructor
    · rintro ⟨c, hc, i, hi, e⟩; exact ⟨c, hc, i, hi, e.symm⟩
    · rintro ⟨c, hc, i, hi, e⟩; exact ⟨c, hc, i, hi, e.symm⟩

/-! ### `_check_missing_components` -/

theorem len_pos_iff (l : List Nat) : (Py.len l > 0) ↔ ∃ y, y ∈ l := by
  cases l with
  | nil => simp [Py.len]
  | cons x xs => simp [Py.len]

theorem mem_setDiff (a b : List Nat) (y : Nat) : y ∈ setDiff a b ↔ y ∈ a ∧ y ∉ b := by
  simp [setDiff]

theorem mem_setOfList (l : List Nat) (y : Nat) : y ∈ setOfList l ↔ y ∈ l := by
  have := mem_addAll l [] y
  simpa [setOfList, addAll] using this

/-- a linked input that belongs to no listed component / a source of a listed input that belongs to no listed
    component -/
def ForeignInput (h : Heap) (comps : List Nat) (down : Nat → List OTree) : Prop :=
  ∃ y, (∃ c ∈ comps, ∃ o ∈ h.outputs c, y ∈ leavesL (down o)) ∧ ¬ ∃ c ∈ comps, y ∈ h.inputs c
def ForeignOutput (h : Heap) (comps : List Nat) (top : Nat → Nat) : Prop :=
  ∃ r, (∃ c ∈ comps, ∃ i ∈ h.inputs c, r = top i) ∧ ¬ ∃ c ∈ comps, r ∈ h.outputs c

/-- **C19 on the code — components that are linked but not listed, exactly.**  `_check_missing_components` raises the
    connect error iff some input at the end of a link from a listed component's output is no input of a listed
    component, or some output at the top of the chain above a listed component's input is no output of a listed
    component; otherwise it returns.  No other answer exists. -/
theorem code_missing_exact (h : Heap) (comps : List Nat) (top : Nat → Nat) (down : Nat → List OTree)
    (hd : Described h comps top down) :
    (ForeignInput h comps down ∨ ForeignOutput h comps top → Tr.check_missing_components h comps = .error Err.connectErr) ∧
    (¬ (ForeignInput h comps down ∨ ForeignOutput h comps top) → Tr.check_missing_components h comps = .ok ()) := by
  obtain ⟨ins, outs, hc, _, _, hi, ho⟩ := tr_collect_inputs_outputs h comps top down hd
  have e1 : (Py.len (setDiff ins (setOfList (comps.flatMap h.inputs))) > 0) ↔ ForeignInput h comps down := by
    rw [len_pos_iff]
    unfold ForeignInput
    constructor
    · rintro ⟨y, hy⟩
      rw [mem_setDiff, mem_setOfList, hi y] at hy
      exact ⟨y, hy.1, by simpa [List.mem_flatMap] using hy.2⟩
    · rintro ⟨y, h1, h2⟩
      refine ⟨y, ?_⟩
      rw [mem_setDiff, mem_setOfList, hi y]
      exact ⟨h1, by simpa [List.mem_flatMap] using h2⟩
  have e2 : (Py.len (setDiff outs (setOfList (comps.flatMap h.outputs))) > 0) ↔ ForeignOutput h comps top := by
    rw [len_pos_iff]
    unfold ForeignOutput
    constructor
    · rintro ⟨y, hy⟩
      rw [mem_setDiff, mem_setOfList, ho y] at hy
      exact ⟨y, hy.1, by simpa [List.mem_flatMap] using hy.2⟩
    · rintro ⟨y, h1, h2⟩
      refine ⟨y, ?_⟩
      rw [mem_setDiff, mem_setOfList, ho y]
      exact ⟨h1, by simpa [List.mem_flatMap] using h2⟩
  unfold Tr.check_missing_components
  simp only [hc, bind, Except.bind]
  constructor
  · intro hf
    by_cases hA : ForeignInput h comps down
    · simp [e1.mpr hA, throw, throwThe, MonadExceptOf.throw]
    · have hB : ForeignOutput h comps top := hf.resolve_left hA
      have hA' : ¬ (Py.len (setDiff ins (setOfList (comps.flatMap h.inputs))) > 0) := fun x => hA (e1.mp x)
      simp [hA', e2.mpr hB, throw, throwThe, MonadExceptOf.throw]
  · intro hf
    have hA' : ¬ (Py.len (setDiff ins (setOfList (comps.flatMap h.inputs))) > 0) := fun x => hf (.inl (e1.mp x))
    have hB' : ¬ (Py.len (setDiff outs (setOfList (comps.flatMap h.outputs))) > 0) := fun x => hf (.inr (e2.mp x))
    simp [hA', hB', pure, Except.pure]

/-! ### non-vacuity: a producer `0` (output `10`) → adapter `1` → {input `20` of consumer `2`, adapter `3` → input `21`
    of a component that is not listed} -/

def exH : Heap :=
  { isInput := fun x => x ∈ [1, 3, 20, 21], isOutput := fun x => x ∈ [10, 1, 3], isAdapter := fun x => x ∈ [1, 3],
    isNoDep := fun _ => false, isDelay := fun _ => false, isNoBranch := fun _ => false, isTimeComp := fun _ => false,
    needsPush := fun _ => false, needsPull := fun _ => false, isStatic := fun _ => false, finished := fun _ => false,
    hasSource := fun x => x ∈ [1, 3, 20, 21],
    source := fun x => if x = 1 then 10 else if x = 20 then 1 else if x = 3 then 1 else if x = 21 then 3 else 0,
    time := fun _ => 0, nextTime := fun _ => 0, withDelay := fun _ t => t, owner := fun _ => 0,
    inputs := fun c => if c = 2 then [20] else [], outputs := fun c => if c = 0 then [10] else [],
    targets := fun x => if x = 10 then [1] else if x = 1 then [20, 3] else if x = 3 then [21] else [],
    size := 8 }

example : Tr.collect_inputs_outputs exH [0, 2] = .ok ([20, 21], [10]) := by decide
example : Tr.check_missing_components exH [0, 2] = .error Err.connectErr := by decide

def exTop : Nat → Nat := fun _ => 10
def exDown : Nat → List OTree := fun _ => [.out 1 [.leaf 20, .out 3 [.leaf 21]]]

theorem exDescribed : Described exH [0, 2] exTop exDown := by
  constructor
  · intro c hc i hi
    simp at hc
    rcases hc with rfl | rfl
    · simp [exH] at hi
    · simp [exH] at hi
      subst hi
      exact ⟨[1, 10], by simp [UpTo, exH, exTop], by simp [exH]⟩
  · intro c hc o ho
    simp at hc
    rcases hc with rfl | rfl
    · simp [exH] at ho
      subst ho
      refine ⟨by simp [OLRepr, ORepr, exDown, exH], by simp [exDown, outsL, OTree.outs], by simp [exDown, outsL, OTree.outs, exH]⟩
    · simp [exH] at ho

example : ForeignInput exH [0, 2] exDown :=
  ⟨21, ⟨0, by simp, 10, by simp [exH], by simp [exDown, leavesL, OTree.leaves]⟩, by simp [exH]⟩

end Finam.Props.C19M
